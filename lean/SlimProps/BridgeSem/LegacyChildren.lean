import Generated.Funcs
import SlimProps.BridgeSem.PrintAxioms
import SlimProps.BridgeSem.Common
import SlimProps.BridgeSem.Extern
import SlimModel.Legacy

/-
  SlimProps.BridgeSem.LegacyChildren — tie 1, semantic part, the LEGACY LOADER (trie/slimtrie_marshal.go,
  data written by ≤ 0.5.9): the accessors `before000510ToNewChildrenArray` reads the three old arrays
  with, translated WHOLE into `namespace Generated.WL` (package trie type-checked against the SOURCE of
  package array: `*array.Array32`, `*array.U16` = `U16{Base{Array32, EltEncoder}}` with promoted fields;
  the callee `(*U16).Get` and `bmBit` of array/int.go, array/base.go are translated with them):

    `bmhas_sem`                  Generated.WL.bmhas bm i = some (Legacy.bmhas bm i)                     (bitmap.SafeGet1 == 1)
    `U16_Get_sem`                Generated.WL.U16.Get (absU16 a) idx = (okOpt (Legacy.u16Get a idx)).map getRes
    `getStepBefore000510_sem`    Generated.WL.getStepBefore000510 (absU16 steps) nid
                                   = (okOpt (Legacy.getStep steps nid)).map (4 * ·)
                                 (presence test, `stp--` in `uint16` — a stored 0 wraps to 65535 —, the step
                                 rebase from half-bytes INCLUDING the label to bits EXCLUDING it: the Go
                                 function returns bits, the model half-bytes; the model's `none` branch after
                                 a positive `bmhas` is shown unreachable)
    `getBM16Child_sem`           Generated.WL.getBM16Child (absArr ch) idx = okOpt (Legacy.getBM16Child ch idx)
                                 (children bitmap decoding for BOTH encodings: `Flags & ArrayFlagIsBitmap == 0`
                                 → low 16 bits of the little-endian uint32 element `Elts[eltIdx*4:]`;
                                 otherwise `bitmap.Getw(BMElts.Words, eltIdx, 16)`; then `<< 1`)

  all INCLUDING the panics (index / slice bounds, nil `BMElts`, `endian.UintNN` on a short slice), under
  range hypotheses: positions `< 2^31`, fewer than 2^31 bitmap words, `U16GetFits` (`offset*2 + rank*2`
  is an `int32`), `BM16Fits` (offsets are `int32`s, `eltIdx*16 < 2^31`).

  External semantics ASSUMED (Generated/GoSem.lean): `bitmap.SafeGet1`, `bitmap.Getw` (transcribed from
  openacid/low bitmap/get.go), `bitmap.Rank64` (agT1; `Extern.rank64_sem`), `binary.LittleEndian.Uint16/32`
  with the library's bounds check (`Go.uintLEChk`), `bits.OnesCount64`; `must.Be.*` are debug assertions
  (no effect without the build tag).  The queue / creator loop of `before000510ToNewChildrenArray` itself
  (slice of pointers to a local struct type, closures, `range`, the creator) is NOT translated: the
  model's `Legacy.convert` calls exactly the functions bridged here (`bmhas`, `getStep`, `getBM16Child`).
  See SlimProps/BridgeSem.lean for the overview.
-/

set_option linter.unusedSimpArgs false
set_option linter.unusedVariables false

open Generated Bits

namespace BridgeSem

/-! ### abstraction: the model's `Array32Msg` as the generated structures of package array -/

def absBits (b : BitsMsg) : WL.Bits :=
  { Flags := b.flags, N := b.n, Words := b.words, RankIndex := b.rankIndex }

def absArr (a : Array32Msg) : WL.Array32 :=
  { Cnt := a.cnt, Bitmaps := a.bitmaps, Offsets := a.offsets, Elts := natBytes a.elts, Flags := a.flags,
    EltWidth := a.eltWidth, BMElts := a.bmElts.map absBits }

/-- a `*array.U16` (`U16{Base{Array32, EltEncoder}}`; the encoder is not represented) -/
def absU16 (a : Array32Msg) : WL.U16 := { Base := { Array32 := absArr a } }

/-- `(w >> j) & 1` as a `uint64` is bit `j` -/
theorem shr_and_one (w j : Nat) : Go.and (Go.shr w j) 1 = b2n (w.testBit j) := by
  rw [and_eq, shr_eq, Nat.and_one_is_mod, Nat.testBit_eq_decide_div_mod_eq]
  unfold b2n
  by_cases hb : w / 2 ^ j % 2 = 1 <;> simp [hb]; omega

theorem b2n_eq_one (b : Bool) : (b2n b == 1) = b := by cases b <;> rfl
theorem b2n_eq_zero (b : Bool) : (b2n b == 0) = !b := by cases b <;> rfl
theorem b2n_one_eq (b : Bool) : (1 == b2n b) = b := by cases b <;> rfl
theorem b2n_ne_zero (b : Bool) : (b2n b != 0) = b := by cases b <;> rfl
theorem b2n_ne_one (b : Bool) : (b2n b != 1) = !b := by cases b <;> rfl
theorem b2n_zero_eq (b : Bool) : (0 == b2n b) = !b := by cases b <;> rfl

/-! operand order: the bridges do not depend on it (`simp only [go_add_comm, …]` orders the operands of
    the commutative operations in the goal and in the facts about it the same way) -/
theorem go_add_comm (w a b : Nat) : Go.add w a b = Go.add w b a := by unfold Go.add; rw [Nat.add_comm]
theorem go_mul_comm (w a b : Nat) : Go.mul w a b = Go.mul w b a := by unfold Go.mul; rw [Nat.mul_comm]
theorem go_and_comm (a b : Nat) : Go.and a b = Go.and b a := by unfold Go.and; rw [Nat.and_comm]

/-- comparisons of the literals 0, 1, 2 (both polarities of a test) -/
theorem lit_tests :
    ((0 : Nat) == 0) = true ∧ ((0 : Nat) != 0) = false ∧ ((1 : Nat) == 0) = false ∧ ((1 : Nat) != 0) = true ∧
    ((2 : Nat) == 0) = false ∧ ((2 : Nat) != 0) = true ∧ ((0 : Nat) == 1) = false ∧ ((1 : Nat) == 1) = true ∧
    ((0 : Nat) != 1) = true ∧ ((1 : Nat) != 1) = false ∧ ((0 : Nat) == 2) = false ∧ ((2 : Nat) == 2) = true :=
  ⟨rfl, rfl, rfl, rfl, rfl, rfl, rfl, rfl, rfl, rfl, rfl, rfl⟩

/-! ### `bmhas` = `bitmap.SafeGet1(bm, i) == 1` -/

theorem bmhas_sem (bm : List Nat) (i : Nat) (hi : i < 2 ^ 31) (hlen : bm.length < 2 ^ 31) :
    Generated.WL.bmhas bm i = some (Legacy.bmhas bm i) := by
  unfold Generated.WL.bmhas Go.safeGet1 Legacy.bmhas
  have h1 : Go.sar 32 i 6 = i / 64 := by go_simp
  have h2 : Go.and i 63 = i % 64 := by go_simp
  have h3 : i / 64 < 2 ^ (32 - 1) := by omega
  have h4 : Go.conv 64 true 32 bm.length = bm.length := by
    rw [conv_narrow _ _ _ _ (by omega)]; exact Nat.mod_eq_of_lt (by omega)
  have h5 : Go.conv 32 true 64 (i % 64) = i % 64 := by rw [conv_widen_small _ _ _ (by omega) (by omega)]
  have h6 : Go.ltS 32 (i / 64) 0 = false := by rw [ltS_small (by omega) (by omega)]; simp
  have h7 : Go.leS 32 bm.length (i / 64) = decide (bm.length ≤ i / 64) := by
    rw [leS_small (by omega) (by omega)]
  simp only [h1, h2, h4, h5, h6, h7, Bool.false_or, idxS_eq _ _ _ h3]
  by_cases hle : bm.length ≤ i / 64
  · simp [hle, List.getElem?_eq_none hle]
  · have hlt : i / 64 < bm.length := by omega
    simp [hle, List.getElem?_eq_getElem hlt, shr_and_one, b2n_eq_one, b2n_one_eq]

/-! ### `(*array.U16).Get` (array/int.go) = `Legacy.u16Get` -/

/-- the result `(uint16, bool)` of `U16.Get` for the model's `Option Nat` -/
def getRes (r : Option Nat) : Nat × Bool := match r with | some v => (v, true) | none => (0, false)

/-- `Get` stays inside `int32`: the offset entry is an `int32` and `offset*2 + rank*2` does not overflow -/
def U16GetFits (a : Array32Msg) (idx : Nat) : Prop :=
  ∀ n off, a.bitmaps[idx / 64]? = some n → a.offsets[idx / 64]? = some off →
    off * 2 + popcount (n % 2 ^ (idx % 64)) * 2 < 2 ^ 31

theorem uintLEChk2 (bs : Bytes) (st : Nat) (hst : st ≤ bs.length) :
    Go.uintLEChk 2 ((natBytes bs).drop st)
      = match bs[st]?, bs[st + 1]? with
        | some b0, some b1 => some (b0.toNat + 256 * b1.toNat)
        | _, _ => none := by
  unfold Go.uintLEChk Go.uintLittleEndian
  rw [List.length_drop, natBytes_length]
  by_cases h2 : st + 2 ≤ bs.length
  · rw [if_pos (by omega)]
    have e0 : bs[st]? = some bs[st] := List.getElem?_eq_getElem (by omega)
    have e1 : bs[st + 1]? = some bs[st + 1] := List.getElem?_eq_getElem (by omega)
    rw [e0, e1]
    have hl : st + 1 < (List.map UInt8.toNat bs).length := by simp; omega
    have hd : (natBytes bs).drop st = bs[st].toNat :: bs[st + 1].toNat :: (natBytes bs).drop (st + 2) := by
      unfold natBytes
      rw [List.drop_eq_getElem_cons (by omega : st < (List.map UInt8.toNat bs).length),
        List.drop_eq_getElem_cons hl]
      simp
    rw [hd]
    simp [Go.leValNat]
  · rw [if_neg (by omega)]
    by_cases h1 : st + 1 ≤ bs.length
    · have e1 : bs[st + 1]? = none := List.getElem?_eq_none (by omega)
      rw [e1]; cases bs[st]? <;> rfl
    · have e0 : bs[st]? = none := List.getElem?_eq_none (by omega)
      rw [e0]

theorem U16_Get_sem (a : Array32Msg) (idx : Nat) (hidx : idx < 2 ^ 31) (hfit : U16GetFits a idx) :
    Generated.WL.U16.Get (absU16 a) idx = (okOpt (Legacy.u16Get a idx)).map getRes := by
  unfold Generated.WL.U16.Get Generated.WL.bmBit Legacy.u16Get
  have h1 : Go.sar 32 idx 6 = idx / 64 := by go_simp
  have h2 : Go.and idx 63 = idx % 64 := by go_simp
  have h3 : idx / 64 < 2 ^ (32 - 1) := by omega
  have h5 : Go.conv 32 true 64 (idx % 64) = idx % 64 := by rw [conv_widen_small _ _ _ (by omega) (by omega)]
  simp only [absU16, absArr, h1, h2, h5, Option.bind_eq_bind, Option.pure_def, Option.bind_some,
    idxS_eq _ _ _ h3]
  try simp only [go_add_comm, go_mul_comm, go_and_comm]
  cases hn : a.bitmaps[idx / 64]? with
  | none => simp [okOpt, Except.toOption]
  | some n =>
    have hbit : Go.and (Go.shr n (idx % 64)) 1 = b2n (n.testBit (idx % 64)) := shr_and_one _ _
    try simp only [go_add_comm, go_mul_comm, go_and_comm] at hbit
    simp only [Option.bind_some, hbit]
    by_cases hb : n.testBit (idx % 64)
    · cases ho : a.offsets[idx / 64]? with
      | none => simp [hb, b2n, okOpt, Except.toOption]
      | some off =>
        have hf := hfit n off hn ho
        have hmask : Go.and n (Go.sub 64 (Go.shl 64 1 (idx % 64)) 1) = n % 2 ^ (idx % 64) := by
          have hs : Go.shl 64 1 (idx % 64) = 2 ^ (idx % 64) := by
            rw [shl_small]; · omega
            · have : 2 ^ (idx % 64) < 2 ^ 64 := Nat.pow_lt_pow_right (by omega) (by omega)
              omega
          have hp : 0 < 2 ^ (idx % 64) := Nat.two_pow_pos _
          have hlt : 2 ^ (idx % 64) < 2 ^ 64 := Nat.pow_lt_pow_right (by omega) (by omega)
          rw [hs, sub_small (by omega) (by omega), and_eq]
          exact Nat.and_two_pow_sub_one_eq_mod n (idx % 64)
        have hp : Go.popcount64 (n % 2 ^ (idx % 64)) = popcount (n % 2 ^ (idx % 64)) := rfl
        have hst : Go.add 32 (Go.mul 32 off 2)
            (Go.mul 32 (Go.conv 64 true 32 (popcount (n % 2 ^ (idx % 64)))) 2)
            = off * 2 + popcount (n % 2 ^ (idx % 64)) * 2 := by
          have hc : Go.conv 64 true 32 (popcount (n % 2 ^ (idx % 64))) = popcount (n % 2 ^ (idx % 64)) := by
            rw [conv_narrow _ _ _ _ (by omega)]; exact Nat.mod_eq_of_lt (by omega)
          rw [hc, mul_small (by omega), mul_small (by omega), add_small (by omega)]
        try simp only [go_add_comm, go_mul_comm, go_and_comm] at hmask hst
        simp only [hb, b2n, lit_tests, Bool.not_true, Bool.false_eq_true, if_false, if_true, ↓reduceIte, hmask,
          hp, hst, Option.bind_some]
        generalize off * 2 + popcount (n % 2 ^ (idx % 64)) * 2 = st at *
        unfold Go.sliceFromS
        rw [natBytes_length]
        by_cases hle : st ≤ a.elts.length
        · rw [if_pos ⟨by omega, hle⟩]
          simp only [Option.bind_some]
          rw [uintLEChk2 _ _ hle]
          cases a.elts[st]? <;> cases a.elts[st + 1]? <;> simp [okOpt, getRes, Except.toOption, pure, Except.pure]
        · rw [if_neg (by omega)]
          have e0 : a.elts[st]? = none := List.getElem?_eq_none (by omega)
          simp [e0, okOpt, Except.toOption]
    · simp [hb, b2n, okOpt, getRes, Except.toOption, pure, Except.pure]

/-! ### `getStepBefore000510` = `Legacy.getStep` (the Go function returns bits, the model half-bytes) -/

theorem u16Get_lt (a : Array32Msg) (idx v : Nat) (h : Legacy.u16Get a idx = .ok (some v)) : v < 65536 := by
  unfold Legacy.u16Get at h
  cases hn : a.bitmaps[idx / 64]? with
  | none => simp [hn] at h
  | some n =>
    simp only [hn] at h
    by_cases hb : n.testBit (idx % 64)
    · cases ho : a.offsets[idx / 64]? with
      | none => simp [hb, ho] at h
      | some off =>
        simp only [hb, ho, Bool.not_true, Bool.false_eq_true, if_false, ↓reduceIte] at h
        split at h
        · next b0 b1 _ _ =>
          simp only [pure, Except.pure, Except.ok.injEq, Option.some.injEq] at h
          have := byte_lt b0; have := byte_lt b1; omega
        · cases h
    · simp [hb, pure, Except.pure] at h

theorem getStepBefore000510_sem (steps : Array32Msg) (nid : Nat) (hnid : nid < 2 ^ 31)
    (hlen : steps.bitmaps.length < 2 ^ 31) (hfit : U16GetFits steps nid) :
    Generated.WL.getStepBefore000510 (absU16 steps) nid = (okOpt (Legacy.getStep steps nid)).map (fun h => 4 * h) := by
  unfold Generated.WL.getStepBefore000510 Legacy.getStep
  have hb : Generated.WL.bmhas (absU16 steps).Base.Array32.Bitmaps nid = some (Legacy.bmhas steps.bitmaps nid) :=
    bmhas_sem steps.bitmaps nid hnid hlen
  rw [hb, U16_Get_sem steps nid hnid hfit]
  simp only [Option.bind_eq_bind, Option.bind_some, Option.pure_def]
  by_cases hh : Legacy.bmhas steps.bitmaps nid
  · simp only [hh, if_true]
    cases hg : Legacy.u16Get steps nid with
    | error e => simp [okOpt, Except.toOption, bind, Except.bind]
    | ok r =>
      cases r with
      | none =>
        -- unreachable: `bmhas` read the same bit as `Get`
        exfalso
        unfold Legacy.bmhas at hh
        unfold Legacy.u16Get at hg
        cases hn : steps.bitmaps[nid / 64]? with
        | none => simp [hn] at hh
        | some n =>
          simp only [hn] at hh hg
          simp only [hh, Bool.not_true, Bool.false_eq_true, if_false, ↓reduceIte] at hg
          cases ho : steps.offsets[nid / 64]? with
          | none => simp [ho] at hg
          | some off =>
            simp only [ho] at hg
            split at hg
            · simp [pure, Except.pure] at hg
            · cases hg
      | some v =>
        have hv := u16Get_lt steps nid v hg
        have h1 : Go.sub 16 v 1 = (v + 65535) % 65536 := by
          unfold Go.sub Go.wrap; omega
        have h2 : Go.mul 32 (Go.conv 16 false 32 ((v + 65535) % 65536)) 4 = 4 * ((v + 65535) % 65536) := by
          rw [conv_widen_u _ _ _ (by omega), mul_small (by omega)]; omega
        have h2' := h2
        rw [go_mul_comm] at h2'
        simp [okOpt, Except.toOption, getRes, bind, Except.bind, pure, Except.pure, h1, h2, h2']
  · have hh' : Legacy.bmhas steps.bitmaps nid = false := by simpa using hh
    simp [hh', okOpt, Except.toOption, pure, Except.pure]

/-! ### `getBM16Child` = `Legacy.getBM16Child` (both children encodings) -/

/-- `getBM16Child` stays inside `int32`: the offsets are `int32`s and the element position
    (`eltIdx*4` bytes resp. `eltIdx*16` bits) does not overflow -/
def BM16Fits (ch : Array32Msg) (idx : Nat) : Prop :=
  (∀ r ∈ ch.offsets, r < 2 ^ 31) ∧ ∀ e b, Legacy.arrRank ch idx = .ok (e, b) → e * 16 < 2 ^ 31

theorem and_2 (x : Nat) : Go.and x 2 = if x / 2 % 2 = 0 then 0 else 2 := by
  have h := and_two_pow_eq x 1
  rw [and_eq]
  simp only [Nat.pow_one] at h
  rw [h, Nat.testBit_eq_decide_div_mod_eq]
  by_cases hb : x / 2 ^ 1 % 2 = 1
  · have : x / 2 % 2 = 1 := by simpa using hb
    simp [hb, this]
  · have : x / 2 % 2 = 0 := by have : x / 2 ^ 1 % 2 = 0 := by omega
                               simpa using this
    simp [hb, this]

theorem uintLEChk4_some (bs : Bytes) (st : Nat) (h4 : st + 4 ≤ bs.length) :
    ∃ v, Go.uintLEChk 4 ((natBytes bs).drop st) = some v ∧
      ∀ b0 b1, bs[st]? = some b0 → bs[st + 1]? = some b1 → Go.and v 65535 = b0.toNat + 256 * b1.toNat := by
  unfold Go.uintLEChk Go.uintLittleEndian
  rw [List.length_drop, natBytes_length, if_pos (by omega)]
  refine ⟨_, rfl, ?_⟩
  intro b0 b1 e0 e1
  rw [List.getElem?_eq_getElem (by omega)] at e0 e1
  cases e0; cases e1
  have hd : (natBytes bs).drop st = bs[st].toNat :: bs[st + 1].toNat :: bs[st + 2].toNat ::
      bs[st + 3].toNat :: (natBytes bs).drop (st + 4) := by
    unfold natBytes
    rw [List.drop_eq_getElem_cons (by simp; omega : st < (List.map UInt8.toNat bs).length),
      List.drop_eq_getElem_cons (by simp; omega : st + 1 < (List.map UInt8.toNat bs).length),
      List.drop_eq_getElem_cons (by simp; omega : st + 1 + 1 < (List.map UInt8.toNat bs).length),
      List.drop_eq_getElem_cons (by simp; omega : st + 1 + 1 + 1 < (List.map UInt8.toNat bs).length)]
    simp
  rw [hd]
  simp only [List.take_succ_cons, List.take_zero, Go.leValNat, and_eq]
  have := byte_lt bs[st]; have := byte_lt bs[st + 1]
  rw [show (65535 : Nat) = 2 ^ 16 - 1 by rfl, Nat.and_two_pow_sub_one_eq_mod]
  omega

theorem uintLEChk4_none (bs : Bytes) (st : Nat) (h4 : ¬ st + 4 ≤ bs.length) :
    Go.uintLEChk 4 ((natBytes bs).drop st) = none := by
  unfold Go.uintLEChk
  rw [List.length_drop, natBytes_length, if_neg (by omega)]

theorem getBM16Child_sem (ch : Array32Msg) (idx : Nat) (hidx : idx < 2 ^ 31) (hfit : BM16Fits ch idx) :
    Generated.WL.getBM16Child (absArr ch) idx = okOpt (Legacy.getBM16Child ch idx) := by
  unfold Generated.WL.getBM16Child Legacy.getBM16Child
  have hr := rank64_sem { words := ch.bitmaps, rankIndex := ch.offsets } idx hfit.1 hidx
  simp only at hr
  have hf2 := hfit.2
  unfold Legacy.arrRank at hf2 ⊢
  simp only [absArr, hr, Option.bind_eq_bind, Option.pure_def]
  cases hk : rank64 { words := ch.bitmaps, rankIndex := ch.offsets } idx with
  | error e => simp [okOpt, Except.toOption, bind, Except.bind]
  | ok p =>
    obtain ⟨e, b⟩ := p
    have he := hf2 e b hk
    simp only [okOpt_ok, Option.map_some, Option.bind_some, bind, Except.bind]
    try simp only [go_add_comm, go_mul_comm, go_and_comm]
    have hfv := and_2 ch.flags
    try simp only [go_add_comm, go_mul_comm, go_and_comm] at hfv
    by_cases hfl : ch.flags / 2 % 2 = 0
    · have h4 : Go.mul 32 e 4 = e * 4 := by rw [mul_small (by omega)]
      try simp only [go_add_comm, go_mul_comm, go_and_comm] at h4
      simp only [hfl, if_true, ↓reduceIte] at hfv
      simp only [hfv, lit_tests, hfl, decide_true, if_true, h4, Bool.false_eq_true, if_false, ↓reduceIte]
      unfold Go.sliceFromS
      rw [natBytes_length]
      by_cases h4' : e * 4 + 4 ≤ ch.elts.length
      · rw [if_pos ⟨by omega, by omega⟩]
        simp only [Option.bind_some]
        obtain ⟨v, hv, hand⟩ := uintLEChk4_some ch.elts (e * 4) h4'
        rw [hv]
        simp only [Option.bind_some]
        split
        · next b0 b1 _ _ e0 e1 _ _ =>
          have := hand b0 b1 e0 e1
          have := byte_lt b0; have := byte_lt b1
          simp only [okOpt, Except.toOption, pure, Except.pure]
          rw [‹Go.and v 65535 = _›, conv_widen_u _ _ _ (by omega), shl_small (by omega)]
        · next hne =>
          exfalso
          exact hne _ _ _ _ (List.getElem?_eq_getElem (by omega)) (List.getElem?_eq_getElem (by omega))
            (List.getElem?_eq_getElem (by omega)) (List.getElem?_eq_getElem (by omega))
      · have hmodel : ∀ b0 b1 b2 b3, ch.elts[e * 4]? = some b0 → ch.elts[e * 4 + 1]? = some b1 →
            ch.elts[e * 4 + 2]? = some b2 → ch.elts[e * 4 + 3]? = some b3 → False := by
          intro b0 b1 b2 b3 _ _ _ e3
          obtain ⟨hlt, _⟩ := List.getElem?_eq_some_iff.mp e3
          omega
        by_cases hle : e * 4 ≤ ch.elts.length
        · rw [if_pos ⟨by omega, hle⟩]
          simp only [Option.bind_some]
          rw [uintLEChk4_none _ _ h4']
          simp only [Option.bind_none]
          first
            | (simp [okOpt, Except.toOption]; done)
            | (split
               · next b0 b1 b2 b3 e0 e1 e2 e3 => exact (hmodel b0 b1 b2 b3 e0 e1 e2 e3).elim
               · simp [okOpt, Except.toOption])
        · rw [if_neg (by omega)]
          simp only [Option.bind_none]
          first
            | (simp [okOpt, Except.toOption]; done)
            | (split
               · next b0 b1 b2 b3 e0 e1 e2 e3 => exact (hmodel b0 b1 b2 b3 e0 e1 e2 e3).elim
               · simp [okOpt, Except.toOption])
    · have hfl' : ¬ (ch.flags / 2 % 2 = 0) := hfl
      simp only [hfl, if_false, ↓reduceIte] at hfv
      simp only [hfv, lit_tests, hfl, decide_false, Bool.false_eq_true, if_false, if_true, ↓reduceIte]
      cases hbm : ch.bmElts with
      | none => simp [Go.deref, okOpt, Except.toOption, bind, Except.bind]
      | some bme =>
        have h16 : Go.mul 32 e 16 = e * 16 := by rw [mul_small (by omega)]
        have h16' : Go.mul 32 16 e = e * 16 := by rw [go_mul_comm]; exact h16
        have hsar : Go.sar 32 (e * 16) 6 = e * 16 / 64 := by rw [sar_small 6 (by omega)]
        have h3 : e * 16 / 64 < 2 ^ (32 - 1) := by omega
        have hcv : Go.conv 32 true 64 (Go.and (e * 16) 63) = e * 16 % 64 := by
          rw [and_eq, and_63, conv_widen_small _ _ _ (by omega) (by omega)]
        simp only [Go.deref, Option.map_some, Option.bind_some, absBits, Go.getw, h16, h16', hsar, hcv,
          idxS_eq _ _ _ h3, maskAt_le 16 (by omega), Option.bind_eq_bind, Option.pure_def]
        cases hw : bme.words[e * 16 / 64]? with
        | none => simp [okOpt, Except.toOption, bind, Except.bind]
        | some w =>
          have hlt : (w >>> (e * 16 % 64)) % 2 ^ 16 < 2 ^ 16 := Nat.mod_lt _ (by omega)
          simp only [Option.bind_some, mask64_and, shr_eq]
          rw [shl_small (by rw [← Nat.shiftRight_eq_div_pow]; omega)]
          simp [okOpt, Except.toOption, bind, Except.bind, pure, Except.pure, Nat.shiftRight_eq_div_pow]

/-! ### non-vacuity: a steps array with one element (node 0, stored step 3) and both children encodings -/

def exSteps : Array32Msg := { cnt := 1, bitmaps := [1], offsets := [0], elts := [3, 0] }
/-- node 0 with the children bitmap 0x0005 in a uint32 element (before 0.5.4) -/
def exChOld : Array32Msg := { cnt := 1, bitmaps := [1], offsets := [0], elts := [5, 0, 1, 0] }
/-- the same as a 16-bit bitmap element (since 0.5.4) -/
def exChNew : Array32Msg := { cnt := 1, bitmaps := [1], offsets := [0], flags := 2, bmElts := some { words := [5] } }

example : U16GetFits exSteps 0 := by
  intro n off h1 h2
  cases h1; cases h2; decide
example : BM16Fits exChOld 0 := by
  refine ⟨by decide, ?_⟩
  intro e b h
  have h' : okOpt (Legacy.arrRank exChOld 0) = some (e, b) := by rw [h]; rfl
  have h2 : okOpt (Legacy.arrRank exChOld 0) = some (0, true) := by decide
  rw [h2] at h'; cases h'; decide
example : BM16Fits exChNew 0 := by
  refine ⟨by decide, ?_⟩
  intro e b h
  have h' : okOpt (Legacy.arrRank exChNew 0) = some (e, b) := by rw [h]; rfl
  have h2 : okOpt (Legacy.arrRank exChNew 0) = some (0, true) := by decide
  rw [h2] at h'; cases h'; decide
example : Generated.WL.getStepBefore000510 (absU16 exSteps) 0 = some 8 := by decide
example : okOpt (Legacy.getStep exSteps 0) = some 2 := by decide
example : Generated.WL.getStepBefore000510 (absU16 exSteps) 1 = some 0 := by decide
example : Generated.WL.getBM16Child (absArr exChOld) 0 = some 10 := by decide
example : Generated.WL.getBM16Child (absArr exChNew) 0 = some 10 := by decide
example : okOpt (Legacy.getBM16Child exChNew 0) = some 10 := by decide
/-- a panic: the element lies beyond `Elts` -/
example : Generated.WL.getBM16Child (absArr { exChOld with elts := [5, 0] }) 0 = none := by decide
example : Generated.WL.bmhas [5] 2 = some true ∧ Generated.WL.bmhas [5] 1 = some false ∧ Generated.WL.bmhas [5] 64 = some false := by decide

end BridgeSem

#print_axioms? BridgeSem.bmhas_sem
#print_axioms? BridgeSem.U16_Get_sem
#print_axioms? BridgeSem.getStepBefore000510_sem
#print_axioms? BridgeSem.getBM16Child_sem
