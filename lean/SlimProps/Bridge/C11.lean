import Generated.Facts
/-
  SlimProps.Bridge.C11 — tie 1, fact group "c11" of lean/Generated/Facts.lean (regenerated from /repo's
  working tree by harness/cmd/extract on every run).  One module per fact group: when the extractor
  cannot find a group's facts, or a fact changed, only this module stops compiling and only the
  properties that rely on it report the broken tie.
-/
namespace Bridge

/-! ### C11: no write to shared state on any read path -/
theorem readPathWrites : Generated.readPathWrites = [] := rfl


end Bridge
