import SlimModel.Encode
import SlimProofs.Encode
/-
  SlimProps.C15Lookup — property C15 through the lookup API of package encode
  (`EncoderByKind`, `EncoderOf`, `GetSliceEltEncoder`): whatever encoder a lookup hands out is the
  fixed-width little-endian unsigned encoder OF THE KIND ASKED FOR, so C15's round trip, size agreement
  and layout hold for it; every other kind is refused with the dedicated error (nothing is handed out).
-/
namespace C15
open Encode

/-- width in bytes of the kinds that have an encoder -/
def kindWidth : Kind → Option Nat
  | .uint16 => some 2 | .uint32 => some 4 | .uint64 => some 8 | _ => none

/-- **EncoderByKind is exact**: success iff the kind is uint16/32/64, and then the codec handed out is the
    little-endian unsigned codec of exactly that width. -/
theorem C15_lookup_byKind (k : Kind) :
    match kindWidth k with
    | some w => ∃ e, encoderByKind k = .ok e ∧ e.codec = liftNat (uintCodec w)
    | none => encoderByKind k = .error .unknownEltType := by
  cases k <;> first | rfl | exact ⟨_, rfl, rfl⟩

/-- the codec handed out round-trips every value of its kind with consistent sizes, also with a tail
    (C15's statement, for the encoder obtained through the lookup). -/
theorem C15_lookup_roundtrip (k : Kind) (e : Enc) (h : encoderByKind k = .ok e) :
    ∃ w, kindWidth k = some w ∧ e.codec = liftNat (uintCodec w) ∧ (uintCodec w).RoundTrips (InU w) ∧
      ∀ v, (uintCodec w).encode v = .ok (leBytes w v) := by
  cases k <;> first
    | (cases h; done)
    | (cases h; exact ⟨2, rfl, rfl, uintCodec_roundTrips 2, fun _ => rfl⟩)
    | (cases h; exact ⟨4, rfl, rfl, uintCodec_roundTrips 4, fun _ => rfl⟩)
    | (cases h; exact ⟨8, rfl, rfl, uintCodec_roundTrips 8, fun _ => rfl⟩)

/-- `EncoderOf` is `EncoderByKind` of the value's kind. -/
theorem C15_lookup_of (k : Kind) : encoderOf k = encoderByKind k := rfl

/-- `GetSliceEltEncoder`: not a slice → `ErrNotSlice`; a slice → by the element kind. -/
theorem C15_lookup_sliceElt (k : Kind) :
    getSliceEltEncoder k = match k with
      | .slice e => encoderByKind e
      | _ => .error .notSlice := by
  cases k <;> rfl

/-- nothing is handed out for a slice of slices, an untyped nil, a signed kind … -/
example : getSliceEltEncoder (.slice (.slice .uint32)) = .error .unknownEltType := rfl
example : getSliceEltEncoder .uint32 = .error .notSlice := rfl
example : encoderOf .invalid = .error .unknownEltType := rfl
example : encoderByKind .int32 = .error .unknownEltType := rfl
example : ∃ e, getSliceEltEncoder (.slice .uint64) = .ok e ∧ e.codec.encode (.int 258) = .ok [2, 1, 0, 0, 0, 0, 0, 0] :=
  ⟨_, rfl, rfl⟩

end C15
#print axioms C15.C15_lookup_byKind
#print axioms C15.C15_lookup_roundtrip
#print axioms C15.C15_lookup_of
#print axioms C15.C15_lookup_sliceElt
