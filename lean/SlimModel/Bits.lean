import SlimModel.BitsFast
/-
  SlimModel.Bits — bitmaps as 64-bit words with rank/select indexes: the subset of
  github.com/openacid/low/bitmap that slim uses (`Of`, `OfMany`, `IndexRank64`, `IndexRank128`,
  `IndexSelect32R64`, `Rank64`, `Rank128`, `Select32R64`, `ToArray`), plus the specification
  functions they are meant to compute (`specRank`, `specBit`, `specSelect` over the bit list).

  Words are `Nat` (< 2^64).  An out-of-range word or index access is a Go panic: `Err.panic`.
-/

namespace Bits

def mk (words : List Nat) (opt : String) : BitmapMsg :=
  match opt with
  | "r64" => { words := words, rankIndex := indexRank64 words false }
  | "r128" => { words := words, rankIndex := indexRank128 words }
  | "s32" => { words := words, rankIndex := indexRank64 words true, selectIndex := indexSelect32 words }
  | _ => { words := words }

/-- `newBM(indexes, capa, opt)` -/
def newBM (idxs : List Nat) (capa : Nat) (opt : String) : BitmapMsg := mk (ofIdx idxs capa) opt

/-- `bitmap.Rank64`: (ones below i, bit i) -/
def rank64 (b : BitmapMsg) (i : Nat) : Except Err (Nat × Bool) :=
  match b.words[i / 64]?, b.rankIndex[i / 64]? with
  | some w, some n => .ok (n + popcount (w % 2 ^ (i % 64)), w.testBit (i % 64))
  | _, _ => .error (.panic "index out of range (Rank64)")

/-- `bitmap.Rank128` -/
def rank128 (b : BitmapMsg) (i : Nat) : Except Err (Nat × Bool) :=
  match b.words[i / 64]?, b.rankIndex[(i + 64) / 128]? with
  | some w, some n =>
    let atRight := (i / 64) % 2
    -- n counts up to the pair boundary nearest to word i: for a right word it includes the word
    .ok (n - atRight * popcount w + popcount (w % 2 ^ (i % 64)), w.testBit (i % 64))
  | _, _ => .error (.panic "index out of range (Rank128)")

/-- `bitmap.Select32R64(words, sidx, ridx, i)`: (position of the i-th one, position of the next one
    or `len*64`).  The word is found by walking the rank index from the word the select index
    names; running off either index is a Go panic. -/
def select32R64 (b : BitmapMsg) (i : Nat) : Except Err (Nat × Nat) := do
  let some s0 := b.selectIndex[i / 32]? | .error (.panic "index out of range (selectIndex)")
  let rec walk : Nat → Nat → Except Err Nat
    | 0, _ => .error (.panic "index out of range (rankIndex)")
    | fuel + 1, wordI =>
      match b.rankIndex[wordI + 1]? with
      | none => .error (.panic "index out of range (rankIndex)")
      | some r => if r ≤ i then walk fuel (wordI + 1) else .ok wordI
  let wordI ← walk (b.rankIndex.length + 1) (s0 / 64)
  let some w := b.words[wordI]? | .error (.panic "index out of range (words)")
  let some base := b.rankIndex[wordI]? | .error (.panic "index out of range (rankIndex)")
  let some off := selectInWord w (i - base) | .error (.panic "select: not enough bits in word")
  let a := wordI * 64 + off
  return (a, nextOne b.words (a + 1))

/-! ### specification functions over the bit list -/

def bitsOf (words : List Nat) : List Bool :=
  words.flatMap (fun w => (List.range 64).map (fun i => w.testBit i))

def specRank (bits : List Bool) (i : Nat) : Nat := (bits.take i).count true
def specBit (bits : List Bool) (i : Nat) : Bool := bits.getD i false

/-! ### `select32R64`, compiled form

  The walk over the rank index reads `rankIndex[wordI + 1]?` in every step, an O(wordI) list
  access; the compiled form drops the first `wordI + 1` entries once and then follows the list.
  Equal by `select32R64_eq_fast` (`@[csimp]`: every later definition is compiled with it). -/

/-- the walk of `select32R64` along the rest of the rank index -/
def walkList (i : Nat) : List Nat → Nat → Nat → Except Err Nat
  | _, 0, _ => .error (.panic "index out of range (rankIndex)")
  | [], _ + 1, _ => .error (.panic "index out of range (rankIndex)")
  | r :: rs, fuel + 1, wordI => if r ≤ i then walkList i rs fuel (wordI + 1) else .ok wordI

theorem select32R64_walk_eq (b : BitmapMsg) (i fuel wordI : Nat) :
    select32R64.walk b i fuel wordI = walkList i (b.rankIndex.drop (wordI + 1)) fuel wordI := by
  induction fuel generalizing wordI with
  | zero => cases b.rankIndex.drop (wordI + 1) <;> rfl
  | succ fuel ih =>
    unfold select32R64.walk
    rcases Nat.lt_or_ge (wordI + 1) b.rankIndex.length with h | h
    · rw [List.drop_eq_getElem_cons h, List.getElem?_eq_getElem h]
      simp only [walkList]
      rw [ih (wordI + 1)]
    · rw [List.drop_of_length_le h, List.getElem?_eq_none h]
      rfl

def select32R64Fast (b : BitmapMsg) (i : Nat) : Except Err (Nat × Nat) := do
  let some s0 := b.selectIndex[i / 32]? | .error (.panic "index out of range (selectIndex)")
  let wordI ← walkList i (b.rankIndex.drop (s0 / 64 + 1)) (b.rankIndex.length + 1) (s0 / 64)
  let some w := b.words[wordI]? | .error (.panic "index out of range (words)")
  let some base := b.rankIndex[wordI]? | .error (.panic "index out of range (rankIndex)")
  let some off := selectInWord w (i - base) | .error (.panic "select: not enough bits in word")
  let a := wordI * 64 + off
  return (a, nextOne b.words (a + 1))

@[csimp] theorem select32R64_eq_fast : @select32R64 = @select32R64Fast := by
  funext b i
  unfold select32R64 select32R64Fast
  simp only [select32R64_walk_eq]

end Bits
