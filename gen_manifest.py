#!/usr/bin/env python3
"""Regenerates MANIFEST.json from props.json (the single source of per-property configuration)."""
import json, os
ROOT = os.path.dirname(os.path.abspath(__file__))
props = json.load(open(os.path.join(ROOT, "props.json")))
all_ids = [json.loads(l)["id"] for l in open(os.path.join(ROOT, "properties.jsonl"))]
checks, na = [], []
for pid in all_ids:
    c = props.get(pid)
    if not c or c.get("not_applicable"):
        na.append({"property_id": pid, "reason": (c or {}).get("not_applicable", "check not built yet (work in progress)")})
        continue
    checks.append({
        "property_id": pid,
        "quick_cmd": "./check %s --tier quick" % pid,
        "thorough_cmd": "./check %s --tier thorough" % pid,
        "evidence_file": "/verif/evidence/%s.json" % pid,
        "replay_cmd_template": "./check replay {path}",
        "engine": "lean4-proof+correspondence",
        "level_claimed": {"category": c.get("level", "proof"), "text": c.get("level_text", ""), "design_ref": c.get("design_ref", "DESIGN.md §6 " + pid)},
        "level_note": c.get("level_note", ""),
        "technique": c.get("technique", "Lean 4 theorems about an executable model; model tied to /repo by regenerated source facts and differential execution"),
    })
m = {
    "version": 1,
    "setup_cmd": "./check setup",
    "hooks": {"guard": "verif", "enable": "no hooks needed: the harness uses only the public API of /repo (go build -tags verif is accepted and changes nothing)",
              "baseline_off_cmd": "cd /repo && GOFLAGS=-mod=mod GOPROXY=off GOSUMDB=off GOTOOLCHAIN=local go test -vet=off -count=1 -timeout 25m ./...",
              "source_commits": [], "add_only": True},
    "engines": [{"name": "lean4-proof+correspondence", "path": "/verif/check",
                 "serves_properties": [c["property_id"] for c in checks],
                 "kind_free_text": "Lean 4 (kernel-checked theorems over lean/SlimModel) + go/ast fact extractor regenerating lean/Generated/Facts.lean + Go harness / Lean driver differential execution over a line protocol"}],
    "checks": checks,
    "not_applicable": na,
    "notes": "See DESIGN.md. Five genuine defects of openacid/slim were repaired in /repo as separate 'fix:' commits (known_findings.txt). No instrumentation of /repo.",
}
json.dump(m, open(os.path.join(ROOT, "MANIFEST.json"), "w"), indent=1)
print("checks:", len(checks), "not_applicable:", len(na))
