import SlimProps.Bridge.Consts
import SlimProps.Bridge.NewSlim
import SlimProps.Bridge.Scan
import SlimProps.Bridge.Index
import SlimProps.Bridge.C11
import SlimProps.Bridge.C20
import SlimProps.Bridge.C20Text
import SlimProps.Bridge.Versions
import SlimProps.Bridge.Tags
import SlimProps.Bridge.EncLookup
/- SlimProps.Bridge — umbrella of the per-group tie-1 modules (SlimProps/Bridge/*.lean). -/
