import Generated.Funcs
import SlimProps.BridgeSem.Common
import SlimModel.Encode
/-
  SlimProps.BridgeSem.EncCodec — tie 1, semantic part: `Encode` / `Decode` of the fixed-width integer
  encoders of package encode (encode/int.go, encode/int8.go) are the model's codecs
  (`Encode.encodeU/decodeU/encodeS/decodeS`, SlimModel/Encode.lean).

  External calls assumed (specified in lean/Generated/GoSem.lean): `binary.LittleEndian.PutUintN`
  = `Go.putUintLittleEndian`, `binary.LittleEndian.UintN` = `Go.uintLittleEndian`; a type assertion
  `d.(T)` is the identity on a value of type `T`.  A signed argument is given by its bit pattern
  `Go.ofS w v`.  `Decode` on a buffer that is too short panics in Go (`b[:size]`) and is
  `Err.panic` in the model; the theorems are about buffers that are long enough.
  encode/nativeint.go (`bits.UintSize`, a platform constant of an imported package) is not translated.
  See SlimProps/BridgeSem.lean for the overview.
-/

open Generated

namespace BridgeSem

/-! ### `encoding/binary` on `Nat` byte lists vs. `leBytes` / `leVal` -/

theorem leBytesNat_eq (w n : Nat) : Go.leBytesNat w n = (leBytes w n).map UInt8.toNat := by
  induction w generalizing n with
  | zero => rfl
  | succ w ih =>
    simp only [Go.leBytesNat, leBytes, List.map_cons, ih, UInt8.toNat_ofNat']
    congr 1
    omega

theorem leValNat_map (bs : Bytes) : Go.leValNat (bs.map UInt8.toNat) = leVal bs := by
  induction bs with
  | nil => rfl
  | cons b bs ih => simp only [List.map_cons, Go.leValNat, leVal, ih]

theorem leBytes_length' (w n : Nat) : (leBytes w n).length = w := by
  induction w generalizing n with
  | zero => rfl
  | succ w ih => simp [leBytes, ih]

/-- writing `w` bytes into a fresh `w`-byte buffer -/
theorem put_fresh (w v : Nat) :
    Go.putUintLittleEndian w (List.replicate w 0) v = (leBytes w v).map UInt8.toNat := by
  unfold Go.putUintLittleEndian
  rw [leBytesNat_eq, List.drop_of_length_le (by simp), List.append_nil]

theorem uint_take (w : Nat) (b : Bytes) :
    Go.uintLittleEndian w ((b.map UInt8.toNat).take w) = leVal (b.take w) := by
  unfold Go.uintLittleEndian
  rw [List.take_take, Nat.min_self, ← List.map_take, leValNat_map]

theorem ofS_eq_toU (w : Nat) (v : Int) : Go.ofS (8 * w) v = Encode.toU w v := rfl

theorem toS_eq_toS (w p : Nat) (hw : 0 < w) : Go.toS (8 * w) p = Encode.toS w p := by
  unfold Go.toS Encode.toS
  have h2 : 2 ^ (8 * w) = 2 * 2 ^ (8 * w - 1) := by
    have : 8 * w = (8 * w - 1) + 1 := by omega
    rw [this, Nat.pow_succ]; simp; omega
  by_cases h : p < 2 ^ (8 * w - 1)
  · rw [if_pos h, if_pos (by omega)]
  · rw [if_neg h, if_neg (by omega)]
    all_goals simp

/-- the patterns of the translator fit their type -/
theorem leVal_take_lt (w : Nat) (b : Bytes) : leVal (b.take w) < 2 ^ (8 * w) := by
  induction w generalizing b with
  | zero => simp [leVal]
  | succ w ih =>
    cases b with
    | nil => simp only [List.take_nil, leVal]; exact Nat.two_pow_pos _
    | cons x xs =>
      simp only [List.take_succ_cons, leVal]
      have := ih xs
      have hx := byte_lt x
      have : 2 ^ (8 * (w + 1)) = 256 * 2 ^ (8 * w) := by
        rw [Nat.mul_add, Nat.pow_add]; simp [Nat.mul_comm]
      omega

/-- normal form of the generated codecs -/
syntax "codec_simp" : tactic
macro_rules
  | `(tactic| codec_simp) => `(tactic|
      simp (disch := omega) only [put_fresh, uint_take, conv_narrow, conv_widen_u, Go.wrap,
        List.map_take, toS_small, Nat.reducePow, Nat.reduceMul, Nat.reduceSub])

/-! ### unsigned encoders -/

theorem encodeU16_sem (v : Nat) : Generated.encodeU16 v = (Encode.encodeU 2 v).map UInt8.toNat := by
  unfold Generated.encodeU16 Encode.encodeU; codec_simp
theorem encodeU32_sem (v : Nat) : Generated.encodeU32 v = (Encode.encodeU 4 v).map UInt8.toNat := by
  unfold Generated.encodeU32 Encode.encodeU; codec_simp
theorem encodeU64_sem (v : Nat) : Generated.encodeU64 v = (Encode.encodeU 8 v).map UInt8.toNat := by
  unfold Generated.encodeU64 Encode.encodeU; codec_simp

theorem decodeU16_sem (b : Bytes) (h : 2 ≤ b.length) :
    Encode.decodeU 2 b = .ok (2, (Generated.decodeU16 (b.map UInt8.toNat)).2) ∧
    (Generated.decodeU16 (b.map UInt8.toNat)).1 = 2 := by
  unfold Generated.decodeU16 Encode.decodeU
  rw [if_neg (by omega)]
  codec_simp
  all_goals (refine ⟨?_, ?_⟩ <;> first | rfl | trivial)
theorem decodeU32_sem (b : Bytes) (h : 4 ≤ b.length) :
    Encode.decodeU 4 b = .ok (4, (Generated.decodeU32 (b.map UInt8.toNat)).2) ∧
    (Generated.decodeU32 (b.map UInt8.toNat)).1 = 4 := by
  unfold Generated.decodeU32 Encode.decodeU
  rw [if_neg (by omega)]
  codec_simp
  all_goals (refine ⟨?_, ?_⟩ <;> first | rfl | trivial)
theorem decodeU64_sem (b : Bytes) (h : 8 ≤ b.length) :
    Encode.decodeU 8 b = .ok (8, (Generated.decodeU64 (b.map UInt8.toNat)).2) ∧
    (Generated.decodeU64 (b.map UInt8.toNat)).1 = 8 := by
  unfold Generated.decodeU64 Encode.decodeU
  rw [if_neg (by omega)]
  codec_simp
  all_goals (refine ⟨?_, ?_⟩ <;> first | rfl | trivial)

/-! ### signed encoders: the argument is the bit pattern of the value -/

theorem encodeI8_sem (v : Int) :
    Generated.encodeI8 (Go.ofS 8 v) = (Encode.encodeS 1 v).map UInt8.toNat := by
  unfold Generated.encodeI8 Encode.encodeS
  have := ofS_lt 8 v
  have e : Go.ofS 8 v = Encode.toU 1 v := rfl
  codec_simp
  simp only [leBytes, List.map_cons, List.map_nil, UInt8.toNat_ofNat', ← e]
  congr 1; omega
theorem encodeI16_sem (v : Int) :
    Generated.encodeI16 (Go.ofS 16 v) = (Encode.encodeS 2 v).map UInt8.toNat := by
  unfold Generated.encodeI16 Encode.encodeS
  have := ofS_lt 16 v
  have e : Go.ofS 16 v = Encode.toU 2 v := rfl
  codec_simp
  rw [← e, Nat.mod_eq_of_lt (by omega)]
theorem encodeI32_sem (v : Int) :
    Generated.encodeI32 (Go.ofS 32 v) = (Encode.encodeS 4 v).map UInt8.toNat := by
  unfold Generated.encodeI32 Encode.encodeS
  have := ofS_lt 32 v
  have e : Go.ofS 32 v = Encode.toU 4 v := rfl
  codec_simp
  rw [← e, Nat.mod_eq_of_lt (by omega)]
theorem encodeI64_sem (v : Int) :
    Generated.encodeI64 (Go.ofS 64 v) = (Encode.encodeS 8 v).map UInt8.toNat := by
  unfold Generated.encodeI64 Encode.encodeS
  have := ofS_lt 64 v
  have e : Go.ofS 64 v = Encode.toU 8 v := rfl
  codec_simp
  rw [← e, Nat.mod_eq_of_lt (by omega)]

theorem decodeI8_sem (b : Bytes) (h : 1 ≤ b.length) :
    Encode.decodeS 1 b = .ok (1, (Generated.decodeI8 (b.map UInt8.toNat)).2) ∧
    (Generated.decodeI8 (b.map UInt8.toNat)).1 = 1 := by
  unfold Generated.decodeI8 Encode.decodeS
  rw [if_neg (by omega)]
  match b, h with
  | x :: xs, _ =>
    have hx := byte_lt x
    simp only [List.map_cons, List.getD_cons_zero, List.take_succ_cons, List.take_zero, leVal]
    codec_simp
    rw [Nat.mod_eq_of_lt (by omega)]
    exact ⟨by rw [← toS_eq_toS 1 _ (by omega)]; simp, rfl⟩
theorem decodeI16_sem (b : Bytes) (h : 2 ≤ b.length) :
    Encode.decodeS 2 b = .ok (2, (Generated.decodeI16 (b.map UInt8.toNat)).2) ∧
    (Generated.decodeI16 (b.map UInt8.toNat)).1 = 2 := by
  unfold Generated.decodeI16 Encode.decodeS
  rw [if_neg (by omega)]
  have := leVal_take_lt 2 b
  codec_simp
  rw [Nat.mod_eq_of_lt (by omega)]
  exact ⟨by rw [← toS_eq_toS 2 _ (by omega)], rfl⟩
theorem decodeI32_sem (b : Bytes) (h : 4 ≤ b.length) :
    Encode.decodeS 4 b = .ok (4, (Generated.decodeI32 (b.map UInt8.toNat)).2) ∧
    (Generated.decodeI32 (b.map UInt8.toNat)).1 = 4 := by
  unfold Generated.decodeI32 Encode.decodeS
  rw [if_neg (by omega)]
  have := leVal_take_lt 4 b
  codec_simp
  rw [Nat.mod_eq_of_lt (by omega)]
  exact ⟨by rw [← toS_eq_toS 4 _ (by omega)], rfl⟩
theorem decodeI64_sem (b : Bytes) (h : 8 ≤ b.length) :
    Encode.decodeS 8 b = .ok (8, (Generated.decodeI64 (b.map UInt8.toNat)).2) ∧
    (Generated.decodeI64 (b.map UInt8.toNat)).1 = 8 := by
  unfold Generated.decodeI64 Encode.decodeS
  rw [if_neg (by omega)]
  have := leVal_take_lt 8 b
  codec_simp
  rw [Nat.mod_eq_of_lt (by omega)]
  exact ⟨by rw [← toS_eq_toS 8 _ (by omega)], rfl⟩

/-! non-vacuity -/
example : Generated.encodeI16 (Go.ofS 16 (-2)) = [254, 255] := by decide
example : Generated.decodeI16 [254, 255, 7] = (2, -2) := by decide

end BridgeSem

#print axioms BridgeSem.encodeU16_sem
#print axioms BridgeSem.encodeU32_sem
#print axioms BridgeSem.encodeU64_sem
#print axioms BridgeSem.decodeU16_sem
#print axioms BridgeSem.decodeU32_sem
#print axioms BridgeSem.decodeU64_sem
#print axioms BridgeSem.encodeI8_sem
#print axioms BridgeSem.encodeI16_sem
#print axioms BridgeSem.encodeI32_sem
#print axioms BridgeSem.encodeI64_sem
#print axioms BridgeSem.decodeI8_sem
#print axioms BridgeSem.decodeI16_sem
#print axioms BridgeSem.decodeI32_sem
#print axioms BridgeSem.decodeI64_sem
