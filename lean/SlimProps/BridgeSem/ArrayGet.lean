import Generated.Funcs
import SlimProps.BridgeSem.Common
import SlimModel.ArrayPkg
import SlimModel.Bits
/-
  SlimProps.BridgeSem.ArrayGet — tie 1, semantic part: the arithmetic of the lookups of package
  array (array/base.go `bmBit`, `(*Base).GetBytes`; array/int.go `(*U16).Get` as the representative
  of the generated typed getters) = `ArrayPkg.Base.typedGetBytes` (SlimModel/ArrayPkg.lean):

  * `arrayBmWord_sem`, `arrayBmBit_sem`   `idx >> 6`, `idx & 63` on an int32 (given by its pattern
                                          `Go.ofS 32 idx`, also negative) = `idx / 64`, `idx % 64`
  * `arrayU16Cnt1_sem`                    `OnesCount64(n & (1<<iBit - 1))` = `popcount (n % 2^iBit)`
  * `arrayU16StIdx_sem`                   `a.Offsets[iBm]*2 + int32(cnt1)*2` = the model's
                                          `wrap32 (wrap32 (off * 2) + wrap32 (cnt1 * 2))` — with
                                          wrap-around, no overflow hypothesis
  * `arrayGetBytesStIdx_sem`              `int32(eltsize) * r` = `wrap32 (eltsize * r)`

  The other typed getters are instances of the same template with 4 / 8 in place of 2
  (array/int.go is generated from one template; `C16` ties them by correspondence).
  EXTERNAL calls assumed: `bitmap.Rank64` (GetBytes), `endian.UintN` (the typed getters).
  See SlimProps/BridgeSem.lean for the overview.
-/

set_option linter.unusedSimpArgs false
set_option linter.unusedVariables false

open Generated

namespace BridgeSem

/-- the model's `wrap32` is reading a pattern back as an int32 -/
theorem toS_ofS_wrap32 (x : Int) : Go.toS 32 (Go.ofS 32 x) = ArrayPkg.wrap32 x := by
  have hc := ofS_cast 32 x
  have hlt := ofS_lt 32 x
  unfold Go.toS ArrayPkg.wrap32
  split <;> omega

theorem wrap32_add (a b : Int) :
    ArrayPkg.wrap32 (ArrayPkg.wrap32 a + ArrayPkg.wrap32 b) = ArrayPkg.wrap32 (a + b) := by
  unfold ArrayPkg.wrap32; omega

theorem ofS_natCast_mod (n : Nat) : Go.ofS 32 (n : Int) = n % 2 ^ 32 := by
  have hc := ofS_cast 32 (n : Int)
  have : ((n % 2 ^ 32 : Nat) : Int) = (n : Int) % (2 : Int) ^ 32 := by simp
  omega

theorem arrayBmWord_sem (idx : Int) (hlo : -(2 : Int) ^ 31 ≤ idx) (hhi : idx < (2 : Int) ^ 31) :
    Generated.arrayBmWord (Go.ofS 32 idx) = idx / 64 := by
  unfold Generated.arrayBmWord
  have hc := ofS_cast 32 idx
  have hlt := ofS_lt 32 idx
  generalize Go.ofS 32 idx = p at hc hlt ⊢
  have hmin : min 6 32 = 6 := rfl
  unfold Go.sar Go.toS Go.wrap
  simp only [Nat.shiftRight_eq_div_pow, hmin, Nat.reduceSub, Nat.reducePow]
  split <;> split <;> omega

theorem arrayBmBit_sem (idx : Int) (hlo : -(2 : Int) ^ 31 ≤ idx) (hhi : idx < (2 : Int) ^ 31) :
    Generated.arrayBmBit (Go.ofS 32 idx) = idx % 64 := by
  unfold Generated.arrayBmBit
  have hc := ofS_cast 32 idx
  have hlt := ofS_lt 32 idx
  generalize Go.ofS 32 idx = p at hc hlt ⊢
  have : Go.and p 63 = p % 64 := Nat.and_two_pow_sub_one_eq_mod p 6
  rw [this, toS_small (by omega)]
  omega

theorem arrayU16Cnt1_sem (n iBit : Nat) (h : iBit < 64) :
    Generated.arrayU16Cnt1 iBit n = ((Bits.popcount (n % 2 ^ iBit) : Nat) : Int) := by
  unfold Generated.arrayU16Cnt1
  have hpow : 2 ^ iBit < 2 ^ 64 := Nat.pow_lt_pow_right (by omega) h
  have hpos : 0 < 2 ^ iBit := Nat.two_pow_pos _
  have hmask : Go.sub 64 (Go.shl 64 1 (Go.conv 32 true 64 iBit)) 1 = 2 ^ iBit - 1 := by
    rw [conv_widen_small _ _ _ (by omega) (by omega), shl_small (by omega), Nat.one_mul,
      sub_small (by omega) (by omega)]
  have hand : Go.and n (2 ^ iBit - 1) = n % 2 ^ iBit := Nat.and_two_pow_sub_one_eq_mod n iBit
  have hle : Go.popcount64 (n % 2 ^ iBit) ≤ 64 := by
    unfold Go.popcount64
    have := List.length_filter_le (fun i => (n % 2 ^ iBit).testBit i) (List.range 64)
    simpa using this
  rw [hmask, hand, toS_small (by omega)]
  rfl

theorem arrayU16StIdx_sem (offsets : List Nat) (iBm cnt1 : Nat) (off : Int)
    (hoff : offsets.getD iBm 0 = Go.ofS 32 off) (hc : cnt1 < 2 ^ 63) :
    Generated.arrayU16StIdx offsets cnt1 iBm
      = ArrayPkg.wrap32 (ArrayPkg.wrap32 (off * 2) + ArrayPkg.wrap32 ((cnt1 : Int) * 2)) := by
  unfold Generated.arrayU16StIdx
  have hconv : Go.conv 64 true 32 cnt1 = Go.ofS 32 (cnt1 : Int) := by
    rw [conv_narrow _ _ _ _ (by omega), ofS_natCast_mod]
  rw [hoff, hconv]
  conv => lhs; rw [ofS_eq_natCast (w := 32) (n := 2) (by omega)]
  simp only [mul_ofS, add_ofS]
  have h2 : ((2 : Nat) : Int) = 2 := rfl
  rw [toS_ofS_wrap32, wrap32_add]
  all_goals simp only [h2]
  all_goals (rw [Int.add_comm])

theorem arrayGetBytesStIdx_sem (eltsize r : Nat) (he : eltsize < 2 ^ 63) (hr : r < 2 ^ 32) :
    Generated.arrayGetBytesStIdx eltsize r = ArrayPkg.wrap32 ((eltsize : Int) * r) := by
  unfold Generated.arrayGetBytesStIdx
  have hconv : Go.conv 64 true 32 eltsize = Go.ofS 32 (eltsize : Int) := by
    rw [conv_narrow _ _ _ _ (by omega), ofS_natCast_mod]
  rw [hconv]
  conv => lhs; rw [ofS_eq_natCast (w := 32) (n := r) hr]
  rw [mul_ofS, toS_ofS_wrap32]
  all_goals rw [Int.mul_comm]

/-! non-vacuity -/
example : Generated.arrayU16StIdx [0, 10] 3 1 = 26 := by decide

end BridgeSem

#print axioms BridgeSem.arrayBmWord_sem
#print axioms BridgeSem.arrayBmBit_sem
#print axioms BridgeSem.arrayU16Cnt1_sem
#print axioms BridgeSem.arrayU16StIdx_sem
#print axioms BridgeSem.arrayGetBytesStIdx_sem
