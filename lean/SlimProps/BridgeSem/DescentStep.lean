import Generated.Funcs
import SlimProps.BridgeSem.Common
import SlimProps.BridgeSem.Extern
import SlimProps.BridgeSem.LeftChildWhole
import SlimProps.BridgeSem.GetNode
import SlimModel.Query
import SlimModel.Slim
/-
  SlimProps.BridgeSem.DescentStep — tie 1, semantic part: ONE STEP OF THE DESCENT of `GetID` / `searchID`
  (trie/slimtrie_query.go), composed of the two whole-function bridges:

    `getNode_getLeftChildID`   if the model decodes node `id` as the inner node `r`
                               (`Slim.getNode s id = .ok (.inner r)`), then the Go `getNode(id, qr0)` followed by
                               `getLeftChildID(qr, 4 i)` on the session it left returns the model's
                               `leftChildID r (labelIdxOfKey (nibs key) i r.big)`: the id of the child left of
                               the label the key selects at half-byte position `i`, and whether the label is
                               present — the two values on which `GetID` / `searchID` branch.
    `innerFrom_shape`          the three shapes of `Slim.innerFrom`'s result (big / 17-bit / short)

  Hypotheses: `GetNodeFits s id` (GetNode.lean), `Inners` carries the rank index of `IndexRank128`, every
  node's bit range lies inside `Inners`, `ShortSize` is neither 17 nor 257 (the builder chooses at most 10).
  See SlimProps/BridgeSem.lean for the overview.
-/

set_option linter.unusedSimpArgs false
set_option linter.unusedVariables false

open Generated Bits

namespace BridgeSem

/-- the three shapes of `Slim.innerFrom`'s result -/
theorem innerFrom_shape (s : SlimMsg) (ith frm size : Nat) (short : Option Nat)
    (h : Slim.innerFrom s ith = .ok (frm, size, short)) :
    (ith < s.bigInnerCnt ∧ size = 257 ∧ short = none) ∨
    (¬ ith < s.bigInnerCnt ∧ size = 17 ∧ short = none) ∨
    (¬ ith < s.bigInnerCnt ∧ size = s.shortSize ∧ short.isSome) := by
  unfold Slim.innerFrom at h
  by_cases hb : ith < s.bigInnerCnt
  · simp only [hb, if_true, pure, Except.pure, Except.ok.injEq, Prod.mk.injEq] at h
    exact Or.inl ⟨hb, by rw [← h.2.1]; rfl, h.2.2.symm⟩
  · simp only [hb, if_false] at h
    cases hsbm : s.shortBM with
    | none => simp [hsbm] at h
    | some sbm =>
      simp only [hsbm] at h
      cases hrs : rank64 sbm ith with
      | error e => simp [hrs, bind, Except.bind] at h
      | ok kc =>
        obtain ⟨k, c⟩ := kc
        simp only [hrs, bind, Except.bind] at h
        split at h
        · simp at h
        · cases c with
          | false =>
            simp only [Bool.false_eq_true, if_false, pure, Except.pure, Except.ok.injEq, Prod.mk.injEq] at h
            exact Or.inr (Or.inl ⟨hb, by rw [← h.2.1]; rfl, h.2.2.symm⟩)
          | true =>
            simp only [if_true] at h
            cases hinn : s.inners with
            | none => simp [hinn] at h
            | some inn =>
              simp only [hinn] at h
              cases hex : Slim.extractShort inn.words
                  ((↑Slim.bigInnerSize - ↑Slim.innerSize) * (s.bigInnerCnt : Int) + ↑Slim.innerSize * (ith : Int)
                    + (↑s.shortSize - ↑Slim.innerSize) * (k : Int)).toNat s.shortSize with
              | error e => simp [hex] at h
              | ok code =>
                simp only [hex] at h
                cases htb : s.shortTable[code]? with
                | none => simp [htb] at h
                | some bm =>
                  simp only [htb, pure, Except.pure, Except.ok.injEq, Prod.mk.injEq] at h
                  exact Or.inr (Or.inr ⟨hb, h.2.1.symm, by rw [← h.2.2]; rfl⟩)

/-- **One step of the descent.**  On a trie whose `Inners` bitmap carries the rank index that
    `IndexRank128` computes: if the model decodes node `id` as the inner node `r`, then `getNode`
    followed by `getLeftChildID(qr, 4 i)` on the session it left returns the model's
    `leftChildID r (labelIdxOfKey (nibs key) i r.big)` — the child left of the label the key selects at
    half-byte position `i`, and whether that label is present. -/
theorem getNode_getLeftChildID (s : SlimMsg) (ws : List Nat) (id : Nat) (qr0 : W.querySession) (r : InnerRec)
    (key : Bytes) (i : Nat) (hfit : GetNodeFits s id) (hn : Slim.getNode s id = .ok (.inner r))
    (hinn : s.inners = some (mk ws "r128"))
    (hkey : qr0.key = natBytes key) (hkl : qr0.keyBitLen = 8 * key.length)
    (hlen : 8 * key.length < 2 ^ 31) (hi : 4 * i < 2 ^ 31)
    (hss : s.shortSize ≠ 17 ∧ s.shortSize ≠ 257)
    (hin : ∀ nt ith frm size short, s.nodeTypeBM = some nt → rank64 nt id = .ok (ith, true) →
      Slim.innerFrom s ith = .ok (frm, size, short) → 0 < size ∧ frm + size ≤ 64 * ws.length)
    (hfitw : 64 * ws.length + 64 < 2 ^ 31) :
    ∃ qr, W.SlimTrie.getNode (absTrie s (varsOf s)) id qr0 = some qr ∧
      W.SlimTrie.getLeftChildID (absTrie s (varsOf s)) qr (4 * i)
        = some ((leftChildID r (labelIdxOfKey (nibs key) i r.big)).1.toNat,
                b2n (leftChildID r (labelIdxOfKey (nibs key) i r.big)).2) := by
  obtain ⟨qr, hg, hd, hk1, hk2, nt, b, hnt, hrk, hib⟩ := getNode_ok s id qr0 (.inner r) hfit hn
  refine ⟨qr, hg, ?_⟩
  have hd0 := hd
  obtain ⟨_, inn, size, short, r0, c, hinn', hif, hto, hbm, hbig, hws, hlab, hr128, hfc, _⟩ := hd0
  rw [hinn] at hinn'
  cases hinn'
  have hbt : b = true := by
    cases b with
    | true => rfl
    | false => rw [hd.1] at hib; simp [b2n] at hib
  subst hbt
  obtain ⟨hsz, hrg⟩ := hin nt _ _ _ _ hnt hrk hif
  have hr0 : r0 = cnt (getBit ws) qr.from_ := by
    rw [rank128_mk_cnt ws qr.from_ (by omega)] at hr128
    cases hr128; rfl
  have hsh := innerFrom_shape s _ _ _ _ hif
  have hshape : NodeShape s qr size short := by
    unfold NodeShape
    rcases hsh with ⟨hb, hs257, hnone⟩ | ⟨hb, hs17, hnone⟩ | ⟨hb, hsss, hsome⟩
    · subst hnone
      have : r.big = true := by rw [hbig]; simpa using hb
      rw [this] at hws
      exact ⟨Or.inr ⟨by simpa using hws, hs257⟩, by rw [hs257]; exact fun h => hss.2 h.symm⟩
    · subst hnone
      have : r.big = false := by rw [hbig]; simpa using hb
      rw [this] at hws
      exact ⟨Or.inl ⟨by simpa using hws, hs17⟩, by rw [hs17]; exact fun h => hss.1 h.symm⟩
    · cases short with
      | none => simp at hsome
      | some bm =>
        have : r.big = false := by rw [hbig]; simpa using hb
        rw [this] at hws
        exact ⟨by simpa using hws, hsss, hbm bm rfl⟩
  have hbig8 : (qr.wordSize == 8) = r.big := by
    cases hrb : r.big <;> rw [hrb] at hws <;> simp at hws <;> rw [hws] <;> rfl
  have := getLeftChildID_sem s (some (varsOf s)) ws qr key i qr.from_ size short hinn
    (by rw [hk1, hkey]) (by rw [hk2, hkl]) hlen hi rfl hto hshape hsz hrg hfitw hfit.wf.2.1
  rw [show absTrie s (varsOf s) = { inner := some (absSlim s), vars := some (varsOf s) } from rfl, this,
    getLeftChildID_model r ws qr.from_ size short _ (by rw [hlab]; rfl) (by rw [hfc, hr0]), hbig8]
  simp only [Option.some.injEq, Prod.mk.injEq, and_true]
  omega

/-! non-vacuity: node 1 of `exSlim`, key "abd", bit 20 -/
example : (W.SlimTrie.getNode (absTrie exSlim (varsOf exSlim)) 1 exQr).bind
    (fun qr => W.SlimTrie.getLeftChildID (absTrie exSlim (varsOf exSlim)) qr 20) = some (3, 1) := by decide
example : (Slim.getNode exSlim 1).toOption.map
    (fun n => match n with | .inner r => leftChildID r (labelIdxOfKey (nibs [97, 98, 100]) 5 r.big) | _ => (0, false))
    = some (3, true) := by decide

end BridgeSem

#print axioms BridgeSem.innerFrom_shape
#print axioms BridgeSem.getNode_getLeftChildID
