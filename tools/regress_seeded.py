#!/usr/bin/env python3
"""
regress_seeded.py [--workers 4] [--only REGEX] [--dir seeded | --dirs d1 d2 ...]

Runs every archived seeded change (seeded/<name>/patch.diff) against the check of its property, in parallel:
each worker owns a private copy of /verif (so that the regenerated Generated/*.lean and the evidence files of
the runs do not touch /verif) and a scratch worktree of /repo per change (VERIF_REPO; /repo is never touched).
Prints one line per change and a summary; exit 1 if a change is no longer caught.
"""
import os, sys, json, re, subprocess, shutil, argparse, threading, queue, glob

ROOT = os.path.dirname(os.path.dirname(os.path.abspath(__file__)))
SCR = "/tmp/vreg"


def sh(cmd, cwd=None, env=None, timeout=None):
    p = subprocess.run(cmd, cwd=cwd, env=env, timeout=timeout, stdout=subprocess.PIPE, stderr=subprocess.STDOUT, text=True, errors="replace")
    return p.returncode, p.stdout


def worker(k, q, res, lock):
    vc = os.path.join(SCR, "v%d" % k)
    shutil.rmtree(vc, ignore_errors=True)
    os.makedirs(SCR, exist_ok=True)
    sh(["rsync", "-a", "--exclude", ".work", "--exclude", ".git", "--exclude", "evidence/replays", "--exclude", "mutants", ROOT + "/", vc + "/"])
    rc, o = sh([os.path.join(vc, "check"), "setup"], cwd=vc, timeout=3600)
    if rc != 0:
        print("worker %d: setup failed: %s" % (k, o[-500:]), flush=True)
        return
    while True:
        try:
            name, d, prop = q.get_nowait()
        except queue.Empty:
            break
        w = os.path.join(SCR, "w%d" % k)
        sh(["git", "-C", "/repo", "worktree", "remove", "--force", w])
        shutil.rmtree(w, ignore_errors=True)
        sh(["git", "-C", "/repo", "worktree", "add", "--detach", w, "HEAD", "-f"])
        rc, o = sh(["git", "-C", w, "apply", os.path.join(d, "patch.diff")])
        if rc != 0:
            line = "PATCH-DOES-NOT-APPLY"
            rc = -1
        else:
            env = dict(os.environ, VERIF_REPO=w)
            try:
                rc, o = sh([os.path.join(vc, "check"), prop, "--tier", os.environ.get("TIER", "quick")], cwd=vc, env=env, timeout=3600)
            except subprocess.TimeoutExpired:
                rc, o = 124, "timeout"
            m = re.search(r"^(VIOLATION.*|OK .*)$", o, re.M)
            line = m.group(1)[:160] if m else o[-160:].replace("\n", " ")
            what = ""
            r = re.search(r"replay=(\S+)", line)
            if r and os.path.exists(r.group(1)):
                try:
                    j = json.load(open(r.group(1)))
                    what = (j.get("what") or (j.get("no_longer_checks") or [{}])[0].get("detail", ""))[:140]
                except Exception:
                    pass
            line += " :: " + what
        sh(["git", "-C", "/repo", "worktree", "remove", "--force", w])
        with lock:
            res.append((name, prop, rc, line))
            print("%-45s %s rc=%d %s" % (name, prop, rc, line), flush=True)
    shutil.rmtree(vc, ignore_errors=True)


def main():
    ap = argparse.ArgumentParser()
    ap.add_argument("--workers", type=int, default=4)
    ap.add_argument("--only", default="")
    ap.add_argument("--dirs", nargs="*", default=None, help="mutation directories (with meta.json + patch.diff) instead of seeded/*")
    ap.add_argument("--prop", default="", help="property to check (default: meta.json property)")
    ap.add_argument("--allprops", action="store_true", help="run EVERY property's check against each patch (harmless rewrites: any alarm is a false alarm)")
    ap.add_argument("--scr", default="", help="scratch directory (default /tmp/vreg); use another one for a second run side by side")
    a = ap.parse_args()
    global SCR
    if a.scr:
        SCR = a.scr
    dirs = a.dirs if a.dirs else sorted(glob.glob(os.path.join(ROOT, "seeded", "*")))
    q = queue.Queue()
    for d in dirs:
        d = os.path.abspath(d)
        name = os.path.basename(os.path.dirname(d)) + "/" + os.path.basename(d) if a.dirs else os.path.basename(d)
        if a.only and not re.search(a.only, name):
            continue
        try:
            meta = json.load(open(os.path.join(d, "meta.json")))
        except Exception:
            continue
        if not os.path.exists(os.path.join(d, "patch.diff")):
            continue
        if a.allprops:
            for c in json.load(open(os.path.join(ROOT, "MANIFEST.json")))["checks"]:
                q.put((name, d, c["property_id"]))
            continue
        prop = a.prop or meta.get("property")
        if not prop:
            continue
        q.put((name, d, prop))
    n = q.qsize()
    print("%d changes, %d workers" % (n, a.workers), flush=True)
    res, lock = [], threading.Lock()
    ts = [threading.Thread(target=worker, args=(k, q, res, lock)) for k in range(min(a.workers, max(n, 1)))]
    for t in ts: t.start()
    for t in ts: t.join()
    if a.allprops:
        alarms = [r for r in res if r[2] != 0]
        print("SUMMARY (harmless rewrites): %d runs, %d alarms" % (len(res), len(alarms)))
        for r in alarms:
            print("ALARM:", r[0], r[1], r[3][:300])
        return 1 if alarms else 0
    missed = [r for r in res if r[2] == 0]
    concrete = [r for r in res if r[2] == 1 and "no-failing-input-found" not in r[3]]
    tie_only = [r for r in res if r[2] == 1 and "no-failing-input-found" in r[3]]
    print("SUMMARY: %d changes: %d caught with a concrete input, %d caught without one (broken proof/tie), %d NOT caught, %d errors" % (
        len(res), len(concrete), len(tie_only), len(missed), len(res) - len(concrete) - len(tie_only) - len(missed)))
    for r in missed:
        print("NOT CAUGHT:", r[0], r[1])
    return 1 if missed else 0


if __name__ == "__main__":
    sys.exit(main())
