package leg

import (
	"bytes"
	"fmt"
	"os"
	"path/filepath"
	"sort"
	"strings"
	"sync"

	"github.com/openacid/testkeys"
)

// Fixture is one archived file of trie/testdata.
type Fixture struct {
	File    string // base name
	Dataset string
	Opt     string // "", nopref, innpref, allpref
	Ver     string
}

var (
	keysMu    sync.Mutex
	keysCache = map[string][]string{}
)

// DatasetKeys loads a testkeys data set (cached).
func DatasetKeys(name string) []string {
	keysMu.Lock()
	defer keysMu.Unlock()
	if ks, ok := keysCache[name]; ok {
		return ks
	}
	ks := testkeys.Load(name)
	keysCache[name] = ks
	return ks
}

// ListFixtures lists the archived files (everything named slimtrie-data-*).
func ListFixtures(repo string) ([]Fixture, error) {
	dir := filepath.Join(repo, "trie", "testdata")
	ents, err := os.ReadDir(dir)
	if err != nil {
		return nil, err
	}
	var out []Fixture
	for _, e := range ents {
		fn := e.Name()
		if !strings.HasPrefix(fn, "slimtrie-data-") {
			continue
		}
		parts := strings.Split(fn, "-")
		f := Fixture{File: fn, Dataset: parts[2], Ver: parts[len(parts)-1]}
		if len(parts) == 5 {
			f.Opt = parts[3]
		}
		out = append(out, f)
	}
	sort.Slice(out, func(i, j int) bool { return out[i].File < out[j].File })
	return out, nil
}

// Regenerate writes the stream the reconstructed writer produces for a fixture's data set.
func Regenerate(f Fixture) ([]byte, error) {
	keys := DatasetKeys(f.Dataset)
	vals := I32Vals(len(keys))
	if f.Opt == "" {
		if _, ok := ParseVariant3(f.Ver); !ok {
			return nil, fmt.Errorf("no three-section writer for version %s", f.Ver)
		}
		return WriteLegacy3(f.Ver, keys, vals), nil
	}
	return Write0510(f.Opt, f.Ver, keys, vals)
}

// firstDiff describes where two streams differ.
func firstDiff(a, b []byte) string {
	n := len(a)
	if len(b) < n {
		n = len(b)
	}
	for i := 0; i < n; i++ {
		if a[i] != b[i] {
			return fmt.Sprintf("first difference at byte %d (file %02x, writer %02x), lengths file %d writer %d", i, a[i], b[i], len(a), len(b))
		}
	}
	return fmt.Sprintf("common prefix, lengths file %d writer %d", len(a), len(b))
}

// ValidateFixtures regenerates every archived file from its data set with the reconstructed
// writers and compares byte for byte.
func ValidateFixtures(repo string) (reproduced, total int, failures []string) {
	fx, err := ListFixtures(repo)
	if err != nil {
		return 0, 0, []string{err.Error()}
	}
	for _, f := range fx {
		total++
		want, err := os.ReadFile(filepath.Join(repo, "trie", "testdata", f.File))
		if err != nil {
			failures = append(failures, f.File+": "+err.Error())
			continue
		}
		got, err := func() (b []byte, err error) {
			defer func() {
				if r := recover(); r != nil {
					err = fmt.Errorf("panic: %v", r)
				}
			}()
			return Regenerate(f)
		}()
		if err != nil {
			failures = append(failures, f.File+": "+err.Error())
			continue
		}
		if bytes.Equal(want, got) {
			reproduced++
		} else {
			failures = append(failures, f.File+": "+firstDiff(want, got))
		}
	}
	return
}
