import SlimModel.Legacy
import SlimModel.LegacyWrite
import SlimProofs.BitsLemmas
import SlimProofs.VLen
/-
  SlimProofs.LegacyArray — the three-section layout read back: what the loader's accessors
  (`Legacy.bmhas`, `arrRank`, `u16Get`, `getStep`, `getBM16Child`) return on the
  sections the reconstructed writer (`LegacyWrite.stepsMsg`, `childrenMsg`) wrote,
  for any node list, any index extension (`minWords`, the 0.5.9 "extended index bitmaps") and both
  children encodings.

    * `initIndex_bmhas`, `initIndex_rank`   the index of every section (`array.Base.InitIndex`
                                            incl. the zero offset of empty words)
    * `getStep_stepsMsg`                    `C06_step_rebase`: `stp - 1` half-bytes, 0 when absent
    * `getBM16Child_childrenMsg`            `C06_bm16`: `bm << 1`, uint32 and bitmap children
-/
open Bits

namespace Legacy
open LegacyWrite

/-! ### ids of the nodes with a property -/

theorem idsFrom_mem (p : OldNode → Bool) (ns : List OldNode) (i x : Nat) :
    x ∈ idsFrom p i ns ↔ ∃ j, ∃ h : j < ns.length, x = i + j ∧ p ns[j] = true := by
  induction ns generalizing i with
  | nil => simp [idsFrom]
  | cons n ns ih =>
    unfold idsFrom
    by_cases hp : p n = true
    · rw [if_pos hp, List.mem_cons, ih]
      constructor
      · rintro (rfl | ⟨j, hj, rfl, hpj⟩)
        · exact ⟨0, by simp, rfl, hp⟩
        · exact ⟨j + 1, by simp; omega, by omega, by simpa using hpj⟩
      · rintro ⟨j, hj, rfl, hpj⟩
        cases j with
        | zero => left; rfl
        | succ j =>
          right
          exact ⟨j, by simp at hj; omega, by omega, by simpa using hpj⟩
    · rw [if_neg hp, ih]
      constructor
      · rintro ⟨j, hj, rfl, hpj⟩
        exact ⟨j + 1, by simp; omega, by omega, by simpa using hpj⟩
      · rintro ⟨j, hj, rfl, hpj⟩
        cases j with
        | zero => simp at hpj; exact absurd hpj hp
        | succ j => exact ⟨j, by simp at hj; omega, by omega, by simpa using hpj⟩

theorem idsFrom_ge (p : OldNode → Bool) (ns : List OldNode) (i : Nat) : ∀ x ∈ idsFrom p i ns, i ≤ x := by
  intro x hx
  obtain ⟨j, _, rfl, _⟩ := (idsFrom_mem p ns i x).mp hx
  omega

theorem idsFrom_asc (p : OldNode → Bool) (ns : List OldNode) (i : Nat) : Asc (idsFrom p i ns) := by
  induction ns generalizing i with
  | nil => simp [idsFrom]
  | cons n ns ih =>
    unfold idsFrom
    split
    · rw [Asc, List.pairwise_cons]
      exact ⟨fun x hx => by have := idsFrom_ge p ns (i + 1) x hx; omega, ih (i + 1)⟩
    · exact ih (i + 1)

/-- rank of position `i + j` among the ids = number of nodes with the property in front of `j` -/
theorem idsFrom_rank (p : OldNode → Bool) (ns : List OldNode) (i j : Nat) (hj : j ≤ ns.length) :
    ((idsFrom p i ns).filter (· < i + j)).length = ((ns.take j).filter p).length := by
  induction ns generalizing i j with
  | nil => simp [idsFrom]
  | cons n ns ih =>
    cases j with
    | zero =>
      simp only [Nat.add_zero, List.take_zero, List.filter_nil, List.length_nil,
        List.length_eq_zero_iff, List.filter_eq_nil_iff, decide_eq_true_eq]
      intro x hx
      have := idsFrom_ge p (n :: ns) i x hx
      omega
    | succ j =>
      have hj' : j ≤ ns.length := by simp at hj; omega
      have := ih (i + 1) j hj'
      rw [show i + 1 + j = i + (j + 1) by omega] at this
      unfold idsFrom
      by_cases hp : p n = true
      · rw [if_pos hp, List.take_succ_cons, List.filter_cons_of_pos hp, List.filter_cons_of_pos
          (by simp), List.length_cons, List.length_cons, this]
      · rw [if_neg hp, List.take_succ_cons, List.filter_cons_of_neg hp, this]

/-- the `k`-th node with the property, `k` = number of such nodes in front of `j` -/
theorem filter_getElem_rank (p : OldNode → Bool) (ns : List OldNode) (j : Nat) (hj : j < ns.length)
    (hp : p ns[j] = true) :
    (ns.filter p)[((ns.take j).filter p).length]? = some ns[j] := by
  induction ns generalizing j with
  | nil => simp at hj
  | cons n ns ih =>
    cases j with
    | zero =>
      simp only [List.getElem_cons_zero] at hp
      simp [List.filter_cons_of_pos hp]
    | succ j =>
      have hj' : j < ns.length := by simp at hj; omega
      simp only [List.getElem_cons_succ] at hp ⊢
      by_cases hn : p n = true
      · rw [List.take_succ_cons, List.filter_cons_of_pos hn, List.filter_cons_of_pos hn,
          List.length_cons, List.getElem?_cons_succ]
        exact ih j hj' hp
      · rw [List.take_succ_cons, List.filter_cons_of_neg hn, List.filter_cons_of_neg hn]
        exact ih j hj' hp

/-! ### `array.Base.InitIndex` read back -/

theorem zeroEmpty_getElem? (ws os : List Nat) (j w : Nat) (hw : ws[j]? = some w) (hne : w ≠ 0) :
    (zeroEmpty ws os)[j]? = os[j]? := by
  induction ws generalizing os j with
  | nil => simp at hw
  | cons a ws ih =>
    cases os with
    | nil => simp [zeroEmpty]
    | cons o os =>
      cases j with
      | zero =>
        simp only [List.getElem?_cons_zero, Option.some.injEq] at hw
        subst hw
        simp [zeroEmpty, hne]
      | succ j =>
        simp only [List.getElem?_cons_succ] at hw
        simp only [zeroEmpty, List.getElem?_cons_succ]
        exact ih os j hw

theorem bmhas_eq_getBit (ws : List Nat) (i : Nat) : bmhas ws i = getBit ws i := by
  unfold bmhas getBit
  rw [List.getD_eq_getElem?_getD]
  cases ws[i / 64]? with
  | none => simp
  | some w => rfl

/-- presence: a node is in the section's index iff its id is one of the indexes -/
theorem initIndex_bmhas {ids : List Nat} (h : Asc ids) (mw : Nat) (elts : Bytes) (i : Nat) :
    bmhas (initIndex ids mw elts).bitmaps i = decide (i ∈ ids) := by
  unfold initIndex
  simp only
  rw [bmhas_eq_getBit, getBit_ofIdx_asc h.ascLe]

/-- The word and the offset the accessors read for a present id, and the element number they
    derive from them (`Offsets[i>>6] + popcount(word below i)`): the rank of the id. -/
theorem initIndex_read {ids : List Nat} (h : Asc ids) (mw : Nat) (elts : Bytes) (i : Nat)
    (hi : i ∈ ids) :
    ∃ w off, (initIndex ids mw elts).bitmaps[i / 64]? = some w ∧
      (initIndex ids mw elts).offsets[i / 64]? = some off ∧
      w.testBit (i % 64) = true ∧
      off + popcount (w % 2 ^ (i % 64)) = (ids.filter (· < i)).length := by
  unfold initIndex
  simp only
  have hlen : i < 64 * (ofIdx ids (mw * 64)).length := ofIdx_mem_lt h.ascLe _ i hi
  have hr := rank64_of_index (ofIdx ids (mw * 64)) false [] i hlen
  obtain ⟨w, n, hw, hn, hR, hB⟩ := Slim.rank64_ok_inv _ _ _ _ hr
  simp only at hw hn
  have hbit : getBit (ofIdx ids (mw * 64)) i = true := by
    rw [getBit_ofIdx _ _ _ hlen]; simpa using hi
  have htb : w.testBit (i % 64) = true := by rw [← hB]; exact hbit
  have hw0 : w ≠ 0 := by
    intro h0; rw [h0, Nat.zero_testBit] at htb; cases htb
  refine ⟨w, n, hw, ?_, htb, ?_⟩
  · rw [zeroEmpty_getElem? _ _ _ w hw hw0]; exact hn
  · rw [← hR, cnt_getBit_ofIdx _ _ _ (by omega), eraseDups_of_asc h]

/-- `bitmap.Rank64(a.Bitmaps, a.Offsets, id)` on a present id -/
theorem initIndex_rank {ids : List Nat} (h : Asc ids) (mw : Nat) (elts : Bytes) (i : Nat)
    (hi : i ∈ ids) :
    arrRank (initIndex ids mw elts) i = .ok ((ids.filter (· < i)).length, true) := by
  obtain ⟨w, off, hw, ho, hb, hr⟩ := initIndex_read h mw elts i hi
  unfold arrRank rank64
  simp only [hw, ho, hb, hr]

/-! ### fixed-width elements -/

theorem flatMap_fixed_getElem? {α : Type} (f : α → Bytes) (w : Nat) (hf : ∀ a, (f a).length = w)
    (l : List α) (k j : Nat) (hj : j < w) :
    (l.flatMap f)[k * w + j]? = (l[k]?).bind (fun a => (f a)[j]?) := by
  induction l generalizing k with
  | nil => simp
  | cons a l ih =>
    rw [List.flatMap_cons]
    cases k with
    | zero =>
      rw [Nat.zero_mul, Nat.zero_add, List.getElem?_append_left (by rw [hf]; exact hj)]
      simp
    | succ k =>
      rw [List.getElem?_append_right (by rw [hf, Nat.succ_mul]; omega), hf,
        show (k + 1) * w + j - w = k * w + j by rw [Nat.succ_mul]; omega, ih]
      simp

theorem leBytes2 (v : Nat) : leBytes 2 v = [UInt8.ofNat (v % 256), UInt8.ofNat (v / 256 % 256)] := by
  simp only [leBytes]

theorem leBytes4 (v : Nat) : leBytes 4 v = [UInt8.ofNat (v % 256), UInt8.ofNat (v / 256 % 256),
    UInt8.ofNat (v / 256 / 256 % 256), UInt8.ofNat (v / 256 / 256 / 256 % 256)] := by
  show leBytes (3 + 1) v = _
  rw [leBytes]
  show _ :: leBytes (2 + 1) _ = _
  rw [leBytes]
  show _ :: _ :: leBytes (1 + 1) _ = _
  rw [leBytes]
  show _ :: _ :: _ :: leBytes (0 + 1) _ = _
  rw [leBytes, leBytes]

theorem toNat_ofNat_mod (v : Nat) : (UInt8.ofNat (v % 256)).toNat = v % 256 := by
  rw [UInt8.toNat_ofNat']; omega

/-! ### steps: `C06_step_rebase` -/

def hasStep (n : OldNode) : Bool := n.step != 0

theorem stepsMsg_eq (nodes : List OldNode) (mw : Nat) :
    stepsMsg nodes mw = initIndex (idsFrom hasStep 0 nodes) mw
      (((nodes.filter hasStep).map (·.step)).flatMap (leBytes 2)) := by
  unfold stepsMsg idsWhere
  rw [List.flatMap_map]
  rfl

/-- `U16.Get(id)` on the steps section: the stored step (as a uint16) -/
theorem u16Get_stepsMsg (nodes : List OldNode) (mw id : Nat) (hid : id < nodes.length)
    (hs : nodes[id].step ≠ 0) :
    u16Get (stepsMsg nodes mw) id = .ok (some (nodes[id].step % 65536)) := by
  rw [stepsMsg_eq]
  have hasc := idsFrom_asc hasStep nodes 0
  have hp : hasStep nodes[id] = true := by simpa [hasStep] using hs
  have hmem : id ∈ idsFrom hasStep 0 nodes :=
    (idsFrom_mem hasStep nodes 0 id).mpr ⟨id, hid, by omega, hp⟩
  obtain ⟨w, off, hw, ho, hb, hr⟩ := initIndex_read hasc mw
    (((nodes.filter hasStep).map (·.step)).flatMap (leBytes 2)) id hmem
  have hrank := idsFrom_rank hasStep nodes 0 id (by omega)
  rw [Nat.zero_add] at hrank
  rw [hrank] at hr
  have hk := filter_getElem_rank hasStep nodes id hid hp
  unfold u16Get
  simp only [hw, ho, hb, bind, Except.bind, pure, Except.pure, Bool.not_true, Bool.false_eq_true,
    if_false]
  have hst : off * 2 + popcount (w % 2 ^ (id % 64)) * 2
      = ((nodes.take id).filter hasStep).length * 2 + 0 := by omega
  have hst1 : off * 2 + popcount (w % 2 ^ (id % 64)) * 2 + 1
      = ((nodes.take id).filter hasStep).length * 2 + 1 := by omega
  have helts : (initIndex (idsFrom hasStep 0 nodes) mw
      (((nodes.filter hasStep).map (·.step)).flatMap (leBytes 2))).elts
      = ((nodes.filter hasStep).map (·.step)).flatMap (leBytes 2) := rfl
  rw [helts, hst1, hst,
    flatMap_fixed_getElem? (leBytes 2) 2 (fun _ => rfl) _ _ 0 (by omega),
    flatMap_fixed_getElem? (leBytes 2) 2 (fun _ => rfl) _ _ 1 (by omega),
    List.getElem?_map, hk]
  simp only [Option.map_some, Option.bind_some, leBytes2, List.getElem?_cons_zero,
    List.getElem?_cons_succ]
  rw [toNat_ofNat_mod, toNat_ofNat_mod]
  congr 2
  omega

/-- `C06_step_rebase`: on the steps section the writer wrote, `getStepBefore000510` returns the
    run length without the label half-byte, `stp - 1` (the Go code then multiplies by 4 for bits),
    and 0 for a node without a stored step — for every node id, any index extension. -/
theorem getStep_stepsMsg (nodes : List OldNode) (mw id : Nat) (hid : id < nodes.length)
    (hlim : nodes[id].step < 65536) :
    getStep (stepsMsg nodes mw) id = .ok (nodes[id].step - 1) := by
  unfold getStep
  have hbm : bmhas (stepsMsg nodes mw).bitmaps id = hasStep nodes[id] := by
    rw [stepsMsg_eq, initIndex_bmhas (idsFrom_asc hasStep nodes 0), Bool.eq_iff_iff, decide_eq_true_eq,
      idsFrom_mem]
    constructor
    · rintro ⟨j, hj, hij, hp⟩
      have : j = id := by omega
      subst this; exact hp
    · intro hp; exact ⟨id, hid, by omega, hp⟩
  rw [hbm]
  by_cases hs : nodes[id].step = 0
  · have : hasStep nodes[id] = false := by simp [hasStep, hs]
    rw [this, hs]
    rfl
  · have : hasStep nodes[id] = true := by simpa [hasStep] using hs
    rw [this, if_pos rfl, u16Get_stepsMsg nodes mw id hid hs]
    simp only [bind, Except.bind, pure, Except.pure]
    exact congrArg Except.ok (by omega)

/-! ### children: `C06_bm16` -/

abbrev isInner : OldNode → Bool := fun n => n.inner

theorem w0 (a b c d : Nat) (ha : a < 65536) :
    (a + b * 65536 + c * 4294967296 + d * 281474976710656) / 1 % 65536 = a := by omega
theorem w1 (a b c d : Nat) (ha : a < 65536) (hb : b < 65536) :
    (a + b * 65536 + c * 4294967296 + d * 281474976710656) / 65536 % 65536 = b := by omega
theorem w2 (a b c d : Nat) (ha : a < 65536) (hb : b < 65536) (hc : c < 65536) :
    (a + b * 65536 + c * 4294967296 + d * 281474976710656) / 4294967296 % 65536 = c := by omega
theorem w3 (a b c d : Nat) (ha : a < 65536) (hb : b < 65536) (hc : c < 65536) (hd : d < 65536) :
    (a + b * 65536 + c * 4294967296 + d * 281474976710656) / 281474976710656 % 65536 = d := by omega

theorem getD_lt (l : List Nat) (hlt : ∀ b ∈ l, b < 65536) (j : Nat) : l.getD j 0 < 65536 := by
  rw [List.getD_eq_getElem?_getD]
  cases h : l[j]? with
  | none => simp
  | some v => simp; exact hlt v (List.mem_of_getElem? h)

theorem packBM16_cons (a : Nat) (rest : List Nat) :
    packBM16 (a :: rest) =
      (a + rest.getD 0 0 * 65536 + rest.getD 1 0 * 4294967296 + rest.getD 2 0 * 281474976710656)
        :: packBM16 (rest.drop 3) := by
  rw [packBM16]

/-- the `k`-th 16-bit field of the packed words -/
theorem packBM16_get (bms : List Nat) (hlt : ∀ b ∈ bms, b < 65536) (k : Nat) (hk : k < bms.length) :
    ∃ w, (packBM16 bms)[k / 4]? = some w ∧ (w / 2 ^ (16 * (k % 4))) % 65536 = bms.getD k 0 := by
  induction bms using packBM16.induct generalizing k with
  | case1 => simp at hk
  | case2 a rest ih =>
    have ha : a < 65536 := hlt a (by simp)
    have hrest : ∀ b ∈ rest, b < 65536 := fun b hb => hlt b (List.mem_cons_of_mem _ hb)
    have hb := getD_lt rest hrest 0
    have hc := getD_lt rest hrest 1
    have hd := getD_lt rest hrest 2
    rw [packBM16_cons]
    rcases Nat.lt_or_ge k 4 with h4 | h4
    · refine ⟨_, by rw [show k / 4 = 0 by omega]; rfl, ?_⟩
      rcases (show k = 0 ∨ k = 1 ∨ k = 2 ∨ k = 3 by omega) with rfl | rfl | rfl | rfl
      · exact w0 a _ _ _ ha
      · exact w1 a _ _ _ ha hb
      · exact w2 a _ _ _ ha hb hc
      · exact w3 a _ _ _ ha hb hc hd
    · have hk' : k - 4 < (rest.drop 3).length := by simp at hk ⊢; omega
      obtain ⟨w, hw1, hw2⟩ := ih (fun x hx => hrest x (List.mem_of_mem_drop hx)) (k - 4) hk'
      refine ⟨w, ?_, ?_⟩
      · rw [show k / 4 = (k - 4) / 4 + 1 by omega, List.getElem?_cons_succ]; exact hw1
      · rw [show k % 4 = (k - 4) % 4 by omega, hw2]
        obtain ⟨m, rfl⟩ : ∃ m, k = m + 4 := ⟨k - 4, by omega⟩
        simp only [Nat.add_sub_cancel, List.getD_eq_getElem?_getD, List.getElem?_drop,
          List.getElem?_cons_succ]
        congr 2; omega

theorem initIndex_flags (ids : List Nat) (mw : Nat) (elts : Bytes) :
    (initIndex ids mw elts).flags = 0 ∧ (initIndex ids mw elts).elts = elts ∧
    (initIndex ids mw elts).bmElts = none := ⟨rfl, rfl, rfl⟩

/-- `C06_bm16`: on the children section the writer wrote — uint32 elements (≤ 0.5.3) or 16-bit
    bitmap elements (≥ 0.5.4), any index extension — `getBM16Child` returns the node's label
    bitmap shifted by one (`bm << 1`: bit 0 is left for the end-of-key label the loader adds when
    the node is also a leaf). -/
theorem getBM16Child_childrenMsg (vr : Variant) (nodes : List OldNode) (mw id : Nat)
    (hid : id < nodes.length) (hin : nodes[id].inner = true) (hbm : ∀ n ∈ nodes, n.bm < 65536) :
    getBM16Child (childrenMsg vr nodes mw) id = .ok (nodes[id].bm * 2) := by
  have hasc := idsFrom_asc isInner nodes 0
  have hp : isInner nodes[id] = true := hin
  have hmem : id ∈ idsFrom isInner 0 nodes :=
    (idsFrom_mem isInner nodes 0 id).mpr ⟨id, hid, by omega, hp⟩
  have hrank := idsFrom_rank isInner nodes 0 id (by omega)
  rw [Nat.zero_add] at hrank
  have hk := filter_getElem_rank isInner nodes id hid hp
  have hne : nodes.isEmpty = false := by
    cases nodes with
    | nil => simp at hid
    | cons _ _ => rfl
  unfold childrenMsg
  by_cases hv : vr.bitmapChild = true
  · -- bitmap children
    simp only [hv, Bool.not_true, Bool.false_eq_true, if_false, hne, Bool.false_and]
    unfold getBM16Child
    have hr : arrRank { initIndex (idsWhere nodes (·.inner)) mw [] with
          flags := 3, eltWidth := 16,
          bmElts := some { n := bitLenWords (packBM16 ((nodes.filter (·.inner)).map (·.bm))),
                           words := packBM16 ((nodes.filter (·.inner)).map (·.bm)),
                           rankIndex := indexRank128 (packBM16 ((nodes.filter (·.inner)).map (·.bm))) } } id
        = .ok (((nodes.take id).filter isInner).length, true) := by
      have := initIndex_rank hasc mw [] id hmem
      rw [hrank] at this
      exact this
    simp only [hr, bind, Except.bind, pure, Except.pure]
    have hfl : ¬ ((3 / 2) % 2 = 0) := by decide
    simp only [hfl, if_false]
    have hklt : ((nodes.take id).filter isInner).length < ((nodes.filter (·.inner)).map (·.bm)).length := by
      rw [List.length_map]
      exact (List.getElem?_eq_some_iff.mp hk).1
    obtain ⟨w, hw1, hw2⟩ := packBM16_get ((nodes.filter (·.inner)).map (·.bm))
      (fun b hb => by
        obtain ⟨n, hn, rfl⟩ := List.mem_map.mp hb
        exact hbm n (List.mem_filter.mp hn).1)
      _ hklt
    have e1 : ((nodes.take id).filter isInner).length * 16 / 64
        = ((nodes.take id).filter isInner).length / 4 := by omega
    have e2 : ((nodes.take id).filter isInner).length * 16 % 64
        = 16 * (((nodes.take id).filter isInner).length % 4) := by omega
    have e3 : (2 : Nat) ^ 16 = 65536 := by decide
    simp only [e1, e2, e3, hw1, Nat.shiftRight_eq_div_pow, hw2]
    rw [List.getD_eq_getElem?_getD, List.getElem?_map, hk]
    rfl
  · -- uint32 children
    have hv' : vr.bitmapChild = false := by simpa using hv
    simp only [hv', Bool.not_false, if_true]
    unfold getBM16Child
    have hr : arrRank (initIndex (idsWhere nodes (·.inner)) mw ((nodes.filter (·.inner)).flatMap u32Child)) id
        = .ok (((nodes.take id).filter isInner).length, true) := by
      have := initIndex_rank hasc mw ((nodes.filter (·.inner)).flatMap u32Child) id hmem
      rw [hrank] at this
      exact this
    simp only [hr, bind, Except.bind, pure, Except.pure]
    have hfl : (initIndex (idsWhere nodes (·.inner)) mw ((nodes.filter (·.inner)).flatMap u32Child)).flags / 2 % 2 = 0 := by
      simp [initIndex]
    simp only [hfl, if_true]
    have helts : (initIndex (idsWhere nodes (·.inner)) mw ((nodes.filter (·.inner)).flatMap u32Child)).elts
        = (nodes.filter isInner).flatMap u32Child := rfl
    rw [helts]
    have e0 := flatMap_fixed_getElem? u32Child 4 (fun _ => rfl) (nodes.filter isInner)
      ((nodes.take id).filter isInner).length 0 (by omega)
    have e1 := flatMap_fixed_getElem? u32Child 4 (fun _ => rfl) (nodes.filter isInner)
      ((nodes.take id).filter isInner).length 1 (by omega)
    have e2 := flatMap_fixed_getElem? u32Child 4 (fun _ => rfl) (nodes.filter isInner)
      ((nodes.take id).filter isInner).length 2 (by omega)
    have e3 := flatMap_fixed_getElem? u32Child 4 (fun _ => rfl) (nodes.filter isInner)
      ((nodes.take id).filter isInner).length 3 (by omega)
    rw [Nat.add_zero] at e0
    rw [e0, e1, e2, e3, hk]
    simp only [Option.bind_some, u32Child, leBytes4, List.getElem?_cons_zero, List.getElem?_cons_succ]
    rw [toNat_ofNat_mod, toNat_ofNat_mod]
    have := hbm nodes[id] (List.getElem_mem hid)
    congr 1
    omega

end Legacy

/-! ### leaves -/

namespace Legacy
open LegacyWrite

/-- the value bytes a node contributes to the leaves section -/
def leafVal (vals : Array Bytes) (n : OldNode) : Bytes :=
  match n.leaf with
  | some k => vals.getD k []
  | none => []

abbrev isLeaf : OldNode → Bool := fun n => n.leaf.isSome

theorem leavesMsg_eq (nodes : List OldNode) (vals : Array Bytes) :
    leavesMsg nodes vals = initIndex (idsFrom isLeaf 0 nodes) 0 (nodes.flatMap (leafVal vals)) := rfl

theorem flatMap_filter_nil {α : Type} (f : α → Bytes) (p : α → Bool) (h : ∀ a, p a = false → f a = [])
    (l : List α) : l.flatMap f = (l.filter p).flatMap f := by
  induction l with
  | nil => rfl
  | cons a l ih =>
    rw [List.flatMap_cons, ih]
    cases hp : p a
    · rw [List.filter_cons_of_neg (by simp [hp]), h a hp, List.nil_append]
    · rw [List.filter_cons_of_pos hp, List.flatMap_cons]

theorem flatMap_fixed_slice {α : Type} (f : α → Bytes) (w : Nat) (l : List α)
    (hf : ∀ a ∈ l, (f a).length = w) (k : Nat) (hk : k < l.length) :
    k * w + w ≤ (l.flatMap f).length ∧ ((l.flatMap f).drop (k * w)).take w = f l[k] := by
  induction l generalizing k with
  | nil => simp at hk
  | cons a l ih =>
    have ha : (f a).length = w := hf a List.mem_cons_self
    rw [List.flatMap_cons]
    cases k with
    | zero =>
      simp only [Nat.zero_mul, Nat.zero_add, List.drop_zero, List.getElem_cons_zero,
        List.length_append]
      refine ⟨by omega, ?_⟩
      rw [← ha, List.take_left]
    | succ k =>
      have hk' : k < l.length := by simp at hk; omega
      obtain ⟨h1, h2⟩ := ih (fun x hx => hf x (List.mem_cons_of_mem _ hx)) k hk'
      simp only [List.length_append, List.getElem_cons_succ]
      refine ⟨by rw [ha, Nat.succ_mul]; omega, ?_⟩
      rw [List.drop_append, List.drop_eq_nil_of_le (by rw [ha, Nat.succ_mul]; omega), List.nil_append,
        ha, show (k + 1) * w - w = k * w by rw [Nat.succ_mul]; omega]
      exact h2

/-- `Base.GetBytes(id, w)` on the leaves section the writer wrote: the encoded value of the key
    that ends at node `id` (all values of width `w`), any id of a node that is a leaf (also when it
    is an inner node at the same time). -/
theorem getBytes_leavesMsg (nodes : List OldNode) (vals : Array Bytes) (w id k : Nat)
    (hid : id < nodes.length) (hleaf : nodes[id].leaf = some k)
    (hw : ∀ n ∈ nodes, ∀ j, n.leaf = some j → (vals.getD j []).length = w) :
    getBytes (leavesMsg nodes vals) id w = .ok (some (vals.getD k [])) := by
  rw [leavesMsg_eq]
  have hasc := idsFrom_asc isLeaf nodes 0
  have hp : isLeaf nodes[id] = true := by simp [isLeaf, hleaf]
  have hmem : id ∈ idsFrom isLeaf 0 nodes :=
    (idsFrom_mem isLeaf nodes 0 id).mpr ⟨id, hid, by omega, hp⟩
  have hrank := idsFrom_rank isLeaf nodes 0 id (by omega)
  rw [Nat.zero_add] at hrank
  have hk := filter_getElem_rank isLeaf nodes id hid hp
  have hr := initIndex_rank hasc 0 (nodes.flatMap (leafVal vals)) id hmem
  rw [hrank] at hr
  unfold getBytes
  simp only [hr, bind, Except.bind, pure, Except.pure, Bool.not_true, Bool.false_eq_true, if_false]
  have helts : (initIndex (idsFrom isLeaf 0 nodes) 0 (nodes.flatMap (leafVal vals))).elts
      = (nodes.filter isLeaf).flatMap (leafVal vals) := by
    show nodes.flatMap (leafVal vals) = _
    apply flatMap_filter_nil
    intro a ha
    unfold leafVal
    cases hl : a.leaf with
    | none => rfl
    | some j => simp [isLeaf, hl] at ha
  have hwid : ∀ a ∈ nodes.filter isLeaf, (leafVal vals a).length = w := by
    intro a ha
    obtain ⟨ham, hap⟩ := List.mem_filter.mp ha
    unfold leafVal
    cases hl : a.leaf with
    | none => simp [isLeaf, hl] at hap
    | some j => exact hw a ham j hl
  obtain ⟨hklt, hkeq⟩ := List.getElem?_eq_some_iff.mp hk
  obtain ⟨h1, h2⟩ := flatMap_fixed_slice (leafVal vals) w (nodes.filter isLeaf) hwid _ hklt
  rw [helts, Nat.mul_comm w, Slim.sliceBytes_ok _ _ _ h1, h2, hkeq]
  unfold leafVal
  rw [hleaf]

end Legacy
