package lp

import (
	"encoding/json"
	"fmt"
	"os"
	"path/filepath"
	"runtime"
	"sync/atomic"
	"time"
)

// The watchdog turns an operation of the implementation that does not
// terminate, or that allocates without bound, into a reported violation with
// the offending op as replay, instead of a hung or OOM-killed check.

type opMark struct {
	line  string
	start time.Time
}

var (
	curOp       atomic.Value // *opMark
	watchCtx    atomic.Value // *Ctx
	OpTimeout   = 60 * time.Second
	HeapCeiling = uint64(6 << 30)
)

func beginOp(line string) { curOp.Store(&opMark{line, time.Now()}) }
func endOp()              { curOp.Store((*opMark)(nil)) }

func startWatchdog(c *Ctx) {
	watchCtx.Store(c)
	go func() {
		var ms runtime.MemStats
		tick := 0
		for {
			time.Sleep(200 * time.Millisecond)
			tick++
			m, _ := curOp.Load().(*opMark)
			if m == nil {
				continue
			}
			why := ""
			if time.Since(m.start) > OpTimeout {
				why = fmt.Sprintf("the call did not return within %s", OpTimeout)
			} else if tick%5 == 0 {
				runtime.ReadMemStats(&ms)
				if ms.HeapAlloc > HeapCeiling {
					why = fmt.Sprintf("the call allocates without bound (heap %d MiB)", ms.HeapAlloc>>20)
				}
			}
			if why == "" {
				continue
			}
			line := m.line
			if len(line) > 200000 {
				line = line[:200000]
			}
			v := Violation{Property: c.Prop, What: "an operation of the implementation does not terminate normally: " + why,
				Script: append(append([]string{}, c.Context...), line), Expected: "an answer", Got: "hang"}
			b, _ := json.Marshal(v)
			os.WriteFile(filepath.Join(c.OutDir, "watchdog.json"), b, 0o644)
			os.Exit(3)
		}
	}()
}
