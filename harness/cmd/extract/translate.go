// translate.go — tie 1, semantic part: a small translator from a Go subset to Lean 4
// definitions, written to lean/Generated/Funcs.lean.  The bridge theorems of
// lean/SlimProps/BridgeSem.lean equate the generated definitions with the
// model's functions for all inputs, so a harmless rewrite of the Go source keeps
// the tie and a change of meaning breaks a proof.
//
// Values and their Lean types:
//
//	sized integers            Nat   the bit pattern (< 2^w); see lean/Generated/GoSem.lean
//	bool                      Bool
//	*bool                     Option Bool   (nil = none; `*p` = p.getD false, Go would panic on nil)
//	[]byte, string            List Nat      (values < 256)
//	[]T for the above         List T'       (a slice PARAMETER that is compared with nil: Option (List T'))
//
// A signed integer RESULT is returned as Int (Go.toS); several results as a tuple; returning the
// pointer-to-struct parameter returns the tuple of its fields.
//
// Statements: `:=`, `=`, `op=`, `++`/`--`, `var x T [= e]`, `x[i] = e` on a local slice,
// `p.f = e` on a pointer-to-struct parameter (the fields are threaded like locals),
// `if`/`else` chains (no init statement), `return`, calls to `must.Be.…` (debug assertions, no-ops),
// and `for init; i < E; i++ { … }` / `i <= E` where `i` is the integer counter declared by `init`
// with a non-negative constant, the body assigns neither `i` nor a variable of `E`, and contains no
// break/continue; and `for i := range x`, `for i, v := range x`, `for _, v := range x` over a
// slice (the body may assign elements of x but not x, i or v): an index loop whose bound len(x) is
// evaluated once.  A loop becomes a fuel-recursive auxiliary definition `<f>_loop<k>` over the
// tuple of variables it assigns, called with fuel `E` (`E + 1`), which bounds the iteration count.
//
// Expressions: integer arithmetic `+ - * / % << >> & | ^ &^`, unary `- ^ +`, constants,
// conversions between integer types, indexing, `len`, `make([]T, n)`, `append(s, e)`, `Bool(e)`,
// comparisons, `&& || !`, `== nil` / `!= nil`, `*p`; and the specified primitives
//
//	bytes.Compare(a, b) != 0 / == 0   ↦  a != b / a == b   (byte-wise inequality)
//	bits.OnesCount64(x)               ↦  Go.popcount64 x
//	bitmap.Mask[k]                    ↦  Go.mask64 k        (= 2^k - 1)
//	bitmap.Bit[k]                     ↦  Go.bit64 k         (= 2^k)
//	binary.LittleEndian.PutUintN(b,v) ↦  b := Go.putUintLittleEndian (N/8) b v   (BigEndian alike)
//	binary.LittleEndian.UintN(s)      ↦  Go.uintLittleEndian (N/8) s
//
// also: slicing x[l:h] of a slice/string (List.drop/take), `a, b := e1, e2`, calls of functions that
// were translated before, `d.(T)` on an interface parameter (the parameter is a value of type T),
// `return` inside a loop (the loop definition then returns `state × Option result`), a struct value
// and a slice of structs (tuples; `x.f` is a projection), `make([]T, n, c)` (the capacity does not
// influence the value).
//
// Fragments (the translate… helpers at the end): the right-hand side of an assignment, a result
// expression, an argument of a call, the low bound of a slice expression, the statements before a
// call with the call's arguments as results; optionally with the locals replaced by their unique
// definitions (`inline`), or looking into the helper function that an assignment calls
// (translateAssignedVia).  What a fragment reads and does not define — including the results of
// calls that are not translated (bitmap.Rank128, …) — is a parameter of the definition.
//
// Anything else: fail("cannot translate …") — the translator never guesses.
//
// Identifiers that are not locals of the translated fragment — parameters, fields such as
// qr.keyBitLen, and, for extracted statements, the locals they read — become parameters of the
// Lean definition: declared Go parameters first, in declaration order (for a pointer-to-struct
// parameter whose fields the function assigns: its fields, in field order), then the others
// sorted by name.
package main

import (
	"fmt"
	"go/ast"
	"go/constant"
	"go/token"
	"go/types"
	"math/big"
	"os"
	"path/filepath"
	"regexp"
	"sort"
	"strings"
)

// ---- types -------------------------------------------------------------------

type intTy struct {
	w      int
	signed bool
}

type kind int

const (
	kInt kind = iota
	kBool
	kOptBool
	kBytes
	kSlice
	kStruct
)

type gty struct {
	k       kind
	it      intTy
	elem    *gty
	nilable bool
	fnames  []string // kStruct: field names …
	ftys    []gty    // … and types
}

func (g gty) lean() string {
	var s string
	switch g.k {
	case kInt:
		s = "Nat"
	case kBool:
		s = "Bool"
	case kOptBool:
		s = "Option Bool"
	case kBytes:
		s = "List Nat"
	case kSlice:
		e := g.elem.lean()
		if strings.Contains(e, " ") {
			e = "(" + e + ")"
		}
		s = "List " + e
	case kStruct:
		var fs []string
		for _, f := range g.ftys {
			l := f.lean()
			if strings.Contains(l, " ") {
				l = "(" + l + ")"
			}
			fs = append(fs, l)
		}
		s = strings.Join(fs, " × ")
	}
	if g.nilable {
		return "Option (" + s + ")"
	}
	return s
}

func (g gty) zero() string {
	switch g.k {
	case kInt:
		return "0"
	case kBool:
		return "false"
	case kOptBool:
		return "none"
	case kStruct:
		var zs []string
		for _, f := range g.ftys {
			zs = append(zs, f.zero())
		}
		return tuple(zs)
	}
	return "[]"
}

// proj: the Lean projection of field `name` of a struct value (a right-nested tuple)
func (g gty) proj(s, name string) (string, gty, bool) {
	for i, n := range g.fnames {
		if n == name {
			if len(g.fnames) == 1 {
				return s, g.ftys[i], true
			}
			p := s
			for j := 0; j < i; j++ {
				p += ".2"
			}
			if i < len(g.fnames)-1 {
				p += ".1"
			}
			return p, g.ftys[i], true
		}
	}
	return "", gty{}, false
}

func intTypeOf(t types.Type) (intTy, bool) {
	if t == nil {
		return intTy{}, false
	}
	b, ok := t.Underlying().(*types.Basic)
	if !ok {
		return intTy{}, false
	}
	switch b.Kind() {
	case types.Int8:
		return intTy{8, true}, true
	case types.Int16:
		return intTy{16, true}, true
	case types.Int32:
		return intTy{32, true}, true
	case types.Int64, types.Int:
		return intTy{64, true}, true
	case types.Uint8:
		return intTy{8, false}, true
	case types.Uint16:
		return intTy{16, false}, true
	case types.Uint32:
		return intTy{32, false}, true
	case types.Uint64, types.Uint:
		return intTy{64, false}, true
	}
	return intTy{}, false
}

func isByteSeq(t types.Type) bool {
	if t == nil {
		return false
	}
	switch u := t.Underlying().(type) {
	case *types.Basic:
		return u.Kind() == types.String
	case *types.Slice:
		it, ok := intTypeOf(u.Elem())
		return ok && it.w == 8 && !it.signed
	}
	return false
}

func isBool(t types.Type) bool {
	if t == nil {
		return false
	}
	b, ok := t.Underlying().(*types.Basic)
	return ok && (b.Kind() == types.Bool || b.Kind() == types.UntypedBool)
}

func goKind(t types.Type) (gty, bool) {
	if t == nil {
		return gty{}, false
	}
	if it, ok := intTypeOf(t); ok {
		return gty{k: kInt, it: it}, true
	}
	if isBool(t) {
		return gty{k: kBool}, true
	}
	if isByteSeq(t) {
		return gty{k: kBytes}, true
	}
	switch u := t.Underlying().(type) {
	case *types.Pointer:
		if isBool(u.Elem()) {
			return gty{k: kOptBool}, true
		}
	case *types.Slice:
		if e, ok := goKind(u.Elem()); ok {
			return gty{k: kSlice, elem: &e}, true
		}
	case *types.Struct:
		g := gty{k: kStruct}
		for i := 0; i < u.NumFields(); i++ {
			f, ok := goKind(u.Field(i).Type())
			if !ok || u.NumFields() == 0 {
				return gty{}, false
			}
			g.fnames = append(g.fnames, u.Field(i).Name())
			g.ftys = append(g.ftys, f)
		}
		if len(g.fnames) > 0 {
			return g, true
		}
	}
	return gty{}, false
}

var leanReserved = map[string]bool{"at": true, "from": true, "end": true, "fun": true, "let": true, "in": true,
	"if": true, "then": true, "else": true, "do": true, "have": true, "show": true, "with": true, "match": true,
	"def": true, "open": true, "where": true, "by": true, "for": true, "instance": true, "structure": true,
	"theorem": true, "namespace": true, "section": true, "variable": true, "universe": true, "Type": true, "Prop": true,
	"fuel": true, "st": true}

func leanName(s string) string {
	if leanReserved[s] {
		return s + "_"
	}
	return s
}

// ---- the translator state -------------------------------------------------------

// a function that has been translated with a pattern-level definition `<lean>` (all results as bit
// patterns) and whose Lean parameters are exactly its Go parameters, in order: it can be called
type callee struct {
	lean    string
	nparams int
	results []gty
}

var translated = map[string]callee{}

// binary.LittleEndian.PutUint16 / binary.BigEndian.Uint32 …
var binaryOrder = regexp.MustCompile(`^binary\.(LittleEndian|BigEndian)\.(PutUint|Uint)(16|32|64)$`)

type leanParam struct {
	name string
	key  string // identity: object address or selector source
	ty   gty
	decl int // sort key of declared parameters (and their fields), -1 for the others
}

type funcTr struct {
	what    string
	info    *types.Info
	files   []*ast.File
	fd      *ast.FuncDecl
	bound   map[types.Object]bool
	declAt  map[types.Object]int
	params  []leanParam
	fields  map[string]string // source of a field selection that is threaded as a variable -> lean name
	nilCmp  map[string]bool   // keys of slice variables that are compared with nil
	used    map[string]bool   // lean names referenced (for the parameters of loop definitions)
	tyOf    map[string]gty    // lean name -> type
	aux     []string          // auxiliary (loop) definitions
	forced  map[types.Object]types.Type
	mutated map[types.Object]bool // pointer parameters whose fields the function assigns
	synth   map[string]bool       // generated names (loop lengths)
	resLean string                // the Lean result type, when it is known from the signature
	inline  bool                  // extraction mode: a local with a unique assignment is replaced by its definition
	loopCnt int
}

func (t *funcTr) fail(n ast.Node, why string) {
	fail(fmt.Sprintf("%s: %s: %s", t.what, why, src(n)))
}

func (t *funcTr) typeOf(e ast.Expr) types.Type {
	if tv, ok := t.info.Types[e]; ok && tv.Type != nil {
		if b, isB := tv.Type.(*types.Basic); !isB || b.Kind() != types.Invalid {
			return tv.Type
		}
	}
	if id, ok := e.(*ast.Ident); ok {
		for _, o := range []types.Object{t.info.Uses[id], t.info.Defs[id]} {
			if o != nil {
				if b, isB := o.Type().(*types.Basic); !isB || b.Kind() != types.Invalid {
					return o.Type()
				}
				if ft, ok := t.forced[o]; ok {
					return ft
				}
				if pt := t.primitiveType(o); pt != nil {
					return pt
				}
			}
		}
	}
	return nil
}

// primitiveType: the type of a local that is defined by `x := bits.OnesCount64(…)` (go/types does not
// know the imported function; the specified primitive returns an int)
func (t *funcTr) primitiveType(o types.Object) types.Type {
	var res types.Type
	if t.fd == nil || t.fd.Body == nil {
		return nil
	}
	ast.Inspect(t.fd.Body, func(x ast.Node) bool {
		if a, ok := x.(*ast.AssignStmt); ok && a.Tok == token.DEFINE && len(a.Lhs) == 1 && len(a.Rhs) == 1 {
			if id, ok := a.Lhs[0].(*ast.Ident); ok && t.info.Defs[id] == o {
				if c, ok := a.Rhs[0].(*ast.CallExpr); ok && src(c.Fun) == "bits.OnesCount64" {
					res = types.Typ[types.Int]
				}
			}
		}
		return true
	})
	return res
}

var basicOf = map[intTy]types.BasicKind{{8, true}: types.Int8, {16, true}: types.Int16, {32, true}: types.Int32,
	{64, true}: types.Int64, {8, false}: types.Uint8, {16, false}: types.Uint16, {32, false}: types.Uint32, {64, false}: types.Uint64}

// inferInt: the integer type of an expression whose type go/types could not determine because a
// subexpression calls into an imported package: Go's arithmetic operators require identical operand
// types, so the type of one operand is the type of the other and of the result.
func (t *funcTr) inferInt(e ast.Expr) (intTy, bool) {
	if it, ok := intTypeOf(t.typeOf(e)); ok {
		return it, true
	}
	switch x := e.(type) {
	case *ast.ParenExpr:
		return t.inferInt(x.X)
	case *ast.BinaryExpr:
		switch x.Op {
		case token.SHL, token.SHR:
			return t.inferInt(x.X)
		case token.ADD, token.SUB, token.MUL, token.QUO, token.REM, token.AND, token.OR, token.XOR, token.AND_NOT:
			if it, ok := t.inferInt(x.X); ok {
				return it, true
			}
			return t.inferInt(x.Y)
		}
	case *ast.CallExpr:
		if ftv := t.info.Types[x.Fun]; ftv.IsType() {
			return intTypeOf(ftv.Type)
		}
	}
	return intTy{}, false
}

// force records the inferred type of the untyped identifiers of an arithmetic expression.
func (t *funcTr) force(e ast.Expr, it intTy) {
	switch x := e.(type) {
	case *ast.ParenExpr:
		t.force(x.X, it)
	case *ast.Ident:
		if _, known := intTypeOf(t.typeOf(x)); !known {
			if o := t.obj(x); o != nil {
				t.forced[o] = types.Typ[basicOf[it]]
			}
		}
	case *ast.BinaryExpr:
		switch x.Op {
		case token.SHL, token.SHR:
			t.force(x.X, it)
		case token.ADD, token.SUB, token.MUL, token.QUO, token.REM, token.AND, token.OR, token.XOR, token.AND_NOT:
			t.force(x.X, it)
			t.force(x.Y, it)
		}
	}
}

func (t *funcTr) obj(id *ast.Ident) types.Object {
	if o := t.info.Uses[id]; o != nil {
		return o
	}
	return t.info.Defs[id]
}

func (t *funcTr) note(name string, ty gty) {
	if old, ok := t.tyOf[name]; ok && old.lean() != ty.lean() {
		fail(fmt.Sprintf("%s: the name %s is used for values of two different types", t.what, name))
	}
	t.tyOf[name] = ty
	t.used[name] = true
}

// param registers (or finds) the parameter that stands for a free identifier or field selection.
func (t *funcTr) param(e ast.Expr, name, key string, ty gty, decl int) string {
	name = leanName(name)
	for _, p := range t.params {
		if p.key == key {
			t.note(p.name, p.ty)
			return p.name
		}
		if p.name == name {
			t.fail(e, "two different free variables are both called "+name)
		}
	}
	if ty.k == kSlice && t.nilCmp[key] {
		ty.nilable = true
	}
	t.params = append(t.params, leanParam{name, key, ty, decl})
	t.note(name, ty)
	return name
}

// varKey identifies an identifier or a chain of field selections rooted at a variable.
func (t *funcTr) varKey(e ast.Expr) (string, bool) {
	switch x := e.(type) {
	case *ast.ParenExpr:
		return t.varKey(x.X)
	case *ast.Ident:
		if v, ok := t.obj(x).(*types.Var); ok {
			return fmt.Sprintf("var:%p", v), true
		}
	case *ast.SelectorExpr:
		return "sel:" + src(x), true
	}
	return "", false
}

// ref translates an identifier or a chain of field selections: a let-bound local (or threaded
// field) by its name, anything else as a parameter.  Returns the term and its type.
func (t *funcTr) ref(e ast.Expr) (string, gty) {
	if id, isId := e.(*ast.Ident); isId && t.bound[t.obj(id)] {
		// a local: its type was fixed when it was bound (go/types may not know it)
		if ty, known := t.tyOf[leanName(id.Name)]; known {
			t.note(leanName(id.Name), ty)
			return leanName(id.Name), ty
		}
	}
	typ := t.typeOf(e)
	ty, ok := goKind(typ)
	if !ok {
		t.fail(e, "value of an unsupported type")
	}
	switch x := e.(type) {
	case *ast.ParenExpr:
		return t.ref(x.X)
	case *ast.Ident:
		o := t.obj(x)
		v, ok := o.(*types.Var)
		if !ok {
			t.fail(e, "identifier is not a variable")
		}
		if _, isParam := t.declAt[o]; t.inline && !isParam && !t.bound[o] {
			if rhs := assignedTo(t.fd, x.Name); len(rhs) == 1 && !mentions(rhs[0], t.info, o) {
				return t.val(rhs[0])
			}
		}
		if t.bound[o] {
			n := leanName(x.Name)
			if old, ok := t.tyOf[n]; ok {
				ty = old
			}
			t.note(n, ty)
			return n, ty
		}
		decl := -1
		if d, ok := t.declAt[o]; ok {
			decl = d * 1000
		}
		n := t.param(e, x.Name, fmt.Sprintf("var:%p", v), ty, decl)
		return n, t.tyOf[n]
	case *ast.SelectorExpr:
		if n, ok := t.fields[src(x)]; ok {
			t.note(n, t.tyOf[n])
			return n, t.tyOf[n]
		}
		// every link must be a field selection rooted at a variable
		var cur ast.Expr = x
		depth := 0
		for {
			s, ok := cur.(*ast.SelectorExpr)
			if !ok {
				break
			}
			if fv, ok := t.info.Uses[s.Sel].(*types.Var); !ok || !fv.IsField() {
				t.fail(e, "not a field selection")
			}
			cur = s.X
			depth++
		}
		root, ok := cur.(*ast.Ident)
		if !ok {
			t.fail(e, "field selection is not rooted at a variable")
		}
		ro := t.obj(root)
		if _, ok := ro.(*types.Var); !ok {
			t.fail(e, "field selection is not rooted at a variable")
		}
		if t.bound[ro] {
			t.fail(e, "field of a local variable")
		}
		decl := -1
		if d, ok := t.declAt[ro]; ok && depth == 1 && t.mutated[ro] {
			decl = d*1000 + 1 + fieldIndex(ro.Type(), x.Sel.Name)
		}
		n := t.param(e, x.Sel.Name, "sel:"+src(x), ty, decl)
		return n, t.tyOf[n]
	}
	t.fail(e, "unsupported operand")
	return "", ty
}

func fieldIndex(t types.Type, name string) int {
	if p, ok := t.Underlying().(*types.Pointer); ok {
		t = p.Elem()
	}
	if s, ok := t.Underlying().(*types.Struct); ok {
		for i := 0; i < s.NumFields(); i++ {
			if s.Field(i).Name() == name {
				return i
			}
		}
	}
	return 0
}

func pattern(v constant.Value, w int) string {
	var i *big.Int
	switch x := constant.Val(constant.ToInt(v)).(type) {
	case *big.Int:
		i = x
	case int64:
		i = big.NewInt(x)
	default:
		return ""
	}
	m := new(big.Int).Lsh(big.NewInt(1), uint(w))
	return new(big.Int).Mod(i, m).String() // Mod is Euclidean: the two's complement pattern
}

// ---- expressions ------------------------------------------------------------------

// seq makes a (possibly nil-able) slice term a plain list.
func seq(s string, ty gty) string {
	if ty.nilable {
		return "(" + s + ".getD [])"
	}
	return s
}

// val translates an expression of any supported type.
func (t *funcTr) val(e ast.Expr) (string, gty) {
	if p, ok := e.(*ast.ParenExpr); ok {
		return t.val(p.X)
	}
	if id, ok := e.(*ast.Ident); ok && id.Name != "nil" && t.obj(id) != nil && t.bound[t.obj(id)] {
		if _, known := t.tyOf[leanName(id.Name)]; known {
			return t.ref(e) // a local: its type was fixed when it was bound
		}
	}
	if id, ok := e.(*ast.Ident); ok && t.inline && id.Name != "nil" {
		if o := t.obj(id); o != nil {
			if _, isParam := t.declAt[o]; !isParam && !t.bound[o] {
				if rhs := assignedTo(t.fd, id.Name); len(rhs) == 1 && !mentions(rhs[0], t.info, o) {
					return t.val(rhs[0])
				}
			}
		}
	}
	// forms whose types go/types cannot know (imported packages are opaque to the extractor)
	if ix, ok := e.(*ast.IndexExpr); ok && src(ix.X) == "bitmap.Mask" {
		k, _ := t.expr(ix.Index)
		return fmt.Sprintf("(Go.mask64 %s)", k), gty{k: kInt, it: intTy{64, false}}
	}
	if ix, ok := e.(*ast.IndexExpr); ok && src(ix.X) == "bitmap.Bit" {
		k, _ := t.expr(ix.Index)
		return fmt.Sprintf("(Go.bit64 %s)", k), gty{k: kInt, it: intTy{64, false}}
	}
	if ta, ok := e.(*ast.TypeAssertExpr); ok {
		// d.(T) on an interface-typed parameter: the parameter is a value of type T
		id, isId := ta.X.(*ast.Ident)
		if !isId || ta.Type == nil {
			t.fail(e, "type assertion")
		}
		o := t.obj(id)
		decl := -1
		if d, isDecl := t.declAt[o]; isDecl {
			decl = d * 1000
		} else if o == nil || t.bound[o] || !t.inline {
			t.fail(e, "type assertion on something that is not a parameter")
		}
		// (a free variable of an inlined fragment — the result of a call that is not translated —
		// is an input of the fragment like a parameter; the type of such a result may be unknown)
		_, isIface := o.Type().Underlying().(*types.Interface)
		if b, isBasic := o.Type().Underlying().(*types.Basic); !isIface && !(decl < 0 && isBasic && b.Kind() == types.Invalid) {
			t.fail(e, "type assertion on something that is not an interface")
		}
		taTy := t.info.Types[ta.Type].Type
		if tid, isId := ta.Type.(*ast.Ident); taTy == nil && isId {
			// not recorded by go/types when the operand is of an unknown type: a predeclared type
			if tn, isTn := types.Universe.Lookup(tid.Name).(*types.TypeName); isTn && (t.info.Uses[tid] == nil || t.info.Uses[tid] == tn) {
				taTy = tn.Type()
			}
		}
		if taTy == nil {
			t.fail(e, "type assertion to an unsupported type")
		}
		g, ok := goKind(taTy)
		if !ok {
			t.fail(e, "type assertion to an unsupported type")
		}
		n := t.param(e, id.Name, fmt.Sprintf("var:%p", o), g, decl)
		if t.tyOf[n].lean() != g.lean() || (g.k == kInt && t.tyOf[n].it != g.it) {
			t.fail(e, "two type assertions of one parameter to different types")
		}
		return n, g
	}
	if sl, ok := e.(*ast.SliceExpr); ok {
		if sl.Slice3 {
			t.fail(e, "3-index slice")
		}
		x, xty := t.val(sl.X)
		if xty.k != kBytes && xty.k != kSlice {
			t.fail(e, "slicing of something that is not a slice or string")
		}
		x = seq(x, xty)
		xty.nilable = false
		lo, hi := "", ""
		if sl.Low != nil {
			lo, _ = t.expr(sl.Low)
		}
		if sl.High != nil {
			hi, _ = t.expr(sl.High)
		}
		switch {
		case lo == "" && hi == "":
			return x, xty
		case lo == "":
			return fmt.Sprintf("(%s.take %s)", x, hi), xty
		case hi == "":
			return fmt.Sprintf("(%s.drop %s)", x, lo), xty
		}
		return fmt.Sprintf("((%s.drop %s).take (%s - %s))", x, lo, hi, lo), xty
	}
	if c, ok := e.(*ast.CallExpr); ok {
		if m := binaryOrder.FindStringSubmatch(src(c.Fun)); m != nil && len(c.Args) == 1 && m[2] == "Uint" {
			// binary.LittleEndian.Uint16(s) …
			a, aty := t.val(c.Args[0])
			if aty.k != kBytes {
				t.fail(e, "encoding/binary read of something that is not a byte slice")
			}
			w := map[string]int{"16": 16, "32": 32, "64": 64}[m[3]]
			return fmt.Sprintf("(Go.uint%s %d %s)", m[1], w/8, a), gty{k: kInt, it: intTy{w, false}}
		}
		if ce, ok := translated[src(c.Fun)]; ok && len(ce.results) == 1 && len(c.Args) == ce.nparams {
			var args []string
			for _, a := range c.Args {
				v, _ := t.val(a)
				args = append(args, v)
			}
			return fmt.Sprintf("(%s %s)", ce.lean, strings.Join(args, " ")), ce.results[0]
		}
		switch src(c.Fun) {
		case "bits.OnesCount64":
			if len(c.Args) != 1 {
				t.fail(e, "bits.OnesCount64")
			}
			a, aty := t.expr(c.Args[0])
			if aty != (intTy{64, false}) {
				t.fail(e, "bits.OnesCount64 of something that is not a uint64")
			}
			return fmt.Sprintf("(Go.popcount64 %s)", a), gty{k: kInt, it: intTy{64, true}}
		case "len":
			if len(c.Args) != 1 {
				t.fail(e, "len")
			}
			a, aty := t.val(c.Args[0])
			if aty.k != kBytes && aty.k != kSlice {
				t.fail(e, "len of something that is not a slice or string")
			}
			return fmt.Sprintf("(%s.length)", seq(a, aty)), gty{k: kInt, it: intTy{64, true}}
		case "make":
			// a capacity has no influence on the value (its evaluation must be pure: checked by
			// translating it); `make` with a capacity below the length panics, like indexing out of range
			if len(c.Args) == 3 {
				t.expr(c.Args[2])
			} else if len(c.Args) != 2 {
				t.fail(e, "make")
			}
			ty, ok := goKind(t.info.Types[c.Args[0]].Type)
			if !ok || (ty.k != kSlice && ty.k != kBytes) {
				t.fail(e, "make of an unsupported type")
			}
			n, _ := t.expr(c.Args[1])
			z := "0"
			if ty.k == kSlice {
				z = ty.elem.zero()
			}
			return fmt.Sprintf("(List.replicate %s %s)", n, z), ty
		case "append":
			if len(c.Args) != 2 || c.Ellipsis.IsValid() {
				t.fail(e, "append (only append(s, e))")
			}
			s, sty := t.val(c.Args[0])
			if sty.k != kSlice && sty.k != kBytes {
				t.fail(e, "append to something that is not a slice")
			}
			x, _ := t.val(c.Args[1])
			sty2 := sty
			sty2.nilable = false
			return fmt.Sprintf("(%s ++ [%s])", seq(s, sty), x), sty2
		case "Bool":
			// trie.Bool(v) returns &v
			bd := funcDecl(t.files, "", "Bool")
			if src(bd.Body) != "{ return &v }" || len(c.Args) != 1 {
				t.fail(e, "Bool(…) is not `return &v`")
			}
			a := t.bexpr(c.Args[0])
			return fmt.Sprintf("(some %s)", a), gty{k: kOptBool}
		}
		if ftv := t.info.Types[c.Fun]; ftv.IsType() && len(c.Args) == 1 {
			if _, ok := intTypeOf(ftv.Type); ok {
				s, it := t.expr(e)
				return s, gty{k: kInt, it: it}
			}
			if isByteSeq(ftv.Type) {
				// []byte(s) / string(b): the same bytes
				a, aty := t.val(c.Args[0])
				if aty.k != kBytes {
					t.fail(e, "conversion to a byte sequence")
				}
				return a, aty
			}
		}
		t.fail(e, "call")
	}
	// boolean forms (their type may be unknown to go/types when an operand is an imported call)
	switch x := e.(type) {
	case *ast.BinaryExpr:
		switch x.Op {
		case token.EQL, token.NEQ, token.LSS, token.LEQ, token.GTR, token.GEQ, token.LAND, token.LOR:
			return t.bexpr(e), gty{k: kBool}
		}
	case *ast.UnaryExpr:
		if x.Op == token.NOT {
			return t.bexpr(e), gty{k: kBool}
		}
	}
	typ := t.typeOf(e)
	ty, ok := goKind(typ)
	if !ok {
		if it, isInt := t.inferInt(e); isInt {
			ty, ok = gty{k: kInt, it: it}, true
		}
	}
	if !ok {
		t.fail(e, "value of an unsupported type")
	}
	switch ty.k {
	case kInt:
		s, it := t.expr(e)
		return s, gty{k: kInt, it: it}
	case kBool:
		return t.bexpr(e), ty
	}
	switch x := e.(type) {
	case *ast.Ident:
		if x.Name == "nil" {
			t.fail(e, "nil")
		}
		return t.ref(e)
	case *ast.SelectorExpr:
		if s, g, ok := t.structField(x); ok {
			return s, g
		}
		return t.ref(e)
	case *ast.IndexExpr:
		s, sty := t.val(x.X)
		if sty.k != kSlice {
			t.fail(e, "indexing")
		}
		i, _ := t.expr(x.Index)
		return fmt.Sprintf("(%s.getD (%s) %s)", seq(s, sty), i, sty.elem.zero()), *sty.elem
	case *ast.CompositeLit:
		if len(x.Elts) == 0 && (ty.k == kBytes || ty.k == kSlice) {
			return "[]", ty
		}
	}
	t.fail(e, "unsupported expression")
	return "", ty
}

// structField: x.f where x is a struct VALUE (a local, or an element of a slice of structs)
func (t *funcTr) structField(x *ast.SelectorExpr) (string, gty, bool) {
	g, ok := goKind(t.typeOf(x.X))
	if !ok || g.k != kStruct {
		return "", gty{}, false
	}
	if id, isId := x.X.(*ast.Ident); isId && !t.bound[t.obj(id)] {
		return "", gty{}, false // a struct-valued parameter: its fields are parameters (ref)
	}
	s, sg := t.val(x.X)
	p, fg, ok := sg.proj(s, x.Sel.Name)
	if !ok {
		t.fail(x, "field")
	}
	return p, fg, true
}

// expr translates an integer expression to a Lean term of type Nat (the bit pattern).
func (t *funcTr) expr(e ast.Expr) (string, intTy) {
	if p, ok := e.(*ast.ParenExpr); ok {
		return t.expr(p.X)
	}
	tv := t.info.Types[e]
	ty, isInt := intTypeOf(tv.Type)
	if !isInt && tv.Value == nil {
		if it, ok := t.inferInt(e); ok {
			t.force(e, it)
			ty, isInt = it, true
		}
	}
	if tv.Value != nil {
		if !isInt || constant.ToInt(tv.Value).Kind() != constant.Int {
			t.fail(e, "constant is not of a sized integer type")
		}
		s := pattern(tv.Value, ty.w)
		if s == "" {
			t.fail(e, "constant")
		}
		return s, ty
	}
	if sel, ok := e.(*ast.SelectorExpr); ok {
		if s, g, ok := t.structField(sel); ok {
			if g.k != kInt {
				t.fail(e, "not an integer")
			}
			return s, g.it
		}
	}
	switch x := e.(type) {
	case *ast.TypeAssertExpr:
		s, g := t.val(e)
		if g.k != kInt {
			t.fail(e, "not an integer")
		}
		return s, g.it
	case *ast.Ident, *ast.SelectorExpr:
		s, g := t.ref(e)
		if g.k != kInt {
			t.fail(e, "not an integer")
		}
		return s, g.it
	case *ast.IndexExpr:
		if src(x.X) == "bitmap.Mask" || src(x.X) == "bitmap.Bit" {
			s, g := t.val(e)
			return s, g.it
		}
		s, sty := t.val(x.X)
		idx, _ := t.expr(x.Index)
		switch {
		case sty.k == kBytes:
			return fmt.Sprintf("(%s.getD (%s) 0)", seq(s, sty), idx), intTy{8, false}
		case sty.k == kSlice && sty.elem.k == kInt:
			return fmt.Sprintf("(%s.getD (%s) 0)", seq(s, sty), idx), sty.elem.it
		}
		t.fail(e, "indexing of something that is not a slice of integers")
	case *ast.CallExpr:
		ftv := t.info.Types[x.Fun]
		if ftv.IsType() && len(x.Args) == 1 {
			to, ok := intTypeOf(ftv.Type)
			if !ok {
				t.fail(e, "conversion to a non-integer type")
			}
			a, aty := t.expr(x.Args[0])
			return fmt.Sprintf("(Go.conv %d %v %d %s)", aty.w, aty.signed, to.w, a), to
		}
		s, g := t.val(e)
		if g.k != kInt {
			t.fail(e, "not an integer")
		}
		return s, g.it
	case *ast.UnaryExpr:
		if !isInt {
			t.fail(e, "not an integer expression")
		}
		a, _ := t.expr(x.X)
		switch x.Op {
		case token.ADD:
			return a, ty
		case token.SUB:
			return fmt.Sprintf("(Go.neg %d %s)", ty.w, a), ty
		case token.XOR:
			return fmt.Sprintf("(Go.not %d %s)", ty.w, a), ty
		}
		t.fail(e, "unary operator")
	case *ast.BinaryExpr:
		if !isInt {
			t.fail(e, "not an integer expression")
		}
		return t.binary(e, x.Op, x.X, x.Y, ty), ty
	}
	t.fail(e, "unsupported integer expression")
	return "", ty
}

// exprAs: an operand of an arithmetic operator whose result type is `ty`; an untyped constant (its
// conversion is not recorded by go/types when the other operand involves an imported package) takes
// that type, as the Go specification says.
func (t *funcTr) exprAs(e ast.Expr, ty intTy) (string, intTy) {
	tv := t.info.Types[e]
	if tv.Value != nil {
		if b, ok := tv.Type.(*types.Basic); ok && b.Info()&types.IsUntyped != 0 && constant.ToInt(tv.Value).Kind() == constant.Int {
			if s := pattern(tv.Value, ty.w); s != "" {
				return s, ty
			}
		}
	}
	return t.expr(e)
}

// shiftCount: the count of a shift; a non-negative constant is its value.
func (t *funcTr) shiftCount(e ast.Expr) string {
	tv := t.info.Types[e]
	if tv.Value != nil {
		v := constant.ToInt(tv.Value)
		if v.Kind() != constant.Int || constant.Sign(v) < 0 {
			t.fail(e, "shift count")
		}
		return v.ExactString()
	}
	s, _ := t.expr(e)
	return s
}

func (t *funcTr) binary(at ast.Expr, op token.Token, l, r ast.Expr, ty intTy) string {
	if op == token.SHL || op == token.SHR {
		a, _ := t.expr(l)
		k := t.shiftCount(r)
		switch {
		case op == token.SHL:
			return fmt.Sprintf("(Go.shl %d %s %s)", ty.w, a, k)
		case ty.signed:
			return fmt.Sprintf("(Go.sar %d %s %s)", ty.w, a, k)
		default:
			return fmt.Sprintf("(Go.shr %s %s)", a, k)
		}
	}
	a, aty := t.exprAs(l, ty)
	b, bty := t.exprAs(r, ty)
	if aty != ty || bty != ty {
		t.fail(at, "operand types differ from the result type")
	}
	switch op {
	case token.ADD:
		return fmt.Sprintf("(Go.add %d %s %s)", ty.w, a, b)
	case token.SUB:
		return fmt.Sprintf("(Go.sub %d %s %s)", ty.w, a, b)
	case token.MUL:
		return fmt.Sprintf("(Go.mul %d %s %s)", ty.w, a, b)
	case token.AND:
		return fmt.Sprintf("(Go.and %s %s)", a, b)
	case token.OR:
		return fmt.Sprintf("(Go.or %s %s)", a, b)
	case token.XOR:
		return fmt.Sprintf("(Go.xor %s %s)", a, b)
	case token.AND_NOT:
		return fmt.Sprintf("(Go.andNot %d %s %s)", ty.w, a, b)
	case token.QUO:
		if ty.signed {
			return fmt.Sprintf("(Go.divS %d %s %s)", ty.w, a, b)
		}
		return fmt.Sprintf("(Go.divU %s %s)", a, b)
	case token.REM:
		if ty.signed {
			return fmt.Sprintf("(Go.modS %d %s %s)", ty.w, a, b)
		}
		return fmt.Sprintf("(Go.modU %s %s)", a, b)
	}
	t.fail(at, "binary operator "+op.String())
	return ""
}

func isNil(e ast.Expr) bool {
	id, ok := e.(*ast.Ident)
	return ok && id.Name == "nil"
}

// bexpr translates a boolean expression to a Lean term of type Bool.
func (t *funcTr) bexpr(e ast.Expr) string {
	if tv := t.info.Types[e]; tv.Value != nil && tv.Value.Kind() == constant.Bool {
		if constant.BoolVal(tv.Value) {
			return "true"
		}
		return "false"
	}
	switch x := e.(type) {
	case *ast.ParenExpr:
		return t.bexpr(x.X)
	case *ast.Ident, *ast.SelectorExpr:
		s, g := t.ref(e)
		if g.k != kBool {
			t.fail(e, "not a bool")
		}
		return s
	case *ast.StarExpr:
		s, g := t.val(x.X)
		if g.k != kOptBool {
			t.fail(e, "dereference of something that is not a *bool")
		}
		return fmt.Sprintf("(%s.getD false)", s)
	case *ast.IndexExpr:
		s, g := t.val(e)
		if g.k != kBool {
			t.fail(e, "not a bool")
		}
		return s
	case *ast.UnaryExpr:
		if x.Op == token.NOT {
			return "(!" + t.bexpr(x.X) + ")"
		}
	case *ast.BinaryExpr:
		switch x.Op {
		case token.LAND:
			return "(" + t.bexpr(x.X) + " && " + t.bexpr(x.Y) + ")"
		case token.LOR:
			return "(" + t.bexpr(x.X) + " || " + t.bexpr(x.Y) + ")"
		case token.EQL, token.NEQ, token.LSS, token.LEQ, token.GTR, token.GEQ:
			eq := x.Op == token.EQL
			if x.Op == token.EQL || x.Op == token.NEQ {
				// comparison with nil
				if isNil(x.Y) || isNil(x.X) {
					o := x.X
					if isNil(x.X) {
						o = x.Y
					}
					s, g := t.val(o)
					if g.k != kOptBool && !g.nilable {
						t.fail(e, "comparison with nil of something that cannot be nil here")
					}
					if eq {
						return fmt.Sprintf("(%s.isNone)", s)
					}
					return fmt.Sprintf("(%s.isSome)", s)
				}
				// bytes.Compare(a, b) ==/!= 0
				if c, ok := x.X.(*ast.CallExpr); ok && src(c.Fun) == "bytes.Compare" && len(c.Args) == 2 {
					if bl, ok := x.Y.(*ast.BasicLit); !ok || bl.Value != "0" {
						t.fail(e, "bytes.Compare may only be compared with 0")
					}
					a, aty := t.val(c.Args[0])
					b, bty := t.val(c.Args[1])
					if aty.k != kBytes || bty.k != kBytes {
						t.fail(e, "bytes.Compare of something that is not a byte sequence")
					}
					if eq {
						return fmt.Sprintf("(%s == %s)", a, b)
					}
					return fmt.Sprintf("(%s != %s)", a, b)
				}
				// bools
				if isBool(t.typeOf(x.X)) {
					a, b := t.bexpr(x.X), t.bexpr(x.Y)
					if eq {
						return fmt.Sprintf("(%s == %s)", a, b)
					}
					return fmt.Sprintf("(%s != %s)", a, b)
				}
			}
			a, aty := t.expr(x.X)
			b, bty := t.expr(x.Y)
			if aty != bty {
				t.fail(e, "comparison of different integer types")
			}
			lt := func(p, q string) string {
				if aty.signed {
					return fmt.Sprintf("(Go.ltS %d %s %s)", aty.w, p, q)
				}
				return fmt.Sprintf("(Go.ltU %s %s)", p, q)
			}
			le := func(p, q string) string {
				if aty.signed {
					return fmt.Sprintf("(Go.leS %d %s %s)", aty.w, p, q)
				}
				return fmt.Sprintf("(Go.leU %s %s)", p, q)
			}
			switch x.Op {
			case token.EQL:
				return fmt.Sprintf("(%s == %s)", a, b)
			case token.NEQ:
				return fmt.Sprintf("(%s != %s)", a, b)
			case token.LSS:
				return lt(a, b)
			case token.LEQ:
				return le(a, b)
			case token.GTR:
				return lt(b, a)
			case token.GEQ:
				return le(b, a)
			}
		}
	}
	t.fail(e, "unsupported condition")
	return ""
}

// ---- statements ----------------------------------------------------------------------

func hasReturn(n ast.Node) bool {
	found := false
	ast.Inspect(n, func(x ast.Node) bool {
		if _, ok := x.(*ast.ReturnStmt); ok {
			found = true
		}
		return !found
	})
	return found
}

// lhsName: the lean name of an assignable place that is currently a variable, or "".
func (t *funcTr) lhsName(e ast.Expr) string {
	switch x := e.(type) {
	case *ast.Ident:
		if o := t.obj(x); o != nil && t.bound[o] {
			return leanName(x.Name)
		}
	case *ast.SelectorExpr:
		if n, ok := t.fields[src(x)]; ok {
			return n
		}
		if t.isParamField(x) {
			return leanName(x.Sel.Name)
		}
	case *ast.IndexExpr:
		return t.lhsName(x.X)
	}
	return ""
}

// isParamField: p.f where p is a declared pointer-to-struct parameter
func (t *funcTr) isParamField(x *ast.SelectorExpr) bool {
	root, ok := x.X.(*ast.Ident)
	if !ok {
		return false
	}
	o := t.obj(root)
	if _, isDecl := t.declAt[o]; !isDecl || o == nil {
		return false
	}
	_, isPtr := o.Type().Underlying().(*types.Pointer)
	fv, isField := t.info.Uses[x.Sel].(*types.Var)
	return isPtr && isField && fv.IsField()
}

// assignedOuter lists (by name, sorted) the current variables that the statements assign.
func (t *funcTr) assignedOuter(stmts []ast.Stmt) []string {
	set := map[string]bool{}
	for _, s := range stmts {
		ast.Inspect(s, func(x ast.Node) bool {
			switch a := x.(type) {
			case *ast.AssignStmt:
				if a.Tok != token.DEFINE {
					for _, l := range a.Lhs {
						if n := t.lhsName(l); n != "" {
							set[n] = true
						}
					}
				}
			case *ast.IncDecStmt:
				if n := t.lhsName(a.X); n != "" {
					set[n] = true
				}
			}
			return true
		})
	}
	var out []string
	for n := range set {
		out = append(out, n)
	}
	sort.Strings(out)
	return out
}

func callOf(a *ast.AssignStmt) (*ast.CallExpr, bool) {
	if len(a.Rhs) != 1 {
		return nil, false
	}
	c, ok := a.Rhs[0].(*ast.CallExpr)
	return c, ok
}

func tuple(names []string) string {
	if len(names) == 1 {
		return names[0]
	}
	return "(" + strings.Join(names, ", ") + ")"
}

var assignOps = map[token.Token]token.Token{
	token.ADD_ASSIGN: token.ADD, token.SUB_ASSIGN: token.SUB, token.MUL_ASSIGN: token.MUL,
	token.QUO_ASSIGN: token.QUO, token.REM_ASSIGN: token.REM, token.AND_ASSIGN: token.AND,
	token.OR_ASSIGN: token.OR, token.XOR_ASSIGN: token.XOR, token.SHL_ASSIGN: token.SHL,
	token.SHR_ASSIGN: token.SHR, token.AND_NOT_ASSIGN: token.AND_NOT,
}

func (t *funcTr) saveBound() map[types.Object]bool {
	saved := map[types.Object]bool{}
	for k, v := range t.bound {
		saved[k] = v
	}
	return saved
}

func mentions(n ast.Node, info *types.Info, o types.Object) bool {
	found := false
	ast.Inspect(n, func(x ast.Node) bool {
		if id, ok := x.(*ast.Ident); ok && (info.Uses[id] == o || info.Defs[id] == o) {
			found = true
		}
		return !found
	})
	return found
}

// loop translates `for init; cond; post { body }` of the supported shape; returns the state tuple
// and the call of the generated auxiliary definition.
func (t *funcTr) loop(x *ast.ForStmt, ret func(*ast.ReturnStmt) string) (string, string, *ast.Ident) {
	// shape
	init, ok := x.Init.(*ast.AssignStmt)
	if !ok || init.Tok != token.DEFINE || len(init.Lhs) != 1 || len(init.Rhs) != 1 {
		t.fail(x, "for loop: init must be `i := c`")
	}
	ctr, ok := init.Lhs[0].(*ast.Ident)
	if !ok {
		t.fail(x, "for loop: counter")
	}
	iv := t.info.Types[init.Rhs[0]].Value
	if iv == nil || constant.ToInt(iv).Kind() != constant.Int || constant.Sign(constant.ToInt(iv)) < 0 {
		t.fail(x, "for loop: the counter must start at a non-negative constant")
	}
	cty, ok := intTypeOf(t.typeOf(ctr))
	if !ok {
		t.fail(x, "for loop: the counter must be an integer")
	}
	post, ok := x.Post.(*ast.IncDecStmt)
	if !ok || post.Tok != token.INC || src(post.X) != ctr.Name {
		t.fail(x, "for loop: post must be `i++`")
	}
	cond, ok := x.Cond.(*ast.BinaryExpr)
	if !ok || (cond.Op != token.LSS && cond.Op != token.LEQ) || src(cond.X) != ctr.Name {
		t.fail(x, "for loop: condition must be `i < E` or `i <= E`")
	}
	bad := false
	ast.Inspect(x.Body, func(n ast.Node) bool {
		switch n.(type) {
		case *ast.BranchStmt, *ast.GoStmt, *ast.DeferStmt:
			bad = true
		}
		return true
	})
	if bad {
		t.fail(x, "for loop: break / continue in the body")
	}
	co := t.info.Defs[ctr]
	if assigns(x.Body, co, t.info) {
		t.fail(x, "for loop: the body assigns the counter")
	}
	// the body must not assign a variable of the bound E
	ast.Inspect(cond.Y, func(n ast.Node) bool {
		if id, ok := n.(*ast.Ident); ok {
			if o := t.obj(id); o != nil {
				if _, isVar := o.(*types.Var); isVar && assigns(x.Body, o, t.info) {
					t.fail(x, "for loop: the body assigns a variable of the bound")
				}
			}
		}
		return true
	})
	_ = cty
	return "", "", ctr
}

// emitLoop generates the fuel-recursive auxiliary definition of a loop with counter `cn`, condition
// `condFn`, body (preceded by the Lean text of `preFn`, if any) followed by `post`; it returns the
// Lean `let <state> := <aux> … <fuel> <state>` that runs it.
func (t *funcTr) emitLoop(cn string, condFn func() string, preFn func() string, bodyStmts []ast.Stmt, post ast.Stmt,
	fuelFn func() string, ret func(*ast.ReturnStmt) string) func(restFn func(string) string, ind string) string {
	// the state: the counter and every current variable the body assigns
	names := t.assignedOuter(bodyStmts)
	hasCtr := false
	for _, n := range names {
		hasCtr = hasCtr || n == cn
	}
	if !hasCtr {
		names = append(names, cn)
		sort.Strings(names)
	}
	tp := tuple(names)
	var stys []string
	for _, n := range names {
		l := t.tyOf[n].lean()
		if strings.Contains(l, " ") {
			l = "(" + l + ")"
		}
		stys = append(stys, l)
	}
	sty := strings.Join(stys, " × ")
	t.loopCnt++
	aux := fmt.Sprintf("%s_loop%d", t.what, t.loopCnt)
	// translate condition and body, recording what they read
	outerUsed := t.used
	t.used = map[string]bool{}
	saved := t.saveBound()
	c := condFn()
	pre := ""
	if preFn != nil {
		pre = preFn()
	}
	// a `return` in the body ends the loop with `some result`
	withRet := false
	for _, st := range bodyStmts {
		withRet = withRet || hasReturn(st)
	}
	loopRet := ret
	if withRet {
		if t.resLean == "" {
			fail(t.what + ": return inside a loop of a function whose result type is not known in advance")
		}
		loopRet = func(r *ast.ReturnStmt) string { return "(" + tp + ", some (" + ret(r) + "))" }
	}
	const callMark = "\x00CALL\x00"
	body := pre + t.block(append(append([]ast.Stmt{}, bodyStmts...), post), callMark, loopRet, "      ")
	t.bound = saved
	inState := map[string]bool{}
	for _, n := range names {
		inState[n] = true
	}
	var free []string
	for n := range t.used {
		if !inState[n] {
			if _, known := t.tyOf[n]; known && outerVisible(t, n, saved) {
				free = append(free, n)
			}
		}
	}
	sort.Strings(free)
	for n := range t.used {
		outerUsed[n] = true
	}
	t.used = outerUsed
	var sig strings.Builder
	for _, n := range free {
		fmt.Fprintf(&sig, " (%s : %s)", n, t.tyOf[n].lean())
	}
	args := ""
	if len(free) > 0 {
		args = " " + strings.Join(free, " ")
	}
	body = strings.ReplaceAll(body, callMark, fmt.Sprintf("%s%s fuel %s", aux, args, tp))
	fuel := fuelFn()
	if !withRet {
		t.aux = append(t.aux, fmt.Sprintf("def %s%s : Nat → %s → %s\n  | 0, st => st\n  | fuel + 1, %s =>\n    if %s then\n      (%s)\n    else %s\n",
			aux, sig.String(), sty, sty, tp, c, body, tp))
		return func(restFn func(string) string, ind string) string {
			return fmt.Sprintf("let %s := %s%s %s %s;\n%s%s", tp, aux, args, fuel, tp, ind, restFn(ind))
		}
	}
	rty := t.resLean
	if strings.Contains(rty, " ") {
		rty = "(" + rty + ")"
	}
	psty := sty
	if strings.Contains(psty, "×") {
		psty = "(" + psty + ")"
	}
	t.aux = append(t.aux, fmt.Sprintf("def %s%s : Nat → %s → %s × Option %s\n  | 0, st => (st, none)\n  | fuel + 1, %s =>\n    if %s then\n      (%s)\n    else (%s, none)\n",
		aux, sig.String(), sty, psty, rty, tp, c, body, tp))
	k := t.loopCnt
	return func(restFn func(string) string, ind string) string {
		rest := restFn(ind + "  ")
		return fmt.Sprintf("let loopRes%d := %s%s %s %s;\n%smatch loopRes%d.2 with\n%s| some earlyRet%d => earlyRet%d\n%s| none =>\n%s  (let %s := loopRes%d.1;\n%s  %s)",
			k, aux, args, fuel, tp, ind, k, ind, k, k, ind, ind, tp, k, ind, rest)
	}
}

// block translates a statement list.  `cont` is the Lean term that is the value of the block when
// control falls off its end ("" : falling off the end is an error); `ret` translates a return.
func (t *funcTr) block(stmts []ast.Stmt, cont string, ret func(*ast.ReturnStmt) string, ind string) string {
	if len(stmts) == 0 {
		if cont == "" {
			fail(t.what + ": control reaches the end of the function without a return")
		}
		return cont
	}
	s, rest := stmts[0], stmts[1:]
	letIn := func(name, val string) string {
		return fmt.Sprintf("let %s := %s;\n%s%s", name, val, ind, t.block(rest, cont, ret, ind))
	}
	bindLocal := func(id *ast.Ident, ty gty) string {
		n := leanName(id.Name)
		t.bound[t.obj(id)] = true
		delete(t.tyOf, n) // a new variable may reuse the name of one that went out of scope
		t.note(n, ty)
		return n
	}
	switch x := s.(type) {
	case *ast.EmptyStmt:
		return t.block(rest, cont, ret, ind)
	case *ast.ReturnStmt:
		return ret(x)
	case *ast.BlockStmt:
		return t.block(append(append([]ast.Stmt{}, x.List...), rest...), cont, ret, ind)
	case *ast.ExprStmt:
		if c, ok := x.X.(*ast.CallExpr); ok && strings.HasPrefix(src(c.Fun), "must.Be.") {
			return t.block(rest, cont, ret, ind) // a debug assertion: no effect
		}
		if c, ok := x.X.(*ast.CallExpr); ok {
			if m := binaryOrder.FindStringSubmatch(src(c.Fun)); m != nil && m[2] == "PutUint" && len(c.Args) == 2 {
				// binary.LittleEndian.PutUint16(b, v) writes the first bytes of the local slice b
				id, isId := c.Args[0].(*ast.Ident)
				if !isId || !t.bound[t.obj(id)] {
					t.fail(s, "encoding/binary write into something that is not a local slice")
				}
				sl, sty := t.ref(id)
				if sty.k != kBytes {
					t.fail(s, "encoding/binary write into something that is not a byte slice")
				}
				w := map[string]int{"16": 16, "32": 32, "64": 64}[m[3]]
				v, vty := t.expr(c.Args[1])
				if vty != (intTy{w, false}) {
					t.fail(s, "encoding/binary write of a value of the wrong type")
				}
				return letIn(sl, fmt.Sprintf("(Go.putUint%s %d %s %s)", m[1], w/8, sl, v))
			}
		}
		t.fail(s, "expression statement")
	case *ast.DeclStmt:
		gd, ok := x.Decl.(*ast.GenDecl)
		if !ok || gd.Tok != token.VAR || len(gd.Specs) != 1 {
			t.fail(s, "declaration")
		}
		vs := gd.Specs[0].(*ast.ValueSpec)
		if len(vs.Names) != 1 || len(vs.Values) > 1 {
			t.fail(s, "declaration")
		}
		ty, ok := goKind(t.typeOf(vs.Names[0]))
		if !ok {
			t.fail(s, "local variable of an unsupported type")
		}
		val := ty.zero()
		if len(vs.Values) == 1 {
			val, _ = t.val(vs.Values[0])
		}
		return letIn(bindLocal(vs.Names[0], ty), val)
	case *ast.IncDecStmt:
		if ix, isIx := x.X.(*ast.IndexExpr); isIx { // s[i]++ on a local slice of integers
			id, ok := ix.X.(*ast.Ident)
			if !ok || !t.bound[t.obj(id)] {
				t.fail(s, "++/-- of an element of something that is not a local slice")
			}
			sl, sty := t.ref(id)
			if sty.k != kSlice || sty.elem.k != kInt {
				t.fail(s, "++/-- of an element of something that is not a slice of integers")
			}
			i, _ := t.expr(ix.Index)
			op := "add"
			if x.Tok == token.DEC {
				op = "sub"
			}
			return letIn(sl, fmt.Sprintf("(%s.set (%s) (Go.%s %d (%s.getD (%s) 0) 1))", sl, i, op, sty.elem.it.w, sl, i))
		}
		id, ok := x.X.(*ast.Ident)
		if !ok || !t.bound[t.obj(id)] {
			t.fail(s, "++/-- of something that is not a local variable")
		}
		ty, ok := intTypeOf(t.typeOf(id))
		if !ok {
			t.fail(s, "++/-- of something that is not an integer")
		}
		op := "add"
		if x.Tok == token.DEC {
			op = "sub"
		}
		n := leanName(id.Name)
		t.note(n, t.tyOf[n])
		return letIn(n, fmt.Sprintf("(Go.%s %d %s 1)", op, ty.w, n))
	case *ast.AssignStmt:
		if c, isCall := callOf(x); isCall && len(x.Lhs) > 1 {
			// a, b := f(…) for a translated function f
			ce, ok := translated[src(c.Fun)]
			if !ok || len(x.Lhs) != len(ce.results) || len(c.Args) != ce.nparams ||
				(x.Tok != token.DEFINE && x.Tok != token.ASSIGN) {
				t.fail(s, "multiple assignment (only from a call of a translated function)")
			}
			var args, names []string
			for _, a := range c.Args {
				v, _ := t.val(a)
				args = append(args, v)
			}
			for i, l := range x.Lhs {
				id, ok := l.(*ast.Ident)
				if !ok {
					t.fail(s, "multiple assignment to something that is not a variable")
				}
				if t.bound[t.obj(id)] {
					n := leanName(id.Name)
					t.note(n, t.tyOf[n])
					names = append(names, n)
				} else if x.Tok == token.DEFINE {
					names = append(names, bindLocal(id, ce.results[i]))
				} else {
					t.fail(s, "assignment to a variable that is not a local of the translated fragment")
				}
			}
			return letIn(tuple(names), fmt.Sprintf("%s %s", ce.lean, strings.Join(args, " ")))
		}
		if len(x.Lhs) > 1 && len(x.Lhs) == len(x.Rhs) && (x.Tok == token.DEFINE || x.Tok == token.ASSIGN) {
			// a, b := e1, e2: all right-hand sides are evaluated first
			var vals, names []string
			var tys []gty
			for _, r := range x.Rhs {
				v, g := t.val(r)
				g.nilable = false
				vals, tys = append(vals, v), append(tys, g)
			}
			for i, l := range x.Lhs {
				id, ok := l.(*ast.Ident)
				if !ok {
					t.fail(s, "multiple assignment to something that is not a variable")
				}
				if t.bound[t.obj(id)] {
					n := leanName(id.Name)
					t.note(n, t.tyOf[n])
					names = append(names, n)
				} else if x.Tok == token.DEFINE {
					names = append(names, bindLocal(id, tys[i]))
				} else {
					t.fail(s, "assignment to a variable that is not a local of the translated fragment")
				}
			}
			return letIn(tuple(names), tuple(vals))
		}
		if len(x.Lhs) != 1 || len(x.Rhs) != 1 {
			t.fail(s, "multiple assignment")
		}
		switch l := x.Lhs[0].(type) {
		case *ast.IndexExpr: // s[i] = e on a local slice
			if x.Tok != token.ASSIGN {
				t.fail(s, "assignment operator on a slice element")
			}
			id, ok := l.X.(*ast.Ident)
			if !ok || !t.bound[t.obj(id)] {
				t.fail(s, "assignment to an element of something that is not a local slice")
			}
			sl, sty := t.ref(id)
			if sty.k != kSlice && sty.k != kBytes {
				t.fail(s, "assignment to an element of something that is not a slice")
			}
			i, _ := t.expr(l.Index)
			v, _ := t.val(x.Rhs[0])
			return letIn(sl, fmt.Sprintf("(%s.set (%s) %s)", sl, i, v))
		case *ast.SelectorExpr: // p.f = e on a pointer-to-struct parameter
			if x.Tok != token.ASSIGN || !t.isParamField(l) {
				t.fail(s, "assignment to a field of something that is not a pointer parameter")
			}
			n, _ := t.ref(l) // registers the field as a parameter (its initial value)
			v, _ := t.val(x.Rhs[0])
			t.fields[src(l)] = n
			return letIn(n, v)
		case *ast.Ident:
			id := l
			var val string
			switch {
			case x.Tok == token.DEFINE:
				var ty gty
				val, ty = t.val(x.Rhs[0])
				ty.nilable = false
				return letIn(bindLocal(id, ty), val)
			case x.Tok == token.ASSIGN:
				if !t.bound[t.obj(id)] {
					t.fail(s, "assignment to a variable that is not a local of the translated fragment")
				}
				val, _ = t.val(x.Rhs[0])
			default:
				op, ok := assignOps[x.Tok]
				if !ok || !t.bound[t.obj(id)] {
					t.fail(s, "assignment operator")
				}
				ty, ok := intTypeOf(t.typeOf(id))
				if !ok {
					t.fail(s, "assignment operator on something that is not an integer")
				}
				val = t.binary(x.Lhs[0], op, x.Lhs[0], x.Rhs[0], ty)
			}
			n := leanName(id.Name)
			t.note(n, t.tyOf[n])
			return letIn(n, val)
		}
		t.fail(s, "assignment to an unsupported place")
	case *ast.ForStmt:
		_, _, ctr := t.loop(x, ret) // checks the shape
		init := x.Init.(*ast.AssignStmt)
		cond := x.Cond.(*ast.BinaryExpr)
		// `i := c` first
		cty, _ := intTypeOf(t.typeOf(ctr))
		iv, _ := t.expr(init.Rhs[0])
		cn := bindLocal(ctr, gty{k: kInt, it: cty})
		// fuel: the bound E (+1 for <=) bounds the number of iterations
		fuelFn := func() string {
			bound, _ := t.expr(cond.Y)
			if cond.Op == token.LEQ {
				return "(" + bound + " + 1)"
			}
			return bound
		}
		wrap := t.emitLoop(cn, func() string { return t.bexpr(cond) }, nil, x.Body.List, x.Post, fuelFn, ret)
		return fmt.Sprintf("let %s := %s;\n%s%s", cn, iv, ind, wrap(func(in string) string { return t.block(rest, cont, ret, in) }, ind))
	case *ast.RangeStmt:
		// `for i := range x`, `for i, v := range x`, `for _, v := range x` over a slice: an index loop
		// whose bound, len(x), is evaluated once before the loop
		if x.Tok != token.DEFINE {
			t.fail(s, "range loop: the variables must be declared by the loop (`:=`)")
		}
		xs, xty := t.val(x.X)
		if xty.k != kSlice && xty.k != kBytes {
			t.fail(s, "range over something that is not a slice")
		}
		if _, isStr := t.typeOf(x.X).Underlying().(*types.Basic); isStr {
			t.fail(s, "range over a string (iterates over runes)")
		}
		xs = seq(xs, xty)
		bad := false
		ast.Inspect(x.Body, func(n ast.Node) bool {
			switch n.(type) {
			case *ast.BranchStmt, *ast.GoStmt, *ast.DeferStmt:
				bad = true
			}
			return true
		})
		if bad {
			t.fail(s, "range loop: break / continue in the body")
		}
		// the body may assign elements of x but not x itself
		if id, ok := x.X.(*ast.Ident); ok {
			ast.Inspect(x.Body, func(n ast.Node) bool {
				if a, ok := n.(*ast.AssignStmt); ok {
					for _, l := range a.Lhs {
						if li, ok := l.(*ast.Ident); ok && t.obj(li) == t.obj(id) {
							t.fail(s, "range loop: the body assigns the slice it ranges over")
						}
					}
				}
				return true
			})
		}
		t.loopCnt++
		k := t.loopCnt
		t.loopCnt-- // emitLoop counts itself
		isBlank := func(e ast.Expr) bool {
			id, ok := e.(*ast.Ident)
			return e == nil || (ok && id.Name == "_")
		}
		var key *ast.Ident
		if isBlank(x.Key) {
			key = ast.NewIdent(fmt.Sprintf("idx%d", k))
			v := types.NewVar(token.NoPos, nil, key.Name, types.Typ[types.Int])
			t.info.Defs[key] = v
		} else {
			key = x.Key.(*ast.Ident)
		}
		if assigns(x.Body, t.info.Defs[key], t.info) {
			t.fail(s, "range loop: the body assigns the index variable")
		}
		// the length, evaluated once
		ln := fmt.Sprintf("len%d", k)
		t.synth[ln] = true
		t.note(ln, gty{k: kInt, it: intTy{64, true}})
		cn := bindLocal(key, gty{k: kInt, it: intTy{64, true}})
		var pre func() string
		if !isBlank(x.Value) {
			vid := x.Value.(*ast.Ident)
			if assigns(x.Body, t.info.Defs[vid], t.info) {
				t.fail(s, "range loop: the body assigns the value variable")
			}
			ety := gty{k: kInt, it: intTy{8, false}}
			if xty.k == kSlice {
				ety = *xty.elem
			}
			pre = func() string {
				// x as it is at this iteration (the body may have assigned elements)
				cur, cty := t.val(x.X)
				vn := bindLocal(vid, ety)
				t.note(cn, t.tyOf[cn])
				return fmt.Sprintf("let %s := (%s.getD (%s) %s);\n      ", vn, seq(cur, cty), cn, ety.zero())
			}
		}
		post := &ast.IncDecStmt{X: key, Tok: token.INC}
		t.info.Uses[key] = t.info.Defs[key]
		wrap := t.emitLoop(cn, func() string {
			t.note(cn, t.tyOf[cn])
			t.note(ln, t.tyOf[ln])
			return fmt.Sprintf("(Go.ltS 64 %s %s)", cn, ln)
		}, pre, x.Body.List, post, func() string { return ln }, ret)
		return fmt.Sprintf("let %s := (%s.length);\n%slet %s := 0;\n%s%s", ln, xs, ind, cn, ind,
			wrap(func(in string) string { return t.block(rest, cont, ret, in) }, ind))
	case *ast.IfStmt:
		if x.Init != nil {
			t.fail(s, "if with an init statement")
		}
		c := t.bexpr(x.Cond)
		var els []ast.Stmt
		if x.Else != nil {
			els = []ast.Stmt{x.Else}
		}
		in2 := ind + "  "
		// locals of a branch go out of scope at its end
		saved := t.saveBound()
		restore := func() {
			t.bound = map[types.Object]bool{}
			for k, v := range saved {
				t.bound[k] = v
			}
		}
		if hasReturn(x) {
			// early return: the then-branch must not fall through
			thn := t.block(x.Body.List, "", ret, in2)
			restore()
			el := t.block(append(els, rest...), cont, ret, in2)
			return fmt.Sprintf("if %s then\n%s(%s)\n%selse\n%s(%s)", c, in2, thn, ind, in2, el)
		}
		names := t.assignedOuter(append(append([]ast.Stmt{}, x.Body.List...), els...))
		if len(names) == 0 {
			t.fail(s, "if statement without effect")
		}
		// fields assigned for the first time inside a branch must exist (as parameters) before it
		ast.Inspect(x, func(n ast.Node) bool {
			if a, ok := n.(*ast.AssignStmt); ok && a.Tok == token.ASSIGN {
				for _, l := range a.Lhs {
					if sel, ok := l.(*ast.SelectorExpr); ok && t.isParamField(sel) {
						nm, _ := t.ref(sel)
						t.fields[src(sel)] = nm
					}
				}
			}
			return true
		})
		tp := tuple(names)
		thn := t.block(x.Body.List, tp, ret, in2)
		restore()
		el := t.block(els, tp, ret, in2)
		restore()
		return fmt.Sprintf("let %s := (if %s then\n%s(%s)\n%selse\n%s(%s));\n%s%s", tp, c, in2, thn, ind, in2, el, ind,
			t.block(rest, cont, ret, ind))
	}
	t.fail(s, "unsupported statement")
	return ""
}

// outerVisible: is the lean name a parameter or a variable bound outside the loop?
func outerVisible(t *funcTr, name string, outer map[types.Object]bool) bool {
	if t.synth[name] {
		return true
	}
	for _, p := range t.params {
		if p.name == name {
			return true
		}
	}
	for o := range outer {
		if leanName(o.Name()) == name {
			return true
		}
	}
	for _, n := range t.fields {
		if n == name {
			return true
		}
	}
	return false
}

// ---- definitions -------------------------------------------------------------------------

func (t *funcTr) signature() string {
	ps := append([]leanParam{}, t.params...)
	sort.SliceStable(ps, func(i, j int) bool {
		a, b := ps[i], ps[j]
		if (a.decl >= 0) != (b.decl >= 0) {
			return a.decl >= 0
		}
		if a.decl >= 0 {
			return a.decl < b.decl
		}
		return a.name < b.name
	})
	var sb strings.Builder
	for _, p := range ps {
		fmt.Fprintf(&sb, " (%s : %s)", p.name, p.ty.lean())
	}
	return sb.String()
}

func newTr(what string, info *types.Info, files []*ast.File, fd *ast.FuncDecl) *funcTr {
	t := &funcTr{what: what, info: info, files: files, fd: fd, bound: map[types.Object]bool{}, declAt: map[types.Object]int{},
		fields: map[string]string{}, nilCmp: map[string]bool{}, used: map[string]bool{}, tyOf: map[string]gty{},
		forced: map[types.Object]types.Type{}, mutated: map[types.Object]bool{}, synth: map[string]bool{}}
	n := 0
	for _, f := range fd.Type.Params.List {
		for _, nm := range f.Names {
			if o := info.Defs[nm]; o != nil {
				t.declAt[o] = n
			}
			n++
		}
	}
	ast.Inspect(fd.Body, func(x ast.Node) bool {
		if a, ok := x.(*ast.AssignStmt); ok {
			for _, l := range a.Lhs {
				if sel, ok := l.(*ast.SelectorExpr); ok {
					if root, ok := sel.X.(*ast.Ident); ok && t.obj(root) != nil {
						t.mutated[t.obj(root)] = true
					}
				}
			}
		}
		return true
	})
	// slices compared with nil are Option-valued parameters
	ast.Inspect(fd.Body, func(x ast.Node) bool {
		if be, ok := x.(*ast.BinaryExpr); ok && (be.Op == token.EQL || be.Op == token.NEQ) {
			for _, pair := range [][2]ast.Expr{{be.X, be.Y}, {be.Y, be.X}} {
				if isNil(pair[1]) {
					if k, ok := t.varKey(pair[0]); ok {
						t.nilCmp[k] = true
					}
				}
			}
		}
		return true
	})
	return t
}

// result renders one result value: a signed integer as Int.
func result(s string, ty gty) (string, string) {
	if ty.k == kInt && ty.it.signed {
		return "Int", fmt.Sprintf("(Go.toS %d %s)", ty.it.w, s)
	}
	return ty.lean(), s
}

// translateFunc translates a whole function.
func translateFunc(info *types.Info, files []*ast.File, fd *ast.FuncDecl, leanDef string) string {
	return translateFuncP(info, files, fd, leanDef, false)
}

// translateFuncP: with `pat`, the function is translated as `<leanDef>_pat` with all results as
// bit patterns (callable from other translated functions) and `<leanDef>` converts the signed ones.
func translateFuncP(info *types.Info, files []*ast.File, fd *ast.FuncDecl, leanDef string, pat bool) string {
	t := newTr(leanDef, info, files, fd)
	var patTys []string
	var resTys []gty
	if fd.Type.Results == nil {
		fail(leanDef + ": a result is expected")
	}
	// the result type, from the signature (needed in advance by loops that return)
	{
		var tys []string
		known := true
		for _, f := range fd.Type.Results.List {
			n := len(f.Names)
			if n == 0 {
				n = 1
			}
			g, ok := goKind(info.Types[f.Type].Type)
			if !ok {
				known = false
				break
			}
			ty, _ := result("", g)
			if pat {
				ty = g.lean()
			}
			for i := 0; i < n; i++ {
				tys = append(tys, ty)
			}
		}
		if known {
			for i, ty := range tys {
				if strings.Contains(ty, " ") && len(tys) > 1 {
					tys[i] = "(" + ty + ")"
				}
			}
			t.resLean = strings.Join(tys, " × ")
		}
	}
	retTy := ""
	ret := func(r *ast.ReturnStmt) string {
		var vals, tys []string
		for _, e := range r.Results {
			// returning the pointer-to-struct parameter: the tuple of its fields
			if id, ok := e.(*ast.Ident); ok {
				if o := t.obj(id); o != nil {
					if _, isDecl := t.declAt[o]; isDecl {
						if p, isPtr := o.Type().Underlying().(*types.Pointer); isPtr {
							if st, isStruct := p.Elem().Underlying().(*types.Struct); isStruct {
								for i := 0; i < st.NumFields(); i++ {
									sel := &ast.SelectorExpr{X: id, Sel: ast.NewIdent(st.Field(i).Name())}
									t.info.Uses[sel.Sel] = st.Field(i)
									fty, ok := goKind(st.Field(i).Type())
									if !ok {
										t.fail(r, "field of an unsupported type")
									}
									t.info.Types[sel] = types.TypeAndValue{Type: st.Field(i).Type()}
									s, _ := t.ref(sel)
									ty, v := result(s, fty)
									vals, tys = append(vals, v), append(tys, ty)
								}
								continue
							}
						}
					}
				}
			}
			if cl, ok := e.(*ast.CompositeLit); ok && isByteSeq(info.Types[cl].Type) && len(cl.Elts) > 0 {
				var elts []string
				for _, el := range cl.Elts {
					if _, kv := el.(*ast.KeyValueExpr); kv {
						t.fail(r, "keyed literal")
					}
					s, ety := t.expr(el)
					if ety != (intTy{8, false}) {
						t.fail(r, "element of a []byte literal")
					}
					elts = append(elts, s)
				}
				vals, tys = append(vals, "["+strings.Join(elts, ", ")+"]"), append(tys, "List Nat")
				continue
			}
			s, g := t.val(e)
			if g.nilable {
				t.fail(r, "returning a nil-able slice")
			}
			ty, v := result(s, g)
			if pat {
				ty, v = g.lean(), s
			}
			vals, tys = append(vals, v), append(tys, ty)
			resTys = append(resTys, g)
		}
		if len(vals) == 0 {
			t.fail(r, "return without a value")
		}
		if pat {
			patTys = append([]string{}, tys...)
			resTys = resTys[len(resTys)-len(vals):]
		}
		for i, ty := range tys {
			if strings.Contains(ty, " ") && len(tys) > 1 {
				tys[i] = "(" + ty + ")"
			}
		}
		retTy = strings.Join(tys, " × ")
		return tuple(vals)
	}
	// parameters that the body assigns are re-bound by `let`; declare them first
	for _, f := range fd.Type.Params.List {
		for _, nm := range f.Names {
			if _, ok := goKind(info.Defs[nm].Type()); ok && assigns(fd.Body, info.Defs[nm], info) {
				t.ref(nm)                     // becomes a parameter …
				t.bound[info.Defs[nm]] = true // … and a local from now on
			}
		}
	}
	body := t.block(fd.Body.List, "", ret, "  ")
	if !pat {
		return strings.Join(t.aux, "\n") + fmt.Sprintf("%sdef %s%s : %s :=\n  %s\n", sepIf(len(t.aux) > 0), leanDef, t.signature(), retTy, body)
	}
	// callable only if the Lean parameters are exactly the Go parameters
	np := 0
	for _, f := range fd.Type.Params.List {
		np += len(f.Names)
	}
	ok := len(t.params) == np
	var argNames []string
	ps := append([]leanParam{}, t.params...)
	sort.SliceStable(ps, func(i, j int) bool { return ps[i].decl < ps[j].decl })
	for i, p := range ps {
		ok = ok && p.decl == i*1000
		argNames = append(argNames, p.name)
	}
	if !ok {
		fail(leanDef + ": a function that is called must use exactly its parameters")
	}
	translated[fd.Name.Name] = callee{lean: leanDef + "_pat", nparams: np, results: resTys}
	// the wrapper: signed results as Int
	var conv, ctys []string
	for i, g := range resTys {
		proj := "r"
		if len(resTys) > 1 {
			for j := 0; j < i; j++ {
				proj += ".2"
			}
			if i < len(resTys)-1 {
				proj += ".1"
			}
		}
		ty, v := result(proj, g)
		if strings.Contains(ty, " ") && len(resTys) > 1 {
			ty = "(" + ty + ")"
		}
		conv, ctys = append(conv, v), append(ctys, ty)
	}
	_ = patTys
	return strings.Join(t.aux, "\n") + fmt.Sprintf("%sdef %s_pat%s : %s :=\n  %s\n\ndef %s%s : %s :=\n  let r := %s_pat %s;\n  %s\n",
		sepIf(len(t.aux) > 0), leanDef, t.signature(), retTy, body,
		leanDef, t.signature(), strings.Join(ctys, " × "), leanDef, strings.Join(argNames, " "), tuple(conv))
}

func sepIf(b bool) string {
	if b {
		return "\n"
	}
	return ""
}

func assigns(body ast.Node, o types.Object, info *types.Info) bool {
	found := false
	ast.Inspect(body, func(x ast.Node) bool {
		check := func(e ast.Expr) {
			if ix, ok := e.(*ast.IndexExpr); ok {
				e = ix.X
			}
			if id, ok := e.(*ast.Ident); ok && (info.Uses[id] == o || info.Defs[id] == o) {
				found = true
			}
		}
		switch a := x.(type) {
		case *ast.AssignStmt:
			for _, l := range a.Lhs {
				check(l)
			}
		case *ast.IncDecStmt:
			check(a.X)
		}
		return true
	})
	return found
}

// translateExpr translates one expression of a function; everything it reads becomes a parameter.
func translateExpr(info *types.Info, files []*ast.File, fd *ast.FuncDecl, e ast.Expr, leanDef string) string {
	t := newTr(leanDef, info, files, fd)
	s, g := t.val(e)
	rt, v := result(s, g)
	return fmt.Sprintf("def %s%s : %s :=\n  %s\n", leanDef, t.signature(), rt, v)
}

// assignedTo returns the right-hand sides of the statements `lhs := e` / `lhs = e` of a function, in
// source order (`lhs` is compared as source text, e.g. "v", "qr.from").
func assignedTo(fd *ast.FuncDecl, lhs string) []ast.Expr {
	var out []ast.Expr
	ast.Inspect(fd.Body, func(x ast.Node) bool {
		if a, ok := x.(*ast.AssignStmt); ok && len(a.Lhs) == 1 && len(a.Rhs) == 1 &&
			(a.Tok == token.DEFINE || a.Tok == token.ASSIGN) && src(a.Lhs[0]) == lhs {
			out = append(out, a.Rhs[0])
		}
		return true
	})
	return out
}

// translateAssigned translates the right-hand side of the unique statement `name := e` / `name = e`.
func translateAssigned(info *types.Info, files []*ast.File, fd *ast.FuncDecl, name, leanDef string) string {
	rhs := assignedTo(fd, name)
	if len(rhs) != 1 {
		fail(fmt.Sprintf("%s: exactly one assignment to %s expected, found %d", leanDef, name, len(rhs)))
	}
	t := newTr(leanDef, info, files, fd)
	// an arithmetic right-hand side whose type go/types could not determine (an operand is the result
	// of a call into an imported package) has the type of the integer variable it is assigned to
	if _, known := t.inferInt(rhs[0]); !known {
		ast.Inspect(fd.Body, func(x ast.Node) bool {
			if a, ok := x.(*ast.AssignStmt); ok && len(a.Lhs) == 1 && len(a.Rhs) == 1 && a.Rhs[0] == rhs[0] {
				if it, ok := intTypeOf(t.typeOf(a.Lhs[0])); ok {
					t.force(rhs[0], it)
				}
			}
			return true
		})
	}
	s, g := t.val(rhs[0])
	rt, v := result(s, g)
	return fmt.Sprintf("def %s%s : %s :=\n  %s\n", leanDef, t.signature(), rt, v)
}

// translateNthAssigned: the n-th (0-based, source order) of exactly `of` assignments to `name`.
func translateNthAssigned(info *types.Info, files []*ast.File, fd *ast.FuncDecl, name string, n, of int, leanDef string) string {
	rhs := assignedTo(fd, name)
	if len(rhs) != of {
		fail(fmt.Sprintf("%s: %d assignments to %s expected, found %d", leanDef, of, name, len(rhs)))
	}
	return translateExpr(info, files, fd, rhs[n], leanDef)
}

// translateFieldInit translates the value of the keyed element `field: e` of the unique composite
// literal of a function that has such an element.
func translateFieldInit(info *types.Info, files []*ast.File, fd *ast.FuncDecl, field, leanDef string) string {
	var vals []ast.Expr
	ast.Inspect(fd.Body, func(x ast.Node) bool {
		if kv, ok := x.(*ast.KeyValueExpr); ok && src(kv.Key) == field {
			vals = append(vals, kv.Value)
		}
		return true
	})
	if len(vals) != 1 {
		fail(fmt.Sprintf("%s: exactly one `%s: …` expected, found %d", leanDef, field, len(vals)))
	}
	return translateExpr(info, files, fd, vals[0], leanDef)
}

// translateOpAssigned translates the right-hand side of the unique statement `name op= e`.
func translateOpAssigned(info *types.Info, files []*ast.File, fd *ast.FuncDecl, name string, tok token.Token, leanDef string) string {
	var rhs []ast.Expr
	ast.Inspect(fd.Body, func(x ast.Node) bool {
		if a, ok := x.(*ast.AssignStmt); ok && len(a.Lhs) == 1 && len(a.Rhs) == 1 && a.Tok == tok && src(a.Lhs[0]) == name {
			rhs = append(rhs, a.Rhs[0])
		}
		return true
	})
	if len(rhs) != 1 {
		fail(fmt.Sprintf("%s: exactly one `%s %s …` expected, found %d", leanDef, name, tok, len(rhs)))
	}
	return translateExpr(info, files, fd, rhs[0], leanDef)
}

// translateResult translates result `res` of return statement `n` (source order) of exactly `of`.
func translateResult(info *types.Info, files []*ast.File, fd *ast.FuncDecl, n, of, res int, leanDef string) string {
	var rets []*ast.ReturnStmt
	ast.Inspect(fd.Body, func(x ast.Node) bool {
		if r, ok := x.(*ast.ReturnStmt); ok {
			rets = append(rets, r)
		}
		return true
	})
	if len(rets) != of || len(rets[n].Results) <= res {
		fail(fmt.Sprintf("%s: %d return statements expected, found %d", leanDef, of, len(rets)))
	}
	return translateExpr(info, files, fd, rets[n].Results[res], leanDef)
}

// translateCallArg translates argument `arg` of call `n` (source order) of exactly `of` calls of `fun`.
func translateCallArg(info *types.Info, files []*ast.File, fd *ast.FuncDecl, fun string, n, of, arg int, leanDef string) string {
	cs := calls(fd.Body, fun)
	if len(cs) != of || len(cs[n]) <= arg {
		fail(fmt.Sprintf("%s: %d calls of %s expected, found %d", leanDef, of, fun, len(cs)))
	}
	return translateExpr(info, files, fd, cs[n][arg], leanDef)
}

// translateBeforeCall translates the statements of a function before the (unique, top-level)
// statement that calls `fun`, and yields the call's arguments `args` as they are at the call.
func translateBeforeCall(info *types.Info, files []*ast.File, fd *ast.FuncDecl, fun string, args []int, leanDef string) string {
	at := -1
	var call *ast.CallExpr
	for i, st := range fd.Body.List {
		ast.Inspect(st, func(x ast.Node) bool {
			if c, ok := x.(*ast.CallExpr); ok && src(c.Fun) == fun {
				if call != nil {
					fail(leanDef + ": exactly one call of " + fun + " expected")
				}
				at, call = i, c
			}
			return true
		})
	}
	if call == nil {
		fail(leanDef + ": no call of " + fun)
	}
	ret := &ast.ReturnStmt{}
	results := &ast.FieldList{}
	for _, a := range args {
		if a >= len(call.Args) {
			fail(leanDef + ": arguments of " + fun)
		}
		ret.Results = append(ret.Results, call.Args[a])
		tyExpr := ast.NewIdent("_")
		info.Types[tyExpr] = types.TypeAndValue{Type: info.Types[call.Args[a]].Type}
		results.List = append(results.List, &ast.Field{Type: tyExpr})
	}
	body := append(append([]ast.Stmt{}, fd.Body.List[:at]...), ret)
	synth := &ast.FuncDecl{Name: fd.Name, Recv: fd.Recv, Doc: fd.Doc,
		Type: &ast.FuncType{Params: fd.Type.Params, Results: results},
		Body: &ast.BlockStmt{List: body}}
	return translateFunc(info, files, synth, leanDef)
}

// translateCallArgInline: like translateCallArg for the unique call of `fun`, with the locals that
// the argument reads replaced by their (unique) definitions.
func translateCallArgInline(info *types.Info, files []*ast.File, fd *ast.FuncDecl, fun string, arg int, leanDef string) string {
	cs := calls(fd.Body, fun)
	if len(cs) != 1 || len(cs[0]) <= arg {
		fail(fmt.Sprintf("%s: one call of %s expected, found %d", leanDef, fun, len(cs)))
	}
	t := newTr(leanDef, info, files, fd)
	t.inline = true
	s, g := t.val(cs[0][arg])
	rt, v := result(s, g)
	return fmt.Sprintf("def %s%s : %s :=\n  %s\n", leanDef, t.signature(), rt, v)
}

// viaCallee: when the unique assignment to `name` in fd is `name = f(…)` / `name = x.f(…)` with f a
// function or method declared (once) in these files whose body has exactly one return statement with
// one result, the declaration of f and that result; otherwise fd and nil.  (A step that was moved
// into a helper function is the same step.)
func viaCallee(files []*ast.File, fd *ast.FuncDecl, name string) (*ast.FuncDecl, ast.Expr) {
	rhs := assignedTo(fd, name)
	if len(rhs) != 1 {
		return fd, nil
	}
	c, ok := rhs[0].(*ast.CallExpr)
	if !ok {
		return fd, nil
	}
	fname := ""
	switch f := c.Fun.(type) {
	case *ast.Ident:
		fname = f.Name
	case *ast.SelectorExpr:
		fname = f.Sel.Name
	}
	var found []*ast.FuncDecl
	for _, f := range files {
		for _, d := range f.Decls {
			if d, ok := d.(*ast.FuncDecl); ok && d.Name.Name == fname && d.Body != nil {
				found = append(found, d)
			}
		}
	}
	if fname == "" || len(found) != 1 {
		return fd, nil
	}
	var rets []*ast.ReturnStmt
	ast.Inspect(found[0].Body, func(x ast.Node) bool {
		if r, ok := x.(*ast.ReturnStmt); ok {
			rets = append(rets, r)
		}
		return true
	})
	if len(rets) != 1 || len(rets[0].Results) != 1 {
		return fd, nil
	}
	return found[0], rets[0].Results[0]
}

// translateAssignedVia: translateAssigned, or the result of the helper function the assignment calls.
func translateAssignedVia(info *types.Info, files []*ast.File, fd *ast.FuncDecl, name, leanDef string) string {
	callee, r := viaCallee(files, fd, name)
	if r == nil {
		return translateAssigned(info, files, fd, name, leanDef)
	}
	t := newTr(leanDef, info, files, callee)
	t.inline = true
	if _, known := t.inferInt(r); !known && callee.Type.Results != nil && len(callee.Type.Results.List) == 1 {
		if it, ok := intTypeOf(info.Types[callee.Type.Results.List[0].Type].Type); ok {
			t.force(r, it)
		}
	}
	s, g := t.val(r)
	rt, v := result(s, g)
	return fmt.Sprintf("def %s%s : %s :=\n  %s\n", leanDef, t.signature(), rt, v)
}

// translateCallArgVia: argument `arg` of the unique call of `fun` in fd, or in the helper function
// that the assignment to `name` calls.
func translateCallArgVia(info *types.Info, files []*ast.File, fd *ast.FuncDecl, name, fun string, arg int, leanDef string) string {
	callee, _ := viaCallee(files, fd, name)
	if len(calls(fd.Body, fun)) > 0 {
		callee = fd
	}
	return translateCallArg(info, files, callee, fun, 0, 1, arg, leanDef)
}

// translateResultOrAssigned: result `res` of the unique return statement; if that is just the local
// `name`, the right-hand side of its unique assignment (so that `c := e; return c, r` and
// `return e, …` give the same definition).
func translateResultOrAssigned(info *types.Info, files []*ast.File, fd *ast.FuncDecl, res int, name, leanDef string) string {
	var rets []*ast.ReturnStmt
	ast.Inspect(fd.Body, func(x ast.Node) bool {
		if r, ok := x.(*ast.ReturnStmt); ok {
			rets = append(rets, r)
		}
		return true
	})
	if len(rets) != 1 || len(rets[0].Results) <= res {
		fail(leanDef + ": exactly one return statement expected")
	}
	e := rets[0].Results[res]
	if id, ok := e.(*ast.Ident); ok {
		if rhs := assignedTo(fd, id.Name); len(rhs) == 1 {
			e = rhs[0]
		}
	}
	_ = name
	return translateExpr(info, files, fd, e, leanDef)
}

// translateSliceLow translates the low bound of the unique slice expression `base[lo:hi]` of a
// function, with the locals it reads replaced by their (unique) definitions.
func translateSliceLow(info *types.Info, files []*ast.File, fd *ast.FuncDecl, base, leanDef string) string {
	var los []ast.Expr
	ast.Inspect(fd.Body, func(x ast.Node) bool {
		if sl, ok := x.(*ast.SliceExpr); ok && src(sl.X) == base && sl.Low != nil {
			los = append(los, sl.Low)
		}
		return true
	})
	if len(los) != 1 {
		fail(fmt.Sprintf("%s: exactly one slice %s[lo:…] expected, found %d", leanDef, base, len(los)))
	}
	t := newTr(leanDef, info, files, fd)
	t.inline = true
	s, g := t.val(los[0])
	rt, v := result(s, g)
	return fmt.Sprintf("def %s%s : %s :=\n  %s\n", leanDef, t.signature(), rt, v)
}

// translateFirstResult translates the first result expression of the unique return statement.
func translateFirstResult(info *types.Info, files []*ast.File, fd *ast.FuncDecl, leanDef string) string {
	var rets []*ast.ReturnStmt
	ast.Inspect(fd.Body, func(x ast.Node) bool {
		if r, ok := x.(*ast.ReturnStmt); ok {
			rets = append(rets, r)
		}
		return true
	})
	if len(rets) != 1 || len(rets[0].Results) == 0 {
		fail(leanDef + ": exactly one return statement expected")
	}
	return translateExpr(info, files, fd, rets[0].Results[0], leanDef)
}

// emitDef runs one translation under its own recover: a function outside the subset is replaced by
// a comment (and reported on stderr), the others are still generated — only the bridge modules
// that mention the missing definition stop compiling.
func emitDef(b *strings.Builder, name string, f func() string) {
	defer func() {
		if r := recover(); r != nil {
			ge, ok := r.(groupError)
			if !ok {
				panic(r)
			}
			msg := strings.ReplaceAll(ge.msg, "\n", " ")
			fmt.Fprintf(b, "-- cannot translate %s: %s\n\n", name, msg)
			fmt.Fprintf(os.Stderr, "extract: funcs: cannot translate %s: %s\n", name, msg)
		}
	}()
	b.WriteString(f() + "\n")
}

// writeFuncs is called from main: it writes lean/Generated/Funcs.lean.
func writeFuncs(repo string, trieFiles []*ast.File, info *types.Info, out string) {
	var b strings.Builder
	b.WriteString("import Generated.GoSem\n/- GENERATED by harness/cmd/extract (translate.go) from /repo's working tree.  Do not edit.\n")
	b.WriteString("   Meaning of the `Go.*` operations: lean/Generated/GoSem.lean.\n")
	b.WriteString("   A function that could not be translated is replaced by a `-- cannot translate` comment. -/\nset_option linter.unusedVariables false\nnamespace Generated\n\n")
	fn := func(recv, name string) *ast.FuncDecl { return funcDecl(trieFiles, recv, name) }
	whole := func(leanDef, recv, name string) {
		emitDef(&b, leanDef, func() string { return translateFunc(info, trieFiles, fn(recv, name), leanDef) })
	}
	whole("encStep", "", "encStep")
	whole("decStep", "", "decStep")
	whole("getLabelIdxOfKey", "SlimTrie", "getLabelIdxOfKey")
	for _, n := range []string{"8", "16", "32", "64"} {
		n := n
		emitDef(&b, "getI"+n, func() string {
			return translateAssigned(info, trieFiles, fn("SlimTrie", "GetI"+n), "v", "getI"+n)
		})
		if n != "8" {
			emitDef(&b, "getI"+n+"Index", func() string {
				return translateAssigned(info, trieFiles, fn("SlimTrie", "GetI"+n), "stIdx", "getI"+n+"Index")
			})
		}
	}
	// decision logic and loops
	whole("normalizeOpt", "", "normalizeOpt")
	whole("newToKeep", "", "newToKeep")
	whole("stepToPos", "", "stepToPos")
	// the choice of the short bitmap size
	emitDef(&b, "memIncrOfShortSize", func() string {
		return translateFuncP(info, trieFiles, fn("", "memIncrOfShortSize"), "memIncrOfShortSize", true)
	})
	whole("findMinShortSize", "", "findMinShortSize")
	// getLeftChildID: the word-level pieces around the external bitmap.Rank128
	glc := func() *ast.FuncDecl { return fn("SlimTrie", "getLeftChildID") }
	emitDef(&b, "leftChildShortRank", func() string {
		return translateOpAssigned(info, trieFiles, glc(), "r0", token.ADD_ASSIGN, "leftChildShortRank")
	})
	emitDef(&b, "leftChildShortBit", func() string {
		return translateResult(info, trieFiles, glc(), 0, 2, 1, "leftChildShortBit")
	})
	emitDef(&b, "leftChildBitPos", func() string {
		return translateCallArg(info, trieFiles, glc(), "bitmap.Rank128", 1, 2, 2, "leftChildBitPos")
	})
	// leftMost / rightMost: the child followed by each iteration (the loops themselves are
	// `for { … break }` around getNode and the external bitmap.Rank128)
	emitDef(&b, "leftMostNext", func() string {
		return translateAssignedVia(info, trieFiles, fn("SlimTrie", "leftMost"), "idx", "leftMostNext")
	})
	emitDef(&b, "rightMostNext", func() string {
		return translateAssignedVia(info, trieFiles, fn("SlimTrie", "rightMost"), "idx", "rightMostNext")
	})
	emitDef(&b, "rightMostBitPos", func() string {
		return translateCallArgVia(info, trieFiles, fn("SlimTrie", "rightMost"), "idx", "bitmap.Rank128", 2, "rightMostBitPos")
	})
	vg := func() *ast.FuncDecl { return fn("VLenArray", "get") }
	emitDef(&b, "vlenWordI", func() string { return translateAssigned(info, trieFiles, vg(), "wordI", "vlenWordI") })
	emitDef(&b, "vlenBitI", func() string { return translateAssigned(info, trieFiles, vg(), "bitI", "vlenBitI") })
	emitDef(&b, "vlenIthElt", func() string { return translateAssigned(info, trieFiles, vg(), "ithElt", "vlenIthElt") })
	emitDef(&b, "vlenFixedFrom", func() string { return translateAssigned(info, trieFiles, vg(), "from", "vlenFixedFrom") })
	// comparison of a key with a stored inner prefix (trie/strcmp.go)
	emitDef(&b, "cmpStrBytes", func() string {
		return translateFuncP(info, trieFiles, fn("", "cmpStrBytes"), "cmpStrBytes", true)
	})
	whole("strCmpUpto", "", "strCmpUpto")
	// offset arithmetic of the inner-node bitmaps
	emitDef(&b, "bigInnerOffset", func() string {
		return translateFieldInit(info, trieFiles, fn("SlimTrie", "initVars"), "BigInnerOffset", "bigInnerOffset")
	})
	emitDef(&b, "shortMinusInner", func() string {
		return translateFieldInit(info, trieFiles, fn("SlimTrie", "initVars"), "ShortMinusInner", "shortMinusInner")
	})
	for _, d := range []struct {
		lean, fn string
		n        int
	}{{"innerFromBig", "getIthInnerFrom", 0}, {"innerFromSmall", "getIthInnerFrom", 1},
		{"getNodeFromBig", "getNode", 0}, {"getNodeFromSmall", "getNode", 1}} {
		d := d
		emitDef(&b, d.lean, func() string {
			return translateNthAssigned(info, trieFiles, fn("SlimTrie", d.fn), "qr.from", d.n, 2, d.lean)
		})
	}
	emitDef(&b, "getLeafIndex", func() string {
		return translateFirstResult(info, trieFiles, fn("SlimTrie", "getLeafIndex"), "getLeafIndex")
	})
	// package encode: the size literals of the fixed-width integer encoders
	var encFiles []*ast.File
	encInfo := &types.Info{Types: map[ast.Expr]types.TypeAndValue{}, Defs: map[*ast.Ident]types.Object{}, Uses: map[*ast.Ident]types.Object{}}
	emitDef(&b, "package encode", func() string {
		encFiles = parseDir(filepath.Join(repo, "encode"))
		encConf := types.Config{Importer: fakeImporter{}, Error: func(error) {}}
		encConf.Check("encode", fset, encFiles, encInfo)
		return ""
	})
	for _, ty := range []string{"I8", "I16", "I32", "I64", "U16", "U32", "U64"} {
		ty := ty
		emitDef(&b, "encSize"+ty, func() string {
			return translateFunc(encInfo, encFiles, funcDecl(encFiles, ty, "GetSize"), "encSize"+ty)
		})
		emitDef(&b, "encEncodedSize"+ty, func() string {
			return translateFunc(encInfo, encFiles, funcDecl(encFiles, ty, "GetEncodedSize"), "encEncodedSize"+ty)
		})
	}
	for _, ty := range []string{"I8", "I16", "I32", "I64", "U16", "U32", "U64"} {
		ty := ty
		emitDef(&b, "encode"+ty, func() string {
			return translateFunc(encInfo, encFiles, funcDecl(encFiles, ty, "Encode"), "encode"+ty)
		})
		emitDef(&b, "decode"+ty, func() string {
			return translateFunc(encInfo, encFiles, funcDecl(encFiles, ty, "Decode"), "decode"+ty)
		})
	}
	// package array: the arithmetic of the lookups around bitmap.Rank64 / the inlined rank
	var arrFiles []*ast.File
	arrInfo := &types.Info{Types: map[ast.Expr]types.TypeAndValue{}, Defs: map[*ast.Ident]types.Object{}, Uses: map[*ast.Ident]types.Object{}}
	emitDef(&b, "package array", func() string {
		arrFiles = parseDir(filepath.Join(repo, "array"))
		arrConf := types.Config{Importer: fakeImporter{}, Error: func(error) {}}
		arrConf.Check("array", fset, arrFiles, arrInfo)
		return ""
	})
	afn := func(recv, name string) *ast.FuncDecl { return funcDecl(arrFiles, recv, name) }
	emitDef(&b, "arrayBmWord", func() string {
		return translateResultOrAssigned(arrInfo, arrFiles, afn("", "bmBit"), 0, "c", "arrayBmWord")
	})
	emitDef(&b, "arrayBmBit", func() string {
		return translateResultOrAssigned(arrInfo, arrFiles, afn("", "bmBit"), 1, "r", "arrayBmBit")
	})
	emitDef(&b, "arrayGetBytesStIdx", func() string {
		return translateSliceLow(arrInfo, arrFiles, afn("Base", "GetBytes"), "a.Elts", "arrayGetBytesStIdx")
	})
	emitDef(&b, "arrayU16Cnt1", func() string {
		return translateAssigned(arrInfo, arrFiles, afn("U16", "Get"), "cnt1", "arrayU16Cnt1")
	})
	emitDef(&b, "arrayU16StIdx", func() string {
		return translateAssigned(arrInfo, arrFiles, afn("U16", "Get"), "stIdx", "arrayU16StIdx")
	})
	// package index: the keys and the offsets that NewSlimIndex passes to trie.NewSlimTrie
	var idxFiles []*ast.File
	idxInfo := &types.Info{Types: map[ast.Expr]types.TypeAndValue{}, Defs: map[*ast.Ident]types.Object{}, Uses: map[*ast.Ident]types.Object{}}
	emitDef(&b, "package index", func() string {
		idxFiles = parseDir(filepath.Join(repo, "index"))
		idxConf := types.Config{Importer: fakeImporter{}, Error: func(error) {}}
		idxConf.Check("index", fset, idxFiles, idxInfo)
		return ""
	})
	emitDef(&b, "newSlimIndexArgs", func() string {
		return translateBeforeCall(idxInfo, idxFiles, funcDecl(idxFiles, "", "NewSlimIndex"), "trie.NewSlimTrie", []int{1, 2}, "newSlimIndexArgs")
	})
	for _, m := range []string{"Get", "RangeGet"} {
		m := m
		emitDef(&b, "slimIndex"+m+"Offset", func() string {
			return translateCallArgInline(idxInfo, idxFiles, funcDecl(idxFiles, "SlimIndex", m), "si.DataReader.Read", 0, "slimIndex"+m+"Offset")
		})
	}
	// whole functions of the query path (W-mode, below)
	writeWhole(&b, info, trieFiles, wTargets)
	writeLegacy(&b, repo)
	writePlans(&b, info, trieFiles)
	b.WriteString("end Generated\n")
	must(os.WriteFile(out, []byte(b.String()), 0o644))
	fmt.Printf("funcs written: %d bytes\n", b.Len())
}

// ======================================================================================
// W-mode: WHOLE functions, with their control skeleton and their panics
// ======================================================================================
//
// The definitions above translate arithmetic fragments into total functions (an index out of range
// reads a default).  W-mode translates a whole function or method — every branch, early return,
// panic, nil dereference, index and slice bound, and the calls it makes — into the `Option` monad
// (`none` = the Go function panics), into `namespace Generated.W` of Funcs.lean:
//
//	struct types                  generated `structure`s (fields of unsupported types are left out; a
//	                              function that reads one is not translated)
//	*T field / local              Option T;   `p.f`, `p.m(…)` through it: `let t ← Go.deref p`
//	receiver, *T parameter        a value of type T (non-nil: the caller has dereferenced it); if the
//	                              function assigns its fields (directly or through a callee) the
//	                              updated value is returned, before the declared results
//	x := &T{…}                    a local value of type T
//	a[i], a[lo:hi]                `let t ← Go.idxS w a i` …: bounds are checked
//	panic(…)                      Go.panic
//	a && b, a || b                the effects of b happen only if b is evaluated
//	calls                         of functions / methods of the package: translated first (on demand),
//	                              then called; of the external functions listed in wExterns: the
//	                              specification functions of lean/Generated/GoSem.lean
//	for { … break … }             a fuel-recursive definition `<f>_loop<k>` (fuel is an extra FIRST
//	                              parameter of the translated function; running out of fuel is `none`)
//
// Integers are bit patterns as above; every result is returned as a pattern (no `Go.toS`).
// Not supported (the function is skipped with a note): writes through a pointer that is not a
// parameter or a local `&T{}`, element assignment, closures, goroutines, defer, switch, labels,
// non-constant signed shift counts, division by a non-constant, shadowing of a live local.

type wkind int

const (
	wkInt wkind = iota
	wkBool
	wkList   // []T of integers, []byte, string: List Nat
	wkStruct // a struct value (also: a non-nil pointer parameter, a local &T{})
	wkPtr    // a pointer to a struct that may be nil: Option T
	wkPtrL   // a pointer to a slice of integers that may be nil (`path *[]int32`): Option (List Nat)
)

type wty struct {
	k    wkind
	it   intTy  // wkInt: the type; wkList: the element type
	name string // wkStruct, wkPtr
}

func (a wty) lean() string {
	switch a.k {
	case wkInt:
		return "Nat"
	case wkBool:
		return "Bool"
	case wkList:
		return "List Nat"
	case wkStruct:
		return a.name
	case wkPtrL:
		return "Option (List Nat)"
	}
	return "Option " + a.name
}

func (a wty) leanArg() string {
	if a.k == wkPtr || a.k == wkPtrL {
		return "(" + a.lean() + ")"
	}
	if a.k == wkList {
		return "(List Nat)"
	}
	return a.lean()
}

func (a wty) String() string {
	switch a.k {
	case wkInt:
		return fmt.Sprintf("int(%d,%v)", a.it.w, a.it.signed)
	case wkBool:
		return "bool"
	case wkList:
		return fmt.Sprintf("[]int(%d,%v)", a.it.w, a.it.signed)
	case wkStruct:
		return a.name
	case wkPtrL:
		return fmt.Sprintf("*[]int(%d,%v)", a.it.w, a.it.signed)
	}
	return "*" + a.name
}

type wfield struct {
	name     string
	ty       wty
	goTy     string
	embedded bool
}

// promoted: the field `name` of struct `sname` reached through embedded struct values (depth first,
// in declaration order; Go rejects an ambiguous selector at compile time): the path and the field
func (c *wctx) promoted(sname, name string) ([]string, wfield, bool) {
	s := c.structs[sname]
	if s == nil {
		return nil, wfield{}, false
	}
	if f, ok := s.field(name); ok {
		return nil, f, true
	}
	for _, e := range s.fields {
		if e.embedded {
			if p, f, ok := c.promoted(e.ty.name, name); ok {
				return append([]string{e.name}, p...), f, true
			}
		}
	}
	return nil, wfield{}, false
}

type wstruct struct {
	name    string
	fields  []wfield
	skipped []string
}

func (s *wstruct) field(name string) (wfield, bool) {
	for _, f := range s.fields {
		if f.name == name {
			return f, true
		}
	}
	return wfield{}, false
}

type wparam struct {
	name string
	obj  types.Object
	ty   wty
	ptr  bool // declared as *T
}

type wfunc struct {
	key        string
	lean       string
	params     []wparam // the receiver first
	mut        []int    // parameters that are returned (their fields are assigned)
	results    []wty
	fuel       bool // has a leading fuel parameter
	derefFirst bool // the first statement dereferences the receiver
	// implicit parameters (after the declared ones): values of the receiver's fields that are not
	// represented, e.g. `encSize_` = the result of st.encoder.GetEncodedSize(nil)
	extra []string
}

type wctx struct {
	info    *types.Info
	files   []*ast.File
	structs map[string]*wstruct
	sorder  []string
	funcs   map[string]*wfunc
	busy    map[string]bool
	failed  map[string]string
	defs    []string // texts of the function definitions, in dependency order
}

func newWctx(info *types.Info, files []*ast.File) *wctx {
	return &wctx{info: info, files: files, structs: map[string]*wstruct{}, funcs: map[string]*wfunc{},
		busy: map[string]bool{}, failed: map[string]string{}}
}

// external functions with ASSUMED semantics (lean/Generated/GoSem.lean)
type wext struct {
	pkg    string // import path
	lean   string
	args   []wty
	res    []wty
	effect bool // may panic: the result is bound with ←
}

var (
	wI32  = wty{k: wkInt, it: intTy{32, true}}
	wI64  = wty{k: wkInt, it: intTy{64, true}}
	wU8   = wty{k: wkInt, it: intTy{8, false}}
	wU64  = wty{k: wkInt, it: intTy{64, false}}
	wL64  = wty{k: wkList, it: intTy{64, false}}
	wL32  = wty{k: wkList, it: intTy{32, true}}
	wByts = wty{k: wkList, it: intTy{8, false}}
	wBool = wty{k: wkBool}
)

var wExterns = map[string]wext{
	"bitmap.Rank64":       {"github.com/openacid/low/bitmap", "Go.rank64", []wty{wL64, wL32, wI32}, []wty{wI32, wI32}, true},
	"bitmap.Rank128":      {"github.com/openacid/low/bitmap", "Go.rank128", []wty{wL64, wL32, wI32}, []wty{wI32, wI32}, true},
	"bitmap.Select32R64":  {"github.com/openacid/low/bitmap", "Go.select32R64", []wty{wL64, wL32, wL32, wI32}, []wty{wI32, wI32}, true},
	"bitstr.Len":          {"github.com/openacid/low/bitstr", "Go.bitstrLen", []wty{wByts}, []wty{wI32}, true},
	"bits.OnesCount64":    {"math/bits", "Go.popcount64", []wty{wU64}, []wty{wI64}, false},
	"bytes.Equal":         {"bytes", "Go.bytesEqual", []wty{wByts, wByts}, []wty{wBool}, false},
	"bytes.Compare":       {"bytes", "Go.bytesCompare", []wty{wByts, wByts}, []wty{wI64}, false},
	"bits.TrailingZeros8": {"math/bits", "Go.trailingZeros8", []wty{wU8}, []wty{wI64}, false},
	"bitstr.New":          {"github.com/openacid/low/bitstr", "Go.bitstrNew", []wty{wByts, wI32, wI32}, []wty{wByts}, true},
	"bitmap.SafeGet1":     {"github.com/openacid/low/bitmap", "Go.safeGet1", []wty{wL64, wI32}, []wty{wU64}, true},
	"bitmap.Getw":         {"github.com/openacid/low/bitmap", "Go.getw", []wty{wL64, wI32, wI32}, []wty{wU64}, true},
}

func (c *wctx) typeOf(t types.Type) (wty, bool) {
	if t == nil {
		return wty{}, false
	}
	if it, ok := intTypeOf(t); ok {
		return wty{k: wkInt, it: it}, true
	}
	if isBool(t) {
		return wBool, true
	}
	switch u := t.Underlying().(type) {
	case *types.Basic:
		if u.Kind() == types.String {
			return wByts, true
		}
	case *types.Slice:
		if it, ok := intTypeOf(u.Elem()); ok {
			return wty{k: wkList, it: it}, true
		}
	case *types.Pointer:
		if n, ok := u.Elem().(*types.Named); ok {
			if s := c.structOf(n); s != nil {
				return wty{k: wkPtr, name: s.name}, true
			}
		}
		if sl, ok := u.Elem().Underlying().(*types.Slice); ok {
			if it, ok := intTypeOf(sl.Elem()); ok {
				return wty{k: wkPtrL, it: it}, true
			}
		}
	case *types.Struct:
		if n, ok := t.(*types.Named); ok {
			if s := c.structOf(n); s != nil {
				return wty{k: wkStruct, name: s.name}, true
			}
		}
	}
	return wty{}, false
}

func (c *wctx) structOf(n *types.Named) *wstruct {
	name := n.Obj().Name()
	if s, ok := c.structs[name]; ok {
		return s // nil while the struct is being built: a recursive type is not supported
	}
	st, ok := n.Underlying().(*types.Struct)
	if !ok {
		return nil
	}
	c.structs[name] = nil
	s := &wstruct{name: name}
	for i := 0; i < st.NumFields(); i++ {
		f := st.Field(i)
		ft, ok := c.typeOf(f.Type())
		if f.Embedded() && ok && ft.k == wkStruct && !strings.HasPrefix(f.Name(), "XXX_") {
			// an embedded struct VALUE is a field named like its type; its fields are promoted (see promoted)
			s.fields = append(s.fields, wfield{name: f.Name(), ty: ft, goTy: "embedded " + types.TypeString(f.Type(), func(*types.Package) string { return "" }), embedded: true})
			continue
		}
		if !ok || f.Embedded() || strings.HasPrefix(f.Name(), "XXX_") {
			// (XXX_…: bookkeeping fields of the protobuf runtime, no function of the package reads them)
			s.skipped = append(s.skipped, f.Name())
			continue
		}
		s.fields = append(s.fields, wfield{name: f.Name(), ty: ft, goTy: types.TypeString(f.Type(), func(*types.Package) string { return "" })})
	}
	if len(s.fields) == 0 {
		delete(c.structs, name)
		return nil
	}
	c.structs[name] = s
	c.sorder = append(c.sorder, name)
	return s
}

func (c *wctx) zero(t wty) string {
	switch t.k {
	case wkInt:
		return "0"
	case wkBool:
		return "false"
	case wkList:
		return "[]"
	case wkPtr, wkPtrL:
		return "none"
	}
	s := c.structs[t.name]
	var fs []string
	for _, f := range s.fields {
		fs = append(fs, fmt.Sprintf("%s := %s", leanName(f.name), c.zero(f.ty)))
	}
	return "{ " + strings.Join(fs, ", ") + " }"
}

func (c *wctx) structText(s *wstruct) string {
	var b strings.Builder
	fmt.Fprintf(&b, "structure %s where\n", s.name)
	for _, f := range s.fields {
		fmt.Fprintf(&b, "  %s : %s  -- %s\n", leanName(f.name), f.ty.lean(), f.goTy)
	}
	if len(s.skipped) > 0 {
		fmt.Fprintf(&b, "  -- not represented: %s\n", strings.Join(s.skipped, ", "))
	}
	b.WriteString("  deriving Repr, DecidableEq\n")
	return b.String()
}

func wkey(recv, name string) string {
	if recv == "" {
		return name
	}
	return recv + "." + name
}

// findFunc: the declaration of a function / method of the package, or nil
func (c *wctx) findFunc(recv, name string) *ast.FuncDecl {
	var found *ast.FuncDecl
	for _, f := range c.files {
		for _, d := range f.Decls {
			fd, ok := d.(*ast.FuncDecl)
			if !ok || fd.Name.Name != name || fd.Body == nil {
				continue
			}
			r := ""
			if fd.Recv != nil && len(fd.Recv.List) > 0 {
				r = recvType(fd.Recv.List[0].Type)
			}
			if r == recv {
				if found != nil {
					return nil
				}
				found = fd
			}
		}
	}
	return found
}

// need translates a function of the package (once) and returns its signature.
func (c *wctx) need(recv, name string) *wfunc {
	key := wkey(recv, name)
	if f, ok := c.funcs[key]; ok {
		return f
	}
	if why, ok := c.failed[key]; ok {
		fail(key + " (called): " + why)
	}
	if c.busy[key] {
		fail(key + ": recursive call")
	}
	fd := c.findFunc(recv, name)
	if fd == nil {
		fail(key + ": no (unique) declaration with a body")
	}
	c.busy[key] = true
	defer delete(c.busy, key)
	var f *wfunc
	var text string
	func() {
		defer func() {
			if r := recover(); r != nil {
				msg := fmt.Sprint(r)
				if ge, ok := r.(groupError); ok {
					msg = ge.msg
				}
				c.failed[key] = msg
				panic(groupError{msg})
			}
		}()
		f, text = c.translate(key, fd)
	}()
	c.funcs[key] = f
	c.defs = append(c.defs, text)
	return f
}

type wvar struct {
	name string
	ty   wty
	// a local `x := p.f.g` of pointer type that the function writes through: every use of x stands
	// for the path expression (see aliasDefs)
	alias ast.Expr
	// a local `x := P[lo:hi]` that is the destination of a later copy(x, …): x is a VIEW of P; the
	// bounds are kept in temporaries; after the copy x must not be read again
	view *wview
	dead bool
}

type wview struct {
	base   ast.Expr
	lo, hi string
}

type wtr struct {
	c     *wctx
	f     *wfunc
	fd    *ast.FuncDecl
	env   map[types.Object]wvar
	live  map[string]types.Object
	tmp   int
	pre   []string
	loops int
	aux   []string
	fuel  bool
	// inside a loop body: how `break` / `continue` / falling off the end of the body continue
	brk    func(ind string) []string
	cont   func(ind string) []string
	inLoop bool
	// locals `x := p.f.g` (pointer to a struct) that the function writes through: definition → path
	aliasDefs map[types.Object]ast.Expr
	// locals created by `x := make([]T, n)` whose elements may be assigned
	made   map[types.Object]bool
	madeOK map[types.Object]bool // … and that are only indexed, measured or passed to calls
	// locals `x := P[lo:hi]` that are the destination of a copy(x, …): definition → P
	viewDefs map[types.Object]ast.Expr
}

func (w *wtr) fail(n ast.Node, why string) {
	fail(fmt.Sprintf("%s: %s: %s", w.f.key, why, src(n)))
}

func (w *wtr) obj(id *ast.Ident) types.Object {
	if o := w.c.info.Uses[id]; o != nil {
		return o
	}
	return w.c.info.Defs[id]
}

func (w *wtr) fresh() string {
	w.tmp++
	return fmt.Sprintf("t%d_", w.tmp)
}

func (w *wtr) bind(rhs string) string {
	t := w.fresh()
	w.pre = append(w.pre, fmt.Sprintf("let %s ← %s", t, rhs))
	return t
}

func (w *wtr) takePre() []string {
	p := w.pre
	w.pre = nil
	return p
}

func (w *wtr) declare(id *ast.Ident, ty wty) string {
	o := w.c.info.Defs[id]
	if o == nil {
		w.fail(id, "declaration without an object")
	}
	n := leanName(id.Name)
	if strings.HasSuffix(n, "_") && len(n) > 2 && n[0] == 't' {
		if _, err := fmt.Sscanf(n, "t%d_", new(int)); err == nil {
			w.fail(id, "a local is named like a generated temporary")
		}
	}
	if old, ok := w.live[n]; ok && old != o {
		w.fail(id, "a local shadows a live variable of the same name")
	}
	w.env[o] = wvar{name: n, ty: ty}
	w.live[n] = o
	return n
}

func (w *wtr) saveEnv() (map[types.Object]wvar, map[string]types.Object) {
	e := map[types.Object]wvar{}
	for k, v := range w.env {
		e[k] = v
	}
	l := map[string]types.Object{}
	for k, v := range w.live {
		l[k] = v
	}
	return e, l
}

func (w *wtr) isPkg(e ast.Expr, path string) bool {
	id, ok := e.(*ast.Ident)
	if !ok {
		return false
	}
	pn, ok := w.c.info.Uses[id].(*types.PkgName)
	return ok && pn.Imported() != nil && pn.Imported().Path() == path
}

// constant: the pattern of a constant expression in the integer type `want` (or its own type)
func (w *wtr) constant(e ast.Expr, want *wty) (string, wty, bool) {
	tv := w.c.info.Types[e]
	if tv.Value == nil {
		return "", wty{}, false
	}
	if tv.Value.Kind() == constant.Bool {
		if constant.BoolVal(tv.Value) {
			return "true", wBool, true
		}
		return "false", wBool, true
	}
	if constant.ToInt(tv.Value).Kind() != constant.Int {
		w.fail(e, "constant that is neither an integer nor a bool")
	}
	var ty wty
	if it, ok := intTypeOf(tv.Type); ok {
		if b, isB := tv.Type.(*types.Basic); !(isB && b.Info()&types.IsUntyped != 0) {
			ty = wty{k: wkInt, it: it}
		}
	}
	if ty.it.w == 0 {
		if want == nil || want.k != wkInt {
			w.fail(e, "untyped constant in a context without an integer type")
		}
		ty = *want
	}
	// the constant must be representable (Go checks this at compile time for typed constants)
	s := pattern(tv.Value, ty.it.w)
	if s == "" {
		w.fail(e, "constant")
	}
	return s, ty, true
}

func (w *wtr) intConv(e ast.Expr) (intTy, bool) {
	// T(x) with T an integer type
	c, ok := e.(*ast.CallExpr)
	if !ok || len(c.Args) != 1 {
		return intTy{}, false
	}
	if tv := w.c.info.Types[c.Fun]; tv.IsType() {
		return intTypeOf(tv.Type)
	}
	if id, ok := c.Fun.(*ast.Ident); ok {
		if tn, ok := w.obj(id).(*types.TypeName); ok {
			return intTypeOf(tn.Type())
		}
	}
	return intTy{}, false
}

// expr translates an expression; the effects it needs (index checks, dereferences, calls that may
// panic) are appended to w.pre as `let t ← …` lines, in evaluation order.
func (w *wtr) expr(e ast.Expr, want *wty) (string, wty) {
	if p, ok := e.(*ast.ParenExpr); ok {
		return w.expr(p.X, want)
	}
	if s, ty, ok := w.constant(e, want); ok {
		return s, ty
	}
	switch x := e.(type) {
	case *ast.Ident:
		if x.Name == "nil" {
			w.fail(e, "nil outside a comparison")
		}
		o := w.obj(x)
		if v, ok := w.env[o]; ok && o != nil {
			if v.alias != nil {
				return w.expr(v.alias, want)
			}
			if v.dead {
				w.fail(e, "read of a slice view after copy() into it")
			}
			return v.name, v.ty
		}
		w.fail(e, "identifier that is neither a parameter nor a local")
	case *ast.SelectorExpr:
		if id, ok := x.X.(*ast.Ident); ok {
			if _, isPkg := w.c.info.Uses[id].(*types.PkgName); isPkg {
				w.fail(e, "member of a package")
			}
		}
		s, ty := w.expr(x.X, nil)
		if ty.k == wkPtr {
			s = w.bind("Go.deref " + s)
			ty = wty{k: wkStruct, name: ty.name}
		}
		if ty.k != wkStruct {
			w.fail(e, "selection on something that is not a struct")
		}
		f, ok := w.c.structs[ty.name].field(x.Sel.Name)
		if !ok {
			var path []string
			path, f, ok = w.c.promoted(ty.name, x.Sel.Name)
			if !ok {
				w.fail(e, "field that is not represented")
			}
			for _, p := range path {
				s += "." + leanName(p)
			}
		}
		return s + "." + leanName(f.name), f.ty
	case *ast.IndexExpr:
		if sel, ok := x.X.(*ast.SelectorExpr); ok && w.isPkg(sel.X, "github.com/openacid/low/bitmap") {
			var fn string
			switch sel.Sel.Name {
			case "Mask":
				fn = "Go.maskAt"
			case "Bit":
				fn = "Go.bitAt"
			default:
				w.fail(e, "table of package bitmap without a specification")
			}
			k, kty := w.expr(x.Index, &wI64)
			if kty.k != wkInt {
				w.fail(e, "index")
			}
			return w.bind(fmt.Sprintf("%s %s", fn, k)), wU64
		}
		a, aty := w.expr(x.X, nil)
		if aty.k != wkList {
			w.fail(e, "indexing of something that is not a slice or string")
		}
		i, ity := w.expr(x.Index, &wI64)
		if ity.k != wkInt {
			w.fail(e, "index")
		}
		if ity.it.signed {
			return w.bind(fmt.Sprintf("Go.idxS %d %s %s", ity.it.w, a, i)), wty{k: wkInt, it: aty.it}
		}
		return w.bind(fmt.Sprintf("Go.idxU %s %s", a, i)), wty{k: wkInt, it: aty.it}
	case *ast.SliceExpr:
		if x.Slice3 {
			w.fail(e, "3-index slice")
		}
		a, aty := w.expr(x.X, nil)
		if aty.k != wkList {
			w.fail(e, "slicing of something that is not a slice or string")
		}
		var lo, hi string
		var lty, hty wty
		if x.Low != nil {
			lo, lty = w.expr(x.Low, &wI64)
		}
		if x.High != nil {
			hi, hty = w.expr(x.High, &wI64)
		}
		for _, t := range []wty{lty, hty} {
			if t.it.w != 0 && (t.k != wkInt || !t.it.signed) {
				w.fail(e, "slice bound of an unsigned type")
			}
		}
		switch {
		case x.Low == nil && x.High == nil:
			return a, aty
		case x.High == nil:
			return w.bind(fmt.Sprintf("Go.sliceFromS %d %s %s", lty.it.w, a, lo)), aty
		case x.Low == nil:
			return w.bind(fmt.Sprintf("Go.sliceToS %d %s %s", hty.it.w, a, hi)), aty
		}
		if lty.it != hty.it {
			w.fail(e, "slice bounds of different types")
		}
		return w.bind(fmt.Sprintf("Go.sliceS %d %s %s %s", lty.it.w, a, lo, hi)), aty
	case *ast.CompositeLit:
		t, ok := w.c.typeOf(w.c.info.Types[x].Type)
		if ok && t.k == wkList && len(x.Elts) == 0 {
			return "[]", t
		}
		if ok && t.k == wkStruct {
			return w.structLit(x, t), t
		}
		w.fail(e, "composite literal")
	case *ast.StarExpr:
		s, ty := w.expr(x.X, nil)
		if ty.k != wkPtrL {
			w.fail(e, "dereference of something that is not a pointer to a slice")
		}
		return w.bind("Go.deref " + s), wty{k: wkList, it: ty.it}
	case *ast.UnaryExpr:
		switch x.Op {
		case token.AND:
			if cl, ok := x.X.(*ast.CompositeLit); ok {
				return w.expr(cl, nil) // &T{…}: a fresh, non-nil value
			}
			w.fail(e, "address of something that is not a composite literal")
		case token.NOT:
			a, aty := w.expr(x.X, nil)
			if aty.k != wkBool {
				w.fail(e, "! of something that is not a bool")
			}
			return "(!" + a + ")", wBool
		case token.ADD, token.SUB, token.XOR:
			a, aty := w.expr(x.X, want)
			if aty.k != wkInt {
				w.fail(e, "unary operator on something that is not an integer")
			}
			switch x.Op {
			case token.SUB:
				return fmt.Sprintf("(Go.neg %d %s)", aty.it.w, a), aty
			case token.XOR:
				return fmt.Sprintf("(Go.not %d %s)", aty.it.w, a), aty
			}
			return a, aty
		}
		w.fail(e, "unary operator")
	case *ast.BinaryExpr:
		return w.binary(x, want)
	case *ast.CallExpr:
		if to, ok := w.intConv(e); ok {
			a, aty := w.expr(x.Args[0], &wty{k: wkInt, it: to})
			if aty.k != wkInt {
				w.fail(e, "conversion of something that is not an integer")
			}
			if aty.it == to {
				return a, aty
			}
			return fmt.Sprintf("(Go.conv %d %v %d %s)", aty.it.w, aty.it.signed, to.w, a), wty{k: wkInt, it: to}
		}
		if tv := w.c.info.Types[x.Fun]; tv.IsType() && len(x.Args) == 1 {
			if t, ok := w.c.typeOf(tv.Type); ok && t.k == wkList && t.it == (intTy{8, false}) {
				a, aty := w.expr(x.Args[0], nil) // []byte(s), string(b): the same bytes
				if aty.k != wkList || aty.it != t.it {
					w.fail(e, "conversion to a byte sequence")
				}
				return a, aty
			}
			w.fail(e, "conversion")
		}
		if id, ok := x.Fun.(*ast.Ident); ok && id.Name == "append" && w.obj(id) == types.Universe.Lookup("append") {
			if len(x.Args) != 2 || x.Ellipsis.IsValid() {
				w.fail(e, "append (only append(s, e))")
			}
			a, aty := w.expr(x.Args[0], nil)
			if aty.k != wkList {
				w.fail(e, "append to something that is not a slice")
			}
			ety := wty{k: wkInt, it: aty.it}
			v, vty := w.expr(x.Args[1], &ety)
			if vty != ety {
				w.fail(e, "append of an element of another type")
			}
			return fmt.Sprintf("(%s ++ [%s])", a, v), aty
		}
		if id, ok := x.Fun.(*ast.Ident); ok && id.Name == "make" && w.obj(id) == types.Universe.Lookup("make") {
			if len(x.Args) != 2 {
				w.fail(e, "make (only make([]T, n))")
			}
			t, ok := w.c.typeOf(w.c.info.Types[x.Args[0]].Type)
			if !ok || t.k != wkList {
				w.fail(e, "make of something that is not a slice of integers")
			}
			n, nty := w.expr(x.Args[1], &wI64)
			if nty.k != wkInt {
				w.fail(e, "make: length")
			}
			// (a negative length panics; the elements are zero)
			if nty.it.signed {
				return w.bind(fmt.Sprintf("Go.makeS %d %s", nty.it.w, wArg(n))), t
			}
			return w.bind(fmt.Sprintf("Go.makeU %s", wArg(n))), t
		}
		if id, ok := x.Fun.(*ast.Ident); ok && id.Name == "len" && w.obj(id) == types.Universe.Lookup("len") {
			if len(x.Args) != 1 {
				w.fail(e, "len")
			}
			a, aty := w.expr(x.Args[0], nil)
			if aty.k != wkList {
				w.fail(e, "len of something that is not a slice or string")
			}
			return fmt.Sprintf("(%s.length)", a), wI64
		}
		rs, tys := w.call(x)
		if len(rs) != 1 {
			w.fail(e, "call with other than one result in an expression")
		}
		return rs[0], tys[0]
	}
	w.fail(e, "unsupported expression")
	return "", wty{}
}

func (w *wtr) structLit(x *ast.CompositeLit, t wty) string {
	s := w.c.structs[t.name]
	vals := map[string]string{}
	for _, el := range x.Elts {
		kv, ok := el.(*ast.KeyValueExpr)
		if !ok {
			w.fail(x, "struct literal without field names")
		}
		f, ok := s.field(src(kv.Key))
		if !ok {
			w.fail(x, "field that is not represented")
		}
		v, vty := w.expr(kv.Value, &f.ty)
		if vty != f.ty {
			w.fail(kv, "field value of another type")
		}
		vals[f.name] = v
	}
	if len(s.skipped) > 0 && len(x.Elts) > 0 {
		// (a literal that sets only represented fields is fine; one that sets a skipped field failed above)
	}
	var fs []string
	for _, f := range s.fields {
		v, ok := vals[f.name]
		if !ok {
			v = w.c.zero(f.ty)
		}
		fs = append(fs, fmt.Sprintf("%s := %s", leanName(f.name), v))
	}
	return "({ " + strings.Join(fs, ", ") + " } : " + t.name + ")"
}

func isConstExpr(info *types.Info, e ast.Expr) bool { return info.Types[e].Value != nil }

func (w *wtr) binary(x *ast.BinaryExpr, want *wty) (string, wty) {
	switch x.Op {
	case token.LAND, token.LOR:
		a, aty := w.expr(x.X, nil)
		saved := w.pre
		w.pre = nil
		b, bty := w.expr(x.Y, nil)
		inner := w.pre
		w.pre = saved
		if aty.k != wkBool || bty.k != wkBool {
			w.fail(x, "&& / || of something that is not a bool")
		}
		if len(inner) == 0 {
			if x.Op == token.LAND {
				return "(" + a + " && " + b + ")", wBool
			}
			return "(" + a + " || " + b + ")", wBool
		}
		// the right operand has effects: they happen only when it is evaluated
		body := "(do " + strings.Join(inner, "; ") + "; pure " + b + ")"
		if x.Op == token.LAND {
			return w.bind(fmt.Sprintf("(if %s then %s else pure false)", a, body)), wBool
		}
		return w.bind(fmt.Sprintf("(if %s then pure true else %s)", a, body)), wBool
	case token.EQL, token.NEQ:
		if isNil(x.X) || isNil(x.Y) {
			o := x.X
			if isNil(x.X) {
				o = x.Y
			}
			s, ty := w.expr(o, nil)
			if ty.k != wkPtr && ty.k != wkPtrL {
				w.fail(x, "comparison with nil of something that is not a nil-able pointer")
			}
			if x.Op == token.EQL {
				return "(" + s + ".isNone)", wBool
			}
			return "(" + s + ".isSome)", wBool
		}
		fallthrough
	case token.LSS, token.LEQ, token.GTR, token.GEQ:
		a, b, ty := w.operands(x, nil)
		switch {
		case ty.k == wkBool && (x.Op == token.EQL || x.Op == token.NEQ):
		case ty.k == wkInt:
		default:
			w.fail(x, "comparison of unsupported operands")
		}
		lt := func(p, q string) string {
			if ty.it.signed {
				return fmt.Sprintf("(Go.ltS %d %s %s)", ty.it.w, p, q)
			}
			return fmt.Sprintf("(Go.ltU %s %s)", p, q)
		}
		le := func(p, q string) string {
			if ty.it.signed {
				return fmt.Sprintf("(Go.leS %d %s %s)", ty.it.w, p, q)
			}
			return fmt.Sprintf("(Go.leU %s %s)", p, q)
		}
		switch x.Op {
		case token.EQL:
			return fmt.Sprintf("(%s == %s)", a, b), wBool
		case token.NEQ:
			return fmt.Sprintf("(%s != %s)", a, b), wBool
		case token.LSS:
			return lt(a, b), wBool
		case token.LEQ:
			return le(a, b), wBool
		case token.GTR:
			return lt(b, a), wBool
		}
		return le(b, a), wBool
	case token.SHL, token.SHR:
		a, aty := w.expr(x.X, want)
		if aty.k != wkInt {
			w.fail(x, "shift of something that is not an integer")
		}
		return w.shift(x, x.Op, a, aty, x.Y), aty
	case token.ADD, token.SUB, token.MUL, token.AND, token.OR, token.XOR, token.AND_NOT, token.QUO, token.REM:
		a, b, ty := w.operands(x, want)
		if ty.k != wkInt {
			w.fail(x, "arithmetic on something that is not an integer")
		}
		return w.arith(x, x.Op, a, b, ty, x.Y), ty
	}
	w.fail(x, "binary operator")
	return "", wty{}
}

// operands translates both operands of a binary operator that needs identical operand types
// (left to right; an untyped constant takes the type of the other operand).
func (w *wtr) operands(x *ast.BinaryExpr, want *wty) (string, string, wty) {
	var a, b string
	var aty, bty wty
	if isConstExpr(w.c.info, x.X) && !isConstExpr(w.c.info, x.Y) {
		// the constant has no effects: the order of evaluation is not changed
		b, bty = w.expr(x.Y, want)
		a, aty = w.expr(x.X, &bty)
	} else {
		a, aty = w.expr(x.X, want)
		b, bty = w.expr(x.Y, &aty)
	}
	if aty != bty {
		w.fail(x, fmt.Sprintf("operands of different types (%v, %v)", aty, bty))
	}
	return a, b, aty
}

func (w *wtr) shift(at ast.Node, op token.Token, a string, aty wty, count ast.Expr) string {
	var k string
	if tv := w.c.info.Types[count]; tv.Value != nil {
		v := constant.ToInt(tv.Value)
		if v.Kind() != constant.Int || constant.Sign(v) < 0 {
			w.fail(at, "shift count")
		}
		k = v.ExactString()
	} else {
		var kty wty
		k, kty = w.expr(count, nil)
		if kty.k != wkInt || kty.it.signed {
			w.fail(at, "shift by a non-constant count of a signed type (panics when negative)")
		}
	}
	switch {
	case op == token.SHL:
		return fmt.Sprintf("(Go.shl %d %s %s)", aty.it.w, a, k)
	case aty.it.signed:
		return fmt.Sprintf("(Go.sar %d %s %s)", aty.it.w, a, k)
	}
	return fmt.Sprintf("(Go.shr %s %s)", a, k)
}

func (w *wtr) arith(at ast.Node, op token.Token, a, b string, ty wty, divisor ast.Expr) string {
	n := ty.it.w
	switch op {
	case token.ADD:
		return fmt.Sprintf("(Go.add %d %s %s)", n, a, b)
	case token.SUB:
		return fmt.Sprintf("(Go.sub %d %s %s)", n, a, b)
	case token.MUL:
		return fmt.Sprintf("(Go.mul %d %s %s)", n, a, b)
	case token.AND:
		return fmt.Sprintf("(Go.and %s %s)", a, b)
	case token.OR:
		return fmt.Sprintf("(Go.or %s %s)", a, b)
	case token.XOR:
		return fmt.Sprintf("(Go.xor %s %s)", a, b)
	case token.AND_NOT:
		return fmt.Sprintf("(Go.andNot %d %s %s)", n, a, b)
	case token.QUO, token.REM:
		tv := w.c.info.Types[divisor]
		if tv.Value != nil && constant.Sign(constant.ToInt(tv.Value)) == 0 {
			w.fail(at, "division by the constant zero")
		}
		if tv.Value == nil {
			// the divisor is not a constant: a zero divisor panics
			g := map[token.Token][2]string{token.QUO: {"divChkS", "divChkU"}, token.REM: {"modChkS", "modChkU"}}[op]
			if ty.it.signed {
				return w.bind(fmt.Sprintf("Go.%s %d %s %s", g[0], n, wArg(a), wArg(b)))
			}
			return w.bind(fmt.Sprintf("Go.%s %s %s", g[1], wArg(a), wArg(b)))
		}
		f := map[token.Token][2]string{token.QUO: {"divS", "divU"}, token.REM: {"modS", "modU"}}[op]
		if ty.it.signed {
			return fmt.Sprintf("(Go.%s %d %s %s)", f[0], n, a, b)
		}
		return fmt.Sprintf("(Go.%s %s %s)", f[1], a, b)
	}
	w.fail(at, "operator")
	return ""
}

// call translates a call of an external function with a specification, or of a function / method
// of the package; it returns the result terms (bound to temporaries when the call may panic).
// The parameters of the callee that it mutates are rebound to the updated values.
func (w *wtr) call(x *ast.CallExpr) ([]string, []wty) {
	if x.Ellipsis.IsValid() {
		w.fail(x, "variadic call")
	}
	// st.encoder.GetEncodedSize(nil): the field `encoder` (an interface value) is not represented;
	// the result of this call is an implicit parameter of the function (`none`: the call panics)
	if sel, ok := x.Fun.(*ast.SelectorExpr); ok && sel.Sel.Name == "GetEncodedSize" && len(x.Args) == 1 && isNil(x.Args[0]) {
		if in, ok := sel.X.(*ast.SelectorExpr); ok && in.Sel.Name == "encoder" {
			if id, ok := in.X.(*ast.Ident); ok {
				if v, ok := w.env[w.obj(id)]; ok && w.obj(id) != nil && v.ty.k == wkStruct && v.ty.name == "SlimTrie" && v.alias == nil {
					w.addExtra("encSize_")
					return []string{w.bind("Go.encodedSize encSize_")}, []wty{wI64}
				}
			}
		}
	}
	// endian.Uint16 / Uint32 / Uint64(b) with `endian` a variable that is only ever binary.LittleEndian
	if sel, ok := x.Fun.(*ast.SelectorExpr); ok && len(x.Args) == 1 {
		if id, ok := sel.X.(*ast.Ident); ok {
			if v, isVar := w.obj(id).(*types.Var); isVar && w.c.isLEVar(v) {
				n := map[string]int{"Uint16": 2, "Uint32": 4, "Uint64": 8}[sel.Sel.Name]
				if n == 0 {
					w.fail(x, "method of binary.LittleEndian without a specification")
				}
				a, aty := w.expr(x.Args[0], &wByts)
				if aty != wByts {
					w.fail(x.Args[0], "argument of "+sel.Sel.Name)
				}
				return []string{w.bind(fmt.Sprintf("Go.uintLEChk %d %s", n, wArg(a)))}, []wty{{k: wkInt, it: intTy{8 * n, false}}}
			}
		}
	}
	// newBM(indexes, capa, "r64"): variadic options, `range`, `switch` — not translated; ASSUMED
	// specification Go.newBM, accepted only while the text of newBM / indexit is the specified one
	if id, ok := x.Fun.(*ast.Ident); ok && id.Name == "newBM" {
		if _, isFunc := w.obj(id).(*types.Func); isFunc {
			return w.callNewBM(x)
		}
	}
	// external
	if sel, ok := x.Fun.(*ast.SelectorExpr); ok {
		if id, ok := sel.X.(*ast.Ident); ok {
			if _, isPkg := w.c.info.Uses[id].(*types.PkgName); isPkg {
				ext, ok := wExterns[id.Name+"."+sel.Sel.Name]
				if !ok || !w.isPkg(id, ext.pkg) {
					w.fail(x, "external function without a specification")
				}
				if len(x.Args) != len(ext.args) {
					w.fail(x, "number of arguments")
				}
				var args []string
				for i, a := range x.Args {
					s, ty := w.expr(a, &ext.args[i])
					if ty != ext.args[i] {
						w.fail(a, fmt.Sprintf("argument of type %v, %v expected", ty, ext.args[i]))
					}
					args = append(args, wArg(s))
				}
				callS := ext.lean + " " + strings.Join(args, " ")
				if !ext.effect {
					return []string{"(" + callS + ")"}, ext.res
				}
				if len(ext.res) == 1 {
					return []string{w.bind(callS)}, ext.res
				}
				var ts []string
				for range ext.res {
					ts = append(ts, w.fresh())
				}
				w.pre = append(w.pre, fmt.Sprintf("let (%s) ← %s", strings.Join(ts, ", "), callS))
				return ts, ext.res
			}
		}
	}
	// a function or method of the package
	var callee *wfunc
	var args []ast.Expr
	switch f := x.Fun.(type) {
	case *ast.Ident:
		if _, ok := w.obj(f).(*types.Func); !ok {
			w.fail(x, "call of something that is not a declared function")
		}
		callee = w.c.need("", f.Name)
		args = x.Args
	case *ast.SelectorExpr:
		fo, ok := w.c.info.Uses[f.Sel].(*types.Func)
		if !ok {
			w.fail(x, "call of something that is not a declared method")
		}
		sig := fo.Type().(*types.Signature)
		if sig.Recv() == nil {
			w.fail(x, "method value")
		}
		rt := sig.Recv().Type()
		if p, ok := rt.(*types.Pointer); ok {
			rt = p.Elem()
		}
		n, ok := rt.(*types.Named)
		if !ok {
			w.fail(x, "receiver type")
		}
		callee = w.c.need(n.Obj().Name(), f.Sel.Name)
		args = append([]ast.Expr{f.X}, x.Args...)
	default:
		w.fail(x, "call")
	}
	if len(args) != len(callee.params) {
		w.fail(x, "number of arguments")
	}
	var as []string
	rebind := map[int]types.Object{}
	for i, a := range args {
		p := callee.params[i]
		if isNil(a) && p.ty.k == wkPtrL {
			as = append(as, "none") // the updated value is dropped below
			continue
		}
		s, ty := w.expr(a, &p.ty)
		if ty.k == wkPtr && p.ty.k == wkStruct && ty.name == p.ty.name {
			// a pointer that may be nil is handed to a function that expects a dereferenced value: sound
			// only if the callee dereferences it before anything else
			if i != 0 || !callee.derefFirst {
				w.fail(a, "a pointer that may be nil is passed to a function that does not dereference it first")
			}
			s = w.bind("Go.deref " + s)
			ty = p.ty
		}
		if ty != p.ty {
			w.fail(a, fmt.Sprintf("argument of type %v, %v expected", ty, p.ty))
		}
		for _, m := range callee.mut {
			if m == i {
				id, ok := a.(*ast.Ident)
				if !ok || w.obj(id) == nil {
					w.fail(a, "a value that the callee updates must be a variable")
				}
				if v, ok := w.env[w.obj(id)]; !ok || v.alias != nil {
					w.fail(a, "a value that the callee updates must be a variable")
				}
				w.checkAliasPrefix(a, w.obj(id), nil)
				rebind[i] = w.obj(id)
			}
		}
		as = append(as, wArg(s))
	}
	for _, e := range callee.extra {
		w.addExtra(e)
		as = append(as, e)
	}
	if callee.fuel {
		if !w.fuel {
			w.fail(x, "call of a function with a loop from a function without fuel")
		}
		as = append([]string{"fuel"}, as...)
	}
	var pats []string
	var outs []string
	for _, m := range callee.mut {
		if o, ok := rebind[m]; ok {
			pats = append(pats, w.env[o].name)
		} else {
			pats = append(pats, "_")
		}
	}
	for range callee.results {
		t := w.fresh()
		pats = append(pats, t)
		outs = append(outs, t)
	}
	if len(pats) == 0 {
		w.fail(x, "call of a function without results or effects")
	}
	w.pre = append(w.pre, fmt.Sprintf("let %s ← %s %s", tuple(pats), callee.lean, strings.Join(as, " ")))
	return outs, callee.results
}

func isBinaryLE(info *types.Info, e ast.Expr) bool {
	sel, ok := e.(*ast.SelectorExpr)
	if !ok || sel.Sel.Name != "LittleEndian" {
		return false
	}
	id, ok := sel.X.(*ast.Ident)
	if !ok {
		return false
	}
	pn, ok := info.Uses[id].(*types.PkgName)
	return ok && pn.Imported() != nil && pn.Imported().Path() == "encoding/binary"
}

// isLEVar: a variable (package level or local) with exactly one definition, `= binary.LittleEndian`,
// and no other assignment
func (c *wctx) isLEVar(o types.Object) bool {
	defs, other := 0, 0
	for _, f := range c.files {
		ast.Inspect(f, func(n ast.Node) bool {
			switch a := n.(type) {
			case *ast.ValueSpec:
				for i, nm := range a.Names {
					if c.info.Defs[nm] == o {
						if len(a.Values) > i && isBinaryLE(c.info, a.Values[i]) {
							defs++
						} else {
							other++
						}
					}
				}
			case *ast.AssignStmt:
				for i, l := range a.Lhs {
					id, ok := l.(*ast.Ident)
					if !ok {
						continue
					}
					if c.info.Defs[id] == o {
						if len(a.Rhs) == len(a.Lhs) && isBinaryLE(c.info, a.Rhs[i]) {
							defs++
						} else {
							other++
						}
					} else if c.info.Uses[id] == o {
						other++
					}
				}
			}
			return true
		})
	}
	return defs == 1 && other == 0
}

func (w *wtr) addExtra(name string) {
	for _, e := range w.f.extra {
		if e == name {
			return
		}
	}
	w.f.extra = append(w.f.extra, name)
}

// the text of trie/bitmap.go newBM + indexit that Go.newBM (GoSem.lean) specifies
const newBMText = `func newBM(indexes []int32, capa int32, opts ...string) *Bitmap {
	bb := &Bitmap{
		Words: bitmap.Of(indexes, capa),
	}
	bb.indexit(opts...)
	return bb
}`

const indexitText = `func (b *Bitmap) indexit(opts ...string) {
	for _, opt := range opts {
		switch opt {
		case "r64":
			b.RankIndex = bitmap.IndexRank64(b.Words)
		case "r128":
			b.RankIndex = bitmap.IndexRank128(b.Words)
		case "s32":

			b.SelectIndex, b.RankIndex = bitmap.IndexSelect32R64(b.Words)
		default:
			panic("unknown " + opt)
		}
	}
}`

func declText(fd *ast.FuncDecl) string {
	if fd == nil {
		return ""
	}
	d := *fd
	d.Doc = nil
	return src(&d)
}

func normText(s string) string { return strings.Join(strings.Fields(s), " ") }

func (w *wtr) callNewBM(x *ast.CallExpr) ([]string, []wty) {
	if declText(w.c.findFunc("", "newBM")) != normText(newBMText) || declText(w.c.findFunc("Bitmap", "indexit")) != normText(indexitText) {
		w.fail(x, "newBM / indexit differ from the text that Go.newBM specifies")
	}
	if len(x.Args) != 3 {
		w.fail(x, "newBM (only newBM(indexes, capa, \"r64\"))")
	}
	tv := w.c.info.Types[x.Args[2]]
	if tv.Value == nil || tv.Value.Kind() != constant.String || constant.StringVal(tv.Value) != "r64" {
		w.fail(x, "newBM (only the option \"r64\" has a specification)")
	}
	idx, ity := w.expr(x.Args[0], &wL32)
	if ity != wL32 {
		w.fail(x.Args[0], "argument of newBM")
	}
	capa, cty := w.expr(x.Args[1], &wI32)
	if cty != wI32 {
		w.fail(x.Args[1], "argument of newBM")
	}
	fo := w.obj(x.Fun.(*ast.Ident)).(*types.Func)
	res := fo.Type().(*types.Signature).Results()
	if res.Len() != 1 {
		w.fail(x, "newBM: results")
	}
	rt, ok := w.c.typeOf(res.At(0).Type())
	if !ok || rt.k != wkPtr || rt.name != "Bitmap" {
		w.fail(x, "newBM: result type")
	}
	s := w.c.structs["Bitmap"]
	if len(s.fields) != 3 || s.fields[0].name != "Words" || s.fields[1].name != "RankIndex" || s.fields[2].name != "SelectIndex" {
		w.fail(x, "newBM: fields of Bitmap")
	}
	t1, t2 := w.fresh(), w.fresh()
	w.pre = append(w.pre, fmt.Sprintf("let (%s, %s) ← Go.newBMr64 %s %s", t1, t2, wArg(idx), wArg(capa)))
	return []string{fmt.Sprintf("(some ({ Words := %s, RankIndex := %s, SelectIndex := [] } : Bitmap))", t1, t2)}, []wty{rt}
}

// copyStmt: copy(x, src) with x a view `P[lo:hi]`: the elements of P from lo on are replaced by the
// first min(hi-lo, len src) elements of src
func (w *wtr) copyStmt(c *ast.CallExpr) []string {
	if len(c.Args) != 2 {
		w.fail(c, "copy")
	}
	id, ok := c.Args[0].(*ast.Ident)
	if !ok {
		w.fail(c, "copy into something that is not a slice view `x := P[lo:hi]`")
	}
	o := w.obj(id)
	v, ok := w.env[o]
	if !ok || o == nil || v.view == nil || v.dead {
		w.fail(c, "copy into something that is not a slice view `x := P[lo:hi]`")
	}
	srcv, sty := w.expr(c.Args[1], &v.ty)
	if sty != v.ty {
		w.fail(c, "copy: element types")
	}
	cur, cty := w.expr(v.view.base, nil)
	if cty != v.ty {
		w.fail(c, "copy: type of the base")
	}
	lines := w.takePre()
	p := w.place(v.view.base, false)
	lines = append(lines, w.store(p, fmt.Sprintf("(Go.copyInto %s %s %s %s)", wArg(cur), v.view.lo, v.view.hi, wArg(srcv)), cty, c)...)
	v.dead = true
	w.env[o] = v
	return lines
}

// viewDefsOf: the locals `x := P[lo:hi]` (defined once, never assigned again) that are the destination
// of a copy(x, …) statement, with P.  No other statement of the function may assign to the variable at
// the root of P (the view would then refer to the old backing array).
func viewDefsOf(info *types.Info, fd *ast.FuncDecl) map[types.Object]ast.Expr {
	dst := map[types.Object]bool{}
	ast.Inspect(fd.Body, func(n ast.Node) bool {
		if es, ok := n.(*ast.ExprStmt); ok {
			if c, ok := es.X.(*ast.CallExpr); ok && len(c.Args) == 2 {
				if f, ok := c.Fun.(*ast.Ident); ok && f.Name == "copy" && info.Uses[f] == types.Universe.Lookup("copy") {
					if id, ok := c.Args[0].(*ast.Ident); ok && info.Uses[id] != nil {
						dst[info.Uses[id]] = true
					}
				}
			}
		}
		return true
	})
	defs := map[types.Object]ast.Expr{}
	bad := map[types.Object]bool{}
	ast.Inspect(fd.Body, func(n ast.Node) bool {
		if a, ok := n.(*ast.AssignStmt); ok {
			for _, l := range a.Lhs {
				id, ok := l.(*ast.Ident)
				if !ok {
					continue
				}
				if o := info.Defs[id]; o != nil && dst[o] && a.Tok == token.DEFINE && len(a.Lhs) == 1 && len(a.Rhs) == 1 {
					if se, ok := a.Rhs[0].(*ast.SliceExpr); ok {
						if _, dup := defs[o]; dup {
							bad[o] = true
						}
						defs[o] = se.X
						continue
					}
				}
				if o := info.Uses[id]; o != nil && dst[o] {
					bad[o] = true
				}
			}
		}
		return true
	})
	for o := range bad {
		delete(defs, o)
	}
	return defs
}

// pathOf: a place `v.f.g…` rooted at a struct variable (aliases expanded): the variable and the fields
func (w *wtr) pathOf(e ast.Expr) (wvar, types.Object, []string) {
	switch x := e.(type) {
	case *ast.ParenExpr:
		return w.pathOf(x.X)
	case *ast.Ident:
		o := w.obj(x)
		v, ok := w.env[o]
		if !ok || o == nil {
			w.fail(e, "assignment through a pointer that is not a variable")
		}
		if v.alias != nil {
			return w.pathOf(v.alias)
		}
		if v.ty.k != wkStruct {
			w.fail(e, "assignment to a field of something that is not a pointer parameter or a local &T{}")
		}
		return v, o, nil
	case *ast.SelectorExpr:
		v, o, fs := w.pathOf(x.X)
		return v, o, append(append([]string{}, fs...), x.Sel.Name)
	}
	w.fail(e, "assignment through a pointer that is not a variable")
	return wvar{}, nil, nil
}

// checkAliasPrefix: an assignment to the place `root.fs…` (or a call that updates root, fs = nil)
// must not change a pointer on the path of a live alias
func (w *wtr) checkAliasPrefix(at ast.Node, root types.Object, fs []string) {
	bad := false
	for _, v := range w.env {
		if v.alias == nil {
			continue
		}
		_, ro, afs := w.pathOf(v.alias)
		if ro != root || len(fs) > len(afs) {
			continue
		}
		pre := true
		for i := range fs {
			if fs[i] != afs[i] {
				pre = false
			}
		}
		if pre {
			bad = true
		}
	}
	if bad {
		w.fail(at, "assignment to a pointer on the path of a live alias")
	}
}

func wArg(s string) string {
	if strings.ContainsAny(s, " ") && !(strings.HasPrefix(s, "(") && balancedParen(s)) {
		return "(" + s + ")"
	}
	return s
}

// balancedParen: does the opening parenthesis at position 0 close at the end?
func balancedParen(s string) bool {
	d := 0
	for i, r := range s {
		switch r {
		case '(':
			d++
		case ')':
			d--
			if d == 0 && i != len(s)-1 {
				return false
			}
		}
	}
	return d == 0
}

// ---- statements ----

func isPanicCall(info *types.Info, s ast.Stmt) bool {
	es, ok := s.(*ast.ExprStmt)
	if !ok {
		return false
	}
	c, ok := es.X.(*ast.CallExpr)
	if !ok {
		return false
	}
	id, ok := c.Fun.(*ast.Ident)
	return ok && id.Name == "panic" && (info.Uses[id] == nil || info.Uses[id] == types.Universe.Lookup("panic"))
}

// exits: does the node contain a return, a panic(…), a break or a continue (of an enclosing loop)?
func (w *wtr) exits(n ast.Node) bool {
	found := false
	ast.Inspect(n, func(x ast.Node) bool {
		switch s := x.(type) {
		case *ast.ReturnStmt:
			found = true
		case *ast.BranchStmt:
			found = true
		case *ast.ForStmt, *ast.RangeStmt:
			// break / continue inside belong to that loop; a return still exits
			ast.Inspect(s, func(y ast.Node) bool {
				if _, ok := y.(*ast.ReturnStmt); ok {
					found = true
				}
				if st, ok := y.(ast.Stmt); ok && isPanicCall(w.c.info, st) {
					found = true
				}
				return !found
			})
			return false
		case ast.Stmt:
			if isPanicCall(w.c.info, s) {
				found = true
			}
		}
		return !found
	})
	return found
}

// assigned: the variables of the current environment that the statements assign (sorted by name)
func (w *wtr) assigned(stmts []ast.Stmt) []wvar {
	set := map[string]wvar{}
	var mark func(e ast.Expr)
	mark = func(e ast.Expr) {
		for {
			switch x := e.(type) {
			case *ast.ParenExpr:
				e = x.X
				continue
			case *ast.SelectorExpr:
				e = x.X
				continue
			case *ast.IndexExpr:
				e = x.X
				continue
			case *ast.StarExpr:
				e = x.X
				continue
			}
			break
		}
		if id, ok := e.(*ast.Ident); ok {
			if a, ok := w.aliasDefs[w.obj(id)]; ok && w.obj(id) != nil {
				// a write through an alias updates the variable at the root of its path
				for {
					switch y := a.(type) {
					case *ast.ParenExpr:
						a = y.X
						continue
					case *ast.SelectorExpr:
						a = y.X
						continue
					}
					break
				}
				if rid, ok := a.(*ast.Ident); ok && rid != id {
					mark(rid)
				}
				return
			}
			if v, ok := w.env[w.obj(id)]; ok && w.obj(id) != nil {
				set[v.name] = v
			}
		}
	}
	for _, s := range stmts {
		ast.Inspect(s, func(x ast.Node) bool {
			switch a := x.(type) {
			case *ast.AssignStmt:
				for _, l := range a.Lhs {
					mark(l)
				}
			case *ast.IncDecStmt:
				mark(a.X)
			case *ast.CallExpr:
				if f, ok := a.Fun.(*ast.Ident); ok && f.Name == "copy" && len(a.Args) == 2 {
					if id, ok := a.Args[0].(*ast.Ident); ok {
						if p, ok := w.viewDefs[w.obj(id)]; ok && w.obj(id) != nil {
							mark(p)
						}
					}
				}
				if f := w.calleeOf(a); f != nil {
					args := a.Args
					if _, isSel := a.Fun.(*ast.SelectorExpr); isSel {
						args = append([]ast.Expr{a.Fun.(*ast.SelectorExpr).X}, a.Args...)
					}
					for _, m := range f.mut {
						if m < len(args) {
							mark(args[m])
						}
					}
				}
			}
			return true
		})
	}
	var names []string
	for n := range set {
		names = append(names, n)
	}
	sort.Strings(names)
	var out []wvar
	for _, n := range names {
		out = append(out, set[n])
	}
	return out
}

// calleeOf: the signature of the package function / method a call expression calls (translating it
// if necessary), nil for anything else
func (w *wtr) calleeOf(x *ast.CallExpr) *wfunc {
	switch f := x.Fun.(type) {
	case *ast.Ident:
		if f.Name == "newBM" {
			return nil // by specification (callNewBM); it updates none of its arguments
		}
		if _, ok := w.obj(f).(*types.Func); ok {
			return w.c.need("", f.Name)
		}
	case *ast.SelectorExpr:
		if fo, ok := w.c.info.Uses[f.Sel].(*types.Func); ok {
			if sig, ok := fo.Type().(*types.Signature); ok && sig.Recv() != nil {
				rt := sig.Recv().Type()
				if p, ok := rt.(*types.Pointer); ok {
					rt = p.Elem()
				}
				if n, ok := rt.(*types.Named); ok {
					return w.c.need(n.Obj().Name(), f.Sel.Name)
				}
			}
		}
	}
	return nil
}

func indent(lines []string, ind string) []string {
	out := make([]string, len(lines))
	for i, l := range lines {
		out[i] = ind + l
	}
	return out
}

// retLine: `pure (…)` of the updated parameters followed by the results
func (w *wtr) retLine(vals []string) string {
	var all []string
	for _, m := range w.f.mut {
		all = append(all, w.env[w.f.params[m].obj].name)
	}
	all = append(all, vals...)
	if len(all) == 0 {
		fail(w.f.key + ": a function without results or effects")
	}
	if w.inLoop {
		return "pure (Sum.inl " + tuple(all) + ")"
	}
	return "pure " + tuple(all)
}

// block translates a statement list into do-block lines (relative indentation).  `k` yields the
// lines for falling off the end of the list.
func (w *wtr) block(stmts []ast.Stmt, k func() []string) []string {
	if len(stmts) == 0 {
		return k()
	}
	s, rest := stmts[0], stmts[1:]
	next := func() []string { return w.block(rest, k) }
	flush := func(lines ...string) []string { return append(w.takePre(), lines...) }
	switch x := s.(type) {
	case *ast.EmptyStmt:
		return next()
	case *ast.BlockStmt:
		se, sl := w.saveEnv()
		return w.block(x.List, func() []string {
			w.env, w.live = se, sl
			return next()
		})
	case *ast.ReturnStmt:
		if len(x.Results) == 1 && len(w.f.results) > 1 {
			// return f(…) of a call with several results
			c, ok := x.Results[0].(*ast.CallExpr)
			if !ok {
				w.fail(s, "return")
			}
			rs, tys := w.call(c)
			if len(rs) != len(w.f.results) {
				w.fail(s, "number of results")
			}
			for i := range tys {
				if tys[i] != w.f.results[i] {
					w.fail(s, "result type")
				}
			}
			return flush(w.retLine(rs))
		}
		if len(x.Results) != len(w.f.results) {
			w.fail(s, "number of results (named results are not supported)")
		}
		var vals []string
		for i, r := range x.Results {
			if isNil(r) && w.f.results[i].k == wkList {
				vals = append(vals, "[]") // a nil slice has no elements
				continue
			}
			v, ty := w.expr(r, &w.f.results[i])
			if ty != w.f.results[i] {
				w.fail(r, fmt.Sprintf("result of type %v, %v expected", ty, w.f.results[i]))
			}
			vals = append(vals, v)
		}
		return flush(w.retLine(vals))
	case *ast.BranchStmt:
		if x.Label != nil {
			w.fail(s, "label")
		}
		switch x.Tok {
		case token.BREAK:
			if w.brk == nil {
				w.fail(s, "break outside a translated loop")
			}
			return w.brk("")
		case token.CONTINUE:
			if w.cont == nil {
				w.fail(s, "continue outside a translated loop")
			}
			return w.cont("")
		}
		w.fail(s, "branch statement")
	case *ast.ExprStmt:
		if isPanicCall(w.c.info, s) {
			return flush("Go.panic")
		}
		c, ok := x.X.(*ast.CallExpr)
		if !ok {
			w.fail(s, "expression statement")
		}
		if strings.HasPrefix(src(c.Fun), "must.Be.") {
			return next() // a debug assertion (build tag `debug`): no effect
		}
		if id, ok := c.Fun.(*ast.Ident); ok && id.Name == "copy" && w.obj(id) == types.Universe.Lookup("copy") {
			return append(w.copyStmt(c), next()...)
		}
		w.call(c) // results are dropped; updated parameters are rebound
		return append(w.takePre(), next()...)
	case *ast.DeclStmt:
		gd, ok := x.Decl.(*ast.GenDecl)
		if !ok || gd.Tok != token.VAR {
			w.fail(s, "declaration")
		}
		var lines []string
		for _, sp := range gd.Specs {
			vs := sp.(*ast.ValueSpec)
			if len(vs.Values) != 0 && len(vs.Values) != len(vs.Names) {
				w.fail(s, "declaration")
			}
			for i, nm := range vs.Names {
				var ty wty
				var val string
				if vs.Type != nil {
					t, ok := w.c.typeOf(w.c.info.Types[vs.Type].Type)
					if !ok {
						w.fail(s, "local of an unsupported type")
					}
					ty, val = t, w.c.zero(t)
				}
				if len(vs.Values) > 0 {
					var vty wty
					if vs.Type != nil {
						val, vty = w.expr(vs.Values[i], &ty)
						if vty != ty {
							w.fail(s, "initial value of another type")
						}
					} else {
						val, ty = w.expr(vs.Values[i], nil)
					}
				} else if vs.Type == nil {
					w.fail(s, "declaration")
				}
				lines = append(lines, w.takePre()...)
				if nm.Name == "_" {
					continue
				}
				lines = append(lines, fmt.Sprintf("let %s : %s := %s", w.declare(nm, ty), ty.lean(), val))
			}
		}
		return append(lines, next()...)
	case *ast.IncDecStmt:
		one := &ast.BasicLit{Kind: token.INT, Value: "1"}
		w.c.info.Types[one] = types.TypeAndValue{Type: types.Typ[types.UntypedInt], Value: constant.MakeInt64(1)}
		op := token.ADD
		if x.Tok == token.DEC {
			op = token.SUB
		}
		lines := w.assign1(s, x.X, &ast.BinaryExpr{X: x.X, Op: op, Y: one})
		return append(lines, next()...)
	case *ast.AssignStmt:
		lines := w.assignStmt(x)
		return append(lines, next()...)
	case *ast.IfStmt:
		if x.Init != nil {
			w.fail(s, "if with an init statement")
		}
		c, cty := w.expr(x.Cond, nil)
		if cty.k != wkBool {
			w.fail(s, "condition")
		}
		lines := w.takePre()
		var els []ast.Stmt
		if x.Else != nil {
			els = []ast.Stmt{x.Else}
		}
		se, sl := w.saveEnv()
		restore := func() { w.env, w.live = w.copyEnv(se, sl) }
		if w.exits(x) {
			// a branch may leave: the rest of the list continues both branches
			kk := func() []string {
				restore()
				return next()
			}
			thn := w.block(x.Body.List, kk)
			restore()
			el := w.block(els, kk)
			restore()
			lines = append(lines, "if "+c+" then")
			lines = append(lines, indent(thn, "  ")...)
			lines = append(lines, "else")
			lines = append(lines, indent(el, "  ")...)
			return lines
		}
		vars := w.assigned(append(append([]ast.Stmt{}, x.Body.List...), els...))
		if len(vars) == 0 {
			// no visible effect except possible panics of the branches
			vars = nil
		}
		var names []string
		for _, v := range vars {
			names = append(names, v.name)
		}
		fin := func() []string {
			if len(names) == 0 {
				return []string{"pure ()"}
			}
			return []string{"pure " + tuple(names)}
		}
		thn := w.block(x.Body.List, fin)
		restore()
		el := w.block(els, fin)
		restore()
		pat := "()"
		if len(names) > 0 {
			pat = tuple(names)
		}
		lines = append(lines, fmt.Sprintf("let %s ← (do", pat))
		lines = append(lines, "  if "+c+" then")
		lines = append(lines, indent(thn, "    ")...)
		lines = append(lines, "  else")
		lines = append(lines, indent(el, "    ")...)
		lines[len(lines)-1] += ")"
		return append(lines, next()...)
	case *ast.ForStmt:
		return w.forLoop(x, next)
	}
	w.fail(s, "unsupported statement")
	return nil
}

func (w *wtr) copyEnv(e map[types.Object]wvar, l map[string]types.Object) (map[types.Object]wvar, map[string]types.Object) {
	e2 := map[types.Object]wvar{}
	for k, v := range e {
		e2[k] = v
	}
	l2 := map[string]types.Object{}
	for k, v := range l {
		l2[k] = v
	}
	return e2, l2
}

// place: an assignable place — a variable, or a field of a struct variable
type wplace struct {
	blank bool
	v     wvar
	obj   types.Object
	field string // "" for the variable itself
	star  bool   // *v = … on a pointer to a slice
	ty    wty
	def   *ast.Ident // a new variable declared by `:=`
	path  []string   // v.f1.….fk through pointer fields (k > 1)
	index ast.Expr   // v[index] on a local slice made by make
}

func (w *wtr) place(l ast.Expr, define bool) wplace {
	switch x := l.(type) {
	case *ast.ParenExpr:
		return w.place(x.X, define)
	case *ast.Ident:
		if x.Name == "_" {
			return wplace{blank: true}
		}
		if define && w.c.info.Defs[x] != nil {
			return wplace{def: x}
		}
		o := w.obj(x)
		v, ok := w.env[o]
		if !ok || o == nil {
			w.fail(l, "assignment to something that is not a local or a parameter")
		}
		if v.ty.k == wkStruct {
			w.fail(l, "assignment to a whole struct variable")
		}
		return wplace{v: v, obj: o, ty: v.ty}
	case *ast.StarExpr:
		id, ok := x.X.(*ast.Ident)
		if !ok {
			w.fail(l, "assignment through a pointer that is not a variable")
		}
		o := w.obj(id)
		v, ok := w.env[o]
		if !ok || o == nil || v.ty.k != wkPtrL {
			w.fail(l, "assignment through something that is not a pointer to a slice")
		}
		return wplace{v: v, obj: o, star: true, ty: wty{k: wkList, it: v.ty.it}}
	case *ast.SelectorExpr:
		v, o, fs := w.pathOf(x)
		w.checkAliasPrefix(l, o, fs)
		cur := v.ty
		var fty wty
		for i, fn := range fs {
			if cur.k != wkStruct && cur.k != wkPtr {
				w.fail(l, "selection on something that is not a struct")
			}
			f, ok := w.c.structs[cur.name].field(fn)
			if !ok {
				w.fail(l, "field that is not represented")
			}
			if i < len(fs)-1 && f.ty.k != wkPtr {
				w.fail(l, "assignment through a field that is not a pointer to a struct")
			}
			cur, fty = f.ty, f.ty
		}
		if len(fs) == 1 {
			return wplace{v: v, obj: o, field: fs[0], ty: fty}
		}
		return wplace{v: v, obj: o, path: fs, ty: fty}
	case *ast.IndexExpr:
		id, ok := x.X.(*ast.Ident)
		if !ok {
			w.fail(l, "element assignment to something that is not a local slice")
		}
		o := w.obj(id)
		v, ok := w.env[o]
		if !ok || o == nil || v.ty.k != wkList || !w.made[o] {
			w.fail(l, "element assignment to a slice that is not a local made by make (aliasing)")
		}
		return wplace{v: v, obj: o, index: x.Index, ty: wty{k: wkInt, it: v.ty.it}}
	}
	w.fail(l, "assignment to an unsupported place")
	return wplace{}
}

// store: the lines that put `val` into the place
func (w *wtr) store(p wplace, val string, ty wty, at ast.Node) []string {
	switch {
	case p.blank:
		return nil
	case p.def != nil:
		if ty.k == wkStruct {
			// a struct value held in a variable: a copy (Go: a fresh &T{} or a parameter)
		}
		return []string{fmt.Sprintf("let %s : %s := %s", w.declare(p.def, ty), ty.lean(), val)}
	}
	if p.ty.k == wkPtr && ty.k == wkStruct && p.ty.name == ty.name {
		val, ty = "(some "+val+")", p.ty // p = &T{…}: a non-nil pointer
	}
	if ty != p.ty {
		w.fail(at, fmt.Sprintf("assignment of a value of type %v to a place of type %v", ty, p.ty))
	}
	if p.field != "" {
		return []string{fmt.Sprintf("let %s := { %s with %s := %s }", p.v.name, p.v.name, leanName(p.field), val)}
	}
	if len(p.path) > 1 {
		// v.f1.….fk = val: dereference the pointers on the way, rebuild the records from the inside
		names := []string{p.v.name}
		var lines []string
		for _, fn := range p.path[:len(p.path)-1] {
			t := w.fresh()
			lines = append(lines, fmt.Sprintf("let %s ← Go.deref %s.%s", t, names[len(names)-1], leanName(fn)))
			names = append(names, t)
		}
		inner := fmt.Sprintf("{ %s with %s := %s }", names[len(names)-1], leanName(p.path[len(p.path)-1]), val)
		for i := len(p.path) - 2; i >= 0; i-- {
			inner = fmt.Sprintf("{ %s with %s := some %s }", names[i], leanName(p.path[i]), inner)
		}
		return append(lines, fmt.Sprintf("let %s := %s", p.v.name, inner))
	}
	if p.index != nil {
		i, ity := w.expr(p.index, &wI64)
		if ity.k != wkInt {
			w.fail(at, "index")
		}
		lines := w.takePre()
		if ity.it.signed {
			return append(lines, fmt.Sprintf("let %s ← Go.setS %d %s %s %s", p.v.name, ity.it.w, p.v.name, wArg(i), wArg(val)))
		}
		return append(lines, fmt.Sprintf("let %s ← Go.setU %s %s %s", p.v.name, p.v.name, wArg(i), wArg(val)))
	}
	if p.star {
		// (a nil pointer panics; the slice it points to is replaced)
		return []string{fmt.Sprintf("let _ ← Go.deref %s", p.v.name), fmt.Sprintf("let %s := some %s", p.v.name, wArg(val))}
	}
	return []string{fmt.Sprintf("let %s := %s", p.v.name, val)}
}

func (w *wtr) assign1(at ast.Stmt, lhs ast.Expr, rhs ast.Expr) []string {
	p := w.place(lhs, false)
	val, ty := w.expr(rhs, &p.ty)
	lines := w.takePre()
	return append(lines, w.store(p, val, ty, at)...)
}

func (w *wtr) assignStmt(x *ast.AssignStmt) []string {
	define := x.Tok == token.DEFINE
	if op, ok := assignOps[x.Tok]; ok {
		if len(x.Lhs) != 1 || len(x.Rhs) != 1 {
			w.fail(x, "assignment operator")
		}
		return w.assign1(x, x.Lhs[0], &ast.BinaryExpr{X: x.Lhs[0], Op: op, Y: x.Rhs[0]})
	}
	if x.Tok != token.ASSIGN && !define {
		w.fail(x, "assignment")
	}
	// a, b = f(…)
	if len(x.Lhs) > 1 && len(x.Rhs) == 1 {
		c, ok := x.Rhs[0].(*ast.CallExpr)
		if !ok {
			w.fail(x, "multiple assignment from something that is not a call")
		}
		rs, tys := w.call(c)
		if len(rs) != len(x.Lhs) {
			w.fail(x, "number of results")
		}
		lines := w.takePre()
		for i, l := range x.Lhs {
			p := w.place(l, define)
			lines = append(lines, w.store(p, rs[i], tys[i], x)...)
		}
		return lines
	}
	if len(x.Lhs) != len(x.Rhs) {
		w.fail(x, "assignment")
	}
	if len(x.Lhs) == 1 {
		p := w.place(x.Lhs[0], define)
		if p.def != nil {
			o := w.c.info.Defs[p.def]
			if isBinaryLE(w.c.info, x.Rhs[0]) && o != nil && w.c.isLEVar(o) {
				return nil // endian := binary.LittleEndian: its methods are translated by specification
			}
			if a, ok := w.aliasDefs[o]; ok && o != nil && a == x.Rhs[0] {
				// x := p.f.g, and the function writes through x: x stands for the path.  The pointers
				// on the path are dereferenced here (as Go does); they are not assigned while x lives.
				_, ty := w.expr(x.Rhs[0], nil)
				if ty.k != wkPtr {
					w.fail(x, "alias of something that is not a pointer to a struct")
				}
				w.pathOf(x.Rhs[0])
				lines := w.takePre()
				w.declare(p.def, ty)
				v := w.env[o]
				v.alias = x.Rhs[0]
				w.env[o] = v
				return lines
			}
			if base, ok := w.viewDefs[o]; ok && o != nil {
				se, ok := x.Rhs[0].(*ast.SliceExpr)
				if !ok || se.X != base || se.Low == nil || se.High == nil || se.Slice3 {
					w.fail(x, "slice view")
				}
				w.pathOf(base) // the base is a place rooted at a struct variable
				a, aty := w.expr(se.X, nil)
				lo, lty := w.expr(se.Low, &wI64)
				hi, hty := w.expr(se.High, &wI64)
				if aty.k != wkList || lty != hty || lty.k != wkInt || !lty.it.signed {
					w.fail(x, "slice view")
				}
				lines := w.takePre()
				tl, th, tv := w.fresh(), w.fresh(), w.fresh()
				lines = append(lines, fmt.Sprintf("let %s : Nat := %s", tl, lo), fmt.Sprintf("let %s : Nat := %s", th, hi),
					fmt.Sprintf("let %s ← Go.sliceS %d %s %s %s", tv, lty.it.w, wArg(a), tl, th))
				lines = append(lines, fmt.Sprintf("let %s : %s := %s", w.declare(p.def, aty), aty.lean(), tv))
				v := w.env[o]
				v.view = &wview{base: base, lo: tl, hi: th}
				w.env[o] = v
				return lines
			}
			if c, ok := x.Rhs[0].(*ast.CallExpr); ok && w.madeOK[o] {
				if id, ok := c.Fun.(*ast.Ident); ok && id.Name == "make" {
					w.made[o] = true
				}
			}
		}
		var want *wty
		if p.def == nil && !p.blank {
			want = &p.ty
		}
		val, ty := w.expr(x.Rhs[0], want)
		// a local that is a copy of a pointer PARAMETER or of a local struct would alias it
		if ty.k == wkStruct {
			if _, isLit := stripAddr(x.Rhs[0]).(*ast.CompositeLit); !isLit {
				w.fail(x, "a second name for a struct value (aliasing)")
			}
		}
		lines := w.takePre()
		return append(lines, w.store(p, val, ty, x)...)
	}
	// a, b = e1, e2: all right-hand sides first
	var vals []string
	var tys []wty
	var places []wplace
	for _, l := range x.Lhs {
		places = append(places, w.place(l, define))
	}
	for i, r := range x.Rhs {
		var want *wty
		if places[i].def == nil && !places[i].blank {
			want = &places[i].ty
		}
		v, ty := w.expr(r, want)
		if ty.k == wkStruct {
			w.fail(x, "struct value in a parallel assignment")
		}
		vals, tys = append(vals, v), append(tys, ty)
	}
	lines := w.takePre()
	var tmps []string
	for range vals {
		tmps = append(tmps, w.fresh())
	}
	lines = append(lines, fmt.Sprintf("let %s := %s", tuple(tmps), tuple(vals)))
	for i, p := range places {
		lines = append(lines, w.store(p, tmps[i], tys[i], x)...)
	}
	return lines
}

func stripAddr(e ast.Expr) ast.Expr {
	for {
		switch x := e.(type) {
		case *ast.ParenExpr:
			e = x.X
			continue
		case *ast.UnaryExpr:
			if x.Op == token.AND {
				e = x.X
				continue
			}
		}
		return e
	}
}

// forLoop: `for { body }` (no init / condition / post), left by break or return.  The loop becomes
// the auxiliary definition `<f>_loop<k> fuel state`, structurally recursive on the fuel; `none` when
// the fuel runs out.  The state is the tuple of outer variables the body assigns.
func (w *wtr) forLoop(x *ast.ForStmt, next func() []string) []string {
	if x.Init != nil {
		// for init; cond; post { … }: the init statement, then the loop; its variables end with the loop
		y := *x
		y.Init = nil
		se, sl := w.saveEnv()
		return w.block([]ast.Stmt{x.Init, &y}, func() []string {
			w.env, w.live = se, sl
			return next()
		})
	}
	if !w.fuel {
		w.fail(x, "loop in a function that was not given fuel")
	}
	if w.brk != nil {
		w.fail(x, "nested loop")
	}
	stateStmts := x.Body.List
	if x.Post != nil {
		stateStmts = append(append([]ast.Stmt{}, x.Body.List...), x.Post)
	}
	vars := w.assigned(stateStmts)
	var names, tys []string
	for _, v := range vars {
		names = append(names, v.name)
		tys = append(tys, v.ty.leanArg())
	}
	if len(names) == 0 {
		w.fail(x, "loop without state")
	}
	w.loops++
	aux := fmt.Sprintf("%s_loop%d", w.f.lean, w.loops)
	// what comes after the loop is translated once, as the continuation of `break`: the loop
	// definition returns the state at the break (or the function's result, for a return inside)
	// Result of the loop definition: Sum (function result) (state at break)
	se, sl := w.saveEnv()
	// every variable of the environment that the body reads but does not assign is a parameter
	var ps []wvar
	seen := map[string]bool{}
	for _, n := range names {
		seen[n] = true
	}
	var noteIdent func(n ast.Node) bool
	noteIdent = func(n ast.Node) bool {
		if id, ok := n.(*ast.Ident); ok {
			if v, ok := w.env[w.obj(id)]; ok && w.obj(id) != nil && !seen[v.name] {
				if v.alias != nil {
					ast.Inspect(v.alias, noteIdent) // the variables of the path it stands for
					return true
				}
				seen[v.name] = true
				ps = append(ps, v)
			}
		}
		return true
	}
	ast.Inspect(x, noteIdent) // (body, condition and post statement; the init statement was split off)
	sort.Slice(ps, func(i, j int) bool { return ps[i].name < ps[j].name })
	var sig, args []string
	for _, p := range ps {
		sig = append(sig, fmt.Sprintf("(%s : %s)", p.name, p.ty.lean()))
		args = append(args, p.name)
	}
	stTy := strings.Join(tys, " × ")
	resTy := w.resultType()
	state := tuple(names)
	w.brk = func(string) []string { return []string{"pure (Sum.inr " + state + ")"} }
	again := func() []string {
		return []string{fmt.Sprintf("%s fuel %s", strings.Join(append([]string{aux}, args...), " "), state)}
	}
	w.cont = func(string) []string { return again() }
	if x.Post != nil {
		// `continue` and the end of the body run the post statement first
		w.cont = func(string) []string { return w.block([]ast.Stmt{x.Post}, again) }
	}
	w.inLoop = true
	var body []string
	if x.Cond != nil {
		c, cty := w.expr(x.Cond, nil)
		if cty.k != wkBool {
			w.fail(x, "condition")
		}
		body = w.takePre()
		ce, cl := w.saveEnv()
		inner := w.block(x.Body.List, func() []string { return w.cont("") })
		w.env, w.live = ce, cl
		body = append(body, "if "+c+" then")
		body = append(body, indent(inner, "  ")...)
		body = append(body, "else")
		body = append(body, indent(w.brk(""), "  ")...)
	} else {
		body = w.block(x.Body.List, func() []string { return w.cont("") })
	}
	w.inLoop = false
	w.brk, w.cont = nil, nil
	w.env, w.live = se, sl
	var b strings.Builder
	fmt.Fprintf(&b, "def %s %s : Nat → %s → Option (Sum (%s) (%s))\n", aux, strings.Join(sig, " "), stTy, resTy, stTy)
	fmt.Fprintf(&b, "  | 0, _ => none\n  | fuel + 1, %s => do\n", state)
	for _, l := range body {
		b.WriteString("    " + l + "\n")
	}
	w.aux = append(w.aux, b.String())
	t := w.fresh()
	lines := []string{fmt.Sprintf("let %s ← %s fuel %s", t, strings.Join(append([]string{aux}, args...), " "), state)}
	lines = append(lines, fmt.Sprintf("match %s with", t))
	lines = append(lines, fmt.Sprintf("| Sum.inl r_ => pure r_"))
	lines = append(lines, fmt.Sprintf("| Sum.inr %s =>", state))
	lines = append(lines, indent(next(), "  ")...)
	return lines
}

func (w *wtr) resultType() string {
	var all []string
	for _, m := range w.f.mut {
		all = append(all, w.f.params[m].ty.leanArg())
	}
	for _, r := range w.f.results {
		all = append(all, r.leanArg())
	}
	return strings.Join(all, " × ")
}

// usesLoop: does the function (or a function of the package it calls) contain a `for` statement?
func (c *wctx) usesLoop(fd *ast.FuncDecl, seen map[*ast.FuncDecl]bool) bool {
	if seen[fd] {
		return false
	}
	seen[fd] = true
	found := false
	ast.Inspect(fd.Body, func(n ast.Node) bool {
		switch x := n.(type) {
		case *ast.ForStmt, *ast.RangeStmt:
			found = true
		case *ast.CallExpr:
			switch f := x.Fun.(type) {
			case *ast.Ident:
				if _, ok := c.info.Uses[f].(*types.Func); ok {
					if d := c.findFunc("", f.Name); d != nil && c.usesLoop(d, seen) {
						found = true
					}
				}
			case *ast.SelectorExpr:
				if fo, ok := c.info.Uses[f.Sel].(*types.Func); ok {
					if sig, ok := fo.Type().(*types.Signature); ok && sig.Recv() != nil {
						rt := sig.Recv().Type()
						if p, ok := rt.(*types.Pointer); ok {
							rt = p.Elem()
						}
						if n, ok := rt.(*types.Named); ok {
							if d := c.findFunc(n.Obj().Name(), f.Sel.Name); d != nil && c.usesLoop(d, seen) {
								found = true
							}
						}
					}
				}
			}
		}
		return !found
	})
	return found
}

// aliasDefsOf: the locals `x := p.f.g` of type pointer-to-struct through which the function assigns
// (`x.h = …`), with their defining path.  Such a local is defined once, never assigned again and its
// address is not taken; every use of it is translated as the path it stands for.
func aliasDefsOf(info *types.Info, fd *ast.FuncDecl, views map[types.Object]ast.Expr) map[types.Object]ast.Expr {
	written := map[types.Object]bool{}
	base := func(e ast.Expr) types.Object {
		for {
			if p, ok := e.(*ast.ParenExpr); ok {
				e = p.X
				continue
			}
			break
		}
		sel, ok := e.(*ast.SelectorExpr)
		if !ok {
			return nil
		}
		id, ok := sel.X.(*ast.Ident)
		if !ok {
			return nil
		}
		v, ok := info.Uses[id].(*types.Var)
		if !ok || v.IsField() {
			return nil
		}
		if p, ok := v.Type().Underlying().(*types.Pointer); ok {
			if _, ok := p.Elem().Underlying().(*types.Struct); ok {
				return v
			}
		}
		return nil
	}
	ast.Inspect(fd.Body, func(n ast.Node) bool {
		switch a := n.(type) {
		case *ast.AssignStmt:
			for _, l := range a.Lhs {
				if o := base(l); o != nil {
					written[o] = true
				}
			}
		case *ast.IncDecStmt:
			if o := base(a.X); o != nil {
				written[o] = true
			}
		}
		return true
	})
	for _, p := range views {
		// copy(x, …) with x a view of p.f: a write through p
		if o := base(p); o != nil {
			written[o] = true
		}
	}
	defs := map[types.Object]ast.Expr{}
	bad := map[types.Object]bool{}
	ast.Inspect(fd.Body, func(n ast.Node) bool {
		switch a := n.(type) {
		case *ast.AssignStmt:
			for i, l := range a.Lhs {
				id, ok := l.(*ast.Ident)
				if !ok {
					continue
				}
				if o := info.Defs[id]; o != nil && written[o] && a.Tok == token.DEFINE && len(a.Lhs) == 1 && len(a.Rhs) == 1 {
					if _, isSel := a.Rhs[i].(*ast.SelectorExpr); isSel {
						if _, dup := defs[o]; dup {
							bad[o] = true
						}
						defs[o] = a.Rhs[i]
						continue
					}
				}
				if o := info.Uses[id]; o != nil && written[o] {
					bad[o] = true // assigned again
				}
			}
		case *ast.UnaryExpr:
			if id, ok := a.X.(*ast.Ident); ok && a.Op == token.AND {
				if o := info.Uses[id]; o != nil {
					bad[o] = true
				}
			}
		}
		return true
	})
	for o := range bad {
		delete(defs, o)
	}
	return defs
}

// madeLocalsOf: the locals `x := make(…)` that occur only as x[i], len(x) or as an argument of a call
// (no second name for the slice: element assignment cannot be seen through another variable)
func madeLocalsOf(info *types.Info, fd *ast.FuncDecl) map[types.Object]bool {
	okm := map[types.Object]bool{}
	bad := map[types.Object]bool{}
	var stack []ast.Node
	ast.Inspect(fd.Body, func(n ast.Node) bool {
		if n == nil {
			stack = stack[:len(stack)-1]
			return true
		}
		if id, ok := n.(*ast.Ident); ok {
			var parent ast.Node
			if len(stack) > 0 {
				parent = stack[len(stack)-1]
			}
			if o := info.Defs[id]; o != nil {
				if as, ok := parent.(*ast.AssignStmt); ok && as.Tok == token.DEFINE && len(as.Lhs) == 1 && len(as.Rhs) == 1 {
					if c, ok := as.Rhs[0].(*ast.CallExpr); ok {
						if f, ok := c.Fun.(*ast.Ident); ok && f.Name == "make" {
							okm[o] = true
						}
					}
				}
			} else if o := info.Uses[id]; o != nil {
				switch p := parent.(type) {
				case *ast.IndexExpr:
					if p.X != ast.Expr(id) {
						bad[o] = true
					}
				case *ast.CallExpr:
					isArg := false
					for _, a := range p.Args {
						if a == ast.Expr(id) {
							isArg = true
						}
					}
					if !isArg {
						bad[o] = true
					}
				default:
					bad[o] = true
				}
			}
		}
		stack = append(stack, n)
		return true
	})
	for o := range bad {
		delete(okm, o)
	}
	return okm
}

// translate: one function or method
func (c *wctx) translate(key string, fd *ast.FuncDecl) (*wfunc, string) {
	f := &wfunc{key: key, lean: key}
	w := &wtr{c: c, f: f, fd: fd, env: map[types.Object]wvar{}, live: map[string]types.Object{},
		made: map[types.Object]bool{}}
	w.viewDefs = viewDefsOf(c.info, fd)
	w.aliasDefs = aliasDefsOf(c.info, fd, w.viewDefs)
	w.madeOK = madeLocalsOf(c.info, fd)
	ast.Inspect(fd.Body, func(n ast.Node) bool {
		switch n.(type) {
		case *ast.FuncLit, *ast.GoStmt, *ast.DeferStmt, *ast.SwitchStmt, *ast.TypeSwitchStmt, *ast.SelectStmt, *ast.LabeledStmt, *ast.RangeStmt, *ast.SendStmt:
			w.fail(n, "unsupported construct")
		}
		return true
	})
	var fields []*ast.Field
	if fd.Recv != nil {
		fields = append(fields, fd.Recv.List...)
	}
	fields = append(fields, fd.Type.Params.List...)
	for _, fl := range fields {
		if len(fl.Names) == 0 {
			w.fail(fl, "unnamed parameter")
		}
		for _, nm := range fl.Names {
			o := c.info.Defs[nm]
			if o == nil {
				w.fail(nm, "parameter")
			}
			ty, ok := c.typeOf(o.Type())
			if !ok {
				w.fail(nm, "parameter of an unsupported type")
			}
			ptr := false
			if ty.k == wkPtr {
				ty, ptr = wty{k: wkStruct, name: ty.name}, true // non-nil: see the header comment
			}
			n := leanName(nm.Name)
			if nm.Name == "_" {
				w.fail(nm, "blank parameter")
			}
			f.params = append(f.params, wparam{name: n, obj: o, ty: ty, ptr: ptr})
			w.env[o] = wvar{name: n, ty: ty}
			w.live[n] = o
		}
	}
	if fd.Type.Results != nil {
		for _, fl := range fd.Type.Results.List {
			if len(fl.Names) > 0 {
				w.fail(fl, "named result")
			}
			ty, ok := c.typeOf(c.info.Types[fl.Type].Type)
			if !ok || ty.k == wkStruct || ty.k == wkPtr {
				w.fail(fl, "result of an unsupported type")
			}
			f.results = append(f.results, ty)
		}
	}
	f.fuel = c.usesLoop(fd, map[*ast.FuncDecl]bool{})
	w.fuel = f.fuel
	// the receiver is dereferenced by the first statement (needed by callers that hold a nil-able pointer)
	if fd.Recv != nil && len(fd.Body.List) > 0 {
		ro := f.params[0].obj
		var first ast.Node
		switch s := fd.Body.List[0].(type) {
		case *ast.IfStmt:
			if s.Init == nil {
				first = s.Cond
			}
		case *ast.AssignStmt:
			if len(s.Rhs) == 1 {
				first = s.Rhs[0]
			}
		}
		if first != nil {
			shortCircuit := false
			ast.Inspect(first, func(n ast.Node) bool {
				if be, ok := n.(*ast.BinaryExpr); ok && (be.Op == token.LAND || be.Op == token.LOR) {
					shortCircuit = true
				}
				return true
			})
			ast.Inspect(first, func(n ast.Node) bool {
				if sel, ok := n.(*ast.SelectorExpr); ok && !shortCircuit {
					if id, ok := sel.X.(*ast.Ident); ok && c.info.Uses[id] == ro {
						if fv, ok := c.info.Uses[sel.Sel].(*types.Var); ok && fv.IsField() {
							f.derefFirst = true
						}
					}
				}
				return true
			})
		}
	}
	// which pointer parameters does the function update?
	mut := map[int]bool{}
	pidx := func(e ast.Expr) int {
		// the variable at the root of a place p.f.g (aliases expanded)
		for {
			switch y := e.(type) {
			case *ast.ParenExpr:
				e = y.X
				continue
			case *ast.SelectorExpr:
				e = y.X
				continue
			case *ast.Ident:
				if a, ok := w.aliasDefs[w.obj(y)]; ok && w.obj(y) != nil {
					e = a
					continue
				}
			}
			break
		}
		if id, ok := e.(*ast.Ident); ok {
			for i, p := range f.params {
				if p.obj == w.obj(id) && p.obj != nil {
					return i
				}
			}
		}
		return -1
	}
	ast.Inspect(fd.Body, func(n ast.Node) bool {
		switch a := n.(type) {
		case *ast.AssignStmt:
			for _, l := range a.Lhs {
				if sel, ok := l.(*ast.SelectorExpr); ok {
					if i := pidx(sel.X); i >= 0 {
						mut[i] = true
					}
				}
				if st, ok := l.(*ast.StarExpr); ok {
					if i := pidx(st.X); i >= 0 {
						mut[i] = true
					}
				}
			}
		case *ast.IncDecStmt:
			if sel, ok := a.X.(*ast.SelectorExpr); ok {
				if i := pidx(sel.X); i >= 0 {
					mut[i] = true
				}
			}
		case *ast.CallExpr:
			if f, ok := a.Fun.(*ast.Ident); ok && f.Name == "copy" && len(a.Args) == 2 {
				if id, ok := a.Args[0].(*ast.Ident); ok {
					if p, ok := w.viewDefs[w.obj(id)]; ok && w.obj(id) != nil {
						if i := pidx(p); i >= 0 {
							mut[i] = true
						}
					}
				}
			}
			if cf := w.calleeOf(a); cf != nil {
				args := a.Args
				if sel, isSel := a.Fun.(*ast.SelectorExpr); isSel {
					args = append([]ast.Expr{sel.X}, a.Args...)
				}
				for _, m := range cf.mut {
					if m < len(args) {
						if i := pidx(args[m]); i >= 0 {
							mut[i] = true
						}
					}
				}
			}
		}
		return true
	})
	for i, p := range f.params {
		if mut[i] {
			if !p.ptr && p.ty.k != wkPtrL {
				w.fail(fd.Name, "assignment to a field of a struct parameter passed by value")
			}
			f.mut = append(f.mut, i)
		}
	}
	if len(f.mut)+len(f.results) == 0 {
		w.fail(fd.Name, "a function without results or effects")
	}
	var k func() []string
	if len(f.results) == 0 {
		k = func() []string { return []string{w.retLine(nil)} }
	} else {
		k = func() []string {
			fail(key + ": control reaches the end of a function with results")
			return nil
		}
	}
	body := w.block(fd.Body.List, k)
	var sig []string
	if f.fuel {
		sig = append(sig, "(fuel : Nat)")
	}
	for _, p := range f.params {
		sig = append(sig, fmt.Sprintf("(%s : %s)", p.name, p.ty.lean()))
	}
	for _, e := range f.extra {
		sig = append(sig, fmt.Sprintf("(%s : Option Nat)", e))
	}
	rt := w.resultType()
	var b strings.Builder
	for _, a := range w.aux {
		b.WriteString(a + "\n")
	}
	where := "function " + fd.Name.Name
	if fd.Recv != nil {
		where = "method (" + src(fd.Recv.List[0].Type) + ")." + fd.Name.Name
	}
	fmt.Fprintf(&b, "/-- %s (%s) -/\n", where, filepath.Base(fset.Position(fd.Pos()).Filename))
	fmt.Fprintf(&b, "def %s %s : Option (%s) := do\n", f.lean, strings.Join(sig, " "), rt)
	for _, l := range body {
		b.WriteString("  " + l + "\n")
	}
	return f, b.String()
}

// writeWhole appends `namespace W … end W` with the whole-function translations of the targets.
func writeWhole(b *strings.Builder, info *types.Info, files []*ast.File, targets [][2]string) {
	writeWholeNS(b, info, files, targets, "W", "/-! ## whole functions: control skeleton, panics (`none`), calls; see GoSem.lean -/")
}

// writeLegacy appends `namespace WL`: whole functions of the legacy loader that work on the structures
// of package array (`*array.Array32`, `*array.U16`).  Package array is type-checked from its source and
// package trie is checked again against it (the first check of trie sees package array as empty).
func writeLegacy(b *strings.Builder, repo string) {
	var info *types.Info
	var files []*ast.File
	why := ""
	func() {
		defer func() {
			if r := recover(); r != nil {
				why = fmt.Sprint(r)
				if ge, ok := r.(groupError); ok {
					why = ge.msg
				}
			}
		}()
		arrFiles := parseDir(filepath.Join(repo, "array"))
		trieFiles := parseDir(filepath.Join(repo, "trie"))
		info = &types.Info{Types: map[ast.Expr]types.TypeAndValue{}, Defs: map[*ast.Ident]types.Object{}, Uses: map[*ast.Ident]types.Object{}, Selections: map[*ast.SelectorExpr]*types.Selection{}}
		arrConf := types.Config{Importer: fakeImporter{}, Error: func(error) {}}
		arrPkg, _ := arrConf.Check("github.com/openacid/slim/array", fset, arrFiles, info)
		if arrPkg == nil {
			fail("package array cannot be type-checked")
		}
		trieConf := types.Config{Importer: onePkgImporter{arrPkg}, Error: func(error) {}}
		trieConf.Check("trie", fset, trieFiles, info)
		files = append(trieFiles, arrFiles...)
	}()
	if why != "" {
		fmt.Fprintf(b, "-- cannot translate WL: %s\n\n", strings.ReplaceAll(why, "\n", " "))
		fmt.Fprintf(os.Stderr, "extract: funcs: cannot translate WL: %s\n", why)
		return
	}
	writeWholeNS(b, info, files, wlTargets, "WL", "/-! ## whole functions of the legacy loader on the structures of package array; see GoSem.lean -/")
}

type onePkgImporter struct{ pkg *types.Package }

func (i onePkgImporter) Import(path string) (*types.Package, error) {
	if path == i.pkg.Path() {
		return i.pkg, nil
	}
	return fakeImporter{}.Import(path)
}

func writeWholeNS(b *strings.Builder, info *types.Info, files []*ast.File, targets [][2]string, ns, header string) {
	c := newWctx(info, files)
	var notes []string
	for _, t := range targets {
		key := wkey(t[0], t[1])
		func() {
			defer func() {
				if r := recover(); r != nil {
					msg := fmt.Sprint(r)
					if ge, ok := r.(groupError); ok {
						msg = ge.msg
					}
					msg = strings.ReplaceAll(msg, "\n", " ")
					notes = append(notes, fmt.Sprintf("-- cannot translate %s.%s: %s", ns, key, msg))
					fmt.Fprintf(os.Stderr, "extract: funcs: cannot translate %s.%s: %s\n", ns, key, msg)
				}
			}()
			c.need(t[0], t[1])
		}()
	}
	b.WriteString(header + "\nnamespace " + ns + "\n\n")
	for _, n := range c.sorder {
		b.WriteString(c.structText(c.structs[n]) + "\n")
	}
	for _, d := range c.defs {
		b.WriteString(d + "\n")
	}
	for _, n := range notes {
		b.WriteString(n + "\n")
	}
	if len(notes) > 0 {
		b.WriteString("\n")
	}
	b.WriteString("end " + ns + "\n\n")
}

// the functions of the legacy loader on package array's structures (namespace WL)
var wlTargets = [][2]string{
	{"", "bmhas"},
	{"U16", "Get"},
	{"", "getStepBefore000510"},
	{"", "getBM16Child"},
}

// the whole functions that are translated (callees are translated on demand, before their callers)
var wTargets = [][2]string{
	{"VLenArray", "get"},
	{"SlimTrie", "getLabelIdxOfKey"},
	{"SlimTrie", "getLeftChildID"},
	{"SlimTrie", "getLeafIndex"},
	{"SlimTrie", "getLeafPrefix"},
	{"SlimTrie", "getNode"},
	{"SlimTrie", "initVars"},
	{"SlimTrie", "getIthLeafBytes"},
	{"SlimTrie", "cmpLeafPrefix"},
	{"SlimTrie", "rightMost"},
	{"SlimTrie", "leftMost"},
	// the legacy loader (slimtrie_marshal.go)
	{"", "before000512FixLeafSize"},
	{"", "before000512InnerPrefixTobitstr"},
}

// ---- P-mode: the DECISION SKELETON of a function ----------------------------------------------------
//
// For a function that mostly calls into libraries (Unmarshal: readers, pbcmpl, error wrapping) only the
// decisions are translated: `<f>_plan compat chk : List String` is the list of the loader steps the
// function performs on its error-free path, as a function of the two version predicates it branches on,
//   chk specs = vers.Check(ver, specs…)        compat = vers.IsCompatible(ver, …).
// Kept: `if` statements whose condition is one of these calls (possibly negated), `return`, and — as
// events, in source order — the calls of functions / methods of package trie and of pbcmpl.ReadHeader /
// pbcmpl.Unmarshal (with its destination).  `if err != nil { … return … }` is the error path and is
// dropped.  Anything else that could change the control flow (loops, switch, goto, other conditions) makes
// the function untranslatable.

type ptr struct {
	info *types.Info
	key  string
}

func (p *ptr) fail(n ast.Node, why string) { fail(fmt.Sprintf("%s: %s: %s", p.key, why, src(n))) }

func (p *ptr) isPkgSel(e ast.Expr, path, name string) bool {
	sel, ok := e.(*ast.SelectorExpr)
	if !ok || sel.Sel.Name != name {
		return false
	}
	id, ok := sel.X.(*ast.Ident)
	if !ok {
		return false
	}
	pn, ok := p.info.Uses[id].(*types.PkgName)
	return ok && pn.Imported() != nil && pn.Imported().Path() == path
}

// cond: the Lean term of a condition, "" for `err != nil` / `err == nil` (the error path)
func (p *ptr) cond(e ast.Expr) (string, bool) {
	switch x := e.(type) {
	case *ast.ParenExpr:
		return p.cond(x.X)
	case *ast.UnaryExpr:
		if x.Op == token.NOT {
			c, isErr := p.cond(x.X)
			if isErr {
				p.fail(e, "negated error test")
			}
			return "(!" + c + ")", false
		}
	case *ast.BinaryExpr:
		if (x.Op == token.NEQ || x.Op == token.EQL) && (isNil(x.X) || isNil(x.Y)) {
			o := x.X
			if isNil(x.X) {
				o = x.Y
			}
			if id, ok := o.(*ast.Ident); ok && id.Name == "err" && x.Op == token.NEQ {
				return "", true
			}
		}
	case *ast.CallExpr:
		if p.isPkgSel(x.Fun, "github.com/openacid/low/vers", "Check") && len(x.Args) >= 2 && !x.Ellipsis.IsValid() {
			var specs []string
			for _, a := range x.Args[1:] {
				tv := p.info.Types[a]
				if tv.Value == nil || tv.Value.Kind() != constant.String {
					p.fail(a, "version specification that is not a constant string")
				}
				specs = append(specs, leanStr(constant.StringVal(tv.Value)))
			}
			return "chk [" + strings.Join(specs, ", ") + "]", false
		}
		if p.isPkgSel(x.Fun, "github.com/openacid/low/vers", "IsCompatible") && len(x.Args) == 2 {
			return "compat", false
		}
	}
	p.fail(e, "condition that is not a version test")
	return "", false
}

// events: the loader steps inside a statement or expression, in source order
func (p *ptr) events(n ast.Node) []string {
	var evs []string
	ast.Inspect(n, func(x ast.Node) bool {
		switch c := x.(type) {
		case *ast.FuncLit:
			p.fail(c, "closure")
		case *ast.CallExpr:
			if p.isPkgSel(c.Fun, "github.com/openacid/low/pbcmpl", "ReadHeader") {
				evs = append(evs, "pbcmpl.ReadHeader")
			}
			if p.isPkgSel(c.Fun, "github.com/openacid/low/pbcmpl", "Unmarshal") && len(c.Args) == 2 {
				evs = append(evs, "pbcmpl.Unmarshal "+src(c.Args[1]))
			}
			var id *ast.Ident
			switch f := c.Fun.(type) {
			case *ast.Ident:
				id = f
			case *ast.SelectorExpr:
				id = f.Sel
			}
			if id != nil {
				if fo, ok := p.info.Uses[id].(*types.Func); ok && fo.Pkg() != nil && fo.Pkg().Name() == "trie" {
					evs = append(evs, fo.Name())
				}
			}
		}
		return true
	})
	return evs
}

func endsWithReturn(stmts []ast.Stmt) bool {
	if len(stmts) == 0 {
		return false
	}
	_, ok := stmts[len(stmts)-1].(*ast.ReturnStmt)
	return ok
}

// plan: the Lean term (a List String) of a statement list followed by `rest`
func (p *ptr) plan(stmts []ast.Stmt, rest string) string {
	if len(stmts) == 0 {
		return rest
	}
	s, tail := stmts[0], stmts[1:]
	cons := func(evs []string, t string) string {
		for i := len(evs) - 1; i >= 0; i-- {
			t = leanStr(evs[i]) + " :: " + t
		}
		return t
	}
	switch x := s.(type) {
	case *ast.ReturnStmt:
		return cons(p.events(x), "[]")
	case *ast.BlockStmt:
		return p.plan(append(append([]ast.Stmt{}, x.List...), tail...), rest)
	case *ast.IfStmt:
		if x.Init != nil {
			// if init; cond { … }: the init statement, then the test (its variables are not used by the plan)
			y := *x
			y.Init = nil
			return cons(p.events(x.Init), p.plan(append([]ast.Stmt{&y}, tail...), rest))
		}
		c, isErr := p.cond(x.Cond)
		if isErr {
			if x.Else != nil || !endsWithReturn(x.Body.List) {
				p.fail(x, "error test that does not end the function")
			}
			return p.plan(tail, rest) // the error path is not part of the plan
		}
		after := p.plan(tail, rest)
		thn := p.plan(x.Body.List, after)
		els := after
		if x.Else != nil {
			els = p.plan([]ast.Stmt{x.Else}, after)
		}
		return "(if " + c + " then " + thn + " else " + els + ")"
	case *ast.ExprStmt, *ast.AssignStmt, *ast.DeclStmt, *ast.IncDecStmt, *ast.EmptyStmt:
		return cons(p.events(s), p.plan(tail, rest))
	}
	p.fail(s, "statement that may change the control flow")
	return ""
}

var planTargets = [][2]string{
	{"SlimTrie", "Unmarshal"},
	{"", "before000510"},
}

func writePlans(b *strings.Builder, info *types.Info, files []*ast.File) {
	b.WriteString("/-! ## decision skeletons: the loader steps as a function of the version tests -/\nnamespace WP\n\n")
	for _, t := range planTargets {
		key := wkey(t[0], t[1])
		func() {
			defer func() {
				if r := recover(); r != nil {
					msg := fmt.Sprint(r)
					if ge, ok := r.(groupError); ok {
						msg = ge.msg
					}
					msg = strings.ReplaceAll(msg, "\n", " ")
					fmt.Fprintf(b, "-- cannot translate WP.%s: %s\n\n", key, msg)
					fmt.Fprintf(os.Stderr, "extract: funcs: cannot translate WP.%s: %s\n", key, msg)
				}
			}()
			c := newWctx(info, files)
			fd := c.findFunc(t[0], t[1])
			if fd == nil {
				fail(key + ": no (unique) declaration with a body")
			}
			p := &ptr{info: info, key: key}
			body := p.plan(fd.Body.List, "[]")
			fmt.Fprintf(b, "/-- decision skeleton of %s (%s) -/\ndef %s_plan (compat : Bool) (chk : List String → Bool) : List String :=\n  %s\n\n",
				key, filepath.Base(fset.Position(fd.Pos()).Filename), t[1], body)
		}()
	}
	b.WriteString("end WP\n\n")
}
