import Generated.Funcs
import SlimProps.BridgeSem.Common
import SlimModel.Query
import SlimModel.Slim
import SlimProofs.BitsLemmas.Words
/-
  SlimProps.BridgeSem.LeftChild — tie 1, semantic part: the word-level pieces of `getLeftChildID`
  (trie/slimtrie_query.go) around the EXTERNAL call `bitmap.Rank128` (openacid/low, assumed to be
  the model's `Bits.rank128`; its first result is the number of set bits before the position):

  * short node (the label bitmap `qr.bm` is read from the short table):
    `r0 += int32(bits.OnesCount64(qr.bm & bitmap.Mask[ithBit]))`  — `leftChildShortRank_sem`:
      the number of labels below `ithBit` (`rankLabels` of the labels decoded from the bitmap),
    `int32(qr.bm >> uint(ithBit) & 1)`                              — `leftChildShortBit_sem`:
      1 iff label `ithBit` is present (`List.contains`);
  * other nodes: the position handed to `Rank128` is `qr.from + ithBit` — `leftChildBitPos_sem`.

  Together with `firstChild - 1 = rank128(from)` this is `leftChildID` of SlimModel/Query.lean.

  * `leftMost` / `rightMost`: the child followed by one iteration (`idx = r0 + 1`, `Rank128(…, qr.to-1)`,
    `idx = r0 + bit`) — `leftMostNext_sem`, `rightMostBitPos_sem`, `rightMostNext_sem`,
    `rightMostNext_model`: the model's `r.firstChild` and `r.firstChild + r.labels.length - 1`.
    The loops themselves (`for { … break }` around `getNode` and `Rank128`) are not translated.
  See SlimProps/BridgeSem.lean for the overview.
-/

set_option linter.unusedSimpArgs false

open Generated Bits

namespace BridgeSem

/-- the labels a 17-bit bitmap stands for (`Refine.labelsOf (some bm) …`) -/
def labelsOfBm (bm : Nat) : List Nat := (List.range Slim.innerSize).filter (fun k => bm.testBit k)

theorem rankLabels_labelsOfBm (bm ith : Nat) (h : ith ≤ 17) :
    rankLabels (labelsOfBm bm) ith = ((List.range ith).filter bm.testBit).length := by
  unfold rankLabels labelsOfBm
  rw [List.filter_filter, ← cnt_eq_length_filter, ← cnt_eq_length_filter]
  have := cnt_and_lt bm.testBit ith Slim.innerSize
  rw [Nat.min_eq_left (by simp [Slim.innerSize]; omega)] at this
  rw [← this]
  all_goals (apply cnt_congr; intro j _; simp [Bool.and_comm])

theorem leftChildShortRank_sem (bm ith : Nat) (h : ith ≤ 17) :
    Generated.leftChildShortRank bm ith = ((rankLabels (labelsOfBm bm) ith : Nat) : Int) := by
  unfold Generated.leftChildShortRank
  have hp : Go.popcount64 (bm % 2 ^ ith) = ((List.range ith).filter bm.testBit).length :=
    popcount_spec bm ith (by omega)
  have hle : ((List.range ith).filter bm.testBit).length ≤ ith := by
    have := List.length_filter_le bm.testBit (List.range ith); simpa using this
  simp only [mask64_and, mask64_and']
  rw [hp, rankLabels_labelsOfBm bm ith h]
  go_simp
  omega

theorem leftChildShortBit_sem (bm ith : Nat) (h : ith < 17) :
    Generated.leftChildShortBit bm ith = if (labelsOfBm bm).contains ith then 1 else 0 := by
  unfold Generated.leftChildShortBit
  have hbit : Go.and (Go.shr bm (Go.conv 32 true 64 ith)) 1 = if bm.testBit ith then 1 else 0 := by
    rw [conv_widen_small _ _ _ (by omega) (by omega)]
    show (bm >>> ith) &&& 1 = _
    rw [Nat.and_one_is_mod, Nat.testBit_eq_decide_div_mod_eq, Nat.shiftRight_eq_div_pow]
    by_cases hb : bm / 2 ^ ith % 2 = 1 <;> simp [hb] <;> omega
  have hc : (labelsOfBm bm).contains ith = bm.testBit ith := by
    unfold labelsOfBm
    rw [Bool.eq_iff_iff]
    simp [Slim.innerSize]
    omega
  rw [hbit, hc]
  by_cases hb : bm.testBit ith <;> simp [hb] <;> go_simp <;> decide

theorem leftChildBitPos_sem (frm ith : Nat) (h : frm + ith < 2 ^ 31) :
    Generated.leftChildBitPos frm ith = ((frm + ith : Nat) : Int) := by
  unfold Generated.leftChildBitPos
  go_simp

/-! ### `leftMost` / `rightMost`: the child followed by one iteration

  The loops are `for { …; st.getNode(idx, qr); if qr.isInner == 0 { break }; … }` around the external
  `bitmap.Rank128` (first result: the number of set bits before the position, second: the bit at
  the position) and are not translated; the arithmetic of one step is.  `p` is the membership
  predicate of the inner bitmap, `cnt p k` (SlimProofs/BitsLemmas/Count.lean) the rank of `k`. -/

/-- `idx = r0 + 1` with `r0 = rank(from)`: the child of the first label — the model's
    `r.firstChild` (`leftMost`, SlimModel/Query.lean; `firstChild - 1 = rank128(from)`). -/
theorem leftMostNext_sem (r0 : Nat) (h : r0 + 1 < 2 ^ 31) :
    Generated.leftMostNext r0 = (r0 : Int) + 1 := by
  unfold Generated.leftMostNext; go_simp
  all_goals omega

/-- the position `rightMost` hands to `Rank128`: the last bit of the node, `qr.to - 1` -/
theorem rightMostBitPos_sem (to : Nat) (h0 : 0 < to) (h : to < 2 ^ 31) :
    Generated.rightMostBitPos to = ((to - 1 : Nat) : Int) := by
  unfold Generated.rightMostBitPos; go_simp

/-- `idx = r0 + bit` with `(r0, bit) = Rank128(…, to-1)`: the rank of `to`, i.e. with
    `firstChild = rank(from) + 1` and `labels.length = rank(to) - rank(from)` the model's
    `r.firstChild + r.labels.length - 1` (`rightMost`). -/
theorem rightMostNext_sem (p : Nat → Bool) (to : Nat) (h0 : 0 < to) (h : to < 2 ^ 31) :
    Generated.rightMostNext (if p (to - 1) then 1 else 0) (cnt p (to - 1)) = ((cnt p to : Nat) : Int) := by
  unfold Generated.rightMostNext
  have hs : cnt p to = cnt p (to - 1) + (if p (to - 1) then 1 else 0) := by
    have := cnt_succ p (to - 1)
    rwa [Nat.sub_add_cancel h0] at this
  have hle := cnt_le p (to - 1)
  rw [hs]
  split <;> go_simp <;> omega

theorem rightMostNext_model (p : Nat → Bool) (frm to firstChild nlabels : Nat) (h0 : frm < to)
    (h : to < 2 ^ 31) (hfc : firstChild = cnt p frm + 1) (hn : nlabels = cnt p to - cnt p frm) :
    Generated.rightMostNext (if p (to - 1) then 1 else 0) (cnt p (to - 1))
      = ((firstChild + nlabels - 1 : Nat) : Int) := by
  rw [rightMostNext_sem p to (by omega) h]
  have := cnt_mono p (Nat.le_of_lt h0)
  congr 1; omega

/-! non-vacuity -/
example : Generated.leftChildShortRank 0b10110 4 = 2 := by decide
example : Generated.rightMostNext 1 4 = 5 := by decide

end BridgeSem

#print axioms BridgeSem.leftChildShortRank_sem
#print axioms BridgeSem.leftChildShortBit_sem
#print axioms BridgeSem.leftChildBitPos_sem
#print axioms BridgeSem.leftMostNext_sem
#print axioms BridgeSem.rightMostBitPos_sem
#print axioms BridgeSem.rightMostNext_sem
#print axioms BridgeSem.rightMostNext_model
