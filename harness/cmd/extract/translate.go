// translate.go — tie 1, semantic part: a tiny translator from a Go subset to Lean 4
// definitions, written to lean/Generated/Funcs.lean.  The bridge theorems of
// lean/SlimProps/BridgeSem.lean equate the generated definitions with the
// model's functions for all inputs, so a harmless rewrite of the Go source keeps
// the tie and a change of meaning breaks a proof.
//
// Subset: function bodies made of `:=`, `=`, `op=`, `++`/`--` on integer locals,
// `var x T [= e]`, `if`/`else` chains (without init statement) and `return` of
// one integer expression or of a `[]byte{…}` literal; expressions over integer
// locals, parameters and field selections with + - * / % << >> & | ^ &^,
// unary - ^ +, integer constants, conversions between integer types, indexing of a
// []byte / string.  Conditions: comparisons of integers, && || !.
// Anything else: fail("cannot translate …") — the translator never guesses.
//
// Meaning (lean/Generated/GoSem.lean): every Go integer is its bit pattern, a Nat
// below 2^w; wrap-around, arithmetic shift, sign extension and signed comparison
// are explicit.  A signed RESULT is returned as Int (Go.toS).  Identifiers that
// are not locals of the translated fragment — parameters, fields such as
// qr.keyBitLen, and, for extracted statements, the locals they read — become
// parameters of the Lean definition: declared Go parameters first, in
// declaration order, then the others sorted by name.
package main

import (
	"fmt"
	"go/ast"
	"go/constant"
	"go/token"
	"go/types"
	"math/big"
	"os"
	"path/filepath"
	"sort"
	"strings"
)

type intTy struct {
	w      int
	signed bool
}

func intTypeOf(t types.Type) (intTy, bool) {
	if t == nil {
		return intTy{}, false
	}
	b, ok := t.Underlying().(*types.Basic)
	if !ok {
		return intTy{}, false
	}
	switch b.Kind() {
	case types.Int8:
		return intTy{8, true}, true
	case types.Int16:
		return intTy{16, true}, true
	case types.Int32:
		return intTy{32, true}, true
	case types.Int64, types.Int:
		return intTy{64, true}, true
	case types.Uint8:
		return intTy{8, false}, true
	case types.Uint16:
		return intTy{16, false}, true
	case types.Uint32:
		return intTy{32, false}, true
	case types.Uint64, types.Uint:
		return intTy{64, false}, true
	}
	return intTy{}, false
}

func isByteSeq(t types.Type) bool {
	if t == nil {
		return false
	}
	switch u := t.Underlying().(type) {
	case *types.Basic:
		return u.Kind() == types.String
	case *types.Slice:
		it, ok := intTypeOf(u.Elem())
		return ok && it.w == 8 && !it.signed
	}
	return false
}

var leanReserved = map[string]bool{"at": true, "from": true, "end": true, "fun": true, "let": true, "in": true,
	"if": true, "then": true, "else": true, "do": true, "have": true, "show": true, "with": true, "match": true,
	"def": true, "open": true, "where": true, "by": true, "for": true, "instance": true, "structure": true,
	"theorem": true, "namespace": true, "section": true, "variable": true, "universe": true, "Type": true, "Prop": true}

func leanName(s string) string {
	if leanReserved[s] {
		return s + "_"
	}
	return s
}

type leanParam struct {
	name   string
	key    string // identity: object address or selector source
	isList bool
	decl   int // position among the declared Go parameters, -1 for the others
}

type funcTr struct {
	what   string
	info   *types.Info
	bound  map[types.Object]bool
	declAt map[types.Object]int
	params []leanParam
}

func (t *funcTr) fail(n ast.Node, why string) {
	fail(fmt.Sprintf("%s: %s: %s", t.what, why, src(n)))
}

func (t *funcTr) typeOf(e ast.Expr) types.Type {
	if tv, ok := t.info.Types[e]; ok {
		return tv.Type
	}
	if id, ok := e.(*ast.Ident); ok {
		if o := t.info.Uses[id]; o != nil {
			return o.Type()
		}
		if o := t.info.Defs[id]; o != nil {
			return o.Type()
		}
	}
	return nil
}

func (t *funcTr) obj(id *ast.Ident) types.Object {
	if o := t.info.Uses[id]; o != nil {
		return o
	}
	return t.info.Defs[id]
}

// param registers (or finds) the parameter that stands for a free identifier or field selection.
func (t *funcTr) param(e ast.Expr, name, key string, isList bool, decl int) string {
	name = leanName(name)
	for _, p := range t.params {
		if p.key == key {
			return p.name
		}
		if p.name == name {
			t.fail(e, "two different free variables are both called "+name)
		}
	}
	t.params = append(t.params, leanParam{name, key, isList, decl})
	return name
}

// ref translates an identifier or a chain of field selections (the value must be an integer or a
// byte sequence): a let-bound local by its name, anything else as a parameter.
func (t *funcTr) ref(e ast.Expr, wantList bool) string {
	typ := t.typeOf(e)
	if wantList {
		if !isByteSeq(typ) {
			t.fail(e, "not a []byte / string")
		}
	} else if _, ok := intTypeOf(typ); !ok {
		t.fail(e, "not an integer")
	}
	switch x := e.(type) {
	case *ast.ParenExpr:
		return t.ref(x.X, wantList)
	case *ast.Ident:
		o := t.obj(x)
		v, ok := o.(*types.Var)
		if !ok {
			t.fail(e, "identifier is not a variable")
		}
		if t.bound[o] {
			return leanName(x.Name)
		}
		decl := -1
		if d, ok := t.declAt[o]; ok {
			decl = d
		}
		return t.param(e, x.Name, fmt.Sprintf("var:%p", v), wantList, decl)
	case *ast.SelectorExpr:
		// every link must be a field selection rooted at a variable
		var cur ast.Expr = x
		for {
			s, ok := cur.(*ast.SelectorExpr)
			if !ok {
				break
			}
			if fv, ok := t.info.Uses[s.Sel].(*types.Var); !ok || !fv.IsField() {
				t.fail(e, "not a field selection")
			}
			cur = s.X
		}
		root, ok := cur.(*ast.Ident)
		if !ok {
			t.fail(e, "field selection is not rooted at a variable")
		}
		if _, ok := t.obj(root).(*types.Var); !ok {
			t.fail(e, "field selection is not rooted at a variable")
		}
		if t.bound[t.obj(root)] {
			t.fail(e, "field of a local variable")
		}
		return t.param(e, x.Sel.Name, "sel:"+src(x), wantList, -1)
	}
	t.fail(e, "unsupported operand")
	return ""
}

func pattern(v constant.Value, w int) string {
	i, ok := constant.Val(constant.ToInt(v)).(*big.Int)
	if !ok {
		if i64, ok2 := constant.Val(constant.ToInt(v)).(int64); ok2 {
			i = big.NewInt(i64)
		} else {
			return ""
		}
	}
	m := new(big.Int).Lsh(big.NewInt(1), uint(w))
	r := new(big.Int).Mod(i, m) // Mod is Euclidean: the two's complement pattern
	return r.String()
}

// expr translates an integer expression to a Lean term of type Nat (the bit pattern).
func (t *funcTr) expr(e ast.Expr) (string, intTy) {
	if p, ok := e.(*ast.ParenExpr); ok {
		return t.expr(p.X)
	}
	tv := t.info.Types[e]
	ty, isInt := intTypeOf(tv.Type)
	if tv.Value != nil {
		if !isInt || (tv.Value.Kind() != constant.Int && constant.ToInt(tv.Value).Kind() != constant.Int) {
			t.fail(e, "constant is not of a sized integer type")
		}
		s := pattern(tv.Value, ty.w)
		if s == "" {
			t.fail(e, "constant")
		}
		return s, ty
	}
	if !isInt {
		t.fail(e, "not an integer expression")
	}
	switch x := e.(type) {
	case *ast.Ident, *ast.SelectorExpr:
		return t.ref(e, false), ty
	case *ast.IndexExpr:
		seq := t.ref(x.X, true)
		idx, _ := t.expr(x.Index)
		return fmt.Sprintf("(%s.getD (%s) 0)", seq, idx), ty
	case *ast.CallExpr:
		ftv := t.info.Types[x.Fun]
		if !ftv.IsType() || len(x.Args) != 1 {
			t.fail(e, "call (only conversions between integer types are supported)")
		}
		a, aty := t.expr(x.Args[0])
		return fmt.Sprintf("(Go.conv %d %v %d %s)", aty.w, aty.signed, ty.w, a), ty
	case *ast.UnaryExpr:
		a, _ := t.expr(x.X)
		switch x.Op {
		case token.ADD:
			return a, ty
		case token.SUB:
			return fmt.Sprintf("(Go.neg %d %s)", ty.w, a), ty
		case token.XOR:
			return fmt.Sprintf("(Go.not %d %s)", ty.w, a), ty
		}
		t.fail(e, "unary operator")
	case *ast.BinaryExpr:
		return t.binary(e, x.Op, x.X, x.Y, ty), ty
	}
	t.fail(e, "unsupported expression")
	return "", ty
}

// shiftCount: the count of a shift; an untyped / any-typed non-negative constant is its value.
func (t *funcTr) shiftCount(e ast.Expr) string {
	tv := t.info.Types[e]
	if tv.Value != nil {
		v := constant.ToInt(tv.Value)
		if v.Kind() != constant.Int || constant.Sign(v) < 0 {
			t.fail(e, "shift count")
		}
		return v.ExactString()
	}
	s, _ := t.expr(e)
	return s
}

func (t *funcTr) binary(at ast.Expr, op token.Token, l, r ast.Expr, ty intTy) string {
	if op == token.SHL || op == token.SHR {
		a, _ := t.expr(l)
		k := t.shiftCount(r)
		switch {
		case op == token.SHL:
			return fmt.Sprintf("(Go.shl %d %s %s)", ty.w, a, k)
		case ty.signed:
			return fmt.Sprintf("(Go.sar %d %s %s)", ty.w, a, k)
		default:
			return fmt.Sprintf("(Go.shr %s %s)", a, k)
		}
	}
	a, aty := t.expr(l)
	b, bty := t.expr(r)
	if aty != ty || bty != ty {
		t.fail(at, "operand types differ from the result type")
	}
	switch op {
	case token.ADD:
		return fmt.Sprintf("(Go.add %d %s %s)", ty.w, a, b)
	case token.SUB:
		return fmt.Sprintf("(Go.sub %d %s %s)", ty.w, a, b)
	case token.MUL:
		return fmt.Sprintf("(Go.mul %d %s %s)", ty.w, a, b)
	case token.AND:
		return fmt.Sprintf("(Go.and %s %s)", a, b)
	case token.OR:
		return fmt.Sprintf("(Go.or %s %s)", a, b)
	case token.XOR:
		return fmt.Sprintf("(Go.xor %s %s)", a, b)
	case token.AND_NOT:
		return fmt.Sprintf("(Go.andNot %d %s %s)", ty.w, a, b)
	case token.QUO:
		if ty.signed {
			return fmt.Sprintf("(Go.divS %d %s %s)", ty.w, a, b)
		}
		return fmt.Sprintf("(Go.divU %s %s)", a, b)
	case token.REM:
		if ty.signed {
			return fmt.Sprintf("(Go.modS %d %s %s)", ty.w, a, b)
		}
		return fmt.Sprintf("(Go.modU %s %s)", a, b)
	}
	t.fail(at, "binary operator "+op.String())
	return ""
}

// cond translates a condition to a Lean term of type Bool.
func (t *funcTr) cond(e ast.Expr) string {
	switch x := e.(type) {
	case *ast.ParenExpr:
		return t.cond(x.X)
	case *ast.UnaryExpr:
		if x.Op == token.NOT {
			return "(!" + t.cond(x.X) + ")"
		}
	case *ast.BinaryExpr:
		switch x.Op {
		case token.LAND:
			return "(" + t.cond(x.X) + " && " + t.cond(x.Y) + ")"
		case token.LOR:
			return "(" + t.cond(x.X) + " || " + t.cond(x.Y) + ")"
		case token.EQL, token.NEQ, token.LSS, token.LEQ, token.GTR, token.GEQ:
			a, aty := t.expr(x.X)
			b, bty := t.expr(x.Y)
			if aty != bty {
				t.fail(e, "comparison of different integer types")
			}
			lt := func(p, q string) string {
				if aty.signed {
					return fmt.Sprintf("(Go.ltS %d %s %s)", aty.w, p, q)
				}
				return fmt.Sprintf("(Go.ltU %s %s)", p, q)
			}
			le := func(p, q string) string {
				if aty.signed {
					return fmt.Sprintf("(Go.leS %d %s %s)", aty.w, p, q)
				}
				return fmt.Sprintf("(Go.leU %s %s)", p, q)
			}
			switch x.Op {
			case token.EQL:
				return fmt.Sprintf("(%s == %s)", a, b)
			case token.NEQ:
				return fmt.Sprintf("(%s != %s)", a, b)
			case token.LSS:
				return lt(a, b)
			case token.LEQ:
				return le(a, b)
			case token.GTR:
				return lt(b, a)
			case token.GEQ:
				return le(b, a)
			}
		}
	}
	t.fail(e, "unsupported condition")
	return ""
}

// ---- statements ------------------------------------------------------------

func hasReturn(n ast.Node) bool {
	found := false
	ast.Inspect(n, func(x ast.Node) bool {
		if _, ok := x.(*ast.ReturnStmt); ok {
			found = true
		}
		return !found
	})
	return found
}

// assignedOuter lists (by name, sorted) the currently bound variables that the statements assign.
func (t *funcTr) assignedOuter(stmts []ast.Stmt) []string {
	set := map[string]bool{}
	note := func(e ast.Expr) {
		if id, ok := e.(*ast.Ident); ok {
			if o := t.obj(id); o != nil && t.bound[o] {
				set[leanName(id.Name)] = true
			}
		}
	}
	for _, s := range stmts {
		ast.Inspect(s, func(x ast.Node) bool {
			switch a := x.(type) {
			case *ast.AssignStmt:
				if a.Tok != token.DEFINE {
					for _, l := range a.Lhs {
						note(l)
					}
				}
			case *ast.IncDecStmt:
				note(a.X)
			}
			return true
		})
	}
	var out []string
	for n := range set {
		out = append(out, n)
	}
	sort.Strings(out)
	return out
}

func tuple(names []string) string {
	if len(names) == 1 {
		return names[0]
	}
	return "(" + strings.Join(names, ", ") + ")"
}

var assignOps = map[token.Token]token.Token{
	token.ADD_ASSIGN: token.ADD, token.SUB_ASSIGN: token.SUB, token.MUL_ASSIGN: token.MUL,
	token.QUO_ASSIGN: token.QUO, token.REM_ASSIGN: token.REM, token.AND_ASSIGN: token.AND,
	token.OR_ASSIGN: token.OR, token.XOR_ASSIGN: token.XOR, token.SHL_ASSIGN: token.SHL,
	token.SHR_ASSIGN: token.SHR, token.AND_NOT_ASSIGN: token.AND_NOT,
}

// block translates a statement list.  `cont` is the Lean term that is the value of the block when
// control falls off its end ("" : falling off the end is an error); `ret` translates a return.
func (t *funcTr) block(stmts []ast.Stmt, cont string, ret func(*ast.ReturnStmt) string, ind string) string {
	if len(stmts) == 0 {
		if cont == "" {
			fail(t.what + ": control reaches the end of the function without a return")
		}
		return cont
	}
	s, rest := stmts[0], stmts[1:]
	letIn := func(name, val string) string {
		return fmt.Sprintf("let %s := %s;\n%s%s", name, val, ind, t.block(rest, cont, ret, ind))
	}
	localInt := func(id *ast.Ident) {
		if _, ok := intTypeOf(t.typeOf(id)); !ok {
			t.fail(id, "local variable is not an integer")
		}
	}
	switch x := s.(type) {
	case *ast.EmptyStmt:
		return t.block(rest, cont, ret, ind)
	case *ast.ReturnStmt:
		return ret(x)
	case *ast.BlockStmt:
		return t.block(append(append([]ast.Stmt{}, x.List...), rest...), cont, ret, ind)
	case *ast.DeclStmt:
		gd, ok := x.Decl.(*ast.GenDecl)
		if !ok || gd.Tok != token.VAR || len(gd.Specs) != 1 {
			t.fail(s, "declaration")
		}
		vs := gd.Specs[0].(*ast.ValueSpec)
		if len(vs.Names) != 1 || len(vs.Values) > 1 {
			t.fail(s, "declaration")
		}
		localInt(vs.Names[0])
		val := "0"
		if len(vs.Values) == 1 {
			val, _ = t.expr(vs.Values[0])
		}
		t.bound[t.obj(vs.Names[0])] = true
		return letIn(leanName(vs.Names[0].Name), val)
	case *ast.IncDecStmt:
		id, ok := x.X.(*ast.Ident)
		if !ok || !t.bound[t.obj(id)] {
			t.fail(s, "++/-- of something that is not a local variable")
		}
		ty, _ := intTypeOf(t.typeOf(id))
		op := "add"
		if x.Tok == token.DEC {
			op = "sub"
		}
		return letIn(leanName(id.Name), fmt.Sprintf("(Go.%s %d %s 1)", op, ty.w, leanName(id.Name)))
	case *ast.AssignStmt:
		if len(x.Lhs) != 1 || len(x.Rhs) != 1 {
			t.fail(s, "multiple assignment")
		}
		id, ok := x.Lhs[0].(*ast.Ident)
		if !ok {
			t.fail(s, "assignment to something that is not a local variable")
		}
		localInt(id)
		var val string
		switch {
		case x.Tok == token.DEFINE:
			val, _ = t.expr(x.Rhs[0])
			t.bound[t.obj(id)] = true
		case x.Tok == token.ASSIGN:
			if !t.bound[t.obj(id)] {
				t.fail(s, "assignment to a variable that is not a local of the translated fragment")
			}
			val, _ = t.expr(x.Rhs[0])
		default:
			op, ok := assignOps[x.Tok]
			if !ok || !t.bound[t.obj(id)] {
				t.fail(s, "assignment operator")
			}
			ty, _ := intTypeOf(t.typeOf(id))
			val = t.binary(x.Lhs[0], op, x.Lhs[0], x.Rhs[0], ty)
		}
		return letIn(leanName(id.Name), val)
	case *ast.IfStmt:
		if x.Init != nil {
			t.fail(s, "if with an init statement")
		}
		c := t.cond(x.Cond)
		var els []ast.Stmt
		if x.Else != nil {
			els = []ast.Stmt{x.Else}
		}
		in2 := ind + "  "
		// the variables bound so far; locals of a branch go out of scope at its end
		saved := map[types.Object]bool{}
		for k, v := range t.bound {
			saved[k] = v
		}
		restore := func() {
			t.bound = map[types.Object]bool{}
			for k, v := range saved {
				t.bound[k] = v
			}
		}
		if hasReturn(x) {
			// early return: the then-branch must not fall through
			thn := t.block(x.Body.List, "", ret, in2)
			restore()
			el := t.block(append(els, rest...), cont, ret, in2)
			return fmt.Sprintf("if %s then\n%s(%s)\n%selse\n%s(%s)", c, in2, thn, ind, in2, el)
		}
		names := t.assignedOuter(append(append([]ast.Stmt{}, x.Body.List...), els...))
		if len(names) == 0 {
			t.fail(s, "if statement without effect")
		}
		tp := tuple(names)
		thn := t.block(x.Body.List, tp, ret, in2)
		restore()
		el := t.block(els, tp, ret, in2)
		restore()
		return fmt.Sprintf("let %s := (if %s then\n%s(%s)\n%selse\n%s(%s));\n%s%s", tp, c, in2, thn, ind, in2, el, ind,
			t.block(rest, cont, ret, ind))
	}
	t.fail(s, "unsupported statement")
	return ""
}

// ---- definitions -----------------------------------------------------------

func (t *funcTr) signature() string {
	ps := append([]leanParam{}, t.params...)
	sort.SliceStable(ps, func(i, j int) bool {
		a, b := ps[i], ps[j]
		if (a.decl >= 0) != (b.decl >= 0) {
			return a.decl >= 0
		}
		if a.decl >= 0 {
			return a.decl < b.decl
		}
		return a.name < b.name
	})
	var sb strings.Builder
	for _, p := range ps {
		ty := "Nat"
		if p.isList {
			ty = "List Nat"
		}
		fmt.Fprintf(&sb, " (%s : %s)", p.name, ty)
	}
	return sb.String()
}

func newTr(what string, info *types.Info, fd *ast.FuncDecl) *funcTr {
	t := &funcTr{what: what, info: info, bound: map[types.Object]bool{}, declAt: map[types.Object]int{}}
	n := 0
	for _, f := range fd.Type.Params.List {
		for _, nm := range f.Names {
			if o := info.Defs[nm]; o != nil {
				t.declAt[o] = n
			}
			n++
		}
	}
	return t
}

func retOf(ty intTy, e string) (string, string) {
	if ty.signed {
		return "Int", fmt.Sprintf("Go.toS %d %s", ty.w, e)
	}
	return "Nat", e
}

// translateFunc translates a whole function with exactly one result.
func translateFunc(info *types.Info, fd *ast.FuncDecl, leanDef string) string {
	t := newTr(leanDef, info, fd)
	if fd.Type.Results == nil || len(fd.Type.Results.List) != 1 || len(fd.Type.Results.List[0].Names) > 1 {
		fail(leanDef + ": exactly one result expected")
	}
	resT := info.Types[fd.Type.Results.List[0].Type].Type
	retTy := ""
	ret := func(r *ast.ReturnStmt) string {
		if len(r.Results) != 1 {
			t.fail(r, "return of several values")
		}
		e := r.Results[0]
		if ity, ok := intTypeOf(resT); ok {
			s, ety := t.expr(e)
			if ety != ity {
				t.fail(r, "type of the returned expression")
			}
			var v string
			retTy, v = retOf(ity, s)
			return v
		}
		if isByteSeq(resT) {
			cl, ok := e.(*ast.CompositeLit)
			if !ok || !isByteSeq(info.Types[cl].Type) {
				t.fail(r, "only a []byte{…} literal can be returned")
			}
			var elts []string
			for _, el := range cl.Elts {
				if _, kv := el.(*ast.KeyValueExpr); kv {
					t.fail(r, "keyed literal")
				}
				s, ety := t.expr(el)
				if ety != (intTy{8, false}) {
					t.fail(r, "element of a []byte literal")
				}
				elts = append(elts, s)
			}
			retTy = "List Nat"
			return "[" + strings.Join(elts, ", ") + "]"
		}
		t.fail(r, "result type")
		return ""
	}
	// integer parameters that the body assigns are re-bound by `let`; declare them first
	for _, f := range fd.Type.Params.List {
		for _, nm := range f.Names {
			if _, ok := intTypeOf(info.Defs[nm].Type()); ok && assigns(fd.Body, info.Defs[nm], info) {
				t.ref(nm, false)              // becomes a parameter …
				t.bound[info.Defs[nm]] = true // … and a local from now on
			}
		}
	}
	body := t.block(fd.Body.List, "", ret, "  ")
	return fmt.Sprintf("def %s%s : %s :=\n  %s\n", leanDef, t.signature(), retTy, body)
}

func assigns(body ast.Node, o types.Object, info *types.Info) bool {
	found := false
	ast.Inspect(body, func(x ast.Node) bool {
		check := func(e ast.Expr) {
			if id, ok := e.(*ast.Ident); ok && (info.Uses[id] == o || info.Defs[id] == o) {
				found = true
			}
		}
		switch a := x.(type) {
		case *ast.AssignStmt:
			for _, l := range a.Lhs {
				check(l)
			}
		case *ast.IncDecStmt:
			check(a.X)
		}
		return true
	})
	return found
}

// translateAssigned translates the right-hand side of the unique statement `name := e` / `name = e`
// of a function; everything the expression reads becomes a parameter.
func translateAssigned(info *types.Info, fd *ast.FuncDecl, name, leanDef string) string {
	t := newTr(leanDef, info, fd)
	var rhs ast.Expr
	ast.Inspect(fd.Body, func(x ast.Node) bool {
		if a, ok := x.(*ast.AssignStmt); ok && len(a.Lhs) == 1 && len(a.Rhs) == 1 &&
			(a.Tok == token.DEFINE || a.Tok == token.ASSIGN) {
			if id, ok := a.Lhs[0].(*ast.Ident); ok && id.Name == name {
				if rhs != nil {
					fail(leanDef + ": more than one assignment to " + name)
				}
				rhs = a.Rhs[0]
			}
		}
		return true
	})
	if rhs == nil {
		fail(leanDef + ": no assignment to " + name)
	}
	s, ty := t.expr(rhs)
	rt, v := retOf(ty, s)
	return fmt.Sprintf("def %s%s : %s :=\n  %s\n", leanDef, t.signature(), rt, v)
}

// writeFuncs is called from main: it writes lean/Generated/Funcs.lean.
func writeFuncs(repo string, trieFiles []*ast.File, info *types.Info, out string) {
	var b strings.Builder
	b.WriteString("import Generated.GoSem\n/- GENERATED by harness/cmd/extract (translate.go) from /repo's working tree.  Do not edit.\n")
	b.WriteString("   Meaning of the `Go.*` operations: lean/Generated/GoSem.lean. -/\nnamespace Generated\n\n")
	b.WriteString(translateFunc(info, funcDecl(trieFiles, "", "encStep"), "encStep") + "\n")
	b.WriteString(translateFunc(info, funcDecl(trieFiles, "", "decStep"), "decStep") + "\n")
	b.WriteString(translateFunc(info, funcDecl(trieFiles, "SlimTrie", "getLabelIdxOfKey"), "getLabelIdxOfKey") + "\n")
	for _, n := range []string{"8", "16", "32", "64"} {
		fd := funcDecl(trieFiles, "SlimTrie", "GetI"+n)
		b.WriteString(translateAssigned(info, fd, "v", "getI"+n) + "\n")
		if n != "8" {
			b.WriteString(translateAssigned(info, fd, "stIdx", "getI"+n+"Index") + "\n")
		}
	}
	// package encode: the size literals of the fixed-width integer encoders
	encFiles := parseDir(filepath.Join(repo, "encode"))
	encInfo := &types.Info{Types: map[ast.Expr]types.TypeAndValue{}, Defs: map[*ast.Ident]types.Object{}, Uses: map[*ast.Ident]types.Object{}}
	encConf := types.Config{Importer: fakeImporter{}, Error: func(error) {}}
	encConf.Check("encode", fset, encFiles, encInfo)
	for _, ty := range []string{"I8", "I16", "I32", "I64", "U16", "U32", "U64"} {
		b.WriteString(translateFunc(encInfo, funcDecl(encFiles, ty, "GetSize"), "encSize"+ty) + "\n")
		b.WriteString(translateFunc(encInfo, funcDecl(encFiles, ty, "GetEncodedSize"), "encEncodedSize"+ty) + "\n")
	}
	b.WriteString("end Generated\n")
	must(os.WriteFile(out, []byte(b.String()), 0o644))
	fmt.Printf("funcs written: %d bytes\n", b.Len())
}
