import Lean
/-
  SlimProps.BridgeSem.PrintAxioms — `#print_axioms? thm`: `#print axioms thm` when `thm` exists.

  When a Go function cannot be translated on the current tree, the statement of its bridge theorem does not
  elaborate (error: unknown identifier `Generated.W.…`, the class `check` recognises as "the subject of the bridge
  is not translatable"); a plain `#print axioms` of the missing theorem would add an error of ANOTHER class
  (unknown constant `BridgeSem.…`) and turn the skip into a failure.  This command reports the missing theorem
  as a message instead.  It adds nothing to any proof.
-/
open Lean Elab Command in
elab "#print_axioms? " id:ident : command => do
  let env ← getEnv
  -- the name as written, or inside the namespaces that are open here
  let n := id.getId
  if env.contains n then
    elabCommand (← `(#print axioms $id))
  else
    logInfo m!"'{n}' is not present on this tree (its statement did not elaborate)"
