import SlimProofs.BitsLemmas.Rank
/-
  SlimProofs.BitsLemmas.Select — `select32R64` on an `"s32"` bitmap returns the `i`-th set bit and
  the next set bit (or the bit length); for any word list, and for `newBM idxs capa "s32"`.
-/

namespace Bits

/-! ### the list of set positions -/

theorem toArray_getElem?_eq_some (ws : List Nat) (k a : Nat) :
    (toArray ws)[k]? = some a
      ↔ a < 64 * ws.length ∧ getBit ws a = true ∧ cnt (getBit ws) a = k := by
  rw [toArray_eq]; exact filter_range_getElem?_eq_some _ _ _ _

theorem toArray_length (ws : List Nat) :
    (toArray ws).length = cnt (getBit ws) (64 * ws.length) := by
  rw [toArray_eq]; exact filter_range_length _ _

theorem toArray_asc (ws : List Nat) : Asc (toArray ws) := by
  rw [toArray_eq]; exact asc_filter_range _ _

theorem selectInWord_eq_some (w k off : Nat) :
    selectInWord w k = some off ↔ off < 64 ∧ w.testBit off = true ∧ cnt w.testBit off = k :=
  filter_range_getElem?_eq_some _ _ _ _

theorem indexSelect32_getElem? (ws : List Nat) (k : Nat) :
    (indexSelect32 ws)[k]?
      = if k < ((toArray ws).length + 31) / 32 then some ((toArray ws).getD (k * 32) 0) else none := by
  unfold indexSelect32
  simp only [List.getElem?_map]
  split
  · next h => simp [List.getElem?_range h]
  · next h => simp [List.getElem?_eq_none (l := List.range _) (by simpa using h)]

/-! ### `nextOne` -/

theorem nextOne_eq_of_next (ws : List Nat) (pos c : Nat) (h1 : pos ≤ c) (h2 : c < 64 * ws.length)
    (h3 : getBit ws c = true) (h4 : ∀ j, pos ≤ j → j < c → getBit ws j = false) :
    nextOne ws pos = c := by
  unfold nextOne
  have : (List.range' pos (ws.length * 64 - pos)).find? (getBit ws) = some c := by
    rw [List.find?_range'_eq_some]
    refine ⟨h3, ?_, ?_⟩
    · rw [List.mem_range'_1]; omega
    · intro j hj1 hj2; simp [h4 j hj1 hj2]
  have this' : (List.range' pos (ws.length * 64 - pos)).find?
      (fun i => (ws.getD (i / 64) 0).testBit (i % 64)) = some c := this
  simp only [this']

theorem nextOne_eq_total (ws : List Nat) (pos : Nat)
    (h : ∀ j, pos ≤ j → j < 64 * ws.length → getBit ws j = false) :
    nextOne ws pos = 64 * ws.length := by
  unfold nextOne
  have : (List.range' pos (ws.length * 64 - pos)).find? (getBit ws) = none := by
    rw [List.find?_range'_eq_none]
    intro j hj1 hj2; simp [h j hj1 (by omega)]
  have this' : (List.range' pos (ws.length * 64 - pos)).find?
      (fun i => (ws.getD (i / 64) 0).testBit (i % 64)) = none := this
  simp only [this']
  omega

/-- the next set bit after the `i`-th one is the `(i+1)`-th one -/
theorem nextOne_toArray_succ (ws : List Nat) (i a c : Nat) (ha : (toArray ws)[i]? = some a)
    (hc : (toArray ws)[i + 1]? = some c) : nextOne ws (a + 1) = c := by
  rw [toArray_getElem?_eq_some] at ha hc
  obtain ⟨ha1, ha2, ha3⟩ := ha
  obtain ⟨hc1, hc2, hc3⟩ := hc
  have hac : a < c := by
    rcases Nat.lt_or_ge a c with h | h
    · exact h
    · have := cnt_mono (getBit ws) h; omega
  apply nextOne_eq_of_next ws (a + 1) c hac hc1 hc2
  intro j hj1 hj2
  cases hb : getBit ws j with
  | false => rfl
  | true =>
    have h1 := cnt_succ_le_of_true ha2 (show a < j by omega)
    have h2 := cnt_succ_le_of_true hb hj2
    omega

/-- after the last set bit there is none -/
theorem nextOne_toArray_last (ws : List Nat) (i a : Nat) (ha : (toArray ws)[i]? = some a)
    (hl : (toArray ws).length = i + 1) : nextOne ws (a + 1) = 64 * ws.length := by
  rw [toArray_getElem?_eq_some] at ha
  obtain ⟨ha1, ha2, ha3⟩ := ha
  rw [toArray_length] at hl
  apply nextOne_eq_total
  intro j hj1 hj2
  cases hb : getBit ws j with
  | false => rfl
  | true =>
    have h1 := cnt_succ_le_of_true ha2 (show a < j by omega)
    have h2 := cnt_succ_le_of_true hb hj2
    omega

/-! ### `select32R64` -/

theorem walk_eq (b : BitmapMsg) (i W : Nat)
    (hle : ∀ m, m ≤ W → ∃ r, b.rankIndex[m]? = some r ∧ r ≤ i)
    (hgt : ∃ r, b.rankIndex[W + 1]? = some r ∧ i < r)
    (fuel wordI : Nat) (h1 : wordI ≤ W) (h2 : W - wordI < fuel) :
    select32R64.walk b i fuel wordI = .ok W := by
  induction fuel generalizing wordI with
  | zero => omega
  | succ fuel ih =>
    unfold select32R64.walk
    rcases Nat.lt_or_ge wordI W with h | h
    · obtain ⟨r, hr1, hr2⟩ := hle (wordI + 1) h
      simp only [hr1, hr2, if_true]
      exact ih (wordI + 1) h (by omega)
    · have : wordI = W := by omega
      subst this
      obtain ⟨r, hr1, hr2⟩ := hgt
      have : ¬ r ≤ i := by omega
      simp only [hr1, this, if_false]

/-- `select32R64` on any word list: the `i`-th set bit and the next set bit after it -/
theorem select32R64_mk (ws : List Nat) (i a : Nat) (ha : (toArray ws)[i]? = some a) :
    select32R64 (mk ws "s32") i = .ok (a, nextOne ws (a + 1)) := by
  have hlen : i < (toArray ws).length := (List.getElem?_eq_some_iff.mp ha).1
  rw [toArray_getElem?_eq_some] at ha
  obtain ⟨ha1, ha2, ha3⟩ := ha
  -- the select index entry
  have hs0 : (toArray ws)[i / 32 * 32]? = some ((toArray ws).getD (i / 32 * 32) 0) := by
    have : i / 32 * 32 < (toArray ws).length := by omega
    rw [List.getD_eq_getElem?_getD, List.getElem?_eq_getElem this]; rfl
  generalize (toArray ws).getD (i / 32 * 32) 0 = s0 at hs0
  have hsel : (indexSelect32 ws)[i / 32]? = some s0 := by
    rw [indexSelect32_getElem?, if_pos (by omega)]
    have : i / 32 * 32 < (toArray ws).length := by omega
    rw [List.getD_eq_getElem?_getD, hs0]; rfl
  rw [toArray_getElem?_eq_some] at hs0
  obtain ⟨hs1, hs2, hs3⟩ := hs0
  have hs0a : s0 ≤ a := by
    rcases Nat.lt_or_ge a s0 with h | h
    · have := cnt_succ_le_of_true ha2 h; omega
    · exact h
  -- the walk
  have hW : a / 64 < ws.length := by omega
  have hwalk : select32R64.walk (mk ws "s32") i ((mk ws "s32").rankIndex.length + 1) (s0 / 64)
      = .ok (a / 64) := by
    apply walk_eq
    · intro m hm
      refine ⟨cnt (getBit ws) (64 * m), ?_, ?_⟩
      · rw [mk_s32]; simp only
        rw [indexRank64_getElem?, if_pos (Or.inl (by omega))]
      · rw [← ha3]; exact cnt_mono _ (by omega)
    · refine ⟨cnt (getBit ws) (64 * (a / 64 + 1)), ?_, ?_⟩
      · rw [mk_s32]; simp only
        rw [indexRank64_getElem?, if_pos]
        rcases Nat.lt_or_ge (a / 64 + 1) ws.length with h | h
        · exact Or.inl h
        · exact Or.inr ⟨rfl, by omega⟩
      · have := cnt_succ_le_of_true ha2 (show a < 64 * (a / 64 + 1) by omega); omega
    · omega
    · rw [mk_s32]; simp only
      rw [indexRank64_length]; simp; omega
  have hword : ws[a / 64]? = some ws[a / 64] := List.getElem?_eq_getElem hW
  have hbase : (mk ws "s32").rankIndex[a / 64]? = some (cnt (getBit ws) (64 * (a / 64))) := by
    rw [mk_s32]; simp only
    rw [indexRank64_getElem?, if_pos (Or.inl hW)]
  have hwd : ws.getD (a / 64) 0 = ws[a / 64] := by
    rw [List.getD_eq_getElem?_getD, List.getElem?_eq_getElem hW]; rfl
  have hoff : selectInWord ws[a / 64] (i - cnt (getBit ws) (64 * (a / 64))) = some (a % 64) := by
    rw [selectInWord_eq_some]
    refine ⟨by omega, ?_, ?_⟩
    · rw [← hwd]; exact ha2
    · have := cnt_getBit_split ws a
      rw [popcount_mod_two_pow_cnt _ _ (by omega), hwd] at this
      omega
  have hselI : (mk ws "s32").selectIndex[i / 32]? = some s0 := by
    rw [mk_s32]; exact hsel
  have hwords : (mk ws "s32").words = ws := by rw [mk_s32]
  unfold select32R64
  simp only [hselI, hwalk, hword, hbase, hoff, hwords, bind, Except.bind, pure, Except.pure]
  have : a / 64 * 64 + a % 64 = a := by omega
  rw [this]

theorem select32R64_mk_next (ws : List Nat) (i a c : Nat) (ha : (toArray ws)[i]? = some a)
    (hc : (toArray ws)[i + 1]? = some c) :
    select32R64 (mk ws "s32") i = .ok (a, c) := by
  rw [select32R64_mk ws i a ha, nextOne_toArray_succ ws i a c ha hc]

theorem select32R64_mk_last (ws : List Nat) (i a : Nat) (ha : (toArray ws)[i]? = some a)
    (hl : (toArray ws).length = i + 1) :
    select32R64 (mk ws "s32") i = .ok (a, 64 * ws.length) := by
  rw [select32R64_mk ws i a ha, nextOne_toArray_last ws i a ha hl]

/-! ### the set positions of `ofIdx` -/

theorem toArray_ofIdx_of_asc {idxs : List Nat} (h : Asc idxs) (capa : Nat) :
    toArray (ofIdx idxs capa) = idxs := by
  rw [toArray_eq]
  apply filter_range_eq_of_asc h
  · intro x hx
    rw [getBit_ofIdx idxs capa x hx]; simp
  · exact ofIdx_mem_lt h.ascLe capa

theorem asc_eraseDups_aux (n : Nat) :
    ∀ l : List Nat, l.length ≤ n → AscLe l → Asc l.eraseDups := by
  induction n with
  | zero =>
    intro l hl _
    have : l = [] := List.eq_nil_of_length_eq_zero (by omega)
    subst this; simp
  | succ n ih =>
    intro l hl h
    cases l with
    | nil => simp
    | cons a as =>
      have ha := List.pairwise_cons.mp h
      rw [List.eraseDups_cons]
      have hlen : (as.filter fun b => !b == a).length ≤ n := by
        have := List.length_filter_le (fun b => !b == a) as
        simp only [List.length_cons] at hl; omega
      rw [Asc, List.pairwise_cons]
      refine ⟨?_, ih _ hlen (List.Pairwise.filter _ ha.2)⟩
      intro b hb
      rw [mem_eraseDups, List.mem_filter] at hb
      have h1 := ha.1 b hb.1
      have h2 : b ≠ a := by simpa using hb.2
      omega

theorem asc_eraseDups {l : List Nat} (h : AscLe l) : Asc l.eraseDups :=
  asc_eraseDups_aux _ l (Nat.le_refl _) h

/-- the set positions of `ofIdx idxs capa` are the distinct indexes -/
theorem toArray_ofIdx {idxs : List Nat} (h : AscLe idxs) (capa : Nat) :
    toArray (ofIdx idxs capa) = idxs.eraseDups := by
  rw [toArray_eq]
  apply filter_range_eq_of_asc (asc_eraseDups h)
  · intro x hx
    rw [getBit_ofIdx idxs capa x hx, mem_eraseDups]; simp
  · intro x hx
    rw [mem_eraseDups] at hx
    exact ofIdx_mem_lt h capa x hx

/-- `select32R64` on `newBM idxs capa "s32"`: the `k`-th distinct index and the next one -/
theorem select32R64_newBM {idxs : List Nat} (h : AscLe idxs) (capa k a c : Nat)
    (ha : idxs.eraseDups[k]? = some a) (hc : idxs.eraseDups[k + 1]? = some c) :
    select32R64 (newBM idxs capa "s32") k = .ok (a, c) := by
  unfold newBM
  apply select32R64_mk_next <;> rw [toArray_ofIdx h] <;> assumption

/-- the last distinct index: the second component is the bit length -/
theorem select32R64_newBM_last {idxs : List Nat} (h : AscLe idxs) (capa k a : Nat)
    (ha : idxs.eraseDups[k]? = some a) (hl : idxs.eraseDups.length = k + 1) :
    select32R64 (newBM idxs capa "s32") k = .ok (a, 64 * (ofIdx idxs capa).length) := by
  unfold newBM
  apply select32R64_mk_last <;> rw [toArray_ofIdx h] <;> assumption

theorem select32R64_newBM_asc {idxs : List Nat} (h : Asc idxs) (capa k a c : Nat)
    (ha : idxs[k]? = some a) (hc : idxs[k + 1]? = some c) :
    select32R64 (newBM idxs capa "s32") k = .ok (a, c) := by
  apply select32R64_newBM h.ascLe <;> rw [eraseDups_of_asc h] <;> assumption

end Bits
