import Generated.Funcs
import SlimProps.BridgeSem.Common
import SlimModel.Slim
/-
  SlimProps.BridgeSem.Offsets — tie 1, semantic part: offset arithmetic of the inner-node bitmaps (slimtrie_vars.go, slimtrie_getnode.go).
  See SlimProps/BridgeSem.lean for the overview.
-/

open Generated

namespace BridgeSem

/-! ### offset arithmetic of the inner-node bitmaps (slimtrie_vars.go, slimtrie_getnode.go) -/

/-- `BigInnerOffset = (bigInnerSize - innerSize) * BigInnerCnt` (no overflow: the count fits) -/
theorem bigInnerOffset_sem (cnt : Nat) (h : 240 * cnt < 2 ^ 31) :
    Generated.bigInnerOffset cnt = ((Slim.bigInnerSize : Int) - Slim.innerSize) * cnt := by
  unfold Generated.bigInnerOffset
  go_simp
  simp only [Slim.bigInnerSize, Slim.innerSize]
  omega

/-- `ShortMinusInner = ShortSize - innerSize` (negative for every real short size) -/
theorem shortMinusInner_sem (ss : Nat) (h : ss < 2 ^ 31) :
    Generated.shortMinusInner ss = (ss : Int) - Slim.innerSize := by
  unfold Generated.shortMinusInner
  conv => lhs; rw [← ofS_natCast (w := 32) (n := ss) (by omega),
    ← ofS_natCast (w := 32) (n := 17) (by omega)]
  rw [sub_ofS, toS_ofS (by omega)]
  · simp [Slim.innerSize]
  · simp only [Nat.add_one_sub_one]; omega
  · simp only [Nat.add_one_sub_one]; omega

theorem innerFromBig_sem (ith : Nat) (h : ith * 257 < 2 ^ 31) :
    Generated.innerFromBig ith = ((ith * Slim.bigInnerSize : Nat) : Int) ∧
    Generated.getNodeFromBig ith = ((ith * Slim.bigInnerSize : Nat) : Int) := by
  unfold Generated.innerFromBig Generated.getNodeFromBig
  go_simp
  simp [Slim.bigInnerSize]

/-- `from = BigInnerOffset + innerSize*ithInner + ShortMinusInner*ithShort` on int32 values
    `bo`, `sm` (given by their patterns `Go.ofS 32 _`): whenever the RESULT fits an int32 it is the
    integer the model computes — intermediate wrap-around does not matter. -/
theorem innerFromSmall_sem (ith ithShort : Nat) (bo sm : Int) (hi : ith < 2 ^ 32) (hs : ithShort < 2 ^ 32)
    (hlo : -(2 : Int) ^ 31 ≤ bo + 17 * ith + sm * ithShort)
    (hhi : bo + 17 * ith + sm * ithShort < (2 : Int) ^ 31) :
    Generated.innerFromSmall ith (Go.ofS 32 bo) (Go.ofS 32 sm) ithShort
      = bo + (Slim.innerSize : Int) * ith + sm * ithShort ∧
    Generated.getNodeFromSmall ith (Go.ofS 32 bo) (Go.ofS 32 sm) ithShort
      = bo + (Slim.innerSize : Int) * ith + sm * ithShort := by
  have hinner : (Slim.innerSize : Int) = 17 := rfl
  unfold Generated.innerFromSmall Generated.getNodeFromSmall
  constructor <;>
  · conv => lhs; rw [← ofS_natCast (w := 32) (n := ith) hi, ← ofS_natCast (w := 32) (n := ithShort) hs,
      ← ofS_natCast (w := 32) (n := 17) (by omega)]
    simp only [mul_ofS, add_ofS]
    rw [toS_ofS (by omega) (by simp only [Nat.add_one_sub_one]; omega)
      (by simp only [Nat.add_one_sub_one]; omega), hinner]
    omega

/-- the composition the model uses (`Slim.innerFrom`, `Slim.ithInnerFrom`): with the fields set
    by `initVars`, `from` is the model's `Int` expression whenever everything fits an int32 -/
theorem innerFrom_offset_sem (cnt ss ith ithShort : Nat) (hc : 240 * cnt < 2 ^ 31) (hss : ss < 2 ^ 31)
    (hi : ith < 2 ^ 32) (hs : ithShort < 2 ^ 32)
    (hlo : -(2 : Int) ^ 31 ≤ ((Slim.bigInnerSize : Int) - Slim.innerSize) * cnt + (Slim.innerSize : Int) * ith
      + ((ss : Int) - Slim.innerSize) * ithShort)
    (hhi : ((Slim.bigInnerSize : Int) - Slim.innerSize) * cnt + (Slim.innerSize : Int) * ith
      + ((ss : Int) - Slim.innerSize) * ithShort < (2 : Int) ^ 31) :
    Generated.innerFromSmall ith (Go.ofS 32 (Generated.bigInnerOffset cnt))
        (Go.ofS 32 (Generated.shortMinusInner ss)) ithShort
      = ((Slim.bigInnerSize : Int) - Slim.innerSize) * cnt + (Slim.innerSize : Int) * ith
        + ((ss : Int) - Slim.innerSize) * ithShort := by
  rw [bigInnerOffset_sem cnt hc, shortMinusInner_sem ss hss]
  have hinner : (Slim.innerSize : Int) = 17 := rfl
  exact (innerFromSmall_sem ith ithShort _ _ hi hs (by rw [← hinner]; exact hlo)
    (by rw [← hinner]; exact hhi)).1

end BridgeSem

#print axioms BridgeSem.bigInnerOffset_sem
#print axioms BridgeSem.shortMinusInner_sem
#print axioms BridgeSem.innerFromBig_sem
#print axioms BridgeSem.innerFromSmall_sem
#print axioms BridgeSem.innerFrom_offset_sem
