import SlimProps.C03
import SlimProofs.IterMain
import SlimProofs.IterScan
import SlimProofs.LeafCount
/-
  SlimProps.C04Iter — scans on Complete tries (the positive half of C04; the refusal clause and
  `C04_exhausted_stable` are in SlimProps.C04).

  Stage (a): `C04_getGEPath` — for every successful `build` with `opt.complete = true` and every
  start string, `getGEPath` returns normally; its path is the root-to-leaf id path
  (`IterLemmas.RootPath`) of the smallest retained key `≥ start` (`IterLemmas.FirstGE`), the empty
  path if every retained key is below `start`, and `eq` says whether that key is `start` itself.

  Stages (b)+(c): `C04_iter` — `NewIter(start, incl)` returns normally and ANY number `k` of
  `next()` calls yields `Spec.scanFrom R start incl` (R = `retained keys vals opt.dedup`), i.e. the
  retained keys `≥ start` (`> start` if exclusive) in ascending order, each once, as
  `(key bytes, value)` with value = nil when values are not requested or none are stored, else the
  entry's encoded value (`C04.item`), followed by `(nil, nil)` on every later call
  (`IterStack.expect`).  Key reassembly (b) is part of it: the yielded key bytes are the entry's key
  (`IterStack.descend_spec`: buffer invariant `BufAgree`, `appendLabel_spec`,
  `appendInnerPrefix_spec`, `appendLeafPrefix_spec`; no `reslice beyond len`).

  Stage (d): `C04_scanFrom` — the callback sequence of `ScanFrom` is `Spec.scanFrom R start incl`
  (as `C04.pair`: key bytes and value), cut by `takeWhile` of the caller's bound test and
  truncated after the `stopAfter`-th item (`IterScan.truncate`; `none`/`some 0`: the callback never
  returns false); the fuel `nodeCnt + 2` of the model suffices (at most one item per leaf:
  `build_leavesBefore`).  `C04_scanFromTo` — with the end bound and both end inclusivities the
  sequence is `Spec.scanFromTo R start incl stop inclEnd`, truncated the same way.
-/

open IterLemmas Subtree SearchDescent Exact Scan

/-- **C04 (a).**  `getGEPath` finds the path to the first retained key `≥ start`. -/
theorem C04_getGEPath (keys : List Bytes) (vals : Option (List Bytes)) (opt : Opt) (t : Trie1)
    (hb : build keys vals opt = .ok t) (hc : opt.complete = true) (start : Bytes) :
    ∃ p, getGEPath t.view start = .ok p ∧
      GERes keys (keepMask keys.length vals opt.dedup) t start p := by
  by_cases hne : keys = []
  · subst hne
    rw [C03.build_nil vals opt t hb]
    refine ⟨{ path := [], eq := false }, rfl, Or.inr ⟨?_, rfl, rfl⟩⟩
    intro t' h; exact absurd h (Nat.not_lt_zero _)
  · obtain ⟨hwf, hopt⟩ := build_wf keys vals opt t hb hne
    obtain ⟨hin, hlf⟩ := C03.complete_opt hc
    rw [← hopt] at hin hlf
    exact getGEPath_exact keys _ t (build_strictAsc keys vals opt t hb hne) hwf hin hlf start

/-! ### (b)+(c): the iterator against `Spec.scanFrom` -/

namespace C04

/-- the item `next()` yields for a retained entry: key bytes and, if requested, the value
    (nil when every retained value is empty or none were supplied) -/
def item (R : List Entry) (wv : Bool) (e : Entry) : Option Bytes × Option Bytes :=
  (some e.1, if wv then (if eltsTotal (R.map (fun e => e.2.getD [])) = 0 then none else e.2)
             else none)

/-- `Spec.scanFrom` over the retained list, by kept indexes -/
theorem scanFrom_eq (keys : List Bytes) (vals : Option (List Bytes)) (keep : List Bool)
    (start : Bytes) (incl : Bool) :
    Spec.scanFrom ((C09.keptIdx keep keys.length).map (C09.entryAt keys vals)) start incl =
      (IterMain.scanIdx keys keep start incl).map (C09.entryAt keys vals) := by
  unfold Spec.scanFrom IterMain.scanIdx
  rw [List.filter_map]
  congr 1
  unfold C09.keptIdx IterStack.kfrom
  rw [Nat.sub_zero, List.range_eq_range']
  rfl

theorem item_entryAt (keys : List Bytes) (vals : Option (List Bytes)) (keep : List Bool)
    (hv : ∀ vs, vals = some vs → vs.length = keys.length) (wv : Bool) (i : Nat) :
    item ((C09.keptIdx keep keys.length).map (C09.entryAt keys vals)) wv (C09.entryAt keys vals i)
      = IterStack.yieldOf keys (recVal keep vals) wv i := by
  have h := C09.shownVal_entryAt keys vals keep hv (some i)
  simp only [Option.map_some, shownVal, valOf, Option.some.injEq] at h
  unfold item IterStack.yieldOf
  rw [h]
  rfl

end C04

/-- **C04 (iterator).**  On a Complete trie, `NewIter(start, incl)` followed by `k` calls of
    `next()` yields the first `k` entries of `Spec.scanFrom R start incl` (as `C04.item`), padded
    with `(nil, nil)` once the entries are exhausted — for every `start`, both inclusivities,
    with and without values, every `k`. -/
theorem C04_iter (keys : List Bytes) (vals : Option (List Bytes)) (opt : Opt) (t : Trie1)
    (hb : build keys vals opt = .ok t) (hc : opt.complete = true)
    (start : Bytes) (incl wv : Bool) :
    ∃ s, newIterFrom t.view start incl = .ok s ∧
      ∀ k, iterTake t.view wv k s =
        .ok (IterStack.expect k ((Spec.scanFrom (retained keys vals opt.dedup) start incl).map
          (C04.item (retained keys vals opt.dedup) wv))) := by
  by_cases hne : keys = []
  · subst hne
    rw [C03.build_nil vals opt t hb, C03.retained_nil]
    refine ⟨.walk [] [], rfl, ?_⟩
    intro k
    show _ = Except.ok (IterStack.expect k [])
    rw [IterStack.expect_nil]
    exact IterStack.iterTake_exhausted _ _ k _
  · obtain ⟨hwf, hopt⟩ := build_wf keys vals opt t hb hne
    obtain ⟨hasc, hv, _⟩ := build_pre keys vals opt t hb hne
    obtain ⟨hin, hlf⟩ := C03.complete_opt hc
    rw [← hopt] at hin hlf
    have hget := C09.getLeaf_of_build keys vals opt t hb hne
    rw [C09.retained_eq keys vals opt.dedup hv]
    generalize keepMask keys.length vals opt.dedup = keep at hwf hget ⊢
    have hval : ∀ (id ith : Nat) (lp : Option Bytes) (m : Nat),
        t.nodes[id]? = some (Node.leaf ith lp) → t.leafKeyIdx[ith]? = some m →
        t.view.leafBytes ith = .ok (recVal keep vals m) := by
      intro id ith lp m h1 h2
      have := hget id m ⟨ith, lp, h1, h2⟩
      unfold getLeaf at this
      rw [IterStack.view_node_of t id _ h1] at this
      exact this
    obtain ⟨s, hs, htake⟩ :=
      iter_exact keys keep t hasc hwf hin hlf (recVal keep vals) hval start incl wv
    refine ⟨s, hs, ?_⟩
    intro k
    rw [htake k, C04.scanFrom_eq, List.map_map]
    congr 2
    apply List.map_congr_left
    intro i _
    exact (C04.item_entryAt keys vals keep hv wv i).symm

/-! ### (d): `ScanFrom`, `ScanFromTo` -/

namespace C04

/-- what the callback receives for a retained entry -/
def pair (R : List Entry) (wv : Bool) (e : Entry) : Bytes × Option Bytes :=
  (e.1, (item R wv e).2)

theorem leavesBefore_le (nodes : Array Node) (j : Nat) : leavesBefore nodes j ≤ j := by
  unfold leavesBefore
  calc _ ≤ (nodes.toList.take j).length := List.length_filter_le _ _
    _ ≤ j := by rw [List.length_take]; exact Nat.min_le_left _ _

/-- a trie has at most as many retained entries as nodes -/
theorem retained_le_nodes (keys : List Bytes) (vals : Option (List Bytes)) (opt : Opt) (t : Trie1)
    (hb : build keys vals opt = .ok t) :
    (retained keys vals opt.dedup).length ≤ t.nodes.size := by
  by_cases hne : keys = []
  · subst hne; rw [C03.retained_nil]; exact Nat.zero_le _
  · rw [← build_leavesBefore keys vals opt t hb hne]
    exact leavesBefore_le _ _

theorem stream (keys : List Bytes) (vals : Option (List Bytes)) (opt : Opt) (t : Trie1)
    (hb : build keys vals opt = .ok t) (hc : opt.complete = true)
    (start : Bytes) (incl wv : Bool) :
    ∃ s, newIterFrom t.view start incl = .ok s ∧
      IterScan.Stream t.view wv s
        ((Spec.scanFrom (retained keys vals opt.dedup) start incl).map
          (pair (retained keys vals opt.dedup) wv)) := by
  obtain ⟨s, hs, htake⟩ := C04_iter keys vals opt t hb hc start incl wv
  refine ⟨s, hs, ?_⟩
  intro k
  rw [htake k, List.map_map]
  rfl

theorem bound_eq (stop : Bytes) (inclEnd : Bool) (k : Bytes) :
    (match cmpBytes k stop with
      | .lt => true
      | .eq => inclEnd
      | .gt => false) = (if inclEnd then bytesLe k stop else bytesLt k stop) := by
  unfold bytesLe bytesLt
  cases cmpBytes k stop <;> cases inclEnd <;> rfl

end C04

/-- **C04 (ScanFrom).**  On a Complete trie the items passed to the callback of `ScanFrom` are the
    entries of `Spec.scanFrom R start incl`, in order, as long as the wrapper's bound test `keepFn`
    holds, up to and including the `stopAfter`-th item. -/
theorem C04_scanFrom (keys : List Bytes) (vals : Option (List Bytes)) (opt : Opt) (t : Trie1)
    (hb : build keys vals opt = .ok t) (hc : opt.complete = true)
    (start : Bytes) (incl wv : Bool) (keepFn : Bytes → Bool) (stopAfter : Option Nat) :
    scanFrom t.view start incl wv keepFn stopAfter =
      .ok (IterScan.truncate stopAfter
        (((Spec.scanFrom (retained keys vals opt.dedup) start incl).map
          (C04.pair (retained keys vals opt.dedup) wv)).takeWhile (fun y => keepFn y.1))) := by
  obtain ⟨s, hs, hstream⟩ := C04.stream keys vals opt t hb hc start incl wv
  unfold scanFrom
  rw [hs]
  show scanFrom.go t.view wv keepFn stopAfter (t.view.nodeCnt + 2) s 0 = _
  rw [IterScan.go_spec t.view wv keepFn stopAfter _ _ s 0 hstream, IterScan.goSpec_eq]
  rw [List.length_map]
  have h1 : (Spec.scanFrom (retained keys vals opt.dedup) start incl).length
      ≤ (retained keys vals opt.dedup).length := List.length_filter_le _ _
  have h2 := C04.retained_le_nodes keys vals opt t hb
  show _ < t.nodes.size + 2
  omega

/-- **C04 (ScanFromTo).**  With an end bound the callback sequence is
    `Spec.scanFromTo R start incl stop inclEnd`, up to and including the `stopAfter`-th item. -/
theorem C04_scanFromTo (keys : List Bytes) (vals : Option (List Bytes)) (opt : Opt) (t : Trie1)
    (hb : build keys vals opt = .ok t) (hc : opt.complete = true)
    (start : Bytes) (incl : Bool) (stop : Bytes) (inclEnd wv : Bool) (stopAfter : Option Nat) :
    scanFromTo t.view start incl stop inclEnd wv stopAfter =
      .ok (IterScan.truncate stopAfter
        ((Spec.scanFromTo (retained keys vals opt.dedup) start incl stop inclEnd).map
          (C04.pair (retained keys vals opt.dedup) wv))) := by
  unfold scanFromTo
  rw [C04_scanFrom keys vals opt t hb hc]
  unfold Spec.scanFromTo
  rw [List.takeWhile_map]
  congr 4
  funext e
  exact C04.bound_eq stop inclEnd e.1

/-! ### non-vacuity -/

/-- on the example trie of C03 (Complete, record 1 de-duplicated): from "ab" (a dropped key) the
    path leads to the leaf of "a\x80\x01" and `eq = false`; from "b\xff" it is an exact hit; above
    the last key the path is empty -/
example : ∃ t, build C03.exKeys (some C03.exVals) C03.exOpt = .ok t ∧ C03.exOpt.complete = true ∧
    (getGEPath t.view [0x61, 0x62]).toOption.map (·.eq) = some false ∧
    (getGEPath t.view [0x62, 0xff]).toOption.map (·.eq) = some true ∧
    (getGEPath t.view [0xff]).toOption.map (·.path) = some [] := by
  have h : (build C03.exKeys (some C03.exVals) C03.exOpt).toBool = true := by decide +kernel
  match hb : build C03.exKeys (some C03.exVals) C03.exOpt with
  | .ok t =>
    have hb' : build C03.exKeys (some C03.exVals) C03.exOpt = .ok t := hb
    refine ⟨t, rfl, by decide, ?_, ?_, ?_⟩
    all_goals (
      have ht : t = (match build C03.exKeys (some C03.exVals) C03.exOpt with
        | .ok t => t | .error _ => default) := by rw [hb']
      rw [ht]
      decide +kernel)
  | .error e => rw [hb] at h; cases h

/-- by the theorems, on the same trie: five `next()` calls after `NewIter("ab", inclusive)` with
    values yield the three retained entries above the dropped key "ab", then `(nil, nil)` twice;
    `ScanFromTo("a" exclusive, "b\xff" inclusive)` without values passes two keys to the callback;
    `ScanFrom("")` with a callback that stops at the first item passes one -/
example : ∃ t, build C03.exKeys (some C03.exVals) C03.exOpt = .ok t ∧
    (∃ s, newIterFrom t.view [0x61, 0x62] true = .ok s ∧
      iterTake t.view true 5 s = .ok
        [(some [0x61, 0x80, 0x01], some [2]), (some [0x62, 0xff], some [2, 0]),
         (some [0xf0], some [3]), (none, none), (none, none)]) ∧
    scanFromTo t.view [0x61] false [0x62, 0xff] true false none =
      .ok [([0x61, 0x80, 0x01], none), ([0x62, 0xff], none)] ∧
    scanFrom t.view [] true true (fun _ => true) (some 1) = .ok [([0x61], some [1])] := by
  have h : (build C03.exKeys (some C03.exVals) C03.exOpt).toBool = true := by decide +kernel
  match hb : build C03.exKeys (some C03.exVals) C03.exOpt with
  | .ok t =>
    have hc : C03.exOpt.complete = true := by decide
    refine ⟨t, rfl, ?_, ?_, ?_⟩
    · obtain ⟨s, hs, htake⟩ := C04_iter _ _ _ t hb hc [0x61, 0x62] true true
      refine ⟨s, hs, ?_⟩
      rw [htake 5]
      refine congrArg Except.ok ?_
      decide +kernel
    · rw [C04_scanFromTo _ _ _ t hb hc]
      refine congrArg Except.ok ?_
      decide +kernel
    · rw [C04_scanFrom _ _ _ t hb hc]
      refine congrArg Except.ok ?_
      decide +kernel
  | .error e => rw [hb] at h; cases h

#print axioms C04_getGEPath
#print axioms C04_iter
#print axioms C04_scanFrom
#print axioms C04_scanFromTo
