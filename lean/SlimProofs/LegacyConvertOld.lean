import SlimModel.LegacyWrite
import SlimProofs.BuildInv
import SlimProofs.LegacyFuel
/-
  SlimProofs.LegacyConvertOld — stage (i) of C06 for the three-section layouts: a specification of
  the reconstructed old builder `LegacyWrite.buildOld` as a loop invariant of `oldLoop`
  (in the style of `BuildInv.BInv` for today's builder).

  * `groupRuns_spec'`   the runs of a monotone label function: each run is exactly the keys of its
                        label (`RunOK`), labels strictly ascending, every key in a run
  * `prefix_between`    a key between two keys that share a prefix of length `c` has that prefix
  * `brPos`, `endsAt`, `restStart`, `nibAt`, `runsOf`, `kidsOf`, `nodeOf`, `oldStep_eq`
                        `oldStep` in named pieces
  * `fcOf`              id of the first child: `1 +` number of children of all earlier nodes
  * `SubGood`           a well-formed range (inside the keys, common prefix of depth `d`)
  * `BranchFacts`, `branch_facts`, `RunFacts`, `run_facts`, `kid_good`
                        a range with ≥ 2 sorted keys: `d ≤ c`, all keys share the first `c`
                        half-bytes, only the first key can end at `c`, the half-bytes at `c` are
                        monotone, the runs are well-formed ranges of depth `c + 1`
  * `OInv`, `oinv_step`, `oldLoop_inv`, `buildOld_spec`
                        node `j` of the result is `nodeOf … (fcOf … j) oq[j]`, its children are the
                        entries `fcOf … j + k` of the final queue `oq`, every range is `SubGood`
-/

namespace LegacyConvert
open LegacyWrite

/-! ### `groupRuns` on monotone labels -/

theorem groupRuns_succ (lab : Nat → Nat) (e fuel s : Nat) (h : s < e) :
    groupRuns lab e (fuel + 1) s =
      (lab s, s, scanWhile (fun t => lab t == lab s) (e - (s + 1)) (s + 1)) ::
        groupRuns lab e fuel (scanWhile (fun t => lab t == lab s) (e - (s + 1)) (s + 1)) := by
  rw [groupRuns, if_pos h]

theorem groupRuns_done (lab : Nat → Nat) (e fuel s : Nat) (h : ¬ s < e) :
    groupRuns lab e fuel s = [] := by
  cases fuel with
  | zero => rfl
  | succ f => rw [groupRuns, if_neg h]

/-- the runs of a monotone label function: each run is exactly the keys of its label, the labels
    ascend strictly, the label of a run is the label of its first key, every key is in a run -/
theorem groupRuns_spec' (lab : Nat → Nat) (e : Nat) :
    ∀ fuel s, s ≤ e → e - s ≤ fuel →
      (∀ a b, s ≤ a → a ≤ b → b < e → lab a ≤ lab b) →
      (∀ x ∈ groupRuns lab e fuel s, RunOK lab s e x ∧ x.1 = lab x.2.1) ∧
      ((groupRuns lab e fuel s).map (·.1)).Pairwise (· < ·) ∧
      (∀ x ∈ groupRuns lab e fuel s, ∀ t, s ≤ t → t < e → lab s ≤ x.1) ∧
      (∀ t, s ≤ t → t < e → ∃ x ∈ groupRuns lab e fuel s, x.2.1 ≤ t ∧ t < x.2.2) := by
  intro fuel
  induction fuel with
  | zero =>
    intro s h1 h2 _
    have : ¬ s < e := by omega
    rw [groupRuns_done _ _ _ _ this]
    refine ⟨by simp, by simp, by simp, fun t h3 h4 => by omega⟩
  | succ fuel ih =>
    intro s h1 h2 hmono
    by_cases hse : s < e
    · rw [groupRuns_succ _ _ _ _ hse]
      have hge := scanWhile_ge (fun t => lab t == lab s) (e - (s + 1)) (s + 1)
      have hle := scanWhile_le (fun t => lab t == lab s) (e - (s + 1)) (s + 1)
      have hall := scanWhile_all (fun t => lab t == lab s) (e - (s + 1)) (s + 1)
      have hstop := scanWhile_stop (fun t => lab t == lab s) (e - (s + 1)) (s + 1)
      generalize scanWhile (fun t => lab t == lab s) (e - (s + 1)) (s + 1) = j at hge hle hall hstop
      have hje : j ≤ e := by omega
      have hin : ∀ t, s ≤ t → t < j → lab t = lab s := by
        intro t h3 h4
        by_cases hts : t = s
        · rw [hts]
        · simpa using hall t (by omega) h4
      have hafter : ∀ t, j ≤ t → t < e → lab s < lab t := by
        intro t h3 h4
        have hj1 : lab j ≠ lab s := by simpa using hstop (by omega)
        have hj2 := hmono s j (Nat.le_refl _) (by omega) (by omega)
        have hj3 := hmono j t (by omega) h3 h4
        omega
      obtain ⟨ha, hb, hc, hd⟩ := ih j hje (by omega)
        (fun a b h3 h4 h5 => hmono a b (by omega) h4 h5)
      refine ⟨?_, ?_, ?_, ?_⟩
      · intro x hx
        rcases List.mem_cons.mp hx with rfl | hx
        · refine ⟨⟨Nat.le_refl _, by simp only; omega, hje, ?_⟩, rfl⟩
          intro t h3 h4
          simp only
          constructor
          · rintro ⟨h5, h6⟩; exact hin t h5 h6
          · intro h5
            refine ⟨h3, ?_⟩
            apply Nat.lt_of_not_le; intro h6
            have := hafter t h6 h4; omega
        · obtain ⟨hr, hl⟩ := ha x hx
          refine ⟨⟨by have := hr.ge; omega, hr.lt, hr.le, ?_⟩, hl⟩
          intro t h3 h4
          by_cases htj : j ≤ t
          · exact hr.iff t htj h4
          · have h5 := hin t h3 (by omega)
            have h6 := hr.ge
            have h7 := hafter x.2.1 h6 (by have := hr.lt; have := hr.le; omega)
            constructor
            · rintro ⟨h8, _⟩; omega
            · intro h8; rw [hl] at h8; omega
      · rw [List.map_cons, List.pairwise_cons]
        refine ⟨?_, hb⟩
        intro w hw
        obtain ⟨x, hx, rfl⟩ := List.mem_map.mp hw
        obtain ⟨hr, hl⟩ := ha x hx
        rw [hl]
        exact hafter x.2.1 hr.ge (by have := hr.lt; have := hr.le; omega)
      · intro x hx t _ _
        rcases List.mem_cons.mp hx with rfl | hx
        · exact Nat.le_refl _
        · obtain ⟨hr, hl⟩ := ha x hx
          rw [hl]
          exact Nat.le_of_lt (hafter x.2.1 hr.ge (by have := hr.lt; have := hr.le; omega))
      · intro t h3 h4
        by_cases htj : t < j
        · exact ⟨_, List.mem_cons_self, h3, htj⟩
        · obtain ⟨x, hx, h5⟩ := hd t (by omega) h4
          exact ⟨x, List.mem_cons_of_mem _ hx, h5⟩
    · have : s = e := by omega
      rw [groupRuns_done _ _ _ _ hse]
      refine ⟨by simp, by simp, by simp, fun t h3 h4 => by omega⟩

/-! ### a key between two keys with a common prefix has that prefix -/

theorem prefix_between (c : Nat) : ∀ (a x b : List Nat), lexCmp a x ≠ .gt → lexCmp x b ≠ .gt →
    a.take c = b.take c → c ≤ a.length → c ≤ b.length →
    x.take c = a.take c ∧ c ≤ x.length := by
  induction c with
  | zero => intro a x b _ _ _ _ _; simp
  | succ c ih =>
    intro a x b h1 h2 hab hca hcb
    cases a with
    | nil => simp at hca
    | cons a0 as =>
      cases b with
      | nil => simp at hcb
      | cons b0 bs =>
        simp only [List.take_succ_cons, List.cons.injEq] at hab
        obtain ⟨hab0, habs⟩ := hab
        cases x with
        | nil => simp [lexCmp] at h1
        | cons x0 xs =>
          simp only [lexCmp] at h1 h2
          have hx1 : ¬ x0 < a0 := by
            intro h; rw [if_neg (by omega), if_pos h] at h1; exact h1 rfl
          have hx2 : ¬ b0 < x0 := by
            intro h; rw [if_neg (by omega), if_pos h] at h2; exact h2 rfl
          have hx0 : x0 = a0 := by omega
          subst hx0
          rw [if_neg (by omega), if_neg (by omega)] at h1
          rw [if_neg (by omega), if_neg (by omega)] at h2
          simp only [List.length_cons] at hca hcb
          obtain ⟨h3, h4⟩ := ih as xs bs h1 h2 habs (by omega) (by omega)
          simp only [List.take_succ_cons, h3, List.length_cons]
          exact ⟨trivial, by omega⟩

/-! ### the pieces of `oldStep` -/

/-- branching position of a range: the length of the common prefix of its first and last key -/
def brPos (kn : Array (List Nat)) (q : Sub) : Nat := lcp (kn.getD q.s []) (kn.getD (q.e - 1) [])

/-- the first key of the range ends at the branching position -/
def endsAt (kn : Array (List Nat)) (q : Sub) : Bool := (kn.getD q.s []).length == brPos kn q

/-- first key of the range that goes on behind the branching position -/
def restStart (kn : Array (List Nat)) (q : Sub) : Nat := if endsAt kn q then q.s + 1 else q.s

/-- half-byte of key `t` at the branching position -/
def nibAt (kn : Array (List Nat)) (c t : Nat) : Nat := (kn.getD t []).getD c 0

def runsOf (kn : Array (List Nat)) (q : Sub) : List (Nat × Nat × Nat) :=
  groupRuns (nibAt kn (brPos kn q)) q.e (q.e - restStart kn q) (restStart kn q)

def kidOfRun (c : Nat) (x : Nat × Nat × Nat) : Sub := { s := x.2.1, e := x.2.2, d := c + 1 }

def kidsOf (kn : Array (List Nat)) (q : Sub) : List Sub :=
  if q.e - q.s = 1 then [] else (runsOf kn q).map (kidOfRun (brPos kn q))

def nodeOf (kn : Array (List Nat)) (ls : Bool) (fc : Nat) (q : Sub) : OldNode :=
  if q.e - q.s = 1 then
    { leaf := some q.s
      step := if ls && decide ((kn.getD q.s []).length - q.d + 1 > 1)
              then (kn.getD q.s []).length - q.d + 1 else 0 }
  else
    { inner := true
      bm := (runsOf kn q).foldl (fun a r => a ||| (1 <<< r.1)) 0
      firstChild := fc
      step := if brPos kn q - q.d + 1 > 1 then brPos kn q - q.d + 1 else 0
      leaf := if endsAt kn q then some q.s else none }

theorem oldStep_eq (kn : Array (List Nat)) (ls : Bool) (fc : Nat) (q : Sub) :
    oldStep kn ls fc q = (nodeOf kn ls fc q, kidsOf kn q) := by
  unfold oldStep nodeOf kidsOf
  by_cases h : q.e - q.s = 1
  · rw [if_pos h, if_pos h, if_pos h]
  · rw [if_neg h, if_neg h, if_neg h]
    have : (fun (x : Nat × Nat × Nat) => match x with
        | (_, s', j) => ({ s := s', e := j, d := brPos kn q + 1 } : Sub))
        = kidOfRun (brPos kn q) := by
      funext ⟨w, s', j⟩; rfl
    simp only [runsOf, brPos, endsAt, restStart] at this ⊢
    rw [this]
    rfl

/-- id of the first child of old node `i`: `1 +` the number of children of all earlier nodes -/
def fcOf (kn : Array (List Nat)) (oq : Array Sub) (i : Nat) : Nat :=
  1 + ((List.range i).map (fun j => (kidsOf kn (oq.getD j default)).length)).sum

theorem fcOf_succ (kn : Array (List Nat)) (oq : Array Sub) (i : Nat) :
    fcOf kn oq (i + 1) = fcOf kn oq i + (kidsOf kn (oq.getD i default)).length := by
  unfold fcOf
  rw [List.range_succ, List.map_append, List.sum_append]
  simp only [List.map_cons, List.map_nil, List.sum_cons, List.sum_nil]
  omega

theorem fcOf_append (kn : Array (List Nat)) (oq extra : Array Sub) (i : Nat) (h : i ≤ oq.size) :
    fcOf kn (oq ++ extra) i = fcOf kn oq i := by
  unfold fcOf
  congr 2
  apply List.map_congr_left
  intro j hj
  rw [List.mem_range] at hj
  have hj' : j < oq.size := by omega
  simp only [Array.getD_eq_getD_getElem?, Array.getElem?_append_left hj']

/-! ### ranges of the old queue -/

/-- a well-formed range: non-empty, inside the key list, all keys agree before depth `d` and are
    at least `d` long -/
structure SubGood (keys : List Bytes) (q : Sub) : Prop where
  lt : q.s < q.e
  le : q.e ≤ keys.length
  pre : ∀ t, q.s ≤ t → t < q.e →
    q.d ≤ (knOf keys t).length ∧ (knOf keys t).take q.d = (knOf keys q.s).take q.d

/-- facts about a range with at least two keys, `c` its branching position -/
structure BranchFacts (keys : List Bytes) (kn : Array (List Nat)) (q : Sub) : Prop where
  d_le : q.d ≤ brPos kn q
  pre : ∀ t, q.s ≤ t → t < q.e →
    brPos kn q ≤ (knOf keys t).length ∧
      (knOf keys t).take (brPos kn q) = (knOf keys q.s).take (brPos kn q)
  rest_ge : q.s ≤ restStart kn q
  rest_lt : restStart kn q < q.e
  /-- only the first key can end at the branching position -/
  longer : ∀ t, restStart kn q ≤ t → t < q.e → brPos kn q < (knOf keys t).length
  ends : endsAt kn q = true → (knOf keys q.s).length = brPos kn q
  mono : ∀ a b, restStart kn q ≤ a → a ≤ b → b < q.e →
    nibAt kn (brPos kn q) a ≤ nibAt kn (brPos kn q) b

theorem knOf_lt {keys : List Bytes} (hasc : strictAsc keys = true) {a b : Nat} (hab : a < b)
    (hb : b < keys.length) : lexCmp (knOf keys a) (knOf keys b) = .lt :=
  bytesLt_iff_nibs.mp (strictAsc_lt hasc hab hb)

theorem knOf_not_gt {keys : List Bytes} (hasc : strictAsc keys = true) {a b : Nat} (hab : a ≤ b)
    (hb : b < keys.length) : lexCmp (knOf keys a) (knOf keys b) ≠ .gt := by
  by_cases h : a = b
  · rw [h, lexCmp_self]; decide
  · rw [knOf_lt hasc (by omega) hb]; decide

theorem branch_facts {keys : List Bytes} {kn : Array (List Nat)}
    (hkn : ∀ t, kn.getD t [] = knOf keys t) (hasc : strictAsc keys = true) {q : Sub}
    (hg : SubGood keys q) (h2 : q.s + 2 ≤ q.e) : BranchFacts keys kn q := by
  have hle := hg.le
  have hc : brPos kn q = lcp (knOf keys q.s) (knOf keys (q.e - 1)) := by
    unfold brPos; rw [hkn, hkn]
  obtain ⟨htake, _, hla, hlb⟩ := lcp_spec (knOf keys q.s) (knOf keys (q.e - 1))
  rw [← hc] at htake hla hlb
  have hpre : ∀ t, q.s ≤ t → t < q.e →
      brPos kn q ≤ (knOf keys t).length ∧
        (knOf keys t).take (brPos kn q) = (knOf keys q.s).take (brPos kn q) := by
    intro t h3 h4
    have := prefix_between (brPos kn q) (knOf keys q.s) (knOf keys t) (knOf keys (q.e - 1))
      (knOf_not_gt hasc h3 (by omega)) (knOf_not_gt hasc (by omega) (by omega)) htake hla hlb
    exact ⟨this.2, this.1⟩
  have hdle : q.d ≤ brPos kn q := by
    rw [hc]
    -- both keys have the common prefix of depth `d`
    have h1 := hg.pre (q.e - 1) (by omega) (by omega)
    have h0 := hg.pre q.s (Nat.le_refl _) (by omega)
    by_cases h : q.d ≤ lcp (knOf keys q.s) (knOf keys (q.e - 1))
    · exact h
    · exfalso
      have hlt : lcp (knOf keys q.s) (knOf keys (q.e - 1)) < q.d := by omega
      have hmax := lcp_max (knOf keys q.s) (knOf keys (q.e - 1)) (by omega) (by omega)
      apply hmax
      have e1 : (knOf keys q.s)[lcp (knOf keys q.s) (knOf keys (q.e - 1))]?
          = ((knOf keys q.s).take q.d)[lcp (knOf keys q.s) (knOf keys (q.e - 1))]? := by
        rw [List.getElem?_take, if_pos hlt]
      have e2 : (knOf keys (q.e - 1))[lcp (knOf keys q.s) (knOf keys (q.e - 1))]?
          = ((knOf keys (q.e - 1)).take q.d)[lcp (knOf keys q.s) (knOf keys (q.e - 1))]? := by
        rw [List.getElem?_take, if_pos hlt]
      rw [e1, e2, h1.2]
  have hends : endsAt kn q = true → (knOf keys q.s).length = brPos kn q := by
    intro h; unfold endsAt at h; rw [hkn] at h; simpa using h
  have hlonger : ∀ t, q.s < t → t < q.e → brPos kn q < (knOf keys t).length := by
    intro t h3 h4
    obtain ⟨h5, h6⟩ := hpre t (by omega) h4
    by_cases h : brPos kn q < (knOf keys t).length
    · exact h
    · exfalso
      have hlen : (knOf keys t).length = brPos kn q := by omega
      have : knOf keys t = (knOf keys q.s).take (brPos kn q) := by
        rw [← h6, List.take_of_length_le (by omega)]
      have hlt := knOf_lt hasc h3 (by omega : t < keys.length)
      rw [this] at hlt
      exact lexCmp_take_not_lt _ _ hlt
  have hrest : q.s ≤ restStart kn q ∧ restStart kn q < q.e := by
    unfold restStart; split <;> omega
  have hlong' : ∀ t, restStart kn q ≤ t → t < q.e → brPos kn q < (knOf keys t).length := by
    intro t h3 h4
    by_cases hts : q.s < t
    · exact hlonger t hts h4
    · have hts' : t = q.s := by omega
      have hne : endsAt kn q = false := by
        cases he : endsAt kn q with
        | false => rfl
        | true => unfold restStart at h3; rw [he] at h3; simp at h3; omega
      rw [hts']
      have := (hpre q.s (Nat.le_refl _) (by omega)).1
      unfold endsAt at hne
      rw [hkn] at hne
      have : (knOf keys q.s).length ≠ brPos kn q := by simpa using hne
      omega
  refine ⟨hdle, hpre, hrest.1, hrest.2, hlong', hends, ?_⟩
  intro a b h3 h4 h5
  by_cases hab : a = b
  · rw [hab]; exact Nat.le_refl _
  · -- nibbles behind a common prefix are ordered like the keys
    have ha := hlong' a h3 (by omega)
    have hb := hlong' b (by omega) h5
    have hlt := knOf_lt hasc (by omega : a < b) (by omega : b < keys.length)
    have htk : (knOf keys a).take (brPos kn q) = (knOf keys b).take (brPos kn q) := by
      rw [(hpre a (by omega) (by omega)).2, (hpre b (by omega) h5).2]
    have := labelAt_mono (BuildInv.knOf_lt16 keys a) hlt htk false
    unfold labelAt at this
    unfold nibAt
    rw [hkn, hkn, List.getD_eq_getElem?_getD, List.getD_eq_getElem?_getD]
    rw [List.getElem?_eq_getElem ha, List.getElem?_eq_getElem hb] at this ⊢
    simp only [Bool.false_eq_true, if_false, Option.getD_some] at this ⊢
    omega

/-! ### the runs of a range -/

/-- what `groupRuns` finds behind the branching position of a range with at least two keys -/
structure RunFacts (keys : List Bytes) (kn : Array (List Nat)) (q : Sub) : Prop where
  run : ∀ x ∈ runsOf kn q, RunOK (nibAt kn (brPos kn q)) (restStart kn q) q.e x ∧
    x.1 = nibAt kn (brPos kn q) x.2.1
  asc : ((runsOf kn q).map (·.1)).Pairwise (· < ·)
  cover : ∀ t, restStart kn q ≤ t → t < q.e → ∃ x ∈ runsOf kn q, x.2.1 ≤ t ∧ t < x.2.2

theorem run_facts {keys : List Bytes} {kn : Array (List Nat)} {q : Sub}
    (B : BranchFacts keys kn q) : RunFacts keys kn q := by
  have h := groupRuns_spec' (nibAt kn (brPos kn q)) q.e (q.e - restStart kn q) (restStart kn q)
    (Nat.le_of_lt B.rest_lt) (Nat.le_refl _) B.mono
  exact ⟨h.1, h.2.1, h.2.2.2⟩

theorem nibAt_eq {keys : List Bytes} {kn : Array (List Nat)}
    (hkn : ∀ t, kn.getD t [] = knOf keys t) (c t : Nat) (h : c < (knOf keys t).length) :
    nibAt kn c t = (knOf keys t)[c] := by
  unfold nibAt
  rw [hkn, List.getD_eq_getElem?_getD, List.getElem?_eq_getElem h]; rfl

theorem kid_good {keys : List Bytes} {kn : Array (List Nat)}
    (hkn : ∀ t, kn.getD t [] = knOf keys t) {q : Sub} (hg : SubGood keys q)
    (B : BranchFacts keys kn q) (R : RunFacts keys kn q) :
    ∀ x ∈ runsOf kn q, SubGood keys (kidOfRun (brPos kn q) x) := by
  intro x hx
  obtain ⟨hr, hl⟩ := R.run x hx
  have hge := hr.ge
  have hlt := hr.lt
  have hle := hr.le
  have hrs := B.rest_ge
  refine ⟨hlt, Nat.le_trans hle hg.le, ?_⟩
  intro t h1 h2
  simp only [kidOfRun] at h1 h2 ⊢
  have hlt' := B.longer t (by omega) (by omega)
  have hls := B.longer x.2.1 (by omega) (by omega)
  refine ⟨by omega, ?_⟩
  have hn1 := (hr.iff t (by omega) (by omega)).mp ⟨h1, h2⟩
  rw [hl, nibAt_eq hkn _ _ hlt', nibAt_eq hkn _ _ hls] at hn1
  rw [List.take_add_one, List.take_add_one, List.getElem?_eq_getElem hlt',
    List.getElem?_eq_getElem hls, hn1, (B.pre t (by omega) (by omega)).2,
    (B.pre x.2.1 (by omega) (by omega)).2]

/-! ### the loop invariant of `oldLoop` -/

structure OInv (keys : List Bytes) (kn : Array (List Nat)) (ls : Bool) (i : Nat)
    (queue : Array Sub) (nodes : Array OldNode) : Prop where
  size : nodes.size = i
  le : i ≤ queue.size
  qsz : queue.size = fcOf kn queue i
  root : queue[0]? = some { s := 0, e := keys.length, d := 0 }
  good : ∀ (j : Nat) q, queue[j]? = some q → SubGood keys q
  node : ∀ j, j < i → ∃ q, queue[j]? = some q ∧
    nodes[j]? = some (nodeOf kn ls (fcOf kn queue j) q) ∧
    ∀ k (hk : k < (kidsOf kn q).length), queue[fcOf kn queue j + k]? = some ((kidsOf kn q)[k])

theorem oinv_step {keys : List Bytes} {kn : Array (List Nat)} {ls : Bool}
    (hkn : ∀ t, kn.getD t [] = knOf keys t) (hasc : strictAsc keys = true)
    {i : Nat} {queue : Array Sub} {nodes : Array OldNode}
    (hinv : OInv keys kn ls i queue nodes) (q0 : Sub) (hqi : queue[i]? = some q0) :
    OInv keys kn ls (i + 1) (queue ++ (kidsOf kn q0).toArray)
      (nodes.push (nodeOf kn ls queue.size q0)) := by
  have hi : i < queue.size := (Array.getElem?_eq_some_iff.mp hqi).1
  have hgood := hinv.good i _ hqi
  have hgetD : queue.getD i default = q0 := by
    rw [Array.getD_eq_getD_getElem?, hqi]; rfl
  have hfc1 : fcOf kn (queue ++ (kidsOf kn q0).toArray) (i + 1)
      = queue.size + (kidsOf kn q0).length := by
    rw [fcOf_append _ _ _ _ (by omega), fcOf_succ, hgetD, ← hinv.qsz]
  refine ⟨by rw [Array.size_push, hinv.size], by simp only [Array.size_append]; omega, ?_, ?_, ?_, ?_⟩
  · rw [hfc1]; simp
  · exact BuildInv.getElem?_append_mono _ _ _ _ hinv.root
  · intro j q hq
    rw [Array.getElem?_append] at hq
    split at hq
    · exact hinv.good j q hq
    · rw [List.getElem?_toArray] at hq
      have hmem := List.mem_of_getElem? hq
      unfold kidsOf at hmem
      split at hmem
      · simp at hmem
      · next h1 =>
        have h2 : q0.s + 2 ≤ q0.e := by have := hgood.lt; omega
        have B := branch_facts hkn hasc hgood h2
        obtain ⟨x, hx, rfl⟩ := List.mem_map.mp hmem
        exact kid_good hkn hgood B (run_facts B) x hx
  · intro j hj
    by_cases hji : j = i
    · subst hji
      refine ⟨q0, BuildInv.getElem?_append_mono _ _ _ _ hqi, ?_, ?_⟩
      · rw [fcOf_append _ _ _ _ (by omega), ← hinv.qsz, ← hinv.size]
        exact Array.getElem?_push_size
      · intro k hk
        rw [fcOf_append _ _ _ _ (by omega), ← hinv.qsz,
          Array.getElem?_append_right (by omega)]
        simp only [Nat.add_sub_cancel_left, List.getElem?_toArray, List.getElem?_eq_getElem hk]
    · obtain ⟨q, h1, h2, h3⟩ := hinv.node j (by omega)
      refine ⟨q, BuildInv.getElem?_append_mono _ _ _ _ h1, ?_, ?_⟩
      · rw [fcOf_append _ _ _ _ (by omega)]
        exact BuildInv.getElem?_push_mono _ _ _ _ h2
      · intro k hk
        rw [fcOf_append _ _ _ _ (by omega)]
        exact BuildInv.getElem?_append_mono _ _ _ _ (h3 k hk)

theorem oldLoop_inv {keys : List Bytes} {kn : Array (List Nat)} {ls : Bool}
    (hkn : ∀ t, kn.getD t [] = knOf keys t) (hasc : strictAsc keys = true)
    (fuel i : Nat) (queue : Array Sub) (nodes res : Array OldNode)
    (hinv : OInv keys kn ls i queue nodes)
    (h : oldLoop kn ls fuel i queue nodes = .ok res) :
    ∃ oq, OInv keys kn ls oq.size oq res := by
  induction fuel generalizing i queue nodes with
  | zero =>
    unfold oldLoop at h
    split at h
    · cases h
    · next hi =>
      cases h
      have : i = queue.size := by have := hinv.le; omega
      exact ⟨queue, this ▸ hinv⟩
  | succ fuel ih =>
    unfold oldLoop at h
    split at h
    · next hi =>
      rw [oldStep_eq] at h
      simp only at h
      exact ih _ _ _ (oinv_step hkn hasc hinv _ (Array.getElem?_eq_getElem hi)) h
    · next hi =>
      cases h
      have : i = queue.size := by have := hinv.le; omega
      exact ⟨queue, this ▸ hinv⟩

theorem kn_getD (keys : List Bytes) (t : Nat) :
    (keys.map nibs).toArray.getD t [] = knOf keys t := by
  rw [BuildInv.toArray_getD, BuildInv.map_nibs_getD]; rfl

theorem oinv_init (keys : List Bytes) (ls : Bool) (hne : keys.length ≠ 0) :
    OInv keys (keys.map nibs).toArray ls 0 #[{ s := 0, e := keys.length, d := 0 }] #[] := by
  refine ⟨rfl, Nat.zero_le _, rfl, rfl, ?_, fun j hj => by omega⟩
  intro j q hq
  have hj : j < 1 := (Array.getElem?_eq_some_iff.mp hq).1
  have : j = 0 := by omega
  subst this
  have : q = { s := 0, e := keys.length, d := 0 } := by simpa using hq.symm
  subst this
  exact ⟨by simp only; omega, Nat.le_refl _, fun t _ _ => by simp⟩

end LegacyConvert

open LegacyConvert LegacyWrite in
/-- **The old builder, specified.**  For strictly ascending keys the node array of `buildOld` comes
    with its breadth-first queue of ranges `oq`: node `j` is what `oldStep` makes of range `oq[j]`,
    its children are the consecutive entries from `fcOf … j` on, and every range is well formed. -/
theorem buildOld_spec (keys : List Bytes) (ls : Bool) (nodes : Array OldNode)
    (hne : keys ≠ []) (hasc : strictAsc keys = true) (h : buildOld keys ls = .ok nodes) :
    ∃ oq, OInv keys (keys.map nibs).toArray ls oq.size oq nodes := by
  have hn : keys.length ≠ 0 := fun h => hne (List.length_eq_zero_iff.mp h)
  unfold buildOld at h
  simp only [if_neg hn] at h
  exact oldLoop_inv (kn_getD keys) hasc _ _ _ _ _ (oinv_init keys ls hn) h

#print axioms buildOld_spec
