import SlimModel.Spec
import SlimModel.ListFast
/-
  SlimModel.Build — L1: the trie as the breadth-first array of node records that
  `newSlim` (trie/slimtrie_create.go) produces, before it is packed into bitmaps.

  Positions are in half-bytes (Go bit position / 4).  Node ids are BFS indexes, exactly the ids
  of the Go code (`GetID` returns them), so L1 and the bit level L2 share ids.

  Mirrors, line by line: the order check, `newToKeep`, the BFS loop over the append-only queue,
  `sigbits.CountPrefixes` (first-difference positions of adjacent keys), the big/small decision
  (`prefCnt > 10`), `bmtree.PathsOf` over the kept keys, the two scanning loops that find the run
  of keys of each label, `setPrefix`/`setLeafPrefix`, and the 16-bit step guard (ErrStepTooLong).
-/

/-- What an inner node stores about the single-branch run leading to its branching position. -/
inductive Pref where
  | none                        -- no run (branching right at the node's start)
  | step (n : Nat)              -- only the length of the run, in half-bytes (`encStep`)
  | stored (ns : List Nat)      -- the run itself as half-bytes, starting at the byte that
                                -- contains the node's start (`bitstr.New`)
  deriving Repr, DecidableEq, Inhabited

structure InnerRec where
  big : Bool                    -- 257-bit node (8-bit labels) or 17-bit node (4-bit labels)
  labels : List Nat             -- label indexes present, ascending: 0 = key ends here, 1+w = word w
  firstChild : Nat              -- id of the child of the first label; children are contiguous
  pref : Pref
  deriving Repr, DecidableEq, Inhabited

inductive Node where
  | inner (r : InnerRec)
  | leaf (ith : Nat) (lp : Option Bytes)   -- ordinal among leaves; stored tail of the key, if any
  deriving Repr, DecidableEq, Inhabited

/-- `subset`: keys[s:e), examined from half-byte position `fb` on. -/
structure Subset where
  s : Nat
  e : Nat
  fb : Nat
  deriving Repr, DecidableEq, Inhabited

/-- length of the longest common prefix -/
def lcp : List Nat → List Nat → Nat
  | a :: as, b :: bs => if a = b then lcp as bs + 1 else 0
  | _, _ => 0

/-- `bmtree.PathOf` + `PathToIndex` for bitmap sizes 17 / 257: the label index of a key at
    position `ws`: 0 if the key ends there, else 1 + the 4-bit (8-bit) word. -/
def labelAt (k : List Nat) (ws : Nat) (big : Bool) : Nat :=
  match k[ws]? with
  | none => 0
  | some a => if big then 1 + (a * 16 + k.getD (ws + 1) 0) else 1 + a

/-- compiled form of `labelAt` (`@[csimp]` below): one walk to position `ws` instead of two -/
def labelAtFast (k : List Nat) (ws : Nat) (big : Bool) : Nat :=
  match k.drop ws with
  | [] => 0
  | a :: rest => if big then 1 + (a * 16 + rest.headD 0) else 1 + a

@[csimp] theorem labelAt_eq_fast : @labelAt = @labelAtFast := by
  funext k ws big
  unfold labelAt labelAtFast
  rcases Nat.lt_or_ge ws k.length with h | h
  · rw [List.drop_eq_getElem_cons h, List.getElem?_eq_getElem h]
    simp only
    have : k.getD (ws + 1) 0 = (k.drop (ws + 1)).headD 0 := by
      rw [List.getD_eq_getElem?_getD]
      cases hd : k.drop (ws + 1) with
      | nil =>
        have : k.length ≤ ws + 1 := List.drop_eq_nil_iff.mp hd
        rw [List.getElem?_eq_none this]; rfl
      | cons b rest =>
        have h1 : (k.drop (ws + 1))[0]? = some b := by rw [hd]; rfl
        rw [List.getElem?_drop] at h1
        rw [h1]; rfl
    rw [this]
  · rw [List.drop_of_length_le h, List.getElem?_eq_none h]

/-- `bmtree.PathLen` of a label, in half-bytes -/
def labelLen (label : Nat) (big : Bool) : Nat :=
  if label = 0 then 0 else if big then 2 else 1

/-- `bmtree.PathsOf(…, dedup = true)`: drop adjacent repetitions -/
def dedupAdj : List Nat → List Nat
  | a :: b :: rest => if a = b then dedupAdj (b :: rest) else a :: dedupAdj (b :: rest)
  | l => l

structure BCtx where
  kn : Array (List Nat)       -- half-bytes of every key
  kb : Array Bytes            -- the keys
  keep : Array Bool           -- `tokeep`
  lcps : Array Nat            -- `sigbits.FirstDiffBits` / 4 : lcps[t] = lcp kn[t] kn[t+1]
  opt : Opt

def mkLcps : List (List Nat) → List Nat
  | a :: b :: rest => lcp a b :: mkLcps (b :: rest)
  | _ => []

/-- `CountPrefixes`' first result (`min` of the first-difference positions of keys[s:e)) -/
def minLcp (c : BCtx) (s e : Nat) : Nat :=
  ((List.range' (s + 1) (e - 1 - (s + 1))).map (fun t => c.lcps.getD t 0)).foldl min (c.lcps.getD s 0)

/-- `prefCounts[8-(wordStart&7)]`: 1 + number of adjacent pairs that first differ inside the byte
    that contains `ws` -/
def prefCnt (c : BCtx) (s e ws : Nat) : Nat :=
  1 + ((List.range' s (e - 1 - s)).filter (fun t => c.lcps.getD t 0 / 2 == ws / 2)).length

def keyLabel (c : BCtx) (ws : Nat) (big : Bool) (t : Nat) : Nat :=
  labelAt (c.kn.getD t []) ws big

/-- labels of the kept keys of keys[s:e), adjacent repetitions removed (`labelPaths`) -/
def keptLabels (c : BCtx) (s e ws : Nat) (big : Bool) : List Nat :=
  dedupAdj (((List.range' s (e - s)).filter (fun t => c.keep.getD t false)).map (keyLabel c ws big))

/-- first `t` in [s, e) where `p t` fails (else `e`); `n` is the distance still to scan -/
def scanWhile (p : Nat → Bool) : Nat → Nat → Nat
  | 0, s => s
  | n + 1, s => if p s then scanWhile p n (s + 1) else s

/-- The two inner loops of `newSlim`: for every label, skip to the first key carrying it, then
    extend the run while keys carry it. -/
def childRuns (lab : Nat → Nat) (e : Nat) : List Nat → Nat → List (Nat × Nat × Nat)
  | [], _ => []
  | l :: ls, s =>
    let s' := scanWhile (fun t => lab t != l) (e - s) s
    let j := scanWhile (fun t => lab t == l) (e - (s' + 1)) (s' + 1)
    (l, s', j) :: childRuns lab e ls j

structure BSt where
  isBig : Bool := true
  bigCnt : Nat := 0
  queue : Array Subset
  nodes : Array Node := #[]
  leafKeyIdx : Array Nat := #[]     -- `leafIndexes` (recorded here even without values)

/-- `bitstr.New(key, from, to)` as half-bytes: from the start of the byte containing `fb` up to `ws` -/
def storedPrefix (k : List Nat) (fb ws : Nat) : List Nat :=
  (k.take ws).drop (fb - fb % 2)

/-- One iteration of the BFS loop for queue entry `o` (its index is the node id). -/
def buildStep (c : BCtx) (st : BSt) (o : Subset) : Except Err BSt :=
  if o.e - o.s = 1 then
    -- leaf: addLeafIndex + setLeafPrefix
    let tail := (c.kb.getD o.s []).drop (o.fb / 2)
    let lp := if c.opt.leaf && !tail.isEmpty then some tail else none
    .ok { st with nodes := st.nodes.push (.leaf st.leafKeyIdx.size lp)
                  leafKeyIdx := st.leafKeyIdx.push o.s }
  else
    let ws0 := minLcp c o.s o.e
    -- big / small decision
    let goBig := st.isBig && decide (prefCnt c o.s o.e ws0 > 10)
    let ws := if goBig then ws0 - ws0 % 2 else ws0
    if ws < o.fb then .error (.panic "wordStart smaller than o.fromKeyBit") else
    if !c.opt.inner && decide (ws - o.fb > 0xffff) then .error .stepTooLong else
    let labels := keptLabels c o.s o.e ws goBig
    let pref :=
      if ws - o.fb = 0 then Pref.none
      else if c.opt.inner then Pref.stored (storedPrefix (c.kn.getD o.s []) o.fb ws)
      else Pref.step (ws - o.fb)
    let node := Node.inner { big := goBig, labels := labels, firstChild := st.queue.size, pref := pref }
    let kids := (childRuns (keyLabel c ws goBig) o.e labels o.s).map
      (fun (l, s', j) => ({ s := s', e := j, fb := ws + labelLen l goBig } : Subset))
    .ok { st with isBig := goBig
                  bigCnt := if goBig then st.bigCnt + 1 else st.bigCnt
                  queue := st.queue ++ kids.toArray
                  nodes := st.nodes.push node }

/-- `for i := 0; i < len(queue); i++` with the queue growing; fuel = upper bound on node count. -/
def buildLoop (c : BCtx) : Nat → Nat → BSt → Except Err BSt
  | 0, i, st => if i < st.queue.size then .error .fuel else .ok st
  | fuel + 1, i, st =>
    if h : i < st.queue.size then
      match buildStep c st st.queue[i] with
      | .ok st' => buildLoop c fuel (i + 1) st'
      | .error e => .error e
    else .ok st

/-- The L1 trie. -/
structure Trie1 where
  opt : Opt
  nodes : Array Node
  bigCnt : Nat
  leafKeyIdx : Array Nat
  /-- `some` iff values were supplied: the encoded value of every leaf, in leaf order
      (`selectByIndexes(leafIndexes, bytesValues)`) -/
  elts : Option (List Bytes)
  deriving Repr, Inhabited

def Trie1.empty (opt : Opt) : Trie1 :=
  { opt := opt, nodes := #[], bigCnt := 0, leafKeyIdx := #[], elts := none }

/-- `newSlim`: keys, optional encoded values, normalized options. -/
def build (keys : List Bytes) (vals : Option (List Bytes)) (opt : Opt) : Except Err Trie1 :=
  let n := keys.length
  if n = 0 then .ok (Trie1.empty opt) else
  if !strictAsc keys then .error .outOfOrder else
  match vals with
  | some vs => if vs.length ≠ n then .error (.panic "len(keys) must equal len(values)") else go n
  | none => go n
where
  go (n : Nat) : Except Err Trie1 :=
    let kns := keys.map nibs
    let c : BCtx :=
      { kn := kns.toArray, kb := keys.toArray, keep := (keepMask n vals opt.dedup).toArray
        lcps := (mkLcps kns).toArray, opt := opt }
    match buildLoop c (2 * n) 0 { queue := #[{ s := 0, e := n, fb := 0 }] } with
    | .error e => .error e
    | .ok st =>
      .ok { opt := opt, nodes := st.nodes, bigCnt := st.bigCnt, leafKeyIdx := st.leafKeyIdx
            elts := vals.map (fun vs => st.leafKeyIdx.toList.map (fun i => vs.getD i [])) }

/-- compiled form of `build` (`@[csimp]` below): selecting the values of the leaves reads
    `vs.getD i` for every leaf (quadratic in the number of keys); an array copy is indexed instead -/
def buildFast (keys : List Bytes) (vals : Option (List Bytes)) (opt : Opt) : Except Err Trie1 :=
  let n := keys.length
  if n = 0 then .ok (Trie1.empty opt) else
  if !strictAsc keys then .error .outOfOrder else
  match vals with
  | some vs => if vs.length ≠ n then .error (.panic "len(keys) must equal len(values)") else go n
  | none => go n
where
  go (n : Nat) : Except Err Trie1 :=
    let kns := keys.map nibs
    let c : BCtx :=
      { kn := kns.toArray, kb := keys.toArray, keep := (keepMask n vals opt.dedup).toArray
        lcps := (mkLcps kns).toArray, opt := opt }
    match buildLoop c (2 * n) 0 { queue := #[{ s := 0, e := n, fb := 0 }] } with
    | .error e => .error e
    | .ok st =>
      .ok { opt := opt, nodes := st.nodes, bigCnt := st.bigCnt, leafKeyIdx := st.leafKeyIdx
            elts := vals.map (fun vs =>
              let vsA := vs.toArray
              st.leafKeyIdx.toList.map (fun i => vsA.getD i [])) }

theorem build_go_eq_fast (keys : List Bytes) (vals : Option (List Bytes)) (opt : Opt) (n : Nat) :
    build.go keys vals opt n = buildFast.go keys vals opt n := by
  unfold build.go buildFast.go
  simp only [List.toArray_getD_eq]

@[csimp] theorem build_eq_fast : @build = @buildFast := by
  funext keys vals opt
  unfold build buildFast
  simp only [build_go_eq_fast]
