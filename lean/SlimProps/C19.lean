import SlimProofs.Render
import SlimProps.C09
import SlimProps.C08Accept
/-
  SlimProps.C19 — "String() renders every trie faithfully and never panics", at record level
  (L1: `Slim.toStringSlim` / `Slim.render` of SlimModel/Stat.lean on `t.view` of a built trie).

  * `C19_total`           `String()` returns normally for every trie `build` returns (the fuel
                          `nodeCnt + 1` suffices, every child id is in range, every leaf value
                          is readable).
  * `C19_each_node_once`  the rendering has exactly one line per node: the lines are, in order,
                          the lines (`Slim.LineOf`: indentation / branch label, then
                          `#id` + step + label count, or `#id=value`) of the ids `Slim.renderIds`,
                          and these ids are a permutation of `0 … N-1`.
  * `C19_leaf_order`      the leaf ids in line order are the leaves of the retained keys in
                          ascending key order, and the line of the leaf of key `m` shows the
                          value of key `m` (`recVal`, SlimProps/C09.lean).
  * `C19_leaf_lines`      combined: the leaf lines, top to bottom, are `…#id=fmt(value of key m)`
                          for `m` running through the retained key indexes in ascending order.

  The "loaded trie renders identically" half of C19 is at the bit level (L2 ⊑ L1) and not here.
-/

open Slim Render Subtree

namespace C19

/-- everything `Render` needs, for a built trie -/
theorem built (keys : List Bytes) (vals : Option (List Bytes)) (opt : Opt) (t : Trie1)
    (hb : build keys vals opt = .ok t) (hne : keys ≠ []) :
    ∃ queue, QOK keys (keepMask keys.length vals opt.dedup) t queue ∧
      queue[0]? = some { s := 0, e := keys.length, fb := 0 } ∧
      ViewOK t.view t.nodes.size ∧ BfsOK t.view t.nodes.size ∧ 0 < t.nodes.size := by
  obtain ⟨queue, hq, hroot⟩ := (wf_iff _ _ t).mp (build_wf keys vals opt t hb hne).1
  have hs := build_shape keys vals opt t hb hne
  exact ⟨queue, hq, hroot, viewOK_of_wf_shape hq hs, bfsOK_of_shape hs, hs.nonempty⟩

/-- the leaf lines of a rendering: the lines whose node is a leaf -/
def leafLinesOf (t : Trie1) (lines : List String) (ids : List Nat) : List String :=
  (lines.zip ids).filterMap (fun p => if (leafKey t p.2).isSome then some p.1 else none)

theorem forall2_filterMap {R Q : String → Nat → Prop} {key : Nat → Option Nat}
    {lines : List String} {ids : List Nat} (h : Forall2 R lines ids)
    (hq : ∀ line id m, R line id → key id = some m → Q line m) :
    Forall2 Q ((lines.zip ids).filterMap (fun p => if (key p.2).isSome then some p.1 else none))
      (ids.filterMap key) := by
  induction h with
  | nil => exact Forall2.nil
  | @cons a b l m hx _ ih =>
    simp only [List.zip_cons_cons, List.filterMap_cons]
    cases hk : key b with
    | none => simpa using ih
    | some k =>
      simp only [Option.isSome_some, if_true]
      exact Forall2.cons (hq a b k hx hk) ih

end C19

open C19

/-- **C19 (total).**  `String()` returns a rendering for every built trie — no panic, no fuel
    exhaustion. -/
theorem C19_total (keys : List Bytes) (vals : Option (List Bytes)) (opt : Opt) (t : Trie1)
    (hb : build keys vals opt = .ok t) (fmtVal : Option Bytes → String) :
    ∃ s, toStringSlim t.view fmtVal = .ok s := by
  by_cases hne : keys = []
  · subst hne
    simp only [build, List.length_nil, if_true, Except.ok.injEq] at hb
    subst hb
    exact ⟨"", rfl⟩
  · obtain ⟨_, _, _, hv, _, hpos⟩ := built keys vals opt t hb hne
    have hemp : t.view.isEmpty = false := by
      simp only [Trie1.view]
      cases h : t.nodes.size with
      | zero => omega
      | succ n => rfl
    obtain ⟨lines, h1, _⟩ := toStringSlim_ok (v := t.view) hv hpos hemp fmtVal
    exact ⟨_, h1⟩

/-- **C19 (each node exactly once).**  The rendering consists of one line per node: line `k` is
    the line of node `ids[k]`, where `ids = renderIds …` is a permutation of all node ids. -/
theorem C19_each_node_once (keys : List Bytes) (vals : Option (List Bytes)) (opt : Opt) (t : Trie1)
    (hb : build keys vals opt = .ok t) (hne : keys ≠ []) (fmtVal : Option Bytes → String) :
    ∃ lines, toStringSlim t.view fmtVal = .ok ("\n".intercalate lines) ∧
      Forall2 (LineOf t.view fmtVal) lines (renderIds t.view (t.nodes.size + 1) 0) ∧
      lines.length = t.nodes.size ∧
      (renderIds t.view (t.nodes.size + 1) 0).Perm (List.range t.nodes.size) := by
  obtain ⟨_, _, _, hv, hbfs, hpos⟩ := built keys vals opt t hb hne
  have hemp : t.view.isEmpty = false := by
    simp only [Trie1.view]
    cases h : t.nodes.size with
    | zero => omega
    | succ n => rfl
  obtain ⟨lines, h1, _, h3⟩ := toStringSlim_ok (v := t.view) hv hpos hemp fmtVal
  have hperm := renderIds_perm hv hbfs
  have h3' : Forall2 (LineOf t.view fmtVal) lines (renderIds t.view (t.nodes.size + 1) 0) := h3
  refine ⟨lines, h1, h3', ?_, hperm⟩
  rw [h3'.length_eq, hperm.length_eq, List.length_range]

/-- **C19 (leaf order).**  In line order, the leaves are the leaves of the retained keys in
    ascending key order; the line of the leaf of key `m` is `#id=` followed by the value of
    key `m`. -/
theorem C19_leaf_order (keys : List Bytes) (vals : Option (List Bytes)) (opt : Opt) (t : Trie1)
    (hb : build keys vals opt = .ok t) (hne : keys ≠ []) (fmtVal : Option Bytes → String) :
    (renderIds t.view (t.nodes.size + 1) 0).filterMap (leafKey t) =
      (List.range keys.length).filter (keptAt (keepMask keys.length vals opt.dedup)) ∧
    ∀ id m, leafKey t id = some m →
      nodeText t.view fmtVal id =
        "#" ++ pad3 id ++ "=" ++ fmtVal (recVal (keepMask keys.length vals opt.dedup) vals m) := by
  obtain ⟨queue, hq, hroot, _, _, _⟩ := built keys vals opt t hb hne
  constructor
  · have := leaf_order hq t.nodes.size 0 _ (t.nodes.size + 1) (by omega) (by omega) hroot
    rw [this]
    simp [LeafCount.keptIn, List.range_eq_range']
  · intro id m hlk
    unfold leafKey at hlk
    cases hn : t.nodes[id]? with
    | none => rw [hn] at hlk; cases hlk
    | some nd =>
      rw [hn] at hlk
      cases nd with
      | inner r => cases hlk
      | leaf ith lp =>
        simp only at hlk
        have hleaf : SearchDescent.IsLeafOf t id m := ⟨ith, lp, hn, hlk⟩
        have hget := C09.getLeaf_of_build keys vals opt t hb hne id m hleaf
        have hview : t.view.node id = .ok (.leaf ith lp) := by simp [Trie1.view, hn]
        simp only [getLeaf, hview, bind, Except.bind] at hget
        simp only [nodeText, hview, hget]

/-- **C19 (leaf lines).**  The leaf lines of `String()`, read top to bottom, carry the retained
    values in key order. -/
theorem C19_leaf_lines (keys : List Bytes) (vals : Option (List Bytes)) (opt : Opt) (t : Trie1)
    (hb : build keys vals opt = .ok t) (hne : keys ≠ []) (fmtVal : Option Bytes → String) :
    ∃ lines, toStringSlim t.view fmtVal = .ok ("\n".intercalate lines) ∧
      Forall2
        (fun line m => ∃ (pre : String) (id : Nat), line = pre ++ ("#" ++ pad3 id ++ "=" ++
          fmtVal (recVal (keepMask keys.length vals opt.dedup) vals m)))
        (leafLinesOf t lines (renderIds t.view (t.nodes.size + 1) 0))
        ((List.range keys.length).filter (keptAt (keepMask keys.length vals opt.dedup))) := by
  obtain ⟨lines, h1, h2, _, _⟩ := C19_each_node_once keys vals opt t hb hne fmtVal
  obtain ⟨h3, h4⟩ := C19_leaf_order keys vals opt t hb hne fmtVal
  refine ⟨lines, h1, ?_⟩
  rw [← h3]
  apply forall2_filterMap h2
  intro line id m hline hk
  obtain ⟨pre, rfl⟩ := hline
  exact ⟨pre, id, by rw [h4 id m hk]⟩

/-! ### non-vacuity: a concrete input satisfies the hypotheses (accepted by `C08_accept`) -/

example : ∃ t, build [[0x61], [0x61, 0x62], [0x62, 0xe3]] (some [[1], [1], [2]]) {} = .ok t ∧
    ([[0x61], [0x61, 0x62], [0x62, 0xe3]] : List Bytes) ≠ [] := by
  obtain ⟨t, ht⟩ := C08_accept [[0x61], [0x61, 0x62], [0x62, 0xe3]] (some [[1], [1], [2]]) {}
    (by simp) (by decide) (by intro vs h; cases h; rfl)
    (Or.inr (by intro k hk; simp at hk; rcases hk with rfl | rfl | rfl <;> decide))
  exact ⟨t, ht, by simp⟩

#print axioms C19_total
#print axioms C19_each_node_once
#print axioms C19_leaf_order
#print axioms C19_leaf_lines
