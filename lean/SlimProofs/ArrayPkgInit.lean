import SlimProofs.ArrayPkgGet
/-
  SlimProofs.ArrayPkgInit — the constructors of package array build fields that satisfy `Holds`,
  and the generic accessor on such fields (C16).
-/
namespace ArrayPkg
open Encode

/-- A fixed-width round-tripping encoder: on the domain `D` it encodes `v` to the `w` bytes `f v`
    and decodes exactly these bytes back to `v`; `GetEncodedSize(nil)` is `w`. -/
structure FixedRT (c : Codec Val) (D : Val → Prop) (w : Nat) (f : Val → Bytes) : Prop where
  ges : c.getEncodedSize [] = .ok w
  enc : ∀ v, D v → c.encode v = .ok (f v)
  len : ∀ v, D v → (f v).length = w
  dec : ∀ v, D v → c.decode (f v) = .ok (w, v)

/-- The bytes a codec produces (`[]` where it panics). -/
def encOf (c : Codec Val) (v : Val) : Bytes :=
  match c.encode v with
  | .ok e => e
  | .error _ => []

theorem FixedRT_of_roundTrips (c : Codec Val) (D : Val → Prop) (w : Nat)
    (hges : c.getEncodedSize [] = .ok w) (hrt : c.RoundTrips D)
    (hlen : ∀ v, D v → ∀ e, c.encode v = .ok e → e.length = w) : FixedRT c D w (encOf c) := by
  refine ⟨hges, ?_, ?_, ?_⟩
  · intro v hv
    obtain ⟨e, h1, _⟩ := hrt v hv []
    simp [encOf, h1]
  · intro v hv
    obtain ⟨e, h1, _⟩ := hrt v hv []
    simp only [encOf, h1]; exact hlen v hv e h1
  · intro v hv
    obtain ⟨e, h1, h2, _⟩ := hrt v hv []
    simp only [encOf, h1]
    rw [List.append_nil] at h2
    rw [h2, hlen v hv e h1]

/-- `TypeEncoder` of any type of the universe, any byte order, is such an encoder. -/
theorem te_fixedRT (bo : BO) (t : Ty) :
    FixedRT (Enc.typ bo t).codec (InDom t) t.size (encOf (TE bo t)) := by
  apply FixedRT_of_roundTrips (TE bo t) (InDom t) t.size rfl (te_roundTrips bo t)
  intro v hv e he
  obtain ⟨e', h1, h2, _⟩ := tyRT bo t v hv []
  have : e = e' := by
    have h : (TE bo t).encode v = .ok e' := h1
    rw [he] at h; exact Except.ok.inj h
  rw [this]; exact h2

theorem encodeAll_eq (c : Codec Val) (f : Val → Bytes) (vs : List Val)
    (h : ∀ v ∈ vs, c.encode v = .ok (f v)) : encodeAll c vs = .ok (vs.map f).flatten := by
  induction vs with
  | nil => rfl
  | cons v vs ih =>
    simp only [encodeAll, h v (List.mem_cons_self ..),
      ih (fun x hx => h x (List.mem_cons_of_mem _ hx)), bind, Except.bind, pure, Except.pure]
    simp

theorem lookup_mem {α : Type} (idx : List Nat) (elts : List α) (x : Nat) (v : α)
    (h : lookup idx elts x = some v) : v ∈ elts := by
  induction idx generalizing elts with
  | nil => simp [lookup] at h
  | cons i is ih =>
    cases elts with
    | nil => simp [lookup] at h
    | cons e es =>
      simp only [lookup] at h
      split at h
      · cases h; exact List.mem_cons_self ..
      · exact List.mem_cons_of_mem _ (ih es h)

/-! ### InitIndex / Init on valid input -/

theorem initIndex_ok (a0 : Base) (idx : List Nat) (hasc : StrictAsc idx)
    (hrange : ∀ x ∈ idx, x + 65 ≤ 2 ^ 31) :
    ∃ W, IsBitmapOf idx W ∧
      a0.initIndex (idx.map Int.ofNat) =
        .ok ({ a0 with bitmaps := W, offsets := zeroEmpty W (indexRank64 W),
                       cnt := wrap32 ((idx.map Int.ofNat).length : Int) }, none) := by
  obtain ⟨W, h1, h2, h3⟩ := bitmapOf_spec idx hasc hrange
  refine ⟨W, ⟨h2, h3⟩, ?_⟩
  unfold Base.initIndex
  rw [(ascCheck_ofNat idx).mpr hasc]
  simp [h1, bind, Except.bind, pure, Except.pure]

theorem length_lt_of_range (idx : List Nat) (hasc : StrictAsc idx)
    (hrange : ∀ x ∈ idx, x + 65 ≤ 2 ^ 31) : idx.length < 2147483648 := by
  have hhi : ∀ x ∈ idx, x < 2147483584 := by
    intro x hx
    have := hrange x hx
    omega
  have := length_le_of_strictAsc idx hasc 0 2147483584 (fun _ _ => Nat.zero_le _) hhi
  omega

/-- `(*Base).Init` on valid input, with the element encoder `enc` that the Go code resolves
    (the preset `EltEncoder`, else a little-endian `TypeEncoder` of the element type). -/
theorem Base.init_ok (a0 : Base) (ety : Option Ty) (enc : Enc) (D : Val → Prop) (w : Nat)
    (f : Val → Bytes)
    (henc : resolveEnc a0.eltEncoder ety = some enc)
    (hF : FixedRT enc.codec D w f)
    (idx : List Nat) (vals : List Val) (hasc : StrictAsc idx) (hlen : idx.length = vals.length)
    (hrange : ∀ x ∈ idx, x + 65 ≤ 2 ^ 31) (hdom : ∀ v ∈ vals, D v)
    (hsz : idx.length * w < 2147483648) (hfresh : idx = [] → a0.elts = []) :
    ∃ a, a0.init ety (idx.map Int.ofNat) vals = .ok (a, none) ∧
      Holds a.toArray32 idx (vals.map f) w ∧ a.eltEncoder = a0.eltEncoder ∧
      a.cnt = (idx.length : Int) := by
  obtain ⟨W, hW, hii⟩ := initIndex_ok a0 idx hasc hrange
  have hcnt := length_lt_of_range idx hasc hrange
  have hwrap : wrap32 ((idx.map Int.ofNat).length : Int) = (idx.length : Int) := by
    rw [List.length_map]; exact wrap32_id (by omega) (by omega)
  rw [hwrap] at hii
  unfold Base.init
  have hl : ¬ ((idx.map Int.ofNat).length ≠ vals.length) := by simp [hlen]
  rw [if_neg hl]
  simp only [hii, bind, Except.bind, List.length_map]
  by_cases hempty : idx.length = 0
  · rw [if_pos hempty]
    have hnil : idx = [] := List.length_eq_zero_iff.mp hempty
    have hvnil : vals = [] := List.length_eq_zero_iff.mp (by rw [← hlen]; exact hempty)
    refine ⟨_, rfl, ?_, rfl, rfl⟩
    subst hnil; subst hvnil
    exact ⟨hasc, hW, rfl, by simpa using hfresh rfl, rfl, by simp, hcnt, hsz⟩
  · rw [if_neg hempty]
    simp only [henc]
    unfold Base.initElts
    have henc_all := encodeAll_eq enc.codec f vals (fun v hv => hF.enc v (hdom v hv))
    simp only [hF.ges, henc_all, bind, Except.bind, pure, Except.pure]
    refine ⟨_, rfl, ?_, rfl, rfl⟩
    refine ⟨hasc, hW, rfl, rfl, by simp [hlen], ?_, hcnt, hsz⟩
    intro c hc
    obtain ⟨v, hv, rfl⟩ := List.mem_map.mp hc
    exact hF.len v (hdom v hv)

/-! ### the generic accessor -/

theorem Holds.get {a : Base} {idx : List Nat} {vals : List Val} {w : Nat} {f : Val → Bytes}
    {enc : Enc} {D : Val → Prop}
    (H : Holds a.toArray32 idx (vals.map f) w) (he : a.eltEncoder = some enc)
    (hF : FixedRT enc.codec D w f) (hdom : ∀ v ∈ vals, D v)
    (i : Nat) (hi : i < 64 * a.bitmaps.length) :
    a.get (i : Int) = .ok (lookup idx vals i) := by
  unfold Base.get
  simp only [he, hF.ges, bind, Except.bind, H.getBytes i hi, lookup_map]
  cases hl : lookup idx vals i with
  | none => rfl
  | some v =>
    have hv := hdom v (lookup_mem idx vals i v hl)
    simp only [Option.map_some, hF.dec v hv]
    rfl

theorem encOf_prim (s : Bool) (w : Nat) (x : Int) :
    encOf (TE .le (.prim s w)) (.int x) = leBytes w (toU w x) := by
  simp [encOf, TE, tyEncode, intBytes]

/-- `(*Array).Init` on valid input. -/
theorem Array.init_ok (a0 : Base) (ety : Option Ty) (enc : Enc) (D : Val → Prop) (w : Nat)
    (f : Val → Bytes) (henc : resolveEnc a0.eltEncoder ety = some enc)
    (hF : FixedRT enc.codec D w f)
    (idx : List Nat) (vals : List Val) (hasc : StrictAsc idx) (hlen : idx.length = vals.length)
    (hrange : ∀ x ∈ idx, x + 65 ≤ 2 ^ 31) (hdom : ∀ v ∈ vals, D v)
    (hsz : idx.length * w < 2147483648) (hfresh : idx = [] → a0.elts = []) :
    ∃ a, Array.init a0 ety (idx.map Int.ofNat) vals = .ok (a, none) ∧
      Holds a.toArray32 idx (vals.map f) w ∧
      (idx ≠ [] → a.eltEncoder = some enc) ∧ (idx = [] → a.eltEncoder = a0.eltEncoder) := by
  obtain ⟨a1, h1, hH, hE, hC⟩ :=
    Base.init_ok a0 ety enc D w f henc hF idx vals hasc hlen hrange hdom hsz hfresh
  unfold Array.init
  simp only [h1, bind, Except.bind]
  cases hpre : a0.eltEncoder with
  | some e =>
    have he : e = enc := by
      rw [hpre] at henc; simpa [resolveEnc] using henc
    subst he
    have hcond : ¬ (a1.cnt > 0 ∧ a1.eltEncoder.isNone = true) := by
      rw [hE, hpre]; simp
    rw [if_neg hcond]
    exact ⟨a1, rfl, hH, fun _ => by rw [hE, hpre], fun _ => by rw [hE]; exact hpre⟩
  | none =>
    rw [hpre] at henc
    cases hty : ety with
    | none => rw [hty] at henc; simp [resolveEnc] at henc
    | some t =>
      rw [hty] at henc
      have he : Enc.typ .le t = enc := by simpa [resolveEnc] using henc
      by_cases hempty : idx = []
      · have hcond : ¬ (a1.cnt > 0 ∧ a1.eltEncoder.isNone = true) := by
          rw [hC, hempty]; simp
        rw [if_neg hcond]
        exact ⟨a1, rfl, hH, fun h => absurd hempty h, fun _ => by rw [hE]; exact hpre⟩
      · have hpos : 0 < idx.length := List.length_pos_iff.mpr hempty
        have hcond : a1.cnt > 0 ∧ a1.eltEncoder.isNone = true := by
          rw [hC, hE, hpre]
          exact ⟨by omega, rfl⟩
        rw [if_pos hcond]
        refine ⟨{ a1 with eltEncoder := some (.typ .le t) }, rfl, hH, fun _ => by rw [← he], fun h => absurd h hempty⟩

/-- `array.New(indexes, elts)` on valid input, element type `t`. -/
theorem new_ok (t : Ty) (idx : List Nat) (vals : List Val) (hasc : StrictAsc idx)
    (hlen : idx.length = vals.length) (hrange : ∀ x ∈ idx, x + 65 ≤ 2 ^ 31)
    (hdom : ∀ v ∈ vals, InDom t v) (hsz : idx.length * t.size < 2147483648) :
    ∃ a, ArrayPkg.new (some t) (idx.map Int.ofNat) vals = .ok (some a, none) ∧
      Holds a.toArray32 idx (vals.map (encOf (TE .le t))) t.size ∧
      (idx ≠ [] → a.eltEncoder = some (.typ .le t)) := by
  obtain ⟨a, h1, h2, h3, _⟩ := Array.init_ok {} (some t) (.typ .le t) (InDom t) t.size
    (encOf (TE .le t)) rfl (te_fixedRT .le t) idx vals hasc hlen hrange hdom hsz (fun _ => rfl)
  refine ⟨a, ?_, h2, h3⟩
  unfold ArrayPkg.new
  simp [h1, bind, Except.bind, pure, Except.pure]

/-- `array.NewU16 … NewI64` on valid input (element kind `.prim s w`). -/
theorem newTyped_ok (s : Bool) (w : Nat) (idx : List Nat) (elts : List Int) (hasc : StrictAsc idx)
    (hlen : idx.length = elts.length) (hrange : ∀ x ∈ idx, x + 65 ≤ 2 ^ 31)
    (hdom : ∀ e ∈ elts, InDom (.prim s w) (.int e)) (hsz : idx.length * w < 2147483648) :
    ∃ a, newTyped (.prim s w) (idx.map Int.ofNat) elts = .ok (some a, none) ∧
      Holds a.toArray32 idx ((elts.map Val.int).map (encOf (TE .le (.prim s w)))) w ∧
      a.eltEncoder = none := by
  obtain ⟨a, h1, h2, h3, _⟩ := Base.init_ok {} (some (.prim s w)) (.typ .le (.prim s w))
    (InDom (.prim s w)) w (encOf (TE .le (.prim s w))) rfl (te_fixedRT .le (.prim s w)) idx
    (elts.map Val.int) hasc (by simpa using hlen) hrange
    (by intro v hv; obtain ⟨e, he, rfl⟩ := List.mem_map.mp hv; exact hdom e he) hsz (fun _ => rfl)
  refine ⟨a, ?_, h2, h3⟩
  unfold newTyped
  simp [h1, bind, Except.bind, pure, Except.pure]

/-! ### typed accessors at the value level -/

/-- Go result pair `(value, found)` with the zero value when absent. -/
def resU (o : Option Nat) : Nat × Bool :=
  match o with
  | some e => (e, true)
  | none => (0, false)

def resS (o : Option Int) : Int × Bool :=
  match o with
  | some e => (e, true)
  | none => (0, false)

theorem Holds.getU {a : Base} {idx : List Nat} {elts : List Nat} {w : Nat}
    (H : Holds a.toArray32 idx
      ((elts.map (fun e : Nat => Val.int (e : Int))).map (encOf (TE .le (.prim false w)))) w)
    (hdom : ∀ e ∈ elts, InU w e) (i : Nat) (hi : i < 64 * a.bitmaps.length) :
    a.getU w (i : Int) = .ok (resU (lookup idx elts i)) := by
  unfold Base.getU
  simp only [H.typedGetBytes i hi, bind, Except.bind, lookup_map]
  cases hl : lookup idx elts i with
  | none => rfl
  | some e =>
    have he := hdom e (lookup_mem idx elts i e hl)
    have hcast : (2 : Int) ^ (8 * w) = (((2 : Nat) ^ (8 * w) : Nat) : Int) := by simp
    have hU : toU w (e : Int) = e := by
      rw [toU_of_nonneg (by omega) (by rw [hcast]; exact Int.ofNat_lt.mpr he)]; simp
    simp only [Option.map_some, encOf_prim, hU, leVal_leBytes_of_lt he]
    rfl

theorem Holds.getS {a : Base} {idx : List Nat} {elts : List Int} {w : Nat} (hw : 1 ≤ w)
    (H : Holds a.toArray32 idx ((elts.map Val.int).map (encOf (TE .le (.prim true w)))) w)
    (hdom : ∀ e ∈ elts, InS w e) (i : Nat) (hi : i < 64 * a.bitmaps.length) :
    a.getS w (i : Int) = .ok (resS (lookup idx elts i)) := by
  unfold Base.getS
  simp only [H.typedGetBytes i hi, bind, Except.bind, lookup_map]
  cases hl : lookup idx elts i with
  | none => rfl
  | some e =>
    have he := hdom e (lookup_mem idx elts i e hl)
    simp only [Option.map_some, encOf_prim, leVal_leBytes_of_lt (toU_lt w e), toS_toU hw he]
    rfl


/-! ### rejection -/

theorem Base.init_len_mismatch (a0 : Base) (ety : Option Ty) (index : List Int) (vals : List Val)
    (h : index.length ≠ vals.length) : a0.init ety index vals = .ok (a0, some .indexLen) := by
  unfold Base.init; rw [if_pos h]

theorem Base.init_not_asc (a0 : Base) (ety : Option Ty) (index : List Int) (vals : List Val)
    (hl : index.length = vals.length) (h : ¬ index.Pairwise (· < ·)) :
    a0.init ety index vals = .ok (a0, some .indexNotAscending) := by
  unfold Base.init
  have hne : ¬ (index.length ≠ vals.length) := by simp [hl]
  rw [if_neg hne]
  have hasc : ascCheck index = false := by
    cases hc : ascCheck index with
    | false => rfl
    | true => exact absurd ((ascCheck_iff index).mp hc) h
  simp [Base.initIndex, hasc, bind, Except.bind, pure, Except.pure]

theorem Array.init_len_mismatch (a0 : Base) (ety : Option Ty) (index : List Int) (vals : List Val)
    (h : index.length ≠ vals.length) : Array.init a0 ety index vals = .ok (a0, some .indexLen) := by
  unfold Array.init; simp [Base.init_len_mismatch a0 ety index vals h, bind, Except.bind, pure, Except.pure]

theorem Array.init_not_asc (a0 : Base) (ety : Option Ty) (index : List Int) (vals : List Val)
    (hl : index.length = vals.length) (h : ¬ index.Pairwise (· < ·)) :
    Array.init a0 ety index vals = .ok (a0, some .indexNotAscending) := by
  unfold Array.init; simp [Base.init_not_asc a0 ety index vals hl h, bind, Except.bind, pure, Except.pure]

end ArrayPkg
