import SlimModel.Basic
import SlimModel.SlimMsg
/-
  SlimModel.Wire — the proto3 wire format as golang/protobuf v1.3.1 writes and reads it
  (table_marshal.go / table_unmarshal.go), specialised to the messages of trie/slim.proto.

  Mirrors, function by function:
    appendVarint / encodeVarint      → `varint`
    decodeVarint (x, n)              → `decodeVarint` (value, bytes consumed; at most 10 bytes,
                                        the 10th byte must be < 2; non-minimal encodings accepted)
    skipField / findEndGroup         → `readValue` / `findEndGroup`
    (*unmarshalInfo).unmarshal       → `decodeMsg` (field loop: known fields by (number, wire type),
                                        a known number with a wrong wire type and every unknown number
                                        go to XXX_unrecognized as canonical tag varint + raw value bytes;
                                        tag 0 is an error; sub-messages occurring twice are merged;
                                        repeated scalars accept packed and unpacked; last scalar wins)
    (*marshalInfo).marshal / size    → `encode*` / `protoSize*` (ascending field numbers, proto3
                                        zero/empty omission, packed repeated, non-nil empty sub-message
                                        written as tag + length 0, XXX_unrecognized appended last)

  Error values: every decoding failure of golang/protobuf on these messages is `io.ErrUnexpectedEOF`
  (→ `Err.truncated`, the same Go error value a short frame read gives — callers that look at
  `errors.Cause` cannot tell them apart, so the model does not either), except "illegal tag 0" and
  "can't skip unknown wire type" (→ `Err.badProto`).

  Deviation forced by `SlimMsg` (int32 fields are `Nat`): Go stores `int32(x)` for any varint `x`.
  The model reads exactly like Go (same errors, in the same order), keeping `x mod 2^32`, and then
  answers `Err.badProto "negative int32"` iff the message Go ends up with holds a negative int32
  anywhere (`checkI32`); otherwise it is Go's message.  Unknown fields inside *nested* messages are validated
  (same errors) but dropped, Go keeps them in the nested XXX_unrecognized.
-/

namespace Wire

/-! ### varints -/

/-- `proto.EncodeVarint`: base-128, least significant group first. -/
def varint (n : Nat) : Bytes :=
  if n < 128 then [UInt8.ofNat n] else UInt8.ofNat (n % 128 + 128) :: varint (n / 128)
termination_by n
decreasing_by omega

/-- `decodeVarint` of table_unmarshal.go from byte index `k` (0-based) on: value and number of bytes
    consumed; `none` is Go's `(0, 0)`. -/
def decodeVarintAux : Nat → Bytes → Option (Nat × Nat)
  | _, [] => none
  | k, b :: bs =>
    if b.toNat < 128 then
      (if k = 9 ∧ 2 ≤ b.toNat then none else some (b.toNat, 1))
    else if 9 ≤ k then none
    else match decodeVarintAux (k + 1) bs with
      | none => none
      | some (v, n) => some (b.toNat - 128 + 128 * v, n + 1)

def decodeVarint (bs : Bytes) : Option (Nat × Nat) := decodeVarintAux 0 bs

/-- Value and remaining bytes. -/
def unvarint (bs : Bytes) : Option (Nat × Bytes) :=
  match decodeVarint bs with
  | none => none
  | some (v, n) => some (v, bs.drop n)

/-- Field key: `tag<<3 | wire`. -/
def tag (fno wt : Nat) : Bytes := varint (fno * 8 + wt)

/-! ### reading one field -/

/-- What the field loop hands to a field's unmarshaler. -/
inductive WVal where
  | varint (v : Nat)      -- wire type 0
  | bytes (p : Bytes)     -- wire type 2 (payload)
  | other                 -- wire types 1, 3, 5 (only ever skipped by these messages)
  deriving Repr, DecidableEq, Inhabited

/-- One item of `findEndGroup`'s loop at the head of `b`: `some (adv, d)` = bytes consumed by tag and
    value, and the change of nesting depth (0 = none, 1 = start group, 2 = end group). -/
def groupItem (b : Bytes) : Option (Nat × Nat) :=
  match decodeVarint b with
  | none => none
  | some (x, n) =>
    let r := b.drop n
    match x % 8 with
    | 0 => match decodeVarint r with
           | none => none
           | some (_, k) => some (n + k, 0)
    | 1 => if r.length < 8 then none else some (n + 8, 0)
    | 2 => match decodeVarint r with
           | none => none
           | some (m, k) => if r.length - k < m then none else some (n + k + m, 0)
    | 3 => some (n, 1)
    | 4 => some (n, 2)
    | 5 => if r.length < 4 then none else some (n + 4, 0)
    | _ => none

/-- `findEndGroup`: number of bytes up to and including the end-group tag that closes `depth` open
    groups; `none` is Go's `(-1, -1)`. -/
def findEndGroup (depth : Nat) (b : Bytes) : Option Nat :=
  match b with
  | [] => none
  | c :: b' =>
    match groupItem (c :: b') with
    | none => none
    | some (adv, d) =>
      if d = 2 ∧ depth ≤ 1 then some adv
      else
        let depth' := if d = 1 then depth + 1 else if d = 2 then depth - 1 else depth
        match findEndGroup depth' (b'.drop (adv - 1)) with
        | none => none
        | some i => some (adv + i)
termination_by b.length
decreasing_by simp [List.length_drop]; omega

/-- The value of a field of wire type `wire` at the head of `b` and the bytes it occupies
    (`skipField`, and the prologue of every typed unmarshaler). -/
def readValue (wire : Nat) (b : Bytes) : Except Err (WVal × Nat) :=
  match wire with
  | 0 => match decodeVarint b with
         | none => .error .truncated
         | some (v, n) => .ok (.varint v, n)
  | 1 => if b.length < 8 then .error .truncated else .ok (.other, 8)
  | 2 => match decodeVarint b with
         | none => .error .truncated
         | some (m, n) =>
           if b.length - n < m then .error .truncated
           else .ok (.bytes ((b.drop n).take m), n + m)
  | 3 => match findEndGroup 1 b with
         | none => .error .truncated
         | some i => .ok (.other, i)
  | 5 => if b.length < 4 then .error .truncated else .ok (.other, 4)
  | _ => .error (.badProto "can't skip unknown wire type")

/-- Key `x` (= number·8 + wire type), value, raw value bytes, total bytes consumed. -/
def readField (bs : Bytes) : Except Err (Nat × WVal × Bytes × Nat) :=
  match decodeVarint bs with
  | none => .error .truncated
  | some (x, n) =>
    if x / 8 = 0 then .error (.badProto "illegal tag 0") else
    match readValue (x % 8) (bs.drop n) with
    | .error e => .error e
    | .ok (v, k) => .ok (x, v, (bs.drop n).take k, n + k)

/-- The field loop of `(*unmarshalInfo).unmarshal`.  `h acc number value` is the table of typed
    unmarshalers: `some acc'` when the field is known with a fitting wire type, `none` when it is to
    be treated as unknown; `u acc raw` stores an unknown field (canonical key varint + raw value). -/
def decodeMsg {α : Type} (h : α → Nat → WVal → Except Err (Option α)) (u : α → Bytes → α)
    (acc : α) (bs : Bytes) : Except Err α :=
  match bs with
  | [] => .ok acc
  | b :: bs' =>
    match readField (b :: bs') with
    | .error e => .error e
    | .ok (x, v, raw, n) =>
      match h acc (x / 8) v with
      | .error e => .error e
      | .ok (some acc') => decodeMsg h u acc' (bs'.drop (n - 1))
      | .ok none => decodeMsg h u (u acc (varint x ++ raw)) (bs'.drop (n - 1))
termination_by bs.length
decreasing_by all_goals (simp [List.length_drop]; omega)

/-! ### typed field unmarshalers -/

/-- `int32(x)`, kept as its 32-bit pattern while the message is being read (values ≥ 2^31 are the
    negative numbers).  Go's unmarshaler never fails on a value; whether the *final* message can be
    held by `SlimMsg` (no negative int32 left, a later occurrence of a scalar overwrites an earlier
    one) is checked once at the end, by `checkI32`. -/
def toInt32 (x : Nat) : Except Err Nat := .ok (x % 2 ^ 32)

def toUint32 (x : Nat) : Nat := x % 2 ^ 32

/-- The varints of a packed payload (the `for len(b) > 0` loop of `unmarshal*Slice`). -/
def unpack (bs : Bytes) : Except Err (List Nat) :=
  match bs with
  | [] => .ok []
  | b :: bs' =>
    match decodeVarint (b :: bs') with
    | none => .error .truncated
    | some (v, n) =>
      match unpack (bs'.drop (n - 1)) with
      | .error e => .error e
      | .ok l => .ok (v :: l)
termination_by bs.length
decreasing_by simp [List.length_drop]; omega

def mapInt32 : List Nat → Except Err (List Nat)
  | [] => .ok []
  | x :: xs =>
    match toInt32 x with
    | .error e => .error e
    | .ok v => match mapInt32 xs with
      | .error e => .error e
      | .ok l => .ok (v :: l)

/-- The values a repeated varint field receives from one occurrence: packed or a single one. -/
def repVals (v : WVal) : Except Err (Option (List Nat)) :=
  match v with
  | .varint x => .ok (some [x])
  | .bytes p => match unpack p with
    | .error e => .error e
    | .ok l => .ok (some l)
  | .other => .ok none

def repU64 (cur : List Nat) (v : WVal) : Except Err (Option (List Nat)) :=
  match repVals v with
  | .error e => .error e
  | .ok none => .ok none
  | .ok (some l) => .ok (some (cur ++ l))

def repU32 (cur : List Nat) (v : WVal) : Except Err (Option (List Nat)) :=
  match repVals v with
  | .error e => .error e
  | .ok none => .ok none
  | .ok (some l) => .ok (some (cur ++ l.map toUint32))

/-- Repeated int32: every element as its 32-bit pattern (see `toInt32`). -/
def repI32 (cur : List Nat) (v : WVal) : Except Err (Option (List Nat)) :=
  match repVals v with
  | .error e => .error e
  | .ok none => .ok none
  | .ok (some l) => match mapInt32 l with
    | .error e => .error e
    | .ok l' => .ok (some (cur ++ l'))

def scalarI32 (v : WVal) : Except Err (Option Nat) :=
  match v with
  | .varint x => match toInt32 x with
    | .error e => .error e
    | .ok y => .ok (some y)
  | _ => .ok none

def scalarU32 (v : WVal) : Except Err (Option Nat) :=
  match v with
  | .varint x => .ok (some (toUint32 x))
  | _ => .ok none

def bytesF (v : WVal) : Except Err (Option Bytes) :=
  match v with
  | .bytes p => .ok (some p)
  | _ => .ok none

/-- `makeUnmarshalMessagePtr`: allocate when nil, then *merge* the payload into the sub-message. -/
def msgF {β : Type} [Inhabited β] (dec : β → Bytes → Except Err β) (cur : Option β) (v : WVal) :
    Except Err (Option (Option β)) :=
  match v with
  | .bytes p => match dec (cur.getD default) p with
    | .error e => .error e
    | .ok b => .ok (some (some b))
  | _ => .ok none

/-! ### field writers -/

/-- proto3 scalar: zero is omitted. -/
def encVarintF (fno v : Nat) : Bytes := if v = 0 then [] else tag fno 0 ++ varint v

def packedPayload (l : List Nat) : Bytes := l.flatMap varint

/-- Packed repeated varints: empty is omitted. -/
def encPackedF (fno : Nat) (l : List Nat) : Bytes :=
  if l = [] then [] else tag fno 2 ++ varint (packedPayload l).length ++ packedPayload l

/-- proto3 bytes: empty is omitted. -/
def encBytesF (fno : Nat) (b : Bytes) : Bytes :=
  if b = [] then [] else tag fno 2 ++ varint b.length ++ b

/-- Sub-message pointer: nil is omitted, non-nil is always written (even when empty). -/
def encMsgF (fno : Nat) (o : Option Bytes) : Bytes :=
  match o with
  | none => []
  | some p => tag fno 2 ++ varint p.length ++ p

/-- `SizeVarint`. -/
def sizeVarint (n : Nat) : Nat := if n < 128 then 1 else 1 + sizeVarint (n / 128)
termination_by n
decreasing_by omega

def sizeVarintF (fno v : Nat) : Nat := if v = 0 then 0 else sizeVarint (fno * 8 + 0) + sizeVarint v

def packedSize (l : List Nat) : Nat := (l.map sizeVarint).sum

def sizePackedF (fno : Nat) (l : List Nat) : Nat :=
  if l = [] then 0 else sizeVarint (fno * 8 + 2) + sizeVarint (packedSize l) + packedSize l

def sizeBytesF (fno : Nat) (b : Bytes) : Nat :=
  if b = [] then 0 else sizeVarint (fno * 8 + 2) + sizeVarint b.length + b.length

def sizeMsgF (fno : Nat) (o : Option Nat) : Nat :=
  match o with
  | none => 0
  | some s => sizeVarint (fno * 8 + 2) + sizeVarint s + s

/-! ### trie.Bitmap -/

def bitmapH (acc : BitmapMsg) (fno : Nat) (v : WVal) : Except Err (Option BitmapMsg) :=
  match fno with
  | 20 => match repU64 acc.words v with
    | .error e => .error e
    | .ok o => .ok (o.map fun l => { acc with words := l })
  | 30 => match repI32 acc.rankIndex v with
    | .error e => .error e
    | .ok o => .ok (o.map fun l => { acc with rankIndex := l })
  | 40 => match repI32 acc.selectIndex v with
    | .error e => .error e
    | .ok o => .ok (o.map fun l => { acc with selectIndex := l })
  | _ => .ok none

/-- Unknown fields of nested messages are not kept by the model. -/
def dropUnknown {α : Type} (acc : α) (_ : Bytes) : α := acc

def decodeBitmapInto (acc : BitmapMsg) (bs : Bytes) : Except Err BitmapMsg :=
  decodeMsg bitmapH dropUnknown acc bs

/-! representability of the final message: no int32 field is negative -/

def i32ok (x : Nat) : Bool := x < 2 ^ 31

def optOK {β : Type} (f : β → Bool) : Option β → Bool
  | none => true
  | some b => f b

/-- The result of a top-level decode, refused when `SlimMsg`'s `Nat` fields cannot hold it. -/
def checkI32 {α : Type} (ok : α → Bool) (r : Except Err α) : Except Err α :=
  match r with
  | .error e => .error e
  | .ok m => if ok m then .ok m else .error (.badProto "negative int32")

def bitmapI32OK (b : BitmapMsg) : Bool := b.rankIndex.all i32ok && b.selectIndex.all i32ok

def decodeBitmap (bs : Bytes) : Except Err BitmapMsg := checkI32 bitmapI32OK (decodeBitmapInto {} bs)

def encodeBitmap (b : BitmapMsg) : Bytes :=
  encPackedF 20 b.words ++ (encPackedF 30 b.rankIndex ++ encPackedF 40 b.selectIndex)

def protoSizeBitmap (b : BitmapMsg) : Nat :=
  sizePackedF 20 b.words + (sizePackedF 30 b.rankIndex + sizePackedF 40 b.selectIndex)

/-! ### trie.VLenArray -/

def vlenH (acc : VLenArrayMsg) (fno : Nat) (v : WVal) : Except Err (Option VLenArrayMsg) :=
  match fno with
  | 10 => match scalarI32 v with
    | .error e => .error e
    | .ok o => .ok (o.map fun x => { acc with n := x })
  | 11 => match scalarI32 v with
    | .error e => .error e
    | .ok o => .ok (o.map fun x => { acc with eltCnt := x })
  | 20 => match msgF decodeBitmapInto acc.positionBM v with
    | .error e => .error e
    | .ok o => .ok (o.map fun x => { acc with positionBM := x })
  | 23 => match scalarI32 v with
    | .error e => .error e
    | .ok o => .ok (o.map fun x => { acc with fixedSize := x })
  | 30 => match bytesF v with
    | .error e => .error e
    | .ok o => .ok (o.map fun x => { acc with bytes := x })
  | 61 => match msgF decodeBitmapInto acc.presenceBM v with
    | .error e => .error e
    | .ok o => .ok (o.map fun x => { acc with presenceBM := x })
  | _ => .ok none

def decodeVLenArrayInto (acc : VLenArrayMsg) (bs : Bytes) : Except Err VLenArrayMsg :=
  decodeMsg vlenH dropUnknown acc bs

def vlenI32OK (v : VLenArrayMsg) : Bool :=
  i32ok v.n && i32ok v.eltCnt && i32ok v.fixedSize && optOK bitmapI32OK v.positionBM &&
  optOK bitmapI32OK v.presenceBM

def decodeVLenArray (bs : Bytes) : Except Err VLenArrayMsg :=
  checkI32 vlenI32OK (decodeVLenArrayInto {} bs)

def encodeVLenArray (v : VLenArrayMsg) : Bytes :=
  encVarintF 10 v.n ++ (encVarintF 11 v.eltCnt ++ (encMsgF 20 (v.positionBM.map encodeBitmap) ++
  (encVarintF 23 v.fixedSize ++ (encBytesF 30 v.bytes ++ encMsgF 61 (v.presenceBM.map encodeBitmap)))))

def protoSizeVLenArray (v : VLenArrayMsg) : Nat :=
  sizeVarintF 10 v.n + (sizeVarintF 11 v.eltCnt + (sizeMsgF 20 (v.positionBM.map protoSizeBitmap) +
  (sizeVarintF 23 v.fixedSize + (sizeBytesF 30 v.bytes + sizeMsgF 61 (v.presenceBM.map protoSizeBitmap)))))

/-! ### trie.Slim -/

def slimH (acc : SlimMsg) (fno : Nat) (v : WVal) : Except Err (Option SlimMsg) :=
  match fno with
  | 11 => match scalarI32 v with
    | .error e => .error e
    | .ok o => .ok (o.map fun x => { acc with bigInnerCnt := x })
  | 14 => match scalarI32 v with
    | .error e => .error e
    | .ok o => .ok (o.map fun x => { acc with shortSize := x })
  | 20 => match msgF decodeBitmapInto acc.nodeTypeBM v with
    | .error e => .error e
    | .ok o => .ok (o.map fun x => { acc with nodeTypeBM := x })
  | 30 => match msgF decodeBitmapInto acc.inners v with
    | .error e => .error e
    | .ok o => .ok (o.map fun x => { acc with inners := x })
  | 31 => match msgF decodeBitmapInto acc.shortBM v with
    | .error e => .error e
    | .ok o => .ok (o.map fun x => { acc with shortBM := x })
  | 32 => match repU32 acc.shortTable v with
    | .error e => .error e
    | .ok o => .ok (o.map fun l => { acc with shortTable := l })
  | 38 => match msgF decodeVLenArrayInto acc.innerPrefixes v with
    | .error e => .error e
    | .ok o => .ok (o.map fun x => { acc with innerPrefixes := x })
  | 58 => match msgF decodeVLenArrayInto acc.leafPrefixes v with
    | .error e => .error e
    | .ok o => .ok (o.map fun x => { acc with leafPrefixes := x })
  | 60 => match msgF decodeVLenArrayInto acc.leaves v with
    | .error e => .error e
    | .ok o => .ok (o.map fun x => { acc with leaves := x })
  | _ => .ok none

/-- `XXX_unrecognized = append(XXX_unrecognized, key varint, raw value…)`. -/
def slimU (acc : SlimMsg) (raw : Bytes) : SlimMsg := { acc with unrecognized := acc.unrecognized ++ raw }

def decodeSlimInto (acc : SlimMsg) (bs : Bytes) : Except Err SlimMsg :=
  decodeMsg slimH slimU acc bs

def slimI32OK (s : SlimMsg) : Bool :=
  i32ok s.bigInnerCnt && i32ok s.shortSize && optOK bitmapI32OK s.nodeTypeBM && optOK bitmapI32OK s.inners &&
  optOK bitmapI32OK s.shortBM && optOK vlenI32OK s.innerPrefixes && optOK vlenI32OK s.leafPrefixes &&
  optOK vlenI32OK s.leaves

/-- `proto.Unmarshal(b, &Slim{})` (Reset, then merge into the empty message), then the
    representability check. -/
def decodeSlim (bs : Bytes) : Except Err SlimMsg := checkI32 slimI32OK (decodeSlimInto {} bs)

def encodeSlimKnown (s : SlimMsg) : Bytes :=
  encVarintF 11 s.bigInnerCnt ++ (encVarintF 14 s.shortSize ++
  (encMsgF 20 (s.nodeTypeBM.map encodeBitmap) ++ (encMsgF 30 (s.inners.map encodeBitmap) ++
  (encMsgF 31 (s.shortBM.map encodeBitmap) ++ (encPackedF 32 s.shortTable ++
  (encMsgF 38 (s.innerPrefixes.map encodeVLenArray) ++ (encMsgF 58 (s.leafPrefixes.map encodeVLenArray) ++
  encMsgF 60 (s.leaves.map encodeVLenArray))))))))

/-- `proto.Marshal(&Slim)`. -/
def encodeSlim (s : SlimMsg) : Bytes := encodeSlimKnown s ++ s.unrecognized

/-- `proto.Size(&Slim)`. -/
def protoSizeSlim (s : SlimMsg) : Nat :=
  sizeVarintF 11 s.bigInnerCnt + (sizeVarintF 14 s.shortSize +
  (sizeMsgF 20 (s.nodeTypeBM.map protoSizeBitmap) + (sizeMsgF 30 (s.inners.map protoSizeBitmap) +
  (sizeMsgF 31 (s.shortBM.map protoSizeBitmap) + (sizePackedF 32 s.shortTable +
  (sizeMsgF 38 (s.innerPrefixes.map protoSizeVLenArray) + (sizeMsgF 58 (s.leafPrefixes.map protoSizeVLenArray) +
  sizeMsgF 60 (s.leaves.map protoSizeVLenArray)))))))) + s.unrecognized.length

/-! ### the proto3 normal form of `XXX_unrecognized` -/

/-- Does the Slim unmarshaler consume a field with this number and wire type itself? -/
def slimKnown (fno wire : Nat) : Bool :=
  (wire = 0 && (fno = 11 || fno = 14 || fno = 32)) ||
  (wire = 2 && (fno = 20 || fno = 30 || fno = 31 || fno = 32 || fno = 38 || fno = 58 || fno = 60))

/-- `u` is a sequence of well-formed fields, each with a canonically encoded key that the message
    (described by `known`) does not consume itself — exactly the byte strings the decoder leaves
    in `XXX_unrecognized`. -/
def unknownOnly (known : Nat → Nat → Bool) (u : Bytes) : Bool :=
  match u with
  | [] => true
  | b :: u' =>
    match readField (b :: u') with
    | .error _ => false
    | .ok (x, _, _, n) =>
      !known (x / 8) (x % 8) && (varint x == (b :: u').take (varint x).length) &&
      unknownOnly known (u'.drop (n - 1))
termination_by u.length
decreasing_by simp [List.length_drop]; omega

end Wire
