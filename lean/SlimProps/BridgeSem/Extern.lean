import Generated.Funcs
import SlimProps.BridgeSem.Common
import SlimModel.Slim
import SlimModel.Query
import SlimProofs.BitsLemmas.Rank

/-
  SlimProps.BridgeSem.Extern — tie 1, semantic part, WHOLE functions (`namespace Generated.W` of
  Generated/Funcs.lean): what the whole-function bridges share.

  * EXTERNAL semantics.  The Go functions of github.com/openacid/low (outside /repo) that the query
    path calls are not translated; `Generated/GoSem.lean` gives them hand-written specification functions
    (`Go.rank64`, `Go.rank128`, `Go.select32R64`, `Go.bitstrLen`, `Go.maskAt`, `Go.bitAt`) — ASSUMED.
    Here they are related to the model's `Bits.rank64 / rank128 / select32R64` (SlimModel/Bits.lean):
      `rank64_sem`        for a non-negative position and index entries in [0, 2^31)
      `rank128_sem`       additionally `i + 64` representable and an index entry that is at least the count
                          it is corrected by (the model subtracts in `Nat`, the Go code in `int32`)
      `rank128_mk_sem`    on a bitmap with the index `IndexRank128` computes: plain counting (`Bits.cnt`)
      `select32R64_sem`, `select32R64_bounds`   for a non-negative ordinal, fewer than 2^32 bits
      `sliceS_sem`        `a[lo:hi]` = `Slim.sliceBytes`
  * ABSTRACTION functions `absBitmap`, `absVLen`, `absSlim`: the model's messages as values of the
    generated structures (same fields; bytes as `Nat`), `natBytes`, `okOpt` (a model panic is `none`),
    `b2n` (a Go 0/1 `int32`), `nodeLabels` (the labels `Slim.getNode` decodes).
  * a concrete trie for the non-vacuity examples: `exSlim`, `exQr`.
  See SlimProps/BridgeSem.lean for the overview.
-/

set_option linter.unusedSimpArgs false
set_option linter.unusedVariables false

open Generated Bits

namespace BridgeSem

/-- a Go `bool`-like `int32` (0 / 1) -/
def b2n (b : Bool) : Nat := if b then 1 else 0

/-- a byte string as the translator represents it -/
def natBytes (bs : Bytes) : List Nat := bs.map UInt8.toNat

/-- the result of a model function as the translator represents it: a panic is `none` -/
def okOpt {α : Type} (r : Except Err α) : Option α := r.toOption

@[simp] theorem okOpt_ok {α : Type} (a : α) : okOpt (Except.ok a : Except Err α) = some a := rfl
@[simp] theorem okOpt_error {α : Type} (e : Err) : okOpt (Except.error e : Except Err α) = none := rfl
@[simp] theorem okOpt_pure {α : Type} (a : α) : okOpt (pure a : Except Err α) = some a := rfl

theorem okOpt_bind {α β : Type} (x : Except Err α) (f : α → Except Err β) :
    okOpt (x >>= f) = (okOpt x).bind (fun a => okOpt (f a)) := by
  cases x <;> rfl

/-- bit `j` of `w` the way `Rank64` / `Rank128` read it: `int32(w>>uint(j)) & 1` -/
theorem bit_read (w j : Nat) : ((w >>> j) % 2 ^ 32) &&& 1 = b2n (w.testBit j) := by
  rw [Nat.and_one_is_mod, Nat.testBit_eq_decide_div_mod_eq, Nat.shiftRight_eq_div_pow]
  have : w / 2 ^ j % 2 ^ 32 % 2 = w / 2 ^ j % 2 := by omega
  rw [this]; unfold b2n
  by_cases hb : w / 2 ^ j % 2 = 1 <;> simp [hb]; omega

theorem idxS_eq {α : Type} (w : Nat) (a : List α) (i : Nat) (h : i < 2 ^ (w - 1)) :
    Go.idxS w a i = a[i]? := by unfold Go.idxS; rw [if_pos h]

theorem maskAt_le (k : Nat) (h : k ≤ 64) : Go.maskAt k = some (Go.mask64 k) := by
  unfold Go.maskAt Go.mask64; rw [if_pos h]

theorem bitAt_lt (k : Nat) (h : k < 64) : Go.bitAt k = some (2 ^ k) := by
  unfold Go.bitAt; rw [if_pos h]

theorem and_two_pow_eq (w k : Nat) : w &&& 2 ^ k = if w.testBit k then 2 ^ k else 0 := by
  apply Nat.eq_of_testBit_eq
  intro j
  rw [Nat.testBit_and, Nat.testBit_two_pow]
  by_cases h : k = j
  · subst h; cases hb : w.testBit k <;> simp [hb]
  · cases hb : w.testBit k <;> simp [hb, h]

/-- `w & bitmap.Bit[k] == 0`: bit `k` of `w` is clear -/
theorem and_bit_eq_zero (w k : Nat) : (Go.and w (2 ^ k) == 0) = !w.testBit k := by
  rw [and_eq, and_two_pow_eq]
  cases w.testBit k <;> simp

theorem and_bit_ne_zero (w k : Nat) : (Go.and w (2 ^ k) != 0) = w.testBit k := by
  rw [and_eq, and_two_pow_eq]
  cases w.testBit k <;> simp

/-- `bitmap.Rank64` as specified in GoSem.lean = the model's `Bits.rank64`, on a non-negative position
    and a rank index with entries in `[0, 2^31)`. -/
theorem rank64_sem (b : BitmapMsg) (i : Nat) (hri : ∀ r ∈ b.rankIndex, r < 2 ^ 31) (hi : i < 2 ^ 31) :
    Go.rank64 b.words b.rankIndex i = (okOpt (Bits.rank64 b i)).map (fun p => (p.1, b2n p.2)) := by
  unfold Go.rank64 Bits.rank64
  have h1 : Go.sar 32 i 6 = i / 64 := by go_simp
  have h2 : Go.and i 63 = i % 64 := by go_simp
  have h3 : i / 64 < 2 ^ (32 - 1) := by omega
  simp only [h1, h2, idxS_eq _ _ _ h3, maskAt_le (i % 64) (by omega), Option.bind_eq_bind, Option.pure_def]
  cases hr : b.rankIndex[i / 64]? with
  | none => cases hw : b.words[i / 64]? <;> simp
  | some n =>
    cases hw : b.words[i / 64]? with
    | none => simp
    | some w =>
      have hn : n < 2 ^ 31 := hri n (List.mem_of_getElem? hr)
      have hpc := popcount_le (w % 2 ^ (i % 64))
      have hp : Go.popcount64 (w % 2 ^ (i % 64)) = popcount (w % 2 ^ (i % 64)) := rfl
      simp only [Option.bind_some, mask64_and, hp, okOpt_ok, Option.map_some]
      generalize popcount (w % 2 ^ (i % 64)) = c at hpc
      have e1 : Go.add 32 n (Go.conv 64 true 32 c) = n + c := by go_simp; omega
      have e2 : Go.and (Go.conv 64 false 32 (Go.shr w (i % 64))) 1 = b2n (w.testBit (i % 64)) := by
        rw [conv_narrow _ _ _ _ (by omega), and_eq, Go.shr, bit_read]
      rw [e1, e2]

/-- the count `Rank64` returns is an index entry plus at most 64 -/
theorem rank64_ok_lt (b : BitmapMsg) (i k : Nat) (c : Bool) (hri : ∀ r ∈ b.rankIndex, r < 2 ^ 31)
    (h : Bits.rank64 b i = .ok (k, c)) : k < 2 ^ 31 + 64 := by
  unfold Bits.rank64 at h
  cases hw : b.words[i / 64]? with
  | none => simp [hw] at h
  | some w =>
    cases hr : b.rankIndex[i / 64]? with
    | none => simp [hw, hr] at h
    | some n =>
      simp only [hw, hr, Except.ok.injEq, Prod.mk.injEq] at h
      have := hri n (List.mem_of_getElem? hr)
      have := popcount_le (w % 2 ^ (i % 64))
      omega

/-- `bitmap.Rank128` as specified in GoSem.lean = the model's `Bits.rank128`, for a position with
    `i + 64` representable, index entries in `[0, 2^31)`, and an index entry that is at least the
    count it is corrected by (`Bits.rank128` subtracts in `Nat`, the Go code in `int32`). -/
theorem rank128_sem (b : BitmapMsg) (i : Nat) (hri : ∀ r ∈ b.rankIndex, r < 2 ^ 31) (hi : i + 64 < 2 ^ 31)
    (hsub : ∀ w n, b.words[i / 64]? = some w → b.rankIndex[(i + 64) / 128]? = some n →
      i / 64 % 2 * popcount w ≤ n) :
    Go.rank128 b.words b.rankIndex i = (okOpt (Bits.rank128 b i)).map (fun p => (p.1, b2n p.2)) := by
  unfold Go.rank128 Bits.rank128
  have h1 : Go.sar 32 i 6 = i / 64 := by go_simp
  have h2 : Go.and i 63 = i % 64 := by go_simp
  have h3 : i / 64 < 2 ^ (32 - 1) := by omega
  have h4 : Go.sar 32 (Go.add 32 i 64) 7 = (i + 64) / 128 := by go_simp
  have h5 : (i + 64) / 128 < 2 ^ (32 - 1) := by omega
  have h6 : Go.and (i / 64) 1 = i / 64 % 2 := by rw [and_eq, Nat.and_one_is_mod]
  simp only [h1, h2, h4, h6, idxS_eq _ _ _ h3, idxS_eq _ _ _ h5, maskAt_le (i % 64) (by omega),
    Option.bind_eq_bind, Option.pure_def]
  cases hr : b.rankIndex[(i + 64) / 128]? with
  | none => cases hw : b.words[i / 64]? <;> simp
  | some n =>
    cases hw : b.words[i / 64]? with
    | none => simp
    | some w =>
      have hn : n < 2 ^ 31 := hri n (List.mem_of_getElem? hr)
      have hs := hsub w n hw hr
      have hpc := popcount_le (w % 2 ^ (i % 64))
      have hpw := popcount_le w
      have hp : Go.popcount64 (w % 2 ^ (i % 64)) = popcount (w % 2 ^ (i % 64)) := rfl
      have hp' : Go.popcount64 w = popcount w := rfl
      simp only [Option.bind_some, mask64_and, hp, hp', okOpt_ok, Option.map_some]
      generalize popcount (w % 2 ^ (i % 64)) = c at hpc
      generalize popcount w = d at hpw hs
      have hr2 : i / 64 % 2 < 2 := Nat.mod_lt _ (by omega)
      generalize i / 64 % 2 = a at hs hr2
      have hd : a * d ≤ 64 := by
        have : a = 0 ∨ a = 1 := by omega
        rcases this with rfl | rfl <;> omega
      have e0 : Go.mul 32 a (Go.conv 64 true 32 d) = a * d := by
        rw [conv_narrow _ _ _ _ (by omega), Nat.mod_eq_of_lt (by omega)]
        exact mul_small (by omega)
      have e1 : Go.add 32 (Go.sub 32 n (a * d)) (Go.conv 64 true 32 c) = n - a * d + c := by
        rw [conv_narrow _ _ _ _ (by omega), Nat.mod_eq_of_lt (by omega), sub_small hs (by omega)]
        exact add_small (by omega)
      have e2 : Go.and (Go.conv 64 false 32 (Go.shr w (i % 64))) 1 = b2n (w.testBit (i % 64)) := by
        rw [conv_narrow _ _ _ _ (by omega), and_eq, Go.shr, bit_read]
      rw [e0, e1, e2]

/-! ### `Rank128` / `Rank64` on a bitmap whose rank index is the one `bitmap.IndexRank128` /
  `IndexRank64` compute (`Bits.mk ws "r128"`, `"r64"`): counting, no side condition on the index -/

theorem indexRank128_lt (ws : List Nat) (h : 64 * ws.length < 2 ^ 31) :
    ∀ r ∈ indexRank128 ws, r < 2 ^ 31 := by
  intro r hr
  obtain ⟨k, hk⟩ := List.getElem?_of_mem hr
  rw [indexRank128_getElem?] at hk
  split at hk
  · rename_i hle
    cases hk
    have := cnt_le (getBit ws) (64 * (2 * k))
    omega
  · cases hk

theorem rank128_mk_sem (ws : List Nat) (i : Nat) (hi : i < 64 * ws.length)
    (hfit : 64 * ws.length + 64 < 2 ^ 31) :
    Go.rank128 ws (indexRank128 ws) i = some (cnt (getBit ws) i, b2n (getBit ws i)) := by
  have h := rank128_sem (mk ws "r128") i (indexRank128_lt ws (by omega)) (by omega) (by
    intro w n hw hn
    rw [mk_r128] at hw hn
    simp only at hw hn
    rw [indexRank128_getElem?] at hn
    split at hn
    · cases hn
      rcases Nat.mod_two_eq_zero_or_one (i / 64) with h | h
      · rw [h]; omega
      · have e : 2 * ((i + 64) / 128) = i / 64 + 1 := by omega
        have hw' : ws.getD (i / 64) 0 = w := by rw [List.getD_eq_getElem?_getD, hw]; rfl
        rw [h, e, cnt_getBit_succ_word, hw']; omega
    · cases hn)
  rw [rank128_mk_cnt ws i hi] at h
  simpa [mk_r128] using h

/-! ### `Select32R64` -/

theorem selectInWord_eq (w k : Nat) : Go.selectInWord w k = Bits.selectInWord w k := rfl
theorem nextOne_eq (ws : List Nat) (p : Nat) : Go.nextOne ws p = Bits.nextOne ws p := rfl

theorem select_walk_eq (b : BitmapMsg) (i fuel wordI : Nat) :
    Go.select32R64Walk b.rankIndex i fuel wordI = okOpt (Bits.select32R64.walk b i fuel wordI) := by
  induction fuel generalizing wordI with
  | zero => rfl
  | succ fuel ih =>
    unfold Go.select32R64Walk Bits.select32R64.walk
    cases b.rankIndex[wordI + 1]? with
    | none => rfl
    | some r =>
      simp only
      by_cases h : r ≤ i
      · rw [if_pos h, if_pos h]; exact ih (wordI + 1)
      · rw [if_neg h, if_neg h]; rfl

theorem selectInWord_lt {w k off : Nat} (h : Bits.selectInWord w k = some off) : off < 64 := by
  unfold Bits.selectInWord at h
  have hm := List.mem_of_getElem? h
  have := (List.mem_filter.mp hm).1
  simpa using this

theorem nextOne_le (ws : List Nat) (p : Nat) : Bits.nextOne ws p ≤ ws.length * 64 := by
  unfold Bits.nextOne
  simp only
  split
  · rename_i i hf
    have hm := List.mem_of_find?_eq_some hf
    rw [List.mem_range'_1] at hm
    omega
  · omega

/-- `bitmap.Select32R64` as specified in GoSem.lean = the model's `Bits.select32R64` for a
    non-negative ordinal and a bitmap of fewer than `2^32` bits. -/
theorem select32R64_sem (b : BitmapMsg) (i : Nat) (hi : i < 2 ^ 31) (hlen : b.words.length * 64 < 2 ^ 32) :
    Go.select32R64 b.words b.selectIndex b.rankIndex i = okOpt (Bits.select32R64 b i) := by
  unfold Go.select32R64 Bits.select32R64
  rw [if_neg (by omega)]
  simp only [Option.bind_eq_bind, Option.pure_def, select_walk_eq, selectInWord_eq, nextOne_eq]
  cases hs : b.selectIndex[i / 32]? with
  | none => rfl
  | some s0 =>
    simp only [Option.bind_some]
    show _ = okOpt (Bits.select32R64.walk b i (b.rankIndex.length + 1) (s0 / 64) >>= _)
    rw [okOpt_bind]
    cases hwk : okOpt (Bits.select32R64.walk b i (b.rankIndex.length + 1) (s0 / 64)) with
    | none => rfl
    | some wordI =>
      simp only [Option.bind_some]
      cases hw : b.words[wordI]? with
      | none => rfl
      | some w =>
        cases hb : b.rankIndex[wordI]? with
        | none => rfl
        | some base =>
          cases ho : Bits.selectInWord w (i - base) with
          | none => simp [ho]
          | some off =>
            have hoff := selectInWord_lt ho
            have hwl : wordI < b.words.length := (List.getElem?_eq_some_iff.mp hw).1
            have hn := nextOne_le b.words (wordI * 64 + off + 1)
            simp only [Option.bind_some, ho, okOpt_pure, okOpt_ok, Go.wrap]
            rw [Nat.mod_eq_of_lt (by omega), Nat.mod_eq_of_lt (by omega)]

/-! ### the messages as the translated functions see them (abstraction functions)

  The generated structures `Generated.W.Bitmap`, `VLenArray`, `Slim` have the fields of the Go
  structs (without the `XXX_…` bookkeeping fields of the protobuf runtime); the model's
  `BitmapMsg`, `VLenArrayMsg`, `SlimMsg` (SlimModel/SlimMsg.lean) have the same fields with `Nat`
  values; bytes are `UInt8` in the model and `Nat` in the translation. -/

def absBitmap (b : BitmapMsg) : W.Bitmap :=
  { Words := b.words, RankIndex := b.rankIndex, SelectIndex := b.selectIndex }

def absVLen (v : VLenArrayMsg) : W.VLenArray :=
  { N := v.n, EltCnt := v.eltCnt, PresenceBM := v.presenceBM.map absBitmap,
    PositionBM := v.positionBM.map absBitmap, FixedSize := v.fixedSize, Bytes := natBytes v.bytes }

def absSlim (s : SlimMsg) : W.Slim :=
  { BigInnerCnt := s.bigInnerCnt, ShortSize := s.shortSize, NodeTypeBM := s.nodeTypeBM.map absBitmap,
    Inners := s.inners.map absBitmap, ShortBM := s.shortBM.map absBitmap, ShortTable := s.shortTable,
    InnerPrefixes := s.innerPrefixes.map absVLen, LeafPrefixes := s.leafPrefixes.map absVLen,
    Leaves := s.leaves.map absVLen }

/-- the labels of an inner node as `Slim.getNode` decodes them: the set bits of the short-table
    entry, or the set bits of the words in `[frm, frm + size)` -/
def nodeLabels (ws : List Nat) (frm size : Nat) (short : Option Nat) : List Nat :=
  match short with
  | some bm => (List.range Slim.innerSize).filter (fun k => bm.testBit k)
  | none => Slim.labelsIn ws frm size

/-- the `*SlimTrie` the translated methods receive: the message and the cached `vars` -/
def absTrie (s : SlimMsg) (v : W.slimVars) : W.SlimTrie := { inner := some (absSlim s), vars := some v }

/-- the fields `initVars` caches (`initVars_sem`, SlimProps/BridgeSem/GetNode.lean) -/
def varsOf (s : SlimMsg) : W.slimVars :=
  { BigInnerOffset := Go.ofS 32 (240 * (s.bigInnerCnt : Int)),
    ShortMinusInner := Go.ofS 32 ((s.shortSize : Int) - 17),
    ShortMask := 2 ^ s.shortSize - 1 }

theorem natBytes_length (bs : Bytes) : (natBytes bs).length = bs.length := by simp [natBytes]

/-- `a[lo:hi]` on a byte string = the model's `Slim.sliceBytes` -/
theorem sliceS_sem (bs : Bytes) (a b : Nat) (ha : a < 2 ^ 31) (hb : b < 2 ^ 31) :
    Go.sliceS 32 (natBytes bs) a b = (okOpt (Slim.sliceBytes bs a b)).map natBytes := by
  unfold Go.sliceS Slim.sliceBytes
  rw [natBytes_length]
  by_cases h : a ≤ b ∧ b ≤ bs.length
  · rw [if_pos h, if_pos ⟨by omega, by omega, h.1, h.2⟩]
    simp [natBytes, List.map_take, List.map_drop]
  · rw [if_neg h, if_neg (fun h' => h ⟨h'.2.2.1, h'.2.2.2⟩)]; rfl

/-- the positions `Select32R64` returns are inside the bitmap (or its end) -/
theorem select32R64_bounds (b : BitmapMsg) (i a c : Nat) (h : Bits.select32R64 b i = .ok (a, c)) :
    a < b.words.length * 64 ∧ c ≤ b.words.length * 64 := by
  unfold Bits.select32R64 at h
  cases hs : b.selectIndex[i / 32]? with
  | none => simp [hs] at h
  | some s0 =>
    simp only [hs] at h
    cases hwk : Bits.select32R64.walk b i (b.rankIndex.length + 1) (s0 / 64) with
    | error e => simp [hwk, bind, Except.bind] at h
    | ok wordI =>
      simp only [hwk, bind, Except.bind] at h
      cases hw : b.words[wordI]? with
      | none => simp [hw] at h
      | some w =>
        cases hb : b.rankIndex[wordI]? with
        | none => simp [hw, hb] at h
        | some base =>
          cases ho : Bits.selectInWord w (i - base) with
          | none => simp [hw, hb, ho] at h
          | some off =>
            simp only [hw, hb, ho, pure, Except.pure, Except.ok.injEq, Prod.mk.injEq] at h
            have hoff := selectInWord_lt ho
            have hwl : wordI < b.words.length := (List.getElem?_eq_some_iff.mp hw).1
            have hn := nextOne_le b.words (wordI * 64 + off + 1)
            obtain ⟨h1, h2⟩ := h
            omega

/-! ### `Option.bind_some` as a PROPOSITIONAL rewrite rule

  `Option.bind_some` is proved by `rfl`, so `simp` uses it definitionally and the kernel has to
  re-check `(some a).bind f ≡ f a`; when `f a` starts with a call such as `Go.rank128 … (Go.sub 32 x 1)`
  the kernel compares `some a` with that call by evaluating it, and `Go.sub w x c` with a literal `c`
  is `(x + (2^w - c)) % 2^w`, whose evaluation on a symbolic `x` peels the literal one successor at a
  time.  The twin below has a proof that is not `rfl`: `simp` then builds an explicit congruence proof. -/
theorem bind_some_nr {α β : Type} (a : α) (f : α → Option β) : (some a).bind f = f a := by
  cases h : f a <;> simp [h]

/-! ### model-side helpers of the label lookup (independent of any generated definition) -/

theorem nibs_getD_w (key : Bytes) (i : Nat) :
    (nibs key).getD i 0 =
      if i % 2 = 0 then (key.map UInt8.toNat).getD (i / 2) 0 / 16
      else (key.map UInt8.toNat).getD (i / 2) 0 % 16 := by
  induction key generalizing i with
  | nil => simp [nibs]
  | cons b bs ih =>
    match i with
    | 0 => simp [nibs]
    | 1 => simp [nibs]
    | i + 2 =>
      have e1 : (i + 2) / 2 = i / 2 + 1 := by omega
      have e2 : (i + 2) % 2 = i % 2 := by omega
      simp only [nibs, List.getD_cons_succ, List.map_cons, e1, e2]
      exact ih i

theorem nibs_length_w (key : Bytes) : (nibs key).length = 2 * key.length := by
  induction key with
  | nil => rfl
  | cons b bs ih => simp only [nibs, List.length_cons, ih]; omega

theorem getD_map_lt_w (key : Bytes) (j : Nat) : (key.map UInt8.toNat).getD j 0 < 256 := by
  rw [List.getD_eq_getElem?_getD, List.getElem?_map]
  cases key[j]? with
  | none => simp
  | some b => simpa using byte_lt b

/-- the rank of a label among the labels a 17-bit bitmap stands for -/
theorem rankLabels_bm17 (bm ith : Nat) (h : ith ≤ 17) :
    rankLabels ((List.range Slim.innerSize).filter (fun k => bm.testBit k)) ith
      = ((List.range ith).filter bm.testBit).length := by
  unfold rankLabels
  rw [List.filter_filter, ← cnt_eq_length_filter, ← cnt_eq_length_filter]
  have := cnt_and_lt bm.testBit ith Slim.innerSize
  rw [Nat.min_eq_left (by simp [Slim.innerSize]; omega)] at this
  rw [← this]
  all_goals (apply cnt_congr; intro j _; simp [Bool.and_comm])

/-! ### a concrete trie (non-vacuity examples of the whole-function bridges) -/

/-- `Slim.encode` of the complete trie (`Opt{Complete}`) of "abc", "abd", "b", "bcd" with values 1 2 3 4:
    inner nodes 0, 1, 2 (17-bit bitmaps, stored prefixes), leaves 3 … 6 -/
def exSlim : SlimMsg :=
  { bigInnerCnt := 0, shortSize := 0,
    nodeTypeBM := some { words := [7], rankIndex := [0] },
    inners := some { words := [2216209416204], rankIndex := [0] },
    shortBM := some { words := [0], rankIndex := [0] },
    shortTable := [0],
    innerPrefixes := some { eltCnt := 2, positionBM := some { words := [37], rankIndex := [0, 3], selectIndex := [0] }, bytes := [96, 240, 98, 96, 240], presenceBM := some { words := [3], rankIndex := [0] } },
    leafPrefixes := some { positionBM := some { words := [5], rankIndex := [0, 2], selectIndex := [0] }, bytes := [99, 100], presenceBM := some { words := [8], rankIndex := [0] } },
    leaves := some { n := 4, eltCnt := 4, fixedSize := 1, bytes := [1, 2, 3, 4], presenceBM := some { words := [15], rankIndex := [0] } } }

/-- a fresh session for the key "abd" -/
def exQr : W.querySession :=
  { keyBitLen := 24, key := [97, 98, 100], wordSize := 0, from_ := 0, to := 0, bm := 0, isInner := 0, ithInner := 0,
    hasInnerPrefix := false, innerPrefixLen := 0, innerPrefix := [], ithLeaf := 0, hasLeafPrefix := false, leafPrefix := [] }

theorem exSlim_wf : exSlim.WF := by
  unfold SlimMsg.WF
  refine ⟨by decide, by decide, by decide, ?_, ?_, ?_, ?_, ?_, ?_⟩
  all_goals
    intro b hb
    cases hb
    first
    | (unfold BitmapMsg.WF; decide)
    | (unfold VLenArrayMsg.WF
       refine ⟨by decide, by decide, by decide, ?_, ?_⟩ <;>
       (intro b hb; cases hb <;> (unfold BitmapMsg.WF; decide)))

example : Go.rank64 [7] [0] 2 = some (2, 1) := by decide
example : Go.rank128 [2216209416204] [0] 17 = some (2, 0) := by decide
example : Go.select32R64 [37] [0] [0, 3] 1 = some (2, 5) := by decide
example : (okOpt (Bits.select32R64 { words := [37], rankIndex := [0, 3], selectIndex := [0] } 1)) = some (2, 5) := by decide
example : Go.bitstrLen [98, 96, 240] = some 12 := by decide

end BridgeSem

#print axioms BridgeSem.rank64_sem
#print axioms BridgeSem.rank128_sem
#print axioms BridgeSem.rank128_mk_sem
#print axioms BridgeSem.select32R64_sem
#print axioms BridgeSem.select32R64_bounds
#print axioms BridgeSem.sliceS_sem
#print axioms BridgeSem.exSlim_wf
