import SlimProofs.IndexExact
import SlimProps.C01
import SlimProps.C09
/-
  SlimProps.C12 — "SlimIndex plus a key-verifying reader behaves as an exact map", at L1
  (`si.t1.view`, the record array that `NewSlimIndex` builds with default options:
  de-duplication ON, no stored prefixes).

  Records: any list accepted by `Index.new` (so the keys are strictly ascending — `build` checks
  it), offsets in the int64 range (`InI64`).

  * `C12_get_indexed`   one offset per key (adjacent records have different offsets, e.g.
                        strictly increasing): `Get` returns the stored record of every indexed key.
  * `C12_get_absent`    every other string: not found.  The index may report a false positive,
                        but the reader re-validates the key.  No hypothesis on the offsets.
  * `C12_get_exact`     both.
  * `C12_rangeget_indexed` / `C12_rangeget_absent` / `C12_rangeget_exact`
                        block offsets (ANY offsets in range — adjacent keys may share one,
                        de-duplication then drops all but the first key of a block):
                        `RangeGet` returns the stored record of every indexed key and not found
                        for every other string.  Uses C02 (`RangeGet` on every indexed key returns
                        the value supplied for it) as the explicit hypothesis `hC02`, stated
                        exactly like `C02_rangeget_indexed` of SlimProps/C02.lean;
                        SlimProps/C12Closed.lean discharges it.

  Explicit hypothesis `htotal` of the `absent` halves: the trie lookup returns normally
  (`∃ r, get si.t1.view q = .ok r`) — totality of lookups on arbitrary query strings is C10_total
  and not proved here.  The `indexed` halves need no such hypothesis.
-/

open IndexExact Index

/-- adjacent records carry different offsets ("one offset per key") -/
def AdjDistinct (recs : List Record) : Prop :=
  ∀ i (h : i + 1 < recs.length), recs[i].offset ≠ recs[i + 1].offset

/-- strictly increasing offsets are adjacent-distinct -/
theorem AdjDistinct.of_increasing {recs : List Record}
    (h : ∀ i (h : i + 1 < recs.length), recs[i].offset < recs[i + 1].offset) : AdjDistinct recs :=
  fun i hi => Int.ne_of_lt (h i hi)

namespace C12

theorem keys_length (recs : List Record) : (keysOf recs).length = recs.length := by simp [keysOf]
theorem vals_length (recs : List Record) : (valsOf recs).length = recs.length := by simp [valsOf]

theorem vals_ne_nil (recs : List Record) : ∀ b ∈ valsOf recs, b ≠ [] := by
  intro b hb
  obtain ⟨r, _, rfl⟩ := List.mem_map.mp hb
  exact encI64_ne_nil _

/-- the trie answer `some (some (encI64 o_i))` for key `i` becomes record `i` -/
theorem lookup_indexed {recs : List Record} {si : SlimIndex} (hrecs : si.recs = recs)
    (hasc : strictAsc (keysOf recs) = true) (hrange : ∀ r ∈ recs, InI64 r.offset)
    (i : Nat) (hi : i < recs.length) :
    lookup si (.ok (some (some ((valsOf recs).getD i [])))) recs[i].key =
      .ok (some recs[i].value) := by
  rw [lookup_some, valsOf_getD _ _ hi, leSigned_encI64 (hrange _ (List.getElem_mem hi)), hrecs,
    read_hit recs recs[i] (List.getElem_mem hi) (record_uniq hasc i hi)]

/-- whatever the trie answers for a string that is no key — as long as it is not the nil
    value — the reader rejects it -/
theorem lookup_absent {recs : List Record} {si : SlimIndex} (hrecs : si.recs = recs)
    (q : Bytes) (hq : ∀ r ∈ recs, r.key ≠ q) (y : Option (Option Bytes))
    (hy : ∀ x, y = some x → ∃ b, x = some b) : lookup si (.ok y) q = .ok none := by
  cases y with
  | none => rfl
  | some x =>
    obtain ⟨b, rfl⟩ := hy x rfl
    rw [lookup_some, hrecs, read_miss recs _ q hq]

/-- the trie of an index over no records is empty: every lookup misses -/
theorem empty_get (opt : Opt) (q : Bytes) : _root_.get (Trie1.empty opt).view q = .ok none := by
  rfl

theorem empty_rangeGet (opt : Opt) (q : Bytes) :
    _root_.rangeGet (Trie1.empty opt).view q = .ok none := by
  rfl

end C12

open C12

/-- **C12 (Get, indexed keys).** -/
theorem C12_get_indexed (recs : List Record) (si : SlimIndex) (hnew : Index.new recs = .ok si)
    (hrange : ∀ r ∈ recs, InI64 r.offset) (hadj : AdjDistinct recs)
    (i : Nat) (hi : i < recs.length) :
    Index.get si si.t1.view recs[i].key = .ok (some recs[i].value) := by
  obtain ⟨hb, hrecs⟩ := new_ok_elim hnew
  have hkl := keys_length recs
  have hvl := vals_length recs
  have hne : keysOf recs ≠ [] := by
    intro h; rw [h] at hkl; simp at hkl; omega
  obtain ⟨hasc, _, _⟩ := BuildShape.build_ok_elim hb hne
  -- nothing is dropped
  have hadj' : ∀ j, j + 1 < (valsOf recs).length →
      (valsOf recs).getD j [] ≠ (valsOf recs).getD (j + 1) [] := by
    intro j hj h
    rw [hvl] at hj
    rw [valsOf_getD _ _ (by omega), valsOf_getD _ _ hj] at h
    exact hadj j hj (encI64_inj (hrange _ (List.getElem_mem _)) (hrange _ (List.getElem_mem _)) h)
  have hk : keptAt (keepMask (keysOf recs).length (some (valsOf recs)) ({} : Opt).dedup) i = true := by
    rw [hkl, ← hvl]
    exact keptAt_all _ _ hadj' i (by omega)
  have hget := (C01_get_retained _ _ _ si.t1 hb i (by omega) hk).2
  rw [keysOf_getD _ _ hi] at hget
  have h0 := eltsTotal_built _ _ _ si.t1 hb hne (vals_ne_nil recs)
  simp only [expectedValue, if_neg h0] at hget
  unfold Index.get
  rw [hget]
  exact lookup_indexed hrecs hasc hrange i hi

/-- **C12 (Get, every other string).** -/
theorem C12_get_absent (recs : List Record) (si : SlimIndex) (hnew : Index.new recs = .ok si)
    (q : Bytes) (hq : ∀ r ∈ recs, r.key ≠ q)
    (htotal : ∃ r, _root_.get si.t1.view q = .ok r) :
    Index.get si si.t1.view q = .ok none := by
  obtain ⟨hb, hrecs⟩ := new_ok_elim hnew
  obtain ⟨y, hy⟩ := htotal
  unfold Index.get
  rw [hy]
  apply lookup_absent hrecs q hq
  intro x hx
  subst hx
  by_cases hne : keysOf recs = []
  · rw [hne] at hb
    simp only [build, List.length_nil, if_true, Except.ok.injEq] at hb
    rw [← hb, empty_get] at hy
    cases hy
  · obtain ⟨b, hb', _⟩ := C10_hit_supplied _ _ _ si.t1 hb hne (vals_ne_nil recs) q x hy
    exact ⟨b, hb'⟩

/-- **C12 (Get).**  With one offset per key, a SlimIndex with a key-verifying reader is an exact
    map: the stored record for every indexed key, not found for every other string. -/
theorem C12_get_exact (recs : List Record) (si : SlimIndex) (hnew : Index.new recs = .ok si)
    (hrange : ∀ r ∈ recs, InI64 r.offset) (hadj : AdjDistinct recs)
    (htotal : ∀ q, ∃ r, _root_.get si.t1.view q = .ok r) :
    (∀ i (hi : i < recs.length), Index.get si si.t1.view recs[i].key = .ok (some recs[i].value)) ∧
    (∀ q, (∀ r ∈ recs, r.key ≠ q) → Index.get si si.t1.view q = .ok none) :=
  ⟨fun i hi => C12_get_indexed recs si hnew hrange hadj i hi,
   fun q hq => C12_get_absent recs si hnew q hq (htotal q)⟩

/-- the statement of `C02_rangeget_indexed` (SlimProps/C02.lean), as a hypothesis -/
def C02Statement : Prop :=
  ∀ (keys : List Bytes) (vals : Option (List Bytes)) (opt : Opt) (t : Trie1),
    build keys vals opt = .ok t → keys ≠ [] → ∀ i, i < keys.length →
      _root_.rangeGet t.view (keys.getD i []) =
        .ok (some (recVal (keepMask keys.length vals opt.dedup) vals i))

/-- **C12 (RangeGet, indexed keys)**: any offsets in range, in particular block offsets shared
    by adjacent keys. -/
theorem C12_rangeget_indexed (hC02 : C02Statement) (recs : List Record) (si : SlimIndex)
    (hnew : Index.new recs = .ok si) (hrange : ∀ r ∈ recs, InI64 r.offset)
    (i : Nat) (hi : i < recs.length) :
    Index.rangeGet si si.t1.view recs[i].key = .ok (some recs[i].value) := by
  obtain ⟨hb, hrecs⟩ := new_ok_elim hnew
  have hkl := keys_length recs
  have hvl := vals_length recs
  have hne : keysOf recs ≠ [] := by
    intro h; rw [h] at hkl; simp at hkl; omega
  have hn : (keysOf recs).length ≠ 0 := by omega
  obtain ⟨hasc, hv, _⟩ := BuildShape.build_ok_elim hb hne
  have hget := hC02 _ _ _ si.t1 hb hne i (by omega)
  rw [keysOf_getD _ _ hi] at hget
  -- the retained values are not all empty: record 0 is retained
  have h0 : eltsTotal (filterMask (valsOf recs)
      (keepMask (keysOf recs).length (some (valsOf recs)) ({} : Opt).dedup)) ≠ 0 := by
    apply eltsTotal_ne_zero _ ((valsOf recs).getD 0 [])
    · rw [C09.mem_filterMask]
      refine ⟨0, ?_, BuildInv.keepMask_zero _ hn hv⟩
      rw [List.getD_eq_getElem?_getD, List.getElem?_eq_getElem (by omega)]; rfl
    · rw [valsOf_getD _ _ (by omega)]; exact encI64_ne_nil _
  simp only [recVal, if_neg h0] at hget
  unfold Index.rangeGet
  rw [hget]
  exact lookup_indexed hrecs hasc hrange i hi

/-- **C12 (RangeGet, every other string).** -/
theorem C12_rangeget_absent (recs : List Record) (si : SlimIndex) (hnew : Index.new recs = .ok si)
    (q : Bytes) (hq : ∀ r ∈ recs, r.key ≠ q)
    (htotal : ∃ r, _root_.rangeGet si.t1.view q = .ok r) :
    Index.rangeGet si si.t1.view q = .ok none := by
  obtain ⟨hb, hrecs⟩ := new_ok_elim hnew
  obtain ⟨y, hy⟩ := htotal
  unfold Index.rangeGet
  rw [hy]
  apply lookup_absent hrecs q hq
  intro x hx
  subst hx
  by_cases hne : keysOf recs = []
  · rw [hne] at hb
    simp only [build, List.length_nil, if_true, Except.ok.injEq] at hb
    rw [← hb, empty_rangeGet] at hy
    cases hy
  · obtain ⟨b, hb', _⟩ := rangeGet_hit_supplied _ _ _ si.t1 hb hne (vals_ne_nil recs) q x hy
    exact ⟨b, hb'⟩

/-- **C12 (RangeGet).**  With block offsets (a sparse index), `RangeGet` plus the key-verifying
    reader is an exact map. -/
theorem C12_rangeget_exact (hC02 : C02Statement) (recs : List Record) (si : SlimIndex)
    (hnew : Index.new recs = .ok si) (hrange : ∀ r ∈ recs, InI64 r.offset)
    (htotal : ∀ q, ∃ r, _root_.rangeGet si.t1.view q = .ok r) :
    (∀ i (hi : i < recs.length),
      Index.rangeGet si si.t1.view recs[i].key = .ok (some recs[i].value)) ∧
    (∀ q, (∀ r ∈ recs, r.key ≠ q) → Index.rangeGet si si.t1.view q = .ok none) :=
  ⟨fun i hi => C12_rangeget_indexed hC02 recs si hnew hrange i hi,
   fun q hq => C12_rangeget_absent recs si hnew q hq (htotal q)⟩

/-! ### non-vacuity

  Four records; a negative offset; records 1 and 2 share a block offset (used for `RangeGet`);
  the `Get` example has one offset per key.  `Index.new` succeeds by `C08_accept`-free
  evaluation of `build` in the kernel (`decide +kernel`; no `native_decide`). -/
namespace C12.Ex

def recsGet : List Record :=
  [⟨[0x61], -5, [1]⟩, ⟨[0x61, 0x62], 0, [2]⟩, ⟨[0x62, 0xe3], 7, [3]⟩, ⟨[0xf0], 4096, [4]⟩]

def recsBlock : List Record :=
  [⟨[0x61], -4096, [1]⟩, ⟨[0x61, 0x62], 0, [2]⟩, ⟨[0x62, 0xe3], 0, [3]⟩, ⟨[0xf0], 4096, [4]⟩]

def isOk {α : Type} : Except Err α → Bool
  | .ok _ => true
  | .error _ => false

theorem exists_of_isOk {α : Type} (e : Except Err α) (h : isOk e = true) : ∃ t, e = .ok t := by
  cases e with
  | ok t => exact ⟨t, rfl⟩
  | error _ => cases h

theorem new_ok (recs : List Record)
    (h : isOk (build (keysOf recs) (some (valsOf recs)) {}) = true) :
    ∃ si, Index.new recs = .ok si := by
  obtain ⟨t, ht⟩ := exists_of_isOk _ h
  exact new_ok_of_build ht

/-- the trie lookups return normally on a list of probe strings -/
def totalOn (recs : List Record) (qs : List Bytes) : Bool :=
  match build (keysOf recs) (some (valsOf recs)) {} with
  | .error _ => false
  | .ok t => qs.all (fun q => isOk (_root_.get t.view q) && isOk (_root_.rangeGet t.view q))

-- the hypotheses of `C12_get_exact` hold for `recsGet` …
example : ∃ si, Index.new recsGet = .ok si := new_ok _ (by decide +kernel)
example : ∀ r ∈ recsGet, InI64 r.offset := by decide
example : AdjDistinct recsGet := by
  intro i hi
  have h3 : i + 1 < 4 := hi
  rcases i with _ | _ | _ | i
  · show (recsGet[0]'(by decide)).offset ≠ (recsGet[1]'(by decide)).offset; decide
  · show (recsGet[1]'(by decide)).offset ≠ (recsGet[2]'(by decide)).offset; decide
  · show (recsGet[2]'(by decide)).offset ≠ (recsGet[3]'(by decide)).offset; decide
  · omega
-- … and those of `C12_rangeget_exact` for `recsBlock` (records 1 and 2 share offset 0)
example : ∃ si, Index.new recsBlock = .ok si := new_ok _ (by decide +kernel)
example : ∀ r ∈ recsBlock, InI64 r.offset := by decide
-- the lookups are total on some probe strings (absent, prefix of a key, longer than a key)
example : totalOn recsGet [[], [0x61, 0x63], [0x62], [0x62, 0xe3, 0x00], [0xff]] = true := by
  decide +kernel
example : totalOn recsBlock [[], [0x61, 0x63], [0x62], [0x62, 0xe3, 0x00], [0xff]] = true := by
  decide +kernel

end C12.Ex

#print axioms C12_get_indexed
#print axioms C12_get_absent
#print axioms C12_get_exact
#print axioms C12_rangeget_indexed
#print axioms C12_rangeget_absent
#print axioms C12_rangeget_exact
