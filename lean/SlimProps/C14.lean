import SlimModel.Slim
import SlimModel.Encode
import SlimProofs.VLen
import SlimProofs.GetInt
/-
  Property C14 — typed integer getters agree with Get.

  Model: `Slim.getInt s w key` (Go `GetI8/16/32/64`, `w` = 1, 2, 4, 8: `Leaves.Bytes[ith*w : ith*w+w]`
  read directly, little endian, sign by the Go conversion `Slim.leSigned`) against
  `get (Slim.view s) key` (Go `Get`: `getLeaf` → `VLenArray.get`).

  `C14_getInt`: for a message whose `leaves` is `newVLenArray elts` with every element exactly `w`
  bytes (`w > 0`) — what the matching integer encoder produces, `C14_encoder_width` — and for EVERY
  key: the same error, the same found flag, and the number `getInt` returns is the two's-complement
  value of the bytes `Get` returns.  The theorem does not care which elements are in `elts`
  (with de-duplicated values `elts` is just a shorter list) nor how the message was obtained
  (built or loaded).  Hypothesis `hleaf`: the id reported by `GetID` decodes as a leaf whose ordinal
  is inside the value array; it is discharged for built tries by the build refinement.

  `C14_leSigned_leBytes` / `C14_getInt_value`: together with C15 (`Encode.encodeS w v =
  leBytes w (v mod 2^(8w))`), the typed getter returns the supplied integer, over the full range.
-/
namespace C14
open Slim Bits

/-- C14: `GetIw` = `Get` followed by the two's-complement reading of the returned bytes. -/
theorem C14_getInt (s : SlimMsg) (w : Nat) (hw : 0 < w) (elts : List Bytes) (key : Bytes)
    (hleaves : s.leaves = newVLenArray elts) (hwidth : ∀ e ∈ elts, e.length = w)
    (hleaf : ∀ id, getID (view s) key = .ok (some id) →
      ∃ ith lp, getNode s id = .ok (.leaf ith lp) ∧ ith < elts.length) :
    getInt s w key
      = (_root_.get (view s) key).map (fun r => r.map (fun b => leSigned (b.getD []))) :=
  getInt_eq_get s w hw elts key hleaves hwidth hleaf

/-- The typed getter inverts the little-endian two's-complement layout of C15 on the whole range
    of the `w`-byte integer type. -/
theorem C14_leSigned_leBytes (w : Nat) (hw : 1 ≤ w) (v : Int)
    (hv : -(2 : Int) ^ (8 * w - 1) ≤ v ∧ v < (2 : Int) ^ (8 * w - 1)) :
    leSigned (leBytes w (v % (2 : Int) ^ (8 * w)).toNat) = v :=
  leSigned_encodeS hw hv

/-- The matching encoders (`encode.I8`, `I16`, `I32`, `I64`; C15 layout theorems) produce exactly
    `w` bytes: `leBytes w (v mod 2^(8w))`. -/
theorem C14_encoder_width (w : Nat) (v : Int) :
    (Encode.sintCodec w).encode v = .ok (leBytes w (v % (2 : Int) ^ (8 * w)).toNat) ∧
    (leBytes w (v % (2 : Int) ^ (8 * w)).toNat).length = w :=
  ⟨rfl, Encode.leBytes_length w _⟩

/-- C14 with the values in view: when the stored elements are the encodings of the integers `vs`
    (any list: all values, or the de-duplicated ones), the typed getter returns the integer stored
    at the leaf ordinal `GetID` arrives at, and `Get` returns its encoding. -/
theorem C14_getInt_value (s : SlimMsg) (w : Nat) (hw : 1 ≤ w) (vs : List Int) (key : Bytes)
    (hleaves : s.leaves = newVLenArray (vs.map (Encode.encodeS w)))
    (hdom : ∀ v ∈ vs, Encode.InS w v)
    (id ith : Nat) (lp : Option Bytes) (hid : getID (view s) key = .ok (some id))
    (hnode : getNode s id = .ok (.leaf ith lp)) (hith : ith < vs.length) :
    getInt s w key = .ok (some vs[ith]) ∧
    _root_.get (view s) key = .ok (some (some (Encode.encodeS w vs[ith]))) := by
  have hwidth : ∀ e ∈ vs.map (Encode.encodeS w), e.length = w := by
    intro e he
    obtain ⟨v, _, rfl⟩ := List.mem_map.mp he
    exact Encode.leBytes_length w _
  have hith' : ith < (vs.map (Encode.encodeS w)).length := by simpa using hith
  have hget : _root_.get (view s) key = .ok (some (some (Encode.encodeS w vs[ith]))) := by
    cases hva : newVLenArray (vs.map (Encode.encodeS w)) with
    | none =>
      have hall := (newVLenArray_none_iff _).mp hva
      have hm : (vs.map (Encode.encodeS w))[ith] ∈ vs.map (Encode.encodeS w) := List.getElem_mem hith'
      have := hwidth _ hm
      rw [hall _ hm] at this
      simp at this; omega
    | some va =>
      have hlv : s.leaves = some va := by rw [hleaves, hva]
      have hg := vlenGet_newVLenArray _ va hva ith hith'
      have hn : (view s).node id = getNode s id := rfl
      have hlb : (view s).leafBytes ith = .ok (some ((vs.map (Encode.encodeS w)).getD ith [])) := by
        simp only [view, hlv, hg, bind, Except.bind, pure, Except.pure]
      unfold _root_.get
      rw [hid]
      simp only [bind, Except.bind, getLeaf, hn, hnode, hlb, pure, Except.pure]
      simp [List.getD_eq_getElem?_getD, List.getElem?_eq_getElem hith]
  refine ⟨?_, hget⟩
  rw [C14_getInt s w (by omega) _ key hleaves hwidth
    (fun id' h' => by
      rw [hid] at h'
      have : id = id' := by simpa using h'
      subst this
      exact ⟨ith, lp, hnode, hith'⟩), hget]
  simp only [Except.map, Option.map, Option.getD]
  rw [leSigned_encodeS hw (hdom _ (List.getElem_mem hith))]

/-! ## non-vacuity -/

/-- A one-key trie holding the int16 value −2: one node (a leaf), no inner node. -/
def sample : SlimMsg :=
  { nodeTypeBM := some (newBM [] 1 "r64"), leaves := newVLenArray [Encode.encodeS 2 (-2)] }

example : (getID (view sample) [0x61]).toOption = some (some 0) := by decide
example : (getNode sample 0).toOption = some (.leaf 0 none) := by decide
example : Encode.InS 2 (-2) := by decide

example : getInt sample 2 [0x61] = .ok (some (-2)) := by
  have hid : getID (view sample) [0x61] = .ok (some 0) := by
    cases h : getID (view sample) [0x61] with
    | error e => have : (getID (view sample) [0x61]).toOption = some (some 0) := by decide
                 rw [h] at this; cases this
    | ok o => have : (getID (view sample) [0x61]).toOption = some (some 0) := by decide
              rw [h] at this; cases this; rfl
  have hnode : getNode sample 0 = .ok (.leaf 0 none) := by
    cases h : getNode sample 0 with
    | error e => have : (getNode sample 0).toOption = some (.leaf 0 none) := by decide
                 rw [h] at this; cases this
    | ok o => have : (getNode sample 0).toOption = some (.leaf 0 none) := by decide
              rw [h] at this; cases this; rfl
  exact (C14_getInt_value sample 2 (by decide) [-2] [0x61] rfl (by decide) 0 0 none hid hnode
    (by decide)).1

end C14

#print axioms C14.C14_getInt
#print axioms C14.C14_leSigned_leBytes
#print axioms C14.C14_encoder_width
#print axioms C14.C14_getInt_value
