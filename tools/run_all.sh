#!/bin/bash
# run_all.sh [tier] : every registered check on the current tree, sequentially; rewrites every evidence file.
cd "$(dirname "$0")/.." || exit 2
tier=${1:-quick}
for p in $(python3 -c "import json; print(' '.join(c['property_id'] for c in json.load(open('MANIFEST.json'))['checks']))"); do
  out=$(./check $p --tier $tier 2>&1); rc=$?
  echo "$p rc=$rc $(echo "$out" | grep -E '^OK|VIOLATION|KNOWN' | tr '\n' ' ' | cut -c1-220)"
done
