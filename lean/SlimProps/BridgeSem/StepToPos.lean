import Generated.Funcs
import SlimProps.BridgeSem.Common
import SlimModel.Slim
/-
  SlimProps.BridgeSem.StepToPos — tie 1, semantic part: `stepToPos` (trie/slimtrie_create.go / slimtrie_vlen_array.go).
  See SlimProps/BridgeSem.lean for the overview.
-/

open Generated

namespace BridgeSem

/-! ### `stepToPos` -/

/-- the positions before each step, starting at `p` -/
def prePos : List Nat → Nat → List Nat
  | [], _ => []
  | s :: ss, p => p :: prePos ss (p + s)

theorem stepToPos_go_eq (ss : List Nat) (p : Nat) :
    Slim.stepToPos.go ss p = prePos ss p ++ [p + ss.sum] := by
  induction ss generalizing p with
  | nil => simp [Slim.stepToPos.go, prePos]
  | cons s ss ih =>
    simp only [Slim.stepToPos.go, prePos, ih, List.sum_cons, List.cons_append]
    rw [Nat.add_assoc]

theorem prePos_length (ss : List Nat) (p : Nat) : (prePos ss p).length = ss.length := by
  induction ss generalizing p with
  | nil => rfl
  | cons s ss ih => simp [prePos, ih]

theorem sum_drop_le (l : List Nat) (i : Nat) : (l.drop i).sum ≤ l.sum := by
  conv => rhs; rw [← List.take_append_drop i l, List.sum_append]
  omega

theorem stepLoop_spec (steps : List Nat) (hlen : steps.length + 1 < 2 ^ 31) (hsum : steps.sum < 2 ^ 31) :
    ∀ fuel i p (ps : List Nat), i ≤ steps.length → steps.length - i ≤ fuel →
      ps.length = steps.length + 1 → p + (steps.drop i).sum ≤ steps.sum →
      Generated.stepToPos_loop1 steps.length 0 steps fuel (i, p, ps)
        = (steps.length, p + (steps.drop i).sum,
            ps.take i ++ prePos (steps.drop i) p ++ ps.drop steps.length) := by
  intro fuel
  induction fuel with
  | zero =>
    intro i p ps h1 h2 h3 _
    have : i = steps.length := by omega
    subst this
    simp [Generated.stepToPos_loop1, prePos]
  | succ fuel ih =>
    intro i p ps h1 h2 h3 h4
    rw [Generated.stepToPos_loop1]
    by_cases hlt : i < steps.length
    · have hdrop : steps.drop i = steps[i] :: steps.drop (i + 1) := List.drop_eq_getElem_cons hlt
      have hget : steps.getD i 0 = steps[i] := by
        rw [List.getD_eq_getElem?_getD, List.getElem?_eq_getElem hlt]; rfl
      rw [hdrop, List.sum_cons] at h4
      have hs := sum_drop_le steps (i + 1)
      go_simp
      simp only [hlt, if_true, hget, Nat.pow_zero, Nat.div_one]
      try go_simp
      rw [ih (i + 1) _ _ (by omega) (by omega) (by simp [h3]) (by omega), hdrop]
      simp only [List.sum_cons, prePos, Prod.mk.injEq, true_and]
      refine ⟨by omega, ?_⟩
      rw [take_succ_set _ _ _ (by omega), List.drop_set_of_lt (by omega)]
      simp
    · have : i = steps.length := by omega
      subst this
      go_simp
      simp [prePos]

/-- **`stepToPos(steps, 0)`** (the only call shape) is the model's `Slim.stepToPos`: for steps that
    are non-negative int32 values whose total fits an int32 (as does the number of positions). -/
theorem stepToPos_sem (steps : List Nat) (hlen : steps.length + 1 < 2 ^ 31) (hsum : steps.sum < 2 ^ 31) :
    Generated.stepToPos steps 0 = Slim.stepToPos steps := by
  unfold Generated.stepToPos Slim.stepToPos
  go_simp
  have hn : steps.length % 2 ^ 32 = steps.length := by omega
  simp only [hn]
  rw [stepLoop_spec steps hlen hsum steps.length 0 0 _ (by omega) (by omega) (by simp) (by simp)]
  simp only [List.drop_zero, List.take_zero, List.nil_append, Nat.zero_add]
  rw [stepToPos_go_eq, Nat.zero_add]
  have hl := prePos_length steps 0
  rw [List.set_eq_take_append_cons_drop]
  simp [hl]

end BridgeSem

#print axioms BridgeSem.stepToPos_sem
