#!/bin/bash
# try_mutation.sh <mutation dir> <prop> [<prop>...] : apply the seeded change to a SCRATCH worktree of /repo and run the
# named checks against it (VERIF_REPO; /repo itself is never touched), then remove the worktree.
D=$(readlink -f "$1"); shift
W=/tmp/mrepo_$$
git -C /repo worktree add --detach $W HEAD -f >/dev/null 2>&1 || { echo "worktree failed"; exit 2; }
trap 'git -C /repo worktree remove --force '$W' >/dev/null 2>&1; cd /verif/harness && GOFLAGS=-mod=mod GOPROXY=off GOSUMDB=off GOTOOLCHAIN=local go run ./cmd/extract -repo /repo -out /verif/lean/Generated/Facts.lean -funcs /verif/lean/Generated/Funcs.lean >/dev/null 2>&1' EXIT
git -C $W apply "$D/patch.diff" || { echo "patch does not apply"; exit 2; }
cd /verif
for p in "$@"; do
  out=$(VERIF_REPO=$W ./check $p --tier ${TIER:-quick} 2>&1); rc=$?
  echo "$(basename $(dirname $D))/$(basename $D) check=$p rc=$rc :: $(echo "$out" | grep -m1 -E 'VIOLATION|^OK' | cut -c1-200)"
  if [ $rc -ne 0 ]; then
    r=$(echo "$out" | grep -m1 -o 'replay=[^ ]*' | cut -d= -f2)
    [ -n "$r" ] && [ -f "$r" ] && python3 -c "
import json,sys; o=json.load(open('$r')); print('    what:', (o.get('what') or (o.get('no_longer_checks') or [{}])[0].get('detail',''))[:300]); print('    expected:', str(o.get('expected'))[:120], '| got:', str(o.get('got'))[:160])"
  fi
done
