import SlimModel.Frame
/-
  SlimProofs.WireFrame — the 32-byte header and the framed read: round trip, and every strict
  prefix of a frame is a short read.
-/
namespace Frame

/-- A version string that fits the header field: ASCII, at most 16 bytes, not ending in NUL. -/
def VersionOK (v : String) : Prop :=
  v.toList.length ≤ 16 ∧ (∀ c ∈ v.toList, c.toNat < 128) ∧ (∀ c, v.toList.getLast? = some c → c.toNat ≠ 0)

instance (v : String) : Decidable (VersionOK v) := by unfold VersionOK; infer_instance

theorem leBytes_length (w n : Nat) : (leBytes w n).length = w := by
  induction w generalizing n with
  | zero => rfl
  | succ w ih => simp [leBytes, ih]

theorem leVal_leBytes (w n : Nat) (h : n < 256 ^ w) : leVal (leBytes w n) = n := by
  induction w generalizing n with
  | zero => simp [leBytes, leVal] at h ⊢; omega
  | succ w ih =>
    have h' : n / 256 < 256 ^ w := by
      rw [Nat.pow_succ] at h
      exact Nat.div_lt_of_lt_mul (by rw [Nat.mul_comm]; exact h)
    have hb : (UInt8.ofNat (n % 256)).toNat = n % 256 := by
      rw [UInt8.toNat_ofNat']; exact Nat.mod_eq_of_lt (by omega)
    simp only [leBytes, leVal, ih _ h', hb]
    omega

theorem padVersion_length (v : Bytes) : (padVersion v).length = 16 := by
  simp [padVersion, versionLen]; omega

theorem header_length (ver : String) (n : Nat) : (header ver n).length = 32 := by
  simp [header, padVersion_length, leBytes_length]

theorem frame_length (ver : String) (body : Bytes) : (frame ver body).length = 32 + body.length := by
  simp [frame, header_length]

theorem dropTrailingNul_pad (bs : Bytes) (k : Nat) (h : ∀ b, bs.getLast? = some b → b ≠ 0) :
    dropTrailingNul (bs ++ List.replicate k 0) = bs := by
  unfold dropTrailingNul
  rw [List.reverse_append, List.reverse_replicate, List.dropWhile_append, List.dropWhile_replicate]
  simp only [beq_self_eq_true, if_true, List.isEmpty_nil]
  have : List.dropWhile (fun x => x == (0 : UInt8)) bs.reverse = bs.reverse := by
    cases hr : bs.reverse with
    | nil => rfl
    | cons x xs =>
      have hl : bs.getLast? = some x := by rw [List.getLast?_eq_head?_reverse, hr]; rfl
      have := h x hl
      simp [this]
  rw [this, List.reverse_reverse]

theorem verStr_padVersion (v : String) (h : VersionOK v) : verStr (padVersion (verBytes v)) = v := by
  obtain ⟨hlen, hascii, hlast⟩ := h
  have hl : (verBytes v).length = v.toList.length := by simp [verBytes]
  have htake : (verBytes v).take versionLen = verBytes v :=
    List.take_of_length_le (by rw [hl]; exact hlen)
  have hnl : ∀ b, (verBytes v).getLast? = some b → b ≠ 0 := by
    intro b hb
    simp only [verBytes, List.getLast?_map, Option.map_eq_some_iff] at hb
    obtain ⟨c, hc, rfl⟩ := hb
    have h1 := hlast c hc
    have h2 : c.toNat < 128 := hascii c (List.mem_of_getLast? hc)
    intro h0
    have : (UInt8.ofNat c.toNat).toNat = 0 := by rw [h0]; rfl
    rw [UInt8.toNat_ofNat'] at this
    have : c.toNat % 2 ^ 8 = c.toNat := Nat.mod_eq_of_lt (by omega)
    omega
  unfold verStr padVersion
  rw [htake, dropTrailingNul_pad _ _ hnl]
  have : (verBytes v).map (fun b => Char.ofNat b.toNat) = v.toList := by
    unfold verBytes
    rw [List.map_map]
    conv => rhs; rw [← List.map_id v.toList]
    apply List.map_congr_left
    intro c hc
    have h2 : c.toNat < 128 := hascii c hc
    simp only [Function.comp, id]
    rw [UInt8.toNat_ofNat', Nat.mod_eq_of_lt (by omega), Char.ofNat_toNat]
  rw [this, String.ofList_toList]

theorem readHeader_short (bs : Bytes) (h : bs.length < 32) : readHeader bs = .error .truncated := by
  simp [readHeader, headerSize, h]

theorem readHeader_header (v : String) (hv : VersionOK v) (n : Nat) (hn : n < 2 ^ 64) (tail : Bytes) :
    readHeader (header v n ++ tail) = .ok (⟨v, 32, n⟩, tail) := by
  have hl := header_length v n
  have hnot : ¬ ((header v n ++ tail).length < headerSize) := by simp [hl, headerSize]
  unfold readHeader
  simp only [hnot, if_false]
  have h32 : List.drop 32 (header v n ++ tail) = tail := by rw [List.drop_left' hl]
  have hp := padVersion_length (verBytes v)
  have e1 : List.take 16 (header v n ++ tail) = padVersion (verBytes v) := by
    unfold header; rw [List.append_assoc, List.take_left' hp]
  have e2 : List.take 8 (List.drop 16 (header v n ++ tail)) = leBytes 8 headerSize := by
    unfold header; rw [List.append_assoc, List.drop_left' hp, List.append_assoc,
      List.take_left' (leBytes_length 8 _)]
  have e3 : List.take 8 (List.drop 24 (header v n ++ tail)) = leBytes 8 n := by
    unfold header
    have : (padVersion (verBytes v) ++ leBytes 8 headerSize).length = 24 := by
      simp [hp, leBytes_length]
    have e : padVersion (verBytes v) ++ (leBytes 8 headerSize ++ leBytes 8 n) ++ tail =
        (padVersion (verBytes v) ++ leBytes 8 headerSize) ++ (leBytes 8 n ++ tail) := by simp
    rw [e, List.drop_left' this, List.take_left' (leBytes_length 8 _)]
  rw [e1, e2, e3, h32, verStr_padVersion v hv, leVal_leBytes 8 n (by omega),
    leVal_leBytes 8 headerSize (by simp [headerSize])]
  rfl

/-- Bodies `make([]byte, n)` can allocate. -/
def BodyOK (body : Bytes) : Prop := body.length ≤ maxAlloc

theorem readFrame_frame (v : String) (hv : VersionOK v) (body : Bytes) (hb : BodyOK body) (rest : Bytes) :
    readFrame (frame v body ++ rest) = .ok (v, body, rest) := by
  unfold BodyOK maxAlloc at hb
  unfold readFrame frame
  rw [List.append_assoc, readHeader_header v hv body.length (by omega)]
  have h1 : ¬ (2 ^ 63 ≤ body.length ∨ maxAlloc < body.length) := by unfold maxAlloc; omega
  simp [headerSize, h1]

/-- A frame cut anywhere before its end is a short read (`io.ReadFull` of the header or of the body). -/
theorem readFrame_take_lt (v : String) (hv : VersionOK v) (body : Bytes) (hb : BodyOK body) (rest : Bytes)
    (cut : Nat) (hc : cut < (frame v body).length) :
    readFrame ((frame v body ++ rest).take cut) = .error .truncated := by
  rw [frame_length] at hc
  unfold BodyOK maxAlloc at hb
  by_cases h32 : cut < 32
  · unfold readFrame
    rw [readHeader_short _ (by simp [List.length_take]; omega)]
  · have e : (frame v body ++ rest).take cut = header v body.length ++ (body ++ rest).take (cut - 32) := by
      unfold frame
      rw [List.append_assoc, List.take_append, header_length,
        List.take_of_length_le (by rw [header_length]; omega)]
    unfold readFrame
    rw [e, readHeader_header v hv body.length (by omega)]
    have h1 : ¬ (2 ^ 63 ≤ body.length ∨ maxAlloc < body.length) := by unfold maxAlloc; omega
    have h2 : ((body ++ rest).take (cut - 32)).length < body.length := by
      simp [List.length_take]; omega
    simp only [List.length_take, List.length_append] at h2
    simp [headerSize, h1, h2]

theorem take_frame_ge (v : String) (body rest : Bytes) (cut : Nat) (hc : (frame v body).length ≤ cut) :
    (frame v body ++ rest).take cut = frame v body ++ rest.take (cut - (frame v body).length) := by
  rw [List.take_append, List.take_of_length_le hc]

/-- The header of a cut stream that still has 32 bytes. -/
theorem readHeader_take_ge (v : String) (hv : VersionOK v) (body : Bytes) (hb : BodyOK body) (rest : Bytes)
    (cut : Nat) (hc : 32 ≤ cut) :
    ∃ tail, readHeader ((frame v body ++ rest).take cut) = .ok (⟨v, 32, body.length⟩, tail) := by
  unfold BodyOK maxAlloc at hb
  have e : (frame v body ++ rest).take cut = header v body.length ++ (body ++ rest).take (cut - 32) := by
    unfold frame
    rw [List.append_assoc, List.take_append, header_length,
      List.take_of_length_le (by rw [header_length]; omega)]
  exact ⟨_, by rw [e, readHeader_header v hv body.length (by omega)]⟩

end Frame
