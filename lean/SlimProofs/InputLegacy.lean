import SlimProofs.InputCore
import SlimProofs.Legacy0510Wire
/-
  SlimProofs.InputLegacy — the body of a 0.5.10 / 0.5.11 stream (`LegacyWrite.to0510`) of a
  well-shaped trie whose counters fit an int32 (`InputCore.SmallCore`) is far below the allocator
  limit: the hypothesis `BodyOK (to0510 (Slim.encodeCreator t))` of the C06 headline is redundant.

    bodyOK_to0510 : ShapeOK t → SmallCore t → Frame.BodyOK (to0510 (Slim.encodeCreator t))
-/

namespace InputLegacy

open Bits Slim Wire InputWire InputCore LegacyWrite

theorem BMBits.wordIndexSelect {b : BitmapMsg} {M : Nat} (h : BMBits b M) :
    BMBits (wordIndexSelect b) M := by
  obtain ⟨W, ⟨hwf, h1, h2, h3⟩, h64⟩ := h
  exact ⟨W, ⟨wordIndexSelect_WF b hwf, h1, h2, by simpa [LegacyWrite.wordIndexSelect] using h3⟩, h64⟩

theorem stepToPos_BMBits (sizes : List Nat) (h : sizes.sum + 64 < 2 ^ 31) :
    BMBits (newBM (stepToPos sizes) 0 "s32") (sizes.sum + 1) := by
  have := newBM_BMBits (stepToPos sizes) 0 (sizes.sum + 1) "s32" (by simp) (Refine.stepToPos_le _)
    (by omega)
  exact this.mono (by omega)

/-! ### the rewritten arrays -/

theorem sum_sz_eq (nss : List (List Nat)) :
    ((nss.map Legacy.ofNibs).map Legacy.sz).sum = ((nss.map Slim.bitstrOf).flatten).length := by
  rw [← Legacy.sizes_eq, Refine.sum_map_length]

theorem oldInnerPrefixes_size {t : Trie1} (hs : ShapeOK t) (hsm : SmallCore t) :
    protoSizeVLenArray (oldInnerPrefixes (Refine.eIps t))
      ≤ 415 + 6 * t.nodes.size + 4 * (Refine.eStoredPs t).flatten.length := by
  cases hin : t.opt.inner with
  | false =>
    have hpos : (Refine.eIps t).positionBM = none := by
      unfold Refine.eIps; simp [hin]
    have : oldInnerPrefixes (Refine.eIps t) = Refine.eIps t := by
      unfold oldInnerPrefixes; rw [hpos]
    rw [this]
    exact eIps_size hsm
  | true =>
    obtain ⟨ips, hips, hbuilt⟩ := Legacy.encodeCreator_isBuilt t hin
    rw [Refine.enc_innerPrefixes] at hips
    simp only [Option.some.injEq] at hips
    subst hips
    have hlt := storedOf_lt hs
    have hwf := oldInnerPrefixes_WF _ (eIps_WF hsm)
    have hbytes : (Refine.eIps t).bytes = (Refine.eStoredPs t).flatten := by
      unfold Refine.eIps; simp [hin]
    have hsum : (((Legacy.storedOf t).map Legacy.ofNibs).map Legacy.sz).sum
        = (Refine.eStoredPs t).flatten.length := by
      rw [sum_sz_eq, ← hbuilt.1, hbytes]
    have hpres : (Refine.eIps t).presenceBM
        = some (newBM (Refine.ePrefIdx t) (Refine.eInners t).length "r128") := by
      unfold Refine.eIps; split <;> rfl
    rw [Legacy.oldInnerPrefixes_built _ _ hbuilt hlt] at hwf ⊢
    have hp := (BMBits.wordIndexSelect (stepToPos_BMBits
      (((Legacy.storedOf t).map Legacy.ofNibs).map Legacy.sz)
      (by rw [hsum]; exact hsm.innerPrefixBytes))).size
    rw [hsum] at hp
    have hq := (presence_ips_BMBits hsm).size
    have hv : ∀ p ∈ (Legacy.storedOf t).map Legacy.ofNibs, p.Valid := by
      intro p hp
      obtain ⟨ns, hns, rfl⟩ := List.mem_map.mp hp
      exact Legacy.ofNibs_valid ns (hlt ns hns)
    have hb : (((Legacy.storedOf t).map Legacy.ofNibs).map Legacy.BitPrefix.ctrlEnc).flatten.length
        = (Refine.eStoredPs t).flatten.length := by
      rw [Legacy.flatten_length_ctrl _ hv, hsum]
    have := protoSizeVLenArray_le _ (92 + ((Refine.eStoredPs t).flatten.length + 1))
      (92 + t.nodes.size) (Refine.eStoredPs t).flatten.length hwf
      (by intro b hb'; simp only [Option.some.injEq] at hb'; subst hb'; exact hp)
      (by
        intro b hb'
        simp only [hpres, Option.some.injEq] at hb'
        subst hb'; exact hq)
      (by simp only; rw [hb]; exact Nat.le_refl _)
    omega

theorem oldLeafPrefixes_size {t : Trie1} (hsm : SmallCore t) :
    ∀ v, Refine.eLps t = some v →
      protoSizeVLenArray (oldLeafPrefixes v)
        ≤ 415 + 2 * t.nodes.size + 4 * (Refine.eLeafPs t).flatten.length := by
  intro v hv
  have hwf := oldLeafPrefixes_WF v (eLps_WF hsm v hv)
  have hl := Refine.eLeafLps_length_le t
  have hn := hsm.nodes
  have hq := (newBM_BMBits (Refine.eLeafIdx t) (Refine.eLeafLps t).length (Refine.eLeafLps t).length
    "r64" (by simp) (Refine.filter_range_lt _ _) (by omega)).size
  simp only [Nat.max_self] at hq
  have hp := (BMBits.wordIndexSelect
    (positionBM_BMBits (Refine.eLeafPs t) hsm.leafPrefixBytes)).size
  unfold Refine.eLps at hv
  split at hv
  · simp only [Option.some.injEq] at hv
    subst hv
    have := protoSizeVLenArray_le _ (92 + ((Refine.eLeafPs t).flatten.length + 1)) (92 + t.nodes.size)
      (Refine.eLeafPs t).flatten.length hwf
      (by
        intro b hb
        simp only [oldLeafPrefixes, Option.map_some, Option.some.injEq] at hb
        subst hb; exact hp)
      (by
        intro b hb
        simp only [oldLeafPrefixes, Option.some.injEq] at hb
        subst hb; omega)
      (Nat.le_refl _)
    omega
  · cases hv

theorem bareLeaves_size (bs : Bytes) :
    protoSizeVLenArray ({ bytes := bs } : VLenArrayMsg) ≤ 45 + 2 * bs.length := by
  have := protoSizeVLenArray_le ({ bytes := bs } : VLenArrayMsg) 0 0 bs.length (bareLeaves_WF bs)
    (by intro b hb; simp at hb) (by intro b hb; simp at hb) (Nat.le_refl _)
  omega

/-! ### the body -/

theorem protoSizeSlim_rest0510_le {t : Trie1} (hs : ShapeOK t) (hsm : SmallCore t) :
    protoSizeSlim (rest0510 (encodeCreator t)) ≤ 2 ^ 40 := by
  have hwf := rest0510_WF _ (encodeCreator_WF hs hsm)
  have hn := hsm.nodes
  have hl := hsm.labelBits
  have hip := hsm.innerPrefixBytes
  have hlp := hsm.leafPrefixBytes
  have hu : (rest0510 (encodeCreator t)).unrecognized.length = 0 := rfl
  have h7 : ∀ v, (rest0510 (encodeCreator t)).innerPrefixes = some v →
      protoSizeVLenArray v ≤ 415 + 6 * t.nodes.size + 4 * (Refine.eStoredPs t).flatten.length := by
    intro v hv
    have : (rest0510 (encodeCreator t)).innerPrefixes
        = (encodeCreator t).innerPrefixes.map oldInnerPrefixes := rfl
    rw [this, Refine.enc_innerPrefixes] at hv
    simp only [Option.map_some, Option.some.injEq] at hv
    subst hv
    exact oldInnerPrefixes_size hs hsm
  have h8 : ∀ v, (rest0510 (encodeCreator t)).leafPrefixes = some v →
      protoSizeVLenArray v ≤ 415 + 2 * t.nodes.size + 4 * (Refine.eLeafPs t).flatten.length := by
    intro v hv
    have : (rest0510 (encodeCreator t)).leafPrefixes
        = (encodeCreator t).leafPrefixes.map oldLeafPrefixes := rfl
    rw [this, Refine.enc_leafPrefixes] at hv
    cases hlps : Refine.eLps t with
    | none => rw [hlps] at hv; cases hv
    | some x =>
      rw [hlps] at hv
      simp only [Option.map_some, Option.some.injEq] at hv
      subst hv
      exact oldLeafPrefixes_size hsm x hlps
  have hleaves : (rest0510 (encodeCreator t)).leaves
      = (encodeCreator t).leaves.map (fun lv => ({ bytes := lv.bytes } : VLenArrayMsg)) := rfl
  cases he : t.elts with
  | none =>
    have := protoSizeSlim_le (rest0510 (encodeCreator t)) (92 + t.nodes.size) (92 + Refine.labelBits t)
      (92 + t.nodes.size) 1024
      (415 + 6 * t.nodes.size + 4 * (Refine.eStoredPs t).flatten.length)
      (415 + 2 * t.nodes.size + 4 * (Refine.eLeafPs t).flatten.length) 0 hwf
      (nodeTypeBM_size hsm) (inners_size hs hsm) (shortBM_size hsm) (shortTable_length t) h7 h8
      (by intro v hv; rw [hleaves, enc_leaves, he] at hv; cases hv)
    omega
  | some es =>
    obtain ⟨h1, h2⟩ := hsm.leafBytes es he
    have := protoSizeSlim_le (rest0510 (encodeCreator t)) (92 + t.nodes.size) (92 + Refine.labelBits t)
      (92 + t.nodes.size) 1024
      (415 + 6 * t.nodes.size + 4 * (Refine.eStoredPs t).flatten.length)
      (415 + 2 * t.nodes.size + 4 * (Refine.eLeafPs t).flatten.length)
      (45 + 2 * es.flatten.length) hwf
      (nodeTypeBM_size hsm) (inners_size hs hsm) (shortBM_size hsm) (shortTable_length t) h7 h8
      (by
        intro v hv
        rw [hleaves, enc_leaves, he] at hv
        have hv : Option.map (fun lv => ({ bytes := lv.bytes } : VLenArrayMsg)) (newVLenArray es)
            = some v := hv
        cases hnv : newVLenArray es with
        | none => rw [hnv] at hv; cases hv
        | some x =>
          rw [hnv] at hv
          simp only [Option.map_some, Option.some.injEq] at hv
          subst hv
          rw [(InputCore.newVLenArray_fields es x hnv).1]
          exact bareLeaves_size _)
    omega

/-- **the 0.5.10 / 0.5.11 body of a built trie can be allocated** -/
theorem bodyOK_to0510 {t : Trie1} (hs : ShapeOK t) (hsm : SmallCore t) :
    Frame.BodyOK (to0510 (encodeCreator t)) := by
  unfold Frame.BodyOK Frame.maxAlloc
  rw [to0510_eq _ (encodeCreator_inners_isSome t)]
  simp only [List.length_append, encVarintF_length, ← protoSizeSlim_eq]
  have hrest := protoSizeSlim_rest0510_le hs hsm
  have hB : (encodeCreator t).bigInnerCnt < 2 ^ 31 := hsm.bigCnt
  have hS : (encodeCreator t).shortSize ≤ 10 := Refine.eShortSize_le t
  have h11 := sizeVarintF_le 11 (encodeCreator t).bigInnerCnt (by omega) (by omega)
  have h12 := sizeVarintF_le 12 ((Slim.bigInnerSize - Slim.innerSize) * (encodeCreator t).bigInnerCnt)
    (by omega) (by simp only [Slim.bigInnerSize, Slim.innerSize]; omega)
  have h13 := sizeVarintF_le 13 (int32Varint (((encodeCreator t).shortSize : Int) - Slim.innerSize))
    (by omega) (by apply int32Varint_lt <;> simp only [Slim.innerSize] <;> omega)
  have h14 := sizeVarintF_le 14 (encodeCreator t).shortSize (by omega) (by omega)
  have h15 := sizeVarintF_le 15 (2 ^ (encodeCreator t).shortSize - 1) (by omega) (by
    have : 2 ^ (encodeCreator t).shortSize ≤ 2 ^ 64 := Nat.pow_le_pow_right (by omega) (by omega)
    omega)
  omega

/-- a successful `write0510` of a non-empty key list: the mode and version were known and `build`
    succeeded (so the C06 headline needs no separate hypothesis about them) -/
theorem write0510_inv (mode ver : String) (keys vals : List Bytes) (stream : Bytes)
    (hwr : write0510 mode ver keys vals = .ok stream) (hk : keys ≠ []) :
    ∃ opt t, optOfMode mode = some opt ∧ (ver = "0.5.10" ∨ ver = "0.5.11") ∧
      build keys (some vals) opt = .ok t := by
  unfold write0510 at hwr
  cases hm : optOfMode mode with
  | none => simp [hm] at hwr
  | some opt =>
    simp only [hm] at hwr
    by_cases hv : (ver != "0.5.10" && ver != "0.5.11") = true
    · rw [if_pos hv] at hwr
      cases hwr
    · rw [if_neg hv] at hwr
      have hke : keys.isEmpty = false := by cases keys <;> simp_all
      rw [hke] at hwr
      have hver : ver = "0.5.10" ∨ ver = "0.5.11" := by
        simp only [Bool.and_eq_true, bne_iff_ne, ne_eq, not_and, Decidable.not_not] at hv
        by_cases h1 : ver = "0.5.10"
        · exact Or.inl h1
        · exact Or.inr (hv h1)
      cases hb : build keys (some vals) opt with
      | error e => rw [hb] at hwr; cases hwr
      | ok t => exact ⟨opt, t, rfl, hver, hb⟩

end InputLegacy
