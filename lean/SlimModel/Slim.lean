import SlimModel.Bits
import SlimModel.Query
import SlimModel.ListFast
/-
  SlimModel.Slim — L2: the `Slim` protobuf message at word level.

  * `encode`  : Trie1 → SlimMsg          mirrors `creator.build` + `buildLeaves` + `newVLenArray`
                (bitmap frequency table, `sortedBMCounts`, `findMinShortSize`, the short table and the
                substitution of most-used 17-bit bitmaps, `bitmap.OfMany`, `stepToPos`, `bitstr.New`,
                `encStep`)
  * `Slim.view`: SlimMsg → View          mirrors `getNode`, `getLeafPrefix`, `VLenArray.get`,
                `getLeafIndex`, `initVars` at the same granularity as the Go code (word accesses,
                rank index lookups, the word-straddling extraction of a short bitmap)
-/

open Bits

namespace Slim

def innerSize : Nat := 17
def bigInnerSize : Nat := 257
def maxShortSize : Nat := 10

/-- `get17bitmap` / `bitmap.Of(bmindex)[0]` -/
def bm17 (labels : List Nat) : Nat := labels.foldl (fun a i => a ||| (1 <<< i)) 0

/-- `encStep` : two bytes, big endian, of the step in half-bytes (wraps at 2^16 like the Go code) -/
def encStep (n : Nat) : Bytes := [UInt8.ofNat (n / 256), UInt8.ofNat (n % 256)]

/-- `decStep`, in half-bytes -/
def decStep (b0 b1 : UInt8) : Nat := b0.toNat * 256 + b1.toNat

/-- `bitstr.New` of a stored prefix given as half-bytes -/
def bitstrOf (ns : List Nat) : Bytes :=
  unnibs ns ++ [if ns.length % 2 = 0 then 0xff else 0xf0]

/-- `bitstr.Len` / 4 -/
def bitstrLen (bs : Bytes) : Nat :=
  let last := (bs.getLast?.getD 0).toNat
  ((bs.length * 8 + popcount last) - 16) / 4

/-- half-bytes of a stored `bitstr` -/
def bitstrNibs (bs : Bytes) : List Nat := (nibs bs.dropLast).take (bitstrLen bs)

/-- `stepToPos(steps, 0)`: cumulative positions, one more than steps -/
def stepToPos (steps : List Nat) : List Nat :=
  let rec go : List Nat → Nat → List Nat
    | [], p => [p]
    | s :: ss, p => p :: go ss (p + s)
  go steps 0

/-- `newVLenArray` -/
def newVLenArray (elts : List Bytes) : Option VLenArrayMsg :=
  let sizes := elts.map List.length
  let total := sizes.sum
  if total = 0 then none else
  let nonEmptyIdx := (List.range elts.length).filter (fun i => (sizes.getD i 0) > 0)
  let nonEmptySizes := sizes.filter (· > 0)
  let allEqual := match nonEmptySizes with
    | [] => true
    | z :: zs => zs.all (· == z)
  let base : VLenArrayMsg :=
    { n := elts.length, eltCnt := nonEmptyIdx.length
      bytes := elts.flatten
      presenceBM := some (newBM nonEmptyIdx elts.length "r64") }
  if allEqual then
    -- prevSize is the size of the last non-empty element
    some { base with fixedSize := nonEmptySizes.getLast?.getD 0 }
  else
    some { base with positionBM := some (newBM (stepToPos sizes) 0 "s32") }

/-- compiled form of `newVLenArray` (`@[csimp]` below): `sizes.getD i` for every `i` walks the
    list each time; an array copy is indexed instead -/
def newVLenArrayFast (elts : List Bytes) : Option VLenArrayMsg :=
  let sizes := elts.map List.length
  let total := sizes.sum
  if total = 0 then none else
  let sizesA := sizes.toArray
  let nonEmptyIdx := (List.range elts.length).filter (fun i => (sizesA.getD i 0) > 0)
  let nonEmptySizes := sizes.filter (· > 0)
  let allEqual := match nonEmptySizes with
    | [] => true
    | z :: zs => zs.all (· == z)
  let base : VLenArrayMsg :=
    { n := elts.length, eltCnt := nonEmptyIdx.length
      bytes := elts.flatten
      presenceBM := some (newBM nonEmptyIdx elts.length "r64") }
  if allEqual then
    -- prevSize is the size of the last non-empty element
    some { base with fixedSize := nonEmptySizes.getLast?.getD 0 }
  else
    some { base with positionBM := some (newBM (stepToPos sizes) 0 "s32") }

@[csimp] theorem newVLenArray_eq_fast : @newVLenArray = @newVLenArrayFast := by
  funext elts
  unfold newVLenArray newVLenArrayFast
  simp only [List.toArray_getD_eq]

/-! ### `sortedBMCounts`, `memIncrOfShortSize`, `findMinShortSize` -/

/-- count table `innerBMCnt[nbit]`: association list bitmap ↦ count -/
def bumpCount (tbl : List (Nat × Nat)) (bm : Nat) : List (Nat × Nat) :=
  match tbl with
  | [] => [(bm, 1)]
  | (b, c) :: rest => if b = bm then (b, c + 1) :: rest else (b, c) :: bumpCount rest bm

/-- insertion into a list sorted by (count desc, bitmap desc): the comparator of `sortedBMCounts` -/
def insertSorted (x : Nat × Nat) : List (Nat × Nat) → List (Nat × Nat)
  | [] => [x]
  | y :: ys =>
    if x.2 > y.2 || (x.2 == y.2 && x.1 > y.1) then x :: y :: ys else y :: insertSorted x ys

def sortCounts (tbl : List (Nat × Nat)) : List (Nat × Nat) := tbl.foldl (fun acc x => insertSorted x acc) []

/-- `memIncrOfShortSize` (the memory delta only; the Go code ignores shortCnt).  Int: normally negative. -/
def memIncr (sorted : Array (List (Nat × Nat))) (shortSize : Nat) : Int :=
  let nShort := 2 ^ shortSize
  let rec go : Nat → Nat → Array Nat → Int → Int
    | 0, _, _, mem => mem
    | k + 1, short, ith, mem =>
      let nbit := popcount short
      let used := ith.getD nbit 0
      match (sorted.getD nbit [])[used]? with
      | some (_, cnt) =>
        go k (short + 1) (ith.modify nbit (· + 1)) (mem - ((innerSize : Int) - shortSize) * cnt)
      | none => go k (short + 1) ith mem
  go nShort 0 (Array.replicate (shortSize + 1) 0) ((nShort : Int) * 64)

/-- `findMinShortSize` -/
def findMinShortSize (sorted : Array (List (Nat × Nat))) : Nat :=
  let rec go : Nat → Nat → Nat → Int → Nat
    | 0, _, sz, _ => sz
    | k + 1, shortSize, sz, minCost =>
      let incr := memIncr sorted shortSize
      if incr < minCost then go k (shortSize + 1) shortSize incr else go k (shortSize + 1) sz minCost
  go maxShortSize 1 0 (memIncr sorted 0)

/-- the short table and the map bitmap ↦ short code (`mostUsed`) -/
def shortTable (sorted : Array (List (Nat × Nat))) (shortSize : Nat) : List Nat × List (Nat × Nat) :=
  let rec go : Nat → Nat → Array (List (Nat × Nat)) → List Nat → List (Nat × Nat) →
      List Nat × List (Nat × Nat)
    | 0, _, _, tbl, mu => (tbl.reverse, mu)
    | k + 1, short, sorted, tbl, mu =>
      let nbit := popcount short
      match sorted.getD nbit [] with
      | (bm, _) :: rest =>
        -- mostUsed[bm] = short  (a later assignment to the same key would overwrite: keys are distinct)
        go k (short + 1) (sorted.setIfInBounds nbit rest) (bm :: tbl) ((bm, short) :: mu.filter (·.1 != bm))
      | [] => go k (short + 1) sorted (0 :: tbl) mu
  go (2 ^ shortSize) 0 sorted [] []

def innerRecs (nodes : Array Node) : List InnerRec :=
  nodes.toList.filterMap (fun n => match n with | .inner r => some r | .leaf _ _ => none)

/-- `creator.build` + `buildLeaves` (also on a creator that holds no node: the legacy conversion
    of an empty trie runs it; only `NodeTypeBM` is left nil then) -/
def encodeCreator (t : Trie1) : SlimMsg :=
  let inners := innerRecs t.nodes
  let innerCnt := inners.length
  -- statistics over non-big inner nodes with at most maxShortSize labels
  let cnts : Array (List (Nat × Nat)) :=
    inners.foldl (fun (a : Array (List (Nat × Nat))) r =>
      if !r.big && r.labels.length < maxShortSize + 1
      then a.modify r.labels.length (fun tbl => bumpCount tbl (bm17 r.labels)) else a)
      (Array.replicate (maxShortSize + 1) [])
  let sorted := cnts.map sortCounts
  let shortSize := findMinShortSize sorted
  let (tbl, mostUsed) := shortTable sorted shortSize
  -- substitution
  let sub : List (List Nat × Nat × Bool) := inners.map (fun r =>
    if r.big then (r.labels, bigInnerSize, false) else
    match mostUsed.find? (·.1 == bm17 r.labels) with
    | some (_, short) => (toArray [short], shortSize, true)
    | none => (r.labels, innerSize, false))
  let shortIndex := (List.range innerCnt).filter (fun i => (sub.getD i ([], 0, false)).2.2)
  let innerIdx := (List.range t.nodes.size).filter (fun i =>
    match t.nodes[i]? with | some (.inner _) => true | _ => false)
  -- inner prefixes
  let prefIdx := (List.range innerCnt).filter (fun i =>
    match (inners.getD i default).pref with | .none => false | _ => true)
  let ips : VLenArrayMsg :=
    if t.opt.inner then
      let ps := inners.filterMap (fun r => match r.pref with
        | .stored ns => some (bitstrOf ns) | _ => none)
      { eltCnt := prefIdx.length
        presenceBM := some (newBM prefIdx innerCnt "r128")
        positionBM := some (newBM (stepToPos (ps.map List.length)) 0 "s32")
        bytes := ps.flatten }
    else
      { eltCnt := prefIdx.length
        presenceBM := some (newBM prefIdx innerCnt "r128")
        fixedSize := 2
        bytes := (inners.filterMap (fun r => match r.pref with
          | .step n => some (encStep n) | _ => none)).flatten }
  -- leaf prefixes
  let leafLps : List (Option Bytes) :=
    t.nodes.toList.filterMap (fun n => match n with | .leaf _ lp => some lp | .inner _ => none)
  -- capacity of the presence bitmap: every leaf (`c.nodeCnt - innerCnt`)
  let leafCnt := leafLps.length
  let lps : Option VLenArrayMsg :=
    if t.opt.leaf then
      let idx := (List.range leafLps.length).filter (fun i => (leafLps.getD i none).isSome)
      let ps := leafLps.filterMap id
      some { presenceBM := some (newBM idx leafCnt "r64")
             positionBM := some (newBM (stepToPos (ps.map List.length)) 0 "s32")
             bytes := ps.flatten }
    else none
  { bigInnerCnt := t.bigCnt
    shortSize := shortSize
    nodeTypeBM := if t.nodes.size = 0 then none else some (newBM innerIdx t.nodes.size "r64")
    inners := some (mk (ofMany (sub.map (·.1)) (sub.map (·.2.1))) "r128")
    shortBM := some (newBM shortIndex innerCnt "r64")
    shortTable := tbl
    innerPrefixes := some ips
    leafPrefixes := lps
    leaves := match t.elts with
      | some es => newVLenArray es
      | none => none }

/-- compiled form of `encodeCreator` (`@[csimp]` below): the three index filters read
    `l.getD i` for every `i` (quadratic in the number of nodes); array copies are indexed instead -/
def encodeCreatorFast (t : Trie1) : SlimMsg :=
  let inners := innerRecs t.nodes
  let innerCnt := inners.length
  -- statistics over non-big inner nodes with at most maxShortSize labels
  let cnts : Array (List (Nat × Nat)) :=
    inners.foldl (fun (a : Array (List (Nat × Nat))) r =>
      if !r.big && r.labels.length < maxShortSize + 1
      then a.modify r.labels.length (fun tbl => bumpCount tbl (bm17 r.labels)) else a)
      (Array.replicate (maxShortSize + 1) [])
  let sorted := cnts.map sortCounts
  let shortSize := findMinShortSize sorted
  let (tbl, mostUsed) := shortTable sorted shortSize
  -- substitution
  let sub : List (List Nat × Nat × Bool) := inners.map (fun r =>
    if r.big then (r.labels, bigInnerSize, false) else
    match mostUsed.find? (·.1 == bm17 r.labels) with
    | some (_, short) => (toArray [short], shortSize, true)
    | none => (r.labels, innerSize, false))
  let subA := sub.toArray
  let shortIndex := (List.range innerCnt).filter (fun i => (subA.getD i ([], 0, false)).2.2)
  let innerIdx := (List.range t.nodes.size).filter (fun i =>
    match t.nodes[i]? with | some (.inner _) => true | _ => false)
  -- inner prefixes
  let innersA := inners.toArray
  let prefIdx := (List.range innerCnt).filter (fun i =>
    match (innersA.getD i default).pref with | .none => false | _ => true)
  let ips : VLenArrayMsg :=
    if t.opt.inner then
      let ps := inners.filterMap (fun r => match r.pref with
        | .stored ns => some (bitstrOf ns) | _ => none)
      { eltCnt := prefIdx.length
        presenceBM := some (newBM prefIdx innerCnt "r128")
        positionBM := some (newBM (stepToPos (ps.map List.length)) 0 "s32")
        bytes := ps.flatten }
    else
      { eltCnt := prefIdx.length
        presenceBM := some (newBM prefIdx innerCnt "r128")
        fixedSize := 2
        bytes := (inners.filterMap (fun r => match r.pref with
          | .step n => some (encStep n) | _ => none)).flatten }
  -- leaf prefixes
  let leafLps : List (Option Bytes) :=
    t.nodes.toList.filterMap (fun n => match n with | .leaf _ lp => some lp | .inner _ => none)
  -- capacity of the presence bitmap: every leaf (`c.nodeCnt - innerCnt`)
  let leafCnt := leafLps.length
  let lps : Option VLenArrayMsg :=
    if t.opt.leaf then
      let leafLpsA := leafLps.toArray
      let idx := (List.range leafLps.length).filter (fun i => (leafLpsA.getD i none).isSome)
      let ps := leafLps.filterMap id
      some { presenceBM := some (newBM idx leafCnt "r64")
             positionBM := some (newBM (stepToPos (ps.map List.length)) 0 "s32")
             bytes := ps.flatten }
    else none
  { bigInnerCnt := t.bigCnt
    shortSize := shortSize
    nodeTypeBM := if t.nodes.size = 0 then none else some (newBM innerIdx t.nodes.size "r64")
    inners := some (mk (ofMany (sub.map (·.1)) (sub.map (·.2.1))) "r128")
    shortBM := some (newBM shortIndex innerCnt "r64")
    shortTable := tbl
    innerPrefixes := some ips
    leafPrefixes := lps
    leaves := match t.elts with
      | some es => newVLenArray es
      | none => none }

@[csimp] theorem encodeCreator_eq_fast : @encodeCreator = @encodeCreatorFast := by
  funext t
  unfold encodeCreator encodeCreatorFast
  simp only [List.toArray_getD_eq]

/-- `newSlim`'s result as a message: `&Slim{}` for the empty key list, else `creator.build` -/
def encode (t : Trie1) : SlimMsg :=
  if t.nodes.size = 0 then {} else encodeCreator t

/-! ### reading: `getNode` and friends -/

def sliceBytes (bs : Bytes) (a b : Nat) : Except Err Bytes :=
  if a ≤ b ∧ b ≤ bs.length then .ok ((bs.drop a).take (b - a))
  else .error (.panic "slice bounds out of range")

/-- compiled form of `sliceBytes` (`@[csimp]` below): the bounds check measures the slice it has
    cut, not the whole byte section (`bs.length` walks all of it on every read) -/
def sliceBytesFast (bs : Bytes) (a b : Nat) : Except Err Bytes :=
  if a ≤ b then
    if a = b then
      (if a ≤ bs.length then .ok [] else .error (.panic "slice bounds out of range"))
    else
      let r := (bs.drop a).take (b - a)
      if r.length = b - a then .ok r else .error (.panic "slice bounds out of range")
  else .error (.panic "slice bounds out of range")

@[csimp] theorem sliceBytes_eq_fast : @sliceBytes = @sliceBytesFast := by
  funext bs a b
  unfold sliceBytes sliceBytesFast
  by_cases hab : a ≤ b
  · rw [if_pos hab]
    by_cases he : a = b
    · subst he
      rw [if_pos rfl]
      by_cases hl : a ≤ bs.length
      · rw [if_pos hl, if_pos ⟨hab, hl⟩]; simp
      · rw [if_neg hl, if_neg (fun h => hl h.2)]
    · rw [if_neg he]
      simp only [List.length_take, List.length_drop]
      by_cases hl : b ≤ bs.length
      · rw [if_pos ⟨hab, hl⟩, if_pos (by omega)]
      · rw [if_neg (fun h => hl h.2), if_neg (by omega)]
  · rw [if_neg hab, if_neg (fun h => hab h.1)]

/-- `VLenArray.get` -/
def vlenGet (va : VLenArrayMsg) (index : Nat) : Except Err Bytes := do
  if index ≥ va.n then .error (.panic "out of bound")
  let some pres := va.presenceBM | .error (.panic "nil PresenceBM")
  let some w := pres.words[index / 64]? | .error (.panic "index out of range (presence words)")
  if !w.testBit (index % 64) then return []
  let some r := pres.rankIndex[index / 64]? | .error (.panic "index out of range (presence rank)")
  let ithElt := r + popcount (w % 2 ^ (index % 64))
  match va.positionBM with
  | none => sliceBytes va.bytes (ithElt * va.fixedSize) (ithElt * va.fixedSize + va.fixedSize)
  | some pos =>
    let (a, b) ← select32R64 pos ithElt
    sliceBytes va.bytes a b

/-- extraction of the `len`-bit field at bit offset `from` of `words` as the Go code does for a
    short node (`(w >> j) & mask`, or the two-word form when it straddles) -/
def extractShort (words : List Nat) (frm len : Nat) : Except Err Nat := do
  let j := frm % 64
  let some w := words[frm / 64]? | .error (.panic "index out of range (Inners.Words)")
  if j + len ≤ 64 then return (w >>> j) % 2 ^ len
  else
    let some w2 := words[(frm + len) / 64]? | .error (.panic "index out of range (Inners.Words)")
    return ((w >>> j) ||| ((w2 <<< (64 - j)) % 2 ^ 64 % 2 ^ len))

/-- label indexes set in bits [frm, frm+size) of `words` -/
def labelsIn (words : List Nat) (frm size : Nat) : List Nat :=
  (List.range size).filter (fun k => (words.getD ((frm + k) / 64) 0).testBit ((frm + k) % 64))

/-- compiled form of `labelsIn` (`@[csimp]` below): drop the `frm / 64` words before the node
    once instead of walking to word `(frm + k) / 64` for each of the `size` bits -/
def labelsInFast (words : List Nat) (frm size : Nat) : List Nat :=
  let ws := words.drop (frm / 64)
  (List.range size).filter (fun k => (ws.getD ((frm % 64 + k) / 64) 0).testBit ((frm % 64 + k) % 64))

@[csimp] theorem labelsIn_eq_fast : @labelsIn = @labelsInFast := by
  funext words frm size
  unfold labelsIn labelsInFast
  simp only
  apply List.filter_congr
  intro k _
  rw [Bits.getD_drop_add]
  have e1 : frm / 64 + (frm % 64 + k) / 64 = (frm + k) / 64 := by omega
  have e2 : (frm % 64 + k) % 64 = (frm + k) % 64 := by omega
  rw [e1, e2]

/-- `getLeafPrefix` -/
def getLeafPrefix (s : SlimMsg) (ithLeaf : Nat) : Except Err (Option Bytes) := do
  match s.leafPrefixes with
  | none => return none
  | some lp =>
    let some pres := lp.presenceBM | .error (.panic "nil PresenceBM")
    let some w := pres.words[ithLeaf / 64]? | .error (.panic "index out of range (leaf presence)")
    if !w.testBit (ithLeaf % 64) then return none
    let some r := pres.rankIndex[ithLeaf / 64]? | .error (.panic "index out of range (leaf presence rank)")
    let ithPref := r + popcount (w % 2 ^ (ithLeaf % 64))
    let some pos := lp.positionBM | .error (.panic "nil PositionBM")
    let (a, b) ← select32R64 pos ithPref
    return some (← sliceBytes lp.bytes a b)

/-- position of the label bitmap of the `ith` inner node: (from, size, short bitmap if short) -/
def innerFrom (s : SlimMsg) (ith : Nat) : Except Err (Nat × Nat × Option Nat) := do
  if ith < s.bigInnerCnt then return (ith * bigInnerSize, bigInnerSize, none)
  let some sbm := s.shortBM | .error (.panic "nil ShortBM")
  let (ithShort, isShort) ← rank64 sbm ith
  -- BigInnerOffset + innerSize*ith + ShortMinusInner*ithShort
  let frm : Int := ((bigInnerSize : Int) - innerSize) * s.bigInnerCnt + (innerSize : Int) * ith
      + ((s.shortSize : Int) - innerSize) * ithShort
  if frm < 0 then .error (.panic "negative bit offset")
  let frm := frm.toNat
  if isShort then
    let some inn := s.inners | .error (.panic "nil Inners")
    let code ← extractShort inn.words frm s.shortSize
    let some bm := s.shortTable[code]? | .error (.panic "index out of range (ShortTable)")
    return (frm, s.shortSize, some bm)
  else return (frm, innerSize, none)

/-- `getNode` -/
def getNode (s : SlimMsg) (id : Nat) : Except Err Node := do
  let some nt := s.nodeTypeBM | .error (.panic "nil NodeTypeBM")
  let (ithInner, isInner) ← rank64 nt id
  if !isInner then
    let ithLeaf := id - ithInner
    return .leaf ithLeaf (← getLeafPrefix s ithLeaf)
  let (frm, size, short) ← innerFrom s ithInner
  let some inn := s.inners | .error (.panic "nil Inners")
  let labels := match short with
    | some bm => (List.range innerSize).filter (fun k => bm.testBit k)
    | none => labelsIn inn.words frm size
  let (r0, _) ← rank128 inn frm
  -- prefix
  let some ips := s.innerPrefixes | .error (.panic "nil InnerPrefixes")
  let pref : Pref ← (do
    if ips.eltCnt = 0 then return Pref.none
    let some pres := ips.presenceBM | .error (.panic "nil PresenceBM")
    let some w := pres.words[ithInner / 64]? | .error (.panic "index out of range (prefix presence)")
    if !w.testBit (ithInner % 64) then return Pref.none
    let (ithPref, _) ← rank128 pres ithInner
    match ips.positionBM with
    | some pos =>
      let (a, b) ← select32R64 pos ithPref
      let bs ← sliceBytes ips.bytes a b
      if bs.isEmpty then .error (.panic "index out of range (bitstr.Len)")
      return Pref.stored (bitstrNibs bs)
    | none =>
      match ips.bytes[ithPref * 2]?, ips.bytes[ithPref * 2 + 1]? with
      | some b0, some b1 => return Pref.step (decStep b0 b1)
      | _, _ => .error (.panic "index out of range (decStep)"))
  return .inner { big := decide (ithInner < s.bigInnerCnt), labels := labels, firstChild := r0 + 1, pref := pref }

def nodeCount (s : SlimMsg) : Nat :=
  match s.nodeTypeBM with
  | none => 0
  | some nt => nt.words.length * 64

def view (s : SlimMsg) : View where
  isEmpty := s.nodeTypeBM.isNone
  nodeCnt := nodeCount s
  node := getNode s
  leafPrefixesOn := s.leafPrefixes.isSome
  scanOK := match s.innerPrefixes, s.leafPrefixes with
    | some ips, some _ => ips.positionBM.isSome
    | _, _ => false
  leafBytes := fun ith =>
    match s.leaves with
    | none => .ok none
    | some va => do return some (← vlenGet va ith)

end Slim

namespace Slim

/-- two's-complement value of `w` little-endian bytes -/
def leSigned (bs : Bytes) : Int :=
  let n := leVal bs
  if n < 2 ^ (8 * bs.length - 1) then (n : Int) else (n : Int) - 2 ^ (8 * bs.length)

/-- `GetI8/16/32/64` (`w` = 1,2,4,8): reads `Leaves.Bytes[ith*w : ith*w+w]` directly -/
def getInt (s : SlimMsg) (w : Nat) (key : Bytes) : Except Err (Option Int) := do
  match ← getID (view s) key with
  | none => return none
  | some id =>
    let some nt := s.nodeTypeBM | .error (.panic "nil NodeTypeBM")
    let (r, _) ← rank64 nt id
    let ith := id - r
    let some lv := s.leaves | .error (.panic "nil pointer dereference (Leaves)")
    let bs ← sliceBytes lv.bytes (ith * w) (ith * w + w)
    return some (leSigned bs)

end Slim
