import SlimProofs.SizePrefixExact
import SlimProofs.SizeRootStep
import SlimProps.C17
/-
  SlimProps.C17Exact — C17, where exactly the second clause ("lengthening keys without changing
  where they branch changes the size by at most a few bytes") holds.

  * `C17_prefix_exact`: if the root of `build K` already carries a step (the keys share at least
    their first half-byte — for a 257-bit root their first byte), then for every `P` the
    serialized index of `P ++ K` has EXACTLY the size of that of `K`: the record arrays differ
    only in the value of the root's step (`C17_prefix_same_shape`), a step is two raw bytes of
    `InnerPrefixes.Bytes`, and every bitmap is the same.  No size hypothesis; the step guard is
    the hypothesis that both builds succeed.
  * `C17_prefix_exact_common_byte`: the same from a condition on the keys alone — at least two
    keys, all starting with the same byte (`SizeRootStep.root_step_of_common_byte`: then the root
    is an inner record with a step of at least 2 half-bytes).
  * `C17_K1_rank_entries`: the complementary case (finding K1) inside Lean: if the root carries
    no step and `P ≠ []`, the root gains one, `InnerPrefixes` gets one more element, and every
    entry of the rank index of its presence bitmap after the first is exactly one larger — each
    entry that was 127 (16383, …) costs one more varint byte, which is the growth
    `C17_prefix_size` bounds by `26 + inner/128`.

  So the clause holds with `c = 0` when the root has a step and fails (for any constant) only
  when the root gains one.
-/
open Wire Slim

open SizePrefix SizePrefixEnc SizePrefixExact BuildShape in
/-- C17 (prefix, exact): a root that already has a step absorbs every common prefix at no cost.
    (`0 < n` need not be assumed: the builder records `.step n` only for `n > 0`.) -/
theorem C17_prefix_exact (keys : List Bytes) (P : Bytes) (t t' : Trie1) (hne : keys ≠ [])
    (hb : build keys none {} = .ok t) (hb' : build (keys.map (P ++ ·)) none {} = .ok t')
    (r : InnerRec) (n : Nat) (hroot : t.nodes[0]? = some (.inner r))
    (hstep : r.pref = .step n) :
    marshalSize t' = marshalSize t := by
  obtain ⟨hopt, hbc, _, helts, r0, r0', ns, hnodes, hnodes', hrel⟩ :=
    C17_prefix_same_shape keys P t t' hne hb hb'
  have hopt0 : t.opt.inner = false := by
    obtain ⟨_, _, st, _, rfl⟩ := build_ok_elim hb hne
    rfl
  have hr0 : r0 = .inner r := by
    rw [← Array.getElem?_toList, hnodes] at hroot
    simpa using hroot
  subst hr0
  cases r0' with
  | leaf _ _ => exact absurd hrel (by simp [RootRel])
  | inner a' =>
    obtain ⟨h1, h2, _, ws, hp, hp'⟩ := hrel
    have hws : ws ≠ 0 := by
      intro h0
      rw [hstep, h0] at hp
      simp [stepPref] at hp
    unfold marshalSize
    exact marshal_size_same hnodes hnodes' h1 h2 hopt hbc helts hopt0 ws (2 * P.length) hws hp hp'

/-- C17 (prefix, exact), from the keys alone: two or more keys that share their first byte. -/
theorem C17_prefix_exact_common_byte (keys : List Bytes) (P : Bytes) (t t' : Trie1)
    (hb : build keys none {} = .ok t) (hb' : build (keys.map (P ++ ·)) none {} = .ok t')
    (h2 : 2 ≤ keys.length) (b : UInt8) (hcommon : ∀ k ∈ keys, ∃ rest, k = b :: rest) :
    marshalSize t' = marshalSize t := by
  have hne : keys ≠ [] := by intro h; rw [h] at h2; simp at h2
  obtain ⟨r, n, hroot, hstep, _⟩ := SizeRootStep.root_step_of_common_byte keys t hb h2 b hcommon
  exact C17_prefix_exact keys P t t' hne hb hb' r n hroot hstep

/-- the rank index of the presence bitmap of `InnerPrefixes` -/
def presenceRank (m : SlimMsg) : List Nat :=
  match m.innerPrefixes with
  | some ips => (match ips.presenceBM with | some b => b.rankIndex | none => [])
  | none => []

/-- number of elements of `InnerPrefixes` -/
def prefixCount (m : SlimMsg) : Nat :=
  match m.innerPrefixes with
  | some ips => ips.eltCnt
  | none => 0

open SizePrefix SizePrefixEnc SizePrefixExact BuildShape Refine in
/-- Finding K1 inside Lean: when the root of `build K` has no step, prepending a non-empty `P`
    gives it one; `InnerPrefixes` has one more element and every rank-index entry of its presence
    bitmap after the first grows by exactly one. -/
theorem C17_K1_rank_entries (keys : List Bytes) (P : Bytes) (t t' : Trie1) (hne : keys ≠ [])
    (hb : build keys none {} = .ok t) (hb' : build (keys.map (P ++ ·)) none {} = .ok t')
    (r : InnerRec) (hroot : t.nodes[0]? = some (.inner r)) (hnone : r.pref = .none)
    (hP : P ≠ []) :
    prefixCount (Slim.encode t') = prefixCount (Slim.encode t) + 1 ∧
    ∀ k, (presenceRank (Slim.encode t'))[k]?
      = (presenceRank (Slim.encode t))[k]?.map (fun x => if k = 0 then x else x + 1) := by
  obtain ⟨_, _, _, _, r0, r0', ns, hnodes, hnodes', hrel⟩ :=
    C17_prefix_same_shape keys P t t' hne hb hb'
  have hr0 : r0 = .inner r := by
    rw [← Array.getElem?_toList, hnodes] at hroot
    simpa using hroot
  subst hr0
  cases r0' with
  | leaf _ _ => exact absurd hrel (by simp [RootRel])
  | inner a' =>
    obtain ⟨_, _, _, ws, hp, hp'⟩ := hrel
    have hws : ws = 0 := by
      rcases Nat.eq_zero_or_pos ws with h | h
      · exact h
      · rw [hnone] at hp
        have : ¬ ws = 0 := by omega
        simp [stepPref, this] at hp
    subst hws
    have hd : 2 * P.length ≠ 0 := by
      have : 0 < P.length := List.length_pos_iff.mpr hP
      omega
    have hne0 : t.nodes.size ≠ 0 := by
      have := congrArg List.length hnodes; simp at this; omega
    have hne0' : t'.nodes.size ≠ 0 := by
      have := congrArg List.length hnodes'; simp at this; omega
    have key := fun k => presence_rank_gain hnodes hnodes' (2 * P.length) hd hp hp' k
    rw [encode_eq t hne0, encode_eq t' hne0']
    simp only [prefixCount, presenceRank, enc_innerPrefixes, eIps_eltCnt, eIps_presenceBM]
    refine ⟨?_, fun k => (key k).2⟩
    rw [(key 0).1, List.length_cons]

/-! ### non-vacuity and tests -/

namespace C17Exact.Ex

/-- the keys `ab`, `ac` share their first byte: the root of the filter-mode trie carries a step
    of 3 half-bytes, so every common prefix is free -/
def keys : List Bytes := [[0x61, 0x62], [0x61, 0x63]]

theorem build_ok (P : Bytes) (hP : 2 * (P.length + 2) ≤ 0xffff) :
    ∃ t, build (keys.map (P ++ ·)) none {} = .ok t := by
  apply C08_accept _ none {} (by simp [keys]) _ (by intro vs h; cases h) (Or.inr ?_)
  · -- strictly ascending: a common prefix does not change the order
    induction P with
    | nil => decide
    | cons b P ih =>
      have := ih (by simp only [List.length_cons] at hP; omega)
      simp only [keys, List.map_cons, List.map_nil, strictAsc, Bool.and_true] at this ⊢
      simpa [bytesLt, cmpBytes, lexCmp] using this
  · intro k hk
    simp only [keys, List.map_cons, List.map_nil, List.mem_cons, List.not_mem_nil, or_false] at hk
    rcases hk with rfl | rfl <;> simp <;> omega

/-- proved instance: every prefix of up to 32 765 bytes in front of `ab`, `ac` is free -/
example (P : Bytes) (hP : 2 * (P.length + 2) ≤ 0xffff) :
    ∃ t t', build keys none {} = .ok t ∧ build (keys.map (P ++ ·)) none {} = .ok t' ∧
      marshalSize t' = marshalSize t := by
  obtain ⟨t, ht⟩ := build_ok [] (by decide)
  obtain ⟨t', ht'⟩ := build_ok P hP
  have e : keys.map ([] ++ ·) = keys := by simp
  rw [e] at ht
  exact ⟨t, t', ht, ht', C17_prefix_exact_common_byte keys P t t' ht ht' (by decide) 0x61
    (by intro k hk; simp [keys] at hk; rcases hk with rfl | rfl <;> exact ⟨_, rfl⟩)⟩

/-- the same through the model-level hypothesis: the root record, computed by the kernel -/
theorem root_step : (build keys none {}).toOption.bind (fun t => t.nodes[0]?)
    = some (.inner { big := false, labels := [3, 4], firstChild := 1, pref := .step 3 }) := by
  decide +kernel

example (P : Bytes) (t t' : Trie1) (hb : build keys none {} = .ok t)
    (hb' : build (keys.map (P ++ ·)) none {} = .ok t') : marshalSize t' = marshalSize t := by
  have h := root_step
  rw [hb] at h
  exact C17_prefix_exact keys P t t' (by simp [keys]) hb hb' _ 3 h rfl

/-- K1, non-vacuity of `C17_K1_rank_entries`: the keys `\x10`, `\x20` branch at the first
    half-byte, the root has no step; one prefix byte gives `InnerPrefixes` its first element -/
def keys0 : List Bytes := [[0x10], [0x20]]

theorem root_none : (build keys0 none {}).toOption.bind (fun t => t.nodes[0]?)
    = some (.inner { big := false, labels := [2, 3], firstChild := 1, pref := .none }) := by
  decide +kernel

example (t t' : Trie1) (hb : build keys0 none {} = .ok t)
    (hb' : build (keys0.map ([0x41] ++ ·)) none {} = .ok t') :
    prefixCount (Slim.encode t') = prefixCount (Slim.encode t) + 1 := by
  have h := root_none
  rw [hb] at h
  exact (C17_K1_rank_entries keys0 [0x41] t t' (by simp [keys0]) hb hb' _ h rfl (by simp)).1

-- evaluated tests: the root of `build keys` has a step of 3 half-bytes; the sizes agree for two
-- prefixes; on the K1 witness (root without a step) they do not
#guard (match build keys none {} with
  | .ok t => (match t.nodes[0]? with | some (Node.inner r) => r.pref == Pref.step 3 | _ => false)
  | .error _ => false)
#guard C17.sizeOfKeys keys == C17.sizeOfKeys (keys.map ([0x50] ++ ·))
#guard C17.sizeOfKeys keys == C17.sizeOfKeys (keys.map (List.replicate 1000 0x51 ++ ·))
#guard C17.sizeOfKeys (C17.witness 9) != C17.sizeOfKeys ((C17.witness 9).map ([0x41] ++ ·))

end C17Exact.Ex

#print axioms C17_prefix_exact
#print axioms C17_prefix_exact_common_byte
#print axioms C17_K1_rank_entries
#print axioms C17Exact.Ex.root_step
#print axioms SizeRootStep.root_step_of_common_byte
#print axioms SizePrefixExact.indexRank128_cons_zero
