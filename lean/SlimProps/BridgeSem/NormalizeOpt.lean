import Generated.Funcs
import SlimProps.BridgeSem.Common
import SlimModel.Spec
/-
  SlimProps.BridgeSem.NormalizeOpt — tie 1, semantic part: `normalizeOpt` (trie/slimtrie.go).
  See SlimProps/BridgeSem.lean for the overview.
-/

open Generated

namespace BridgeSem

/-! ### `normalizeOpt` (trie/slimtrie.go): the decision logic of the options -/

/-- nil pointers take their defaults and `Complete == true` forces both prefixes: the generated
    decision logic is `Opt.normalize` (SlimModel/Spec.lean), for all 81 combinations of
    nil / false / true; `Complete` itself is left as it was. -/
theorem normalizeOpt_sem (d i l c : Option Bool) :
    Generated.normalizeOpt d i l c =
      (some (Opt.normalize d i l c).dedup, some (Opt.normalize d i l c).inner,
       some (Opt.normalize d i l c).leaf, c) := by
  rcases d with _ | _ | _ <;> rcases i with _ | _ | _ <;> rcases l with _ | _ | _ <;>
    rcases c with _ | _ | _ <;> rfl

end BridgeSem

#print axioms BridgeSem.normalizeOpt_sem
