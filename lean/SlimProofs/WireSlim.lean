import SlimProofs.WireMsg
/-
  SlimProofs.WireSlim — trie.Slim: the proto3 normal form, decode ∘ encode = id, size = length.
-/

namespace SlimMsg
/-- proto3 normal form of a `Slim` message: scalars, repeated fields and sub-message pointers are
    always normal in these structures (0 / [] / none are the omitted forms, `some {}` is a present
    empty sub-message and round-trips); the only condition is on `XXX_unrecognized`: it holds
    well-formed fields, canonically keyed, none of which the Slim unmarshaler would consume itself. -/
def NF (s : SlimMsg) : Prop := Wire.unknownOnly Wire.slimKnown s.unrecognized = true
end SlimMsg

namespace Wire

set_option linter.unusedSimpArgs false in
theorem slimH_unknown (acc : SlimMsg) (fno wire : Nat) (v : WVal)
    (hk : slimKnown fno wire = false) (hf : Fits wire v) : slimH acc fno v = .ok none := by
  rcases hf with ⟨rfl, w, rfl⟩ | ⟨rfl, p, rfl⟩ | ⟨h0, h2, rfl⟩
  · unfold slimH; split <;> simp_all [slimKnown, scalarI32, msgF, repU32, repVals, bytesF]
  · unfold slimH; split <;> simp_all [slimKnown, scalarI32, msgF, repU32, repVals, bytesF]
  · unfold slimH; split <;> simp_all [slimKnown, scalarI32, msgF, repU32, repVals, bytesF]

theorem decodeSlimInto_unknown (acc : SlimMsg) (bs : Bytes) (h : unknownOnly slimKnown bs = true) :
    decodeSlimInto acc bs = .ok { acc with unrecognized := acc.unrecognized ++ bs } := by
  unfold decodeSlimInto
  exact decodeMsg_unknownOnly slimH slimU slimKnown slimH_unknown
    (fun a r => { a with unrecognized := a.unrecognized ++ r }) (fun _ _ => rfl)
    (fun a => by simp) (fun a x y => by simp) bs.length bs acc (Nat.le_refl _) h

theorem msgF_vlen (v : VLenArrayMsg) (hwf : v.WF) (hsz : (encodeVLenArray v).length < 2 ^ 64) :
    msgF decodeVLenArrayInto none (.bytes (encodeVLenArray v)) = .ok (some (some v)) := by
  have hd : (default : VLenArrayMsg) = {} := rfl
  simp [msgF, hd, decodeVLenArray_encode v hwf hsz]

set_option linter.unusedSimpArgs false in
set_option maxRecDepth 2000 in
/-- Round trip of the `Slim` message through the proto3 wire format (the reading pass). -/
theorem decodeSlimInto_encode (m : SlimMsg) (hwf : m.WF) (hnf : m.NF) (hsz : (encodeSlim m).length < 2 ^ 64) :
    decodeSlimInto {} (encodeSlim m) = .ok m := by
  obtain ⟨b, ss, nt, inn, sb, st, ip, lp, lv, u⟩ := m
  obtain ⟨hb, hss, hst, hnt, hinn, hsb, hip, hlp, hlv⟩ := hwf
  simp only at hb hss hst hnt hinn hsb hip hlp hlv
  unfold SlimMsg.NF at hnf
  simp only at hnf
  unfold encodeSlim encodeSlimKnown at hsz
  simp only [List.length_append] at hsz
  have lst := encPackedF_payload_le 32 st
  unfold decodeSlimInto encodeSlim encodeSlimKnown
  simp only [List.append_assoc]
  rw [decodeMsg_encVarintF slimH slimU {} { bigInnerCnt := b } (fno := 11) fnoOK (by omega) _
    (fun _ => by simp [slimH, scalarI32, toInt32_id hb]) (fun h0 => by subst h0; rfl)]
  rw [decodeMsg_encVarintF slimH slimU { bigInnerCnt := b } { bigInnerCnt := b, shortSize := ss } (fno := 14) fnoOK (by omega) _
    (fun _ => by simp [slimH, scalarI32, toInt32_id hss]) (fun h0 => by subst h0; rfl)]
  rw [decodeMsg_encMsgF slimH slimU { bigInnerCnt := b, shortSize := ss } { bigInnerCnt := b, shortSize := ss, nodeTypeBM := nt } (fno := 20) fnoOK (nt.map encodeBitmap)
    (by
      intro p hp
      cases nt with
      | none => simp at hp
      | some x =>
        simp at hp; subst hp
        have := encMsgF_payload_le 20 (encodeBitmap x)
        simp at hsz; omega) _
    (by
      intro p hp
      cases nt with
      | none => simp at hp
      | some x =>
        simp at hp; subst hp
        have hl := encMsgF_payload_le 20 (encodeBitmap x)
        have : (encodeBitmap x).length < 2 ^ 64 := by simp at hsz; omega
        simp [slimH, msgF_bitmap x (hnt x rfl) this])
    (fun h0 => by cases nt <;> simp at h0; rfl)]
  rw [decodeMsg_encMsgF slimH slimU { bigInnerCnt := b, shortSize := ss, nodeTypeBM := nt } { bigInnerCnt := b, shortSize := ss, nodeTypeBM := nt, inners := inn } (fno := 30) fnoOK (inn.map encodeBitmap)
    (by
      intro p hp
      cases inn with
      | none => simp at hp
      | some x =>
        simp at hp; subst hp
        have := encMsgF_payload_le 30 (encodeBitmap x)
        simp at hsz; omega) _
    (by
      intro p hp
      cases inn with
      | none => simp at hp
      | some x =>
        simp at hp; subst hp
        have hl := encMsgF_payload_le 30 (encodeBitmap x)
        have : (encodeBitmap x).length < 2 ^ 64 := by simp at hsz; omega
        simp [slimH, msgF_bitmap x (hinn x rfl) this])
    (fun h0 => by cases inn <;> simp at h0; rfl)]
  rw [decodeMsg_encMsgF slimH slimU { bigInnerCnt := b, shortSize := ss, nodeTypeBM := nt, inners := inn } { bigInnerCnt := b, shortSize := ss, nodeTypeBM := nt, inners := inn, shortBM := sb } (fno := 31) fnoOK (sb.map encodeBitmap)
    (by
      intro p hp
      cases sb with
      | none => simp at hp
      | some x =>
        simp at hp; subst hp
        have := encMsgF_payload_le 31 (encodeBitmap x)
        simp at hsz; omega) _
    (by
      intro p hp
      cases sb with
      | none => simp at hp
      | some x =>
        simp at hp; subst hp
        have hl := encMsgF_payload_le 31 (encodeBitmap x)
        have : (encodeBitmap x).length < 2 ^ 64 := by simp at hsz; omega
        simp [slimH, msgF_bitmap x (hsb x rfl) this])
    (fun h0 => by cases sb <;> simp at h0; rfl)]
  rw [decodeMsg_encPackedF slimH slimU { bigInnerCnt := b, shortSize := ss, nodeTypeBM := nt, inners := inn, shortBM := sb } { bigInnerCnt := b, shortSize := ss, nodeTypeBM := nt, inners := inn, shortBM := sb, shortTable := st } (fno := 32) fnoOK st (by omega) _
    (fun _ => by simp [slimH, repU32_packed st hst]) (fun h0 => by subst h0; rfl)]
  rw [decodeMsg_encMsgF slimH slimU { bigInnerCnt := b, shortSize := ss, nodeTypeBM := nt, inners := inn, shortBM := sb, shortTable := st } { bigInnerCnt := b, shortSize := ss, nodeTypeBM := nt, inners := inn, shortBM := sb, shortTable := st, innerPrefixes := ip } (fno := 38) fnoOK (ip.map encodeVLenArray)
    (by
      intro p hp
      cases ip with
      | none => simp at hp
      | some x =>
        simp at hp; subst hp
        have := encMsgF_payload_le 38 (encodeVLenArray x)
        simp at hsz; omega) _
    (by
      intro p hp
      cases ip with
      | none => simp at hp
      | some x =>
        simp at hp; subst hp
        have hl := encMsgF_payload_le 38 (encodeVLenArray x)
        have : (encodeVLenArray x).length < 2 ^ 64 := by simp at hsz; omega
        simp [slimH, msgF_vlen x (hip x rfl) this])
    (fun h0 => by cases ip <;> simp at h0; rfl)]
  rw [decodeMsg_encMsgF slimH slimU { bigInnerCnt := b, shortSize := ss, nodeTypeBM := nt, inners := inn, shortBM := sb, shortTable := st, innerPrefixes := ip } { bigInnerCnt := b, shortSize := ss, nodeTypeBM := nt, inners := inn, shortBM := sb, shortTable := st, innerPrefixes := ip, leafPrefixes := lp } (fno := 58) fnoOK (lp.map encodeVLenArray)
    (by
      intro p hp
      cases lp with
      | none => simp at hp
      | some x =>
        simp at hp; subst hp
        have := encMsgF_payload_le 58 (encodeVLenArray x)
        simp at hsz; omega) _
    (by
      intro p hp
      cases lp with
      | none => simp at hp
      | some x =>
        simp at hp; subst hp
        have hl := encMsgF_payload_le 58 (encodeVLenArray x)
        have : (encodeVLenArray x).length < 2 ^ 64 := by simp at hsz; omega
        simp [slimH, msgF_vlen x (hlp x rfl) this])
    (fun h0 => by cases lp <;> simp at h0; rfl)]
  rw [decodeMsg_encMsgF slimH slimU { bigInnerCnt := b, shortSize := ss, nodeTypeBM := nt, inners := inn, shortBM := sb, shortTable := st, innerPrefixes := ip, leafPrefixes := lp } { bigInnerCnt := b, shortSize := ss, nodeTypeBM := nt, inners := inn, shortBM := sb, shortTable := st, innerPrefixes := ip, leafPrefixes := lp, leaves := lv } (fno := 60) fnoOK (lv.map encodeVLenArray)
    (by
      intro p hp
      cases lv with
      | none => simp at hp
      | some x =>
        simp at hp; subst hp
        have := encMsgF_payload_le 60 (encodeVLenArray x)
        simp at hsz; omega) _
    (by
      intro p hp
      cases lv with
      | none => simp at hp
      | some x =>
        simp at hp; subst hp
        have hl := encMsgF_payload_le 60 (encodeVLenArray x)
        have : (encodeVLenArray x).length < 2 ^ 64 := by simp at hsz; omega
        simp [slimH, msgF_vlen x (hlv x rfl) this])
    (fun h0 => by cases lv <;> simp at h0; rfl)]
  have := decodeSlimInto_unknown { bigInnerCnt := b, shortSize := ss, nodeTypeBM := nt, inners := inn, shortBM := sb, shortTable := st, innerPrefixes := ip, leafPrefixes := lp, leaves := lv } u hnf
  unfold decodeSlimInto at this
  rw [this]
  simp

theorem slimI32OK_of_WF (m : SlimMsg) (h : m.WF) : slimI32OK m = true := by
  obtain ⟨hb, hss, _, hnt, hinn, hsb, hip, hlp, hlv⟩ := h
  simp [slimI32OK, i32ok, hb, hss,
    optOK_of bitmapI32OK _ (fun b hb => bitmapI32OK_of_WF b (hnt b hb)),
    optOK_of bitmapI32OK _ (fun b hb => bitmapI32OK_of_WF b (hinn b hb)),
    optOK_of bitmapI32OK _ (fun b hb => bitmapI32OK_of_WF b (hsb b hb)),
    optOK_of vlenI32OK _ (fun b hb => vlenI32OK_of_WF b (hip b hb)),
    optOK_of vlenI32OK _ (fun b hb => vlenI32OK_of_WF b (hlp b hb)),
    optOK_of vlenI32OK _ (fun b hb => vlenI32OK_of_WF b (hlv b hb))]

/-- Round trip of the `Slim` message through the proto3 wire format. -/
theorem decodeSlim_encode (m : SlimMsg) (hwf : m.WF) (hnf : m.NF) (hsz : (encodeSlim m).length < 2 ^ 64) :
    decodeSlim (encodeSlim m) = .ok m := by
  unfold decodeSlim
  rw [decodeSlimInto_encode m hwf hnf hsz, checkI32_ok _ _ (slimI32OK_of_WF m hwf)]

theorem protoSizeSlim_eq (m : SlimMsg) : protoSizeSlim m = (encodeSlim m).length := by
  simp only [protoSizeSlim, encodeSlim, encodeSlimKnown, List.length_append, encVarintF_length,
    encPackedF_length, encMsgF_length, Option.map_map]
  have e1 : (List.length ∘ encodeBitmap) = protoSizeBitmap := by
    funext b; exact (protoSizeBitmap_eq b).symm
  have e2 : (List.length ∘ encodeVLenArray) = protoSizeVLenArray := by
    funext b; exact (protoSizeVLenArray_eq b).symm
  rw [e1, e2]

end Wire
