import SlimProofs.BitsLemmas.Count
/-
  SlimProofs.BitsLemmas.Words — the bit list of a word list (`getBit`, `bitsOf`, `specRank`,
  `specBit`), `popcount`, and `ofIdx` (= Go `bitmap.Of`) characterised bit by bit.
-/

namespace Bits

/-- bit `i` of a word list (false beyond the end) -/
def getBit (ws : List Nat) (i : Nat) : Bool := (ws.getD (i / 64) 0).testBit (i % 64)

theorem getBit_of_ge {ws : List Nat} {i : Nat} (h : 64 * ws.length ≤ i) : getBit ws i = false := by
  have : ws.length ≤ i / 64 := by omega
  simp [getBit, List.getD_eq_getElem?_getD, List.getElem?_eq_none this]

theorem getBit_cons (w : Nat) (ws : List Nat) (i : Nat) :
    getBit (w :: ws) i = if i < 64 then w.testBit i else getBit ws (i - 64) := by
  unfold getBit
  split
  · next h =>
    have e1 : i / 64 = 0 := by omega
    have e2 : i % 64 = i := by omega
    simp [e1, e2]
  · next h =>
    have e1 : i / 64 = (i - 64) / 64 + 1 := by omega
    have e2 : i % 64 = (i - 64) % 64 := by omega
    rw [e1, e2]; simp

theorem getBit_mul_add (ws : List Nat) (k j : Nat) (hj : j < 64) :
    getBit ws (64 * k + j) = (ws.getD k 0).testBit j := by
  unfold getBit
  have e1 : (64 * k + j) / 64 = k := by omega
  have e2 : (64 * k + j) % 64 = j := by omega
  rw [e1, e2]

/-! ### `bitsOf`, `specBit`, `specRank` -/

theorem bitsOf_nil : bitsOf [] = [] := rfl

theorem bitsOf_cons (w : Nat) (ws : List Nat) :
    bitsOf (w :: ws) = (List.range 64).map (fun i => w.testBit i) ++ bitsOf ws := by
  simp [bitsOf]

theorem bitsOf_length (ws : List Nat) : (bitsOf ws).length = 64 * ws.length := by
  induction ws with
  | nil => rfl
  | cons w ws ih => rw [bitsOf_cons]; simp [ih]; omega

theorem bitsOf_getD (ws : List Nat) (i : Nat) : (bitsOf ws).getD i false = getBit ws i := by
  induction ws generalizing i with
  | nil => simp [bitsOf_nil, getBit]
  | cons w ws ih =>
    rw [bitsOf_cons, getBit_cons, List.getD_eq_getElem?_getD]
    split
    · next h =>
      rw [List.getElem?_append_left (by simpa using h)]
      simp [h]
    · next h =>
      rw [List.getElem?_append_right (by simp; omega), ← ih, List.getD_eq_getElem?_getD]
      simp

theorem specBit_bitsOf (ws : List Nat) (i : Nat) : specBit (bitsOf ws) i = getBit ws i :=
  bitsOf_getD ws i

theorem specRank_eq_cnt (bits : List Bool) (i : Nat) :
    specRank bits i = cnt (fun j => bits.getD j false) i := by
  unfold specRank
  induction i with
  | zero => simp
  | succ i ih =>
    rw [List.take_add_one, List.count_append, ih, cnt_succ, List.getD_eq_getElem?_getD]
    cases h : bits[i]? with
    | none => simp
    | some b => cases b <;> simp

theorem specRank_bitsOf (ws : List Nat) (i : Nat) : specRank (bitsOf ws) i = cnt (getBit ws) i := by
  rw [specRank_eq_cnt]
  apply cnt_congr
  intro j _
  exact bitsOf_getD ws j

/-! ### `popcount` -/

theorem popcount_eq_cnt (w : Nat) : popcount w = cnt w.testBit 64 :=
  (cnt_eq_length_filter _ _).symm

theorem popcount_zero : popcount 0 = 0 := by
  rw [popcount_eq_cnt]
  have : (0 : Nat).testBit = fun _ => false := by funext i; simp
  rw [this, cnt_false]

theorem popcount_mod_two_pow_cnt (w j : Nat) (hj : j ≤ 64) :
    popcount (w % 2 ^ j) = cnt w.testBit j := by
  rw [popcount_eq_cnt]
  have : (w % 2 ^ j).testBit = fun i => decide (i < j) && w.testBit i := by
    funext i; exact Nat.testBit_mod_two_pow w j i
  rw [this, cnt_and_lt, Nat.min_eq_left hj]

/-- item 2: the low `j` bits -/
theorem popcount_spec (w j : Nat) (hj : j ≤ 64) :
    popcount (w % 2 ^ j) = ((List.range j).filter w.testBit).length := by
  rw [popcount_mod_two_pow_cnt w j hj, cnt_eq_length_filter]

theorem popcount_mod_le (w j : Nat) (hj : j ≤ 64) : popcount (w % 2 ^ j) ≤ popcount w := by
  rw [popcount_mod_two_pow_cnt w j hj, popcount_eq_cnt]
  exact cnt_mono _ hj

theorem popcount_le (w : Nat) : popcount w ≤ 64 := by
  rw [popcount_eq_cnt]; exact cnt_le _ _

/-- additivity inside a word: bits below `j` plus bits from `j` up -/
theorem popcount_split (w j : Nat) (hj : j ≤ 64) :
    popcount w = popcount (w % 2 ^ j) + cnt (fun i => w.testBit (j + i)) (64 - j) := by
  rw [popcount_mod_two_pow_cnt w j hj, popcount_eq_cnt, ← cnt_add]
  congr 1; omega

/-- the set bits of the first `k` words -/
theorem sum_popcount_take (ws : List Nat) (k : Nat) :
    ((ws.take k).map popcount).sum = cnt (getBit ws) (64 * k) := by
  induction k with
  | zero => simp
  | succ k ih =>
    rw [List.take_add_one, List.map_append, List.sum_append, ih,
      show 64 * (k + 1) = 64 * k + 64 by omega, cnt_add]
    congr 1
    have : cnt (fun j => getBit ws (64 * k + j)) 64 = cnt (ws.getD k 0).testBit 64 := by
      apply cnt_congr
      intro j hj
      exact getBit_mul_add ws k j hj
    rw [this, ← popcount_eq_cnt, List.getD_eq_getElem?_getD]
    cases ws[k]? with
    | none => simp [popcount_zero]
    | some w => simp

theorem sum_popcount (ws : List Nat) :
    (ws.map popcount).sum = cnt (getBit ws) (64 * ws.length) := by
  rw [← sum_popcount_take, List.take_length]

/-- rank split at a word boundary -/
theorem cnt_getBit_split (ws : List Nat) (i : Nat) :
    cnt (getBit ws) i
      = cnt (getBit ws) (64 * (i / 64)) + popcount (ws.getD (i / 64) 0 % 2 ^ (i % 64)) := by
  rw [popcount_mod_two_pow_cnt _ _ (by omega)]
  have e : i = 64 * (i / 64) + i % 64 := by omega
  conv => lhs; rw [e, cnt_add]
  congr 1
  apply cnt_congr
  intro j hj
  exact getBit_mul_add ws (i / 64) j (by omega)

theorem cnt_getBit_of_ge (ws : List Nat) {i : Nat} (h : 64 * ws.length ≤ i) :
    cnt (getBit ws) i = cnt (getBit ws) (64 * ws.length) :=
  cnt_eq_of_none h (fun _ hj _ => getBit_of_ge hj)

/-! ### `toArray` -/

theorem toArray_eq (ws : List Nat) : toArray ws = (List.range (64 * ws.length)).filter (getBit ws) := by
  unfold toArray
  rw [Nat.mul_comm]
  rfl

/-! ### `ofIdx` -/

/-- the loop body of `bitmap.Of` -/
abbrev setBitStep (a : Array Nat) (i : Nat) : Array Nat :=
  a.modify (i / 64) (· ||| (1 <<< (i % 64)))

theorem foldl_setBit_size (idxs : List Nat) (a : Array Nat) :
    (idxs.foldl setBitStep a).size = a.size := by
  induction idxs generalizing a with
  | nil => rfl
  | cons i idxs ih => rw [List.foldl_cons, ih]; simp [setBitStep]

theorem foldl_setBit_lt (idxs : List Nat) (a : Array Nat)
    (ha : ∀ (k : Nat) (w : Nat), a[k]? = some w → w < 2 ^ 64) :
    ∀ (k : Nat) (w : Nat), (idxs.foldl setBitStep a)[k]? = some w → w < 2 ^ 64 := by
  induction idxs generalizing a with
  | nil => exact ha
  | cons i idxs ih =>
    rw [List.foldl_cons]
    apply ih
    intro k w
    simp only [setBitStep, Array.getElem?_modify]
    split
    · next h =>
      cases hk : a[k]? with
      | none => simp
      | some v =>
        simp only [Option.map_some, Option.some.injEq]
        rintro rfl
        apply Nat.or_lt_two_pow (ha k v hk)
        rw [Nat.one_shiftLeft]
        exact Nat.pow_lt_pow_right (by omega) (by omega)
    · exact ha k w

theorem foldl_setBit_testBit (idxs : List Nat) (a : Array Nat) (k b : Nat) :
    ((idxs.foldl setBitStep a)[k]?.getD 0).testBit b
      = ((a[k]?.getD 0).testBit b
          || (decide (k < a.size) && idxs.any (fun i => decide (i / 64 = k ∧ i % 64 = b)))) := by
  induction idxs generalizing a with
  | nil => simp
  | cons i idxs ih =>
    rw [List.foldl_cons, ih]
    simp only [setBitStep, Array.getElem?_modify, Array.size_modify, List.any_cons]
    by_cases hk : k < a.size
    · by_cases hik : i / 64 = k
      · by_cases hb : i % 64 = b
        · simp [hik, hb, hk, Nat.one_shiftLeft]
        · simp [hik, hb, hk, Nat.one_shiftLeft]
      · simp [hik]
    · simp [hk]

/-- `last + 1` of `bitmap.Of` -/
def lastSucc (idxs : List Nat) : Nat := match idxs.getLast? with | some l => l + 1 | none => 0

theorem ofIdx_eq (idxs : List Nat) (capa : Nat) :
    ofIdx idxs capa
      = (idxs.foldl setBitStep (Array.replicate ((max capa (lastSucc idxs) + 63) / 64) 0)).toList :=
  rfl

theorem ofIdx_length' (idxs : List Nat) (capa : Nat) :
    (ofIdx idxs capa).length = (max capa (lastSucc idxs) + 63) / 64 := by
  rw [ofIdx_eq, Array.length_toList, foldl_setBit_size, Array.size_replicate]

/-- item 1, number of words -/
theorem ofIdx_length (idxs : List Nat) (capa : Nat) :
    (ofIdx idxs capa).length
      = (max capa (match idxs.getLast? with | some l => l + 1 | none => 0) + 63) / 64 :=
  ofIdx_length' idxs capa

/-- item 1, every word fits 64 bits -/
theorem ofIdx_lt (idxs : List Nat) (capa : Nat) : ∀ w ∈ ofIdx idxs capa, w < 2 ^ 64 := by
  intro w hw
  rw [ofIdx_eq] at hw
  obtain ⟨k, hk, rfl⟩ := List.mem_iff_getElem.mp hw
  apply foldl_setBit_lt idxs _ _ k
  · simp only [Array.length_toList] at hk
    rw [Array.getElem_toList]
    exact Array.getElem?_eq_getElem hk
  · intro k w h
    rw [Array.getElem?_replicate] at h
    split at h
    · cases h; exact Nat.two_pow_pos 64
    · cases h

/-- item 1, the bits: inside the bitmap, bit `i` is set iff `i` is one of the indexes
    (no ordering hypothesis is needed for this part) -/
theorem getBit_ofIdx (idxs : List Nat) (capa i : Nat) (hi : i < 64 * (ofIdx idxs capa).length) :
    getBit (ofIdx idxs capa) i = decide (i ∈ idxs) := by
  rw [ofIdx_length'] at hi
  unfold getBit
  rw [ofIdx_eq, List.getD_eq_getElem?_getD, Array.getElem?_toList, foldl_setBit_testBit]
  have hk : i / 64 < (max capa (lastSucc idxs) + 63) / 64 := by omega
  simp only [Array.getElem?_replicate, hk, if_true, Option.getD_some, Nat.zero_testBit,
    Bool.false_or, Array.size_replicate, decide_true, Bool.true_and]
  rw [Bool.eq_iff_iff]
  simp only [List.any_eq_true, decide_eq_true_eq]
  constructor
  · rintro ⟨x, hx, h1, h2⟩
    have : x = i := by omega
    exact this ▸ hx
  · intro h; exact ⟨i, h, rfl, rfl⟩

/-- ascending indexes are all inside the bitmap -/
theorem ofIdx_mem_lt {idxs : List Nat} (h : AscLe idxs) (capa : Nat) :
    ∀ i ∈ idxs, i < 64 * (ofIdx idxs capa).length := by
  intro i hi
  rw [ofIdx_length']
  unfold lastSucc
  cases hl : idxs.getLast? with
  | none => simp at hl; subst hl; simp at hi
  | some l =>
    simp only
    have hle : i ≤ l := by
      obtain ⟨ys, rfl⟩ : ∃ ys, idxs = ys ++ [l] := by
        rw [List.getLast?_eq_some_iff] at hl; exact hl
      rw [List.mem_append] at hi
      rcases hi with hi | hi
      · exact (List.pairwise_append.mp h).2.2 i hi l (by simp)
      · simp at hi; omega
    omega

/-- item 1 as one statement (`AscLe` is not needed) -/
theorem testBit_ofIdx (idxs : List Nat) (capa : Nat) :
    let ws := ofIdx idxs capa
    ws.length = (max capa (match idxs.getLast? with | some l => l + 1 | none => 0) + 63) / 64
    ∧ (∀ w ∈ ws, w < 2 ^ 64)
    ∧ ∀ i, i < 64 * ws.length → (ws.getD (i / 64) 0).testBit (i % 64) = decide (i ∈ idxs) :=
  ⟨ofIdx_length idxs capa, ofIdx_lt idxs capa, fun i hi => getBit_ofIdx idxs capa i hi⟩

/-- `getBit` of `ofIdx` for every position (also beyond the end), given ascending indexes -/
theorem getBit_ofIdx_asc {idxs : List Nat} (h : AscLe idxs) (capa i : Nat) :
    getBit (ofIdx idxs capa) i = decide (i ∈ idxs) := by
  rcases Nat.lt_or_ge i (64 * (ofIdx idxs capa).length) with hi | hi
  · exact getBit_ofIdx idxs capa i hi
  · rw [getBit_of_ge hi]
    have : i ∉ idxs := fun hm => by have := ofIdx_mem_lt h capa i hm; omega
    simp [this]

end Bits
