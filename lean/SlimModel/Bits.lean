import SlimModel.SlimMsg
/-
  SlimModel.Bits — bitmaps as 64-bit words with rank/select indexes: the subset of
  github.com/openacid/low/bitmap that slim uses (`Of`, `OfMany`, `IndexRank64`, `IndexRank128`,
  `IndexSelect32R64`, `Rank64`, `Rank128`, `Select32R64`, `ToArray`), plus the specification
  functions they are meant to compute (`specRank`, `specBit`, `specSelect` over the bit list).

  Words are `Nat` (< 2^64).  An out-of-range word or index access is a Go panic: `Err.panic`.
-/

namespace Bits

/-- number of set bits among the low 64 bits (`bits.OnesCount64`) -/
def popcount (w : Nat) : Nat := ((List.range 64).filter (fun i => w.testBit i)).length

/-- `bitmap.Of(positions, capa)`: positions are ascending; capacity is at least `capa` bits,
    rounded up to whole words. -/
def ofIdx (idxs : List Nat) (capa : Nat) : List Nat :=
  let n := max capa (match idxs.getLast? with | some l => l + 1 | none => 0)
  let nWords := (n + 63) / 64
  let arr := idxs.foldl (fun (a : Array Nat) i => a.modify (i / 64) (· ||| (1 <<< (i % 64))))
    (Array.replicate nWords 0)
  arr.toList

/-- `bitmap.OfMany(subs, sizes)`: concatenation of sub-bitmaps of the given sizes -/
def ofMany (subs : List (List Nat)) (sizes : List Nat) : List Nat :=
  let rec go : List (List Nat) → List Nat → Nat → List Nat → List Nat × Nat
    | s :: ss, z :: zs, base, acc => go ss zs (base + z) (acc ++ s.map (base + ·))
    | _, _, base, acc => (acc, base)
  let (r, base) := go subs sizes 0 []
  ofIdx r base

/-- `bitmap.IndexRank64(words, trailing)` -/
def indexRank64 (words : List Nat) (trailing : Bool) : List Nat :=
  let rec go : List Nat → Nat → List Nat
    | [], n => if trailing then [n] else []
    | w :: ws, n => n :: go ws (n + popcount w)
  go words 0

/-- `bitmap.IndexRank128(words)` -/
def indexRank128 (words : List Nat) : List Nat :=
  let rec go : List Nat → Nat → List Nat
    | [], n => [n]                       -- even number of words: trailing total
    | [_], n => [n]                      -- odd: the last entry covers the single last word
    | w1 :: w2 :: ws, n => n :: go ws (n + popcount w1 + popcount w2)
  go words 0

/-- `bitmap.ToArray(words)`: positions of the set bits -/
def toArray (words : List Nat) : List Nat :=
  (List.range (words.length * 64)).filter (fun i => (words.getD (i / 64) 0).testBit (i % 64))

/-- select index part of `IndexSelect32R64`: position of every 32nd set bit -/
def indexSelect32 (words : List Nat) : List Nat :=
  let ones := toArray words
  (List.range ((ones.length + 31) / 32)).map (fun k => ones.getD (k * 32) 0)

def mk (words : List Nat) (opt : String) : BitmapMsg :=
  match opt with
  | "r64" => { words := words, rankIndex := indexRank64 words false }
  | "r128" => { words := words, rankIndex := indexRank128 words }
  | "s32" => { words := words, rankIndex := indexRank64 words true, selectIndex := indexSelect32 words }
  | _ => { words := words }

/-- `newBM(indexes, capa, opt)` -/
def newBM (idxs : List Nat) (capa : Nat) (opt : String) : BitmapMsg := mk (ofIdx idxs capa) opt

/-- `bitmap.Rank64`: (ones below i, bit i) -/
def rank64 (b : BitmapMsg) (i : Nat) : Except Err (Nat × Bool) :=
  match b.words[i / 64]?, b.rankIndex[i / 64]? with
  | some w, some n => .ok (n + popcount (w % 2 ^ (i % 64)), w.testBit (i % 64))
  | _, _ => .error (.panic "index out of range (Rank64)")

/-- `bitmap.Rank128` -/
def rank128 (b : BitmapMsg) (i : Nat) : Except Err (Nat × Bool) :=
  match b.words[i / 64]?, b.rankIndex[(i + 64) / 128]? with
  | some w, some n =>
    let atRight := (i / 64) % 2
    -- n counts up to the pair boundary nearest to word i: for a right word it includes the word
    .ok (n - atRight * popcount w + popcount (w % 2 ^ (i % 64)), w.testBit (i % 64))
  | _, _ => .error (.panic "index out of range (Rank128)")

/-- position of the `k`-th (0-based) set bit of `w` at or above bit `from`, if any -/
def selectInWord (w : Nat) (k : Nat) : Option Nat :=
  ((List.range 64).filter (fun i => w.testBit i))[k]?

/-- first set bit position ≥ `pos` in `words`, else `words.length * 64` -/
def nextOne (words : List Nat) (pos : Nat) : Nat :=
  let total := words.length * 64
  match (List.range' pos (total - pos)).find? (fun i => (words.getD (i / 64) 0).testBit (i % 64)) with
  | some i => i
  | none => total

/-- `bitmap.Select32R64(words, sidx, ridx, i)`: (position of the i-th one, position of the next one
    or `len*64`).  The word is found by walking the rank index from the word the select index
    names; running off either index is a Go panic. -/
def select32R64 (b : BitmapMsg) (i : Nat) : Except Err (Nat × Nat) := do
  let some s0 := b.selectIndex[i / 32]? | .error (.panic "index out of range (selectIndex)")
  let rec walk : Nat → Nat → Except Err Nat
    | 0, _ => .error (.panic "index out of range (rankIndex)")
    | fuel + 1, wordI =>
      match b.rankIndex[wordI + 1]? with
      | none => .error (.panic "index out of range (rankIndex)")
      | some r => if r ≤ i then walk fuel (wordI + 1) else .ok wordI
  let wordI ← walk (b.rankIndex.length + 1) (s0 / 64)
  let some w := b.words[wordI]? | .error (.panic "index out of range (words)")
  let some base := b.rankIndex[wordI]? | .error (.panic "index out of range (rankIndex)")
  let some off := selectInWord w (i - base) | .error (.panic "select: not enough bits in word")
  let a := wordI * 64 + off
  return (a, nextOne b.words (a + 1))

/-! ### specification functions over the bit list -/

def bitsOf (words : List Nat) : List Bool :=
  words.flatMap (fun w => (List.range 64).map (fun i => w.testBit i))

def specRank (bits : List Bool) (i : Nat) : Nat := (bits.take i).count true
def specBit (bits : List Bool) (i : Nat) : Bool := bits.getD i false

end Bits
