import SlimModel.Stat
import SlimModel.Scan
import SlimModel.Legacy
/-
  Driver.Trie — family `trie`: the model side of harness/fam/trie/interp.go.

  The instance state mirrors `SlimTrie`: the `Slim` message (`inner`).  When the instance was built
  by `trie.new` the L1 record array is kept as well and every lookup is answered through both
  views; a difference between the layers is answered `LAYER-MISMATCH …` (the checked L1↔L2 tie).
-/
namespace Driver.Trie

structure State where
  t1 : Option Trie1 := none
  msg : SlimMsg := {}
  has : Bool := false          -- an instance exists
  enc : String := "none"
  /-- `st.levels`: replaced only by a successful build / load / Reset -/
  levels : List Slim.Level := [(0, 0, 0)]
  /-- further instances kept alive by `trie.stash` (values: they cannot interfere) -/
  slots : List (String × Option Trie1 × SlimMsg × Bool × String × List Slim.Level) := []

/-- FNV-1a 64 over bytes (each `Char` of our renderings is one byte) -/
def fnv64 (bs : List Nat) : String :=
  let h := bs.foldl (fun (h : UInt64) b => (h ^^^ UInt64.ofNat b) * 1099511628211) 14695981039346656037
  let hex := (List.range 16).map (fun k => hexDigit ((h.toNat >>> (4 * (15 - k))) % 16))
  String.ofList hex

def strBytes (s : String) : List Nat := s.toList.map (fun c => c.toNat % 256)

/-- Go's `%v` of the decoded value of a leaf, per encoder name -/
def fmtVal (enc : String) : Option Bytes → String
  | none => "<nil>"
  | some b =>
    match enc with
    | "i8" | "i16" | "i32" | "i64" | "int" => toString (Slim.leSigned b)
    | "u16" | "u32" | "u64" | "nu32" => toString (leVal b)
    | "s16" => String.ofList ((b.drop 2).map (fun c => Char.ofNat c.toNat))
    | "te7" => "{" ++ toString (Slim.leSigned (b.take 4)) ++ " " ++ toString (leVal ((b.drop 4).take 2)) ++ " " ++
        toString (leVal ((b.drop 6).take 1)) ++ "}"
    | _ => "[" ++ " ".intercalate (b.map (fun c => toString c.toNat)) ++ "]"

def kvStr (k v : Option Bytes) : String :=
  (match k with | some k => hexOf k | none => "nil") ++ "=" ++ (match v with | some v => hexOf v | none => "nil")

def compact (s : String) : String :=
  if s.length ≤ 2000 then "l:" ++ s else "h:" ++ toString s.length ++ ":" ++ fnv64 (strBytes s)

def itemsStr (items : List (Option Bytes × Option Bytes)) : String :=
  compact (String.join (items.map (fun (k, v) => kvStr k v ++ ";")))

def statStr (r : Slim.StatRes) : String :=
  "levelcnt=" ++ toString r.levels.length ++ " levels=" ++
  ",".intercalate (r.levels.map (fun (t, i, l) => toString t ++ "/" ++ toString i ++ "/" ++ toString l)) ++
  " keys=" ++ toString r.keyCnt ++ " nodes=" ++ toString r.nodeCnt

def b01 (t : String) : Bool := t == "1"

/-- `st.encoder.GetEncodedSize(nil)` per encoder name: `none` = the call panics -/
def encSizeOf (enc : String) : Option Nat :=
  match enc with
  | "i8" => some 1
  | "i16" | "u16" => some 2
  | "i32" | "u32" | "nu32" => some 4
  | "i64" | "u64" | "int" => some 8
  | "te7" => some 7
  | "f64" => some 8
  | _ => if enc.startsWith "bytes" then (enc.drop 5).toNat? else none

def init : State := {}

def parseFlag (c : Char) : Option Bool :=
  if c == 't' then some true else if c == 'f' then some false else none

def parseOpt (flags : String) : Opt :=
  match flags.toList with
  | [a, b, c, d] => Opt.normalize (parseFlag a) (parseFlag b) (parseFlag c) (parseFlag d)
  | _ => Opt.normalize none none none none

def errStr (e : Err) : String :=
  match e with
  | .panic _ => "panic"
  | .fuel => "MODEL-FUEL"
  | .badProto _ => "err:other"
  | .other _ => "err:other"
  | e => "err:" ++ e.kind

def valStr : Option Bytes → String
  | none => "nil"
  | some b => hexOf b

def getStr : Except Err (Option (Option Bytes)) → String
  | .error e => errStr e
  | .ok none => "nf"
  | .ok (some v) => "f " ++ valStr v

def idStr : Except Err (Option Nat) → String
  | .error e => errStr e
  | .ok none => "-1"
  | .ok (some n) => toString n

def flat : Option (Option Bytes) → Option Bytes
  | some (some b) => some b
  | _ => none

def searchStr : Except Err (Option (Option Bytes) × Option (Option Bytes) × Option (Option Bytes)) → String
  | .error e => errStr e
  | .ok (l, e, r) => valStr (flat l) ++ " " ++ valStr (flat e) ++ " " ++ valStr (flat r)

def intStr : Except Err (Option Int) → String
  | .error e => errStr e
  | .ok none => "nf 0"
  | .ok (some n) => "f " ++ toString n

/-- answer through L2, cross-checked against L1 when available -/
def both (st : State) (f : View → String) : String :=
  let a2 := f (Slim.view st.msg)
  match st.t1 with
  | none => a2
  | some t =>
    let a1 := f t.view
    if a1 == a2 then a2 else "LAYER-MISMATCH l1=[" ++ a1 ++ "] l2=[" ++ a2 ++ "]"

def parseKVs (withVals : Bool) : List String → Option (List Bytes × List Bytes)
  | [] => some ([], [])
  | k :: rest =>
    if withVals then
      match rest with
      | v :: rest' => do
        let kb ← parseHex k
        let vb ← parseHex v
        let (ks, vs) ← parseKVs withVals rest'
        pure (kb :: ks, vb :: vs)
      | [] => none
    else do
      let kb ← parseHex k
      let (ks, vs) ← parseKVs withVals rest
      pure (kb :: ks, vs)

/-- The model stores values, never references: overwriting a caller buffer after the call
    (the `-scribble` ops of property C20) cannot change anything, so these ops are the plain ones. -/
def unscribble : List String → List String
  | ["trie.unmarshal-scribble", hex, _] => ["trie.unmarshal", hex]
  | ["trie.marshal-scribble", _] => ["trie.marshal"]
  | ["trie.marshal-twice"] => ["trie.marshal"]
  | ["trie.marshal-hold"] => ["trie.marshal"]
  -- building again from the caller's (edited) key slice is building from those keys
  | "trie.renew" :: rest => "trie.new" :: rest
  | toks => toks

def stepCore (st : State) (toks : List String) : State × String :=
  match toks with
  | "trie.new" :: flags :: enc :: rest =>
    let withVals := enc != "none"
    match parseKVs withVals rest with
    | none => (st, "bad-op")
    | some (keys, vals) =>
      match build keys (if withVals then some vals else none) (if flags == "-" then {} else parseOpt flags) with
      | .error e => ({ st with has := false, t1 := none, msg := {} }, errStr e)
      | .ok t =>
        let msg := Slim.encode t
        match Slim.initLevels msg with
        | .ok lv => ({ st with has := true, t1 := some t, msg := msg, enc := enc, levels := lv }, "ok")
        | .error e => ({ st with has := true, t1 := some t, msg := msg, enc := enc }, errStr e)
  | ["trie.get", q] =>
    match parseHex q with
    | some q => (st, both st (fun v => getStr (get v q)))
    | none => (st, "bad-op")
  | ["trie.id", q] =>
    match parseHex q with
    | some q => (st, both st (fun v => idStr (getID v q)))
    | none => (st, "bad-op")
  | ["trie.rget", q] =>
    match parseHex q with
    | some q => (st, both st (fun v => getStr (rangeGet v q)))
    | none => (st, "bad-op")
  | ["trie.search", q] =>
    match parseHex q with
    | some q => (st, both st (fun v => searchStr (search v q)))
    | none => (st, "bad-op")
  | ["trie.reload"] =>
    -- Marshal, then Unmarshal into a fresh instance that only knows the encoder
    if !st.has then (st, "panic") else
    let buf := marshalSlim st.msg
    let (inst, err) := Legacy.Instance.unmarshal {} (encSizeOf st.enc) buf
    (match err with
     | none => ({ st with t1 := none, msg := inst.inner, levels := inst.levels }, "ok")
     | some e => ({ st with t1 := none, msg := inst.inner }, errStr e))
  | ["trie.fresh", enc] =>
    ({ st with has := true, t1 := none, msg := {}, enc := enc, levels := [(0, 0, 0)] }, "ok")
  | ["trie.unmarshal", hex] =>
    match parseHex hex with
    | none => (st, "bad-op")
    | some buf =>
      if !st.has then (st, "panic") else
      let (inst, err) := Legacy.Instance.unmarshal { inner := st.msg, levels := st.levels } (encSizeOf st.enc) buf
      (match err with
       | none => ({ st with t1 := none, msg := inst.inner, levels := inst.levels }, "ok")
       | some e => ({ st with t1 := none, msg := inst.inner, levels := inst.levels }, errStr e))
  | ["trie.stash", n] =>
    ({ st with slots := (n, st.t1, st.msg, st.has, st.enc, st.levels) :: st.slots.filter (·.1 != n) }, "ok")
  | ["trie.unstash", n] =>
    (match st.slots.find? (·.1 == n) with
     | some (_, t1, msg, has, enc, levels) => ({ st with t1 := t1, msg := msg, has := has, enc := enc, levels := levels }, "ok")
     | none => (st, "no-slot"))
  | ["trie.reset"] =>
    if !st.has then (st, "panic") else
    ({ st with t1 := none, msg := {}, levels := [(0, 0, 0)] }, "ok")
  | ["trie.marshal"] =>
    if !st.has then (st, "panic") else
    let buf := marshalSlim st.msg
    (st, "ok " ++ toString buf.length ++ " " ++ fnv64 (buf.map UInt8.toNat))
  | ["trie.stat"] =>
    (st, match Slim.stat st.msg st.levels with | .ok r => statStr r | .error e => errStr e)
  | ["trie.string"] =>
    if st.enc == "f64" && st.has then (st, "float-values-not-rendered") else
    (st, both st (fun v => match Slim.toStringSlim v (fmtVal st.enc) with
      | .ok s => toString s.length ++ " " ++ fnv64 (strBytes s)
      | .error e => errStr e))
  | ["trie.iter", start, incl, withval, n] =>
    match parseHex start, n.toNat? with
    | some start, some n =>
      (st, both st (fun v =>
        match (do let s ← Scan.newIterFrom v start (b01 incl); Scan.iterTake v (b01 withval) n s) with
        | .ok items => itemsStr items
        | .error e => errStr e))
    | _, _ => (st, "bad-op")
  | ["trie.scan", start, incl, withval, stop] =>
    match parseHex start, stop.toInt? with
    | some start, some stop =>
      let stopAfter := if stop < 0 then none else some stop.toNat
      (st, both st (fun v =>
        match Scan.scanFrom v start (b01 incl) (b01 withval) (fun _ => true) stopAfter with
        | .ok items => itemsStr (items.map (fun (k, v) => (some k, v)))
        | .error e => errStr e))
    | _, _ => (st, "bad-op")
  | ["trie.scanft", start, incl, stop_, inclEnd, withval, stop] =>
    match parseHex start, parseHex stop_, stop.toInt? with
    | some start, some stopKey, some stop =>
      let stopAfter := if stop < 0 then none else some stop.toNat
      (st, both st (fun v =>
        match Scan.scanFromTo v start (b01 incl) stopKey (b01 inclEnd) (b01 withval) stopAfter with
        | .ok items => itemsStr (items.map (fun (k, v) => (some k, v)))
        | .error e => errStr e))
    | _, _, _ => (st, "bad-op")
  | ["trie.geti8", q] => gi st 1 q
  | ["trie.geti16", q] => gi st 2 q
  | ["trie.geti32", q] => gi st 4 q
  | ["trie.geti64", q] => gi st 8 q
  | _ => (st, "bad-op")
where
  gi (st : State) (w : Nat) (q : String) : State × String :=
    match parseHex q with
    | some q => (st, intStr (Slim.getInt st.msg w q))
    | none => (st, "bad-op")

def step (st : State) (toks : List String) : State × String :=
  match toks with
  | "trie.new-checked" :: rest =>
    -- building takes its inputs by value: they are unchanged by construction
    let (s, a) := stepCore st ("trie.new" :: rest)
    (s, a ++ " inputs-unchanged")
  -- a value returned by Marshal is a value: nothing done later can change it
  | ["trie.marshal-held-check"] => (st, "held-unchanged")
  -- a report returned by Stat is a value: editing it changes nothing
  | ["trie.stat-scribble"] => (st, "ok")
  | _ => stepCore st (unscribble toks)

end Driver.Trie
