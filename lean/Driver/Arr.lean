import SlimModel.Basic
import SlimModel.Encode
import SlimModel.ArrayPkg
import Driver.Enc
/-
  Driver.Arr — line-protocol family `arr` (property C16): runs the model of package `array`.

  The state is one "current array" (a Go pointer: `nil` after a failed constructor) and its Go type.

  Tokens: `<T>` ∈ u16 u32 u64 i16 i32 i64 (the typed arrays); `<type>` a TypeEncoder type term as in
  Driver.Enc (`nofix` = a slice of Go `int`, which `encoding/binary` cannot size); `<idx>` / `<ints>`
  comma separated decimals, `-` for the empty list; `<elts>` for generic arrays: elements separated
  by `;`, each element written as a `<value>` of Driver.Enc (`_` = element without leaves), `-` = no elements.

  Ops
      arr.new <T> <idx> <ints>         NewU16 … NewI64           → ok | err:<kind> | panic
      arr.gnew <type> <idx> <elts>     array.New                 → ok | err:<kind> | panic
      arr.ginit <spec> <idx> <elts>    a := &Array{}; a.EltEncoder = <spec>; a.Init(…); current := a
                                                                 → ok | err:<kind> | panic
      arr.reinit <T> <idx> <ints>      current.Init(idx, []T{…})      (Go method dispatch: `(*Array).Init` when the
      arr.reinit g:<type> <idx> <elts> current.Init(idx, []type{…})    current array is generic, the promoted
                                       `(*Base).Init` when it is typed)  → ok | err:<kind> | panic
      arr.get <i>                      typed or generic Get      → `<0|1> <value>` | panic
      arr.getbytes <i> <eltsize>       Base.GetBytes             → `0 -` | `1 x<hex>` | panic
      arr.dump                         the message fields        → cnt=… bm=… off=… elts=… flags=… ew=… bmelts=… enc=<0|1> | nil
      arr.rt <T> | arr.rt g:<type>     proto.Marshal(current), proto.Unmarshal into a fresh typed array /
                                       NewEmpty(<type>); current := the new array → ok | nil (no current array)
  err kinds: not-ascending, index-len, not-fixed-size.
-/
namespace Driver.Arr
open Encode ArrayPkg Driver.Enc

inductive Kind where
  | typed (signed : Bool) (w : Nat)
  | generic
  deriving Inhabited

structure State where
  cur : Option Base := none
  kind : Kind := .generic
  deriving Inhabited

def init : State := {}

def parseT : String → Option (Bool × Nat)
  | "u16" => some (false, 2) | "u32" => some (false, 4) | "u64" => some (false, 8)
  | "i16" => some (true, 2) | "i32" => some (true, 4) | "i64" => some (true, 8)
  | _ => none

def errKind : ArrErr → String
  | .indexNotAscending => "err:not-ascending"
  | .indexLen => "err:index-len"
  | .notFixedSize => "err:not-fixed-size"

def showErr : Option ArrErr → String
  | none => "ok"
  | some e => errKind e

/-- `<type>` or `nofix`. -/
def parseETy (s : String) : Option (Option Ty) :=
  if s = "nofix" then some none else (parseTyStr s).map some

def parseElts (f : String → Option Val) (s : String) : Option (List Val) :=
  if s = "-" then some [] else (s.splitOn ";").mapM f

def eltOfTy (t : Option Ty) (s : String) : Option Val :=
  match t with
  | none => (parseInt s).map Val.int
  | some t => parseVal (.typ .le t) (if s = "_" then "-" else s)

def showWords (l : List Nat) : String :=
  if l.isEmpty then "-" else ",".intercalate (l.map toString)

def showBits : Option BitsMsg → String
  | none => "nil"
  | some b => s!"[{b.flags}/{b.n}/{showWords b.words}/{showInts b.rankIndex}]"

def dump (a : Base) : String :=
  s!"cnt={a.cnt} bm={showWords a.bitmaps} off={showInts a.offsets} elts={hexOf a.elts} flags={a.flags} ew={a.eltWidth} bmelts={showBits a.bmElts} enc={if a.eltEncoder.isSome then 1 else 0}"

def step (st : State) (toks : List String) : State × String :=
  match toks with
  | ["arr.new", t, idx, elts] =>
    match parseT t, parseInts idx, parseInts elts with
    | some (s, w), some idx, some elts =>
      match newTyped (.prim s w) idx elts with
      | .error e => (st, e.kind)
      | .ok (a, e) => ({ cur := a, kind := .typed s w }, showErr e)
    | _, _, _ => (st, "bad-op")
  | ["arr.gnew", ty, idx, elts] =>
    match parseETy ty, parseInts idx with
    | some ety, some idx =>
      match parseElts (eltOfTy ety) elts with
      | none => (st, "bad-op")
      | some elts =>
        match ArrayPkg.new ety idx elts with
        | .error e => (st, e.kind)
        | .ok (a, e) => ({ cur := a, kind := .generic }, showErr e)
    | _, _ => (st, "bad-op")
  | ["arr.ginit", spec, idx, elts] =>
    match parseSpec spec, parseInts idx with
    | some enc, some idx =>
      match parseElts (parseVal enc) elts with
      | none => (st, "bad-op")
      | some elts =>
        -- the Go element type is only consulted when EltEncoder is nil, which it is not here
        match Array.init { eltEncoder := some enc } none idx elts with
        | .error e => (st, e.kind)
        | .ok (a, e) => ({ cur := some a, kind := .generic }, showErr e)
    | _, _ => (st, "bad-op")
  | ["arr.reinit", t, idx, elts] =>
    match st.cur, parseInts idx with
    | some a, some idx =>
      let parsed : Option (Option Ty × List Val) :=
        if t.startsWith "g:" then
          match parseETy (t.drop 2).toString with
          | none => none
          | some ety => (parseElts (eltOfTy ety) elts).map (fun es => (ety, es))
        else
          match parseT t, parseInts elts with
          | some (s, w), some es => some (some (.prim s w), es.map Val.int)
          | _, _ => none
      match parsed with
      | none => (st, "bad-op")
      | some (ety, es) =>
        -- Go method dispatch: `(*Array).Init` on a generic array, the promoted `(*Base).Init` on a typed one
        let r := match st.kind with
          | .generic => Array.init a ety idx es
          | .typed _ _ => Base.init a ety idx es
        match r with
        | .error e => (st, e.kind)
        | .ok (a', e) => ({ st with cur := some a' }, showErr e)
    | none, some _ => (st, "panic")
    | _, none => (st, "bad-op")
  | ["arr.get", i] =>
    match parseInt i with
    | none => (st, "bad-op")
    | some i =>
      match st.cur with
      | none => (st, "panic")
      | some a =>
        match st.kind with
        | .typed false w =>
          (st, match a.getU w i with
            | .ok (v, f) => s!"{if f then 1 else 0} {v}"
            | .error e => e.kind)
        | .typed true w =>
          (st, match a.getS w i with
            | .ok (v, f) => s!"{if f then 1 else 0} {v}"
            | .error e => e.kind)
        | .generic =>
          (st, match a.get i with
            | .ok none => "0 nil"
            | .ok (some v) => s!"1 {showVal v}"
            | .error e => e.kind)
  | ["arr.getbytes", i, sz] =>
    match parseInt i, sz.toNat? with
    | some i, some sz =>
      match st.cur with
      | none => (st, "panic")
      | some a =>
        (st, match a.getBytes i sz with
          | .ok none => "0 -"
          | .ok (some b) => s!"1 {hexOf b}"
          | .error e => e.kind)
    | _, _ => (st, "bad-op")
  | ["arr.dump"] =>
    match st.cur with
    | none => (st, "nil")
    | some a => (st, dump a)
  | ["arr.rt", t] =>
    match st.cur with
    | none => (st, "nil")
    | some a =>
      let m := a.marshal
      if t.startsWith "g:" then
        match parseTyStr (t.drop 2).toString with
        | none => (st, "bad-op")
        | some ty => ({ cur := some ((newEmpty ty).unmarshal m), kind := .generic }, "ok")
      else
        match parseT t with
        | none => (st, "bad-op")
        | some (s, w) => ({ cur := some (({} : Base).unmarshal m), kind := .typed s w }, "ok")
  | _ => (st, "bad-op")

end Driver.Arr
