import SlimProofs.LegacySelect
import SlimProofs.LegacyLeaf
/-
  SlimProofs.LegacyRoundTrip — the inner prefixes of a 0.5.10 / 0.5.11 stream, written by the
  reconstructed writer from today's message and converted back by the loader, are today's inner
  prefixes again (only the select table of the position bitmap keeps the old word-index entries,
  which `select32R64` tolerates: `select32R64_anySelect`).

    * `onesFrom_eq_toArray`       the writer's linear-time list of set positions is `Bits.toArray`
    * `slices_flatten`            cutting the byte array at the positions gives the elements back
    * `oldInnerPrefixes_bytes`    the writer's byte array = concatenation of the `ctrlEnc` forms
    * `innerPrefixes_roundtrip`   `innerPrefixTobitstr ∘ oldInnerPrefixes` = identity up to the
                                  select table, for the array `Slim.encodeCreator` builds from
                                  stored prefixes (`bitstrOf` of half-byte lists)
-/
open Bits

namespace Legacy
open LegacyWrite

/-! ### set positions -/

theorem onesFrom_mem (ws : List Nat) (i x : Nat) :
    x ∈ onesFrom ws i ↔ i * 64 ≤ x ∧ x < (i + ws.length) * 64 ∧ getBit ws (x - i * 64) = true := by
  induction ws generalizing i with
  | nil =>
    simp only [onesFrom, List.not_mem_nil, List.length_nil, Nat.add_zero, false_iff, not_and]
    intro h1 h2; omega
  | cons w ws ih =>
    simp only [onesFrom, List.mem_append, List.mem_map, List.mem_filter, List.mem_range, ih,
      List.length_cons]
    constructor
    · rintro (⟨k, ⟨hk, hb⟩, rfl⟩ | ⟨h1, h2, h3⟩)
      · refine ⟨by omega, by omega, ?_⟩
        rw [Nat.add_sub_cancel_left, getBit_cons, if_pos hk]
        exact hb
      · refine ⟨by omega, by omega, ?_⟩
        rw [getBit_cons, if_neg (by omega)]
        rw [show x - i * 64 - 64 = x - (i + 1) * 64 by omega]
        exact h3
    · rintro ⟨h1, h2, h3⟩
      rw [getBit_cons] at h3
      by_cases hk : x - i * 64 < 64
      · left
        rw [if_pos hk] at h3
        exact ⟨x - i * 64, ⟨hk, h3⟩, by omega⟩
      · right
        rw [if_neg hk] at h3
        refine ⟨by omega, by omega, ?_⟩
        rw [show x - (i + 1) * 64 = x - i * 64 - 64 by omega]
        exact h3

theorem onesFrom_asc (ws : List Nat) (i : Nat) : Asc (onesFrom ws i) := by
  induction ws generalizing i with
  | nil => simp [onesFrom]
  | cons w ws ih =>
    simp only [onesFrom]
    rw [Asc, List.pairwise_append]
    refine ⟨?_, ih (i + 1), ?_⟩
    · rw [List.pairwise_map]
      apply List.Pairwise.imp _ (asc_filter_range (fun k => w.testBit k) 64)
      intro a b hab; omega
    · intro a ha b hb
      simp only [List.mem_map, List.mem_filter, List.mem_range] at ha
      obtain ⟨k, ⟨hk, _⟩, rfl⟩ := ha
      have := ((onesFrom_mem ws (i + 1) b).mp hb).1
      omega

theorem onesFrom_eq_toArray (ws : List Nat) : onesFrom ws 0 = toArray ws := by
  apply Asc.ext (onesFrom_asc ws 0) (toArray_asc ws)
  intro x
  rw [onesFrom_mem, toArray_eq, List.mem_filter, List.mem_range]
  simp only [Nat.zero_mul, Nat.zero_le, true_and, Nat.zero_add, Nat.sub_zero]
  constructor
  · rintro ⟨h1, h2⟩; exact ⟨by omega, h2⟩
  · rintro ⟨h1, h2⟩; exact ⟨by omega, h2⟩

/-! ### cutting at the positions -/

theorem cutAt_go (es : List Bytes) (p : Nat) :
    cutAt es.flatten p ((Slim.stepToPos.go (es.map List.length) p).drop 1) = es := by
  induction es generalizing p with
  | nil => simp [Slim.stepToPos.go, cutAt]
  | cons e es ih =>
    simp only [List.map_cons, Slim.stepToPos.go, List.drop_succ_cons, List.drop_zero,
      List.flatten_cons]
    have hgo : Slim.stepToPos.go (es.map List.length) (p + e.length)
        = (p + e.length) :: (Slim.stepToPos.go (es.map List.length) (p + e.length)).drop 1 := by
      cases es with
      | nil => simp [Slim.stepToPos.go]
      | cons a t => simp [Slim.stepToPos.go]
    rw [hgo, cutAt, Nat.add_sub_cancel_left, List.take_left, List.drop_left, ih]

theorem slices_flatten (es : List Bytes) :
    slices es.flatten (Slim.stepToPos (es.map List.length)) = es := by
  unfold Slim.stepToPos
  have hgo : Slim.stepToPos.go (es.map List.length) 0
      = 0 :: (Slim.stepToPos.go (es.map List.length) 0).drop 1 := by
    cases es with
    | nil => simp [Slim.stepToPos.go]
    | cons a t => simp [Slim.stepToPos.go]
  rw [hgo, slices, List.drop_zero, cutAt_go]

/-! ### the writer's inner prefixes -/

theorem bitstrOf_length_pos (ns : List Nat) : 0 < (Slim.bitstrOf ns).length := by
  simp [Slim.bitstrOf]

/-- the array `Slim.encodeCreator` builds from the stored prefixes `nss` (half-byte lists) -/
def IsBuilt (ips : VLenArrayMsg) (nss : List (List Nat)) : Prop :=
  ips.bytes = (nss.map Slim.bitstrOf).flatten ∧
  ips.positionBM = some (newBM (Slim.stepToPos ((nss.map Slim.bitstrOf).map List.length)) 0 "s32")

theorem sizes_eq (nss : List (List Nat)) :
    (nss.map Slim.bitstrOf).map List.length = (nss.map ofNibs).map sz := by
  rw [List.map_map, List.map_map]
  apply List.map_congr_left
  intro ns _
  simp only [Function.comp]
  rw [bitstrOf_eq_bitstrEnc, BitPrefix.bitstrEnc_length]
  rfl

/-- what the 0.5.10 writer stores for it: the control-byte forms, same positions, word-index select -/
theorem oldInnerPrefixes_built (ips : VLenArrayMsg) (nss : List (List Nat)) (h : IsBuilt ips nss)
    (hlt : ∀ ns ∈ nss, ∀ n ∈ ns, n < 16) :
    oldInnerPrefixes ips =
      { ips with bytes := ((nss.map ofNibs).map BitPrefix.ctrlEnc).flatten
                 positionBM := some (wordIndexSelect
                   (newBM (Slim.stepToPos ((nss.map ofNibs).map sz)) 0 "s32")) } := by
  obtain ⟨hb, hp⟩ := h
  unfold oldInnerPrefixes
  rw [hp]
  simp only
  have hpos : ∀ s ∈ (nss.map Slim.bitstrOf).map List.length, 0 < s := by
    intro s hs
    obtain ⟨e, he, rfl⟩ := List.mem_map.mp hs
    obtain ⟨ns, _, rfl⟩ := List.mem_map.mp he
    exact bitstrOf_length_pos ns
  have hwords : (newBM (Slim.stepToPos ((nss.map Slim.bitstrOf).map List.length)) 0 "s32").words
      = ofIdx (Slim.stepToPos ((nss.map Slim.bitstrOf).map List.length)) 0 := rfl
  rw [hwords, onesFrom_eq_toArray, toArray_ofIdx_of_asc (stepToPos_asc _ hpos), hb, slices_flatten,
    sizes_eq]
  have hmap : (nss.map Slim.bitstrOf).map ctrlOfBitstr = (nss.map ofNibs).map BitPrefix.ctrlEnc := by
    rw [List.map_map, List.map_map]
    apply List.map_congr_left
    intro ns hns
    simp only [Function.comp]
    rw [bitstrOf_eq_bitstrEnc, ctrlOfBitstr_bitstrEnc _ (ofNibs_valid ns (hlt ns hns))]
  rw [hmap]
  by_cases hemp : ((nss.map Slim.bitstrOf).flatten).isEmpty = true
  · rw [if_pos hemp]
    have hnil : nss = [] := by
      cases nss with
      | nil => rfl
      | cons ns t =>
        have : 0 < ((List.map Slim.bitstrOf (ns :: t)).flatten).length := by
          simp only [List.map_cons, List.flatten_cons, List.length_append]
          have := bitstrOf_length_pos ns; omega
        rw [List.isEmpty_iff] at hemp
        rw [hemp] at this; simp at this
    subst hnil
    rfl
  · rw [if_neg hemp]

/-- The loader undoes the writer: on the inner prefixes the reconstructed 0.5.10 / 0.5.11 writer
    derives from today's array, `before000512InnerPrefixTobitstr` restores today's bytes; only the
    select table keeps its word-index entries. -/
theorem innerPrefixes_roundtrip (s : SlimMsg) (ips : VLenArrayMsg) (nss : List (List Nat))
    (h : IsBuilt ips nss) (hlt : ∀ ns ∈ nss, ∀ n ∈ ns, n < 16) :
    innerPrefixTobitstr { s with innerPrefixes := some (oldInnerPrefixes ips) }
      = .ok { s with innerPrefixes := some { ips with positionBM := ips.positionBM.map wordIndexSelect } } := by
  rw [oldInnerPrefixes_built ips nss h hlt]
  have hv : ∀ p ∈ nss.map ofNibs, p.Valid := by
    intro p hp
    obtain ⟨ns, hns, rfl⟩ := List.mem_map.mp hp
    exact ofNibs_valid ns (hlt ns hns)
  have hpos : ∀ x ∈ (nss.map ofNibs).map sz, 0 < x := by
    intro x hx
    obtain ⟨p, _, rfl⟩ := List.mem_map.mp hx
    simp [sz]
  rw [innerPrefixTobitstr_spec _ _ _ (nss.map ofNibs) rfl rfl rfl hv
    (select_positions_old _ hpos)]
  obtain ⟨hb, hp⟩ := h
  have hbytes : ((nss.map ofNibs).map BitPrefix.bitstrEnc).flatten = ips.bytes := by
    rw [hb, List.map_map]
    congr 1
    apply List.map_congr_left
    intro ns _
    simp only [Function.comp]
    rw [bitstrOf_eq_bitstrEnc]
  simp only [hbytes, hp, Option.map_some, sizes_eq]

end Legacy

/-! ### the whole 0.5.10 / 0.5.11 message: loader ∘ writer at message level -/

namespace Legacy
open LegacyWrite

/-- the stored inner prefixes of an L1 trie -/
def storedOf (t : Trie1) : List (List Nat) :=
  (Slim.innerRecs t.nodes).filterMap (fun r => match r.pref with | .stored ns => some ns | _ => none)

theorem filterMap_map_of {α β γ : Type} (f : α → Option β) (g : α → Option γ) (m : β → γ)
    (h : ∀ r, g r = (f r).map m) (l : List α) : l.filterMap g = (l.filterMap f).map m := by
  induction l with
  | nil => rfl
  | cons r l ih =>
    simp only [List.filterMap_cons, h r]
    cases f r <;> simp [ih]

/-- with `InnerPrefix`, `creator.build` stores the bit-string forms of the stored prefixes and the
    position bitmap of their boundaries -/
theorem encodeCreator_isBuilt (t : Trie1) (h : t.opt.inner = true) :
    ∃ ips, (Slim.encodeCreator t).innerPrefixes = some ips ∧ IsBuilt ips (storedOf t) := by
  unfold Slim.encodeCreator
  simp only [h, if_true]
  refine ⟨_, rfl, ?_, ?_⟩
  · simp only [storedOf]
    exact congrArg List.flatten
      (filterMap_map_of _ _ _ (fun r => by generalize r.pref = p; cases p <;> rfl) _)
  · simp only [storedOf]
    exact congrArg (fun l => some (newBM (Slim.stepToPos (List.map List.length l)) 0 "s32"))
      (filterMap_map_of _ _ _ (fun r => by generalize r.pref = p; cases p <;> rfl) _)

/-- without `InnerPrefix` the array holds fixed-size steps and no position bitmap: neither the
    writer nor the loader touches it -/
theorem encodeCreator_noPositions (t : Trie1) (h : t.opt.inner = false) :
    ∃ ips, (Slim.encodeCreator t).innerPrefixes = some ips ∧ ips.positionBM = none := by
  unfold Slim.encodeCreator
  simp only [h, Bool.false_eq_true, if_false]
  exact ⟨_, rfl, rfl⟩

/-- The message a 0.5.10 / 0.5.11 stream carries for today's message `cur` (what `decodeSlim`
    finds: the writer's rewritten arrays, the retired fields as unknown bytes `u`). -/
def oldMsg (cur : SlimMsg) (u : Bytes) : SlimMsg :=
  { cur with innerPrefixes := cur.innerPrefixes.map oldInnerPrefixes
             leafPrefixes := cur.leafPrefixes.map oldLeafPrefixes
             leaves := cur.leaves.map (fun lv => { bytes := lv.bytes })
             unrecognized := u }

/-- today's message with word-index select tables (and the unknown bytes kept) -/
def wordSelectMsg (cur : SlimMsg) (u : Bytes) : SlimMsg :=
  { cur with innerPrefixes := cur.innerPrefixes.map
               (fun ips => { ips with positionBM := ips.positionBM.map wordIndexSelect })
             leafPrefixes := cur.leafPrefixes.map oldLeafPrefixes
             unrecognized := u }

/-- Message-level `load ∘ write` for 0.5.10 / 0.5.11, every option: the two in-memory conversions
    of the loader turn the message of the old stream into today's message of the same trie, up to
    the select tables of the prefix position bitmaps (word indexes, tolerated by `select32R64`)
    and the retired fields kept as unknown bytes.  Leaves: fixed width `w > 0` (all that 0.5.10
    supported), at least one. -/
theorem load_0510_msg (t : Trie1) (es : List Bytes) (w : Nat) (u : Bytes)
    (helts : t.elts = some es) (hw : 0 < w) (hne : es ≠ []) (hes : ∀ v ∈ es, v.length = w)
    (hlt : ∀ ns ∈ storedOf t, ∀ n ∈ ns, n < 16) :
    (innerPrefixTobitstr (oldMsg (Slim.encodeCreator t) u) >>= fun m => fixLeafSize m (some w))
      = .ok (wordSelectMsg (Slim.encodeCreator t) u) := by
  have hleaves : (Slim.encodeCreator t).leaves = Slim.newVLenArray es := by
    rw [Slim.encodeCreator_leaves, helts]
  have hnew := newVLenArray_const es w hw hne hes
  -- first conversion
  have h1 : innerPrefixTobitstr (oldMsg (Slim.encodeCreator t) u)
      = .ok { oldMsg (Slim.encodeCreator t) u with
              innerPrefixes := (Slim.encodeCreator t).innerPrefixes.map
                (fun ips => { ips with positionBM := ips.positionBM.map wordIndexSelect }) } := by
    cases hin : t.opt.inner with
    | true =>
      obtain ⟨ips, hips, hb⟩ := encodeCreator_isBuilt t hin
      have := innerPrefixes_roundtrip (oldMsg (Slim.encodeCreator t) u) ips (storedOf t) hb hlt
      have e : ({ oldMsg (Slim.encodeCreator t) u with innerPrefixes := some (oldInnerPrefixes ips) } : SlimMsg)
          = oldMsg (Slim.encodeCreator t) u := by
        unfold oldMsg; rw [hips]; rfl
      rw [e] at this
      rw [this, hips]
      rfl
    | false =>
      obtain ⟨ips, hips, hp⟩ := encodeCreator_noPositions t hin
      have hold : oldInnerPrefixes ips = ips := by
        unfold oldInnerPrefixes; rw [hp]
      have : innerPrefixTobitstr (oldMsg (Slim.encodeCreator t) u) = .ok (oldMsg (Slim.encodeCreator t) u) := by
        unfold innerPrefixTobitstr
        have : (oldMsg (Slim.encodeCreator t) u).innerPrefixes = some ips := by
          unfold oldMsg; rw [hips]; simp [hold]
        simp only [this, hp]
        rfl
      rw [this]
      congr 1
      unfold oldMsg
      rw [hips]
      simp only [Option.map_some, hold, hp, Option.map_none]
      clear hold hips this
      cases ips
      simp only at hp
      subst hp
      rfl
  rw [h1]
  simp only [bind, Except.bind]
  -- second conversion
  have hl : ({ oldMsg (Slim.encodeCreator t) u with
              innerPrefixes := (Slim.encodeCreator t).innerPrefixes.map
                (fun ips => { ips with positionBM := ips.positionBM.map wordIndexSelect }) } : SlimMsg).leaves
      = some { bytes := es.flatten } := by
    unfold oldMsg
    simp only [hleaves, hnew, Option.map_some]
  rw [fixLeafSize_eq_new _ es w hw hne hes hl]
  unfold wordSelectMsg oldMsg
  simp only [← hleaves]

end Legacy
