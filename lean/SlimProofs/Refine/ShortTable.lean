import SlimProofs.Refine.Enc
/-
  SlimProofs.Refine.ShortTable — `bm17`, `toArray [c]`, and the invariants of the statistics
  (`bumpCount`, `sortCounts`, the counting fold), of `shortTable` and of `findMinShortSize`.
-/

namespace Refine

open Bits Slim

/-! ### `bm17` -/

theorem foldl_or_testBit (labels : List Nat) (a k : Nat) :
    (labels.foldl (fun a i => a ||| (1 <<< i)) a).testBit k = (a.testBit k || decide (k ∈ labels)) := by
  induction labels generalizing a with
  | nil => simp
  | cons l ls ih =>
    rw [List.foldl_cons, ih, Nat.testBit_or, Nat.one_shiftLeft, Nat.testBit_two_pow]
    by_cases h : l = k
    · simp [h]
    · have : ¬ k = l := fun e => h e.symm
      simp [h, this]

theorem testBit_bm17 (labels : List Nat) (k : Nat) : (bm17 labels).testBit k = decide (k ∈ labels) := by
  unfold bm17; rw [foldl_or_testBit]; simp

theorem popcount_bm17 {labels : List Nat} (h : Asc labels) (hlt : ∀ l ∈ labels, l < 64) :
    popcount (bm17 labels) = labels.length := by
  rw [popcount_eq_cnt]
  have : (bm17 labels).testBit = fun j => decide (j ∈ labels) := by
    funext k; exact testBit_bm17 labels k
  rw [this, cnt_mem_asc h, List.filter_eq_self.mpr]
  intro a ha; simp [hlt a ha]

theorem filter_bm17 {labels : List Nat} (h : Asc labels) (n : Nat) (hlt : ∀ l ∈ labels, l < n) :
    (List.range n).filter (fun k => (bm17 labels).testBit k) = labels := by
  apply filter_range_eq_of_asc h
  · intro x _; rw [testBit_bm17]; simp
  · exact hlt

/-! ### `toArray [c]`: the bit positions of a short code -/

theorem getBit_singleton (c i : Nat) (hi : i < 64) : getBit [c] i = c.testBit i := by
  unfold getBit
  have e1 : i / 64 = 0 := by omega
  have e2 : i % 64 = i := by omega
  rw [e1, e2]; rfl

theorem mem_toArray_singleton (c x : Nat) : x ∈ toArray [c] ↔ x < 64 ∧ c.testBit x = true := by
  rw [toArray_eq]
  simp only [List.length_singleton, Nat.mul_one, List.mem_filter, List.mem_range]
  constructor
  · rintro ⟨h1, h2⟩; exact ⟨h1, by rw [← getBit_singleton c x h1]; exact h2⟩
  · rintro ⟨h1, h2⟩; exact ⟨h1, by rw [getBit_singleton c x h1]; exact h2⟩

theorem length_toArray_singleton (c : Nat) : (toArray [c]).length = popcount c := by
  rw [toArray_length, popcount_eq_cnt]
  apply cnt_congr
  intro j hj
  exact getBit_singleton c j (by simpa using hj)

theorem lt_of_testBit {c x s : Nat} (hc : c < 2 ^ s) (hx : c.testBit x = true) : x < s := by
  rcases Nat.lt_or_ge x s with h | h
  · exact h
  · have : c < 2 ^ x := Nat.lt_of_lt_of_le hc (Nat.pow_le_pow_right (by omega) h)
    rw [Nat.testBit_lt_two_pow this] at hx; cases hx

theorem toArray_singleton_lt {c s : Nat} (hc : c < 2 ^ s) : ∀ x ∈ toArray [c], x < s := by
  intro x hx
  exact lt_of_testBit hc ((mem_toArray_singleton c x).mp hx).2

/-! ### membership in the statistics -/

theorem bumpCount_keys (tbl : List (Nat × Nat)) (bm : Nat) :
    ∀ x ∈ bumpCount tbl bm, x.1 = bm ∨ ∃ y ∈ tbl, y.1 = x.1 := by
  induction tbl with
  | nil => intro x hx; simp [bumpCount] at hx; exact Or.inl (by rw [hx])
  | cons p tbl ih =>
    obtain ⟨b, c⟩ := p
    intro x hx
    simp only [bumpCount] at hx
    split at hx
    · next h =>
      simp only [List.mem_cons] at hx
      rcases hx with rfl | hx
      · exact Or.inl h
      · exact Or.inr ⟨x, by simp [hx], rfl⟩
    · simp only [List.mem_cons] at hx
      rcases hx with rfl | hx
      · exact Or.inr ⟨(b, c), by simp, rfl⟩
      · rcases ih x hx with h | ⟨y, hy, hy'⟩
        · exact Or.inl h
        · exact Or.inr ⟨y, by simp [hy], hy'⟩

theorem mem_insertSorted (x : Nat × Nat) (l : List (Nat × Nat)) :
    ∀ y ∈ insertSorted x l, y = x ∨ y ∈ l := by
  induction l with
  | nil => intro y hy; simp [insertSorted] at hy; exact Or.inl hy
  | cons z zs ih =>
    intro y hy
    simp only [insertSorted] at hy
    split at hy
    · simp only [List.mem_cons] at hy ⊢
      rcases hy with h | h | h
      · exact Or.inl h
      · exact Or.inr (Or.inl h)
      · exact Or.inr (Or.inr h)
    · simp only [List.mem_cons] at hy ⊢
      rcases hy with h | h
      · exact Or.inr (Or.inl h)
      · rcases ih y h with h | h
        · exact Or.inl h
        · exact Or.inr (Or.inr h)

theorem mem_sortCounts (tbl : List (Nat × Nat)) : ∀ y ∈ sortCounts tbl, y ∈ tbl := by
  unfold sortCounts
  suffices h : ∀ (acc : List (Nat × Nat)), ∀ y ∈ tbl.foldl (fun acc x => insertSorted x acc) acc,
      y ∈ acc ∨ y ∈ tbl by
    intro y hy
    rcases h [] y hy with h | h
    · simp at h
    · exact h
  induction tbl with
  | nil => intro acc y hy; exact Or.inl hy
  | cons x xs ih =>
    intro acc y hy
    rw [List.foldl_cons] at hy
    rcases ih _ y hy with h | h
    · rcases mem_insertSorted x acc y h with h | h
      · exact Or.inr (by simp [h])
      · exact Or.inl h
    · exact Or.inr (List.mem_cons_of_mem _ h)

/-- a bitmap `bm` is *good for `n`*: it is the 17-bit bitmap of a small inner node with `n` labels -/
def Good (t : Trie1) (n bm : Nat) : Prop :=
  ∃ r ∈ eInners t, r.big = false ∧ r.labels.length = n ∧ bm17 r.labels = bm

theorem cnts_fold_good (t : Trie1) (l : List InnerRec) (hl : ∀ r ∈ l, r ∈ eInners t)
    (a : Array (List (Nat × Nat))) (ha : ∀ n, ∀ x ∈ a.getD n [], Good t n x.1) :
    ∀ n, ∀ x ∈ (l.foldl (fun (a : Array (List (Nat × Nat))) r =>
      if !r.big && r.labels.length < maxShortSize + 1
      then a.modify r.labels.length (fun tbl => bumpCount tbl (bm17 r.labels)) else a) a).getD n [],
      Good t n x.1 := by
  induction l generalizing a with
  | nil => exact ha
  | cons r rs ih =>
    rw [List.foldl_cons]
    apply ih (fun r' hr' => hl r' (List.mem_cons_of_mem _ hr'))
    split
    · next hc =>
      intro n x hx
      simp only [Array.getD_eq_getD_getElem?, Array.getElem?_modify] at hx
      split at hx
      · next hn =>
        subst hn
        cases hk : a[r.labels.length]? with
        | none => simp [hk] at hx
        | some tbl =>
          simp only [hk, Option.map_some, Option.getD_some] at hx
          rcases bumpCount_keys tbl _ x hx with h | ⟨y, hy, hy'⟩
          · refine ⟨r, hl r (by simp), ?_, rfl, h.symm⟩
            simp only [Bool.and_eq_true, Bool.not_eq_eq_eq_not, Bool.not_true] at hc
            exact hc.1
          · rw [← hy']
            apply ha r.labels.length y
            simp [Array.getD_eq_getD_getElem?, hk, hy]
      · exact ha n x (by simpa [Array.getD_eq_getD_getElem?] using hx)
    · exact ha

theorem eCnts_good (t : Trie1) : ∀ n, ∀ x ∈ (eCnts t).getD n [], Good t n x.1 := by
  unfold eCnts
  apply cnts_fold_good t _ (fun _ h => h)
  intro n x hx
  simp only [Array.getD_eq_getD_getElem?, Array.getElem?_replicate] at hx
  split at hx <;> simp at hx

theorem eSorted_good (t : Trie1) : ∀ n, ∀ x ∈ (eSorted t).getD n [], Good t n x.1 := by
  intro n x hx
  unfold eSorted at hx
  simp only [Array.getD_eq_getD_getElem?, Array.getElem?_map] at hx
  cases hk : (eCnts t)[n]? with
  | none => simp [hk] at hx
  | some tbl =>
    simp only [hk, Option.map_some, Option.getD_some] at hx
    apply eCnts_good t n x
    simp only [Array.getD_eq_getD_getElem?, hk, Option.getD_some]
    exact mem_sortCounts tbl x hx

/-! ### `shortTable` -/

theorem shortTable_go_inv (G : Nat → Nat → Prop) (k short : Nat) (sorted : Array (List (Nat × Nat)))
    (tbl : List Nat) (mu : List (Nat × Nat))
    (h1 : tbl.length = short)
    (h2 : ∀ x ∈ mu, tbl.reverse[x.2]? = some x.1 ∧ G (popcount x.2) x.1)
    (h3 : ∀ n, ∀ x ∈ sorted.getD n [], G n x.1) :
    (shortTable.go k short sorted tbl mu).1.length = short + k ∧
    ∀ x ∈ (shortTable.go k short sorted tbl mu).2,
      (shortTable.go k short sorted tbl mu).1[x.2]? = some x.1 ∧ G (popcount x.2) x.1 := by
  induction k generalizing short sorted tbl mu with
  | zero =>
    simp only [shortTable.go, List.length_reverse, Nat.add_zero]
    exact ⟨h1, h2⟩
  | succ k ih =>
    unfold shortTable.go
    simp only
    split
    · next bm c rest hs =>
      have hlen : (bm :: tbl).length = short + 1 := by simp [h1]
      have := ih (short + 1) (sorted.setIfInBounds (popcount short) rest) (bm :: tbl)
        ((bm, short) :: mu.filter (·.1 != bm)) hlen ?_ ?_
      · rw [show short + (k + 1) = short + 1 + k by omega]; exact this
      · intro x hx
        simp only [List.mem_cons, List.mem_filter] at hx
        rw [List.reverse_cons]
        rcases hx with rfl | ⟨hx, _⟩
        · constructor
          · rw [List.getElem?_append_right (by simp [h1])]; simp [h1]
          · exact h3 (popcount short) (bm, c) (by rw [hs]; simp)
        · obtain ⟨hx1, hx2⟩ := h2 x hx
          refine ⟨?_, hx2⟩
          have := (List.getElem?_eq_some_iff.mp hx1).1
          rw [List.getElem?_append_left this]; exact hx1
      · intro n x hx
        simp only [Array.getD_eq_getD_getElem?, Array.getElem?_setIfInBounds] at hx
        split at hx
        · next hn =>
          subst hn
          split at hx
          · simp only [Option.getD_some] at hx
            exact h3 (popcount short) x (by rw [hs]; simp [hx])
          · simp at hx
        · exact h3 n x (by simpa [Array.getD_eq_getD_getElem?] using hx)
    · next hs =>
      have hlen : (0 :: tbl).length = short + 1 := by simp [h1]
      have := ih (short + 1) sorted (0 :: tbl) mu hlen ?_ h3
      · rw [show short + (k + 1) = short + 1 + k by omega]; exact this
      · intro x hx
        obtain ⟨hx1, hx2⟩ := h2 x hx
        refine ⟨?_, hx2⟩
        rw [List.reverse_cons]
        have := (List.getElem?_eq_some_iff.mp hx1).1
        rw [List.getElem?_append_left this]; exact hx1

/-- every entry `(bm, c)` of `mostUsed`: `c` is a valid code, the table maps it back to `bm`, and
    `bm` is the bitmap of a small inner node with `popcount c` labels -/
theorem eMostUsed_spec (t : Trie1) : ∀ x ∈ eMostUsed t,
    x.2 < 2 ^ eShortSize t ∧ (eTbl t)[x.2]? = some x.1 ∧ Good t (popcount x.2) x.1 := by
  have h := shortTable_go_inv (Good t) (2 ^ eShortSize t) 0 (eSorted t) [] [] rfl
    (by intro x hx; simp at hx) (eSorted_good t)
  intro x hx
  obtain ⟨h1, h2⟩ := h
  have h3 := h2 x hx
  refine ⟨?_, h3.1, h3.2⟩
  have := (List.getElem?_eq_some_iff.mp h3.1).1
  rw [Nat.zero_add] at h1
  rw [h1] at this
  exact this

/-! ### `findMinShortSize` -/

theorem findMinShortSize_go_le (sorted : Array (List (Nat × Nat))) (k ss sz : Nat) (mc : Int) :
    findMinShortSize.go sorted k ss sz mc ≤ max sz (ss + k - 1) := by
  induction k generalizing ss sz mc with
  | zero => simp only [findMinShortSize.go]; omega
  | succ k ih =>
    simp only [findMinShortSize.go]
    split
    · have := ih (ss + 1) ss (memIncr sorted ss); omega
    · have := ih (ss + 1) sz mc; omega

theorem findMinShortSize_le (sorted : Array (List (Nat × Nat))) : findMinShortSize sorted ≤ 10 := by
  unfold findMinShortSize
  have := findMinShortSize_go_le sorted maxShortSize 1 0 (memIncr sorted 0)
  simp only [maxShortSize] at this ⊢
  omega

theorem eShortSize_le (t : Trie1) : eShortSize t ≤ 10 := findMinShortSize_le _

end Refine
