package leg

import (
	"fmt"
	"math/bits"

	proto "github.com/golang/protobuf/proto"
	"github.com/openacid/slim/encode"
	slim "github.com/openacid/slim/trie"
)

// OptOfMode maps the option name of the fixture files to the builder option.
func OptOfMode(mode string) (slim.Opt, bool) {
	switch mode {
	case "nopref":
		return slim.Opt{}, true
	case "innpref":
		return slim.Opt{InnerPrefix: slim.Bool(true)}, true
	case "allpref":
		return slim.Opt{Complete: slim.Bool(true)}, true
	}
	return slim.Opt{}, false
}

// ctrlOfBitstr rewrites one stored prefix from the 0.5.12 form (payload bytes + trailing mask
// byte, bitstr.New) into the 0.5.10/0.5.11 form (control byte + payload; when the prefix does
// not end on a byte boundary the control byte is 1 and a single 1 bit follows the last payload
// bit).  Same length.
func ctrlOfBitstr(e []byte) []byte {
	l := len(e)
	out := make([]byte, l)
	mask := e[l-1]
	copy(out[1:], e[:l-1])
	if mask == 0xff {
		out[0] = 0
		return out
	}
	k := bits.LeadingZeros8(^mask) // number of payload bits in the last payload byte: 1..7
	out[0] = 1
	out[l-1] = e[l-2]&mask | 1<<uint(7-k)
	return out
}

func setBits(words []uint64) []int {
	var r []int
	for i, w := range words {
		for w != 0 {
			r = append(r, i*64+bits.TrailingZeros64(w))
			w &= w - 1
		}
	}
	return r
}

func wordIndexSelect(b *slim.Bitmap) {
	if b == nil {
		return
	}
	for i := range b.SelectIndex {
		b.SelectIndex[i] >>= 6
	}
}

func varintField(fno int, v uint64) []byte {
	if v == 0 {
		return nil
	}
	b := proto.EncodeVarint(uint64(fno) << 3)
	return append(b, proto.EncodeVarint(v)...)
}

func mustMarshal(m proto.Message) []byte {
	b, err := proto.Marshal(m)
	if err != nil {
		panic(err)
	}
	return b
}

// To0510 converts a current (0.5.12) Slim message into the body of a 0.5.10/0.5.11 stream.
func To0510(cur *slim.Slim) []byte {
	if cur.NodeTypeBM == nil && cur.Inners == nil && cur.Leaves == nil {
		return nil
	}
	// (i) control-byte inner prefixes
	ips := cur.InnerPrefixes
	if ips != nil && ips.PositionBM != nil && len(ips.Bytes) > 0 {
		pos := setBits(ips.PositionBM.Words)
		nb := make([]byte, 0, len(ips.Bytes))
		for i := 0; i+1 < len(pos); i++ {
			nb = append(nb, ctrlOfBitstr(ips.Bytes[pos[i]:pos[i+1]])...)
		}
		ips.Bytes = nb
	}
	// (iii) select index entries are word indexes
	if ips != nil {
		wordIndexSelect(ips.PositionBM)
	}
	if cur.LeafPrefixes != nil {
		wordIndexSelect(cur.LeafPrefixes.PositionBM)
	}
	// (ii) bare leaf bytes
	if cur.Leaves != nil {
		cur.Leaves = &slim.VLenArray{Bytes: cur.Leaves.Bytes}
	}
	// (iv) retired scalar fields, in field-number order
	const innerSize, bigInnerSize = 17, 257
	bigInnerOffset := int32(bigInnerSize-innerSize) * cur.BigInnerCnt
	shortMinusInner := cur.ShortSize - innerSize
	shortMask := uint64(1)<<uint(cur.ShortSize) - 1

	var out []byte
	out = append(out, mustMarshal(&slim.Slim{BigInnerCnt: cur.BigInnerCnt})...)
	out = append(out, varintField(12, uint64(int64(bigInnerOffset)))...)
	out = append(out, varintField(13, uint64(int64(shortMinusInner)))...)
	out = append(out, mustMarshal(&slim.Slim{ShortSize: cur.ShortSize})...)
	out = append(out, varintField(15, shortMask)...)
	rest := *cur
	rest.BigInnerCnt, rest.ShortSize = 0, 0
	out = append(out, mustMarshal(&rest)...)
	return out
}

// Write0510 writes keys/vals (vals[i] = encoded value of keys[i], all of one width) in the
// 0.5.10 / 0.5.11 layout: the current builder's message for the option, rewritten by To0510.
func Write0510(mode, ver string, keys []string, vals [][]byte) ([]byte, error) {
	opt, ok := OptOfMode(mode)
	if !ok {
		return nil, fmt.Errorf("unknown mode %s", mode)
	}
	if ver != "0.5.10" && ver != "0.5.11" {
		return nil, fmt.Errorf("unknown version %s", ver)
	}
	var body []byte
	if len(keys) > 0 {
		enc := encode.Bytes{Size: len(vals[0])}
		st, err := slim.NewSlimTrie(enc, keys, vals, opt)
		if err != nil {
			return nil, err
		}
		mb, err := st.Marshal()
		if err != nil {
			return nil, err
		}
		cur := &slim.Slim{}
		if err := proto.Unmarshal(mb[32:], cur); err != nil {
			return nil, err
		}
		body = To0510(cur)
	}
	return append(header(ver, len(body)), body...), nil
}
