import SlimProofs.BuildInv
/-
  SlimProofs.BuildKept — three more facts read off a successful `build`:

  * `build_strictAsc`        the keys were strictly ascending
  * `build_vals_length`      the value list (if any) is as long as the key list
  * `build_leafKeyIdx_kept`  every recorded leaf index is the index of a kept key
                             (loop invariant over `buildLoop`, next to `BuildInv.BInv`)
-/

namespace BuildInv

/-- how one BFS step changes `leafKeyIdx` -/
theorem buildStep_leafKeyIdx {c : BCtx} {st st' : BSt} {o : Subset}
    (hstep : buildStep c st o = .ok st') :
    st'.leafKeyIdx = if o.e - o.s = 1 then st.leafKeyIdx.push o.s else st.leafKeyIdx := by
  by_cases hleaf : o.e - o.s = 1
  · rw [buildStep_leaf_eq c st o hleaf] at hstep
    cases hstep
    rw [if_pos hleaf]
  · rw [buildStep_inner_eq c st o hleaf _ rfl _ rfl] at hstep
    rw [if_neg hleaf]
    generalize (st.isBig && decide (prefCnt c o.s o.e (minLcp c o.s o.e) > 10)) = goBig at hstep
    generalize (if goBig = true then minLcp c o.s o.e - minLcp c o.s o.e % 2
      else minLcp c o.s o.e) = ws at hstep
    split at hstep
    · cases hstep
    split at hstep
    · cases hstep
    cases hstep
    rfl

/-- every recorded leaf index is a kept key -/
def LK (keys : List Bytes) (keep : List Bool) (st : BSt) : Prop :=
  ∀ x ∈ st.leafKeyIdx.toList, keptAt keep x = true ∧ x < keys.length

theorem buildStep_lk {keys : List Bytes} {keep : List Bool} {opt : Opt} {c : BCtx}
    {st st' : BSt} {i : Nat} (hinv : BInv keys keep opt st i) (hlk : LK keys keep st)
    (hi : i < st.queue.size) (hstep : buildStep c st st.queue[i] = .ok st') :
    LK keys keep st' := by
  have hsub := hinv.sub i st.queue[i] (Array.getElem?_eq_getElem hi)
  intro x hx
  rw [buildStep_leafKeyIdx hstep] at hx
  split at hx
  · next hleaf =>
    rw [Array.toList_push, List.mem_append, List.mem_singleton] at hx
    rcases hx with hx | rfl
    · exact hlk x hx
    · obtain ⟨y, h1, h2, h3⟩ := hsub.kept
      have hy : y = st.queue[i].s := by omega
      have := hsub.le
      exact ⟨hy ▸ h3, by omega⟩
  · exact hlk x hx

theorem buildLoop_lk {keys : List Bytes} {keep : List Bool} {opt : Opt} {c : BCtx}
    (hc : CtxOK keys keep opt c) (hasc : strictAsc keys = true)
    (fuel i : Nat) (st st' : BSt) (hinv : BInv keys keep opt st i) (hlk : LK keys keep st)
    (h : buildLoop c fuel i st = .ok st') : LK keys keep st' := by
  induction fuel generalizing i st with
  | zero =>
    simp only [buildLoop] at h
    split at h
    · cases h
    · cases h; exact hlk
  | succ fuel ih =>
    simp only [buildLoop] at h
    split at h
    · next hi =>
      split at h
      · next st2 hst =>
        exact ih _ _ (buildStep_inv hc hasc hinv hi hst) (buildStep_lk hinv hlk hi hst) h
      · cases h
    · cases h; exact hlk

end BuildInv

open BuildInv

/-- what `build` checks before it starts: a non-empty accepted key list is strictly ascending,
    the value list (if any) has the length of the key list, and the trie is what `build.go` makes -/
theorem build_pre (keys : List Bytes) (vals : Option (List Bytes)) (opt : Opt) (t : Trie1)
    (hb : build keys vals opt = .ok t) (hne : keys ≠ []) :
    strictAsc keys = true ∧ (∀ vs, vals = some vs → vs.length = keys.length) ∧
      build.go keys vals opt keys.length = .ok t := by
  have hn : keys.length ≠ 0 := by
    intro h; exact hne (List.length_eq_zero_iff.mp h)
  unfold build at hb
  simp only [if_neg hn] at hb
  split at hb
  · cases hb
  next hasc =>
  have hasc' : strictAsc keys = true := by simpa using hasc
  split at hb
  · next vs =>
    split at hb
    · cases hb
    next hlen =>
    exact ⟨hasc', (by intro vs' h; cases h; simpa using hlen), hb⟩
  · exact ⟨hasc', (by intro vs' h; cases h), hb⟩

theorem build_strictAsc (keys : List Bytes) (vals : Option (List Bytes)) (opt : Opt) (t : Trie1)
    (hb : build keys vals opt = .ok t) (hne : keys ≠ []) : strictAsc keys = true :=
  (build_pre keys vals opt t hb hne).1

theorem build_vals_length (keys : List Bytes) (vs : List Bytes) (opt : Opt) (t : Trie1)
    (hb : build keys (some vs) opt = .ok t) (hne : keys ≠ []) : vs.length = keys.length :=
  (build_pre keys (some vs) opt t hb hne).2.1 vs rfl

/-- every recorded leaf index is the index of a kept key -/
theorem build_leafKeyIdx_kept (keys : List Bytes) (vals : Option (List Bytes)) (opt : Opt)
    (t : Trie1) (hb : build keys vals opt = .ok t) (hne : keys ≠ []) :
    ∀ x ∈ t.leafKeyIdx.toList,
      keptAt (keepMask keys.length vals opt.dedup) x = true ∧ x < keys.length := by
  obtain ⟨hasc, hv, hgo⟩ := build_pre keys vals opt t hb hne
  have hn : keys.length ≠ 0 := by
    intro h; exact hne (List.length_eq_zero_iff.mp h)
  rw [build_go_eq] at hgo
  split at hgo
  · cases hgo
  next st hst =>
  cases hgo
  exact buildLoop_lk (mkCtx_ok keys vals opt) hasc _ _ _ _ (binv_init opt hn hv)
    (by intro x hx; simp at hx) hst

#print axioms build_leafKeyIdx_kept
