import SlimProps.BridgeSem.Common
import SlimProps.BridgeSem.Step
import SlimProps.BridgeSem.Label
import SlimProps.BridgeSem.GetInt
import SlimProps.BridgeSem.EncSizes
import SlimProps.BridgeSem.NormalizeOpt
import SlimProps.BridgeSem.Offsets
import SlimProps.BridgeSem.LeafIndex
import SlimProps.BridgeSem.ToKeep
import SlimProps.BridgeSem.StepToPos
import SlimProps.BridgeSem.ShortSize
import SlimProps.BridgeSem.StrCmp
import SlimProps.BridgeSem.EncCodec
import SlimProps.BridgeSem.LeftChild
import SlimProps.BridgeSem.VLen
import SlimProps.BridgeSem.ArrayGet
import SlimProps.BridgeSem.IndexGlue
import SlimProps.BridgeSem.Extern
import SlimProps.BridgeSem.VLenGet
import SlimProps.BridgeSem.LeftChildWhole
import SlimProps.BridgeSem.GetNode
import SlimProps.BridgeSem.DescentStep
import SlimProps.BridgeSem.LeafAccess
import SlimProps.BridgeSem.MostLoops
import SlimProps.BridgeSem.LegacyLeaf
import SlimProps.BridgeSem.LegacyChildren
import SlimProps.BridgeSem.LegacyPrefix
import SlimProps.BridgeSem.LegacyDispatch
/-
  SlimProps.BridgeSem — tie 1, semantic part: the small pure functions of the Go source, translated
  to Lean on every check run (lean/Generated/Funcs.lean, written by harness/cmd/extract/translate.go
  with the meaning of lean/Generated/GoSem.lean), are EQUAL to the model's functions, for all inputs.

  A harmless rewrite of the Go source changes Funcs.lean but not these theorems; a change of meaning
  breaks a proof.  The proofs therefore do not depend on the shape of the generated terms: they
  unfold the generated definition and the `Go.*` operations (`go_simp`), and finish with `omega`
  (linear arithmetic with `/` and `%` by literals) or, for the little-endian compositions, by
  rewriting the model side into a `|||` of shifted bytes and comparing modulo associativity and
  commutativity (`ac_rfl`).

  Units: the Go functions count bits, the model counts half-bytes (bit position = 4 × position).

  * `encStep_sem`, `decStep_sem`, `decStep_encStep_iff`
  * `getLabelIdxOfKey_sem`
  * `getI8_sem` … `getI64_sem` (+ `_list` versions for `bs.length = N/8`), `getI16Index_sem` …
  * `encSizes_sem`, `encSizes_model` (package encode: the size literals of the integer encoders)
  * `normalizeOpt_sem` (decision logic of the options, all 81 combinations)
  * `newToKeep_sem` (= `keepMask`), `stepToPos_sem` (= `Slim.stepToPos`): translated `for` loops
  * `bigInnerOffset_sem`, `shortMinusInner_sem`, `innerFromBig_sem`, `innerFromSmall_sem`,
    `innerFrom_offset_sem` (offset arithmetic of the inner-node bitmaps), `getLeafIndex_sem`
  * `memIncrOfShortSize_sem` (= `Slim.memIncr`), `findMinShortSize_sem` (= `Slim.findMinShortSize`):
    nested slices of structs, a call between translated functions, `bits.OnesCount64`

  One module per function family, so that a changed or untranslatable Go function breaks only the
  module (and the properties) that rely on it; shared lemmas and tactics are in `Common`:

    Step          encStep_sem, decStep_sem, decStep_encStep_iff
    Label         getLabelIdxOfKey_sem
    GetInt        getI8_sem getI16_sem getI32_sem getI64_sem, getI16_list getI32_list getI64_list,
                  getI16Index_sem getI32Index_sem getI64Index_sem
    EncSizes      encSizes_sem, encSizes_model
    NormalizeOpt  normalizeOpt_sem
    ToKeep        newToKeep_sem
    StepToPos     stepToPos_sem
    ShortSize     memIncrOfShortSize_sem, findMinShortSize_sem
    Offsets       bigInnerOffset_sem, shortMinusInner_sem, innerFromBig_sem, innerFromSmall_sem,
                  innerFrom_offset_sem
    LeafIndex     getLeafIndex_sem
    StrCmp        cmpStrBytes_sem, strCmpUpto_sem                      (trie/strcmp.go)
    EncCodec      encodeU16_sem encodeU32_sem encodeU64_sem, decodeU16_sem decodeU32_sem decodeU64_sem,
                  encodeI8_sem … encodeI64_sem, decodeI8_sem … decodeI64_sem   (encode/int.go, int8.go)
    LeftChild     leftChildShortRank_sem, leftChildShortBit_sem, leftChildBitPos_sem  (getLeftChildID),
                  leftMostNext_sem, rightMostBitPos_sem, rightMostNext_sem, rightMostNext_model
                                                                       (one step of leftMost / rightMost)
    VLen          vlenWordI_sem, vlenBitI_sem, vlenIthElt_sem, vlenFixedFrom_sem      ((*VLenArray).get)
    ArrayGet      arrayBmWord_sem, arrayBmBit_sem, arrayU16Cnt1_sem, arrayU16StIdx_sem,
                  arrayGetBytesStIdx_sem                               (array/base.go, array/int.go)
    IndexGlue     newSlimIndexArgs_sem, newSlimIndex_model, slimIndexGetOffset_sem,
                  slimIndexRangeGetOffset_sem                          (index/index.go)

  WHOLE functions of the query path (`namespace Generated.W` of Funcs.lean: control skeleton, early
  returns, every nil / index / slice panic as `none`, the session `*querySession` as a record that is
  returned updated, calls between translated functions; the external functions of openacid/low by the
  ASSUMED specifications of Generated/GoSem.lean).  Each bridge equates the translated function with
  the model's function INCLUDING when it panics, under explicit well-formedness / no-`int32`-overflow
  hypotheses:

    Extern          rank64_sem, rank128_sem, rank128_mk_sem, select32R64_sem, select32R64_bounds, sliceS_sem
                    (the assumed external semantics = `Bits.rank64 / rank128 / select32R64`, `Slim.sliceBytes`);
                    the abstraction functions absBitmap / absVLen / absSlim
    VLenGet         VLenArray_get_sem                                 ((*VLenArray).get = Slim.vlenGet)
    LeftChildWhole  getLabelIdxOfKeyW_sem, getLeftChildID_sem, getLeftChildID_model
                                                                      (= labelIdxOfKey, leftChildID)
    GetNode         initVars_sem, getLeafIndexW_sem, getLeafPrefixW_sem, getNode_sem (= sessionOf: rank64,
                    Slim.getLeafPrefix, Slim.innerFrom, the prefix block of Slim.getNode), sessionOf_decodes,
                    getNode_ok (the abstraction relation `Decodes` session ↔ `Node` of Slim.getNode)
    DescentStep     getNode_getLeftChildID (getNode then getLeftChildID = leftChildID of the model's node),
                    innerFrom_shape
    LeafAccess      getIthLeafBytes_sem, bytesCompare_sem, cmpLeafPrefix_sem
    MostLoops       rightMost_sem, leftMost_sem (the loops `for { …getNode…; break … }` as fuel-recursive
                    definitions: the model's descent and the Go loop reach the same leaf within the same fuel),
                    rightMost_loop_sem, leftMost_loop_sem, getNode_inner_data, exSlim_trieFits

  The LEGACY LOADER of trie/slimtrie_marshal.go (data written by 0.5.0 … 0.5.11), same W-mode (plus:
  assignments through a local pointer that is an alias of a path `st.inner.Leaves`, `for` loops with a
  header, `make`, element assignment, division by a non-constant with its panic, the outcome of
  `st.encoder.GetEncodedSize(nil)` as an implicit parameter):

    LegacyLeaf      before000512FixLeafSize_sem (= Legacy.fixLeafSize, panics included; range hypotheses
                    `FixLeafFits`), before000512FixLeafSize_panics, fixLeafSize_loop_sem; the assumed
                    semantics bitmapOf_sem, indexRank64_sem, newBMr64_sem (bitmap.Of, IndexRank64, trie.newBM)
    LegacyChildren  (`namespace Generated.WL`: package trie checked against the source of package array)
                    bmhas_sem, U16_Get_sem ((*array.U16).Get = Legacy.u16Get), getStepBefore000510_sem
                    (= 4 × Legacy.getStep), getBM16Child_sem (= Legacy.getBM16Child, both children encodings)
    LegacyPrefix    before000512InnerPrefixTobitstr_sem (= Legacy.innerPrefixTobitstr, loop and panics included;
                    the slice `old := ips.Bytes[from:to]` is a view, `copy(old, …)` updates the bytes in place),
                    loop_sem, go_step, convertOne_go (the per-prefix step = Legacy.convertOne), bitstrNew_sem,
                    bitstrNew_neg, trailingZeros8_sem (bitstr.New, bits.TrailingZeros8)
    LegacyDispatch  (`namespace Generated.WP`: DECISION SKELETONS — the loader steps of `Unmarshal` /
                    `before000510` as a function of `vers.Check` / `vers.IsCompatible`) Unmarshal_plan_sem,
                    Unmarshal_plan_incompatible, before000510_plan_sem, unmarshalMsg_current / _v0510 / _legacy3
                    (= Marshal.unmarshalDispatch / Legacy.unmarshalMsg: which loader runs, in which order)
-/

