import SlimProofs.Legacy0510View
import SlimProps.L2
import SlimProps.L2c
import SlimProps.C18
/-
  SlimProps.C06View — C06, view half for 0.5.10 / 0.5.11 streams: every answer of the instance
  that holds the loaded message.

  After `Unmarshal` of a 0.5.10 / 0.5.11 stream the instance holds
  `wordSelectMsg (Slim.encode t) u` (`SlimProofs.LegacyRoundTrip.load_0510_msg`; `u` = the retired
  fields kept as unknown bytes).  `V0510 t u` is the view of that message.  For every `u`:

  * `viewSim_built0510`       `V0510 t u` simulates the record-level view of every built trie
                              (`getNode_wordSelect`: `select32R64` tolerates word-index select
                              tables, every other field is today's field)
  * `V0510_*_eq`              every lookup returns exactly what it returns at L1, for every query
  * `C06_get_0510` (C01), `C06_rangeget_0510` (C02), `C06_search_0510` (C09),
    `C06_total_0510` (C10), `C06_allpref_exact` (C03, Complete), `C06_allpref_scan` (C04, Complete)
  * `C06_stat_0510`           `initLevels` / `Stat` read no select table: C18 totals carry over

  The theorems hold for any options (the 0.5.10 writers use default, InnerPrefix, Complete).
-/

open Transport Legacy Legacy0510

/-- the view of the message a loaded 0.5.10 / 0.5.11 instance holds -/
abbrev V0510 (t : Trie1) (u : Bytes) : View := Slim.view (wordSelectMsg (Slim.encode t) u)

/-- the loaded view of every built trie simulates its record-level view -/
theorem viewSim_built0510 (keys : List Bytes) (vals : Option (List Bytes)) (opt : Opt) (t : Trie1)
    (hb : build keys vals opt = .ok t) (u : Bytes) :
    ViewSim t.view (V0510 t u) t.nodes.size := by
  apply viewSim_wordSelect t u (viewSim_built keys vals opt t hb)
  intro hne
  have hk : keys ≠ [] := by
    intro h; subst h
    rw [LookupTotal.empty_of_build vals opt t hb] at hne
    exact hne rfl
  exact build_shape keys vals opt t hb hk

/-- the same, stated on `Slim.encodeCreator t` (what `load_0510_msg` produces) for a non-empty
    key list -/
theorem viewSim_loaded0510_built (keys : List Bytes) (vals : Option (List Bytes)) (opt : Opt)
    (t : Trie1) (hb : build keys vals opt = .ok t) (hne : keys ≠ []) (u : Bytes) :
    ViewSim t.view (Slim.view (wordSelectMsg (Slim.encodeCreator t) u)) t.nodes.size :=
  viewSim_loaded0510 t (build_shape keys vals opt t hb hne)
    (encodeFacts_of_build keys vals opt t hb hne) u

/-- `getNode` on the loaded message of a built trie -/
theorem C06_getNode_0510 (keys : List Bytes) (vals : Option (List Bytes)) (opt : Opt) (t : Trie1)
    (hb : build keys vals opt = .ok t) (hne : keys ≠ []) (u : Bytes) (id : Nat)
    (hid : id < t.nodes.size) :
    Slim.getNode (wordSelectMsg (Slim.encodeCreator t) u) id = .ok t.nodes[id] :=
  getNode_loaded0510 t (build_shape keys vals opt t hb hne) u id hid

/-! ### every lookup returns the same as at L1 -/

section eqs
variable (keys : List Bytes) (vals : Option (List Bytes)) (opt : Opt) (t : Trie1)
  (hb : build keys vals opt = .ok t) (u : Bytes)
include hb

theorem V0510_getID_eq (q : Bytes) : getID (V0510 t u) q = getID t.view q := by
  obtain ⟨a, ha, _⟩ := getID_total keys vals opt t hb q
  rw [ha]; exact getID_le (viewSim_built0510 keys vals opt t hb u) q a ha

theorem V0510_get_eq (q : Bytes) : get (V0510 t u) q = get t.view q := by
  obtain ⟨a, ha⟩ := get_total keys vals opt t hb q
  rw [ha]; exact get_le (viewSim_built0510 keys vals opt t hb u) q a ha

theorem V0510_searchID_eq (q : Bytes) : searchID (V0510 t u) q = searchID t.view q := by
  obtain ⟨a, ha, _⟩ := searchID_total keys vals opt t hb q
  rw [ha]; exact searchID_le (viewSim_built0510 keys vals opt t hb u) q a ha

theorem V0510_rangeGet_eq (q : Bytes) : rangeGet (V0510 t u) q = rangeGet t.view q := by
  obtain ⟨a, ha⟩ := rangeGet_total keys vals opt t hb q
  rw [ha]; exact rangeGet_le (viewSim_built0510 keys vals opt t hb u) q a ha

theorem V0510_search_eq (q : Bytes) : search (V0510 t u) q = search t.view q := by
  obtain ⟨a, ha⟩ := search_total keys vals opt t hb q
  rw [ha]; exact search_le (viewSim_built0510 keys vals opt t hb u) q a ha

end eqs

/-! ### C01: retained keys are found with their values -/

theorem C06_get_0510 (keys : List Bytes) (vals : Option (List Bytes)) (opt : Opt) (t : Trie1)
    (hb : build keys vals opt = .ok t) (u : Bytes) (i : Nat) (hi : i < keys.length)
    (hk : keptAt (keepMask keys.length vals opt.dedup) i = true) :
    (∃ id, getID (V0510 t u) (keys.getD i []) = .ok (some id)) ∧
    get (V0510 t u) (keys.getD i []) = .ok (some (expectedValue vals t i)) := by
  rw [V0510_getID_eq keys vals opt t hb, V0510_get_eq keys vals opt t hb]
  exact C01_get_retained keys vals opt t hb i hi hk

theorem C06_get_bytes_0510 (keys : List Bytes) (vals : Option (List Bytes)) (opt : Opt) (t : Trie1)
    (hb : build keys vals opt = .ok t) (u : Bytes) (i : Nat) (hi : i < keys.length)
    (hk : keptAt (keepMask keys.length vals opt.dedup) i = true) :
    ∃ r, get (V0510 t u) (keys.getD i []) = .ok (some r) ∧
      (vals = none → r = none) ∧ (∀ vs, vals = some vs → r.getD [] = vs.getD i []) := by
  rw [V0510_get_eq keys vals opt t hb]
  exact C01_get_retained_bytes keys vals opt t hb i hi hk

/-! ### C02: RangeGet on every indexed key -/

theorem C06_rangeget_0510 (keys : List Bytes) (vals : Option (List Bytes)) (opt : Opt) (t : Trie1)
    (hb : build keys vals opt = .ok t) (hne : keys ≠ []) (u : Bytes)
    (i : Nat) (hi : i < keys.length) :
    rangeGet (V0510 t u) (keys.getD i []) =
      .ok (some (recVal (keepMask keys.length vals opt.dedup) vals i)) := by
  rw [V0510_rangeGet_eq keys vals opt t hb]
  exact C02_rangeget_indexed keys vals opt t hb hne i hi

/-! ### C09: Search on every retained key -/

theorem C06_search_0510 (keys : List Bytes) (vals : Option (List Bytes)) (opt : Opt) (t : Trie1)
    (hb : build keys vals opt = .ok t) (hne : keys ≠ []) (u : Bytes)
    (m : Nat) (hm : m < keys.length)
    (hk : keptAt (keepMask keys.length vals opt.dedup) m = true) :
    search (V0510 t u) (keys.getD m []) =
      .ok (valOf (keepMask keys.length vals opt.dedup) vals
             (prevKept (keepMask keys.length vals opt.dedup) m),
           valOf (keepMask keys.length vals opt.dedup) vals (some m),
           valOf (keepMask keys.length vals opt.dedup) vals
             (nextKept (keepMask keys.length vals opt.dedup) m)) := by
  rw [V0510_search_eq keys vals opt t hb]
  exact C09_search_retained keys vals opt t hb hne m hm hk

/-! ### C10: every lookup returns normally for every query -/

theorem C06_total_0510 (keys : List Bytes) (vals : Option (List Bytes)) (opt : Opt) (t : Trie1)
    (hb : build keys vals opt = .ok t) (u : Bytes) (q : Bytes) :
    (∃ a, getID (V0510 t u) q = .ok a) ∧ (∃ a, get (V0510 t u) q = .ok a) ∧
    (∃ a, searchID (V0510 t u) q = .ok a) ∧ (∃ a, rangeGet (V0510 t u) q = .ok a) ∧
    (∃ a, search (V0510 t u) q = .ok a) := by
  rw [V0510_getID_eq keys vals opt t hb, V0510_get_eq keys vals opt t hb,
    V0510_searchID_eq keys vals opt t hb, V0510_rangeGet_eq keys vals opt t hb,
    V0510_search_eq keys vals opt t hb]
  obtain ⟨a, ha, _⟩ := getID_total keys vals opt t hb q
  obtain ⟨b, hb', _⟩ := searchID_total keys vals opt t hb q
  exact ⟨⟨a, ha⟩, get_total keys vals opt t hb q, ⟨b, hb'⟩, rangeGet_total keys vals opt t hb q,
    search_total keys vals opt t hb q⟩

/-! ### C03: a Complete trie is an exact ordered map -/

theorem C06_allpref_exact (keys : List Bytes) (vals : Option (List Bytes)) (opt : Opt) (t : Trie1)
    (hb : build keys vals opt = .ok t) (hc : opt.complete = true) (u : Bytes) (q : Bytes) :
    search (V0510 t u) q =
      .ok (shownVal (retained keys vals opt.dedup) (Spec.lt (retained keys vals opt.dedup) q),
           shownVal (retained keys vals opt.dedup) (Spec.get (retained keys vals opt.dedup) q),
           shownVal (retained keys vals opt.dedup) (Spec.gt (retained keys vals opt.dedup) q)) ∧
    get (V0510 t u) q =
      .ok (shownVal (retained keys vals opt.dedup) (Spec.get (retained keys vals opt.dedup) q)) ∧
    rangeGet (V0510 t u) q =
      .ok (shownVal (retained keys vals opt.dedup) (Spec.le (retained keys vals opt.dedup) q)) ∧
    ∃ e, getID (V0510 t u) q = .ok e ∧
      e.isSome = (Spec.get (retained keys vals opt.dedup) q).isSome := by
  rw [V0510_search_eq keys vals opt t hb, V0510_get_eq keys vals opt t hb,
    V0510_rangeGet_eq keys vals opt t hb, V0510_getID_eq keys vals opt t hb]
  exact ⟨C03_search keys vals opt t hb hc q, C03_get keys vals opt t hb hc q,
    C03_rangeget keys vals opt t hb hc q, C03_getID keys vals opt t hb hc q⟩

/-! ### C04: scans of a Complete trie -/

open IterLemmas Subtree SearchDescent Exact Scan in
theorem C06_allpref_scan (keys : List Bytes) (vals : Option (List Bytes)) (opt : Opt) (t : Trie1)
    (hb : build keys vals opt = .ok t) (hc : opt.complete = true) (u : Bytes)
    (start : Bytes) (incl wv : Bool) :
    (∃ s, newIterFrom (V0510 t u) start incl = .ok s ∧
      ∀ k, iterTake (V0510 t u) wv k s =
        .ok (IterStack.expect k ((Spec.scanFrom (retained keys vals opt.dedup) start incl).map
          (C04.item (retained keys vals opt.dedup) wv)))) ∧
    (∀ (keepFn : Bytes → Bool) (stopAfter : Option Nat),
      scanFrom (V0510 t u) start incl wv keepFn stopAfter =
        .ok (IterScan.truncate stopAfter
          (((Spec.scanFrom (retained keys vals opt.dedup) start incl).map
            (C04.pair (retained keys vals opt.dedup) wv)).takeWhile (fun y => keepFn y.1)))) ∧
    (∀ (stop : Bytes) (inclEnd : Bool) (stopAfter : Option Nat),
      scanFromTo (V0510 t u) start incl stop inclEnd wv stopAfter =
        .ok (IterScan.truncate stopAfter
          ((Spec.scanFromTo (retained keys vals opt.dedup) start incl stop inclEnd).map
            (C04.pair (retained keys vals opt.dedup) wv)))) := by
  have hsim := viewSim_built0510 keys vals opt t hb u
  refine ⟨?_, ?_, ?_⟩
  · obtain ⟨s, hs, hk⟩ := C04_iter keys vals opt t hb hc start incl wv
    exact ⟨s, newIterFrom_le hsim start incl s hs, fun k => iterTake_le hsim wv k s _ (hk k)⟩
  · intro keepFn stopAfter
    exact scanFrom_le hsim start incl wv keepFn stopAfter _
      (C04_scanFrom keys vals opt t hb hc start incl wv keepFn stopAfter)
  · intro stop inclEnd stopAfter
    exact scanFromTo_le hsim start incl stop inclEnd wv stopAfter _
      (C04_scanFromTo keys vals opt t hb hc start incl stop inclEnd wv stopAfter)

/-! ### C18: `Stat` after loading -/

/-- the level table and `Stat` of the loaded message are those of today's message, so the C18
    totals carry over: `N` nodes and exactly the retained keys (KeyCnt is preserved) -/
theorem C06_stat_0510 (keys : List Bytes) (vals : Option (List Bytes)) (opt : Opt) (t : Trie1)
    (hb : build keys vals opt = .ok t) (hne : keys ≠ []) (u : Bytes) (lv : List Slim.Level)
    (hlv : Slim.initLevels (wordSelectMsg (Slim.encode t) u) = .ok lv) :
    Slim.initLevels (wordSelectMsg (Slim.encode t) u) = Slim.initLevels (Slim.encode t) ∧
    Slim.stat (wordSelectMsg (Slim.encode t) u) lv
      = .ok { levels := lv, keyCnt := (retained keys vals opt.dedup).length,
              nodeCnt := t.nodes.size } := by
  rw [initLevels_wordSelect] at hlv
  refine ⟨initLevels_wordSelect _ _, ?_⟩
  rw [stat_wordSelect]
  exact (C18_totals keys vals opt t hb hne lv hlv).2.2

/-! ### non-vacuity -/

namespace C06View.Ex

/-- on the 3-key input of `L2.Ex`, any options, any retired bytes: the loaded instance finds the
    retained key `b\xe3` with its value, and every lookup of every query returns normally -/
example (o : Opt) (u : Bytes) : ∃ t, build L2.Ex.keys (some L2.Ex.vals) o = .ok t ∧
    (∃ r, get (V0510 t u) [0x62, 0xe3] = .ok (some r) ∧ r.getD [] = [2]) ∧
    ∀ q, ∃ a, search (V0510 t u) q = .ok a := by
  obtain ⟨t, ht⟩ := L2.Ex.build_ok o
  have hk : keptAt (keepMask L2.Ex.keys.length (some L2.Ex.vals) o.dedup) 2 = true := by
    cases o.dedup <;> decide
  obtain ⟨r, hr, _, hv⟩ := C06_get_bytes_0510 L2.Ex.keys (some L2.Ex.vals) o t ht u 2 (by decide) hk
  exact ⟨t, ht, ⟨r, hr, hv L2.Ex.vals rfl⟩,
    fun q => (C06_total_0510 L2.Ex.keys (some L2.Ex.vals) o t ht u q).2.2.2.2⟩

/-- Complete mode: a full scan of the loaded instance yields the two retained entries -/
example (u : Bytes) : ∃ t, build L2.Ex.keys (some L2.Ex.vals) L2c.Ex.opt = .ok t ∧
    Scan.scanFrom (V0510 t u) [] true true (fun _ => true) none =
      .ok [([0x61], some [1]), ([0x62, 0xe3], some [2])] := by
  obtain ⟨t, ht⟩ := L2.Ex.build_ok L2c.Ex.opt
  refine ⟨t, ht, ?_⟩
  rw [(C06_allpref_scan _ _ _ t ht (by decide) u [] true true).2.1]
  exact congrArg Except.ok (by decide +kernel)

end C06View.Ex

#print axioms viewSim_built0510
#print axioms viewSim_loaded0510_built
#print axioms C06_getNode_0510
#print axioms C06_get_0510
#print axioms C06_get_bytes_0510
#print axioms C06_rangeget_0510
#print axioms C06_search_0510
#print axioms C06_total_0510
#print axioms C06_allpref_exact
#print axioms C06_allpref_scan
#print axioms C06_stat_0510
