import Generated.Funcs
import SlimProps.BridgeSem.Common
import SlimProps.BridgeSem.Extern
import SlimModel.Query
import SlimModel.Slim
import SlimProofs.BitsLemmas.Rank

/-
  SlimProps.BridgeSem.LeftChildWhole — tie 1, semantic part: `getLabelIdxOfKey` and `getLeftChildID`
  (trie/slimtrie_query.go) translated WHOLE (`Generated.W.SlimTrie.getLabelIdxOfKey`, `getLeftChildID`:
  the session as a record, the guard `keyBitIdx < qr.keyBitLen`, the word-size branch, the index into
  the key with its bound check; the call of `getLabelIdxOfKey`, the test `qr.to-qr.from == ns.ShortSize`,
  both branches with their calls of the external `bitmap.Rank128`, nil dereferences of `st.inner`,
  `ns.Inners`):

    `getLabelIdxOfKeyW_sem`   = some (labelIdxOfKey (nibs key) i big)          (SlimModel/Query.lean)
    `getLeftChildID_sem`      = some (rank of `from` + rankLabels labels ith, b2n (labels.contains ith))
    `getLeftChildID_model`    … which is the model's `leftChildID r ith` for the node record `r` with
                              these labels and `firstChild = rank(from) + 1`

  on the session of an inner node (`NodeShape`: how `getNode` leaves `wordSize`, `to - from`, `bm`),
  with `Inners` carrying the rank index that `bitmap.IndexRank128` computes.  The link with `getNode`
  is `getNode_getLeftChildID` (SlimProps/BridgeSem/GetNode.lean).
  External semantics assumed: `bitmap.Rank128`, `bitmap.Mask`, `bits.OnesCount64` (GoSem.lean,
  `Extern.rank128_mk_sem`).  See SlimProps/BridgeSem.lean for the overview.
-/

set_option linter.unusedSimpArgs false
set_option linter.unusedVariables false

open Generated Bits

namespace BridgeSem

theorem natBytes_getElem? (key : Bytes) (j : Nat) (h : j < key.length) :
    (natBytes key)[j]? = some ((key.map UInt8.toNat).getD j 0) := by
  unfold natBytes
  rw [List.getD_eq_getElem?_getD]
  have : j < (key.map UInt8.toNat).length := by simpa using h
  rw [List.getElem?_eq_getElem this]; rfl

/-- `getLabelIdxOfKey` whole (its receiver is not used): for a session that holds the key, its
    length in bits, and a word size of 4 or 8 bits, the label index at bit position `4 i` is the
    model's `labelIdxOfKey` at half-byte position `i` — and the function does not panic. -/
theorem getLabelIdxOfKeyW_sem (st : W.SlimTrie) (qr : W.querySession) (key : Bytes) (i : Nat)
    (hkey : qr.key = natBytes key) (hkl : qr.keyBitLen = 8 * key.length)
    (hw : qr.wordSize = 4 ∨ qr.wordSize = 8)
    (hlen : 8 * key.length < 2 ^ 31) (hi : 4 * i < 2 ^ 31) :
    W.SlimTrie.getLabelIdxOfKey st qr (4 * i)
      = some (labelIdxOfKey (nibs key) i (qr.wordSize == 8)) := by
  unfold W.SlimTrie.getLabelIdxOfKey labelIdxOfKey
  rw [nibs_length_w, hkey, hkl]
  simp only [nibs_getD_w, Option.bind_eq_bind, Option.pure_def]
  have hshift : Go.sar 32 (4 * i) 3 = i / 2 := by go_simp; omega
  have hlt : Go.ltS 32 (4 * i) (8 * key.length) = decide (i < 2 * key.length) := by
    go_simp; simp; omega
  have h3 : i / 2 < 2 ^ (32 - 1) := by omega
  simp only [hshift, hlt, idxS_eq _ _ _ h3]
  by_cases hin : i < 2 * key.length
  · have hj : i / 2 < key.length := by omega
    have hb := getD_map_lt_w key (i / 2)
    simp only [hin, decide_true, if_true, natBytes_getElem? key _ hj, Option.bind_some]
    have e1 : (i - i % 2) / 2 = i / 2 := by omega
    have e2 : (i - i % 2 + 1) / 2 = i / 2 := by omega
    have e3 : (i - i % 2) % 2 = 0 := by omega
    have e4 : ¬ (i - i % 2 + 1) % 2 = 0 := by omega
    have e5 : Go.and (4 * i) 7 = 4 * (i % 2) := by go_simp; omega
    have e6 : 4 * i / 4 % 2 = i % 2 := by omega
    simp only [e1, e2, e3, e4, e5, if_true, if_false]
    generalize (key.map UInt8.toNat).getD (i / 2) 0 = x at hb ⊢
    rcases hw with h | h <;> rcases Nat.mod_two_eq_zero_or_one i with hp | hp <;>
    · simp only [h, hp]
      go_simp
      -- (a computed shift amount such as `4 - keyBitIdx&4` becomes a literal once the nibble is fixed)
      try simp only [e6, hp, Nat.zero_mul, Nat.one_mul, Nat.mul_zero, Nat.mul_one, Nat.sub_zero, Nat.sub_self,
        Nat.pow_zero, Nat.div_one]
      try go_simp
      try simp [hp]
      try omega
  · simp [hin]

/-! ### `getLeftChildID` whole -/

theorem labelsIn_eq_filter (ws : List Nat) (frm size : Nat) :
    Slim.labelsIn ws frm size = (List.range size).filter (fun k => getBit ws (frm + k)) := rfl

theorem rankLabels_labelsIn (ws : List Nat) (frm size ith : Nat) (h : ith ≤ size) :
    rankLabels (Slim.labelsIn ws frm size) ith = cnt (fun k => getBit ws (frm + k)) ith := by
  unfold rankLabels
  rw [labelsIn_eq_filter, List.filter_filter, ← cnt_eq_length_filter]
  have := cnt_and_lt (fun k => getBit ws (frm + k)) ith size
  rw [Nat.min_eq_left h] at this
  rw [← this]

theorem contains_labelsIn (ws : List Nat) (frm size ith : Nat) (h : ith < size) :
    (Slim.labelsIn ws frm size).contains ith = getBit ws (frm + ith) := by
  rw [labelsIn_eq_filter, Bool.eq_iff_iff]
  simp [h]

theorem labelIdxOfKey_le (key : Bytes) (i : Nat) (big : Bool) :
    labelIdxOfKey (nibs key) i big ≤ if big then 256 else 16 := by
  unfold labelIdxOfKey
  simp only [nibs_getD_w]
  have hb := getD_map_lt_w key (i / 2)
  have hb1 := getD_map_lt_w key ((i - i % 2) / 2)
  have hb2 := getD_map_lt_w key ((i - i % 2 + 1) / 2)
  cases big <;> simp only [Bool.false_eq_true, if_false, if_true] <;> repeat' split
  all_goals omega

/-- the session of an inner node with `size` label bits: a short node (`short = some bm`) has word
    size 4, `ShortSize` bits and its 17-bit bitmap cached in `qr.bm`; any other node has 17 bits (word
    size 4) or 257 bits (word size 8), and `getLeftChildID` tells it from a short node by its size -/
def NodeShape (s : SlimMsg) (qr : W.querySession) (size : Nat) (short : Option Nat) : Prop :=
  match short with
  | some bm => qr.wordSize = 4 ∧ size = s.shortSize ∧ qr.bm = bm
  | none => (qr.wordSize = 4 ∧ size = 17 ∨ qr.wordSize = 8 ∧ size = 257) ∧ size ≠ s.shortSize

/-- `getLeftChildID` whole, on the session of an inner node whose label bitmap is at bits
    `[frm, frm + size)` of `Inners` (`short = some bm`: a short node, the 17-bit bitmap `bm` is cached
    in `qr.bm`): the rank of the label the key selects, counted from the start of `Inners`, and
    whether that label is present.  `Inners` carries the rank index `IndexRank128` computes. -/
theorem getLeftChildID_sem (s : SlimMsg) (v : Option W.slimVars) (ws : List Nat) (qr : W.querySession)
    (key : Bytes) (i frm size : Nat) (short : Option Nat)
    (hinn : s.inners = some (mk ws "r128"))
    (hkey : qr.key = natBytes key) (hkl : qr.keyBitLen = 8 * key.length)
    (hlen : 8 * key.length < 2 ^ 31) (hi : 4 * i < 2 ^ 31)
    (hfrom : qr.from_ = frm) (hto : qr.to = frm + size)
    (hshape : NodeShape s qr size short)
    (hsz : 0 < size) (hrange : frm + size ≤ 64 * ws.length) (hfit : 64 * ws.length + 64 < 2 ^ 31)
    (hss : s.shortSize < 2 ^ 31) :
    W.SlimTrie.getLeftChildID { inner := some (absSlim s), vars := v } qr (4 * i)
      = some (cnt (getBit ws) frm
                + rankLabels (nodeLabels ws frm size short) (labelIdxOfKey (nibs key) i (qr.wordSize == 8)),
              b2n ((nodeLabels ws frm size short).contains (labelIdxOfKey (nibs key) i (qr.wordSize == 8)))) := by
  unfold NodeShape at hshape
  have hws : qr.wordSize = 4 ∨ qr.wordSize = 8 := by
    cases short with
    | some bm => exact Or.inl hshape.1
    | none => rcases hshape.1 with h | h; exact Or.inl h.1; exact Or.inr h.1
  have hith := labelIdxOfKey_le key i (qr.wordSize == 8)
  have hsub : Go.sub 32 (frm + size) frm = size := by
    rw [sub_small (by omega) (by omega)]; omega
  unfold W.SlimTrie.getLeftChildID
  simp only [getLabelIdxOfKeyW_sem _ qr key i hkey hkl hws hlen hi, Go.deref, Option.bind_eq_bind,
    Option.pure_def, Option.bind_some, absSlim, hinn, Option.map_some, absBitmap, mk_r128, hfrom, hto, hsub]
  generalize labelIdxOfKey (nibs key) i (qr.wordSize == 8) = ith at hith ⊢
  cases short with
  | some bm =>
    obtain ⟨hw4, hsize, hbm⟩ := hshape
    have hi16 : ith ≤ 16 := by simpa [hw4] using hith
    -- the facts the short branch needs, whatever the order of its statements
    have hp : Go.popcount64 (bm % 2 ^ ith) = ((List.range ith).filter bm.testBit).length :=
      popcount_spec bm ith (by omega)
    have hle : ((List.range ith).filter bm.testBit).length ≤ ith := by
      have := List.length_filter_le bm.testBit (List.range ith); simpa using this
    have hrk := rankLabels_bm17 bm ith (by omega)
    have hcf := cnt_le (getBit ws) frm
    have hcv : Go.conv 64 true 32 ((List.range ith).filter bm.testBit).length
        = ((List.range ith).filter bm.testBit).length := by
      rw [conv_narrow _ _ _ _ (by omega)]; omega
    have e1 : Go.add 32 (cnt (getBit ws) frm) ((List.range ith).filter bm.testBit).length
        = cnt (getBit ws) frm + ((List.range ith).filter bm.testBit).length := add_small (by omega)
    have e1' : Go.add 32 ((List.range ith).filter bm.testBit).length (cnt (getBit ws) frm)
        = cnt (getBit ws) frm + ((List.range ith).filter bm.testBit).length := by
      rw [add_small (by omega)]; omega
    have e2 : Go.conv 64 false 32 (Go.and (Go.shr bm (Go.conv 32 true 64 ith)) 1)
        = b2n (((List.range Slim.innerSize).filter (fun k => bm.testBit k)).contains ith) := by
      rw [conv_widen_small _ _ _ (by omega) (by omega), conv_narrow _ _ _ _ (by omega), and_eq, Go.shr,
        Nat.and_one_is_mod, Nat.shiftRight_eq_div_pow]
      have hc : ((List.range Slim.innerSize).filter (fun k => bm.testBit k)).contains ith = bm.testBit ith := by
        rw [Bool.eq_iff_iff]; simp [Slim.innerSize]; omega
      rw [hc, Nat.testBit_eq_decide_div_mod_eq]
      unfold b2n
      by_cases hb : bm / 2 ^ ith % 2 = 1 <;> simp [hb] <;> omega
    have hne : (s.shortSize != s.shortSize) = false := by simp
    simp only [hsize, beq_self_eq_true, hne, Bool.false_eq_true, if_true, if_false, nodeLabels,
      rank128_mk_sem ws frm (by omega) hfit, maskAt_le ith (by omega), Option.bind_some, mask64_and, mask64_and',
      hbm, hp, hcv, e1, e1', e2, hrk]
  | none =>
    obtain ⟨hcase, hne⟩ := hshape
    have hlt : ith < size := by
      rcases hcase with ⟨h4, hs⟩ | ⟨h8, hs⟩
      · have : ith ≤ 16 := by simpa [h4] using hith
        omega
      · have : ith ≤ 256 := by simpa [h8] using hith
        omega
    have hneq : (size == s.shortSize) = false := by simpa using hne
    have hneq' : (size != s.shortSize) = true := by simpa using hne
    have hadd : Go.add 32 frm ith = frm + ith := by go_simp
    have hadd' : Go.add 32 ith frm = frm + ith := by rw [add_small (by omega)]; omega
    simp only [hneq, hneq', Bool.false_eq_true, if_false, if_true, nodeLabels, hadd, hadd',
      rank128_mk_sem ws (frm + ith) (by omega) hfit, Option.bind_some,
      cnt_add, rankLabels_labelsIn ws frm size ith (by omega), contains_labelsIn ws frm size ith hlt]

/-- in the model's terms: `getLeftChildID` on the session of the inner node `r` is `leftChildID r` -/
theorem getLeftChildID_model (r : InnerRec) (ws : List Nat) (frm size : Nat) (short : Option Nat) (ith : Nat)
    (hl : r.labels = nodeLabels ws frm size short) (hfc : r.firstChild = cnt (getBit ws) frm + 1) :
    leftChildID r ith
      = (((cnt (getBit ws) frm + rankLabels (nodeLabels ws frm size short) ith : Nat) : Int),
         (nodeLabels ws frm size short).contains ith) := by
  unfold leftChildID
  rw [hl, hfc]
  congr 1
  omega

/-! non-vacuity: node 1 of `exSlim` (labels 4, 5 at bits [17, 34) of `Inners`), key "abd" at bit 20 -/

def exQr1 : W.querySession :=
  { exQr with wordSize := 4, from_ := 17, to := 34, isInner := 1, ithInner := 1, hasInnerPrefix := true,
              innerPrefixLen := 12, innerPrefix := [98, 96, 240] }

example : W.SlimTrie.getLabelIdxOfKey { inner := none, vars := none } exQr1 20 = some 5 := by decide
example : W.SlimTrie.getLeftChildID { inner := some (absSlim exSlim), vars := none } exQr1 20 = some (3, 1) := by decide
example : W.SlimTrie.getLeftChildID { inner := some (absSlim exSlim), vars := none } exQr1 24 = some (2, 0) := by decide
example : W.SlimTrie.getLeftChildID { inner := none, vars := none } exQr1 20 = none := by decide
example : exSlim.inners = some (mk [2216209416204] "r128") := by decide
example : NodeShape exSlim exQr1 17 none := by unfold NodeShape; decide
example : leftChildID { big := false, labels := [4, 5], firstChild := 3, pref := .none } 5 = (3, true) := by decide

end BridgeSem

#print axioms BridgeSem.getLabelIdxOfKeyW_sem
#print axioms BridgeSem.getLeftChildID_sem
#print axioms BridgeSem.getLeftChildID_model
