import SlimProofs.InstanceLemmas
/-
  C20 — "Building does not modify the caller's key slice, value slice or option struct.  Unmarshal
  neither modifies nor retains the input buffer: overwriting the buffer afterwards changes no answer,
  also for legacy streams whose prefixes are re-encoded during load.  Bytes returned by Marshal are
  independent of the trie: overwriting them changes neither later answers nor later Marshal output."

  What a theorem can carry here is the logic of ownership, on the machine of
  `SlimModel/Buffers.lean` whose semantics is by value (what the Go code is meant to do: build and
  load copy out of the caller's memory, `Marshal` returns a fresh slice).  Whether the Go code really
  never aliases is a fact about the runtime heap; it is tied to this machine by the correspondence
  run (`trie.new-checked`, `trie.unmarshal-scribble`, `trie.marshal-scribble`: real buffers
  overwritten with 0x00 / 0xff / random bytes after each call, every later answer and `Marshal`
  compared with the model's).  So these theorems are the model half; with respect to Go's aliasing
  semantics the property as a whole is not fully proved (DESIGN §6 C20 labels it accordingly).
-/
open Buffers

/-- Build, load and queries leave every caller buffer as it was (only `marshalInto`, which the
    caller asks to fill a buffer, and the caller's own `scribble` write one). -/
theorem C20_inputs_unchanged (s : State) (op : Op)
    (h : match op with | .scribble _ _ => False | .marshalInto _ => False | _ => True) :
    (step s op).1.bufs = s.bufs := step_bufs_unchanged s op h

/-- … in particular: after `buildFrom` every key and value buffer, after `unmarshalFrom` the input
    buffer, reads as before. -/
theorem C20_inputs_unchanged_read (s : State) (id : Nat) :
    (∀ ks vs opt, getBuf (step s (.buildFrom ks vs opt)).1.bufs id = getBuf s.bufs id) ∧
    getBuf (step s (.unmarshalFrom id)).1.bufs id = getBuf s.bufs id := by
  refine ⟨?_, rfl⟩
  intro ks vs opt
  rw [C20_inputs_unchanged s (.buildFrom ks vs opt) trivial]

/-- Non-interference: in every history in which a scribbled-over buffer is not handed back as an
    input before the machine has rewritten it (`cleanFrom`), deleting all `scribble` operations
    changes nothing the caller sees — no build or load result, no query answer, no `Marshal`
    content — and not the final instance.  (Loads of every layout go through
    `Legacy.Instance.unmarshal`, conversions included.) -/
theorem C20_noninterference (s : State) (ops : List Op) (hc : cleanFrom [] ops = true) :
    (run s ops).2 = (run s (ops.filter (fun o => !o.isScribble))).2 ∧
    (run s ops).1.inst = (run s (ops.filter (fun o => !o.isScribble))).1.inst :=
  sim_run ops [] s s (sim_refl s) hc

/-- The scribble itself is arbitrary: two histories that differ only in WHAT is written over the
    buffers show the caller the same things. -/
theorem C20_pattern_irrelevant (s : State) (ops ops' : List Op) (hc : cleanFrom [] ops = true)
    (hc' : cleanFrom [] ops' = true)
    (h : ops.filter (fun o => !o.isScribble) = ops'.filter (fun o => !o.isScribble)) :
    (run s ops).2 = (run s ops').2 := by
  rw [(C20_noninterference s ops hc).1, (C20_noninterference s ops' hc').1, h]

/-! ### non-vacuity -/

/-- load from buffer 1, overwrite it with 0xff, query, marshal into buffer 2, overwrite that with
    zeros, marshal again into buffer 3, query: a clean history with all kinds of operations -/
def C20.exOps : List Op :=
  [.unmarshalFrom 1, .scribble 1 .ones, .query (.get [0x61]), .marshalInto 2, .scribble 2 .zeros,
   .marshalInto 3, .scribble 3 (.cycle [7, 9]), .query (.scanFrom [] true true), .query .stat,
   .buildFrom [4, 5] (some [6, 6]) {}, .scribble 4 .zeros, .query (.search [0x62])]

example : cleanFrom [] C20.exOps = true := by decide

example : C20.exOps.filter (fun o => !o.isScribble) =
    [.unmarshalFrom 1, .query (.get [0x61]), .marshalInto 2, .marshalInto 3, .query (.scanFrom [] true true),
     .query .stat, .buildFrom [4, 5] (some [6, 6]) {}, .query (.search [0x62])] := rfl

/-- handing a scribbled buffer back as input is (rightly) not covered -/
example : cleanFrom [] [.marshalInto 1, .scribble 1 .zeros, .unmarshalFrom 1] = false := by decide
/-- … unless the machine rewrote it in between -/
example : cleanFrom [] [.scribble 1 .zeros, .marshalInto 1, .unmarshalFrom 1] = true := by decide

example : Pattern.fill (.cycle [7, 9]) 5 = [7, 9, 7, 9, 7] := by decide

example (s : State) : (run s C20.exOps).2 = (run s (C20.exOps.filter (fun o => !o.isScribble))).2 :=
  (C20_noninterference s _ (by decide)).1

#print axioms C20_inputs_unchanged
#print axioms C20_inputs_unchanged_read
#print axioms C20_noninterference
#print axioms C20_pattern_irrelevant
