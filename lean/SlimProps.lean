import SlimProps.Bridge
import SlimProps.C04
import SlimProps.C08
