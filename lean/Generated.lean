import Generated.Facts
import Generated.GoSem
import Generated.Funcs
