import SlimModel.BitsPop
/-
  SlimModel.BitsCore — first half of `SlimModel.Bits` (see there): the bitmap functions that have
  a faster, proved-equal implementation in `SlimModel.BitsFast` (`@[csimp]`), which has to be in
  scope before their users (`mk`, `select32R64`, …) are compiled.  The definitions are the
  specification the proofs are about; their text is unchanged.
-/

namespace Bits

/-- `bitmap.Of(positions, capa)`: positions are ascending; capacity is at least `capa` bits,
    rounded up to whole words. -/
def ofIdx (idxs : List Nat) (capa : Nat) : List Nat :=
  let n := max capa (match idxs.getLast? with | some l => l + 1 | none => 0)
  let nWords := (n + 63) / 64
  let arr := idxs.foldl (fun (a : Array Nat) i => a.modify (i / 64) (· ||| (1 <<< (i % 64))))
    (Array.replicate nWords 0)
  arr.toList

/-- `bitmap.OfMany(subs, sizes)`: concatenation of sub-bitmaps of the given sizes -/
def ofMany (subs : List (List Nat)) (sizes : List Nat) : List Nat :=
  let rec go : List (List Nat) → List Nat → Nat → List Nat → List Nat × Nat
    | s :: ss, z :: zs, base, acc => go ss zs (base + z) (acc ++ s.map (base + ·))
    | _, _, base, acc => (acc, base)
  let (r, base) := go subs sizes 0 []
  ofIdx r base

/-- `bitmap.IndexRank64(words, trailing)` -/
def indexRank64 (words : List Nat) (trailing : Bool) : List Nat :=
  let rec go : List Nat → Nat → List Nat
    | [], n => if trailing then [n] else []
    | w :: ws, n => n :: go ws (n + popcount w)
  go words 0

/-- `bitmap.IndexRank128(words)` -/
def indexRank128 (words : List Nat) : List Nat :=
  let rec go : List Nat → Nat → List Nat
    | [], n => [n]                       -- even number of words: trailing total
    | [_], n => [n]                      -- odd: the last entry covers the single last word
    | w1 :: w2 :: ws, n => n :: go ws (n + popcount w1 + popcount w2)
  go words 0

/-- `bitmap.ToArray(words)`: positions of the set bits -/
def toArray (words : List Nat) : List Nat :=
  (List.range (words.length * 64)).filter (fun i => (words.getD (i / 64) 0).testBit (i % 64))

/-- select index part of `IndexSelect32R64`: position of every 32nd set bit -/
def indexSelect32 (words : List Nat) : List Nat :=
  let ones := toArray words
  (List.range ((ones.length + 31) / 32)).map (fun k => ones.getD (k * 32) 0)

/-- position of the `k`-th (0-based) set bit of `w` at or above bit `from`, if any -/
def selectInWord (w : Nat) (k : Nat) : Option Nat :=
  ((List.range 64).filter (fun i => w.testBit i))[k]?

/-- first set bit position ≥ `pos` in `words`, else `words.length * 64` -/
def nextOne (words : List Nat) (pos : Nat) : Nat :=
  let total := words.length * 64
  match (List.range' pos (total - pos)).find? (fun i => (words.getD (i / 64) 0).testBit (i % 64)) with
  | some i => i
  | none => total

end Bits
