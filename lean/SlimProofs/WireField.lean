import SlimProofs.WireVarint
/-
  SlimProofs.WireField — one field at a time: `readField` on what the field writers emit, the step
  lemmas of the field loop `decodeMsg`, packed payloads, and the sizes of the field writers.
-/
namespace Wire

/-- A field number whose keys fit a uint64 (every number of these schemas is below 2^29). -/
def FnoOK (fno : Nat) : Prop := 1 ≤ fno ∧ fno < 2 ^ 60

theorem key_div {fno wt : Nat} (hw : wt < 8) : (fno * 8 + wt) / 8 = fno := by omega
theorem key_mod {fno wt : Nat} (hw : wt < 8) : (fno * 8 + wt) % 8 = wt := by omega

theorem readField_varintF {fno v : Nat} (hf : FnoOK fno) (hv : v < 2 ^ 64) (rest : Bytes) :
    readField (tag fno 0 ++ (varint v ++ rest)) =
      .ok (fno * 8 + 0, .varint v, varint v, (tag fno 0).length + (varint v).length) := by
  obtain ⟨h1, h2⟩ := hf
  have hk : fno * 8 + 0 < 2 ^ 64 := by omega
  unfold readField tag
  rw [decodeVarint_varint hk]
  have hd : ¬ ((fno * 8 + 0) / 8 = 0) := by omega
  simp only [hd, if_false, List.drop_left, key_mod (show 0 < 8 by omega)]
  unfold readValue
  simp only [decodeVarint_varint hv]
  simp

theorem readField_lenDelim {fno : Nat} (hf : FnoOK fno) (p : Bytes) (hp : p.length < 2 ^ 64) (rest : Bytes) :
    readField (tag fno 2 ++ (varint p.length ++ (p ++ rest))) =
      .ok (fno * 8 + 2, .bytes p, varint p.length ++ p,
        (tag fno 2).length + ((varint p.length).length + p.length)) := by
  obtain ⟨h1, h2⟩ := hf
  have hk : fno * 8 + 2 < 2 ^ 64 := by omega
  unfold readField tag
  rw [decodeVarint_varint hk]
  have hd : ¬ ((fno * 8 + 2) / 8 = 0) := by omega
  simp only [hd, if_false, List.drop_left, key_mod (show 2 < 8 by omega)]
  unfold readValue
  simp only [decodeVarint_varint hp]
  have hlen : ¬ ((varint p.length ++ (p ++ rest)).length - (varint p.length).length < p.length) := by
    simp
  simp only [hlen, if_false, List.drop_left, List.take_left]
  congr 3
  rw [← List.append_assoc, List.take_left']
  simp

/-- One turn of the field loop on an encoded field `e` (non-empty) followed by `rest`. -/
theorem decodeMsg_step {α : Type} (h : α → Nat → WVal → Except Err (Option α)) (u : α → Bytes → α)
    (acc : α) (e rest : Bytes) {x : Nat} {v : WVal} {raw : Bytes}
    (hr : readField (e ++ rest) = .ok (x, v, raw, e.length)) (hne : e ≠ []) :
    decodeMsg h u acc (e ++ rest) =
      match h acc (x / 8) v with
      | .error er => .error er
      | .ok (some acc') => decodeMsg h u acc' rest
      | .ok none => decodeMsg h u (u acc (varint x ++ raw)) rest := by
  cases e with
  | nil => exact absurd rfl hne
  | cons b e' =>
    simp only [List.cons_append] at hr ⊢
    rw [decodeMsg]
    simp only [hr, List.length_cons, Nat.add_sub_cancel, List.drop_left]
    rfl

theorem decodeMsg_nil {α : Type} (h : α → Nat → WVal → Except Err (Option α)) (u : α → Bytes → α)
    (acc : α) : decodeMsg h u acc [] = .ok acc := by
  rw [decodeMsg]

theorem tag_ne_nil (fno wt : Nat) : tag fno wt ≠ [] := varint_ne_nil _

/-- A known scalar field. -/
theorem decodeMsg_varintF {α : Type} (h : α → Nat → WVal → Except Err (Option α)) (u : α → Bytes → α)
    (acc acc' : α) {fno v : Nat} (hf : FnoOK fno) (hv : v < 2 ^ 64) (rest : Bytes)
    (hh : h acc fno (.varint v) = .ok (some acc')) :
    decodeMsg h u acc (tag fno 0 ++ varint v ++ rest) = decodeMsg h u acc' rest := by
  have hr := readField_varintF hf hv rest
  rw [← List.length_append, ← List.append_assoc] at hr
  rw [decodeMsg_step h u acc _ rest hr (by simp [tag_ne_nil]), key_div (by omega), hh]

/-- A known length-delimited field. -/
theorem decodeMsg_lenDelim {α : Type} (h : α → Nat → WVal → Except Err (Option α)) (u : α → Bytes → α)
    (acc acc' : α) {fno : Nat} (hf : FnoOK fno) (p : Bytes) (hp : p.length < 2 ^ 64) (rest : Bytes)
    (hh : h acc fno (.bytes p) = .ok (some acc')) :
    decodeMsg h u acc (tag fno 2 ++ varint p.length ++ p ++ rest) = decodeMsg h u acc' rest := by
  have hr := readField_lenDelim hf p hp rest
  have e1 : tag fno 2 ++ (varint p.length ++ (p ++ rest)) = (tag fno 2 ++ varint p.length ++ p) ++ rest := by
    simp
  have e2 : (tag fno 2).length + ((varint p.length).length + p.length) =
      (tag fno 2 ++ varint p.length ++ p).length := by simp
  rw [e1, e2] at hr
  rw [decodeMsg_step h u acc _ rest hr (by simp [tag_ne_nil]), key_div (by omega), hh]

/-! ### packed payloads -/

theorem unpack_nil : unpack [] = .ok [] := by rw [unpack]

theorem unpack_varint_append {x : Nat} (hx : x < 2 ^ 64) (rest : Bytes) :
    unpack (varint x ++ rest) =
      match unpack rest with
      | .error e => .error e
      | .ok l => .ok (x :: l) := by
  have hd := decodeVarint_varint hx rest
  cases hv : varint x with
  | nil => exact absurd hv (varint_ne_nil x)
  | cons b t =>
    rw [hv] at hd
    simp only [List.cons_append] at hd ⊢
    rw [unpack]
    simp only [hd, List.length_cons, Nat.add_sub_cancel, List.drop_left]
    rfl

theorem unpack_packedPayload (l : List Nat) (h : ∀ x ∈ l, x < 2 ^ 64) :
    unpack (packedPayload l) = .ok l := by
  induction l with
  | nil => simp [packedPayload, unpack_nil]
  | cons x xs ih =>
    have hx : x < 2 ^ 64 := h x (by simp)
    have hxs : ∀ y ∈ xs, y < 2 ^ 64 := fun y hy => h y (by simp [hy])
    have : packedPayload (x :: xs) = varint x ++ packedPayload xs := by simp [packedPayload]
    rw [this, unpack_varint_append hx, ih hxs]

theorem toInt32_id {x : Nat} (h : x < 2 ^ 31) : toInt32 x = .ok x := by
  have h1 : x % 2 ^ 32 = x := Nat.mod_eq_of_lt (by omega)
  simp [toInt32, h1]

theorem toUint32_id {x : Nat} (h : x < 2 ^ 32) : toUint32 x = x := Nat.mod_eq_of_lt h

theorem mapInt32_id (l : List Nat) (h : ∀ x ∈ l, x < 2 ^ 31) : mapInt32 l = .ok l := by
  induction l with
  | nil => rfl
  | cons x xs ih =>
    have hx : x < 2 ^ 31 := h x (by simp)
    have hxs : ∀ y ∈ xs, y < 2 ^ 31 := fun y hy => h y (by simp [hy])
    simp [mapInt32, toInt32_id hx, ih hxs]

theorem map_toUint32_id (l : List Nat) (h : ∀ x ∈ l, x < 2 ^ 32) : l.map toUint32 = l := by
  induction l with
  | nil => rfl
  | cons x xs ih =>
    have hx : x < 2 ^ 32 := h x (by simp)
    have hxs : ∀ y ∈ xs, y < 2 ^ 32 := fun y hy => h y (by simp [hy])
    simp [toUint32_id hx, ih hxs]

theorem repU64_packed (l : List Nat) (h : ∀ x ∈ l, x < 2 ^ 64) :
    repU64 [] (.bytes (packedPayload l)) = .ok (some l) := by
  simp [repU64, repVals, unpack_packedPayload l h]

theorem repI32_packed (l : List Nat) (h : ∀ x ∈ l, x < 2 ^ 31) :
    repI32 [] (.bytes (packedPayload l)) = .ok (some l) := by
  have h64 : ∀ x ∈ l, x < 2 ^ 64 := fun x hx => by have := h x hx; omega
  simp [repI32, repVals, unpack_packedPayload l h64, mapInt32_id l h]

theorem repU32_packed (l : List Nat) (h : ∀ x ∈ l, x < 2 ^ 32) :
    repU32 [] (.bytes (packedPayload l)) = .ok (some l) := by
  have h64 : ∀ x ∈ l, x < 2 ^ 64 := fun x hx => by have := h x hx; omega
  simp [repU32, repVals, unpack_packedPayload l h64, map_toUint32_id l h]

/-! ### sizes -/

theorem packedPayload_length (l : List Nat) : (packedPayload l).length = packedSize l := by
  induction l with
  | nil => rfl
  | cons x xs ih =>
    have : packedPayload (x :: xs) = varint x ++ packedPayload xs := by simp [packedPayload]
    rw [this, List.length_append, ih, varint_length]; simp [packedSize]

theorem encVarintF_length (fno v : Nat) : (encVarintF fno v).length = sizeVarintF fno v := by
  unfold encVarintF sizeVarintF
  split <;> simp [tag, varint_length]

theorem encPackedF_length (fno : Nat) (l : List Nat) : (encPackedF fno l).length = sizePackedF fno l := by
  unfold encPackedF sizePackedF
  split <;> simp [tag, varint_length, packedPayload_length, Nat.add_assoc]

theorem encBytesF_length (fno : Nat) (b : Bytes) : (encBytesF fno b).length = sizeBytesF fno b := by
  unfold encBytesF sizeBytesF
  split <;> simp [tag, varint_length, Nat.add_assoc]

theorem encMsgF_length (fno : Nat) (o : Option Bytes) :
    (encMsgF fno o).length = sizeMsgF fno (o.map List.length) := by
  cases o <;> simp [encMsgF, sizeMsgF, tag, varint_length, Nat.add_assoc]

end Wire
