import SlimModel.ArrayPkg
import SlimProofs.ArrayPkg
import SlimProofs.ArrayPkgGet
import SlimProofs.ArrayPkgInit
/-
  Property C16 — compacted arrays behave as a sparse map and survive serialization.

  Model: `SlimModel/ArrayPkg.lean` (array.Base, typed arrays, generic Array, GetBytes, field-level
  protobuf round trip).  Specification: `ArrayPkg.lookup idx elts i`, the element paired with
  position `i` in the parallel lists (`C16_lookup_spec` characterises it).

  Hypotheses of the positive theorems (`Valid`): the positions are strictly ascending, as many as
  the elements, fit `bitmap.Of`'s int32 word count (`x + 65 ≤ 2^31`; the property's domain is
  `[0, 2^20)`), and the packed elements fit int32 offsets (`|idx|·w < 2^31`, the Go code computes
  `stIdx` in int32).  No other bound: all sizes, by induction.
-/
namespace C16
open Encode ArrayPkg

/-- Valid constructor input: `n` elements of encoded width `w` at the positions `idx`. -/
structure Valid (idx : List Nat) (n w : Nat) : Prop where
  asc : StrictAsc idx
  len : idx.length = n
  range : ∀ x ∈ idx, x + 65 ≤ 2 ^ 31
  size : idx.length * w < 2147483648

/-- `lookup` is the sparse map: the `p`-th element at the `p`-th position, nothing elsewhere. -/
theorem C16_lookup_spec {α : Type} (idx : List Nat) (elts : List α) (hasc : StrictAsc idx)
    (hlen : idx.length = elts.length) :
    (∀ p (h : p < idx.length), lookup idx elts idx[p] = some (elts[p]'(hlen ▸ h))) ∧
    (∀ i, i ∉ idx → lookup idx elts i = none) := by
  refine ⟨?_, fun i hi => lookup_none_of_not_mem idx elts i hi⟩
  induction idx generalizing elts with
  | nil => intro p h; simp at h
  | cons i is ih =>
    cases elts with
    | nil => simp at hlen
    | cons e es =>
      have hasc' := List.pairwise_cons.mp hasc
      intro p h
      cases p with
      | zero => simp [lookup]
      | succ p =>
        have hp : p < is.length := by simpa using h
        have hne : ¬ i = is[p] := by
          have := hasc'.1 is[p] (List.getElem_mem hp)
          omega
        simp only [List.getElem_cons_succ, lookup, if_neg hne]
        exact ih es hasc'.2 (by simpa using hlen) p hp

/-! ## C16_get — typed, generic and raw accessors return exactly the sparse map -/

private theorem map_int_cast (elts : List Nat) :
    (elts.map (fun e : Nat => (e : Int))).map Val.int = elts.map (fun e : Nat => Val.int (e : Int)) := by
  simp [List.map_map, Function.comp_def]

/-- Typed unsigned arrays (`w` = 2, 4, 8: `array.U16`, `U32`, `U64`): every element value of the
    full range, every probe within the bitmap span; `Get` and `GetBytes`. -/
theorem C16_get_typed_unsigned (w : Nat) (idx : List Nat) (elts : List Nat)
    (hv : Valid idx elts.length w) (hdom : ∀ e ∈ elts, InU w e) :
    ∃ a, newTyped (.prim false w) (idx.map Int.ofNat) (elts.map (fun e : Nat => (e : Int)))
          = .ok (some a, none) ∧
      ∀ i : Nat, i < 64 * a.bitmaps.length →
        a.getU w (i : Int) = .ok (resU (lookup idx elts i)) ∧
        a.getBytes (i : Int) w = .ok ((lookup idx elts i).map (leBytes w)) := by
  have hcast : (2 : Int) ^ (8 * w) = (((2 : Nat) ^ (8 * w) : Nat) : Int) := by simp
  have hd : ∀ e ∈ elts.map (fun e : Nat => (e : Int)), InDom (.prim false w) (.int e) := by
    intro e he
    obtain ⟨n, hn, rfl⟩ := List.mem_map.mp he
    exact .unsigned (by omega) (by rw [hcast]; exact Int.ofNat_lt.mpr (hdom n hn))
  obtain ⟨a, h1, h2, _⟩ := newTyped_ok false w idx _ hv.asc (by simpa using hv.len) hv.range hd hv.size
  rw [map_int_cast] at h2
  refine ⟨a, h1, fun i hi => ⟨h2.getU hdom i hi, ?_⟩⟩
  rw [h2.getBytes i hi, lookup_map, lookup_map]
  cases hl : lookup idx elts i with
  | none => rfl
  | some e =>
    have he := hdom e (lookup_mem idx elts i e hl)
    have hU : toU w (e : Int) = e := by
      rw [toU_of_nonneg (by omega) (by rw [hcast]; exact Int.ofNat_lt.mpr he)]; simp
    simp [encOf_prim, hU]

/-- Typed signed arrays (`w` = 2, 4, 8: `array.I16`, `I32`, `I64`). -/
theorem C16_get_typed_signed (w : Nat) (hw : 1 ≤ w) (idx : List Nat) (elts : List Int)
    (hv : Valid idx elts.length w) (hdom : ∀ e ∈ elts, InS w e) :
    ∃ a, newTyped (.prim true w) (idx.map Int.ofNat) elts = .ok (some a, none) ∧
      ∀ i : Nat, i < 64 * a.bitmaps.length →
        a.getS w (i : Int) = .ok (resS (lookup idx elts i)) ∧
        a.getBytes (i : Int) w =
          .ok ((lookup idx elts i).map (fun e => leBytes w (e % (2 : Int) ^ (8 * w)).toNat)) := by
  have hd : ∀ e ∈ elts, InDom (.prim true w) (.int e) := fun e he => .signed hw (hdom e he)
  obtain ⟨a, h1, h2, _⟩ := newTyped_ok true w idx elts hv.asc hv.len hv.range hd hv.size
  refine ⟨a, h1, fun i hi => ⟨h2.getS hw hdom i hi, ?_⟩⟩
  rw [h2.getBytes i hi, lookup_map, lookup_map]
  cases hl : lookup idx elts i with
  | none => rfl
  | some e => simp [encOf_prim, toU]

/-- Generic `array.Array` over any fixed-size element type `t` (integers, arrays, structs) built by
    `array.New`: `Get` decodes exactly the paired element, `GetBytes` returns its encoding. -/
theorem C16_get_generic (t : Ty) (idx : List Nat) (vals : List Val)
    (hv : Valid idx vals.length t.size) (hdom : ∀ v ∈ vals, InDom t v) :
    ∃ a, ArrayPkg.new (some t) (idx.map Int.ofNat) vals = .ok (some a, none) ∧
      ∀ i : Nat, i < 64 * a.bitmaps.length →
        a.get (i : Int) = .ok (lookup idx vals i) ∧
        a.getBytes (i : Int) t.size = .ok ((lookup idx vals i).map (encOf (TE .le t))) := by
  obtain ⟨a, h1, h2, h3⟩ := new_ok t idx vals hv.asc hv.len hv.range hdom hv.size
  refine ⟨a, h1, fun i hi => ?_⟩
  have hne : idx ≠ [] := by
    intro h
    have := h2.bm.1
    rw [h] at this
    simp [nWordsOf] at this
    have hb : a.bitmaps.length = 0 := by simpa using this
    omega
  exact ⟨h2.get (h3 hne) (te_fixedRT .le t) hdom i hi, by rw [h2.getBytes i hi, lookup_map]⟩

/-- Generic array with any preset round-tripping fixed-width `EltEncoder` (e.g. `encode.U32{}`,
    `encode.Bytes{n}`, a big-endian TypeEncoder). -/
theorem C16_get_generic_preset (enc : Enc) (D : Val → Prop) (w : Nat) (f : Val → Bytes)
    (hF : FixedRT enc.codec D w f) (ety : Option Ty) (idx : List Nat) (vals : List Val)
    (hv : Valid idx vals.length w) (hdom : ∀ v ∈ vals, D v) :
    ∃ a, Array.init { eltEncoder := some enc } ety (idx.map Int.ofNat) vals = .ok (a, none) ∧
      ∀ i : Nat, i < 64 * a.bitmaps.length →
        a.get (i : Int) = .ok (lookup idx vals i) ∧
        a.getBytes (i : Int) w = .ok ((lookup idx vals i).map f) := by
  obtain ⟨a, h1, h2, h3, h4⟩ := Array.init_ok { eltEncoder := some enc } ety enc D w f rfl hF idx vals
    hv.asc hv.len hv.range hdom hv.size (fun _ => rfl)
  refine ⟨a, h1, fun i hi => ?_⟩
  have he : a.eltEncoder = some enc := by
    by_cases hne : idx = []
    · rw [h4 hne]
    · exact h3 hne
  exact ⟨h2.get he hF hdom i hi, by rw [h2.getBytes i hi, lookup_map]⟩

/-! ## C16_roundtrip — marshal/unmarshal at the level of the message fields preserves `Get` -/

/-- The round trip copies every field of the message and keeps the target's element encoder. -/
theorem C16_roundtrip_fields (a b : Base) :
    (b.unmarshal a.marshal).toArray32 = a.toArray32 ∧
    (b.unmarshal a.marshal).eltEncoder = b.eltEncoder := ⟨rfl, rfl⟩

/-- typed → typed and typed → generic, unsigned element kinds. -/
theorem C16_roundtrip_typed_unsigned (w : Nat) (idx : List Nat) (elts : List Nat)
    (hv : Valid idx elts.length w) (hdom : ∀ e ∈ elts, InU w e) :
    ∃ a, newTyped (.prim false w) (idx.map Int.ofNat) (elts.map (fun e : Nat => (e : Int)))
          = .ok (some a, none) ∧
      ∀ i : Nat, i < 64 * a.bitmaps.length →
        -- into a fresh typed array
        (({} : Base).unmarshal a.marshal).getU w (i : Int) = .ok (resU (lookup idx elts i)) ∧
        -- into `NewEmpty(uintW(0))`
        ((newEmpty (.prim false w)).unmarshal a.marshal).get (i : Int) =
          .ok ((lookup idx elts i).map (fun e : Nat => Val.int (e : Int))) := by
  have hcast : (2 : Int) ^ (8 * w) = (((2 : Nat) ^ (8 * w) : Nat) : Int) := by simp
  have hd : ∀ e ∈ elts.map (fun e : Nat => (e : Int)), InDom (.prim false w) (.int e) := by
    intro e he
    obtain ⟨n, hn, rfl⟩ := List.mem_map.mp he
    exact .unsigned (by omega) (by rw [hcast]; exact Int.ofNat_lt.mpr (hdom n hn))
  obtain ⟨a, h1, h2, _⟩ := newTyped_ok false w idx _ hv.asc (by simpa using hv.len) hv.range hd hv.size
  refine ⟨a, h1, fun i hi => ⟨?_, ?_⟩⟩
  · have h2' : Holds (({} : Base).unmarshal a.marshal).toArray32 idx
        ((elts.map (fun e : Nat => Val.int (e : Int))).map (encOf (TE .le (.prim false w)))) w := by
      rw [map_int_cast] at h2; exact h2
    exact h2'.getU hdom i hi
  · have h2' : Holds ((newEmpty (.prim false w)).unmarshal a.marshal).toArray32 idx
        ((elts.map (fun e : Nat => Val.int (e : Int))).map (encOf (TE .le (.prim false w)))) w := by
      rw [map_int_cast] at h2; exact h2
    have hd' : ∀ v ∈ elts.map (fun e : Nat => Val.int (e : Int)), InDom (.prim false w) v := by
      intro v hv'
      obtain ⟨n, hn, rfl⟩ := List.mem_map.mp hv'
      exact .unsigned (by omega) (by rw [hcast]; exact Int.ofNat_lt.mpr (hdom n hn))
    have := h2'.get (enc := .typ .le (.prim false w)) rfl (te_fixedRT .le (.prim false w)) hd' i hi
    rw [this, lookup_map]

/-- typed → typed and typed → generic, signed element kinds. -/
theorem C16_roundtrip_typed_signed (w : Nat) (hw : 1 ≤ w) (idx : List Nat) (elts : List Int)
    (hv : Valid idx elts.length w) (hdom : ∀ e ∈ elts, InS w e) :
    ∃ a, newTyped (.prim true w) (idx.map Int.ofNat) elts = .ok (some a, none) ∧
      ∀ i : Nat, i < 64 * a.bitmaps.length →
        (({} : Base).unmarshal a.marshal).getS w (i : Int) = .ok (resS (lookup idx elts i)) ∧
        ((newEmpty (.prim true w)).unmarshal a.marshal).get (i : Int) =
          .ok ((lookup idx elts i).map Val.int) := by
  have hd : ∀ e ∈ elts, InDom (.prim true w) (.int e) := fun e he => .signed hw (hdom e he)
  obtain ⟨a, h1, h2, _⟩ := newTyped_ok true w idx elts hv.asc hv.len hv.range hd hv.size
  refine ⟨a, h1, fun i hi => ⟨?_, ?_⟩⟩
  · have h2' : Holds (({} : Base).unmarshal a.marshal).toArray32 idx
        ((elts.map Val.int).map (encOf (TE .le (.prim true w)))) w := h2
    exact h2'.getS hw hdom i hi
  · have h2' : Holds ((newEmpty (.prim true w)).unmarshal a.marshal).toArray32 idx
        ((elts.map Val.int).map (encOf (TE .le (.prim true w)))) w := h2
    have hd' : ∀ v ∈ elts.map Val.int, InDom (.prim true w) v := by
      intro v hv'
      obtain ⟨n, hn, rfl⟩ := List.mem_map.mp hv'
      exact hd n hn
    have := h2'.get (enc := .typ .le (.prim true w)) rfl (te_fixedRT .le (.prim true w)) hd' i hi
    rw [this, lookup_map]

/-- generic → generic (`NewEmpty` of the same element type), any element type of the universe. -/
theorem C16_roundtrip_generic (t : Ty) (idx : List Nat) (vals : List Val)
    (hv : Valid idx vals.length t.size) (hdom : ∀ v ∈ vals, InDom t v) :
    ∃ a, ArrayPkg.new (some t) (idx.map Int.ofNat) vals = .ok (some a, none) ∧
      ∀ i : Nat, i < 64 * a.bitmaps.length →
        ((newEmpty t).unmarshal a.marshal).get (i : Int) = .ok (lookup idx vals i) ∧
        ((newEmpty t).unmarshal a.marshal).getBytes (i : Int) t.size =
          .ok ((lookup idx vals i).map (encOf (TE .le t))) := by
  obtain ⟨a, h1, h2, _⟩ := new_ok t idx vals hv.asc hv.len hv.range hdom hv.size
  refine ⟨a, h1, fun i hi => ?_⟩
  have h2' : Holds ((newEmpty t).unmarshal a.marshal).toArray32 idx
      (vals.map (encOf (TE .le t))) t.size := h2
  exact ⟨h2'.get (enc := .typ .le t) rfl (te_fixedRT .le t) hdom i hi,
    by rw [h2'.getBytes i hi, lookup_map]⟩

/-- generic → typed, for the integer element kinds the typed arrays exist for. -/
theorem C16_roundtrip_generic_to_typed_unsigned (w : Nat) (idx : List Nat) (elts : List Nat)
    (hv : Valid idx elts.length w) (hdom : ∀ e ∈ elts, InU w e) :
    ∃ a, ArrayPkg.new (some (.prim false w)) (idx.map Int.ofNat)
          (elts.map (fun e : Nat => Val.int (e : Int))) = .ok (some a, none) ∧
      ∀ i : Nat, i < 64 * a.bitmaps.length →
        (({} : Base).unmarshal a.marshal).getU w (i : Int) = .ok (resU (lookup idx elts i)) := by
  have hcast : (2 : Int) ^ (8 * w) = (((2 : Nat) ^ (8 * w) : Nat) : Int) := by simp
  have hd' : ∀ v ∈ elts.map (fun e : Nat => Val.int (e : Int)), InDom (.prim false w) v := by
    intro v hv'
    obtain ⟨n, hn, rfl⟩ := List.mem_map.mp hv'
    exact .unsigned (by omega) (by rw [hcast]; exact Int.ofNat_lt.mpr (hdom n hn))
  obtain ⟨a, h1, h2, _⟩ := new_ok (.prim false w) idx _ hv.asc (by simpa using hv.len) hv.range hd'
    hv.size
  refine ⟨a, h1, fun i hi => ?_⟩
  have h2' : Holds (({} : Base).unmarshal a.marshal).toArray32 idx
      ((elts.map (fun e : Nat => Val.int (e : Int))).map (encOf (TE .le (.prim false w)))) w := h2
  exact h2'.getU hdom i hi

theorem C16_roundtrip_generic_to_typed_signed (w : Nat) (hw : 1 ≤ w) (idx : List Nat)
    (elts : List Int) (hv : Valid idx elts.length w) (hdom : ∀ e ∈ elts, InS w e) :
    ∃ a, ArrayPkg.new (some (.prim true w)) (idx.map Int.ofNat) (elts.map Val.int)
          = .ok (some a, none) ∧
      ∀ i : Nat, i < 64 * a.bitmaps.length →
        (({} : Base).unmarshal a.marshal).getS w (i : Int) = .ok (resS (lookup idx elts i)) := by
  have hd' : ∀ v ∈ elts.map Val.int, InDom (.prim true w) v := by
    intro v hv'
    obtain ⟨n, hn, rfl⟩ := List.mem_map.mp hv'
    exact .signed hw (hdom n hn)
  obtain ⟨a, h1, h2, _⟩ := new_ok (.prim true w) idx _ hv.asc (by simpa using hv.len) hv.range hd'
    hv.size
  refine ⟨a, h1, fun i hi => ?_⟩
  have h2' : Holds (({} : Base).unmarshal a.marshal).toArray32 idx
      ((elts.map Val.int).map (encOf (TE .le (.prim true w)))) w := h2
  exact h2'.getS hw hdom i hi

/-! ## C16_reject — invalid input is refused with the dedicated error and builds nothing -/

/-- Length mismatch (by any amount; checked first, so also for non-ascending lists):
    `ErrIndexLen`; `Init` returns the receiver untouched, the constructors return nil. -/
theorem C16_reject_index_len (a0 : Base) (ety : Option Ty) (t : Ty) (index : List Int)
    (vals : List Val) (elts : List Int) :
    (index.length ≠ vals.length →
      a0.init ety index vals = .ok (a0, some .indexLen) ∧
      Array.init a0 ety index vals = .ok (a0, some .indexLen) ∧
      ArrayPkg.new ety index vals = .ok (none, some .indexLen)) ∧
    (index.length ≠ elts.length →
      newTyped t index elts = .ok (none, some .indexLen)) := by
  refine ⟨fun h => ⟨Base.init_len_mismatch a0 ety index vals h,
    Array.init_len_mismatch a0 ety index vals h, ?_⟩, fun h => ?_⟩
  · unfold ArrayPkg.new
    simp [Array.init_len_mismatch {} ety index vals h, bind, Except.bind, pure, Except.pure]
  · unfold newTyped
    have h' : index.length ≠ (elts.map Val.int).length := by simpa using h
    simp [Base.init_len_mismatch {} (some t) index _ h', bind, Except.bind, pure, Except.pure]

/-- Equal or descending neighbours at any position (with matching lengths):
    `ErrIndexNotAscending`; `Init` returns the receiver untouched, the constructors return nil. -/
theorem C16_reject_not_ascending (a0 : Base) (ety : Option Ty) (t : Ty) (index : List Int)
    (vals : List Val) (elts : List Int) (h : ¬ index.Pairwise (· < ·)) :
    (index.length = vals.length →
      a0.init ety index vals = .ok (a0, some .indexNotAscending) ∧
      Array.init a0 ety index vals = .ok (a0, some .indexNotAscending) ∧
      ArrayPkg.new ety index vals = .ok (none, some .indexNotAscending)) ∧
    (index.length = elts.length →
      newTyped t index elts = .ok (none, some .indexNotAscending)) := by
  refine ⟨fun hl => ⟨Base.init_not_asc a0 ety index vals hl h,
    Array.init_not_asc a0 ety index vals hl h, ?_⟩, fun hl => ?_⟩
  · unfold ArrayPkg.new
    simp [Array.init_not_asc {} ety index vals hl h, bind, Except.bind, pure, Except.pure]
  · unfold newTyped
    have hl' : index.length = (elts.map Val.int).length := by simpa using hl
    simp [Base.init_not_asc {} (some t) index _ hl' h, bind, Except.bind, pure, Except.pure]

/-- "Not ascending" is exactly: some neighbours are equal or descending. -/
theorem C16_not_ascending_iff (index : List Int) :
    ¬ index.Pairwise (· < ·) ↔ ascCheck index = false := by
  rw [← ascCheck_iff]; cases ascCheck index <;> simp

/-! ## non-vacuity -/

/-- The package documentation's example: positions 1, 5, 9, 203 (three empty words in between). -/
example : Valid [1, 5, 9, 203] 4 2 :=
  ⟨by simp [StrictAsc], rfl, by intro x hx; simp at hx; omega, by decide⟩

/-- What `NewU16([1,5,9,203], [12,15,19,120])` builds (array/marshal_test.go; the harness replays it):
    the offset of the last word is 3, those of the two empty words are 0. -/
def sample : Base :=
  { cnt := 4, bitmaps := [546, 0, 0, 2048], offsets := [0, 0, 0, 3],
    elts := [12, 0, 15, 0, 19, 0, 120, 0] }

example : (bitmapOf [1, 5, 9, 203]).toOption = some sample.bitmaps := by decide
example : zeroEmpty sample.bitmaps (indexRank64 sample.bitmaps) = sample.offsets := by decide
example : (sample.getU 2 203).toOption = some (120, true) := by decide
example : (sample.getU 2 64).toOption = some (0, false) := by decide
example : (sample.getBytes 9 2).toOption = some (some [19, 0]) := by decide
example : (sample.getU 2 256).toOption = none := by decide   -- beyond the span: Go panics

example : (∀ e ∈ [12, 15, 19, 120], InU 2 e) := by decide
example : lookup [1, 5, 9, 203] [12, 15, 19, 120] 203 = some 120 := by decide
example : lookup [1, 5, 9, 203] [12, 15, 19, 120] 64 = none := by decide
example : ¬ ([1, 5, 5, 203] : List Int).Pairwise (· < ·) := by decide
example : (newTyped .u16 [1, 5, 5, 203] [12, 15, 19, 120]).toOption.map (·.2) =
    some (some .indexNotAscending) := by decide
example : (newTyped .u16 [1, 5, 9, 203] [12, 15, 19]).toOption.map (·.2) = some (some .indexLen) := by
  decide

end C16

#print axioms C16.C16_lookup_spec
#print axioms C16.C16_get_typed_unsigned
#print axioms C16.C16_get_typed_signed
#print axioms C16.C16_get_generic
#print axioms C16.C16_get_generic_preset
#print axioms C16.C16_roundtrip_fields
#print axioms C16.C16_roundtrip_typed_unsigned
#print axioms C16.C16_roundtrip_typed_signed
#print axioms C16.C16_roundtrip_generic
#print axioms C16.C16_roundtrip_generic_to_typed_unsigned
#print axioms C16.C16_roundtrip_generic_to_typed_signed
#print axioms C16.C16_reject_index_len
#print axioms C16.C16_reject_not_ascending
#print axioms C16.C16_not_ascending_iff
