import SlimModel.Legacy
import SlimProofs.VLen
/-
  SlimProofs.LegacyLeaf — `before000512FixLeafSize` (model: `Legacy.fixLeafSize`): a 0.5.10 /
  0.5.11 stream stores only the bytes of its fixed-width leaves; the loader reconstructs `N`,
  `EltCnt`, `FixedSize` and a full presence bitmap from the encoder's width.

  `fixLeafSize_eq_new`: the reconstructed array is *the same message* `Slim.newVLenArray` (today's
  builder) creates for the same values — so everything proved about `newVLenArray` (`SlimProofs.VLen`)
  holds for it; in particular `Slim.vlenGet` returns the `i`-th value.
-/
open Bits

namespace Legacy

theorem sum_const_length (vals : List Bytes) (w : Nat) (h : ∀ v ∈ vals, v.length = w) :
    (vals.map List.length).sum = w * vals.length := by
  induction vals with
  | nil => simp
  | cons v vs ih =>
    simp only [List.map_cons, List.sum_cons, List.length_cons]
    rw [ih (fun x hx => h x (List.mem_cons_of_mem _ hx)), h v List.mem_cons_self, Nat.mul_succ]
    omega

theorem filter_pos_const (vals : List Bytes) (w : Nat) (hw : 0 < w) (h : ∀ v ∈ vals, v.length = w) :
    (vals.map List.length).filter (· > 0) = vals.map List.length := by
  apply List.filter_eq_self.mpr
  intro s hs
  obtain ⟨v, hv, rfl⟩ := List.mem_map.mp hs
  rw [h v hv]; simpa using hw

theorem nonEmptyIdx_const (vals : List Bytes) (w : Nat) (hw : 0 < w) (h : ∀ v ∈ vals, v.length = w) :
    Slim.nonEmptyIdx vals = List.range vals.length := by
  unfold Slim.nonEmptyIdx
  apply List.filter_eq_self.mpr
  intro i hi
  have hi' : i < vals.length := List.mem_range.mp hi
  rw [List.getD_eq_getElem?_getD, List.getElem?_map, List.getElem?_eq_getElem hi']
  simp only [Option.map_some, Option.getD_some, gt_iff_lt, decide_eq_true_eq]
  rw [h _ (List.getElem_mem hi')]; exact hw

theorem map_length_const (vals : List Bytes) (w : Nat) (h : ∀ v ∈ vals, v.length = w) :
    vals.map List.length = List.replicate vals.length w := by
  induction vals with
  | nil => rfl
  | cons v vs ih =>
    simp only [List.map_cons, List.length_cons, List.replicate_succ]
    rw [ih (fun x hx => h x (List.mem_cons_of_mem _ hx)), h v List.mem_cons_self]

theorem allEqual_replicate (n w : Nat) : Slim.allEqual (List.replicate n w) = true := by
  cases n with
  | zero => rfl
  | succ n => simp [Slim.allEqual, List.replicate_succ]

/-- What today's builder creates for `vals` of one width `w > 0`. -/
theorem newVLenArray_const (vals : List Bytes) (w : Nat) (hw : 0 < w) (hne : vals ≠ [])
    (h : ∀ v ∈ vals, v.length = w) :
    Slim.newVLenArray vals =
      some { n := vals.length, eltCnt := vals.length, fixedSize := w, bytes := vals.flatten,
             presenceBM := some (newBM (List.range vals.length) vals.length "r64") } := by
  have hlen : 0 < vals.length := List.length_pos_iff.mpr hne
  rw [Slim.newVLenArray_eq, filter_pos_const vals w hw h, nonEmptyIdx_const vals w hw h,
    sum_const_length vals w h, map_length_const vals w h, allEqual_replicate]
  have : w * vals.length ≠ 0 := Nat.mul_ne_zero (by omega) (by omega)
  rw [if_neg this, if_pos rfl, List.length_range]
  have hl : (List.replicate vals.length w).getLast?.getD 0 = w := by
    obtain ⟨n, hn⟩ : ∃ n, vals.length = n + 1 := ⟨vals.length - 1, by omega⟩
    rw [hn, List.replicate_succ']
    simp
  rw [hl]

/-- `C06_fix_leaf_size`, message level: on the bare bytes of `n` leaves of width `w` the loader
    rebuilds exactly the array today's builder would have written. -/
theorem fixLeafSize_eq_new (s : SlimMsg) (vals : List Bytes) (w : Nat) (hw : 0 < w)
    (hne : vals ≠ []) (h : ∀ v ∈ vals, v.length = w)
    (hl : s.leaves = some { bytes := vals.flatten }) :
    fixLeafSize s (some w) = .ok { s with leaves := Slim.newVLenArray vals } := by
  unfold fixLeafSize
  simp only [hl, bind, Except.bind, pure, Except.pure]
  have hw0 : ¬ (w = 0) := by omega
  have hdiv : vals.flatten.length / w = vals.length := by
    rw [List.length_flatten, sum_const_length vals w h, Nat.mul_div_cancel_left _ hw]
  simp only [Option.isSome_none, Bool.false_eq_true, if_false, ne_eq, not_true_eq_false, hw0, hdiv]
  rw [newVLenArray_const vals w hw hne h]

end Legacy

/-! ### the same in terms of the bare byte array -/

namespace Legacy

/-- `n` consecutive slices of width `w` -/
def chunks (w : Nat) : Nat → Bytes → List Bytes
  | 0, _ => []
  | n + 1, bs => bs.take w :: chunks w n (bs.drop w)

theorem chunks_length (w n : Nat) (bs : Bytes) : (chunks w n bs).length = n := by
  induction n generalizing bs with
  | zero => rfl
  | succ n ih => simp [chunks, ih]

theorem chunks_flatten (w n : Nat) (bs : Bytes) (h : bs.length = n * w) :
    (chunks w n bs).flatten = bs := by
  induction n generalizing bs with
  | zero =>
    have : bs = [] := List.length_eq_zero_iff.mp (by omega)
    subst this; rfl
  | succ n ih =>
    simp only [chunks, List.flatten_cons]
    rw [ih (bs.drop w) (by rw [List.length_drop, h, Nat.succ_mul]; omega), List.take_append_drop]

theorem chunks_width (w n : Nat) (bs : Bytes) (h : bs.length = n * w) :
    ∀ v ∈ chunks w n bs, v.length = w := by
  induction n generalizing bs with
  | zero => simp [chunks]
  | succ n ih =>
    intro v hv
    simp only [chunks, List.mem_cons] at hv
    rcases hv with rfl | hv
    · rw [List.length_take, h, Nat.succ_mul]; omega
    · exact ih (bs.drop w) (by rw [List.length_drop, h, Nat.succ_mul]; omega) v hv

theorem chunks_getElem (w n : Nat) (bs : Bytes) (i : Nat) (hi : i < (chunks w n bs).length) :
    (chunks w n bs)[i] = (bs.drop (i * w)).take w := by
  induction n generalizing bs i with
  | zero => simp [chunks] at hi
  | succ n ih =>
    cases i with
    | zero => simp [chunks]
    | succ i =>
      simp only [chunks, List.getElem_cons_succ]
      rw [ih (bs.drop w) i (by simpa [chunks] using hi), List.drop_drop, Nat.succ_mul]
      congr 2; omega

end Legacy
