import SlimModel.Wire
import SlimModel.ArrayMsg
import SlimModel.Frame
import SlimModel.Version
/-
  SlimModel.Marshal — `(*SlimTrie).Marshal` and the byte-level half of `(*SlimTrie).Unmarshal`
  (trie/slimtrie_marshal.go): header read, compatibility check, dispatch on the version, framed
  reads and protobuf decoding, up to (not including) the in-memory conversions
  `before000512InnerPrefixTobitstr` / `before000512FixLeafSize` / `before000510ToNewChildrenArray`
  and `st.init()`.
-/

open Wire Frame Version

/-- What `Unmarshal` has in hand when the byte level is done. -/
inductive Loaded where
  /-- version 0.5.12: `st.inner` is the message as read -/
  | current (m : SlimMsg)
  /-- versions 0.5.10 / 0.5.11: same protobuf schema, then `before000512*` are applied -/
  | v0510 (ver : String) (m : SlimMsg)
  /-- versions 1.0.0, 0.5.8, 0.5.9: three framed `array.Array32` sections, then `before000510` -/
  | legacy3 (ver : String) (children steps leaves : Array32Msg)
  deriving Repr, DecidableEq, Inhabited

/-- `(*SlimTrie).Marshal`: `pbcmpl.Marshal(writer, st.inner)` with `GetVersion() = slimtrieVersion`. -/
def marshalSlim (m : SlimMsg) : Bytes := frame slimtrieVersion (encodeSlim m)

/-- `pbcmpl.Unmarshal(reader, msg)`: one frame, its body decoded by `dec`; the rest of the reader. -/
def readMsg {α : Type} (dec : Bytes → Except Err α) (bs : Bytes) : Except Err (α × Bytes) :=
  match readFrame bs with
  | .error e => .error e
  | .ok (_, body, rest) =>
    match dec body with
    | .error e => .error e
    | .ok m => .ok (m, rest)

/-- `(*SlimTrie).Unmarshal` at byte level.  The header is read once for the version; after the
    compatibility check the reader is re-created and the frame(s) are read from the start. -/
def unmarshalDispatch (buf : Bytes) : Except Err Loaded :=
  match readHeader buf with
  | .error e => .error e
  | .ok (h, _) =>
    let ver := h.version
    if isCompatible ver = false then .error .incompatible
    else if isCurrentLayout ver then
      match readMsg decodeSlim buf with
      | .error e => .error e
      | .ok (m, _) => if before000512 ver then .ok (.v0510 ver m) else .ok (.current m)
    else
      match readMsg decodeArray32 buf with
      | .error e => .error e
      | .ok (children, r1) =>
        match readMsg decodeArray32 r1 with
        | .error e => .error e
        | .ok (steps, r2) =>
          match readMsg decodeArray32 r2 with
          | .error e => .error e
          | .ok (leaves, _) => .ok (.legacy3 ver children steps leaves)
