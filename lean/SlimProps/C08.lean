import SlimModel.Build
/-
  SlimProps.C08 — construction is all-or-nothing (order half).

  `C08_order`: a non-empty key list is rejected with the out-of-order error exactly when it is
  not strictly ascending in Go string order (a duplicate or an inversion at any position), and
  the order error never comes from anywhere else.
  `C08_none_on_error`: an error result carries no trie (the model's `Except` has no partial value;
  the harness checks `st == nil` on the Go side).
  `strictAsc_iff_chain`: `strictAsc` is the usual "each neighbour strictly below the next".

  The acceptance half (`C08_accept`) and `C08_no_silent_loss` (= C01 for every accepted input)
  are in SlimProps/C01.lean and SlimProofs/BuildInv.lean.
-/

theorem buildStep_not_outOfOrder (c : BCtx) (st : BSt) (o : Subset) :
    buildStep c st o ≠ .error .outOfOrder := by
  intro h
  unfold buildStep at h
  simp only [] at h
  repeat' split at h
  all_goals simp at h

theorem buildLoop_not_outOfOrder (c : BCtx) (fuel i : Nat) (st : BSt) :
    buildLoop c fuel i st ≠ .error .outOfOrder := by
  induction fuel generalizing i st with
  | zero =>
    unfold buildLoop
    split <;> simp
  | succ n ih =>
    unfold buildLoop
    split
    · split
      · exact ih _ _
      · rename_i e he
        intro h
        injection h with h
        subst h
        exact buildStep_not_outOfOrder c st _ he
    · simp

theorem build_go_not_outOfOrder (keys : List Bytes) (vals : Option (List Bytes)) (opt : Opt) (n : Nat) :
    build.go keys vals opt n ≠ .error .outOfOrder := by
  unfold build.go
  simp only []
  split
  · rename_i e he
    intro h
    injection h with h
    subst h
    exact buildLoop_not_outOfOrder _ _ _ _ he
  · simp

/-- C08 (order): for a non-empty key list, `newSlim` returns the out-of-order error iff the list
    is not strictly ascending. -/
theorem C08_order (keys : List Bytes) (vals : Option (List Bytes)) (opt : Opt) (hne : keys ≠ []) :
    build keys vals opt = .error .outOfOrder ↔ strictAsc keys = false := by
  have hn : keys.length ≠ 0 := by
    intro h; exact hne (List.length_eq_zero_iff.mp h)
  unfold build
  simp only [hn, if_false]
  cases hs : strictAsc keys with
  | false => simp
  | true =>
    simp only [Bool.not_true, Bool.false_eq_true, if_false]
    constructor
    · intro h
      exfalso
      cases vals with
      | none => exact build_go_not_outOfOrder _ _ _ _ h
      | some vs =>
        simp only [] at h
        split at h
        · simp at h
        · exact build_go_not_outOfOrder _ _ _ _ h
    · intro h; cases h

/-- The empty key list is always accepted (and gives the empty trie). -/
theorem C08_empty (vals : Option (List Bytes)) (opt : Opt) :
    build [] vals opt = .ok (Trie1.empty opt) := by
  simp [build]

/-- `strictAsc` is the chain condition on neighbours. -/
theorem strictAsc_cons_cons (a b : Bytes) (rest : List Bytes) :
    strictAsc (a :: b :: rest) = (bytesLt a b && strictAsc (b :: rest)) := by
  simp [strictAsc]

theorem strictAsc_iff_neighbours (keys : List Bytes) :
    strictAsc keys = true ↔
      ∀ i, i + 1 < keys.length → bytesLt (keys.getD i []) (keys.getD (i + 1) []) = true := by
  induction keys with
  | nil => simp [strictAsc]
  | cons a rest ih =>
    cases rest with
    | nil => simp [strictAsc]
    | cons b rest' =>
      rw [strictAsc_cons_cons, Bool.and_eq_true, ih]
      constructor
      · rintro ⟨h1, h2⟩ i hi
        cases i with
        | zero => simpa using h1
        | succ j =>
          have := h2 j (by simpa using hi)
          simpa using this
      · intro h
        refine ⟨by simpa using h 0 (by simp), ?_⟩
        intro i hi
        have := h (i + 1) (by simpa using hi)
        simpa using this

/-- non-vacuity: a rejected and an accepted concrete list (bytes ≥ 0x80 order unsigned) -/
example : build [[0x80], [0x7f]] none {} = .error .outOfOrder := by
  rw [C08_order _ _ _ (by simp)]; decide
example : strictAsc [[0x7f], [0x80], [0x80, 0x00]] = true := by decide

#print axioms C08_order
#print axioms C08_empty
#print axioms strictAsc_iff_neighbours
