import Generated.Funcs
import SlimProps.BridgeSem.Common
import SlimModel.Slim
/-
  SlimProps.BridgeSem.VLen — tie 1, semantic part: the arithmetic of `(*VLenArray).get`
  (trie/slimtrie_vlen_array.go) = `Slim.vlenGet` (SlimModel/Slim.lean):

  * `vlenWordI_sem`, `vlenBitI_sem`   `index >> 6`, `index & 63` = `index / 64`, `index % 64`
  * `vlenIthElt_sem`                  the inlined rank `RankIndex[wordI] + OnesCount64(Words[wordI] &
                                      Mask[bitI])` = `r + popcount (w % 2 ^ (index % 64))`, the `ithElt`
                                      of `vlenGet` (= first component of `Bits.rank64`)
  * `vlenFixedFrom_sem`               `from := ithElt * va.FixedSize`

  EXTERNAL calls of `get` that are not translated but assumed to be the model's functions:
  `bitmap.Select32R64` (= `Bits.select32R64`), `bitmap.Bit[k]` (= bit k), the slice expression
  `va.Bytes[from:to]` (= `Slim.sliceBytes`).
  See SlimProps/BridgeSem.lean for the overview.
-/

set_option linter.unusedSimpArgs false
set_option linter.unusedVariables false

open Generated Bits

namespace BridgeSem

theorem vlenWordI_sem (index : Nat) (h : index < 2 ^ 31) :
    Generated.vlenWordI index = ((index / 64 : Nat) : Int) := by
  unfold Generated.vlenWordI; go_simp
  all_goals omega

theorem vlenBitI_sem (index : Nat) (h : index < 2 ^ 31) :
    Generated.vlenBitI index = ((index % 64 : Nat) : Int) := by
  unfold Generated.vlenBitI
  go_simp
  all_goals omega

theorem vlenIthElt_sem (rankIndex words : List Nat) (index r w : Nat)
    (hw : words[index / 64]? = some w) (hr : rankIndex[index / 64]? = some r)
    (hfit : r + popcount (w % 2 ^ (index % 64)) < 2 ^ 31) :
    Generated.vlenIthElt rankIndex words (index % 64) (index / 64)
      = ((r + popcount (w % 2 ^ (index % 64)) : Nat) : Int) := by
  unfold Generated.vlenIthElt
  have h1 : words.getD (index / 64) 0 = w := by rw [List.getD_eq_getElem?_getD, hw]; rfl
  have h2 : rankIndex.getD (index / 64) 0 = r := by rw [List.getD_eq_getElem?_getD, hr]; rfl
  have h4 : Go.popcount64 (w % 2 ^ (index % 64)) = popcount (w % 2 ^ (index % 64)) := rfl
  simp only [h1, h2, mask64_and, mask64_and', h4]
  generalize popcount (w % 2 ^ (index % 64)) = c at hfit ⊢
  go_simp
  omega

theorem vlenFixedFrom_sem (ithElt fixedSize : Nat) (h : ithElt * fixedSize < 2 ^ 31) :
    Generated.vlenFixedFrom fixedSize ithElt = ((ithElt * fixedSize : Nat) : Int) := by
  unfold Generated.vlenFixedFrom; go_simp

/-! non-vacuity -/
example : Generated.vlenIthElt [0, 3] [0, 0b111] 2 1 = 5 := by decide

end BridgeSem

#print axioms BridgeSem.vlenWordI_sem
#print axioms BridgeSem.vlenBitI_sem
#print axioms BridgeSem.vlenIthElt_sem
#print axioms BridgeSem.vlenFixedFrom_sem
