import SlimProofs.Shape
import SlimProofs.Refine.ListAux
/-
  SlimProofs.Refine.Enc — the components of `Slim.encodeCreator t` under names, and the fields of
  the message in terms of them (all by unfolding).
-/

namespace Refine

open Bits Slim

def innerOf : Node → Option InnerRec
  | .inner r => some r
  | .leaf _ _ => none

def leafOf : Node → Option (Option Bytes)
  | .leaf _ lp => some lp
  | .inner _ => none

/-- the inner records, BFS order -/
abbrev eInners (t : Trie1) : List InnerRec := innerRecs t.nodes

def eCnts (t : Trie1) : Array (List (Nat × Nat)) :=
  (eInners t).foldl (fun (a : Array (List (Nat × Nat))) r =>
      if !r.big && r.labels.length < maxShortSize + 1
      then a.modify r.labels.length (fun tbl => bumpCount tbl (bm17 r.labels)) else a)
    (Array.replicate (maxShortSize + 1) [])

def eSorted (t : Trie1) : Array (List (Nat × Nat)) := (eCnts t).map sortCounts

def eShortSize (t : Trie1) : Nat := findMinShortSize (eSorted t)

def eTbl (t : Trie1) : List Nat := (shortTable (eSorted t) (eShortSize t)).1

def eMostUsed (t : Trie1) : List (Nat × Nat) := (shortTable (eSorted t) (eShortSize t)).2

/-- the substitution of one inner record: (bit positions, width, isShort) -/
def subOf (mostUsed : List (Nat × Nat)) (shortSize : Nat) (r : InnerRec) : List Nat × Nat × Bool :=
  if r.big then (r.labels, bigInnerSize, false) else
  match mostUsed.find? (·.1 == bm17 r.labels) with
  | some (_, short) => (toArray [short], shortSize, true)
  | none => (r.labels, innerSize, false)

def eSub (t : Trie1) : List (List Nat × Nat × Bool) :=
  (eInners t).map (subOf (eMostUsed t) (eShortSize t))

def eShortIndex (t : Trie1) : List Nat :=
  (List.range (eInners t).length).filter (fun i => ((eSub t).getD i ([], 0, false)).2.2)

def eInnerIdx (t : Trie1) : List Nat :=
  (List.range t.nodes.size).filter (fun i =>
    match t.nodes[i]? with | some (.inner _) => true | _ => false)

def ePrefIdx (t : Trie1) : List Nat :=
  (List.range (eInners t).length).filter (fun i =>
    match ((eInners t).getD i default).pref with | .none => false | _ => true)

def storedOf (r : InnerRec) : Option Bytes :=
  match r.pref with | .stored ns => some (bitstrOf ns) | _ => none

def stepOf (r : InnerRec) : Option Bytes :=
  match r.pref with | .step n => some (encStep n) | _ => none

def eStoredPs (t : Trie1) : List Bytes := (eInners t).filterMap storedOf

def eIps (t : Trie1) : VLenArrayMsg :=
  if t.opt.inner then
    { eltCnt := (ePrefIdx t).length
      presenceBM := some (newBM (ePrefIdx t) (eInners t).length "r128")
      positionBM := some (newBM (stepToPos ((eStoredPs t).map List.length)) 0 "s32")
      bytes := (eStoredPs t).flatten }
  else
    { eltCnt := (ePrefIdx t).length
      presenceBM := some (newBM (ePrefIdx t) (eInners t).length "r128")
      fixedSize := 2
      bytes := ((eInners t).filterMap stepOf).flatten }

def eLeafLps (t : Trie1) : List (Option Bytes) := t.nodes.toList.filterMap leafOf

def eLeafIdx (t : Trie1) : List Nat :=
  (List.range (eLeafLps t).length).filter (fun i => ((eLeafLps t).getD i none).isSome)

def eLeafPs (t : Trie1) : List Bytes := (eLeafLps t).filterMap id

def eLps (t : Trie1) : Option VLenArrayMsg :=
  if t.opt.leaf then
    some { presenceBM := some (newBM (eLeafIdx t) (eLeafLps t).length "r64")
           positionBM := some (newBM (stepToPos ((eLeafPs t).map List.length)) 0 "s32")
           bytes := (eLeafPs t).flatten }
  else none

def eInnersBM (t : Trie1) : BitmapMsg :=
  mk (ofMany ((eSub t).map (·.1)) ((eSub t).map (·.2.1))) "r128"

theorem eInners_eq (t : Trie1) : eInners t = t.nodes.toList.filterMap innerOf := by
  unfold eInners innerRecs
  congr 1

theorem innersBefore_eq' (nodes : Array Node) (j : Nat) :
    innersBefore nodes j = (nodes.toList.take j).filterMap innerOf := by
  unfold innersBefore
  congr 1

/-! ### the fields of the message -/

theorem enc_bigInnerCnt (t : Trie1) : (encodeCreator t).bigInnerCnt = t.bigCnt := rfl
theorem enc_shortSize (t : Trie1) : (encodeCreator t).shortSize = eShortSize t := rfl
theorem enc_nodeTypeBM (t : Trie1) :
    (encodeCreator t).nodeTypeBM
      = if t.nodes.size = 0 then none else some (newBM (eInnerIdx t) t.nodes.size "r64") := rfl
theorem enc_inners (t : Trie1) : (encodeCreator t).inners = some (eInnersBM t) := rfl
theorem enc_shortBM (t : Trie1) :
    (encodeCreator t).shortBM = some (newBM (eShortIndex t) (eInners t).length "r64") := rfl
theorem enc_shortTable (t : Trie1) : (encodeCreator t).shortTable = eTbl t := rfl
theorem enc_innerPrefixes (t : Trie1) : (encodeCreator t).innerPrefixes = some (eIps t) := by
  unfold encodeCreator eIps
  simp only []
  split <;> rfl
theorem enc_leafPrefixes (t : Trie1) : (encodeCreator t).leafPrefixes = eLps t := by
  unfold encodeCreator eLps
  rfl

theorem encode_eq (t : Trie1) (h : t.nodes.size ≠ 0) : encode t = encodeCreator t := by
  unfold encode; rw [if_neg h]

end Refine
