import SlimModel.Basic
import SlimModel.Encode
/-
  SlimModel.ArrayPkg — executable model of package `/repo/array` (property C16).

  * `Array32`   the protobuf message (array/array.pb.go): Cnt, Bitmaps, Offsets, Elts, Flags,
                EltWidth, BMElts.  `int32` fields are `Int` (the arithmetic on them wraps, `wrap32`),
                `uint64` bitmap words are `Nat` (< 2^64 for everything the constructors build).
  * `Base`      array/base.go: the message plus `EltEncoder` (`none` = Go nil).
  * `Base.initIndex`, `Base.init`, `Base.initElts`, `Array.init`, `new`, `newEmpty`, `newTyped`
                the constructors with their two validations, in the order the Go code runs them:
                `Init` checks the lengths first (`ErrIndexLen`), then `InitIndex` checks
                `index[i] >= index[i+1]` (`ErrIndexNotAscending`) before it assigns anything.
  * `Base.typedGetBytes` / `getU` / `getS`   array/int.go `Get` of U16 U32 U64 / I16 I32 I64.
  * `Base.getBytes`, `Base.get`              array/base.go `GetBytes`, `Get` (generic, via EltEncoder).
  * `Base.marshal` / `Base.unmarshal`        the protobuf round trip at the level of message fields
                (`proto.Unmarshal` resets the embedded `Array32` only: `EltEncoder` survives).

  `github.com/openacid/low/bitmap` (`Of`, `IndexRank64`, `Rank64`) is mirrored here too, including
  its int32 arithmetic: `Of` sizes the bitmap by `(last+1+63)>>6` computed in int32.
  Slices are modelled by their contents (cap = len).
-/
namespace ArrayPkg
open Encode

inductive ArrErr where
  | indexNotAscending    -- array.ErrIndexNotAscending
  | indexLen             -- array.ErrIndexLen
  | notFixedSize         -- encode.ErrNotFixedSize (element type has no TypeEncoder)
  deriving Repr, DecidableEq, Inhabited

/-- Go `int32(x)`: wrap into [-2^31, 2^31). -/
def wrap32 (x : Int) : Int := (x + 2147483648) % 4294967296 - 2147483648

/-- `bits.OnesCount64` (for words < 2^64). -/
def popcountAux : Nat → Nat → Nat
  | 0, _ => 0
  | f + 1, n => n % 2 + popcountAux f (n / 2)
def popcount (n : Nat) : Nat := popcountAux 64 n

/-- Go `l[k]` with an `int32` subscript: a negative or too large subscript panics. -/
def getI {α : Type} (l : List α) (k : Int) : Except Err α :=
  if k < 0 then gopanic "index out of range"
  else match l[k.toNat]? with
    | some x => .ok x
    | none => gopanic "index out of range"

/-- message `Bits` (array/bitmap.proto), only carried around. -/
structure BitsMsg where
  flags : Nat := 0
  n : Int := 0
  words : List Nat := []
  rankIndex : List Int := []
  deriving Repr, DecidableEq, Inhabited

/-- message `Array32`. -/
structure Array32 where
  cnt : Int := 0
  bitmaps : List Nat := []
  offsets : List Int := []
  elts : Bytes := []
  flags : Nat := 0
  eltWidth : Int := 0
  bmElts : Option BitsMsg := none
  deriving Repr, DecidableEq, Inhabited

structure Base extends Array32 where
  eltEncoder : Option Enc := none
  deriving Repr, Inhabited

/-! ### bitmap.Of, bitmap.IndexRank64 -/

/-- The loop of `InitIndex`: `index[i] >= index[i+1]` for some `i` ⇒ not ascending. -/
def ascCheck : List Int → Bool
  | a :: b :: rest => if a ≥ b then false else ascCheck (b :: rest)
  | _ => true

/-- `words[i>>6] |= 1 << uint(i&63)` on a Go slice (in place; `Array` so that the compiled
    driver runs it in constant time — `SlimProofs.ArrayPkg.foldl_setBit_toList` relates it to lists). -/
def setBit (words : Array Nat) (i : Int) : Array Nat :=
  let k := (i / 64).toNat
  words.setIfInBounds k (words.getD k 0 ||| 2 ^ (i % 64).toNat)

/-- `bitmap.Of(index)`: the number of words comes from the *last* position, in int32 arithmetic;
    a negative length panics in `make`, a word subscript outside the slice panics in the loop
    (the model reports the panic without building the prefix of the loop). -/
def bitmapOf (index : List Int) : Except Err (List Nat) :=
  let n : Int := match index.getLast? with
    | some l => if 0 < wrap32 (l + 1) then wrap32 (l + 1) else 0
    | none => 0
  let nWords : Int := wrap32 (n + 63) / 64
  if nWords < 0 then gopanic "makeslice: len out of range"
  else if index.all (fun i => decide (0 ≤ i / 64 ∧ i / 64 < nWords)) then
    .ok (index.foldl setBit (Array.replicate nWords.toNat 0)).toList
  else gopanic "index out of range"

/-- `bitmap.IndexRank64(words)`: running count of ones before each word (int32 accumulator). -/
def indexRank64From (n : Int) : List Nat → List Int
  | [] => []
  | w :: ws => n :: indexRank64From (wrap32 (n + (popcount w : Int))) ws

def indexRank64 (words : List Nat) : List Int := indexRank64From 0 words

/-- `for i, word := range a.Bitmaps { if word == 0 { a.Offsets[i] = 0 } }`
    (the two slices have equal length by construction). -/
def zeroEmpty : List Nat → List Int → List Int
  | w :: ws, o :: os => (if w = 0 then 0 else o) :: zeroEmpty ws os
  | _, os => os

/-! ### constructors -/

/-- `(*Base).InitIndex`: returns the receiver after the call and the returned error. -/
def Base.initIndex (a : Base) (index : List Int) : Except Err (Base × Option ArrErr) :=
  if !ascCheck index then .ok (a, some .indexNotAscending)
  else do
    let words ← bitmapOf index
    let offs := zeroEmpty words (indexRank64 words)
    pure ({ a with bitmaps := words, offsets := offs, cnt := wrap32 (index.length : Int) }, none)

def encodeAll (c : Codec Val) : List Val → Except Err Bytes
  | [] => .ok []
  | v :: vs => do
    let b ← c.encode v
    let r ← encodeAll c vs
    pure (b ++ r)

/-- `(*Base).InitElts`: `encoder.GetEncodedSize(nil)` is evaluated (String16 panics there),
    then the encodings are appended. -/
def Base.initElts (a : Base) (enc : Enc) (elts : List Val) : Except Err Base := do
  let _ ← enc.codec.getEncodedSize []
  let b ← encodeAll enc.codec elts
  pure { a with elts := b }

/-- The encoder `Init` uses: `a.EltEncoder` if set, else
    `encode.NewTypeEncoderEndian(elts[0], binary.LittleEndian)` (fails for a type without fixed size). -/
def resolveEnc (pre : Option Enc) (ety : Option Ty) : Option Enc :=
  match pre with
  | some enc => some enc
  | none => ety.map (Enc.typ .le)

/-- `(*Base).Init(indexes, elts)`.  `ety` is the Go element type of the slice `elts`
    (`none`: a type `encoding/binary` cannot size, e.g. `int` or `string`); it is only consulted
    when `EltEncoder` is nil. -/
def Base.init (a : Base) (ety : Option Ty) (indexes : List Int) (elts : List Val) :
    Except Err (Base × Option ArrErr) :=
  if indexes.length ≠ elts.length then .ok (a, some .indexLen)
  else do
    let (a1, e) ← a.initIndex indexes
    match e with
    | some e => pure (a1, some e)
    | none =>
      if indexes.length = 0 then pure (a1, none)
      else
        match resolveEnc a1.eltEncoder ety with
        | none => pure (a1, some .notFixedSize)      -- NB: index fields already assigned
        | some enc => do
          let a2 ← a1.initElts enc elts
          pure (a2, none)

/-- `(*Array).Init`: `Base.Init`, then the element encoder is derived from `elts[0]` if still nil. -/
def Array.init (a : Base) (ety : Option Ty) (indexes : List Int) (elts : List Val) :
    Except Err (Base × Option ArrErr) := do
  let (a1, e) ← a.init ety indexes elts
  match e with
  | some e => pure (a1, some e)
  | none =>
    if a1.cnt > 0 ∧ a1.eltEncoder.isNone then
      match ety with
      | none => pure (a1, some .notFixedSize)
      | some t => pure ({ a1 with eltEncoder := some (.typ .le t) }, none)
    else pure (a1, none)

/-- `array.New(indexes, elts)`: `(nil, err)` on error. -/
def new (ety : Option Ty) (indexes : List Int) (elts : List Val) :
    Except Err (Option Base × Option ArrErr) := do
  let (a, e) ← Array.init {} ety indexes elts
  match e with
  | some e => pure (none, some e)
  | none => pure (some a, none)

/-- `array.NewEmpty(v)` for `v` of type `t`: `encode.NewTypeEncoder` (little endian). -/
def newEmpty (t : Ty) : Base := { eltEncoder := some (.typ .le t) }

/-- `array.NewU16 … NewI64`: `a = &T{}; err = a.Init(index, elts); if err != nil { a = nil }`
    where `Init` is the promoted `Base.Init` (the EltEncoder stays nil). -/
def newTyped (t : Ty) (indexes : List Int) (elts : List Int) :
    Except Err (Option Base × Option ArrErr) := do
  let (a, e) ← Base.init {} (some t) indexes (elts.map Val.int)
  match e with
  | some e => pure (none, some e)
  | none => pure (some a, none)

/-! ### accessors -/

/-- The common body of `(*U16).Get … (*I64).Get` for element width `w`: `none` when the presence
    bit is clear, else the `w` bytes that `endian.UintW(a.Elts[stIdx:])` reads. -/
def Base.typedGetBytes (a : Base) (w : Nat) (idx : Int) : Except Err (Option Bytes) := do
  let iBm := idx / 64                       -- idx >> 6 (arithmetic shift)
  let iBit := (idx % 64).toNat              -- idx & 63
  let n ← getI a.bitmaps iBm
  if (n >>> iBit) % 2 = 0 then pure none
  else
    let cnt1 := popcount (n % 2 ^ iBit)     -- OnesCount64(n & (1<<iBit - 1))
    let off ← getI a.offsets iBm
    let stIdx := wrap32 (wrap32 (off * (w : Int)) + wrap32 ((cnt1 : Int) * (w : Int)))
    if stIdx < 0 ∨ stIdx > (a.elts.length : Int) then gopanic "slice bounds out of range"
    else
      let s := a.elts.drop stIdx.toNat
      if s.length < w then gopanic "index out of range"
      else pure (some (s.take w))

/-- `(*U16).Get`, `(*U32).Get`, `(*U64).Get` (w = 2, 4, 8): `(0, false)` when absent. -/
def Base.getU (a : Base) (w : Nat) (idx : Int) : Except Err (Nat × Bool) := do
  match ← a.typedGetBytes w idx with
  | none => pure (0, false)
  | some b => pure (leVal b, true)

/-- `(*I16).Get`, `(*I32).Get`, `(*I64).Get`. -/
def Base.getS (a : Base) (w : Nat) (idx : Int) : Except Err (Int × Bool) := do
  match ← a.typedGetBytes w idx with
  | none => pure (0, false)
  | some b => pure (toS w (leVal b), true)

/-- `(*Base).GetBytes(idx, eltsize)` through `bitmap.Rank64`; `none` = `(nil, false)`. -/
def Base.getBytes (a : Base) (idx : Int) (eltsize : Nat) : Except Err (Option Bytes) := do
  let wordI := idx / 64
  let j := (idx % 64).toNat
  let n ← getI a.offsets wordI
  let w ← getI a.bitmaps wordI
  let r := wrap32 (n + (popcount (w % 2 ^ j) : Int))
  if (w >>> j) % 2 = 0 then pure none
  else
    let es := wrap32 (eltsize : Int)
    let st := wrap32 (es * r)
    let en := wrap32 (st + es)
    if st < 0 ∨ en < st ∨ en > (a.elts.length : Int) then gopanic "slice bounds out of range"
    else pure (some ((a.elts.drop st.toNat).take (en - st).toNat))

/-- `(*Base).Get(idx)`: the generic accessor; `none` = `(nil, false)`.
    A nil `EltEncoder` is a nil-interface method call. -/
def Base.get (a : Base) (idx : Int) : Except Err (Option Val) := do
  match a.eltEncoder with
  | none => gopanic "nil pointer dereference"
  | some enc =>
    let sz ← enc.codec.getEncodedSize []
    match ← a.getBytes idx sz with
    | none => pure none
    | some bs =>
      let (_, v) ← enc.codec.decode bs
      pure (some v)

/-! ### protobuf round trip, at the level of message fields -/

/-- `proto.Marshal(a)`: the fields of the embedded `Array32`. -/
def Base.marshal (a : Base) : Array32 := a.toArray32

/-- `proto.Unmarshal(buf, a)`: `a.Reset()` (only `*m = Array32{}`) and the fields are filled in;
    `EltEncoder` is not touched. -/
def Base.unmarshal (a : Base) (m : Array32) : Base := { a with toArray32 := m }

end ArrayPkg
