#!/bin/bash
# verify_mutation.sh <out_dir/mN> : confirm a seeded change in a scratch worktree of /repo:
#  - patch applies, builds; demo FAILS with it; whole unedited suite PASSES with it; demo PASSES without it.
# Writes <dir>/verify.log and prints one summary line.
set -u
D=$(readlink -f "$1")
export GOFLAGS=-mod=mod GOPROXY=off GOSUMDB=off GOTOOLCHAIN=local
W=/tmp/mv/$(basename $(dirname $D))_$(basename $D)
rm -rf $W; mkdir -p /tmp/mv
git -C /repo worktree add --detach $W HEAD -f >/dev/null 2>&1 || { echo "$D: worktree failed"; exit 2; }
cd $W
LOG=$D/verify.log; : > $LOG
demo() {
  # demo_test.go (package trie_test / trie) goes into trie/; a main program into demo/
  if [ -f $D/demo_test.go ]; then
    pkg=$(grep -m1 '^package ' $D/demo_test.go | awk '{print $2}' | sed 's/_test$//')
    case "$pkg" in trie|array|encode|index) pkgdir=$pkg ;; *) pkgdir=$pkg; mkdir -p $pkgdir; madedir=1 ;; esac
    cp $D/demo_test.go $pkgdir/zz_demo_test.go
    fn=$(grep -o 'func Test[A-Za-z0-9_]*' $D/demo_test.go | sed 's/func //' | paste -sd'|')
    timeout 900 go test -vet=off -count=1 -run "^($fn)\$" ./$pkgdir/ >> $LOG 2>&1; rc=$?
    rm -f $pkgdir/zz_demo_test.go
    [ -n "${madedir:-}" ] && rm -rf $pkgdir
    return $rc
  elif [ -d $D/demo ]; then
    mkdir -p zzdemo && cp $D/demo/*.go zzdemo/ && timeout 900 go run ./zzdemo >> $LOG 2>&1; rc=$?
    rm -rf zzdemo; return $rc
  fi
  echo "no demo" >> $LOG; return 99
}
git apply $D/patch.diff >> $LOG 2>&1 || { echo "$D: PATCH DOES NOT APPLY"; cd /; git -C /repo worktree remove --force $W; exit 1; }
go build ./... >> $LOG 2>&1 || { echo "$D: DOES NOT BUILD"; cd /; git -C /repo worktree remove --force $W; exit 1; }
echo "== demo with patch" >> $LOG; demo; with=$?
echo "== suite with patch" >> $LOG; timeout 1500 go test -vet=off -count=1 ./... >> $LOG 2>&1; suite=$?
git checkout -- . >> $LOG 2>&1
echo "== demo without patch" >> $LOG; demo; without=$?
cd /; git -C /repo worktree remove --force $W >/dev/null 2>&1
ok=NO; [ $with -ne 0 ] && [ $with -ne 99 ] && [ $suite -eq 0 ] && [ $without -eq 0 ] && ok=YES
echo "$D: confirmed=$ok demo_with_patch_rc=$with suite_rc=$suite demo_without_rc=$without"
