#!/usr/bin/env python3
"""Prints DESIGN.md §0.3 (state per property) from props.json."""
import json
d = json.load(open("/verif/props.json"))
print("| ID | level | theorems audited per run | what is proved (all ∀ inputs, no size bound) | not proved / partial |")
print("|----|-------|--------------------------|-----------------------------------------------|----------------------|")
for p in sorted(d):
    e = d[p]
    print("| %s | %s | %d | %s | %s |" % (p, e.get("level"), len(e.get("theorems", [])), (e.get("level_text") or "").replace("|", "/"), (e.get("partial") or "—").replace("|", "/")))
