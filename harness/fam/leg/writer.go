// Package leg is the harness family "leg": reconstructed writers of the historical
// on-disk layouts of openacid/slim (no old writer exists in the repository), their
// validation against the archived fixtures, and the generator of property C06.
//
// The writers are reconstructed from the loader (trie/slimtrie_marshal.go) and from the
// 97 archived files under trie/testdata; ValidateFixtures regenerates every one of them
// from its testkeys data set and compares byte for byte.
//
// Layout families
//
//	"0.5.0"            three sections, uint32 children, steps also on leaves, header 1.0.0
//	"0.5.1".."0.5.3"   three sections, uint32 children, header 1.0.0
//	"0.5.4".."0.5.6"   three sections, 16-bit bitmap children (Flags/EltWidth/BMElts), header
//	                   1.0.0; the empty trie still writes Flags/EltWidth/BMElts
//	"0.5.7"            as 0.5.4, but the empty trie writes an empty children message
//	"0.5.8"            as 0.5.7, header 0.5.8
//	"0.5.9"            as 0.5.8, header 0.5.9, index bitmaps of children and steps extended
//	                   to the node count
//	0.5.10 / 0.5.11    one frame: the Slim message (Write0510)
package leg

import (
	"encoding/binary"
	"math/bits"

	proto "github.com/golang/protobuf/proto"
	"github.com/openacid/low/bitmap"
	"github.com/openacid/slim/array"
	"github.com/openacid/slim/encode"
)

// Limits of the three-section layout (documented in DESIGN Appendix B):
//   - a step is a uint16 counting half-bytes *including* the label: the single-branch run in
//     front of a branching position must be ≤ 65534 half-bytes (0.5.0: the same for the tail
//     of a leaf), otherwise the stored value wraps;
//   - uint32 children carry the id of the first child in 16 bits: it wraps for ≥ 65536 nodes;
//     the loader does not read it (it re-derives ids breadth first), so such streams still load.
const (
	MaxOldStep = 0xffff
)

// OldNode is one node of the pre-0.5.10 trie: it may be inner and leaf at once.
type OldNode struct {
	Inner      bool
	BM         uint16 // label bitmap: bit w = a child with half-byte w
	FirstChild int32
	Step       int // half-bytes from the node's depth to its branching position, +1; 0 = not stored (i.e. 1)
	Leaf       bool
	KeyIdx     int // index of the key ending here
}

func nibAt(k string, i int) int {
	b := k[i>>1]
	if i&1 == 0 {
		return int(b >> 4)
	}
	return int(b & 15)
}

func lcpNib(a, b string) int {
	n := len(a)
	if len(b) < n {
		n = len(b)
	}
	i := 0
	for i < n && a[i] == b[i] {
		i++
	}
	if i == n {
		return 2 * i
	}
	if a[i]>>4 == b[i]>>4 {
		return 2*i + 1
	}
	return 2 * i
}

// BuildOld builds the half-byte trie of the pre-0.5.10 writers: breadth-first ids, root 0.
// keys must be strictly ascending.  leafSteps: 0.5.0 stores a step on leaves too.
func BuildOld(keys []string, leafSteps bool) []OldNode {
	type sub struct{ s, e, d int }
	if len(keys) == 0 {
		return nil
	}
	queue := []sub{{0, len(keys), 0}}
	nodes := []OldNode{}
	for id := 0; id < len(queue); id++ {
		q := queue[id]
		if q.e-q.s == 1 {
			n := OldNode{Leaf: true, KeyIdx: q.s}
			if leafSteps {
				st := 2*len(keys[q.s]) - q.d + 1
				if st > 1 {
					n.Step = st
				}
			}
			nodes = append(nodes, n)
			continue
		}
		// common prefix of the subset = that of its first and last key
		c := lcpNib(keys[q.s], keys[q.e-1])
		n := OldNode{Inner: true}
		if st := c - q.d + 1; st > 1 {
			n.Step = st
		}
		s := q.s
		if 2*len(keys[s]) == c {
			n.Leaf = true
			n.KeyIdx = s
			s++
		}
		n.FirstChild = int32(len(queue))
		for s < q.e {
			w := nibAt(keys[s], c)
			j := s + 1
			for j < q.e && nibAt(keys[j], c) == w {
				j++
			}
			n.BM |= 1 << uint(w)
			queue = append(queue, sub{s, j, c + 1})
			s = j
		}
		nodes = append(nodes, n)
	}
	return nodes
}

// initIndex is array.Base.InitIndex (bitmap.Of, IndexRank64, zero offset for empty words),
// extended (0.5.9 "extended index bitmaps") to at least minWords words.
func initIndex(a *array.Array32, index []int32, minWords int) {
	a.Cnt = int32(len(index))
	a.Bitmaps = bitmap.Of(index)
	for len(a.Bitmaps) < minWords {
		a.Bitmaps = append(a.Bitmaps, 0)
	}
	a.Offsets = bitmap.IndexRank64(a.Bitmaps)
	for i, w := range a.Bitmaps {
		if w == 0 {
			a.Offsets[i] = 0
		}
	}
	if len(a.Bitmaps) == 0 {
		a.Bitmaps, a.Offsets = nil, nil
	}
}

// header is the 32-byte pbcmpl header.
func header(ver string, bodyLen int) []byte {
	h := make([]byte, 32)
	copy(h[:16], ver)
	binary.LittleEndian.PutUint64(h[16:], 32)
	binary.LittleEndian.PutUint64(h[24:], uint64(bodyLen))
	return h
}

func frameMsg(ver string, m proto.Message) []byte {
	body, err := proto.Marshal(m)
	if err != nil {
		panic(err)
	}
	return append(header(ver, len(body)), body...)
}

// Variant3 describes one of the three-section writers.
type Variant3 struct {
	Header      string
	LeafSteps   bool // 0.5.0
	BitmapChild bool // ≥ 0.5.4
	EmptyHasBM  bool // 0.5.4–0.5.6: the empty trie writes Flags/EltWidth/BMElts
	ExtendedIdx bool // 0.5.9
	Canonical   string
}

func ParseVariant3(v string) (Variant3, bool) {
	switch v {
	case "0.5.0":
		return Variant3{Header: "1.0.0", LeafSteps: true, Canonical: "0.5.0"}, true
	case "0.5.1", "0.5.2", "0.5.3":
		return Variant3{Header: "1.0.0", Canonical: "0.5.3"}, true
	case "0.5.4", "0.5.5", "0.5.6":
		return Variant3{Header: "1.0.0", BitmapChild: true, EmptyHasBM: true, Canonical: "0.5.4"}, true
	case "0.5.7":
		return Variant3{Header: "1.0.0", BitmapChild: true, Canonical: "0.5.7"}, true
	case "0.5.8":
		return Variant3{Header: "0.5.8", BitmapChild: true, Canonical: "0.5.8"}, true
	case "0.5.9":
		return Variant3{Header: "0.5.9", BitmapChild: true, ExtendedIdx: true, Canonical: "0.5.9"}, true
	}
	return Variant3{}, false
}

// Sections3 returns the three messages (children, steps, leaves) of a three-section stream.
func Sections3(vr Variant3, keys []string, vals [][]byte) (ch, st, lv *array.Array32) {
	nodes := BuildOld(keys, vr.LeafSteps)
	ch, st, lv = &array.Array32{}, &array.Array32{}, &array.Array32{}

	minWords := 0
	if vr.ExtendedIdx {
		minWords = (len(nodes) + 63) / 64
	}

	var chIdx, stIdx, lvIdx []int32
	for id, n := range nodes {
		if n.Inner {
			chIdx = append(chIdx, int32(id))
		}
		if n.Step != 0 {
			stIdx = append(stIdx, int32(id))
			st.Elts = append(st.Elts, byte(n.Step), byte(n.Step>>8))
		}
		if n.Leaf {
			lvIdx = append(lvIdx, int32(id))
			lv.Elts = append(lv.Elts, vals[n.KeyIdx]...)
		}
	}
	initIndex(ch, chIdx, minWords)
	initIndex(st, stIdx, minWords)
	initIndex(lv, lvIdx, 0)

	if !vr.BitmapChild {
		for _, n := range nodes {
			if n.Inner {
				v := uint32(n.BM) | uint32(n.FirstChild)<<16
				ch.Elts = append(ch.Elts, byte(v), byte(v>>8), byte(v>>16), byte(v>>24))
			}
		}
	} else if len(nodes) > 0 || vr.EmptyHasBM {
		ch.Flags = 3
		ch.EltWidth = 16
		nInner := len(chIdx)
		words := make([]uint64, (nInner*16+63)/64)
		i := 0
		for _, n := range nodes {
			if n.Inner {
				words[i>>2] |= uint64(n.BM) << (uint(i&3) * 16)
				i++
			}
		}
		N := int32(0)
		for wi := len(words) - 1; wi >= 0; wi-- {
			if words[wi] != 0 {
				N = int32(wi*64 + 64 - bits.LeadingZeros64(words[wi]))
				break
			}
		}
		if len(words) == 0 {
			words = nil
		}
		ch.BMElts = &array.Bits{N: N, Words: words, RankIndex: bitmap.IndexRank128(words)}
	}
	return
}

// WriteLegacy3 writes keys/vals (vals[i] = encoded value of keys[i]) in a ≤ 0.5.9 layout.
func WriteLegacy3(variant string, keys []string, vals [][]byte) []byte {
	vr, ok := ParseVariant3(variant)
	if !ok {
		panic("unknown three-section variant " + variant)
	}
	ch, st, lv := Sections3(vr, keys, vals)
	out := frameMsg(vr.Header, ch)
	out = append(out, frameMsg(vr.Header, st)...)
	out = append(out, frameMsg(vr.Header, lv)...)
	return out
}

// I32Vals is the value list of the fixtures: int32 0..n-1 encoded with encode.I32{}.
func I32Vals(n int) [][]byte {
	vs := make([][]byte, n)
	e := encode.I32{}
	for i := range vs {
		vs[i] = e.Encode(int32(i))
	}
	return vs
}
