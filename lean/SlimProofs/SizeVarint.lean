import SlimProofs.WireVarint
import SlimModel.Wire
/-
  SlimProofs.SizeVarint — arithmetic of `Wire.sizeVarint` and of the field-size functions
  (`sizePackedF`, `sizeBytesF`, `sizeVarintF`, `sizeMsgF`): monotonicity, growth by one,
  sub-additivity, explicit upper bounds.
-/

namespace SizeV

open Wire

theorem sizeVarint_pos (n : Nat) : 1 ≤ sizeVarint n := by
  rw [sizeVarint]; split <;> omega

theorem sizeVarint_mono {a b : Nat} (h : a ≤ b) : sizeVarint a ≤ sizeVarint b := by
  induction b using Nat.strongRecOn generalizing a with
  | _ b ih =>
    by_cases hb : b < 128
    · rw [sizeVarint_lt hb, sizeVarint_lt (by omega)]; omega
    · have hb' : 128 ≤ b := by omega
      rw [sizeVarint_ge hb']
      by_cases ha : a < 128
      · rw [sizeVarint_lt ha]; omega
      · have ha' : 128 ≤ a := by omega
        rw [sizeVarint_ge ha']
        have := ih (b / 128) (by omega) (a := a / 128) (Nat.div_le_div_right h)
        omega

theorem sizeVarint_succ_le (a : Nat) : sizeVarint (a + 1) ≤ sizeVarint a + 1 := by
  induction a using Nat.strongRecOn with
  | _ a ih =>
    by_cases h1 : a + 1 < 128
    · rw [sizeVarint_lt h1]; have := sizeVarint_pos a; omega
    · have h1' : 128 ≤ a + 1 := by omega
      rw [sizeVarint_ge h1']
      by_cases ha : a < 128
      · have : (a + 1) / 128 = 1 := by omega
        rw [this, sizeVarint_lt ha, sizeVarint_lt (by omega : 1 < 128)]; omega
      · have ha' : 128 ≤ a := by omega
        rw [sizeVarint_ge ha']
        have h2 : sizeVarint ((a + 1) / 128) ≤ sizeVarint (a / 128 + 1) :=
          sizeVarint_mono (by omega)
        have h3 := ih (a / 128) (by omega)
        omega

theorem sizeVarint_add_le_add (a b : Nat) : sizeVarint (a + b) ≤ sizeVarint a + b := by
  induction b with
  | zero => simp
  | succ b ih => have := sizeVarint_succ_le (a + b); rw [← Nat.add_assoc]; omega

/-- sub-additivity -/
theorem sizeVarint_add_le (a b : Nat) : sizeVarint (a + b) ≤ sizeVarint a + sizeVarint b := by
  induction b using Nat.strongRecOn generalizing a with
  | _ b ih =>
    have pa := sizeVarint_pos a
    have pb := sizeVarint_pos b
    by_cases hab : a + b < 128
    · rw [sizeVarint_lt hab]; omega
    · have hab' : 128 ≤ a + b := by omega
      rw [sizeVarint_ge hab']
      by_cases hb : b < 128
      · -- (a+b)/128 ≤ a/128 + 1
        have h1 : sizeVarint ((a + b) / 128) ≤ sizeVarint (a / 128 + 1) := sizeVarint_mono (by omega)
        have h2 := sizeVarint_succ_le (a / 128)
        by_cases ha : a < 128
        · have : (a + b) / 128 = 1 := by omega
          rw [this, sizeVarint_lt (by omega : 1 < 128)]; omega
        · rw [sizeVarint_ge (by omega : 128 ≤ a)]; omega
      · have hb' : 128 ≤ b := by omega
        rw [sizeVarint_ge hb']
        have h1 : sizeVarint ((a + b) / 128) ≤ sizeVarint ((a / 128 + 1) + b / 128) :=
          sizeVarint_mono (by omega)
        have h2 := ih (b / 128) (by omega) (a / 128 + 1)
        have h3 := sizeVarint_succ_le (a / 128)
        by_cases ha : a < 128
        · have h4 : sizeVarint ((a + b) / 128) ≤ sizeVarint (b / 128 + 1) := sizeVarint_mono (by omega)
          have h5 := sizeVarint_succ_le (b / 128)
          omega
        · rw [sizeVarint_ge (by omega : 128 ≤ a)]; omega

/-- `k + 1` bytes suffice below `128^(k+1)` -/
theorem sizeVarint_le_of_lt (k : Nat) : ∀ x, x < 128 ^ (k + 1) → sizeVarint x ≤ k + 1 := by
  induction k with
  | zero => intro x hx; rw [sizeVarint_lt (by simpa using hx)]; omega
  | succ k ih =>
    intro x hx
    by_cases h : x < 128
    · rw [sizeVarint_lt h]; omega
    · rw [sizeVarint_ge (by omega)]
      have : x / 128 < 128 ^ (k + 1) := by
        rw [Nat.div_lt_iff_lt_mul (by omega)]
        rw [Nat.pow_succ] at hx; exact hx
      have := ih _ this
      omega

theorem sizeVarint_le2 {x : Nat} (h : x < 2 ^ 14) : sizeVarint x ≤ 2 :=
  sizeVarint_le_of_lt 1 x (by simpa using h)
theorem sizeVarint_le3 {x : Nat} (h : x < 2 ^ 21) : sizeVarint x ≤ 3 :=
  sizeVarint_le_of_lt 2 x (by simpa using h)
theorem sizeVarint_le5 {x : Nat} (h : x < 2 ^ 35) : sizeVarint x ≤ 5 :=
  sizeVarint_le_of_lt 4 x (by simpa using h)
theorem sizeVarint_le10 {x : Nat} (h : x < 2 ^ 64) : sizeVarint x ≤ 10 :=
  sizeVarint_le_of_lt 9 x (by
    have : (2 : Nat) ^ 64 ≤ 128 ^ 10 := by decide
    omega)

/-! ### packed lists -/

theorem packedSize_nil : packedSize [] = 0 := rfl

theorem packedSize_cons (x : Nat) (l : List Nat) : packedSize (x :: l) = sizeVarint x + packedSize l := by
  simp [packedSize]

/-- every element costs at most `c` bytes -/
theorem packedSize_le (l : List Nat) (c : Nat) (h : ∀ x ∈ l, sizeVarint x ≤ c) :
    packedSize l ≤ c * l.length := by
  induction l with
  | nil => simp [packedSize]
  | cons x l ih =>
    rw [packedSize_cons, List.length_cons, Nat.mul_succ]
    have := h x (by simp)
    have := ih (fun y hy => h y (List.mem_cons_of_mem _ hy))
    omega

/-- pointwise `x ≤ x' ≤ x + 1` -/
def Near : List Nat → List Nat → Prop
  | [], [] => True
  | x :: l, x' :: l' => x ≤ x' ∧ x' ≤ x + 1 ∧ Near l l'
  | _, _ => False

theorem Near.refl (l : List Nat) : Near l l := by
  induction l with
  | nil => trivial
  | cons x l ih => exact ⟨Nat.le_refl _, by omega, ih⟩

theorem Near.length_eq {l l' : List Nat} (h : Near l l') : l.length = l'.length := by
  induction l generalizing l' with
  | nil => cases l' with
    | nil => rfl
    | cons _ _ => cases h
  | cons x l ih => cases l' with
    | nil => cases h
    | cons x' l' => simp [ih h.2.2]

theorem Near.packedSize {l l' : List Nat} (h : Near l l') :
    packedSize l ≤ packedSize l' ∧ packedSize l' ≤ packedSize l + l.length := by
  induction l generalizing l' with
  | nil => cases l' with
    | nil => simp
    | cons _ _ => cases h
  | cons x l ih => cases l' with
    | nil => cases h
    | cons x' l' =>
      obtain ⟨h1, h2, h3⟩ := h
      obtain ⟨i1, i2⟩ := ih h3
      rw [packedSize_cons, packedSize_cons, List.length_cons]
      have m1 := sizeVarint_mono h1
      have m2 := sizeVarint_mono h2
      have m3 := sizeVarint_succ_le x
      omega

theorem Near.eq_nil_iff {l l' : List Nat} (h : Near l l') : l = [] ↔ l' = [] := by
  cases l <;> cases l' <;> simp_all [Near]

/-- a packed field whose payload grows by at most `k` -/
theorem sizePackedF_grow (fno : Nat) {l l' : List Nat} (hnil : l = [] ↔ l' = []) (k : Nat)
    (h1 : packedSize l ≤ packedSize l') (h2 : packedSize l' ≤ packedSize l + k) :
    sizePackedF fno l ≤ sizePackedF fno l' ∧
      sizePackedF fno l' ≤ sizePackedF fno l + k + sizeVarint k := by
  unfold sizePackedF
  by_cases hl : l = []
  · have hl' := hnil.mp hl
    simp [hl, hl']
  · have hl' : ¬ l' = [] := fun h => hl (hnil.mpr h)
    rw [if_neg hl, if_neg hl']
    have m1 := sizeVarint_mono h1
    have m2 := sizeVarint_mono h2
    have m3 := sizeVarint_add_le (packedSize l) k
    omega

/-! ### the other fields -/

theorem sizeMsgF_grow (fno s s' k : Nat) (h1 : s ≤ s') (h2 : s' ≤ s + k) :
    sizeMsgF fno (some s) ≤ sizeMsgF fno (some s') ∧
      sizeMsgF fno (some s') ≤ sizeMsgF fno (some s) + k + sizeVarint k := by
  simp only [sizeMsgF]
  have m1 := sizeVarint_mono h1
  have m2 := sizeVarint_mono h2
  have m3 := sizeVarint_add_le s k
  omega

/-- a counter field going from `v` to `v + 1` -/
theorem sizeVarintF_succ (fno v : Nat) (hf : fno * 8 < 2 ^ 7) :
    sizeVarintF fno v ≤ sizeVarintF fno (v + 1) ∧ sizeVarintF fno (v + 1) ≤ sizeVarintF fno v + 2 := by
  unfold sizeVarintF
  have ht : sizeVarint (fno * 8 + 0) = 1 := sizeVarint_lt (by omega)
  have hne : ¬ v + 1 = 0 := by omega
  rw [if_neg hne, ht]
  by_cases hv : v = 0
  · subst hv
    rw [if_pos rfl, sizeVarint_lt (by omega : 0 + 1 < 128)]; omega
  · rw [if_neg hv]
    have : sizeVarint v ≤ sizeVarint (v + 1) := sizeVarint_mono (Nat.le_succ v)
    have := sizeVarint_succ_le v
    omega

/-- a bytes field getting two more bytes -/
theorem sizeBytesF_add_two (fno : Nat) (b b' : Bytes) (hlen : b'.length = b.length + 2)
    (hf : fno * 8 + 2 < 2 ^ 14) :
    sizeBytesF fno b ≤ sizeBytesF fno b' ∧ sizeBytesF fno b' ≤ sizeBytesF fno b + 5 := by
  unfold sizeBytesF
  have hb' : ¬ b' = [] := by intro h; rw [h] at hlen; simp at hlen
  have ht := sizeVarint_le2 hf
  have hp := sizeVarint_pos (fno * 8 + 2)
  rw [if_neg hb', hlen]
  by_cases hb : b = []
  · subst hb
    rw [if_pos rfl]
    simp only [List.length_nil, Nat.zero_add]
    rw [sizeVarint_lt (by omega : 2 < 128)]; omega
  · rw [if_neg hb]
    have m1 := sizeVarint_mono (by omega : b.length ≤ b.length + 2)
    have m2 := sizeVarint_succ_le b.length
    have m3 : sizeVarint (b.length + 2) ≤ sizeVarint (b.length + 1) + 1 :=
      sizeVarint_succ_le (b.length + 1)
    omega

theorem sizeBytesF_congr (fno : Nat) (b b' : Bytes) (hlen : b'.length = b.length) :
    sizeBytesF fno b' = sizeBytesF fno b := by
  unfold sizeBytesF
  have : b' = [] ↔ b = [] := by
    rw [← List.length_eq_zero_iff, ← List.length_eq_zero_iff, hlen]
  by_cases h : b = []
  · rw [if_pos h, if_pos (this.mpr h)]
  · rw [if_neg h, if_neg (fun h' => h (this.mp h')), hlen]

end SizeV
