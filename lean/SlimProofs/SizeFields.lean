import SlimProofs.SizeShort
import SlimProofs.SizeVarint
import SlimProofs.SizePrefixEnc
/-
  SlimProofs.SizeFields — C17: upper bounds for the serialized size of the bitmaps that
  `creator.build` makes, and the counting facts (nodes, inner nodes, label bits, steps).
-/

namespace SizeFields

open Bits Slim Refine Wire SizeV SizeShort

/-! ### generic field bounds -/

theorem sizePackedF_le (fno : Nat) (l : List Nat) (c n : Nat) (hf : fno * 8 + 2 < 2 ^ 14)
    (hc : ∀ x ∈ l, sizeVarint x ≤ c) (hn : l.length ≤ n) (hcn : c * n < 2 ^ 35) :
    sizePackedF fno l ≤ 7 + c * n := by
  unfold sizePackedF
  split
  · omega
  · have h1 := packedSize_le l c hc
    have h2 : c * l.length ≤ c * n := Nat.mul_le_mul_left c hn
    have h3 := sizeVarint_le2 hf
    have h4 : sizeVarint (packedSize l) ≤ 5 := sizeVarint_le5 (by omega)
    omega

theorem sizeMsgF_le (fno s : Nat) (hf : fno * 8 + 2 < 2 ^ 14) (hs : s < 2 ^ 35) :
    sizeMsgF fno (some s) ≤ 7 + s := by
  simp only [sizeMsgF]
  have := sizeVarint_le2 hf
  have := sizeVarint_le5 hs
  omega

/-- a bitmap message with `W` words and `R` rank entries below `2^35` -/
theorem protoSizeBitmap_le (b : BitmapMsg) (W R : Nat) (hw : b.words.length ≤ W)
    (hwlt : ∀ w ∈ b.words, w < 2 ^ 64) (hr : b.rankIndex.length ≤ R)
    (hrlt : ∀ r ∈ b.rankIndex, r < 2 ^ 35) (hsel : b.selectIndex = [])
    (hW : 10 * W < 2 ^ 35) (hR : 5 * R < 2 ^ 35) :
    protoSizeBitmap b ≤ 14 + 10 * W + 5 * R := by
  unfold protoSizeBitmap
  have h1 := sizePackedF_le 20 b.words 10 W (by omega) (fun x hx => sizeVarint_le10 (hwlt x hx)) hw hW
  have h2 := sizePackedF_le 30 b.rankIndex 5 R (by omega) (fun x hx => sizeVarint_le5 (hrlt x hx)) hr hR
  have h3 : sizePackedF 40 [] = 0 := by simp [sizePackedF]
  rw [hsel, h3]
  omega

/-! ### rank entries count set bits -/

theorem length_eraseDups_le_aux (n : Nat) : ∀ l : List Nat, l.length ≤ n → l.eraseDups.length ≤ l.length := by
  induction n with
  | zero =>
    intro l hl
    have : l = [] := List.eq_nil_of_length_eq_zero (by omega)
    subst this; simp
  | succ n ih =>
    intro l hl
    cases l with
    | nil => simp
    | cons a as =>
      rw [List.eraseDups_cons, List.length_cons, List.length_cons]
      have h1 := List.length_filter_le (fun b => !b == a) as
      have := ih (as.filter fun b => !b == a) (by simp only [List.length_cons] at hl; omega)
      omega

theorem length_eraseDups_le (l : List Nat) : l.eraseDups.length ≤ l.length :=
  length_eraseDups_le_aux _ l (Nat.le_refl _)

theorem cnt_ofIdx_le (idxs : List Nat) (capa i : Nat) :
    cnt (getBit (ofIdx idxs capa)) i ≤ idxs.length := by
  rcases Nat.le_total i (64 * (ofIdx idxs capa).length) with h | h
  · rw [cnt_getBit_ofIdx idxs capa i h]
    exact Nat.le_trans (List.length_filter_le _ _) (length_eraseDups_le idxs)
  · rw [cnt_getBit_of_ge _ h, cnt_getBit_ofIdx idxs capa _ (Nat.le_refl _)]
    exact Nat.le_trans (List.length_filter_le _ _) (length_eraseDups_le idxs)

theorem indexRank64_entry_le (idxs : List Nat) (capa : Nat) (tr : Bool) :
    ∀ e ∈ indexRank64 (ofIdx idxs capa) tr, e ≤ idxs.length := by
  intro e he
  obtain ⟨k, hk⟩ := List.mem_iff_getElem?.mp he
  rw [indexRank64_getElem?] at hk
  split at hk
  · cases hk; exact cnt_ofIdx_le _ _ _
  · cases hk

theorem indexRank128_entry_le (idxs : List Nat) (capa : Nat) :
    ∀ e ∈ indexRank128 (ofIdx idxs capa), e ≤ idxs.length := by
  intro e he
  obtain ⟨k, hk⟩ := List.mem_iff_getElem?.mp he
  rw [indexRank128_getElem?] at hk
  split at hk
  · cases hk; exact cnt_ofIdx_le _ _ _
  · cases hk

/-! ### the bitmaps of `newBM` -/

theorem newBM_r64_size (idxs : List Nat) (capa : Nat) (hlt : ∀ i ∈ idxs, i < capa)
    (hcap : capa < 2 ^ 32) (hlen : idxs.length < 2 ^ 35) :
    protoSizeBitmap (newBM idxs capa "r64") ≤ 14 + 15 * ((capa + 63) / 64) := by
  have hW := SizePrefixEnc.ofIdx_length_capa idxs capa hlt
  have := protoSizeBitmap_le (newBM idxs capa "r64") ((capa + 63) / 64) ((capa + 63) / 64)
    (by rw [newBM_words_r64, hW]; exact Nat.le_refl _) (by rw [newBM_words_r64]; exact ofIdx_lt _ _)
    (by
      show (indexRank64 (ofIdx idxs capa) false).length ≤ _
      rw [indexRank64_length, hW]; simp)
    (by
      intro r hr
      have := indexRank64_entry_le idxs capa false r hr
      omega)
    rfl (by omega) (by omega)
  omega

theorem newBM_r128_size (idxs : List Nat) (capa : Nat) (hlt : ∀ i ∈ idxs, i < capa)
    (hcap : capa < 2 ^ 32) (hlen : idxs.length < 2 ^ 35) :
    protoSizeBitmap (newBM idxs capa "r128")
      ≤ 14 + 10 * ((capa + 63) / 64) + 5 * ((capa + 63) / 64 / 2 + 1) := by
  have hW := SizePrefixEnc.ofIdx_length_capa idxs capa hlt
  exact protoSizeBitmap_le (newBM idxs capa "r128") ((capa + 63) / 64) ((capa + 63) / 64 / 2 + 1)
    (by rw [newBM_words_r128, hW]; exact Nat.le_refl _) (by rw [newBM_words_r128]; exact ofIdx_lt _ _)
    (by
      show (indexRank128 (ofIdx idxs capa)).length ≤ _
      rw [indexRank128_length, hW]; exact Nat.le_refl _)
    (by
      intro r hr
      have := indexRank128_entry_le idxs capa r hr
      omega)
    rfl (by omega) (by omega)

theorem length_concatIdx (subs : List (List Nat)) (sizes : List Nat) (base : Nat)
    (h : subs.length = sizes.length) :
    (concatIdx subs sizes base).length = (subs.map List.length).sum := by
  induction subs generalizing sizes base with
  | nil => cases sizes <;> simp [concatIdx]
  | cons s ss ih =>
    cases sizes with
    | nil => simp at h
    | cons z zs =>
      simp only [concatIdx, List.length_append, List.length_map, List.map_cons, List.sum_cons]
      rw [ih zs (base + z) (by simpa using h)]

/-- the label bitmap: `B` bits in `⌈B/64⌉` words, rank entries at most the number `Λ` of set bits -/
theorem ofMany_r128_size (subs : List (List Nat)) (sizes : List Nat) (hok : SubsOK subs sizes)
    (hB : 10 * ((sizes.sum + 63) / 64) < 2 ^ 35) (hΛ : (subs.map List.length).sum < 2 ^ 35) :
    protoSizeBitmap (mk (ofMany subs sizes) "r128")
      ≤ 14 + 10 * ((sizes.sum + 63) / 64) + 5 * ((sizes.sum + 63) / 64 / 2 + 1) := by
  have hW := ofMany_length hok
  apply protoSizeBitmap_le
  · rw [mk_r128]; simp only; rw [hW]; exact Nat.le_refl _
  · rw [mk_r128]; exact ofMany_lt _ _
  · rw [mk_r128]; simp only; rw [indexRank128_length, hW]; exact Nat.le_refl _
  · intro r hr
    rw [mk_r128, ofMany_eq _ _ hok.length_eq] at hr
    have := indexRank128_entry_le _ _ r hr
    rw [length_concatIdx _ _ _ hok.length_eq] at this
    omega
  · rfl
  · exact hB
  · omega

/-! ### counting -/

theorem sum_map_ite {α : Type} (l : List α) (p : α → Bool) (c d : Nat) :
    (l.map (fun r => c + d * (if p r then 1 else 0))).sum = c * l.length + d * l.countP p := by
  induction l with
  | nil => simp
  | cons a l ih =>
    simp only [List.map_cons, List.sum_cons, ih, List.length_cons, List.countP_cons]
    split <;> simp [Nat.mul_succ] <;> omega

/-- total number of labels -/
def labelSum (t : Trie1) : Nat := ((eInners t).map (fun r => r.labels.length)).sum

/-- number of 257-bit nodes -/
def bigCount (t : Trie1) : Nat := (eInners t).countP (·.big)

theorem eInners_eq_innersBefore (t : Trie1) : innersBefore t.nodes t.nodes.size = eInners t := by
  rw [innersBefore_eq', eInners_eq]
  congr 1
  exact List.take_of_length_le (by simp)

theorem nodes_eq_labels {t : Trie1} (hs : ShapeOK t) : t.nodes.size = 1 + labelSum t := by
  have := hs.total
  rw [eInners_eq_innersBefore] at this
  exact this

theorem nodes_eq_leaves_inners (t : Trie1) :
    leavesBefore t.nodes t.nodes.size + (eInners t).length = t.nodes.size := by
  have := leaves_add_inners t.nodes t.nodes.size (Nat.le_refl _)
  rw [eInners_eq_innersBefore] at this
  exact this

/-- with at least 2 labels per inner node and at least 11 per big node -/
theorem labelSum_ge (t : Trie1) (hTwo : ∀ r ∈ eInners t, 2 ≤ r.labels.length)
    (hBig : ∀ r ∈ eInners t, r.big = true → 11 ≤ r.labels.length) :
    2 * (eInners t).length + 9 * bigCount t ≤ labelSum t := by
  unfold labelSum bigCount
  rw [← sum_map_ite (eInners t) (·.big) 2 9]
  apply sum_map_le_sum_map
  intro r hr
  have h2 := hTwo r hr
  split
  · next hb => have := hBig r hr hb; omega
  · omega

/-- total width of the label bitmap -/
theorem sizes_sum_le {t : Trie1} (hs : ShapeOK t) :
    (eSizes t).sum ≤ 17 * (eInners t).length + 240 * bigCount t := by
  unfold bigCount
  rw [← sum_map_ite (eInners t) (·.big) 17 240]
  unfold eSizes eSub
  rw [List.map_map]
  apply sum_map_le_sum_map
  intro r hr
  obtain ⟨m, hm⟩ := List.mem_iff_getElem?.mp hr
  obtain ⟨_, _, _, _, f5, f6, f7⟩ := sub_facts hs hm
  simp only [Function.comp_apply]
  cases hb : r.big with
  | true => rw [f5 hb]; simp
  | false =>
    cases hsh : (subOf (eMostUsed t) (eShortSize t) r).2.2 with
    | false => rw [f6 hb hsh]; simp
    | true =>
      obtain ⟨_, c, hc, _⟩ := f7 hsh
      rw [hc]
      have := eShortSize_le t
      simp; omega

theorem steps_le (t : Trie1) : ((eInners t).filterMap stepOf).length ≤ (eInners t).length :=
  List.length_filterMap_le _ _

theorem steps_bytes_length (t : Trie1) :
    ((eInners t).filterMap stepOf).flatten.length = 2 * ((eInners t).filterMap stepOf).length := by
  rw [List.length_flatten]
  rw [sum_map_const _ List.length 2]
  · omega
  · intro p hp
    simp only [List.mem_filterMap] at hp
    obtain ⟨r, _, hr⟩ := hp
    unfold stepOf at hr
    split at hr
    · simp only [Option.some.injEq] at hr; subst hr; rfl
    · cases hr

end SizeFields
