import SlimProofs.Refine.Sub
import SlimProofs.Refine.Prefix
/-
  SlimProofs.Refine.Leaf — the node type bitmap and the leaf case of `getNode (encode t)`.
-/

namespace Refine

open Bits Slim

/-! ### counting inner nodes and leaves -/

theorem length_leaf_add_inner (l : List Node) :
    (l.filterMap leafOf).length + (l.filterMap innerOf).length = l.length := by
  induction l with
  | nil => rfl
  | cons n l ih =>
    cases n with
    | inner r => simp only [List.filterMap_cons, leafOf, innerOf, List.length_cons]; omega
    | leaf i lp => simp only [List.filterMap_cons, leafOf, innerOf, List.length_cons]; omega

theorem countP_isInner (l : List Node) : l.countP Node.isInner = (l.filterMap innerOf).length := by
  rw [List.length_filterMap_eq_countP]
  apply List.countP_congr
  intro n _
  cases n <;> simp [Node.isInner, innerOf]

theorem leavesBefore_eq (nodes : Array Node) (j : Nat) :
    leavesBefore nodes j = ((nodes.toList.take j).filterMap leafOf).length := by
  unfold leavesBefore
  rw [List.length_filterMap_eq_countP, ← List.countP_eq_length_filter]
  apply List.countP_congr
  intro n _
  cases n <;> simp [Node.isInner, leafOf]

theorem leaves_add_inners (nodes : Array Node) (j : Nat) (hj : j ≤ nodes.size) :
    leavesBefore nodes j + (innersBefore nodes j).length = j := by
  rw [leavesBefore_eq, innersBefore_eq', length_leaf_add_inner, List.length_take]
  have : nodes.toList.length = nodes.size := rfl
  omega

/-! ### the node type bitmap -/

theorem ofIdx_capa_le (idxs : List Nat) (capa : Nat) : capa ≤ 64 * (ofIdx idxs capa).length := by
  rw [ofIdx_length']; omega

theorem rank_nodeType (t : Trie1) (id : Nat) (n : Node) (hn : t.nodes[id]? = some n) :
    rank64 (newBM (eInnerIdx t) t.nodes.size "r64") id
      = .ok ((innersBefore t.nodes id).length, n.isInner) := by
  have hid : id < t.nodes.size := by
    have := (Array.getElem?_eq_some_iff.mp hn).1; exact this
  have hcap := ofIdx_capa_le (eInnerIdx t) t.nodes.size
  have hq : ∀ (i : Nat) (a : Node), t.nodes.toList[i]? = some a →
      (match t.nodes[i]? with | some (.inner _) => true | _ => false) = a.isInner := by
    intro i a h
    rw [Array.getElem?_toList] at h
    rw [h]; cases a <;> rfl
  have hidx : eInnerIdx t = (List.range t.nodes.toList.length).filter
      (fun i => match t.nodes[i]? with | some (.inner _) => true | _ => false) := rfl
  rw [rank64_newBM_asc (by rw [hidx]; exact asc_filter_range _ _) _ _ (by omega)]
  congr 2
  · rw [hidx, length_filter_lt_filter_range _ Node.isInner _ hq id (by
      have : t.nodes.toList.length = t.nodes.size := rfl
      omega), countP_isInner, innersBefore_eq']
  · rw [hidx]
    exact mem_filter_range_iff _ Node.isInner _ hq id n (by rw [Array.getElem?_toList]; exact hn)

/-! ### reading through an inlined `rank64` -/

theorem inline_rank (ws : List Nat) (tr : Bool) (i : Nat) (hi : i < 64 * ws.length) :
    ∃ w r, ws[i / 64]? = some w ∧ (indexRank64 ws tr)[i / 64]? = some r
      ∧ r + popcount (w % 2 ^ (i % 64)) = cnt (getBit ws) i ∧ w.testBit (i % 64) = getBit ws i := by
  have hk : i / 64 < ws.length := by omega
  have hw : ws.getD (i / 64) 0 = ws[i / 64] := by
    rw [List.getD_eq_getElem?_getD, List.getElem?_eq_getElem hk]; rfl
  refine ⟨ws[i / 64], cnt (getBit ws) (64 * (i / 64)), List.getElem?_eq_getElem hk, ?_, ?_, ?_⟩
  · rw [indexRank64_getElem?, if_pos (Or.inl hk)]
  · rw [cnt_getBit_split ws i, hw]
  · rw [getBit, hw]

/-! ### `getLeafPrefix` -/

theorem getLeafPrefix_off (s : SlimMsg) (q : Nat) (h : s.leafPrefixes = none) :
    getLeafPrefix s q = .ok none := by
  unfold getLeafPrefix
  simp only [h, pure, Except.pure]

theorem getLeafPrefix_absent (s : SlimMsg) (q : Nat) (lp : VLenArrayMsg) (pres : BitmapMsg) (w : Nat)
    (h1 : s.leafPrefixes = some lp) (h2 : lp.presenceBM = some pres)
    (h3 : pres.words[q / 64]? = some w) (h4 : w.testBit (q % 64) = false) :
    getLeafPrefix s q = .ok none := by
  unfold getLeafPrefix
  simp only [h1, h2, h3, h4, bind, Except.bind, pure, Except.pure, Bool.not_false, if_true]

theorem getLeafPrefix_present (s : SlimMsg) (q : Nat) (lp : VLenArrayMsg) (pres pos : BitmapMsg)
    (w r a b : Nat) (bs : Bytes)
    (h1 : s.leafPrefixes = some lp) (h2 : lp.presenceBM = some pres)
    (h3 : pres.words[q / 64]? = some w) (h4 : w.testBit (q % 64) = true)
    (h5 : pres.rankIndex[q / 64]? = some r) (h6 : lp.positionBM = some pos)
    (h7 : select32R64 pos (r + popcount (w % 2 ^ (q % 64))) = .ok (a, b))
    (h8 : sliceBytes lp.bytes a b = .ok bs) :
    getLeafPrefix s q = .ok (some bs) := by
  unfold getLeafPrefix
  simp only [h1, h2, h3, h4, h5, h6, h7, h8, bind, Except.bind, pure, Except.pure, Bool.not_true,
    Bool.false_eq_true, if_false]

/-- every stored leaf tail is non-empty -/
theorem eLeafPs_pos {t : Trie1} (hs : ShapeOK t) : ∀ z ∈ (eLeafPs t).map List.length, 0 < z := by
  intro z hz
  simp only [eLeafPs, eLeafLps, List.mem_map, List.mem_filterMap, id] at hz
  obtain ⟨b, ⟨lp, ⟨n, hn, hlp⟩, hb⟩, rfl⟩ := hz
  subst hb
  obtain ⟨j, hj⟩ := List.mem_iff_getElem?.mp hn
  rw [Array.getElem?_toList] at hj
  cases n with
  | inner r => simp [leafOf] at hlp
  | leaf ith lp' =>
    simp only [leafOf, Option.some.injEq] at hlp
    subst hlp
    have := (hs.leafPref j ith b hj).2
    exact List.length_pos_iff.mpr this

/-- the leaf prefix of the `q`-th leaf, read from the message -/
theorem getLeafPrefix_encode {t : Trie1} (hs : ShapeOK t) (id ith : Nat) (lp : Option Bytes)
    (hn : t.nodes[id]? = some (.leaf ith lp)) :
    getLeafPrefix (encodeCreator t) (leavesBefore t.nodes id) = .ok lp := by
  have hq : (eLeafLps t)[leavesBefore t.nodes id]? = some lp := by
    rw [leavesBefore_eq]
    exact getElem?_filterMap_take leafOf _ id (.leaf ith lp) lp
      (by rw [Array.getElem?_toList]; exact hn) rfl
  cases hl : t.opt.leaf with
  | false =>
    have hnone : lp = none := by
      cases lp with
      | none => rfl
      | some b => have := (hs.leafPref id ith b hn).1; rw [hl] at this; cases this
    rw [hnone]
    apply getLeafPrefix_off
    rw [enc_leafPrefixes]; simp [eLps, hl]
  | true =>
    have hlps : (encodeCreator t).leafPrefixes = some
        { presenceBM := some (newBM (eLeafIdx t) (eLeafLps t).length "r64")
          positionBM := some (newBM (stepToPos ((eLeafPs t).map List.length)) 0 "s32")
          bytes := (eLeafPs t).flatten } := by
      rw [enc_leafPrefixes]; simp [eLps, hl]
    have hqlt : leavesBefore t.nodes id < (eLeafLps t).length := (List.getElem?_eq_some_iff.mp hq).1
    have hcap := ofIdx_capa_le (eLeafIdx t) (eLeafLps t).length
    obtain ⟨w, r, hw, hr, hrank, hbit⟩ := inline_rank (ofIdx (eLeafIdx t) (eLeafLps t).length) false
      (leavesBefore t.nodes id) (by omega)
    have hqq : ∀ i a, (eLeafLps t)[i]? = some a → ((eLeafLps t).getD i none).isSome = a.isSome := by
      intro i a h; rw [List.getD_eq_getElem?_getD, h]; rfl
    have hbit' : w.testBit (leavesBefore t.nodes id % 64) = lp.isSome := by
      rw [hbit, getBit_ofIdx _ _ _ (by omega)]
      exact mem_filter_range_iff _ Option.isSome _ hqq _ lp hq
    cases lp with
    | none =>
      exact getLeafPrefix_absent _ _ _ _ w hlps rfl hw (by rw [hbit']; rfl)
    | some b =>
      have hk : (eLeafPs t)[(((eLeafLps t).take (leavesBefore t.nodes id)).filterMap _root_.id).length]?
          = some b :=
        getElem?_filterMap_take _root_.id _ _ (some b) b hq rfl
      have hrank' : r + popcount (w % 2 ^ (leavesBefore t.nodes id % 64))
          = (((eLeafLps t).take (leavesBefore t.nodes id)).filterMap _root_.id).length := by
        have hidx : eLeafIdx t = (List.range (eLeafLps t).length).filter
            (fun i => ((eLeafLps t).getD i none).isSome) := rfl
        rw [hrank, cnt_getBit_ofIdx _ _ _ (by omega),
          eraseDups_of_asc (l := eLeafIdx t) (by rw [hidx]; exact asc_filter_range _ _), hidx,
          length_filter_lt_filter_range _ Option.isSome _ hqq _ (by omega),
          List.length_filterMap_eq_countP]
        rfl
      have hklt := (List.getElem?_eq_some_iff.mp hk).1
      apply getLeafPrefix_present _ _ _ _ _ w r _ _ b hlps rfl hw (by rw [hbit']; rfl) hr rfl
      · rw [hrank']
        exact select32R64_positions_pos _ (eLeafPs_pos hs) _ (by rw [List.length_map]; exact hklt)
      · exact sliceBytes_flatten _ _ b hk

end Refine
