// Command mutate enumerates single-point mutants of a Go source file (go/ast), for the mutation
// campaign of tools/mutants.py: it measures which changes that survive the repository's own test
// suite are caught by the checks.  It is tooling, not part of any check.
//
//	mutate -file F -list            prints one line per mutant: index, line, description
//	mutate -file F -n I -out PATH   writes the I-th mutant of F to PATH
package main

import (
	"bytes"
	"flag"
	"fmt"
	"go/ast"
	"go/format"
	"go/parser"
	"go/token"
	"os"
	"strconv"
)

type mutant struct {
	line  int
	desc  string
	apply func()
	undo  func()
}

var swaps = map[token.Token][]token.Token{
	token.LSS:     {token.LEQ, token.GTR},
	token.LEQ:     {token.LSS},
	token.GTR:     {token.GEQ, token.LSS},
	token.GEQ:     {token.GTR},
	token.EQL:     {token.NEQ},
	token.NEQ:     {token.EQL},
	token.ADD:     {token.SUB},
	token.SUB:     {token.ADD},
	token.MUL:     {token.QUO},
	token.AND:     {token.OR},
	token.OR:      {token.AND},
	token.SHL:     {token.SHR},
	token.SHR:     {token.SHL},
	token.LAND:    {token.LOR},
	token.LOR:     {token.LAND},
	token.AND_NOT: {token.AND},
	token.REM:     {token.QUO},
}

var asgSwaps = map[token.Token][]token.Token{
	token.ADD_ASSIGN: {token.SUB_ASSIGN},
	token.SUB_ASSIGN: {token.ADD_ASSIGN},
	token.OR_ASSIGN:  {token.AND_ASSIGN},
	token.AND_ASSIGN: {token.OR_ASSIGN},
	token.SHL_ASSIGN: {token.SHR_ASSIGN},
	token.SHR_ASSIGN: {token.SHL_ASSIGN},
}

func collect(fset *token.FileSet, f *ast.File) []mutant {
	var ms []mutant
	add := func(pos token.Pos, desc string, apply, undo func()) {
		ms = append(ms, mutant{fset.Position(pos).Line, desc, apply, undo})
	}
	ast.Inspect(f, func(n ast.Node) bool {
		switch x := n.(type) {
		case *ast.GenDecl:
			if x.Tok == token.IMPORT {
				return false
			}
		case *ast.BinaryExpr:
			x0 := x
			old := x.Op
			for _, nw := range swaps[old] {
				nw := nw
				add(x.OpPos, fmt.Sprintf("%s -> %s", old, nw), func() { x0.Op = nw }, func() { x0.Op = old })
			}
		case *ast.AssignStmt:
			x0 := x
			old := x.Tok
			for _, nw := range asgSwaps[old] {
				nw := nw
				add(x.TokPos, fmt.Sprintf("%s -> %s", old, nw), func() { x0.Tok = nw }, func() { x0.Tok = old })
			}
		case *ast.IncDecStmt:
			x0 := x
			old := x.Tok
			nw := token.DEC
			if old == token.DEC {
				nw = token.INC
			}
			add(x.TokPos, fmt.Sprintf("%s -> %s", old, nw), func() { x0.Tok = nw }, func() { x0.Tok = old })
		case *ast.BasicLit:
			if x.Kind == token.INT {
				x0 := x
				old := x.Value
				v, err := strconv.ParseInt(old, 0, 64)
				if err == nil {
					for _, d := range []int64{1, -1} {
						if v+d < 0 {
							continue
						}
						nv := fmt.Sprint(v + d)
						add(x.ValuePos, fmt.Sprintf("literal %s -> %s", old, nv), func() { x0.Value = nv }, func() { x0.Value = old })
					}
				}
			}
		case *ast.Ident:
			if x.Name == "true" || x.Name == "false" {
				x0 := x
				old := x.Name
				nw := "true"
				if old == "true" {
					nw = "false"
				}
				add(x.NamePos, fmt.Sprintf("%s -> %s", old, nw), func() { x0.Name = nw }, func() { x0.Name = old })
			}
		case *ast.IfStmt:
			x0 := x
			old := x.Cond
			add(x.Cond.Pos(), "if cond -> !cond", func() { x0.Cond = &ast.UnaryExpr{Op: token.NOT, X: &ast.ParenExpr{X: old}} }, func() { x0.Cond = old })
			add(x.Cond.Pos(), "if cond -> true", func() { x0.Cond = &ast.BinaryExpr{X: &ast.ParenExpr{X: old}, Op: token.LOR, Y: ast.NewIdent("true")} }, func() { x0.Cond = old })
			add(x.Cond.Pos(), "if cond -> false", func() { x0.Cond = &ast.BinaryExpr{X: &ast.ParenExpr{X: old}, Op: token.LAND, Y: ast.NewIdent("false")} }, func() { x0.Cond = old })
		case *ast.ForStmt:
			if x.Cond != nil {
				x0 := x
				old := x.Cond
				add(x.Cond.Pos(), "for cond -> cond && false", func() { x0.Cond = &ast.BinaryExpr{X: &ast.ParenExpr{X: old}, Op: token.LAND, Y: ast.NewIdent("false")} }, func() { x0.Cond = old })
			}
		case *ast.BlockStmt:
			x0 := x
			for i, s := range x.List {
				i, s := i, s
				switch st := s.(type) {
				case *ast.AssignStmt:
					if st.Tok == token.DEFINE {
						continue
					}
				case *ast.IncDecStmt, *ast.ExprStmt:
				case *ast.BranchStmt:
					if st.Tok == token.BREAK || st.Tok == token.CONTINUE {
						st0 := st
						old := st.Tok
						nw := token.CONTINUE
						if old == token.CONTINUE {
							nw = token.BREAK
						}
						if st.Label == nil {
							add(st.Pos(), fmt.Sprintf("%s -> %s", old, nw), func() { st0.Tok = nw }, func() { st0.Tok = old })
						}
					}
					continue
				default:
					continue
				}
				add(s.Pos(), "delete statement", func() { x0.List[i] = &ast.EmptyStmt{Semicolon: s.Pos()} }, func() { x0.List[i] = s })
			}
		case *ast.UnaryExpr:
			if x.Op == token.NOT {
				// !x -> x : expressed by swapping the operator for a no-op '+' is not valid for bool; skip
			}
		}
		return true
	})
	return ms
}

func main() {
	file := flag.String("file", "", "Go source file")
	list := flag.Bool("list", false, "list mutants")
	n := flag.Int("n", -1, "mutant index")
	out := flag.String("out", "", "output path")
	flag.Parse()
	fset := token.NewFileSet()
	f, err := parser.ParseFile(fset, *file, nil, parser.ParseComments)
	if err != nil {
		fmt.Fprintln(os.Stderr, err)
		os.Exit(2)
	}
	ms := collect(fset, f)
	if *list {
		for i, m := range ms {
			fmt.Printf("%d\t%d\t%s\n", i, m.line, m.desc)
		}
		return
	}
	if *n < 0 || *n >= len(ms) {
		fmt.Fprintln(os.Stderr, "no such mutant")
		os.Exit(2)
	}
	ms[*n].apply()
	var b bytes.Buffer
	if err := format.Node(&b, fset, f); err != nil {
		fmt.Fprintln(os.Stderr, err)
		os.Exit(2)
	}
	if err := os.WriteFile(*out, b.Bytes(), 0o644); err != nil {
		fmt.Fprintln(os.Stderr, err)
		os.Exit(2)
	}
}
