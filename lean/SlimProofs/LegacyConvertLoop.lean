import SlimProofs.LegacyConvertWF
/-
  SlimProofs.LegacyConvertLoop — stage (ii-c): the invariant of the conversion loop (`CInv`):
  the loader's queue elements stand for the old nodes `0,1,2,…` in order (plus one `leafOnly`
  element per inner-and-leaf node), `nextOldID` is the old first-child id (`fcOf`), the queue
  length is the BFS first-child id of the next record, and every record made so far is `NodeOK`
  for the range of its queue element (`subOf`).  `cinv_leaf`, `cinv_inner`, `loop_spec` (with the
  fuel argument: the queue never exceeds twice the number of old nodes).
-/

namespace LegacyConvert
open LegacyWrite Legacy

/-- the static context of a conversion: keys, the old trie with its queue, the sections -/
structure Ctx where
  keys : List Bytes
  kn : Array (List Nat)
  ls : Bool
  nodes : Array OldNode
  oq : Array Sub
  vals : List Bytes
  w : Nat
  ch : Array32Msg
  steps : Array32Msg
  lvs : Array32Msg

structure Ctx.OK (X : Ctx) : Prop where
  hkn : ∀ t, X.kn.getD t [] = knOf X.keys t
  hasc : strictAsc X.keys = true
  O : OInv X.keys X.kn X.ls X.oq.size X.oq X.nodes
  R : Reads X.ch X.steps X.lvs X.w X.nodes X.vals
  stepLim : ∀ (o : Nat) (h : o < X.nodes.size), X.nodes[o].step < 65536

/-- everything about old node `o` at once -/
theorem old_at {X : Ctx} (H : X.OK) (o : Nat) (ho : o < X.oq.size) :
    ∃ q, X.oq[o]? = some q ∧ X.oq.getD o default = q ∧ SubGood X.keys q ∧
      ∃ h : o < X.nodes.size, X.nodes[o] = nodeOf X.kn X.ls (fcOf X.kn X.oq o) q ∧
        X.nodes.getD o default = nodeOf X.kn X.ls (fcOf X.kn X.oq o) q ∧
        ∀ k (hk : k < (kidsOf X.kn q).length),
          X.oq[fcOf X.kn X.oq o + k]? = some ((kidsOf X.kn q)[k]) := by
  obtain ⟨q, h1, h2, h3⟩ := H.O.node o ho
  have hn : o < X.nodes.size := by rw [H.O.size]; exact ho
  have hnode : X.nodes[o] = nodeOf X.kn X.ls (fcOf X.kn X.oq o) q := by
    have := (Array.getElem?_eq_some_iff.mp h2).2
    exact this
  refine ⟨q, h1, ?_, H.O.good o q h1, hn, hnode, ?_, h3⟩
  · rw [Array.getD_eq_getD_getElem?, h1]; rfl
  · rw [Array.getD_eq_getD_getElem?, h2]; rfl

/-- the range today's builder would have for a queue element of the loader -/
def subOf (X : Ctx) (q : QElt) : Subset :=
  if q.leafOnly then
    { s := (X.oq.getD q.oldid default).s, e := (X.oq.getD q.oldid default).s + 1,
      fb := brPos X.kn (X.oq.getD q.oldid default) }
  else
    { s := (X.oq.getD q.oldid default).s, e := (X.oq.getD q.oldid default).e,
      fb := (X.oq.getD q.oldid default).d }

/-- a queue element of the loader is consistent with the old trie -/
structure EltOK (X : Ctx) (q : QElt) : Prop where
  lt : q.oldid < X.oq.size
  step : q.leafOnly = false → q.step = (X.nodes.getD q.oldid default).step - 1
  lo : q.leafOnly = true → (X.oq.getD q.oldid default).s + 2 ≤ (X.oq.getD q.oldid default).e ∧
    endsAt X.kn (X.oq.getD q.oldid default) = true

def nonLO (q : QElt) : Bool := !q.leafOnly

/-- number of processed elements that stand for an old node -/
def procCnt (c : Conv) (newid : Nat) : Nat := ((c.queue.toList.take newid).filter nonLO).length

/-- the `P`-th element satisfying `p` -/
theorem filter_getElem_of_take {α : Type} (p : α → Bool) (l : List α) (i : Nat) (a : α)
    (h : l[i]? = some a) (hp : p a = true) :
    (l.filter p)[((l.take i).filter p).length]? = some a := by
  have hi : i < l.length := (List.getElem?_eq_some_iff.mp h).1
  have hsplit : l = l.take i ++ a :: l.drop (i + 1) := by
    have := List.getElem_cons_drop hi
    rw [(List.getElem?_eq_some_iff.mp h).2] at this
    rw [this, List.take_append_drop]
  conv => lhs; arg 1; arg 2; rw [hsplit]
  rw [List.filter_append, List.filter_cons_of_pos hp, List.getElem?_append_right (Nat.le_refl _)]
  simp

theorem subOK_of {X : Ctx} (H : X.OK) (q : QElt) (hq : EltOK X q) :
    SubOK X.keys (List.replicate X.keys.length true) (subOf X q) := by
  obtain ⟨qo, _, hgd, hg, _⟩ := old_at H q.oldid hq.lt
  have hle := hg.le
  have hlt := hg.lt
  unfold subOf
  rw [hgd]
  cases hlo : q.leafOnly with
  | true =>
    simp only [if_true]
    have h2 := hq.lo hlo
    rw [hgd] at h2
    have B := branch_facts H.hkn H.hasc hg h2.1
    refine ⟨by dsimp only; omega, by dsimp only; omega,
      ⟨qo.s, Nat.le_refl _, by dsimp only; omega, keptAt_replicate _ _ (by omega)⟩, ?_, ?_⟩
    · intro t h3 h4
      have : t = qo.s := by dsimp only at h3 h4; omega
      rw [this]
    · intro t h3 h4
      have : t = qo.s := by dsimp only at h3 h4; omega
      rw [this]
      exact (B.pre qo.s (Nat.le_refl _) hlt).1
  | false =>
    simp only [Bool.false_eq_true, if_false]
    exact ⟨hlt, hle, ⟨qo.s, Nat.le_refl _, hlt, keptAt_replicate _ _ (by omega)⟩,
      fun t h3 h4 => (hg.pre t h3 h4).2, fun t h3 h4 => (hg.pre t h3 h4).1⟩

/-- number of keys of the range of a queue element -/
def eltSize (X : Ctx) (q : QElt) : Nat := (subOf X q).e - (subOf X q).s

/-- number of keys still to be turned into leaves: the keys of the unprocessed queue elements -/
def pend (X : Ctx) (c : Conv) (newid : Nat) : Nat :=
  ((c.queue.toList.drop newid).map (eltSize X)).sum

/-! ### the invariant of the conversion loop -/

structure CInv (X : Ctx) (newid : Nat) (c : Conv) (lk : Array Nat) : Prop where
  nsize : c.nodes.size = newid
  le : newid ≤ c.queue.size
  root : ∃ st, c.queue[0]? = some { oldid := 0, step := st, leafOnly := false }
  elts : ∀ (j : Nat) q, c.queue[j]? = some q → EltOK X q
  ids : (c.queue.toList.filter nonLO).map (·.oldid) = List.range c.nextOldID
  next : c.nextOldID = fcOf X.kn X.oq (procCnt c newid)
  nle : c.nextOldID ≤ X.oq.size
  bfs : c.queue.size = bfsFC c.nodes newid
  lo : (c.queue.toList.filter (·.leafOnly)).length ≤ procCnt c newid
  lks : lk.size = c.leaves.size ∧ c.leaves.toList = lk.toList.map (fun k => X.vals.getD k [])
  lcnt : c.leaves.size = leavesBefore c.nodes newid
  cnt : lk.size + pend X c newid = X.keys.length
  node : ∀ j, j < newid → ∃ q nd, c.queue[j]? = some q ∧ c.nodes[j]? = some nd ∧
    NodeOK X.keys (List.replicate X.keys.length true) {} (c.queue.map (subOf X)) lk j
      (subOf X q) (fixNode (bfsFC c.nodes j) nd)
  shp : ∀ (j : Nat) nd, c.nodes[j]? = some nd →
    match nd with
    | .leaf ith _ => ith = leavesBefore c.nodes j
    | .inner r => r.big = false ∧ PrefOK {} r.pref

theorem procCnt_succ (c : Conv) (newid : Nat) (q : QElt) (hq : c.queue[newid]? = some q) :
    procCnt c (newid + 1) = procCnt c newid + (if nonLO q then 1 else 0) := by
  unfold procCnt
  rw [List.take_add_one, Array.getElem?_toList, hq, List.filter_append, List.length_append]
  cases h : nonLO q <;> simp [h]

/-- the processed elements that stand for old nodes are the old nodes `0 … P-1`, in order -/
theorem oldid_eq_proc {X : Ctx} {newid : Nat} {c : Conv} {lk : Array Nat}
    (hinv : CInv X newid c lk) (q : QElt) (hq : c.queue[newid]? = some q)
    (hn : nonLO q = true) : q.oldid = procCnt c newid := by
  have h1 := filter_getElem_of_take nonLO c.queue.toList newid q
    (by rw [Array.getElem?_toList]; exact hq) hn
  have h2 : ((c.queue.toList.filter nonLO).map (·.oldid))[procCnt c newid]? = some q.oldid := by
    rw [List.getElem?_map]
    unfold procCnt
    rw [h1]; rfl
  rw [hinv.ids] at h2
  have := (List.getElem?_eq_some_iff.mp h2).2
  simpa using this.symm

theorem nodeOK_push {X : Ctx} {c : Conv} {lk : Array Nat} {j : Nat} {q : QElt} {nd nd' : Node}
    (Q' : Array Subset) (lk' : Array Nat) (hj : j < c.nodes.size)
    (hQ : ∀ (i : Nat) s, (c.queue.map (subOf X))[i]? = some s → Q'[i]? = some s)
    (hl : ∀ (i : Nat) x, lk[i]? = some x → lk'[i]? = some x)
    (h : NodeOK X.keys (List.replicate X.keys.length true) {} (c.queue.map (subOf X)) lk j
      (subOf X q) (fixNode (bfsFC c.nodes j) nd)) :
    NodeOK X.keys (List.replicate X.keys.length true) {} Q' lk' j
      (subOf X q) (fixNode (bfsFC (c.nodes.push nd') j) nd) := by
  rw [bfsFC_push_le _ _ _ (by omega)]
  exact BuildInv.NodeOK_mono hQ hl h

theorem getElem?_push_mono' {α : Type} (a : Array α) (x : α) (i : Nat) (y : α)
    (h : a[i]? = some y) : (a.push x)[i]? = some y := BuildInv.getElem?_push_mono a x i y h

/-- a queue element that becomes a leaf preserves the invariant -/
theorem cinv_leaf {X : Ctx} (H : X.OK) {newid : Nat} {c : Conv} {lk : Array Nat}
    (hinv : CInv X newid c lk) (q : QElt) (hq : c.queue[newid]? = some q)
    (hty : q.leafOnly = true ∨
      (X.oq.getD q.oldid default).e - (X.oq.getD q.oldid default).s = 1) :
    CInv X (newid + 1) (leafUpd c (X.vals.getD (X.oq.getD q.oldid default).s []))
      (lk.push (X.oq.getD q.oldid default).s) := by
  have hlt : newid < c.queue.size := (Array.getElem?_eq_some_iff.mp hq).1
  have helt := hinv.elts newid q hq
  have hns := hinv.nsize
  have hsub : (subOf X q).e = (subOf X q).s + 1 ∧ (subOf X q).s = (X.oq.getD q.oldid default).s := by
    unfold subOf
    cases hlo : q.leafOnly with
    | true => simp
    | false =>
      simp only [Bool.false_eq_true, if_false, and_true]
      rcases hty with h | h
      · rw [hlo] at h; cases h
      · obtain ⟨qo, _, hgd, hg, _⟩ := old_at H q.oldid helt.lt
        rw [hgd] at h ⊢
        have := hg.lt; omega
  have hpc := procCnt_succ c newid q hq
  have hpc' : procCnt (leafUpd c (X.vals.getD (X.oq.getD q.oldid default).s [])) (newid + 1)
      = procCnt c (newid + 1) := rfl
  refine ⟨?_, ?_, hinv.root, hinv.elts, hinv.ids, ?_, hinv.nle, ?_, ?_, ?_, ?_, ?_, ?_, ?_⟩
  · show (c.nodes.push _).size = newid + 1
    rw [Array.size_push, hns]
  · show newid + 1 ≤ c.queue.size
    omega
  · -- next
    show c.nextOldID = _
    rw [hpc', hpc, hinv.next]
    cases hn : nonLO q with
    | false => simp
    | true =>
      simp only [if_true]
      have hoid := oldid_eq_proc hinv q hq hn
      have hlo : q.leafOnly = false := by unfold nonLO at hn; simpa using hn
      rw [fcOf_succ, ← hoid]
      have h1 : (X.oq.getD q.oldid default).e - (X.oq.getD q.oldid default).s = 1 := by
        rcases hty with h | h
        · rw [hlo] at h; cases h
        · exact h
      unfold kidsOf
      rw [if_pos h1]; rfl
  · -- bfs
    show c.queue.size = bfsFC (c.nodes.push _) (newid + 1)
    rw [← hns, bfsFC_push_size, hns, ← hinv.bfs]; rfl
  · -- lo
    show (c.queue.toList.filter (·.leafOnly)).length ≤ _
    rw [hpc', hpc]
    have := hinv.lo; omega
  · -- lks
    obtain ⟨h1, h2⟩ := hinv.lks
    refine ⟨by show (lk.push _).size = (c.leaves.push _).size; simp [h1], ?_⟩
    show (c.leaves.push _).toList = _
    rw [Array.toList_push, Array.toList_push, List.map_append, h2]; rfl
  · -- lcnt
    show (c.leaves.push _).size = leavesBefore (c.nodes.push _) (newid + 1)
    rw [Array.size_push, ← hns, leavesBefore_push_size, hns, ← hinv.lcnt]; rfl
  · -- cnt
    show (lk.push _).size + ((c.queue.toList.drop (newid + 1)).map (eltSize X)).sum = _
    have hdrop : c.queue.toList.drop newid = q :: c.queue.toList.drop (newid + 1) := by
      have hl : newid < c.queue.toList.length := by simpa using hlt
      rw [List.drop_eq_getElem_cons hl]
      congr 1
      have := (Array.getElem?_eq_some_iff.mp hq).2
      simpa using this
    have hc := hinv.cnt
    unfold pend at hc
    rw [hdrop, List.map_cons, List.sum_cons] at hc
    have hsz : eltSize X q = 1 := by unfold eltSize; have := hsub.1; omega
    rw [Array.size_push]; omega
  · -- node
    intro j hj
    show ∃ q' nd, c.queue[j]? = some q' ∧ (c.nodes.push _)[j]? = some nd ∧ _
    by_cases hjn : j = newid
    · subst hjn
      refine ⟨q, _, hq, by rw [← hns]; exact Array.getElem?_push_size, ?_⟩
      show NodeOK _ _ _ _ _ _ _ (Node.leaf c.leaves.size none)
      refine ⟨hsub.1, ?_, ?_⟩
      · rw [← hinv.lks.1, hsub.2]; exact Array.getElem?_push_size
      · unfold leafPrefOf; simp
    · obtain ⟨q', nd, h1, h2, h3⟩ := hinv.node j (by omega)
      refine ⟨q', nd, h1, getElem?_push_mono' _ _ _ _ h2, ?_⟩
      exact nodeOK_push _ _ (by omega) (fun _ _ h => h)
        (fun _ _ h => getElem?_push_mono' _ _ _ _ h) h3
  · -- shp
    intro j nd hnd
    have hnd' : (c.nodes.push (Node.leaf c.leaves.size none))[j]? = some nd := hnd
    rw [Array.getElem?_push] at hnd'
    split at hnd'
    · next hj =>
      cases hnd'
      show c.leaves.size = leavesBefore (c.nodes.push _) j
      rw [hj, leavesBefore_push_le _ _ _ (Nat.le_refl _), hns, hinv.lcnt]
    · have hj : j < c.nodes.size := (Array.getElem?_eq_some_iff.mp hnd').1
      have := hinv.shp j nd hnd'
      cases nd with
      | leaf ith lp =>
        show ith = leavesBefore (c.nodes.push _) j
        rw [leavesBefore_push_le _ _ _ (by omega)]; exact this
      | inner r => exact this

/-! ### the inner step -/

/-- the queue elements the loader appends for an old inner node -/
def newKids (X : Ctx) (q : QElt) (nxt : Nat) : List QElt :=
  (if endsAt X.kn (X.oq.getD q.oldid default)
    then [{ oldid := q.oldid, step := 0, leafOnly := true }] else []) ++
  kidElts X.nodes nxt (runsOf X.kn (X.oq.getD q.oldid default)).length

def newRec (X : Ctx) (q : QElt) : InnerRec :=
  { big := false
    labels := newLabelsOf (endsAt X.kn (X.oq.getD q.oldid default))
      (runsOf X.kn (X.oq.getD q.oldid default))
    firstChild := 0
    pref := if q.step = 0 then Pref.none else Pref.step q.step }

theorem kidElts_length (nodes : Array OldNode) (oid k : Nat) : (kidElts nodes oid k).length = k := by
  simp [kidElts]

theorem kidElts_getElem? (nodes : Array OldNode) (oid k i : Nat) (hi : i < k) :
    (kidElts nodes oid k)[i]? =
      some { oldid := oid + i, step := (nodes.getD (oid + i) default).step - 1, leafOnly := false } := by
  unfold kidElts
  rw [List.getElem?_map, List.getElem?_range hi]; rfl

theorem newKids_length (X : Ctx) (q : QElt) (nxt : Nat) :
    (newKids X q nxt).length = (newRec X q).labels.length := by
  unfold newKids newRec newLabelsOf
  simp only [List.length_append, kidElts_length, List.length_map]
  cases endsAt X.kn (X.oq.getD q.oldid default) <;> rfl

theorem newKids_filter_nonLO (X : Ctx) (q : QElt) (nxt : Nat) :
    ((newKids X q nxt).filter nonLO).map (·.oldid)
      = (List.range (runsOf X.kn (X.oq.getD q.oldid default)).length).map (nxt + ·) := by
  unfold newKids
  rw [List.filter_append]
  have h1 : (if endsAt X.kn (X.oq.getD q.oldid default)
      then [({ oldid := q.oldid, step := 0, leafOnly := true } : QElt)] else []).filter nonLO = [] := by
    cases endsAt X.kn (X.oq.getD q.oldid default) <;> simp [nonLO]
  have h2 : (kidElts X.nodes nxt (runsOf X.kn (X.oq.getD q.oldid default)).length).filter nonLO
      = kidElts X.nodes nxt (runsOf X.kn (X.oq.getD q.oldid default)).length := by
    rw [List.filter_eq_self]
    intro a ha
    unfold kidElts at ha
    obtain ⟨i, _, rfl⟩ := List.mem_map.mp ha
    rfl
  rw [h1, h2, List.nil_append]
  unfold kidElts
  rw [List.map_map]; rfl

theorem newKids_filter_LO (X : Ctx) (q : QElt) (nxt : Nat) :
    ((newKids X q nxt).filter (·.leafOnly)).length ≤ 1 := by
  unfold newKids
  rw [List.filter_append]
  have h2 : (kidElts X.nodes nxt (runsOf X.kn (X.oq.getD q.oldid default)).length).filter
      (·.leafOnly) = [] := by
    rw [List.filter_eq_nil_iff]
    intro a ha
    unfold kidElts at ha
    obtain ⟨i, _, rfl⟩ := List.mem_map.mp ha
    simp
  rw [h2, List.append_nil]
  cases endsAt X.kn (X.oq.getD q.oldid default) <;> simp

/-- an old inner node with at least two keys, read through the context -/
theorem old_inner {X : Ctx} (H : X.OK) (o : Nat) (ho : o < X.oq.size)
    (h2 : (X.oq.getD o default).s + 2 ≤ (X.oq.getD o default).e) :
    BranchFacts X.keys X.kn (X.oq.getD o default) ∧ RunFacts X.keys X.kn (X.oq.getD o default) ∧
    SubGood X.keys (X.oq.getD o default) ∧
    (X.nodes.getD o default).step - 1
      = brPos X.kn (X.oq.getD o default) - (X.oq.getD o default).d ∧
    ∀ k (hk : k < (runsOf X.kn (X.oq.getD o default)).length),
      X.oq[fcOf X.kn X.oq o + k]? =
        some (kidOfRun (brPos X.kn (X.oq.getD o default))
          ((runsOf X.kn (X.oq.getD o default))[k])) := by
  obtain ⟨qo, _, hgd, hg, hn, _, hnode, hkids⟩ := old_at H o ho
  rw [hgd] at h2 ⊢
  have B := branch_facts H.hkn H.hasc hg h2
  have hne : ¬ qo.e - qo.s = 1 := by omega
  refine ⟨B, run_facts B, hg, ?_, ?_⟩
  · rw [hnode]
    unfold nodeOf
    rw [if_neg hne]
    simp only
    split <;> omega
  · intro k hk
    have hko : kidsOf X.kn qo = (runsOf X.kn qo).map (kidOfRun (brPos X.kn qo)) := by
      unfold kidsOf; rw [if_neg hne]
    have hk' : k < (kidsOf X.kn qo).length := by rw [hko, List.length_map]; exact hk
    rw [hkids k hk']
    simp only [hko, List.getElem_map]

/-- a queue element that becomes an inner node preserves the invariant -/
theorem cinv_inner {X : Ctx} (H : X.OK) {newid : Nat} {c : Conv} {lk : Array Nat}
    (hinv : CInv X newid c lk) (q : QElt) (hq : c.queue[newid]? = some q)
    (hlo : q.leafOnly = false)
    (h2 : (X.oq.getD q.oldid default).s + 2 ≤ (X.oq.getD q.oldid default).e) :
    CInv X (newid + 1)
      (innerUpd c (newKids X q c.nextOldID)
        (runsOf X.kn (X.oq.getD q.oldid default)).length (newRec X q)) lk := by
  have hlt : newid < c.queue.size := (Array.getElem?_eq_some_iff.mp hq).1
  have helt := hinv.elts newid q hq
  have hns := hinv.nsize
  have hnl : nonLO q = true := by unfold nonLO; rw [hlo]; rfl
  have hoid := oldid_eq_proc hinv q hq hnl
  have hnext : c.nextOldID = fcOf X.kn X.oq q.oldid := by rw [hoid]; exact hinv.next
  obtain ⟨B, Rf, hg, hstep, hkids⟩ := old_inner H q.oldid helt.lt h2
  rw [← hnext] at hkids
  generalize hqo : X.oq.getD q.oldid default = qo at *
  have hsubq : subOf X q = { s := qo.s, e := qo.e, fb := qo.d } := by
    unfold subOf; rw [hlo, hqo]; rfl
  -- the appended queue
  have hQapp : (c.queue ++ (newKids X q c.nextOldID).toArray).map (subOf X)
      = c.queue.map (subOf X) ++ ((newKids X q c.nextOldID).map (subOf X)).toArray := by
    rw [Array.map_append]; simp
  have hQmono : ∀ (i : Nat) s, (c.queue.map (subOf X))[i]? = some s →
      ((c.queue ++ (newKids X q c.nextOldID).toArray).map (subOf X))[i]? = some s := by
    intro i s h
    rw [hQapp]; exact BuildInv.getElem?_append_mono _ _ _ _ h
  have hkidlt : ∀ k, k < (runsOf X.kn qo).length → c.nextOldID + k < X.oq.size :=
    fun k hk => (Array.getElem?_eq_some_iff.mp (hkids k hk)).1
  have hnle : c.nextOldID + (runsOf X.kn qo).length ≤ X.oq.size := by
    by_cases h0 : (runsOf X.kn qo).length = 0
    · rw [h0]; exact hinv.nle
    · have := hkidlt ((runsOf X.kn qo).length - 1) (by omega); omega
  have htake : (c.queue ++ (newKids X q c.nextOldID).toArray).toList.take (newid + 1)
      = c.queue.toList.take (newid + 1) := by
    rw [Array.toList_append, List.take_append_of_le_length (by simp only [Array.length_toList]; omega)]
  have hpc : procCnt (innerUpd c (newKids X q c.nextOldID) (runsOf X.kn qo).length (newRec X q))
      (newid + 1) = procCnt c newid + 1 := by
    show (((c.queue ++ (newKids X q c.nextOldID).toArray).toList.take (newid + 1)).filter
      nonLO).length = _
    rw [htake]
    have := procCnt_succ c newid q hq
    unfold procCnt at this ⊢
    rw [this, hnl]; rfl
  have hklen := newKids_length X q c.nextOldID
  refine ⟨?_, ?_, ?_, ?_, ?_, ?_, hnle, ?_, ?_, hinv.lks, ?_, ?_, ?_, ?_⟩
  · show (c.nodes.push _).size = newid + 1
    rw [Array.size_push, hns]
  · show newid + 1 ≤ (c.queue ++ _).size
    rw [Array.size_append]; omega
  · obtain ⟨st, hst⟩ := hinv.root
    exact ⟨st, BuildInv.getElem?_append_mono _ _ _ _ hst⟩
  · -- elts
    intro j q' hq'
    have hq'' : (c.queue ++ (newKids X q c.nextOldID).toArray)[j]? = some q' := hq'
    rw [Array.getElem?_append] at hq''
    split at hq''
    · exact hinv.elts j q' hq''
    · rw [List.getElem?_toArray] at hq''
      have hmem := List.mem_of_getElem? hq''
      unfold newKids at hmem
      rw [hqo] at hmem
      rcases List.mem_append.mp hmem with hm | hm
      · cases he : endsAt X.kn qo with
        | false => rw [he] at hm; simp at hm
        | true =>
          rw [he] at hm
          have : q' = { oldid := q.oldid, step := 0, leafOnly := true } := by simpa using hm
          subst this
          refine ⟨helt.lt, (fun h => by cases h), fun _ => ?_⟩
          show (X.oq.getD q.oldid default).s + 2 ≤ _ ∧ _
          rw [hqo]; exact ⟨h2, he⟩
      · unfold kidElts at hm
        obtain ⟨i, hi, rfl⟩ := List.mem_map.mp hm
        rw [List.mem_range] at hi
        exact ⟨hkidlt i hi, fun _ => rfl, (fun h => by cases h)⟩
  · -- ids
    show ((c.queue ++ (newKids X q c.nextOldID).toArray).toList.filter nonLO).map (·.oldid)
      = List.range (c.nextOldID + (runsOf X.kn qo).length)
    have e : (c.queue ++ (newKids X q c.nextOldID).toArray).toList
        = c.queue.toList ++ newKids X q c.nextOldID := by simp
    rw [e, List.filter_append, List.map_append, hinv.ids]
    have := newKids_filter_nonLO X q c.nextOldID
    rw [hqo] at this
    rw [this, List.range_add]
  · -- next
    show c.nextOldID + (runsOf X.kn qo).length = _
    rw [hpc, fcOf_succ, ← hoid, hqo, ← hnext]
    congr 1
    unfold kidsOf
    rw [if_neg (by omega), List.length_map]
  · -- bfs
    show (c.queue ++ (newKids X q c.nextOldID).toArray).size = bfsFC (c.nodes.push _) (newid + 1)
    rw [Array.size_append, ← hns, bfsFC_push_size, hns, ← hinv.bfs]
    simp only [List.size_toArray, hklen]; rfl
  · -- lo
    show ((c.queue ++ (newKids X q c.nextOldID).toArray).toList.filter (·.leafOnly)).length ≤
      procCnt (innerUpd c (newKids X q c.nextOldID) (runsOf X.kn qo).length (newRec X q)) (newid + 1)
    have e : (c.queue ++ (newKids X q c.nextOldID).toArray).toList
        = c.queue.toList ++ newKids X q c.nextOldID := by simp
    rw [hpc, e, List.filter_append, List.length_append]
    have := newKids_filter_LO X q c.nextOldID
    have := hinv.lo
    omega
  · -- lcnt
    show c.leaves.size = leavesBefore (c.nodes.push _) (newid + 1)
    rw [← hns, leavesBefore_push_size, hns, ← hinv.lcnt]; rfl
  · -- cnt
    show lk.size + (((c.queue ++ (newKids X q c.nextOldID).toArray).toList.drop (newid + 1)).map
      (eltSize X)).sum = _
    have e : (c.queue ++ (newKids X q c.nextOldID).toArray).toList
        = c.queue.toList ++ newKids X q c.nextOldID := by simp
    rw [e, List.drop_append_of_le_length (by simp only [Array.length_toList]; omega),
      List.map_append, List.sum_append]
    have hdrop : c.queue.toList.drop newid = q :: c.queue.toList.drop (newid + 1) := by
      have hl : newid < c.queue.toList.length := by simpa using hlt
      rw [List.drop_eq_getElem_cons hl]
      congr 1
      have := (Array.getElem?_eq_some_iff.mp hq).2
      simpa using this
    have hc := hinv.cnt
    unfold pend at hc
    rw [hdrop, List.map_cons, List.sum_cons] at hc
    have hq1 : eltSize X q = qo.e - qo.s := by unfold eltSize; rw [hsubq]
    -- the ranges of the children partition the range of the node
    have hkidsz : ((newKids X q c.nextOldID).map (eltSize X)).sum = qo.e - qo.s := by
      unfold newKids
      rw [hqo, List.map_append, List.sum_append]
      have h1 : ((if endsAt X.kn qo = true
          then [({ oldid := q.oldid, step := 0, leafOnly := true } : QElt)] else []).map
          (eltSize X)).sum = (if endsAt X.kn qo = true then 1 else 0) := by
        cases he : endsAt X.kn qo with
        | false => rfl
        | true =>
          simp only [if_true, List.map_cons, List.map_nil, List.sum_cons, List.sum_nil]
          unfold eltSize subOf
          simp
      have h2 : ((kidElts X.nodes c.nextOldID (runsOf X.kn qo).length).map (eltSize X))
          = (runsOf X.kn qo).map runSize := by
        apply List.ext_getElem
        · simp [kidElts_length]
        · intro k hk1 hk2
          have hk : k < (runsOf X.kn qo).length := by simpa using hk2
          have hke := kidElts_getElem? X.nodes c.nextOldID (runsOf X.kn qo).length k hk
          rw [List.getElem_map, List.getElem_map]
          have hge : (kidElts X.nodes c.nextOldID (runsOf X.kn qo).length)[k]'(by
              simpa [kidElts_length] using hk) = _ :=
            (List.getElem?_eq_some_iff.mp hke).2
          rw [hge]
          unfold eltSize subOf
          simp only [Bool.false_eq_true, if_false]
          have hgd : X.oq.getD (c.nextOldID + k) default
              = kidOfRun (brPos X.kn qo) ((runsOf X.kn qo)[k]) := by
            rw [Array.getD_eq_getD_getElem?, hkids k hk]; rfl
          rw [hgd]
          rfl
      have h3 := (LegacyWrite.groupRuns_spec (nibAt X.kn (brPos X.kn qo)) qo.e
        (qo.e - restStart X.kn qo) (restStart X.kn qo) (Nat.le_of_lt B.rest_lt)
        (Nat.le_refl _)).2.1
      rw [h1, h2]
      show _ + ((runsOf X.kn qo).map runSize).sum = _
      unfold runsOf
      rw [h3]
      have := B.rest_lt
      unfold restStart at this ⊢
      cases endsAt X.kn qo <;> simp at this ⊢ <;> omega
    omega
  · -- node
    intro j hj
    show ∃ q' nd, (c.queue ++ _)[j]? = some q' ∧ (c.nodes.push _)[j]? = some nd ∧ _
    by_cases hjn : j = newid
    · subst hjn
      refine ⟨q, _, BuildInv.getElem?_append_mono _ _ _ _ hq,
        by rw [← hns]; exact Array.getElem?_push_size, ?_⟩
      simp only [innerUpd]
      rw [hsubq, bfsFC_push_le _ _ _ (by omega), ← hinv.bfs]
      show NodeOK _ _ _ _ _ _ _ (Node.inner _)
      refine ⟨h2, ?_⟩
      -- the record, with the first child filled in
      have hrec : ({ newRec X q with firstChild := c.queue.size } : InnerRec)
          = { big := false, labels := newLabelsOf (endsAt X.kn qo) (runsOf X.kn qo),
              firstChild := c.queue.size,
              pref := if brPos X.kn qo - qo.d = 0 then Pref.none
                      else Pref.step (brPos X.kn qo - qo.d) } := by
        unfold newRec
        rw [hqo, helt.step hlo, hstep]
      show InnerOK _ _ _ _ _ _ ({ newRec X q with firstChild := c.queue.size } : InnerRec)
      rw [hrec]
      apply inner_ok H.hkn H.hasc hg B Rf _ j c.queue.size hlt
      · intro he
        rw [hQapp, Array.getElem?_append_right (by simp)]
        simp only [Array.size_map, Nat.sub_self, List.getElem?_toArray, List.getElem?_map]
        unfold newKids
        rw [hqo, he]
        simp only [if_true, List.singleton_append, List.getElem?_cons_zero, Option.map_some]
        unfold subOf
        simp only [if_true, hqo]
      · intro k hk
        rw [hQapp, Array.getElem?_append_right (by simp; omega)]
        simp only [Array.size_map, List.getElem?_toArray, List.getElem?_map]
        have hidx : c.queue.size + (if endsAt X.kn qo = true then 1 else 0) + k - c.queue.size
            = (if endsAt X.kn qo = true then 1 else 0) + k := by omega
        rw [hidx]
        unfold newKids
        rw [hqo]
        have hpre : (if endsAt X.kn qo = true
            then [({ oldid := q.oldid, step := 0, leafOnly := true } : QElt)] else []).length
            = (if endsAt X.kn qo = true then 1 else 0) := by
          cases endsAt X.kn qo <;> rfl
        rw [List.getElem?_append_right (by rw [hpre]; omega), hpre, Nat.add_sub_cancel_left,
          kidElts_getElem? _ _ _ _ hk]
        simp only [Option.map_some]
        unfold subOf
        simp only [Bool.false_eq_true, if_false]
        have hk1 := hkids k hk
        have hgd : X.oq.getD (c.nextOldID + k) default
            = kidOfRun (brPos X.kn qo) ((runsOf X.kn qo)[k]) := by
          rw [Array.getD_eq_getD_getElem?, hk1]; rfl
        rw [hgd]
        rfl
    · obtain ⟨q', nd, h1, h3, h4⟩ := hinv.node j (by omega)
      refine ⟨q', nd, BuildInv.getElem?_append_mono _ _ _ _ h1, getElem?_push_mono' _ _ _ _ h3, ?_⟩
      exact nodeOK_push _ _ (by omega) hQmono (fun _ _ h => h) h4
  · -- shp
    intro j nd hnd
    have hnd' : (c.nodes.push (Node.inner (newRec X q)))[j]? = some nd := hnd
    rw [Array.getElem?_push] at hnd'
    split at hnd'
    · cases hnd'
      refine ⟨rfl, ?_⟩
      show PrefOK {} (if q.step = 0 then Pref.none else Pref.step q.step)
      split
      · trivial
      · next hne =>
        refine ⟨rfl, by omega, ?_⟩
        rw [helt.step hlo]
        have hn : q.oldid < X.nodes.size := by rw [H.O.size]; exact helt.lt
        have := H.stepLim q.oldid hn
        have hgd : X.nodes.getD q.oldid default = X.nodes[q.oldid] := by
          rw [Array.getD_eq_getD_getElem?, Array.getElem?_eq_getElem hn]; rfl
        rw [hgd]; omega
    · have hj : j < c.nodes.size := (Array.getElem?_eq_some_iff.mp hnd').1
      have := hinv.shp j nd hnd'
      cases nd with
      | leaf ith lp =>
        show ith = leavesBefore (c.nodes.push _) j
        rw [leavesBefore_push_le _ _ _ (by omega)]; exact this
      | inner r => exact this

/-! ### the loop -/

theorem filter_partition_length {α : Type} (p : α → Bool) (l : List α) :
    l.length = (l.filter p).length + (l.filter (fun a => !p a)).length := by
  induction l with
  | nil => rfl
  | cons a rest ih =>
    cases h : p a <;> simp [h, ih] <;> omega

theorem qsize_le {X : Ctx} {newid : Nat} {c : Conv} {lk : Array Nat} (hinv : CInv X newid c lk) :
    c.queue.size ≤ 2 * X.oq.size := by
  have h1 := filter_partition_length (fun q : QElt => q.leafOnly) c.queue.toList
  have h2 : (c.queue.toList.filter (fun a => !a.leafOnly)).length = c.nextOldID := by
    have := congrArg List.length hinv.ids
    rw [List.length_map, List.length_range] at this
    exact this
  have h3 : procCnt c newid ≤ (c.queue.toList.filter nonLO).length := by
    unfold procCnt
    exact (List.Sublist.filter _ (List.take_sublist _ _)).length_le
  have h4 : (c.queue.toList.filter nonLO).length = c.nextOldID := h2
  have := hinv.lo
  have := hinv.nle
  rw [Array.length_toList] at h1
  omega

theorem nodeOf_single (kn : Array (List Nat)) (ls : Bool) (fc : Nat) (q : Sub)
    (h : q.e - q.s = 1) :
    (nodeOf kn ls fc q).inner = false ∧ (nodeOf kn ls fc q).leaf = some q.s := by
  unfold nodeOf; rw [if_pos h]; exact ⟨rfl, rfl⟩

theorem nodeOf_branch (kn : Array (List Nat)) (ls : Bool) (fc : Nat) (q : Sub)
    (h : ¬ q.e - q.s = 1) :
    (nodeOf kn ls fc q).inner = true ∧
    (nodeOf kn ls fc q).bm = (runsOf kn q).foldl (fun a r => a ||| (1 <<< r.1)) 0 ∧
    (nodeOf kn ls fc q).leaf = (if endsAt kn q then some q.s else none) := by
  unfold nodeOf; rw [if_neg h]; exact ⟨rfl, rfl, rfl⟩

theorem loop_spec {X : Ctx} (H : X.OK) :
    ∀ fuel newid c lk, CInv X newid c lk → 2 * X.oq.size < fuel + newid →
      ∃ c' lk', convert.loop X.ch X.steps X.lvs (some X.w) fuel newid c = .ok c' ∧
        CInv X c'.queue.size c' lk' := by
  intro fuel
  induction fuel with
  | zero =>
    intro newid c lk hinv hf
    have := qsize_le hinv
    have hle := hinv.le
    have hnl : ¬ newid < c.queue.size := by omega
    refine ⟨c, lk, by rw [convert.loop, if_neg hnl], ?_⟩
    have : newid = c.queue.size := by omega
    exact this ▸ hinv
  | succ fuel ih =>
    intro newid c lk hinv hf
    by_cases hlt : newid < c.queue.size
    · have hq : c.queue[newid]? = some c.queue[newid] := Array.getElem?_eq_getElem hlt
      generalize c.queue[newid] = q at hq
      have helt := hinv.elts newid q hq
      obtain ⟨qo, _, hgd, hg, hn, hnode, _, _⟩ := old_at H q.oldid helt.lt
      have hglt := hg.lt
      by_cases hleaf : q.leafOnly = true ∨ qo.e - qo.s = 1
      · -- a leaf
        have hkey : X.nodes[q.oldid].leaf = some qo.s := by
          rw [hnode]
          rcases hleaf with h | h
          · have h2 := helt.lo h
            rw [hgd] at h2
            rw [(nodeOf_branch _ _ _ _ (by omega)).2.2, h2.2]; rfl
          · exact (nodeOf_single _ _ _ _ h).2
        have hty : q.leafOnly = true ∨ X.nodes[q.oldid].inner = false := by
          rcases hleaf with h | h
          · exact Or.inl h
          · right; rw [hnode]; exact (nodeOf_single _ _ _ _ h).1
        rw [loop_leaf H.R fuel newid c q hq hn qo.s hkey hty]
        have hinv' := cinv_leaf H hinv q hq (by rw [hgd]; exact hleaf)
        rw [hgd] at hinv'
        exact ih _ _ _ hinv' (by omega)
      · -- an inner node
        have hlo : q.leafOnly = false := by
          cases h : q.leafOnly with
          | false => rfl
          | true => exact absurd (Or.inl h) hleaf
        have h2 : qo.s + 2 ≤ qo.e := by
          have : ¬ qo.e - qo.s = 1 := fun h => hleaf (Or.inr h)
          omega
        have hinv' := cinv_inner H hinv q hq hlo (by rw [hgd]; exact h2)
        obtain ⟨B, Rf, _, _, _⟩ := old_inner H q.oldid helt.lt (by rw [hgd]; exact h2)
        rw [hgd] at B Rf
        have hbr := nodeOf_branch X.kn X.ls (fcOf X.kn X.oq q.oldid) qo (by omega)
        have hlt16 : ∀ x ∈ runsOf X.kn qo, x.1 < 16 := by
          intro x hx
          obtain ⟨hr, hx1⟩ := Rf.run x hx
          have hl := B.longer x.2.1 hr.ge (by have := hr.lt; have := hr.le; omega)
          rw [hx1, nibAt_eq H.hkn _ _ hl]
          exact BuildInv.knOf_lt16 X.keys _ _ (List.getElem_mem hl)
        have hkids : c.nextOldID + (runsOf X.kn qo).length ≤ X.nodes.size := by
          have := hinv'.nle
          rw [H.O.size]
          rw [hgd] at this
          exact this
        have hstep := loop_inner H.R fuel newid c q hq hn hlo (by rw [hnode]; exact hbr.1)
          (endsAt X.kn qo) (runsOf X.kn qo) (by rw [hnode]; exact hbr.2.1)
          (by rw [hnode, hbr.2.2]; cases endsAt X.kn qo <;> rfl) Rf.asc hlt16 hkids
        rw [hstep]
        have hsame : innerUpd c
            ((if endsAt X.kn qo = true
                then [({ oldid := q.oldid, step := 0, leafOnly := true } : QElt)] else []) ++
              kidElts X.nodes c.nextOldID (runsOf X.kn qo).length)
            (runsOf X.kn qo).length
            { big := false, labels := newLabelsOf (endsAt X.kn qo) (runsOf X.kn qo), firstChild := 0,
              pref := if q.step = 0 then Pref.none else Pref.step q.step }
            = innerUpd c (newKids X q c.nextOldID)
                (runsOf X.kn (X.oq.getD q.oldid default)).length (newRec X q) := by
          unfold newKids newRec
          rw [hgd]
        rw [hsame]
        exact ih _ _ _ hinv' (by omega)
    · refine ⟨c, lk, by rw [convert.loop, dif_neg hlt], ?_⟩
      have : newid = c.queue.size := by have := hinv.le; omega
      exact this ▸ hinv

end LegacyConvert
