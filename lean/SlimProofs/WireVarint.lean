import SlimModel.Wire
/-
  SlimProofs.WireVarint — varint lemmas: `decodeVarint ∘ varint = id` below 2^64 (the range of Go's
  uint64), `SizeVarint` is the encoded length, decoded values are below 2^64.
-/
namespace Wire

theorem u8_toNat_ofNat {n : Nat} (h : n < 256) : (UInt8.ofNat n).toNat = n := by
  rw [UInt8.toNat_ofNat']; exact Nat.mod_eq_of_lt h

theorem varint_lt {n : Nat} (h : n < 128) : varint n = [UInt8.ofNat n] := by
  rw [varint]; simp [h]

theorem varint_ge {n : Nat} (h : 128 ≤ n) :
    varint n = UInt8.ofNat (n % 128 + 128) :: varint (n / 128) := by
  rw [varint]; simp [Nat.not_lt.mpr h]

theorem varint_ne_nil (n : Nat) : varint n ≠ [] := by
  by_cases h : n < 128
  · rw [varint_lt h]; simp
  · rw [varint_ge (Nat.le_of_not_lt h)]; simp

theorem varint_length_pos (n : Nat) : 0 < (varint n).length :=
  List.length_pos_iff.mpr (varint_ne_nil n)

/-- `2^(64-7k)`, the values a varint that starts at byte index `k` may have. -/
def vbound (k : Nat) : Nat := 2 ^ (64 - 7 * k)

theorem vbound_step {k n : Nat} (hk : k ≤ 9) (hn : n < vbound k) (h128 : 128 ≤ n) :
    k < 9 ∧ n / 128 < vbound (k + 1) := by
  have : k = 0 ∨ k = 1 ∨ k = 2 ∨ k = 3 ∨ k = 4 ∨ k = 5 ∨ k = 6 ∨ k = 7 ∨ k = 8 ∨ k = 9 := by omega
  rcases this with rfl | rfl | rfl | rfl | rfl | rfl | rfl | rfl | rfl | rfl <;>
    simp [vbound] at hn ⊢ <;> omega

theorem decodeVarintAux_varint (n : Nat) : ∀ (k : Nat) (rest : Bytes), k ≤ 9 → n < vbound k →
    decodeVarintAux k (varint n ++ rest) = some (n, (varint n).length) := by
  induction n using Nat.strongRecOn with
  | _ n ih =>
    intro k rest hk hn
    by_cases h : n < 128
    · rw [varint_lt h]
      have hb : (UInt8.ofNat n).toNat = n := u8_toNat_ofNat (by omega)
      simp only [List.cons_append, List.nil_append, decodeVarintAux, hb, h, if_true, List.length_singleton]
      have : ¬ (k = 9 ∧ 2 ≤ n) := by
        rintro ⟨rfl, h2⟩
        simp [vbound] at hn; omega
      simp [this]
    · have h128 : 128 ≤ n := Nat.le_of_not_lt h
      obtain ⟨hk9, hn'⟩ := vbound_step hk hn h128
      rw [varint_ge h128]
      have hb : (UInt8.ofNat (n % 128 + 128)).toNat = n % 128 + 128 := u8_toNat_ofNat (by omega)
      have hlt : n / 128 < n := by omega
      simp only [List.cons_append, decodeVarintAux, hb, List.length_cons]
      have h1 : ¬ (n % 128 + 128 < 128) := by omega
      have h2 : ¬ (9 ≤ k) := by omega
      simp only [h1, h2, if_false]
      rw [ih (n / 128) hlt (k + 1) rest (by omega) hn']
      simp only []
      congr 2
      omega

theorem decodeVarint_varint {n : Nat} (h : n < 2 ^ 64) (rest : Bytes) :
    decodeVarint (varint n ++ rest) = some (n, (varint n).length) :=
  decodeVarintAux_varint n 0 rest (by omega) (by simpa [vbound] using h)

/-- Round trip of the varint codec: every value of a Go `uint64`. -/
theorem unvarint_varint {n : Nat} (h : n < 2 ^ 64) (rest : Bytes) :
    unvarint (varint n ++ rest) = some (n, rest) := by
  simp [unvarint, decodeVarint_varint h]

theorem sizeVarint_lt {n : Nat} (h : n < 128) : sizeVarint n = 1 := by
  rw [sizeVarint]; simp [h]

theorem sizeVarint_ge {n : Nat} (h : 128 ≤ n) : sizeVarint n = 1 + sizeVarint (n / 128) := by
  rw [sizeVarint]; simp [Nat.not_lt.mpr h]

/-- `proto.SizeVarint` is the length of the encoding. -/
theorem varint_length (n : Nat) : (varint n).length = sizeVarint n := by
  induction n using Nat.strongRecOn with
  | _ n ih =>
    by_cases h : n < 128
    · rw [varint_lt h, sizeVarint_lt h]; rfl
    · have h128 : 128 ≤ n := Nat.le_of_not_lt h
      rw [varint_ge h128, sizeVarint_ge h128, List.length_cons, ih (n / 128) (by omega)]; omega

/-- What `decodeVarint` returns: a value below 2^64 and a non-empty prefix length. -/
theorem decodeVarintAux_spec : ∀ (bs : Bytes) (k v n : Nat), k ≤ 9 → decodeVarintAux k bs = some (v, n) →
    v < vbound k ∧ 1 ≤ n ∧ n ≤ bs.length := by
  intro bs
  induction bs with
  | nil => intro k v n _ h; simp [decodeVarintAux] at h
  | cons b bs ih =>
    intro k v n hk h
    simp only [decodeVarintAux] at h
    by_cases hb : b.toNat < 128
    · simp only [hb, if_true] at h
      by_cases h9 : k = 9 ∧ 2 ≤ b.toNat
      · simp [h9] at h
      · simp only [h9, if_false, Option.some.injEq, Prod.mk.injEq] at h
        obtain ⟨rfl, rfl⟩ := h
        refine ⟨?_, by omega, by simp⟩
        have : k = 0 ∨ k = 1 ∨ k = 2 ∨ k = 3 ∨ k = 4 ∨ k = 5 ∨ k = 6 ∨ k = 7 ∨ k = 8 ∨ k = 9 := by omega
        rcases this with rfl | rfl | rfl | rfl | rfl | rfl | rfl | rfl | rfl | rfl <;>
          simp [vbound] at h9 ⊢ <;> omega
    · simp only [hb, if_false] at h
      by_cases h9 : 9 ≤ k
      · simp [h9] at h
      · simp only [h9, if_false] at h
        cases hr : decodeVarintAux (k + 1) bs with
        | none => simp [hr] at h
        | some p =>
          obtain ⟨v', n'⟩ := p
          simp only [hr, Option.some.injEq, Prod.mk.injEq] at h
          obtain ⟨rfl, rfl⟩ := h
          obtain ⟨hv, hn1, hn2⟩ := ih (k + 1) v' n' (by omega) hr
          have hb' := UInt8.toNat_lt b
          refine ⟨?_, by omega, by simp; omega⟩
          have : k = 0 ∨ k = 1 ∨ k = 2 ∨ k = 3 ∨ k = 4 ∨ k = 5 ∨ k = 6 ∨ k = 7 ∨ k = 8 := by omega
          rcases this with rfl | rfl | rfl | rfl | rfl | rfl | rfl | rfl | rfl <;>
            simp [vbound] at hv ⊢ <;> omega

theorem decodeVarint_spec {bs : Bytes} {v n : Nat} (h : decodeVarint bs = some (v, n)) :
    v < 2 ^ 64 ∧ 1 ≤ n ∧ n ≤ bs.length := by
  have := decodeVarintAux_spec bs 0 v n (by omega) h
  simpa [vbound] using this

end Wire
