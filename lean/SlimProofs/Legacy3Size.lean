import SlimProofs.Legacy3Wire
import SlimProofs.LeafCount
import SlimProofs.BuildKept
/-
  SlimProofs.Legacy3Size — sizes: an upper bound of `proto.Size` of an `array.Array32` message from
  the lengths of its lists, hence `BodyOK` of the three sections of every three-section stream from
  numeric facts about keys and values alone; the values of a built trie's leaves from `keys`/`vals`
  facts; the empty key set.
-/
open Wire Frame Version Bits

namespace Wire

theorem sizeVarint_le_of_lt (k : Nat) : ∀ n, n < 128 ^ (k + 1) → sizeVarint n ≤ k + 1 := by
  induction k with
  | zero => intro n h; rw [sizeVarint_lt (by simpa using h)]; omega
  | succ k ih =>
    intro n h
    by_cases h128 : n < 128
    · rw [sizeVarint_lt h128]; omega
    · rw [sizeVarint_ge (Nat.le_of_not_lt h128)]
      have : n / 128 < 128 ^ (k + 1) := by
        rw [Nat.pow_succ] at h
        exact Nat.div_lt_of_lt_mul (by rw [Nat.mul_comm]; exact h)
      have := ih _ this
      omega

/-- a uint64 varint has at most ten bytes -/
theorem sizeVarint_le_ten {n : Nat} (h : n < 2 ^ 64) : sizeVarint n ≤ 10 :=
  sizeVarint_le_of_lt 9 n (by have : (2 : Nat) ^ 64 ≤ 128 ^ 10 := by decide
                              omega)

theorem packedSize_le (l : List Nat) (h : ∀ x ∈ l, x < 2 ^ 64) : packedSize l ≤ 10 * l.length := by
  induction l with
  | nil => simp [packedSize]
  | cons a as ih =>
    have ha := sizeVarint_le_ten (h a (by simp))
    have := ih (fun x hx => h x (List.mem_cons_of_mem _ hx))
    simp only [packedSize, List.map_cons, List.sum_cons, List.length_cons] at this ⊢
    omega

theorem sizeVarintF_le {fno v : Nat} (hf : fno < 2 ^ 60) (hv : v < 2 ^ 64) : sizeVarintF fno v ≤ 20 := by
  unfold sizeVarintF
  split
  · omega
  · have := sizeVarint_le_ten (n := fno * 8 + 0) (by omega)
    have := sizeVarint_le_ten hv
    omega

theorem sizePackedF_le {fno : Nat} (hf : fno < 2 ^ 60) (l : List Nat) (h : ∀ x ∈ l, x < 2 ^ 64)
    (hl : l.length < 2 ^ 60) : sizePackedF fno l ≤ 20 + 10 * l.length := by
  unfold sizePackedF
  have hp := packedSize_le l h
  split
  · omega
  · have := sizeVarint_le_ten (n := fno * 8 + 2) (by omega)
    have := sizeVarint_le_ten (n := packedSize l) (by omega)
    omega

theorem sizeBytesF_le {fno : Nat} (hf : fno < 2 ^ 60) (b : Bytes) (hl : b.length < 2 ^ 64) :
    sizeBytesF fno b ≤ 20 + b.length := by
  unfold sizeBytesF
  split
  · omega
  · have := sizeVarint_le_ten (n := fno * 8 + 2) (by omega)
    have := sizeVarint_le_ten hl
    omega

theorem sizeMsgF_le {fno : Nat} (hf : fno < 2 ^ 60) (o : Option Nat) (s : Nat)
    (h : ∀ x, o = some x → x ≤ s) (hs : s < 2 ^ 64) : sizeMsgF fno o ≤ 20 + s := by
  cases o with
  | none => simp [sizeMsgF]
  | some x =>
    have hx := h x rfl
    have := sizeVarint_le_ten (n := fno * 8 + 2) (by omega)
    have := sizeVarint_le_ten (n := x) (by omega)
    simp only [sizeMsgF]
    omega

theorem protoSizeBits_le (b : BitsMsg) (h : b.WF) (h1 : b.words.length < 2 ^ 60)
    (h2 : b.rankIndex.length < 2 ^ 60) :
    protoSizeBits b ≤ 80 + 10 * b.words.length + 10 * b.rankIndex.length := by
  obtain ⟨hf, hn, hw, hr⟩ := h
  unfold protoSizeBits
  have := sizeVarintF_le (fno := 1) (v := b.flags) (by omega) (by omega)
  have := sizeVarintF_le (fno := 10) (v := b.n) (by omega) (by omega)
  have := sizePackedF_le (fno := 20) (by omega) b.words hw h1
  have := sizePackedF_le (fno := 30) (by omega) b.rankIndex (fun x hx => by have := hr x hx; omega) h2
  omega

/-- `proto.Size` of an `Array32` message without unknown bytes, from the lengths of its lists -/
theorem protoSizeArray32_le (a : Array32Msg) (h : a.WF) (hu : a.unrecognized = [])
    (h1 : a.bitmaps.length < 2 ^ 50) (h2 : a.offsets.length < 2 ^ 50) (h3 : a.elts.length < 2 ^ 60)
    (h4 : ∀ b, a.bmElts = some b → b.words.length < 2 ^ 50 ∧ b.rankIndex.length < 2 ^ 50) :
    protoSizeArray32 a ≤ 140 + 10 * a.bitmaps.length + 10 * a.offsets.length + a.elts.length +
      (match a.bmElts with
       | some b => 80 + 10 * b.words.length + 10 * b.rankIndex.length
       | none => 0) := by
  obtain ⟨hc, hbm, hof, hfl, hw, hbe⟩ := h
  unfold protoSizeArray32
  have := sizeVarintF_le (fno := 1) (v := a.cnt) (by omega) (by omega)
  have := sizePackedF_le (fno := 2) (by omega) a.bitmaps hbm (by omega)
  have := sizePackedF_le (fno := 3) (by omega) a.offsets (fun x hx => by have := hof x hx; omega) (by omega)
  have := sizeBytesF_le (fno := 4) (by omega) a.elts (by omega)
  have := sizeVarintF_le (fno := 10) (v := a.flags) (by omega) (by omega)
  have := sizeVarintF_le (fno := 20) (v := a.eltWidth) (by omega) (by omega)
  rw [hu]
  cases hb : a.bmElts with
  | none => simp only [Option.map_none, sizeMsgF, List.length_nil]; omega
  | some b =>
    obtain ⟨hb1, hb2⟩ := h4 b hb
    have hs := protoSizeBits_le b (hbe b hb) (by omega) (by omega)
    have := sizeMsgF_le (fno := 30) (by omega) (some (protoSizeBits b))
      (80 + 10 * b.words.length + 10 * b.rankIndex.length) (by intro x hx; cases hx; exact hs) (by omega)
    simp only [Option.map_some, List.length_nil]
    omega

end Wire

namespace LegacyWrite
open Legacy

theorem zeroEmpty_length (ws os : List Nat) : (zeroEmpty ws os).length = os.length := by
  induction ws generalizing os with
  | nil => cases os <;> rfl
  | cons w ws ih =>
    cases os with
    | nil => rfl
    | cons o os => simp [zeroEmpty, ih]

theorem flatMap_length_le {α : Type} (f : α → Bytes) (c : Nat) (l : List α) (h : ∀ a ∈ l, (f a).length ≤ c) :
    (l.flatMap f).length ≤ c * l.length := by
  induction l with
  | nil => simp
  | cons a as ih =>
    have ha := h a (by simp)
    have := ih (fun x hx => h x (List.mem_cons_of_mem _ hx))
    simp only [List.flatMap_cons, List.length_append, List.length_cons]
    rw [Nat.mul_succ]
    omega

theorem initIndex_lengths (idx : List Nat) (minWords : Nat) (elts : Bytes) (n : Nat)
    (h : ∀ i ∈ idx, i < n) :
    (initIndex idx minWords elts).bitmaps.length * 64 ≤ max (minWords * 64) n + 63 ∧
    (initIndex idx minWords elts).offsets.length = (initIndex idx minWords elts).bitmaps.length ∧
    (initIndex idx minWords elts).elts = elts ∧ (initIndex idx minWords elts).bmElts = none ∧
    (initIndex idx minWords elts).unrecognized = [] := by
  refine ⟨?_, ?_, rfl, rfl, rfl⟩
  · have := ofIdx_bits_le idx (minWords * 64) n h
    show (ofIdx idx (minWords * 64)).length * 64 ≤ _
    omega
  · show (zeroEmpty _ (indexRank64 _ false)).length = (ofIdx idx (minWords * 64)).length
    rw [zeroEmpty_length, indexRank64_length]
    simp

/-- a size bound that makes a body allocatable -/
theorem bodyOK_of_size (a : Array32Msg) (s : Nat) (h : protoSizeArray32 a ≤ s) (hs : s ≤ 2 ^ 48) :
    BodyOK (encodeArray32 a) := by
  unfold BodyOK maxAlloc
  rw [← protoSizeArray32_eq]
  omega

theorem initIndex_shape (idx : List Nat) (minWords : Nat) (elts : Bytes) :
    (initIndex idx minWords elts).bitmaps = ofIdx idx (minWords * 64) ∧
    (initIndex idx minWords elts).offsets.length = (ofIdx idx (minWords * 64)).length ∧
    (initIndex idx minWords elts).elts = elts ∧ (initIndex idx minWords elts).bmElts = none := by
  refine ⟨rfl, ?_, rfl, rfl⟩
  show (zeroEmpty _ (indexRank64 _ false)).length = _
  rw [zeroEmpty_length, indexRank64_length]
  simp

/-- the lists of the children section, by length -/
theorem childrenMsg_shape (vr : Variant) (nodes : List OldNode) (minWords : Nat) :
    (childrenMsg vr nodes minWords).bitmaps = ofIdx (idsWhere nodes (·.inner)) (minWords * 64) ∧
    (childrenMsg vr nodes minWords).offsets.length
      = (ofIdx (idsWhere nodes (·.inner)) (minWords * 64)).length ∧
    (childrenMsg vr nodes minWords).elts.length ≤ 4 * nodes.length ∧
    (∀ b, (childrenMsg vr nodes minWords).bmElts = some b →
      b.words.length * 4 ≤ nodes.length + 3 ∧ b.rankIndex.length = b.words.length / 2 + 1) := by
  have hin : (nodes.filter (·.inner)).length ≤ nodes.length := List.length_filter_le _ _
  unfold childrenMsg
  simp only
  split
  · obtain ⟨m1, m2, m3, m4⟩ := initIndex_shape (idsWhere nodes (·.inner)) minWords
      ((nodes.filter (·.inner)).flatMap u32Child)
    refine ⟨m1, m2, ?_, ?_⟩
    · rw [m3]
      have := flatMap_length_le u32Child 4 (nodes.filter (·.inner))
        (fun a _ => by simp [u32Child, leBytes_length])
      omega
    · intro b hb; rw [m4] at hb; cases hb
  · obtain ⟨m1, m2, m3, m4⟩ := initIndex_shape (idsWhere nodes (·.inner)) minWords []
    split
    · refine ⟨m1, m2, by rw [m3]; simp, ?_⟩
      intro b hb; rw [m4] at hb; cases hb
    · refine ⟨m1, m2, by show ([] : Bytes).length ≤ _; simp, ?_⟩
      intro b hb
      simp only [Option.some.injEq] at hb
      subst hb
      have hlen := packBM16_length_le ((nodes.filter (·.inner)).map (·.bm))
      simp only [List.length_map] at hlen
      exact ⟨by show (packBM16 _).length * 4 ≤ _; omega, indexRank128_length _⟩

theorem childrenMsg_bodyOK (vr : Variant) (nodes : List OldNode) (minWords : Nat)
    (hbm : ∀ n ∈ nodes, n.bm < 65536) (hmw : minWords * 64 ≤ nodes.length + 63)
    (hN : 16 * nodes.length + 127 < 2 ^ 31) : BodyOK (encodeArray32 (childrenMsg vr nodes minWords)) := by
  have hwf := childrenMsg_WF vr nodes minWords hbm (by omega) hN
  have hu := childrenMsg_unrecognized vr nodes minWords
  obtain ⟨s1, s2, s3, s4⟩ := childrenMsg_shape vr nodes minWords
  have hL := ofIdx_bits_le (idsWhere nodes (·.inner)) (minWords * 64) nodes.length (idsWhere_lt _ _)
  have hL' : (ofIdx (idsWhere nodes (·.inner)) (minWords * 64)).length * 64 ≤ nodes.length + 126 := by omega
  have h1 : (childrenMsg vr nodes minWords).bitmaps.length * 64 ≤ nodes.length + 126 := by rw [s1]; exact hL'
  have hsz := protoSizeArray32_le _ hwf hu (by omega) (by omega) (by omega)
    (by intro b hb; obtain ⟨q1, q2⟩ := s4 b hb; omega)
  apply bodyOK_of_size _ _ hsz
  cases hb : (childrenMsg vr nodes minWords).bmElts with
  | none => simp only; omega
  | some b =>
    obtain ⟨q1, q2⟩ := s4 b hb
    simp only
    omega

theorem stepsMsg_bodyOK (nodes : List OldNode) (minWords : Nat)
    (hmw : minWords * 64 ≤ nodes.length + 63) (hN : 16 * nodes.length + 127 < 2 ^ 31) :
    BodyOK (encodeArray32 (stepsMsg nodes minWords)) := by
  have hwf := stepsMsg_WF nodes minWords (by omega)
  unfold stepsMsg at hwf ⊢
  obtain ⟨m1, m2, m3, m4⟩ := initIndex_shape (idsWhere nodes (·.step != 0)) minWords
    ((nodes.filter (·.step != 0)).flatMap (fun n => leBytes 2 n.step))
  have hL := ofIdx_bits_le (idsWhere nodes (·.step != 0)) (minWords * 64) nodes.length (idsWhere_lt _ _)
  have hin : (nodes.filter (·.step != 0)).length ≤ nodes.length := List.length_filter_le _ _
  have he := flatMap_length_le (fun n : OldNode => leBytes 2 n.step) 2 (nodes.filter (·.step != 0))
    (fun a _ => by simp [leBytes_length])
  have hsz := protoSizeArray32_le _ hwf rfl (by rw [m1]; omega) (by omega) (by rw [m3]; omega)
    (by intro b hb; rw [m4] at hb; cases hb)
  apply bodyOK_of_size _ _ hsz
  rw [m4, m3, m1] at *
  simp only
  omega

theorem initIndex_bodyOK (idx : List Nat) (elts : Bytes) (n bound : Nat) (hidx : ∀ i ∈ idx, i < n)
    (hwf : (initIndex idx 0 elts).WF) (hN : 16 * n + 127 < 2 ^ 31) (he : elts.length ≤ bound)
    (hb : bound < 2 ^ 47) : BodyOK (encodeArray32 (initIndex idx 0 elts)) := by
  obtain ⟨m1, m2, m3, m4⟩ := initIndex_shape idx 0 elts
  have hL := ofIdx_bits_le idx (0 * 64) n hidx
  have hsz := protoSizeArray32_le _ hwf rfl (by rw [m1]; omega) (by omega) (by rw [m3]; omega)
    (by intro b hb; rw [m4] at hb; cases hb)
  apply bodyOK_of_size _ _ hsz
  rw [m4, m3, m1] at *
  simp only
  omega

theorem leavesMsg_bodyOK (nodes : List OldNode) (vals : Array Bytes) (w : Nat)
    (hw : ∀ v ∈ vals.toList, v.length = w) (hN : 16 * nodes.length + 127 < 2 ^ 31)
    (hwn : w * nodes.length < 2 ^ 47) : BodyOK (encodeArray32 (leavesMsg nodes vals)) := by
  have hwf := leavesMsg_WF nodes vals (by omega)
  unfold leavesMsg at hwf ⊢
  apply initIndex_bodyOK _ _ nodes.length (w * nodes.length) (idsWhere_lt _ _) hwf hN _ hwn
  apply flatMap_length_le
  intro a _
  split
  · next k _ =>
    simp only [Array.getD_eq_getD_getElem?]
    cases hk : vals[k]? with
    | none => simp
    | some v =>
      have : v ∈ vals.toList := by
        have := Array.mem_of_getElem? hk
        simpa using this
      simp [hw v this]
  · simp

/-- **`BodyOK` of the three sections from numeric facts about keys and values alone.** -/
theorem sections3_bodyOK (vr : Variant) (keys vals : List Bytes) (w : Nat) (ch st lv : Array32Msg)
    (hsec : sections3 vr keys vals = .ok (ch, st, lv))
    (hcount : 32 * keys.length + 143 < 2 ^ 31) (hw : ∀ v ∈ vals, v.length = w)
    (hwn : w * (2 * keys.length + 1) < 2 ^ 47) :
    BodyOK (encodeArray32 ch) ∧ BodyOK (encodeArray32 st) ∧ BodyOK (encodeArray32 lv) := by
  unfold sections3 at hsec
  cases hb : buildOld keys vr.leafSteps with
  | error e => rw [hb] at hsec; cases hsec
  | ok nodes =>
    rw [hb] at hsec
    have hsize := buildOld_size_le keys vr.leafSteps nodes hb
    have hbm := buildOld_bm_lt keys vr.leafSteps nodes hb
    simp only [bind, Except.bind, pure, Except.pure, Except.ok.injEq, Prod.mk.injEq] at hsec
    obtain ⟨rfl, rfl, rfl⟩ := hsec
    have hlen : nodes.toList.length = nodes.size := by simp
    have hN : 16 * nodes.toList.length + 127 < 2 ^ 31 := by rw [hlen]; omega
    have hmw : (if vr.extendedIdx = true then (nodes.toList.length + 63) / 64 else 0) * 64
        ≤ nodes.toList.length + 63 := by
      split <;> omega
    refine ⟨childrenMsg_bodyOK vr _ _ hbm hmw hN, stepsMsg_bodyOK _ _ hmw hN,
      leavesMsg_bodyOK _ _ w (by simpa using hw) hN ?_⟩
    rw [hlen]
    have : w * nodes.size ≤ w * (2 * keys.length + 1) := Nat.mul_le_mul_left _ hsize
    omega

end LegacyWrite

/-! ### the leaf values of a built trie, from facts about `keys` and `vals` -/

namespace LegacyWrite

theorem build_elts_fixed (keys vals : List Bytes) (opt : Opt) (t : Trie1) (w : Nat)
    (hb : build keys (some vals) opt = .ok t) (hk : keys ≠ []) (hw : ∀ v ∈ vals, v.length = w) :
    ∃ es, t.elts = some es ∧ es ≠ [] ∧ ∀ v ∈ es, v.length = w := by
  have helts := build_elts keys (some vals) opt t hb hk
  have hlen := build_vals_length keys vals opt t hb hk
  have hkept := build_leafKeyIdx_kept keys (some vals) opt t hb hk
  have hperm := build_leaf_perm keys (some vals) opt t hb hk
  have hn : keys.length ≠ 0 := fun h => hk (List.length_eq_zero_iff.mp h)
  simp only [Option.map_some] at helts
  refine ⟨_, helts, ?_, ?_⟩
  · -- key 0 is always kept, so there is a leaf
    have h0 : 0 ∈ (List.range keys.length).filter (keptAt (keepMask keys.length (some vals) opt.dedup)) := by
      rw [List.mem_filter, List.mem_range]
      exact ⟨by omega, BuildInv.keepMask_zero opt.dedup hn (fun vs hvs => by cases hvs; exact hlen)⟩
    have h0' : 0 ∈ t.leafKeyIdx.toList := hperm.mem_iff.mpr h0
    intro hnil
    have : t.leafKeyIdx.toList = [] := by simpa using hnil
    rw [this] at h0'
    cases h0'
  · intro v hv
    obtain ⟨i, hi, rfl⟩ := List.mem_map.mp hv
    have hlt : i < vals.length := by rw [hlen]; exact (hkept i hi).2
    rw [List.getD_eq_getElem?_getD, List.getElem?_eq_getElem hlt]
    exact hw _ (List.getElem_mem hlt)

end LegacyWrite

/-! ### the empty key set -/

namespace LegacyWrite
open Legacy

/-- what the conversion makes of three sections without any node -/
def emptyConverted : Trie1 := { opt := {}, nodes := #[], bigCnt := 0, leafKeyIdx := #[], elts := some [] }

theorem convert_loop_empty (ch st lv : Array32Msg) (e : Option Nat) (h1 : ch.bitmaps = [])
    (h3 : lv.bitmaps = []) (fuel : Nat) (q : QElt) (hq : q.leafOnly = false) :
    convert.loop ch st lv e (fuel + 2) 0 { queue := #[q] } = .ok { queue := #[q] } := by
  have hb1 : bmhas ch.bitmaps q.oldid = false := by rw [h1]; rfl
  have hb3 : bmhas lv.bitmaps q.oldid = false := by rw [h3]; rfl
  rw [convert.loop]
  simp only [Array.size_singleton, Nat.lt_one_iff, dite_true, Array.getElem_singleton, hb1, hb3, hq]
  simp only [Bool.not_false, Bool.and_false, Bool.or_false, Bool.false_eq_true, if_false, if_true]
  rw [convert.loop]
  simp

theorem convert_empty (ch st lv : Array32Msg) (e : Option Nat) (h1 : ch.bitmaps = [])
    (h2 : st.bitmaps = []) (h3 : lv.bitmaps = []) : convert ch st lv e = .ok emptyConverted := by
  unfold convert
  have hs : getStep st 0 = .ok 0 := by simp [getStep, bmhas, h2]; rfl
  have hf : 2 * 64 * (ch.bitmaps.length + lv.bitmaps.length) + 4 = 2 + 2 := by rw [h1, h3]; rfl
  simp only [hs, bind, Except.bind, hf]
  rw [convert_loop_empty ch st lv e h1 h3 2 _ rfl]
  simp [emptyConverted, pure, Except.pure]

end LegacyWrite

namespace LegacyWrite
open Legacy

theorem buildOld_nil (ls : Bool) : buildOld [] ls = .ok #[] := by
  unfold buildOld
  simp

theorem ofIdx_nil_zero : ofIdx [] 0 = [] := by decide

theorem idsWhere_nil (p : OldNode → Bool) : idsWhere [] p = [] := by
  unfold idsWhere idsFrom; rfl

/-- the sections of the empty key set do not depend on the value list, and hold no node -/
theorem sections3_nil (vr : Variant) (vals : List Bytes) :
    sections3 vr [] vals = .ok (childrenMsg vr [] 0, stepsMsg [] 0, leavesMsg [] #[]) := by
  unfold sections3
  rw [buildOld_nil]
  have hl : leavesMsg [] vals.toArray = leavesMsg [] #[] := by
    unfold leavesMsg; simp
  cases vr.extendedIdx <;> simp [bind, Except.bind, pure, Except.pure, hl]

theorem sections3_nil_bitmaps (vr : Variant) :
    (childrenMsg vr [] 0).bitmaps = [] ∧ (stepsMsg [] 0).bitmaps = [] ∧ (leavesMsg [] #[]).bitmaps = [] := by
  refine ⟨?_, ?_, ?_⟩
  · rw [(childrenMsg_shape vr [] 0).1, idsWhere_nil]; exact ofIdx_nil_zero
  · unfold stepsMsg; rw [(initIndex_shape _ _ _).1, idsWhere_nil]; exact ofIdx_nil_zero
  · unfold leavesMsg; rw [(initIndex_shape _ _ _).1, idsWhere_nil]; exact ofIdx_nil_zero

theorem encodeCreator_emptyConverted_nodeTypeBM :
    (Slim.encodeCreator emptyConverted).nodeTypeBM = none := by
  rw [Refine.enc_nodeTypeBM]
  have : emptyConverted.nodes.size = 0 := by simp [emptyConverted]
  rw [if_pos this]

theorem initLevels_of_none (s : SlimMsg) (h : s.nodeTypeBM = none) : Slim.initLevels s = .ok [(0, 0, 0)] := by
  unfold Slim.initLevels
  rw [h]
  rfl

theorem stat_of_none (s : SlimMsg) (h : s.nodeTypeBM = none) :
    Slim.stat s [(0, 0, 0)] = .ok { levels := [(0, 0, 0)], keyCnt := 0, nodeCnt := 0 } := by
  unfold Slim.stat
  simp [h]

theorem initLevels_emptyConverted :
    Slim.initLevels (Slim.encodeCreator emptyConverted) = .ok [(0, 0, 0)] :=
  initLevels_of_none _ encodeCreator_emptyConverted_nodeTypeBM

theorem stat_emptyConverted :
    Slim.stat (Slim.encodeCreator emptyConverted) [(0, 0, 0)]
      = .ok { levels := [(0, 0, 0)], keyCnt := 0, nodeCnt := 0 } :=
  stat_of_none _ encodeCreator_emptyConverted_nodeTypeBM

theorem view_emptyConverted_isEmpty : (Slim.view (Slim.encodeCreator emptyConverted)).isEmpty = true := by
  show (Slim.encodeCreator emptyConverted).nodeTypeBM.isNone = true
  rw [encodeCreator_emptyConverted_nodeTypeBM]
  rfl

end LegacyWrite
