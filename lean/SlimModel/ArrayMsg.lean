import SlimModel.Wire
/-
  SlimModel.ArrayMsg — the messages of array/array.proto and array/bitmap.proto: `array.Array32`
  (embedded in `array.Base`, hence in `array.U16` and `array.Array`: all three sections of the
  pre-0.5.10 layout are this one message) and `array.Bits`.

  Field numbers / wire types from the struct tags of array/array.pb.go and array/bitmap.pb.go.
-/

/-- `array.Bits` -/
structure BitsMsg where
  flags : Nat := 0              -- field 1,  uint32
  n : Nat := 0                  -- field 10, int32
  words : List Nat := []        -- field 20, repeated uint64 (packed)
  rankIndex : List Nat := []    -- field 30, repeated int32  (packed)
  deriving Repr, DecidableEq, Inhabited

/-- `array.Array32` -/
structure Array32Msg where
  cnt : Nat := 0                    -- field 1,  int32
  bitmaps : List Nat := []          -- field 2,  repeated uint64 (packed)
  offsets : List Nat := []          -- field 3,  repeated int32  (packed)
  elts : Bytes := []                -- field 4,  bytes
  flags : Nat := 0                  -- field 10, uint32
  eltWidth : Nat := 0               -- field 20, int32
  bmElts : Option BitsMsg := none   -- field 30
  /-- top-level `XXX_unrecognized`, as for `SlimMsg` -/
  unrecognized : Bytes := []
  deriving Repr, DecidableEq, Inhabited

namespace BitsMsg
def WF (b : BitsMsg) : Prop :=
  b.flags < 2 ^ 32 ∧ b.n < 2 ^ 31 ∧ (∀ w ∈ b.words, w < 2 ^ 64) ∧ (∀ r ∈ b.rankIndex, r < 2 ^ 31)
end BitsMsg

namespace Array32Msg
def WF (a : Array32Msg) : Prop :=
  a.cnt < 2 ^ 31 ∧ (∀ w ∈ a.bitmaps, w < 2 ^ 64) ∧ (∀ o ∈ a.offsets, o < 2 ^ 31) ∧
  a.flags < 2 ^ 32 ∧ a.eltWidth < 2 ^ 31 ∧ (∀ b, a.bmElts = some b → b.WF)
end Array32Msg

namespace Wire

/-! ### array.Bits -/

def bitsH (acc : BitsMsg) (fno : Nat) (v : WVal) : Except Err (Option BitsMsg) :=
  match fno with
  | 1 => match scalarU32 v with
    | .error e => .error e
    | .ok o => .ok (o.map fun x => { acc with flags := x })
  | 10 => match scalarI32 v with
    | .error e => .error e
    | .ok o => .ok (o.map fun x => { acc with n := x })
  | 20 => match repU64 acc.words v with
    | .error e => .error e
    | .ok o => .ok (o.map fun l => { acc with words := l })
  | 30 => match repI32 acc.rankIndex v with
    | .error e => .error e
    | .ok o => .ok (o.map fun l => { acc with rankIndex := l })
  | _ => .ok none

def decodeBitsInto (acc : BitsMsg) (bs : Bytes) : Except Err BitsMsg :=
  decodeMsg bitsH dropUnknown acc bs

def bitsI32OK (b : BitsMsg) : Bool := i32ok b.n && b.rankIndex.all i32ok

def decodeBits (bs : Bytes) : Except Err BitsMsg := checkI32 bitsI32OK (decodeBitsInto {} bs)

def encodeBits (b : BitsMsg) : Bytes :=
  encVarintF 1 b.flags ++ (encVarintF 10 b.n ++ (encPackedF 20 b.words ++ encPackedF 30 b.rankIndex))

def protoSizeBits (b : BitsMsg) : Nat :=
  sizeVarintF 1 b.flags + (sizeVarintF 10 b.n + (sizePackedF 20 b.words + sizePackedF 30 b.rankIndex))

/-! ### array.Array32 -/

def array32H (acc : Array32Msg) (fno : Nat) (v : WVal) : Except Err (Option Array32Msg) :=
  match fno with
  | 1 => match scalarI32 v with
    | .error e => .error e
    | .ok o => .ok (o.map fun x => { acc with cnt := x })
  | 2 => match repU64 acc.bitmaps v with
    | .error e => .error e
    | .ok o => .ok (o.map fun l => { acc with bitmaps := l })
  | 3 => match repI32 acc.offsets v with
    | .error e => .error e
    | .ok o => .ok (o.map fun l => { acc with offsets := l })
  | 4 => match bytesF v with
    | .error e => .error e
    | .ok o => .ok (o.map fun x => { acc with elts := x })
  | 10 => match scalarU32 v with
    | .error e => .error e
    | .ok o => .ok (o.map fun x => { acc with flags := x })
  | 20 => match scalarI32 v with
    | .error e => .error e
    | .ok o => .ok (o.map fun x => { acc with eltWidth := x })
  | 30 => match msgF decodeBitsInto acc.bmElts v with
    | .error e => .error e
    | .ok o => .ok (o.map fun x => { acc with bmElts := x })
  | _ => .ok none

def array32U (acc : Array32Msg) (raw : Bytes) : Array32Msg :=
  { acc with unrecognized := acc.unrecognized ++ raw }

def decodeArray32Into (acc : Array32Msg) (bs : Bytes) : Except Err Array32Msg :=
  decodeMsg array32H array32U acc bs

def array32I32OK (a : Array32Msg) : Bool :=
  i32ok a.cnt && a.offsets.all i32ok && i32ok a.eltWidth && optOK bitsI32OK a.bmElts

def decodeArray32 (bs : Bytes) : Except Err Array32Msg :=
  checkI32 array32I32OK (decodeArray32Into {} bs)

def encodeArray32Known (a : Array32Msg) : Bytes :=
  encVarintF 1 a.cnt ++ (encPackedF 2 a.bitmaps ++ (encPackedF 3 a.offsets ++ (encBytesF 4 a.elts ++
  (encVarintF 10 a.flags ++ (encVarintF 20 a.eltWidth ++ encMsgF 30 (a.bmElts.map encodeBits))))))

def encodeArray32 (a : Array32Msg) : Bytes := encodeArray32Known a ++ a.unrecognized

def protoSizeArray32 (a : Array32Msg) : Nat :=
  sizeVarintF 1 a.cnt + (sizePackedF 2 a.bitmaps + (sizePackedF 3 a.offsets + (sizeBytesF 4 a.elts +
  (sizeVarintF 10 a.flags + (sizeVarintF 20 a.eltWidth + sizeMsgF 30 (a.bmElts.map protoSizeBits)))))) +
  a.unrecognized.length

def array32Known (fno wire : Nat) : Bool :=
  (wire = 0 && (fno = 1 || fno = 2 || fno = 3 || fno = 10 || fno = 20)) ||
  (wire = 2 && (fno = 2 || fno = 3 || fno = 4 || fno = 30))

end Wire
