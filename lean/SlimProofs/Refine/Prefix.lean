import SlimProofs.Refine.ListAux
import SlimModel.Slim
/-
  SlimProofs.Refine.Prefix — the byte-level encodings of prefixes read back:
  `bitstrNibs ∘ bitstrOf`, `decStep ∘ encStep`, and `sliceBytes` of a `flatten`.
-/

namespace Refine

open Bits Slim

/-! ### `bitstr` -/

theorem unnibs_length (ns : List Nat) : (unnibs ns).length = (ns.length + 1) / 2 := by
  fun_induction unnibs ns with
  | case1 => rfl
  | case2 h => simp
  | case3 h l rest ih => simp only [List.length_cons, ih]; omega

theorem take_nibs_unnibs (ns : List Nat) (h : ∀ x ∈ ns, x < 16) :
    (nibs (unnibs ns)).take ns.length = ns := by
  fun_induction unnibs ns with
  | case1 => rfl
  | case2 a =>
    have ha : a < 16 := h a (by simp)
    simp only [nibs, UInt8.toNat_ofNat', List.length_singleton, List.take_succ_cons, List.take_zero]
    congr 1; omega
  | case3 a b rest ih =>
    have ha : a < 16 := h a (by simp)
    have hb : b < 16 := h b (by simp)
    simp only [nibs, UInt8.toNat_ofNat', List.length_cons, List.take_succ_cons]
    rw [ih (fun x hx => h x (by simp [hx]))]
    congr 1
    · omega
    · congr 1; omega

theorem bitstrOf_ne_nil (ns : List Nat) : bitstrOf ns ≠ [] := by
  unfold bitstrOf; simp

theorem bitstrOf_length_pos (ns : List Nat) : 0 < (bitstrOf ns).length := by
  unfold bitstrOf; simp

/-- `bitstr.New` then reading the half-bytes back -/
theorem bitstrNibs_bitstrOf (ns : List Nat) (h : ∀ x ∈ ns, x < 16) :
    bitstrNibs (bitstrOf ns) = ns := by
  unfold bitstrNibs bitstrLen bitstrOf
  rw [List.dropLast_concat, List.getLast?_concat, Option.getD_some, List.length_append,
    List.length_singleton, unnibs_length]
  have p1 : popcount (0xff : UInt8).toNat = 8 := by decide
  have p2 : popcount (0xf0 : UInt8).toNat = 4 := by decide
  have hlen : (((ns.length + 1) / 2 + 1) * 8
      + popcount (if ns.length % 2 = 0 then (0xff : UInt8) else 0xf0).toNat - 16) / 4 = ns.length := by
    split
    · rw [p1]; omega
    · rw [p2]; omega
  rw [hlen]
  exact take_nibs_unnibs ns h

/-! ### `encStep` / `decStep` -/

theorem decStep_encStep (n : Nat) (h : n < 65536) :
    decStep (UInt8.ofNat (n / 256)) (UInt8.ofNat (n % 256)) = n := by
  unfold decStep
  rw [UInt8.toNat_ofNat', UInt8.toNat_ofNat']
  omega

theorem encStep_length (n : Nat) : (encStep n).length = 2 := rfl

/-! ### `sliceBytes` of a `flatten` -/

theorem sliceBytes_flatten (ps : List Bytes) (k : Nat) (x : Bytes) (hk : ps[k]? = some x) :
    sliceBytes ps.flatten ((ps.map List.length).take k).sum ((ps.map List.length).take (k + 1)).sum
      = .ok x := by
  have h1 := take_sum_map_length_succ ps k x hk
  have h2 := take_sum_map_length_le ps (k + 1)
  unfold sliceBytes
  rw [if_pos ⟨by omega, h2⟩, h1, Nat.add_sub_cancel_left, drop_take_flatten ps k x hk]

/-- two-byte elements: the bytes at `2k`, `2k+1` of the flattening -/
theorem flatten_pair_getElem? (ps : List Bytes) (hlen : ∀ p ∈ ps, p.length = 2) (k : Nat) (b0 b1 : UInt8)
    (hk : ps[k]? = some [b0, b1]) :
    ps.flatten[k * 2]? = some b0 ∧ ps.flatten[k * 2 + 1]? = some b1 := by
  have h := drop_take_flatten ps k [b0, b1] hk
  have hsum : ((ps.map List.length).take k).sum = k * 2 := by
    rw [← List.map_take, sum_map_const (ps.take k) List.length 2
      (fun a ha => hlen a (List.mem_of_mem_take ha)), List.length_take]
    have := (List.getElem?_eq_some_iff.mp hk).1
    rw [Nat.min_eq_left (by omega)]
  rw [hsum] at h
  have h0 : ((ps.flatten.drop (k * 2)).take [b0, b1].length)[0]? = some b0 := by rw [h]; rfl
  have h1 : ((ps.flatten.drop (k * 2)).take [b0, b1].length)[1]? = some b1 := by rw [h]; rfl
  rw [List.getElem?_take, if_pos (by simp), List.getElem?_drop] at h0 h1
  exact ⟨by simpa using h0, h1⟩

end Refine
