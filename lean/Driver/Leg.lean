import SlimModel.LegacyWrite
import Driver.Trie
/-
  Driver.Leg — family `leg`: the model side of harness/fam/leg/leg.go.

    leg.write <variant> <k> <v> <k> <v> …   the stream the reconstructed writer of the layout
                                            produces for these records: `ok <len> <fnv64>`
                                            (variant: 0.5.0 … 0.5.9, or <mode>-0.5.10 / <mode>-0.5.11
                                            with mode nopref | innpref | allpref; values are the
                                            encoded bytes)
    leg.writehex <variant> <k> <v> …        the same, answered with the bytes themselves (`x…`)
    leg.sections <variant> <k> <v> …        three-section variants: length and hash of each of the
                                            three message bodies
-/
namespace Driver.Leg

structure State where
  unit : Unit := ()

def init : State := {}

def hashStr (b : Bytes) : String :=
  toString b.length ++ " " ++ Driver.Trie.fnv64 (b.map UInt8.toNat)

def errStr (e : Err) : String :=
  match e with
  | .fuel => "MODEL-FUEL"
  | .other _ => "err:other"
  | .panic _ => "panic"
  | e => "err:" ++ e.kind

def step (st : State) (toks : List String) : State × String :=
  match toks with
  | "leg.write" :: variant :: rest =>
    match Driver.Trie.parseKVs true rest with
    | none => (st, "bad-op")
    | some (keys, vals) =>
      match LegacyWrite.write variant keys vals with
      | .ok b => (st, "ok " ++ hashStr b)
      | .error e => (st, errStr e)
  | "leg.writehex" :: variant :: rest =>
    match Driver.Trie.parseKVs true rest with
    | none => (st, "bad-op")
    | some (keys, vals) =>
      match LegacyWrite.write variant keys vals with
      | .ok b => (st, "ok " ++ hexOf b)
      | .error e => (st, errStr e)
  | "leg.sections" :: variant :: rest =>
    match Driver.Trie.parseKVs true rest, LegacyWrite.parseVariant variant with
    | some (keys, vals), some vr =>
      match LegacyWrite.sections3 vr keys vals with
      | .ok (ch, s, lv) =>
        (st, "ok " ++ hashStr (Wire.encodeArray32 ch) ++ " " ++ hashStr (Wire.encodeArray32 s) ++ " " ++
          hashStr (Wire.encodeArray32 lv))
      | .error e => (st, errStr e)
    | _, _ => (st, "bad-op")
  | _ => (st, "bad-op")

end Driver.Leg
