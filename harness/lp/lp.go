// Package lp is the line protocol between the Go harness (which runs the real
// openacid/slim code in-process) and the Lean driver (which runs the model).
//
// The harness writes two files of equal line count:
//
//	script.txt  one operation per line, tokens separated by single spaces,
//	            byte strings as "x"+lowercase hex (the empty string is "x")
//	impl.txt    the canonical answer of the implementation to that line
//
// The Lean driver reads script.txt and writes its own answer per line; the
// check diffs the two answer streams line by line.  Every random choice derives
// from Ctx.Rng (seeded from VERIF_SEED), so a disagreement replays exactly.
package lp

import (
	"bufio"
	"encoding/hex"
	"encoding/json"
	"fmt"
	"math/rand"
	"os"
	"path/filepath"
	"sort"
	"strings"
)

// Violation is a direct failure of a property predicate on the implementation,
// found by the harness itself (independent of the model).
type Violation struct {
	Property string   `json:"property"`
	What     string   `json:"what"`
	Script   []string `json:"script"`   // minimal op script that shows it
	Expected string   `json:"expected"` // what the property demands
	Got      string   `json:"got"`      // what the implementation answered
}

type Ctx struct {
	Prop   string
	Tier   string // quick | thorough
	Seed   int64
	OutDir string
	Rng    *rand.Rand

	script *bufio.Writer
	impl   *bufio.Writer
	fs, fi *os.File

	Lines int

	// evidence counters
	Evaluations int
	distinct    map[string]struct{}
	Samples     []string
	Dist        map[string]int // input distribution: shape classes, sizes, branches hit
	Violations  []Violation
	Notes       []string

	// Context: the ops that established the current state (last build / load), for replays
	Context []string
}

func NewCtx(prop, tier string, seed int64, outDir string) (*Ctx, error) {
	if err := os.MkdirAll(outDir, 0o755); err != nil {
		return nil, err
	}
	fs, err := os.Create(filepath.Join(outDir, "script.txt"))
	if err != nil {
		return nil, err
	}
	fi, err := os.Create(filepath.Join(outDir, "impl.txt"))
	if err != nil {
		return nil, err
	}
	c := &Ctx{
		Prop: prop, Tier: tier, Seed: seed, OutDir: outDir,
		Rng:      rand.New(rand.NewSource(seed)),
		script:   bufio.NewWriterSize(fs, 1<<20),
		impl:     bufio.NewWriterSize(fi, 1<<20),
		fs:       fs,
		fi:       fi,
		distinct: map[string]struct{}{},
		Dist:     map[string]int{},
	}
	startWatchdog(c)
	return c, nil
}

// Op appends one operation and the implementation's canonical answer.
func (c *Ctx) Op(op string, implAnswer string) {
	if strings.ContainsAny(op, "\n\r") || strings.ContainsAny(implAnswer, "\n\r") {
		panic("lp: newline in protocol line")
	}
	c.script.WriteString(op)
	c.script.WriteByte('\n')
	c.impl.WriteString(implAnswer)
	c.impl.WriteByte('\n')
	c.Lines++
}

// Comment writes a line both sides echo as "#".
func (c *Ctx) Comment(s string) { c.Op("# "+strings.ReplaceAll(s, "\n", " "), "#") }

// Case records one generated case for the evidence: key identifies the case
// (distinctness), nontrivial says whether it counts by the family's stated rule.
func (c *Ctx) Case(key string, nontrivial bool) {
	c.Evaluations++
	if nontrivial {
		c.distinct[key] = struct{}{}
	}
}

func (c *Ctx) Sample(s string) {
	if len(c.Samples) < 8 {
		if len(s) > 400 {
			s = s[:400] + "..."
		}
		c.Samples = append(c.Samples, s)
	}
}

func (c *Ctx) Hit(class string) { c.Dist[class]++ }

func (c *Ctx) Violate(v Violation) {
	if v.Property == "" {
		v.Property = c.Prop
	}
	if len(c.Violations) < 50 {
		c.Violations = append(c.Violations, v)
	}
}

type Stats struct {
	Property           string         `json:"property"`
	Tier               string         `json:"tier"`
	Seed               int64          `json:"seed"`
	Lines              int            `json:"lines"`
	Evaluations        int            `json:"evaluations"`
	DistinctNontrivial int            `json:"distinct_nontrivial"`
	Samples            []string       `json:"samples"`
	Distribution       map[string]int `json:"distribution"`
	Violations         []Violation    `json:"violations"`
	Notes              []string       `json:"notes"`
}

func (c *Ctx) Close() error {
	c.script.Flush()
	c.impl.Flush()
	c.fs.Close()
	c.fi.Close()
	st := Stats{
		Property: c.Prop, Tier: c.Tier, Seed: c.Seed, Lines: c.Lines,
		Evaluations: c.Evaluations, DistinctNontrivial: len(c.distinct),
		Samples: c.Samples, Distribution: c.Dist, Violations: c.Violations, Notes: c.Notes,
	}
	if st.Samples == nil {
		st.Samples = []string{}
	}
	if st.Violations == nil {
		st.Violations = []Violation{}
	}
	b, _ := json.MarshalIndent(st, "", " ")
	return os.WriteFile(filepath.Join(c.OutDir, "stats.json"), b, 0o644)
}

// X renders a byte string for the protocol.
func X(b []byte) string { return "x" + hex.EncodeToString(b) }

// XS renders a Go string for the protocol.
func XS(s string) string { return "x" + hex.EncodeToString([]byte(s)) }

// Catch runs f and renders a recovered panic as the canonical answer "panic".
func Catch(f func() string) (out string) {
	defer func() {
		if r := recover(); r != nil {
			out = "panic"
		}
	}()
	return f()
}

// CatchMsg is Catch but also returns the panic message (for replay files only).
func CatchMsg(f func() string) (out string, msg string) {
	defer func() {
		if r := recover(); r != nil {
			out = "panic"
			msg = fmt.Sprint(r)
		}
	}()
	return f(), ""
}

// SortedKeys returns the keys of a distribution map, sorted.
func SortedKeys(m map[string]int) []string {
	ks := make([]string, 0, len(m))
	for k := range m {
		ks = append(ks, k)
	}
	sort.Strings(ks)
	return ks
}

// Quick reports whether the run is the quick tier.
func (c *Ctx) Quick() bool { return c.Tier != "thorough" }

// Pick returns a or b by tier.
func (c *Ctx) Pick(quick, thorough int) int {
	if c.Quick() {
		return quick
	}
	return thorough
}
