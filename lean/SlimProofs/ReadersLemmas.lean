import SlimModel.Readers
/-
  SlimProofs.ReadersLemmas — the frame property of `Readers.step` and what follows from it:
  a thread's answers and local state depend only on its own calls; an iterator's yields depend
  only on the `next` calls made on it.
-/
namespace Readers

/-! ### frame -/

theorem step_shared (sh : Shared) (loc : Local) (op : ReadOp) : (step sh loc op).1 = sh := by
  cases op <;> simp only [step]
  · split <;> rfl
  · split
    · rfl
    · split <;> rfl

theorem runAlone_shared (sh : Shared) (loc : Local) (ops : List ReadOp) :
    (runAlone sh loc ops).1 = sh := by
  induction ops generalizing loc with
  | nil => rfl
  | cons op rest ih => simp only [runAlone]; rw [step_shared, ih]

theorem run_shared (sh : Shared) (locs : Locals) (sched : Schedule) : (run sh locs sched).1 = sh := by
  induction sched generalizing locs with
  | nil => rfl
  | cons p rest ih =>
    obtain ⟨t, op⟩ := p
    simp only [run]; rw [step_shared, ih]

/-! ### a thread only depends on its own calls -/

theorem setLocal_same (locs : Locals) (t : ThreadId) (l : Local) : setLocal locs t l t = l := by
  simp [setLocal]

theorem setLocal_other (locs : Locals) {t u : ThreadId} (l : Local) (h : u ≠ t) :
    setLocal locs t l u = locs u := by
  simp [setLocal, h]

theorem run_thread (sh : Shared) (t : ThreadId) (sched : Schedule) (locs : Locals) :
    answersOf t (run sh locs sched).2.2 = (runAlone sh (locs t) (opsOf t sched)).2.2 ∧
    (run sh locs sched).2.1 t = (runAlone sh (locs t) (opsOf t sched)).2.1 := by
  induction sched generalizing locs with
  | nil => exact ⟨rfl, rfl⟩
  | cons p rest ih =>
    obtain ⟨u, op⟩ := p
    simp only [run, step_shared]
    by_cases hu : u = t
    · subst hu
      have h := ih (setLocal locs u (step sh (locs u) op).2.1)
      rw [setLocal_same] at h
      simp only [answersOf, opsOf, List.filterMap_cons, if_true, runAlone, step_shared]
      exact ⟨congrArg _ h.1, h.2⟩
    · have h := ih (setLocal locs u (step sh (locs u) op).2.1)
      rw [setLocal_other _ _ (fun e => hu e.symm)] at h
      simp only [answersOf, opsOf, List.filterMap_cons, hu, if_false]
      exact h

/-! ### an iterator only depends on the `next` calls made on it -/

/-- number of `next a` calls among `ops` -/
def nextCalls (a : Nat) : List ReadOp → Nat
  | [] => 0
  | op :: ops => (if op = .next a then 1 else 0) + nextCalls a ops

/-- a call other than `next a` leaves iterator `a` as it is -/
theorem step_keeps_iter (sh : Shared) (loc : Local) (op : ReadOp) (a : Nat) (it : Iter)
    (h : loc[a]? = some it) (hop : op ≠ .next a) : (step sh loc op).2.1[a]? = some it := by
  have ha : a < loc.length := by
    rcases Nat.lt_or_ge a loc.length with h' | h'
    · exact h'
    · rw [List.getElem?_eq_none h'] at h; cases h
  cases op <;> simp only [step] <;> try exact h
  · split
    · simp only; rw [List.getElem?_append_left ha]; exact h
    · exact h
  · next b =>
    have hb : b ≠ a := fun e => hop (by rw [e])
    split
    · exact h
    · split
      · simp only; rw [List.getElem?_set_ne hb]; exact h
      · exact h

/-- `next a` does to iterator `a` what `next 0` does to it when it is the thread's only iterator,
    and answers the same -/
theorem step_next (sh : Shared) (loc : Local) (a : Nat) (it : Iter) (h : loc[a]? = some it) :
    ∃ it', (step sh loc (.next a)).2.1[a]? = some it' ∧
      (step sh [it] (.next 0)).2.1 = [it'] ∧
      (step sh loc (.next a)).2.2 = (step sh [it] (.next 0)).2.2 := by
  have ha : a < loc.length := by
    rcases Nat.lt_or_ge a loc.length with h' | h'
    · exact h'
    · rw [List.getElem?_eq_none h'] at h; cases h
  simp only [step, h, List.getElem?_cons_zero]
  cases hn : Scan.iterNext (Slim.view sh.inner) it.withValue it.st with
  | error e => exact ⟨it, h, rfl, rfl⟩
  | ok r =>
    obtain ⟨s', k, val⟩ := r
    refine ⟨{ it with st := s' }, ?_, rfl, rfl⟩
    simp only
    rw [List.getElem?_set_self ha]

/-- The yields of iterator `a` within ANY sequence of calls of its thread are the yields of the
    same number of `next` calls on that iterator alone. -/
theorem yields_alone (sh : Shared) (a : Nat) (ops : List ReadOp) (loc : Local) (it : Iter)
    (h : loc[a]? = some it) :
    yields a ops (runAlone sh loc ops).2.2
      = (runAlone sh [it] (List.replicate (nextCalls a ops) (.next 0))).2.2 := by
  induction ops generalizing loc it with
  | nil => rfl
  | cons op rest ih =>
    simp only [runAlone, step_shared, yields, nextCalls]
    by_cases hop : op = .next a
    · subst hop
      obtain ⟨it', h1, h2, h3⟩ := step_next sh loc a it h
      simp only [if_true, Nat.add_comm 1, List.replicate_succ, runAlone, step_shared]
      rw [ih _ it' h1, h2, h3]
    · simp only [hop, if_false, Nat.zero_add]
      exact ih _ it (step_keeps_iter sh loc op a it h hop)

theorem runAlone_append (sh : Shared) (loc : Local) (xs ys : List ReadOp) :
    (runAlone sh loc (xs ++ ys)).2.2
      = (runAlone sh loc xs).2.2 ++ (runAlone sh (runAlone sh loc xs).2.1 ys).2.2 ∧
    (runAlone sh loc (xs ++ ys)).2.1 = (runAlone sh (runAlone sh loc xs).2.1 ys).2.1 := by
  induction xs generalizing loc with
  | nil => exact ⟨rfl, rfl⟩
  | cons x xs ih =>
    simp only [List.cons_append, runAlone, step_shared]
    obtain ⟨h1, h2⟩ := ih (step sh loc x).2.1
    exact ⟨by rw [h1], h2⟩

end Readers
