import SlimProofs.BitsLemmas.Count
import SlimProofs.BitsLemmas.Words
import SlimProofs.BitsLemmas.Rank
import SlimProofs.BitsLemmas.OfMany
import SlimProofs.BitsLemmas.Select
import SlimProofs.BitsLemmas.Positions
/-
  SlimProofs.BitsLemmas — the word-level bitmap functions of `SlimModel.Bits` characterised by
  their meaning, for all inputs.

  * `Count`     : `cnt p n` (number of `j < n` with `p j`), `k`-th element of `(range n).filter p`,
                  `Asc`/`AscLe`, `Asc.ext`
  * `Words`     : `getBit`, `bitsOf`/`specRank`/`specBit` ↔ `getBit`/`cnt`, `popcount`, `ofIdx`
                  (`testBit_ofIdx`, `getBit_ofIdx`, `ofIdx_length`, `ofIdx_lt`)
  * `Rank`      : `indexRank64`/`indexRank128` entries, `rank64_*`, `rank128_*`, `eraseDups` facts
  * `OfMany`    : `SubsOK`, `ofMany_length`, `getBit_ofMany`, `specRank_ofMany(_add)`
  * `Select`    : `select32R64_mk(_next,_last)`, `toArray_ofIdx`, `select32R64_newBM(_asc,_last)`
  * `Positions` : `stepToPos`, `select32R64_positions_pos`, `select32R64_positions`

  Below: concrete instances (the hypotheses are satisfiable and the conclusions compute).
-/

namespace Bits

example : AscLe [1, 1, 70] ∧ ¬ Asc [1, 1, 70] := by decide
example : ofIdx [1, 1, 70] 0 = [2, 64] := by decide
example : rank64 (newBM [1, 1, 70] 0 "r64") 70 = .ok (1, true) := by
  rw [rank64_newBM _ _ _ (by decide)]; rfl
example : rank128 (newBM [1, 5, 70, 130] 200 "r128") 131 = .ok (4, false) := by
  rw [rank128_newBM _ _ _ (by decide)]; rfl

example : SubsOK [[0, 2], [], [1]] [3, 0, 2] := by simp [SubsOK]
example : ofMany [[0, 2], [], [1]] [3, 0, 2] = [21] := by decide
example : specRank (bitsOf (ofMany [[0, 2], [], [1]] [3, 0, 2])) (([3, 0, 2].take 2).sum + 2) = 3 := by
  rw [specRank_ofMany_add (by simp [SubsOK]) 2 2 (by decide) (by decide)]; decide

example : Slim.stepToPos [2, 0, 3] = [0, 2, 2, 5] := by decide
example : distinctPos [2, 0, 3] 0 = [0, 2, 5] := by decide
/-- element 2 is the 1-th non-empty element of sizes `[2, 0, 3]`: it occupies `[2, 5)` -/
example : select32R64 (newBM (Slim.stepToPos [2, 0, 3]) 0 "s32") 1 = .ok (2, 5) :=
  select32R64_positions [2, 0, 3] 2 1 (by decide) (by decide) (by decide)
example : select32R64 (newBM (Slim.stepToPos [2, 1, 3]) 0 "s32") 1 = .ok (2, 3) :=
  select32R64_positions_pos [2, 1, 3] (by decide) 1 (by decide)

end Bits
