import SlimProofs.LegacyPrefix
/-
  SlimProofs.LegacySelect — the position bitmaps of 0.5.10 / 0.5.11 streams carry *word indexes*
  in `SelectIndex` (`pos >> 6`), today's `bitmap.Select32R64` reads an entry as a bit position and
  starts its walk over the rank index at word `entry >> 6`.  An earlier start word only lengthens
  the walk: the answers are the same.

    * `select32R64_anySelect`   `select32R64` with any select table whose entry names a word at or
                                before the word of the wanted bit
    * `select_positions_old`    the position bitmap as the old writers wrote it
                                (`LegacyWrite.wordIndexSelect (newBM (stepToPos sizes) 0 "s32")`)
                                returns the element boundaries
-/
open Bits

namespace Legacy

/-- `select32R64` does not depend on the select table beyond "the entry names a word at or before
    the word that holds the `i`-th set bit". -/
theorem select32R64_anySelect (ws sel : List Nat) (i a s0 : Nat) (ha : (toArray ws)[i]? = some a)
    (hs : sel[i / 32]? = some s0) (hle : s0 / 64 ≤ a / 64) :
    select32R64 { words := ws, rankIndex := indexRank64 ws true, selectIndex := sel } i
      = .ok (a, nextOne ws (a + 1)) := by
  rw [toArray_getElem?_eq_some] at ha
  obtain ⟨ha1, ha2, ha3⟩ := ha
  have hW : a / 64 < ws.length := by omega
  have hwalk : select32R64.walk { words := ws, rankIndex := indexRank64 ws true, selectIndex := sel } i
      ((indexRank64 ws true).length + 1) (s0 / 64) = .ok (a / 64) := by
    apply walk_eq
    · intro m hm
      refine ⟨cnt (getBit ws) (64 * m), ?_, ?_⟩
      · simp only
        rw [indexRank64_getElem?, if_pos (Or.inl (by omega))]
      · rw [← ha3]; exact cnt_mono _ (by omega)
    · refine ⟨cnt (getBit ws) (64 * (a / 64 + 1)), ?_, ?_⟩
      · simp only
        rw [indexRank64_getElem?, if_pos]
        rcases Nat.lt_or_ge (a / 64 + 1) ws.length with h | h
        · exact Or.inl h
        · exact Or.inr ⟨rfl, by omega⟩
      · have := cnt_succ_le_of_true ha2 (show a < 64 * (a / 64 + 1) by omega); omega
    · exact hle
    · rw [indexRank64_length]; simp; omega
  have hword : ws[a / 64]? = some ws[a / 64] := List.getElem?_eq_getElem hW
  have hbase : (indexRank64 ws true)[a / 64]? = some (cnt (getBit ws) (64 * (a / 64))) := by
    rw [indexRank64_getElem?, if_pos (Or.inl hW)]
  have hwd : ws.getD (a / 64) 0 = ws[a / 64] := by
    rw [List.getD_eq_getElem?_getD, List.getElem?_eq_getElem hW]; rfl
  have hoff : selectInWord ws[a / 64] (i - cnt (getBit ws) (64 * (a / 64))) = some (a % 64) := by
    rw [selectInWord_eq_some]
    refine ⟨by omega, ?_, ?_⟩
    · rw [← hwd]; exact ha2
    · have := cnt_getBit_split ws a
      rw [popcount_mod_two_pow_cnt _ _ (by omega), hwd] at this
      omega
  unfold select32R64
  simp only [hs, hwalk, hword, hbase, hoff, bind, Except.bind, pure, Except.pure]
  have : a / 64 * 64 + a % 64 = a := by omega
  rw [this]

/-- the word-index select table of the old writers -/
theorem select32R64_wordIndex (ws : List Nat) (i a : Nat) (ha : (toArray ws)[i]? = some a) :
    select32R64 (LegacyWrite.wordIndexSelect (mk ws "s32")) i = .ok (a, nextOne ws (a + 1)) := by
  have hlen : i < (toArray ws).length := (List.getElem?_eq_some_iff.mp ha).1
  have hs0 : (toArray ws)[i / 32 * 32]? = some ((toArray ws).getD (i / 32 * 32) 0) := by
    have : i / 32 * 32 < (toArray ws).length := by omega
    rw [List.getD_eq_getElem?_getD, List.getElem?_eq_getElem this]; rfl
  generalize (toArray ws).getD (i / 32 * 32) 0 = s0 at hs0
  have hsel : (indexSelect32 ws)[i / 32]? = some s0 := by
    rw [indexSelect32_getElem?, if_pos (by omega)]
    have : i / 32 * 32 < (toArray ws).length := by omega
    rw [List.getD_eq_getElem?_getD, hs0]; rfl
  have hs0a : s0 ≤ a := by
    have ha' := ha
    rw [toArray_getElem?_eq_some] at hs0 ha'
    obtain ⟨_, hs2, hs3⟩ := hs0
    obtain ⟨_, ha2, ha3⟩ := ha'
    rcases Nat.lt_or_ge a s0 with h | h
    · have := cnt_succ_le_of_true ha2 h; omega
    · exact h
  unfold LegacyWrite.wordIndexSelect
  rw [mk_s32]
  simp only
  apply select32R64_anySelect ws _ i a (s0 / 64) ha
  · rw [List.getElem?_map, hsel]; rfl
  · have : s0 / 64 / 64 ≤ s0 / 64 := Nat.div_le_self _ _
    have : s0 / 64 ≤ a / 64 := Nat.div_le_div_right hs0a
    omega

/-- The position bitmap as 0.5.10 / 0.5.11 wrote it returns the element boundaries (every element
    non-empty). -/
theorem select_positions_old (sizes : List Nat) (hpos : ∀ s ∈ sizes, 0 < s) :
    SelectsBoundaries (LegacyWrite.wordIndexSelect (newBM (Slim.stepToPos sizes) 0 "s32")) sizes := by
  intro k hk
  have hasc := Bits.stepToPos_asc sizes hpos
  have ha : (toArray (ofIdx (Slim.stepToPos sizes) 0))[k]? = some ((sizes.take k).sum) := by
    rw [toArray_ofIdx_of_asc hasc, Bits.stepToPos_getElem?, if_pos (by omega)]
  have hc : (toArray (ofIdx (Slim.stepToPos sizes) 0))[k + 1]? = some ((sizes.take (k + 1)).sum) := by
    rw [toArray_ofIdx_of_asc hasc, Bits.stepToPos_getElem?, if_pos (by omega)]
  unfold newBM
  rw [select32R64_wordIndex _ k _ ha, nextOne_toArray_succ _ k _ _ ha hc]

end Legacy
