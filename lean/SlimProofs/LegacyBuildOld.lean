import SlimModel.LegacyWrite
/-
  SlimProofs.LegacyBuildOld — facts about the old trie `LegacyWrite.buildOld` builds: every label
  bitmap has 16 bits (hypothesis of `C06_bm16`), whatever the keys.
-/
namespace LegacyWrite

theorem nibs_lt (b : Bytes) : ∀ x ∈ nibs b, x < 16 := by
  induction b with
  | nil => simp [nibs]
  | cons a t ih =>
    intro x hx
    simp only [nibs, List.mem_cons] at hx
    have := a.toNat_lt
    rcases hx with rfl | rfl | hx
    · omega
    · omega
    · exact ih x hx

/-- every half-byte list in `kn` has values below 16 -/
def NibsOK (kn : Array (List Nat)) : Prop := ∀ t, ∀ x ∈ kn.getD t [], x < 16

theorem nibsOK_of_keys (keys : List Bytes) : NibsOK (keys.map nibs).toArray := by
  intro t x hx
  rw [Array.getD_eq_getD_getElem?, List.getElem?_toArray, List.getElem?_map] at hx
  cases h : keys[t]? with
  | none => rw [h] at hx; simp at hx
  | some k => rw [h] at hx; exact nibs_lt k x (by simpa using hx)

theorem lab_lt {kn : Array (List Nat)} (h : NibsOK kn) (t c : Nat) : (kn.getD t []).getD c 0 < 16 := by
  rw [List.getD_eq_getElem?_getD]
  cases hh : (kn.getD t [])[c]? with
  | none => simp
  | some v => simp; exact h t v (List.mem_of_getElem? hh)

theorem groupRuns_label (lab : Nat → Nat) (e : Nat) (fuel s : Nat) :
    ∀ r ∈ groupRuns lab e fuel s, ∃ t, r.1 = lab t := by
  induction fuel generalizing s with
  | zero => simp [groupRuns]
  | succ fuel ih =>
    intro r hr
    unfold groupRuns at hr
    split at hr
    · rcases List.mem_cons.mp hr with rfl | hr
      · exact ⟨s, rfl⟩
      · exact ih _ r hr
    · simp at hr

theorem foldl_or_lt (runs : List (Nat × Nat × Nat)) (acc : Nat) (hacc : acc < 2 ^ 16)
    (h : ∀ r ∈ runs, r.1 < 16) :
    runs.foldl (fun a r => a ||| (1 <<< r.1)) acc < 2 ^ 16 := by
  induction runs generalizing acc with
  | nil => exact hacc
  | cons r rs ih =>
    rw [List.foldl_cons]
    apply ih
    · apply Nat.or_lt_two_pow hacc
      rw [Nat.one_shiftLeft]
      exact Nat.pow_lt_pow_right (by omega) (h r List.mem_cons_self)
    · intro x hx; exact h x (List.mem_cons_of_mem _ hx)

theorem oldStep_bm_lt {kn : Array (List Nat)} (h : NibsOK kn) (ls : Bool) (qsize : Nat) (q : Sub) :
    (oldStep kn ls qsize q).1.bm < 65536 := by
  unfold oldStep
  split
  · show (0 : Nat) < 65536
    omega
  · simp only
    apply foldl_or_lt _ 0 (by omega)
    intro r hr
    obtain ⟨t, ht⟩ := groupRuns_label _ _ _ _ r hr
    rw [ht]
    exact lab_lt h t _

theorem oldLoop_bm_lt {kn : Array (List Nat)} (h : NibsOK kn) (ls : Bool) (fuel i : Nat)
    (queue : Array Sub) (nodes res : Array OldNode)
    (hn : ∀ n ∈ nodes.toList, n.bm < 65536)
    (hr : oldLoop kn ls fuel i queue nodes = .ok res) :
    ∀ n ∈ res.toList, n.bm < 65536 := by
  induction fuel generalizing i queue nodes with
  | zero =>
    unfold oldLoop at hr
    split at hr
    · cases hr
    · cases hr; exact hn
  | succ fuel ih =>
    unfold oldLoop at hr
    split at hr
    · next hlt =>
      simp only at hr
      apply ih _ _ _ _ hr
      intro n hn'
      rw [Array.toList_push, List.mem_append, List.mem_singleton] at hn'
      rcases hn' with hn' | rfl
      · exact hn n hn'
      · exact oldStep_bm_lt h ls _ _
    · cases hr; exact hn

/-- every label bitmap of the old trie has 16 bits -/
theorem buildOld_bm_lt (keys : List Bytes) (ls : Bool) (nodes : Array OldNode)
    (h : buildOld keys ls = .ok nodes) : ∀ n ∈ nodes.toList, n.bm < 65536 := by
  unfold buildOld at h
  simp only at h
  split at h
  · cases h; simp
  · exact oldLoop_bm_lt (nibsOK_of_keys keys) ls _ _ _ _ _ (by simp) h

end LegacyWrite
