import SlimProofs.LegacyConvertMain
import SlimProofs.LegacyConvertEnc
import SlimProofs.InstanceLemmas
import SlimProofs.SizeFields
/-
  SlimProofs.UpgradeConvert — one more fact about the loader's conversion of a three-section
  stream (`Legacy.convert`), needed to bound the counters of the message it builds:

  * `labels_ge_two`     an old inner node (a range of ≥ 2 sorted keys, branching at the common
                        prefix length of its first and last key) has at least two labels: either
                        its first key ends there (end-of-key label + ≥ 1 run) or first and last key
                        differ there (≥ 2 runs);
  * `loop_twoLab`       the conversion loop only ever pushes inner records with ≥ 2 labels
                        (same case analysis as `loop_spec`, one more invariant);
  * `convert_twoLab`    every inner record of the converted trie has ≥ 2 labels;
  * `convert_counts`    hence, with `ShapeOK` of the repaired records (`convert_wf`): the
                        converted trie of `n` keys has `n` leaves, at most `n − 1` inner nodes, at
                        most `2n − 1` nodes, and its label bitmap is at most `17 (n − 1)` bits wide.
-/

namespace LegacyConvert
open LegacyWrite Legacy

/-- every inner record has at least two labels -/
def TwoLab (nodes : Array Node) : Prop :=
  ∀ (j : Nat) (r : InnerRec), nodes[j]? = some (.inner r) → 2 ≤ r.labels.length

theorem twoLab_empty : TwoLab #[] := by
  intro j r h; simp at h

theorem twoLab_push_leaf {nodes : Array Node} (h : TwoLab nodes) (ith : Nat) (lp : Option Bytes) :
    TwoLab (nodes.push (.leaf ith lp)) := by
  intro j r hj
  rw [Array.getElem?_push] at hj
  split at hj
  · cases hj
  · exact h j r hj

theorem twoLab_push_inner {nodes : Array Node} (h : TwoLab nodes) (r0 : InnerRec)
    (h0 : 2 ≤ r0.labels.length) : TwoLab (nodes.push (.inner r0)) := by
  intro j r hj
  rw [Array.getElem?_push] at hj
  split at hj
  · simp only [Option.some.injEq, Node.inner.injEq] at hj
    subst hj; exact h0
  · exact h j r hj

/-- an old inner node has at least two labels -/
theorem labels_ge_two {keys : List Bytes} {kn : Array (List Nat)}
    (hkn : ∀ t, kn.getD t [] = knOf keys t) (hasc : strictAsc keys = true) {q : Sub}
    (hg : SubGood keys q) (h2 : q.s + 2 ≤ q.e) :
    2 ≤ (newLabelsOf (endsAt kn q) (runsOf kn q)).length := by
  have hle := hg.le
  unfold newLabelsOf runsOf
  simp only [List.length_append, List.length_map]
  cases he : endsAt kn q with
  | true =>
    have hrs : restStart kn q = q.s + 1 := by unfold restStart; rw [he]; rfl
    rw [hrs]
    obtain ⟨_, _, h1, _⟩ := groupRuns_spec (nibAt kn (brPos kn q)) q.e (q.e - (q.s + 1)) (q.s + 1)
      (by omega) (Nat.le_refl _)
    have := h1 (by omega)
    simp only [if_true, List.length_singleton]
    omega
  | false =>
    have hrs : restStart kn q = q.s := by unfold restStart; rw [he]; rfl
    rw [hrs]
    obtain ⟨_, _, _, h2'⟩ := groupRuns_spec (nibAt kn (brPos kn q)) q.e (q.e - q.s) q.s
      (by omega) (Nat.le_refl _)
    have hne : (kn.getD q.s []).length ≠ lcp (kn.getD q.s []) (kn.getD (q.e - 1) []) := by
      unfold endsAt brPos at he
      simpa using he
    have hlt : lexCmp (kn.getD q.s []) (kn.getD (q.e - 1) []) = .lt := by
      rw [hkn, hkn]
      exact knOf_lt hasc (by omega) (by omega)
    have hdiff := first_last_differ _ _ hlt hne
    have := h2' ⟨q.e - 1, by omega, by omega, fun h => hdiff h.symm⟩
    simp only [Bool.false_eq_true, if_false, List.length_nil]
    omega

/-- the conversion loop keeps `TwoLab` -/
theorem loop_twoLab {X : Ctx} (H : X.OK) :
    ∀ fuel newid c lk c', CInv X newid c lk → TwoLab c.nodes →
      convert.loop X.ch X.steps X.lvs (some X.w) fuel newid c = .ok c' → TwoLab c'.nodes := by
  intro fuel
  induction fuel with
  | zero =>
    intro newid c lk c' _ htl hloop
    rw [convert.loop] at hloop
    split at hloop
    · cases hloop
    · cases hloop; exact htl
  | succ fuel ih =>
    intro newid c lk c' hinv htl hloop
    by_cases hlt : newid < c.queue.size
    · have hq : c.queue[newid]? = some c.queue[newid] := Array.getElem?_eq_getElem hlt
      generalize c.queue[newid] = q at hq
      have helt := hinv.elts newid q hq
      obtain ⟨qo, _, hgd, hg, hn, hnode, _, _⟩ := old_at H q.oldid helt.lt
      have hglt := hg.lt
      by_cases hleaf : q.leafOnly = true ∨ qo.e - qo.s = 1
      · -- a leaf
        have hkey : X.nodes[q.oldid].leaf = some qo.s := by
          rw [hnode]
          rcases hleaf with h | h
          · have h2 := helt.lo h
            rw [hgd] at h2
            rw [(nodeOf_branch _ _ _ _ (by omega)).2.2, h2.2]; rfl
          · exact (nodeOf_single _ _ _ _ h).2
        have hty : q.leafOnly = true ∨ X.nodes[q.oldid].inner = false := by
          rcases hleaf with h | h
          · exact Or.inl h
          · right; rw [hnode]; exact (nodeOf_single _ _ _ _ h).1
        rw [loop_leaf H.R fuel newid c q hq hn qo.s hkey hty] at hloop
        have hinv' := cinv_leaf H hinv q hq (by rw [hgd]; exact hleaf)
        rw [hgd] at hinv'
        exact ih _ _ _ _ hinv' (twoLab_push_leaf htl _ _) hloop
      · -- an inner node
        have hlo : q.leafOnly = false := by
          cases h : q.leafOnly with
          | false => rfl
          | true => exact absurd (Or.inl h) hleaf
        have h2 : qo.s + 2 ≤ qo.e := by
          have : ¬ qo.e - qo.s = 1 := fun h => hleaf (Or.inr h)
          omega
        have hinv' := cinv_inner H hinv q hq hlo (by rw [hgd]; exact h2)
        obtain ⟨B, Rf, _, _, _⟩ := old_inner H q.oldid helt.lt (by rw [hgd]; exact h2)
        rw [hgd] at B Rf
        have hbr := nodeOf_branch X.kn X.ls (fcOf X.kn X.oq q.oldid) qo (by omega)
        have hlt16 : ∀ x ∈ runsOf X.kn qo, x.1 < 16 := by
          intro x hx
          obtain ⟨hr, hx1⟩ := Rf.run x hx
          have hl := B.longer x.2.1 hr.ge (by have := hr.lt; have := hr.le; omega)
          rw [hx1, nibAt_eq H.hkn _ _ hl]
          exact BuildInv.knOf_lt16 X.keys _ _ (List.getElem_mem hl)
        have hkids : c.nextOldID + (runsOf X.kn qo).length ≤ X.nodes.size := by
          have := hinv'.nle
          rw [H.O.size]
          rw [hgd] at this
          exact this
        have hstep := loop_inner H.R fuel newid c q hq hn hlo (by rw [hnode]; exact hbr.1)
          (endsAt X.kn qo) (runsOf X.kn qo) (by rw [hnode]; exact hbr.2.1)
          (by rw [hnode, hbr.2.2]; cases endsAt X.kn qo <;> rfl) Rf.asc hlt16 hkids
        rw [hstep] at hloop
        have hsame : innerUpd c
            ((if endsAt X.kn qo = true
                then [({ oldid := q.oldid, step := 0, leafOnly := true } : QElt)] else []) ++
              kidElts X.nodes c.nextOldID (runsOf X.kn qo).length)
            (runsOf X.kn qo).length
            { big := false, labels := newLabelsOf (endsAt X.kn qo) (runsOf X.kn qo), firstChild := 0,
              pref := if q.step = 0 then Pref.none else Pref.step q.step }
            = innerUpd c (newKids X q c.nextOldID)
                (runsOf X.kn (X.oq.getD q.oldid default)).length (newRec X q) := by
          unfold newKids newRec
          rw [hgd]
        rw [hsame] at hloop
        refine ih _ _ _ _ hinv' ?_ hloop
        show TwoLab (c.nodes.push (.inner (newRec X q)))
        apply twoLab_push_inner htl
        show 2 ≤ (newLabelsOf (endsAt X.kn (X.oq.getD q.oldid default))
          (runsOf X.kn (X.oq.getD q.oldid default))).length
        rw [hgd]
        exact labels_ge_two H.hkn H.hasc hg h2
    · rw [convert.loop, dif_neg hlt] at hloop
      cases hloop; exact htl

end LegacyConvert

open LegacyConvert LegacyWrite Legacy in
/-- every inner record of the converted trie of a three-section stream has at least two labels -/
theorem convert_twoLab (vr : Variant) (keys vals : List Bytes) (w : Nat) (ch st lv : Array32Msg)
    (hne : keys ≠ []) (hasc : strictAsc keys = true) (hlen : vals.length = keys.length)
    (hw : ∀ v ∈ vals, v.length = w) (hkl : ∀ k ∈ keys, 2 * k.length < 65535)
    (hsec : sections3 vr keys vals = .ok (ch, st, lv))
    (t' : Trie1) (hconv : convert ch st lv (some w) = .ok t') : TwoLab t'.nodes := by
  have hb : ∃ nodes, buildOld keys vr.leafSteps = .ok nodes := by
    unfold sections3 at hsec
    cases hb : buildOld keys vr.leafSteps with
    | error e => rw [hb] at hsec; cases hsec
    | ok nodes => exact ⟨nodes, rfl⟩
  obtain ⟨nodes, hb⟩ := hb
  obtain ⟨oq, O⟩ := buildOld_spec keys vr.leafSteps nodes hne hasc hb
  have hlim := stepLim_of_keys (kn_getD keys) O hkl
  let X : Ctx := ⟨keys, (keys.map nibs).toArray, vr.leafSteps, nodes, oq, vals, w, ch, st, lv⟩
  have H : X.OK := ⟨kn_getD keys, hasc, O,
    reads_of_sections vr keys vals w ch st lv nodes hb hsec hlen hw hlim, hlim⟩
  have h0 : 0 < oq.size := (Array.getElem?_eq_some_iff.mp O.root).1
  have hn0 : 0 < nodes.size := by rw [O.size]; exact h0
  have hstep0 : getStep st 0 = .ok ((nodes.getD 0 default).step - 1) := by
    have : nodes.getD 0 default = nodes[0] := by
      rw [Array.getD_eq_getD_getElem?, Array.getElem?_eq_getElem hn0]; rfl
    rw [this]; exact H.R.step 0 hn0
  have hN : oq.size ≤ 64 * (ch.bitmaps.length + lv.bitmaps.length) := by
    obtain ⟨q, _, _, hg, hn, hnode, _, _⟩ := old_at H (oq.size - 1) (by show oq.size - 1 < oq.size; omega)
    have hlast : oq.size - 1 < 64 * ch.bitmaps.length ∨ oq.size - 1 < 64 * lv.bitmaps.length := by
      by_cases h1 : q.e - q.s = 1
      · right
        apply bmhas_lt
        rw [H.R.leaf]
        have := (nodeOf_single X.kn X.ls (fcOf X.kn X.oq (oq.size - 1)) q h1).2
        have hl : X.nodes[oq.size - 1].leaf.isSome = true := by rw [hnode, this]; rfl
        simp only [decide_eq_true_eq]
        exact ⟨hn, hl⟩
      · left
        apply bmhas_lt
        rw [H.R.inner]
        have := (nodeOf_branch X.kn X.ls (fcOf X.kn X.oq (oq.size - 1)) q h1).1
        have hl : X.nodes[oq.size - 1].inner = true := by rw [hnode, this]
        simp only [decide_eq_true_eq]
        exact ⟨hn, hl⟩
    omega
  obtain ⟨c, lk, hloop, _⟩ := loop_spec H
    (2 * 64 * (ch.bitmaps.length + lv.bitmaps.length) + 4) 0 _ #[] (cinv_init H)
    (by show 2 * oq.size < _; omega)
  have heq := convert_eq ch st lv w _ c hstep0 hloop
  rw [hconv] at heq
  cases heq
  exact loop_twoLab H _ 0 _ #[] c (cinv_init H) twoLab_empty hloop

/-! ### the counters of the converted message -/

namespace Refine
open Slim Bits SizeFields

theorem inners_twoLab {t : Trie1} (htl : LegacyConvert.TwoLab t.nodes) :
    ∀ r ∈ eInners t, 2 ≤ r.labels.length := by
  intro r hr
  obtain ⟨m, hm⟩ := List.mem_iff_getElem?.mp hr
  obtain ⟨j, hj, _⟩ := inner_at t m r hm
  exact htl j r hj

theorem inners_noBig {t : Trie1} (hs : ShapeOK t) (hbc : t.bigCnt = 0) :
    ∀ r ∈ eInners t, r.big = false := by
  intro r hr
  obtain ⟨m, hm⟩ := List.mem_iff_getElem?.mp hr
  obtain ⟨j, hj, _⟩ := inner_at t m r hm
  have := hs.bigPrefix j r hj
  rw [hbc] at this
  cases hb : r.big with
  | false => rfl
  | true => have := this.mp hb; omega

/-- a trie whose inner records all have ≥ 2 labels and none of which is big: `n` leaves give at most
    `n − 1` inner nodes, `2n − 1` nodes, and a label bitmap of at most `17` bits per inner node -/
theorem counts_of_twoLab {t : Trie1} (hs : ShapeOK t) (htl : LegacyConvert.TwoLab t.nodes)
    (hbc : t.bigCnt = 0) :
    (eInners t).length + 1 ≤ t.leafKeyIdx.size ∧ t.nodes.size + 1 ≤ 2 * t.leafKeyIdx.size ∧
    labelBits t ≤ 17 * (eInners t).length := by
  have hnb := inners_noBig hs hbc
  have hTwo := inners_twoLab htl
  have hBig : ∀ r ∈ eInners t, r.big = true → 11 ≤ r.labels.length := by
    intro r hr hb; rw [hnb r hr] at hb; cases hb
  have h0 : bigCount t = 0 := by
    unfold bigCount
    rw [List.countP_eq_zero]
    intro r hr; rw [hnb r hr]; simp
  have hN := nodes_eq_labels hs
  have hNL := nodes_eq_leaves_inners t
  have hΛ := labelSum_ge t hTwo hBig
  have hB := sizes_sum_le hs
  have hL := hs.leafCnt
  rw [h0] at hΛ hB
  unfold labelBits
  generalize (eSizes t).sum = B at hB ⊢
  generalize labelSum t = Λ at hN hΛ
  generalize (eInners t).length = I at *
  generalize t.nodes.size = N at *
  generalize leavesBefore t.nodes N = L at *
  generalize t.leafKeyIdx.size = K at *
  omega

/-- `encodeCreator_WF` for a trie without stored inner prefixes and without leaf prefixes, from the
    bounds it really needs, the leaf array handled separately -/
theorem encodeCreator_WF_plain {t : Trie1} (hs : ShapeOK t) (hin : t.opt.inner = false)
    (hlf : t.opt.leaf = false) (hbig : t.bigCnt < 2 ^ 31) (hn : t.nodes.size + 63 < 2 ^ 31)
    (hlb : labelBits t + 63 < 2 ^ 31)
    (hlv : ∀ v, (encodeCreator t).leaves = some v → v.WF) : (encodeCreator t).WF := by
  have hi := eInners_length_le t
  refine ⟨?_, ?_, ?_, ?_, ?_, ?_, ?_, ?_, hlv⟩
  · rw [enc_bigInnerCnt]; exact hbig
  · rw [enc_shortSize]; have := eShortSize_le t; omega
  · rw [enc_shortTable]; intro x hx; have := eTbl_lt hs x hx; omega
  · intro b hb
    rw [enc_nodeTypeBM] at hb
    split at hb
    · cases hb
    · simp only [Option.some.injEq] at hb; subst hb
      exact newBM_WF _ _ t.nodes.size "r64" (by simp) (filter_range_lt _ _) (by omega)
  · intro b hb
    rw [enc_inners] at hb
    simp only [Option.some.injEq] at hb; subst hb
    unfold eInnersBM
    apply mk_WF _ _ (by simp) (ofMany_lt _ _)
    rw [ofMany_length (eSub_ok hs)]
    unfold labelBits at hlb
    omega
  · intro b hb
    rw [enc_shortBM] at hb
    simp only [Option.some.injEq] at hb; subst hb
    exact newBM_WF _ _ (eInners t).length "r64" (by simp) (filter_range_lt _ _) (by omega)
  · intro v hv
    rw [enc_innerPrefixes] at hv
    simp only [Option.some.injEq] at hv; subst hv
    have hp : (ePrefIdx t).length ≤ (eInners t).length := by
      unfold ePrefIdx
      refine Nat.le_trans (List.length_filter_le _ _) ?_
      simp
    have hpres : (newBM (ePrefIdx t) (eInners t).length "r128").WF :=
      newBM_WF _ _ (eInners t).length "r128" (by simp) (filter_range_lt _ _) (by omega)
    unfold eIps
    rw [if_neg (by rw [hin]; simp)]
    refine ⟨by simp, by simp; omega, by simp, ?_, ?_⟩
    · intro b hb; simp at hb
    · intro b hb
      simp only [Option.some.injEq] at hb; subst hb
      exact hpres
  · intro v hv
    rw [enc_leafPrefixes] at hv
    unfold eLps at hv
    rw [if_neg (by rw [hlf]; simp)] at hv
    cases hv

theorem allEqual_of_const (l : List Nat) (w : Nat) (h : ∀ x ∈ l, x = w) : Slim.allEqual l = true := by
  cases l with
  | nil => rfl
  | cons z zs =>
    show zs.all (· == z) = true
    rw [List.all_eq_true]
    intro x hx
    rw [h x (List.mem_cons_of_mem _ hx), h z List.mem_cons_self]
    simp

/-- the leaf array of values that all have width `w` (or are empty): `FixedSize = w` is the only
    counter besides the element count -/
theorem newVLenArray_WF_fixed (es : List Bytes) (w : Nat) (h1 : es.length + 63 < 2 ^ 31)
    (hw : w < 2 ^ 31) (hall : ∀ v ∈ es, v.length = w ∨ v.length = 0) :
    ∀ v, newVLenArray es = some v → v.WF := by
  intro v hv
  have hsz : ∀ x ∈ (es.map List.length).filter (· > 0), x = w := by
    intro x hx
    obtain ⟨hx1, hx2⟩ := List.mem_filter.mp hx
    obtain ⟨b, hb, rfl⟩ := List.mem_map.mp hx1
    rcases hall b hb with h | h
    · exact h
    · simp [h] at hx2
  have hcnt : (nonEmptyIdx es).length ≤ es.length := by
    unfold nonEmptyIdx
    have := List.length_filter_le (fun i => decide (((es.map List.length).getD i 0) > 0)) (List.range es.length)
    simpa using this
  have hpres : (newBM (nonEmptyIdx es) es.length "r64").WF := by
    unfold nonEmptyIdx
    exact newBM_WF _ _ es.length "r64" (by simp) (filter_range_lt _ _) (by omega)
  have hfixed : ((es.map List.length).filter (· > 0)).getLast?.getD 0 < 2 ^ 31 := by
    cases hg : ((es.map List.length).filter (· > 0)).getLast? with
    | none => simp
    | some x =>
      have := hsz x (List.mem_of_getLast? hg)
      simp; omega
  rw [newVLenArray_eq, allEqual_of_const _ w hsz] at hv
  split at hv
  · cases hv
  · simp only [if_true, Option.some.injEq] at hv
    subst hv
    refine ⟨by simp; omega, Nat.lt_of_le_of_lt hcnt (by omega), by simpa using hfixed, ?_, ?_⟩
    · intro b hb; simp at hb
    · intro b hb
      simp only [Option.some.injEq] at hb; subst hb
      exact hpres

end Refine

open LegacyConvert LegacyWrite Legacy Refine in
/-- everything the size and well-formedness arguments need about the converted trie `t'` of a
    three-section stream: the repaired records `fixup lk t'` are `ShapeOK`, every inner record has
    ≥ 2 labels, no big node, default options, one leaf per key, and the leaf values have width `w`
    (or are empty). -/
theorem convert_facts (vr : Variant) (keys vals : List Bytes) (w : Nat) (ch st lv : Array32Msg)
    (hne : keys ≠ []) (hasc : strictAsc keys = true) (hlen : vals.length = keys.length)
    (hw : ∀ v ∈ vals, v.length = w) (hkl : ∀ k ∈ keys, 2 * k.length < 65535)
    (hsec : sections3 vr keys vals = .ok (ch, st, lv))
    (t' : Trie1) (hconv : convert ch st lv (some w) = .ok t') :
    ∃ lk es, ShapeOK (fixup lk t') ∧ TwoLab (fixup lk t').nodes ∧ (fixup lk t').bigCnt = 0 ∧
      (fixup lk t').opt = {} ∧ (fixup lk t').leafKeyIdx.size = keys.length ∧
      (fixup lk t').elts = some es ∧ es.length = keys.length ∧
      (∀ b ∈ es, b.length = w ∨ b.length = 0) ∧
      Slim.encodeCreator (fixup lk t') = Slim.encodeCreator t' ∧
      (fixup lk t').nodes.size = t'.nodes.size := by
  obtain ⟨t'', lk, hconv', hopt, hbc, helts, hcnt, _, hs⟩ :=
    convert_wf vr keys vals w ch st lv hne hasc hlen hw hkl hsec
  rw [hconv] at hconv'
  cases hconv'
  have htl0 := convert_twoLab vr keys vals w ch st lv hne hasc hlen hw hkl hsec t' hconv
  have htl : TwoLab (fixup lk t').nodes := by
    intro j r hj
    obtain ⟨nd0, h0, hnd⟩ := fix_inv t'.nodes j _ hj
    cases nd0 with
    | leaf ith lp => cases hnd
    | inner r0 =>
      have : r = { r0 with firstChild := bfsFC t'.nodes j } := by simpa [fixNode] using hnd
      rw [this]
      exact htl0 j r0 h0
  refine ⟨lk, lk.toList.map (fun k => vals.getD k []), hs, htl, hbc, hopt, hcnt, helts, ?_, ?_,
    encodeCreator_fixup lk t', fixNodes_size t'.nodes⟩
  · rw [List.length_map, Array.length_toList, hcnt]
  · intro b hb
    obtain ⟨k, _, rfl⟩ := List.mem_map.mp hb
    rw [List.getD_eq_getElem?_getD]
    cases hg : vals[k]? with
    | none => right; rfl
    | some x => left; exact hw x (List.mem_of_getElem? hg)

open LegacyConvert LegacyWrite Legacy Refine in
/-- **The message the loader builds from a three-section stream is a well-formed, normal-form
    message of the current schema** — for every variant, every non-empty strictly ascending key
    list within the layout's limits (`hkl`, `hcount`: those of `C06_load_legacy_3section`) and values
    of one width `w < 2^31` (`VLenArray.FixedSize` is an int32).  The converted trie of `n` keys has
    at most `2n − 1` nodes and a label bitmap of at most `17 (n − 1)` bits. -/
theorem convert_msg_WF (vr : Variant) (keys vals : List Bytes) (w : Nat) (ch st lv : Array32Msg)
    (hne : keys ≠ []) (hasc : strictAsc keys = true) (hlen : vals.length = keys.length)
    (hw : ∀ v ∈ vals, v.length = w) (hkl : ∀ k ∈ keys, 2 * k.length < 65535)
    (hcount : 32 * keys.length + 143 < 2 ^ 31) (hw31 : w < 2 ^ 31)
    (hsec : sections3 vr keys vals = .ok (ch, st, lv))
    (t' : Trie1) (hconv : convert ch st lv (some w) = .ok t') :
    (Slim.encodeCreator t').WF ∧ (Slim.encodeCreator t').NF ∧ t'.nodes.size + 1 ≤ 2 * keys.length := by
  obtain ⟨lk, es, hs, htl, hbc, hopt, hk, he, hel, hall, henc, hsz⟩ :=
    convert_facts vr keys vals w ch st lv hne hasc hlen hw hkl hsec t' hconv
  obtain ⟨c1, c2, c3⟩ := counts_of_twoLab hs htl hbc
  rw [hk] at c1 c2
  have hwf : (Slim.encodeCreator (fixup lk t')).WF := by
    apply encodeCreator_WF_plain hs
    · rw [hopt]
    · rw [hopt]
    · rw [hbc]; omega
    · omega
    · omega
    · intro v hv
      rw [SizePrefixEnc.enc_leaves, he] at hv
      simp only at hv
      exact newVLenArray_WF_fixed es w (by omega) hw31 hall v hv
  rw [henc] at hwf
  refine ⟨hwf, ?_, by omega⟩
  unfold SlimMsg.NF
  rw [encodeCreator_unrecognized, Wire.unknownOnly]

#print axioms LegacyConvert.labels_ge_two
#print axioms convert_twoLab
#print axioms convert_facts
#print axioms convert_msg_WF
