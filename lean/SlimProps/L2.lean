import SlimProofs.Refine
import SlimProofs.VLen
import SlimProofs.LookupTotal
import SlimProofs.IndexExact
import SlimProps.L2Transport
import SlimProps.C02
import SlimProps.C03
import SlimProps.C13
/-
  SlimProps.L2 — the property theorems at the bit level, closed: the only hypothesis is
  `build keys vals opt = .ok t` (plus the property's own hypotheses); the statements are about
  `L2view t = Slim.view (Slim.encode t)`, the view that decodes the `Slim` message which
  `creator.build` produces (`getNode`, rank/select on the bitmaps, the short-node table, the
  `VLenArray`s).

  * `encodeFacts_of_build`, `encodeFacts_built`, `viewSim_built`
        the bit-level facts (`getNode_encode`, `leafBytes_encode`, `view_encode_nodeCnt`) packaged
        as `Transport.EncodeFacts` / `Transport.ViewSim`
  * `L2_getID_eq L2_get_eq L2_searchID_eq L2_rangeGet_eq L2_search_eq`
        on a built trie every lookup at L2 returns exactly what it returns at L1, for EVERY
        query (L1 totality `SlimProofs.LookupTotal` + transport `SlimProofs.Transport`)
  * C01 `C01_get_retained_L2`, `C01_get_retained_bytes_L2`
  * C02 `C02_rangeget_indexed_L2`, `C02_search_dropped_L2`
  * C03 `C03_search_L2`, `C03_get_L2`, `C03_getID_L2`, `C03_rangeget_L2`
  * C09 `C09_search_retained_L2`, `C09_search_retained_R_L2`
  * C10 `C10_total_L2`, `C10_searchID_eq_getID_L2`, `C10_search_eq_get_L2`,
        `C10_rangeGet_extends_get_L2'`, `C10_hit_supplied_L2`
  * C13 `C13_monotone_L2`, `C13_monotone_get_L2`, `C13_retained_same_L2`
  (C12, C14, C19 at L2: `SlimProps/L2b.lean`.)
-/

open Transport

/-! ### Task 1: the encoding facts for every built trie -/

/-- every trie built from a non-empty key list satisfies the bit-level facts -/
theorem encodeFacts_of_build (keys : List Bytes) (vals : Option (List Bytes)) (opt : Opt)
    (t : Trie1) (hb : build keys vals opt = .ok t) (hne : keys ≠ []) : EncodeFacts t := by
  have hs := build_shape keys vals opt t hb hne
  have hn : t.nodes.size ≠ 0 := by have := hs.nonempty; omega
  exact
    { node := fun id hid => getNode_encode t hs id hid
      leaf := fun ith r h => by rw [Slim.leafBytes_encode t hn ith]; exact h
      cnt := view_encode_nodeCnt t hs }

/-- … and so does the empty trie: every trie `build` returns -/
theorem encodeFacts_built (keys : List Bytes) (vals : Option (List Bytes)) (opt : Opt)
    (t : Trie1) (hb : build keys vals opt = .ok t) : EncodeFacts t := by
  by_cases hne : keys = []
  · subst hne
    rw [LookupTotal.empty_of_build vals opt t hb]
    exact L2Transport.Ex.encodeFacts_empty opt
  · exact encodeFacts_of_build keys vals opt t hb hne

/-- the bit-level view of a built trie simulates its record-level view -/
theorem viewSim_built (keys : List Bytes) (vals : Option (List Bytes)) (opt : Opt)
    (t : Trie1) (hb : build keys vals opt = .ok t) :
    ViewSim t.view (L2view t) t.nodes.size :=
  viewSim_encode t (encodeFacts_built keys vals opt t hb)

/-! ### every lookup returns the same at L2 as at L1 -/

section eqs
variable (keys : List Bytes) (vals : Option (List Bytes)) (opt : Opt) (t : Trie1)
  (hb : build keys vals opt = .ok t)
include hb

theorem L2_getID_eq (q : Bytes) : getID (L2view t) q = getID t.view q := by
  obtain ⟨a, ha, _⟩ := getID_total keys vals opt t hb q
  rw [ha]; exact L2_getID_of t (encodeFacts_built keys vals opt t hb) q a ha

theorem L2_get_eq (q : Bytes) : get (L2view t) q = get t.view q := by
  obtain ⟨a, ha⟩ := get_total keys vals opt t hb q
  rw [ha]; exact L2_get_of t (encodeFacts_built keys vals opt t hb) q a ha

theorem L2_searchID_eq (q : Bytes) : searchID (L2view t) q = searchID t.view q := by
  obtain ⟨a, ha, _⟩ := searchID_total keys vals opt t hb q
  rw [ha]; exact L2_searchID_of t (encodeFacts_built keys vals opt t hb) q a ha

theorem L2_rangeGet_eq (q : Bytes) : rangeGet (L2view t) q = rangeGet t.view q := by
  obtain ⟨a, ha⟩ := rangeGet_total keys vals opt t hb q
  rw [ha]; exact L2_rangeGet_of t (encodeFacts_built keys vals opt t hb) q a ha

theorem L2_search_eq (q : Bytes) : search (L2view t) q = search t.view q := by
  obtain ⟨a, ha⟩ := search_total keys vals opt t hb q
  rw [ha]; exact L2_search_of t (encodeFacts_built keys vals opt t hb) q a ha

end eqs

/-! ### C01 -/

/-- **C01 at L2**: in the encoded trie every retained key is found, with its own value. -/
theorem C01_get_retained_L2 (keys : List Bytes) (vals : Option (List Bytes)) (opt : Opt)
    (t : Trie1) (hb : build keys vals opt = .ok t) (i : Nat) (hi : i < keys.length)
    (hk : keptAt (keepMask keys.length vals opt.dedup) i = true) :
    (∃ id, getID (L2view t) (keys.getD i []) = .ok (some id)) ∧
    get (L2view t) (keys.getD i []) = .ok (some (expectedValue vals t i)) :=
  C01_get_retained_L2_of keys vals opt t hb (encodeFacts_built keys vals opt t hb) i hi hk

theorem C01_get_retained_bytes_L2 (keys : List Bytes) (vals : Option (List Bytes)) (opt : Opt)
    (t : Trie1) (hb : build keys vals opt = .ok t) (i : Nat) (hi : i < keys.length)
    (hk : keptAt (keepMask keys.length vals opt.dedup) i = true) :
    ∃ r, get (L2view t) (keys.getD i []) = .ok (some r) ∧
      (vals = none → r = none) ∧ (∀ vs, vals = some vs → r.getD [] = vs.getD i []) :=
  C01_get_retained_bytes_L2_of keys vals opt t hb (encodeFacts_built keys vals opt t hb) i hi hk

/-! ### C02 -/

theorem C02_rangeget_indexed_L2 (keys : List Bytes) (vals : Option (List Bytes)) (opt : Opt)
    (t : Trie1) (hb : build keys vals opt = .ok t) (hne : keys ≠ [])
    (i : Nat) (hi : i < keys.length) :
    rangeGet (L2view t) (keys.getD i []) =
      .ok (some (recVal (keepMask keys.length vals opt.dedup) vals i)) := by
  rw [L2_rangeGet_eq keys vals opt t hb]
  exact C02_rangeget_indexed keys vals opt t hb hne i hi

theorem C02_search_dropped_L2 (keys : List Bytes) (vals : Option (List Bytes)) (opt : Opt)
    (t : Trie1) (hb : build keys vals opt = .ok t) (hne : keys ≠ [])
    (d : Nat) (hd : d < keys.length)
    (hk : keptAt (keepMask keys.length vals opt.dedup) d = false) :
    search (L2view t) (keys.getD d []) =
      .ok (valOf (keepMask keys.length vals opt.dedup) vals
             (prevKept (keepMask keys.length vals opt.dedup) d),
           none,
           valOf (keepMask keys.length vals opt.dedup) vals
             (nextKept (keepMask keys.length vals opt.dedup) d)) := by
  rw [L2_search_eq keys vals opt t hb]
  exact C02_search_dropped keys vals opt t hb hne d hd hk

/-! ### C03 (Complete mode is exact) -/

theorem C03_search_L2 (keys : List Bytes) (vals : Option (List Bytes)) (opt : Opt) (t : Trie1)
    (hb : build keys vals opt = .ok t) (hc : opt.complete = true) (q : Bytes) :
    search (L2view t) q =
      .ok (shownVal (retained keys vals opt.dedup) (Spec.lt (retained keys vals opt.dedup) q),
           shownVal (retained keys vals opt.dedup) (Spec.get (retained keys vals opt.dedup) q),
           shownVal (retained keys vals opt.dedup) (Spec.gt (retained keys vals opt.dedup) q)) := by
  rw [L2_search_eq keys vals opt t hb]; exact C03_search keys vals opt t hb hc q

theorem C03_getID_L2 (keys : List Bytes) (vals : Option (List Bytes)) (opt : Opt) (t : Trie1)
    (hb : build keys vals opt = .ok t) (hc : opt.complete = true) (q : Bytes) :
    ∃ e, getID (L2view t) q = .ok e ∧
      e.isSome = (Spec.get (retained keys vals opt.dedup) q).isSome := by
  rw [L2_getID_eq keys vals opt t hb]; exact C03_getID keys vals opt t hb hc q

theorem C03_get_L2 (keys : List Bytes) (vals : Option (List Bytes)) (opt : Opt) (t : Trie1)
    (hb : build keys vals opt = .ok t) (hc : opt.complete = true) (q : Bytes) :
    get (L2view t) q =
      .ok (shownVal (retained keys vals opt.dedup) (Spec.get (retained keys vals opt.dedup) q)) := by
  rw [L2_get_eq keys vals opt t hb]; exact C03_get keys vals opt t hb hc q

theorem C03_rangeget_L2 (keys : List Bytes) (vals : Option (List Bytes)) (opt : Opt) (t : Trie1)
    (hb : build keys vals opt = .ok t) (hc : opt.complete = true) (q : Bytes) :
    rangeGet (L2view t) q =
      .ok (shownVal (retained keys vals opt.dedup) (Spec.le (retained keys vals opt.dedup) q)) := by
  rw [L2_rangeGet_eq keys vals opt t hb]; exact C03_rangeget keys vals opt t hb hc q

/-! ### C09 -/

theorem C09_search_retained_L2 (keys : List Bytes) (vals : Option (List Bytes)) (opt : Opt)
    (t : Trie1) (hb : build keys vals opt = .ok t) (hne : keys ≠ [])
    (m : Nat) (hm : m < keys.length)
    (hk : keptAt (keepMask keys.length vals opt.dedup) m = true) :
    search (L2view t) (keys.getD m []) =
      .ok (valOf (keepMask keys.length vals opt.dedup) vals
             (prevKept (keepMask keys.length vals opt.dedup) m),
           valOf (keepMask keys.length vals opt.dedup) vals (some m),
           valOf (keepMask keys.length vals opt.dedup) vals
             (nextKept (keepMask keys.length vals opt.dedup) m)) :=
  C09_search_retained_L2_of keys vals opt t hb hne (encodeFacts_built keys vals opt t hb) m hm hk

theorem C09_search_retained_R_L2 (keys : List Bytes) (vals : Option (List Bytes)) (opt : Opt)
    (t : Trie1) (hb : build keys vals opt = .ok t) (hne : keys ≠ [])
    (i : Nat) (e : Entry) (hi : (retained keys vals opt.dedup)[i]? = some e) :
    search (L2view t) e.1 =
      .ok (shownVal (retained keys vals opt.dedup)
             (if i = 0 then none else (retained keys vals opt.dedup)[i - 1]?),
           shownVal (retained keys vals opt.dedup) (some e),
           shownVal (retained keys vals opt.dedup) (retained keys vals opt.dedup)[i + 1]?) :=
  C09_search_retained_R_L2_of keys vals opt t hb hne (encodeFacts_built keys vals opt t hb) i e hi

/-! ### C10 -/

/-- **C10 (totality) at L2**: on the encoding of every built trie, every lookup returns normally
    for every query string. -/
theorem C10_total_L2 (keys : List Bytes) (vals : Option (List Bytes)) (opt : Opt) (t : Trie1)
    (hb : build keys vals opt = .ok t) (q : Bytes) :
    (∃ a, getID (L2view t) q = .ok a) ∧ (∃ a, get (L2view t) q = .ok a) ∧
    (∃ a, searchID (L2view t) q = .ok a) ∧ (∃ a, rangeGet (L2view t) q = .ok a) ∧
    (∃ a, search (L2view t) q = .ok a) := by
  rw [L2_getID_eq keys vals opt t hb, L2_get_eq keys vals opt t hb,
    L2_searchID_eq keys vals opt t hb, L2_rangeGet_eq keys vals opt t hb,
    L2_search_eq keys vals opt t hb]
  obtain ⟨a, ha, _⟩ := getID_total keys vals opt t hb q
  obtain ⟨b, hb', _⟩ := searchID_total keys vals opt t hb q
  exact ⟨⟨a, ha⟩, get_total keys vals opt t hb q, ⟨b, hb'⟩, rangeGet_total keys vals opt t hb q,
    search_total keys vals opt t hb q⟩

/-- **C10 (ids) at L2**, unconditional. -/
theorem C10_searchID_eq_getID_L2 (keys : List Bytes) (vals : Option (List Bytes)) (opt : Opt)
    (t : Trie1) (hb : build keys vals opt = .ok t) (q : Bytes) (a : Option Nat)
    (b : Option Nat × Option Nat × Option Nat)
    (hg : getID (L2view t) q = .ok a) (hs : searchID (L2view t) q = .ok b) : b.2.1 = a := by
  rw [L2_getID_eq keys vals opt t hb] at hg
  rw [L2_searchID_eq keys vals opt t hb] at hs
  exact C10_searchID_eq_getID keys vals opt t hb q a b hg hs

/-- **C10 (values) at L2**, unconditional. -/
theorem C10_search_eq_get_L2 (keys : List Bytes) (vals : Option (List Bytes)) (opt : Opt)
    (t : Trie1) (hb : build keys vals opt = .ok t) (q : Bytes) (a : Option (Option Bytes))
    (y : Option (Option Bytes) × Option (Option Bytes) × Option (Option Bytes))
    (hg : get (L2view t) q = .ok a) (hs : search (L2view t) q = .ok y) : y.2.1 = a := by
  rw [L2_get_eq keys vals opt t hb] at hg
  rw [L2_search_eq keys vals opt t hb] at hs
  exact C10_search_eq_get keys vals opt t hb q a y hg hs

/-- **C10 (RangeGet) at L2** (an instance of the any-view theorem). -/
theorem C10_rangeGet_extends_get_L2' (t : Trie1) (q : Bytes) (x : Option Bytes)
    (y : Option (Option Bytes))
    (hg : get (L2view t) q = .ok (some x)) (hr : rangeGet (L2view t) q = .ok y) : y = some x :=
  C10_rangeGet_extends_get (L2view t) q x y hg hr

/-- **C10 (a hit carries a supplied value) at L2**. -/
theorem C10_hit_supplied_L2 (keys : List Bytes) (vs : List Bytes) (opt : Opt) (t : Trie1)
    (hb : build keys (some vs) opt = .ok t) (hne : keys ≠ []) (hvs : ∀ b ∈ vs, b ≠ [])
    (q : Bytes) (x : Option Bytes) (h : get (L2view t) q = .ok (some x)) :
    ∃ b, x = some b ∧ b ∈ vs := by
  rw [L2_get_eq keys (some vs) opt t hb] at h
  exact C10_hit_supplied keys vs opt t hb hne hvs q x h

theorem rangeGet_hit_supplied_L2 (keys : List Bytes) (vs : List Bytes) (opt : Opt) (t : Trie1)
    (hb : build keys (some vs) opt = .ok t) (hne : keys ≠ []) (hvs : ∀ b ∈ vs, b ≠ [])
    (q : Bytes) (x : Option Bytes) (h : rangeGet (L2view t) q = .ok (some x)) :
    ∃ b, x = some b ∧ b ∈ vs := by
  rw [L2_rangeGet_eq keys (some vs) opt t hb] at h
  exact rangeGet_hit_supplied keys vs opt t hb hne hvs q x h

/-! ### C13 -/

theorem C13_monotone_L2 (keys : List Bytes) (vals : Option (List Bytes)) (o o' : Opt)
    (t t' : Trie1) (hd : o.dedup = o'.dedup) (hin : o'.inner = true → o.inner = true)
    (hlf : o'.leaf = true → o.leaf = true)
    (hb : build keys vals o = .ok t) (hb' : build keys vals o' = .ok t') (q : Bytes) (id : Nat)
    (h : getID (L2view t) q = .ok (some id)) : getID (L2view t') q = .ok (some id) := by
  rw [L2_getID_eq keys vals o t hb] at h
  rw [L2_getID_eq keys vals o' t' hb']
  exact C13_monotone keys vals o o' t t' hd hin hlf hb hb' q id h

theorem C13_monotone_get_L2 (keys : List Bytes) (vals : Option (List Bytes)) (o o' : Opt)
    (t t' : Trie1) (hd : o.dedup = o'.dedup) (hin : o'.inner = true → o.inner = true)
    (hlf : o'.leaf = true → o.leaf = true)
    (hb : build keys vals o = .ok t) (hb' : build keys vals o' = .ok t') (q : Bytes)
    (x : Option Bytes)
    (h : get (L2view t) q = .ok (some x)) : get (L2view t') q = .ok (some x) := by
  rw [L2_get_eq keys vals o t hb] at h
  rw [L2_get_eq keys vals o' t' hb']
  exact C13_monotone_get keys vals o o' t t' hd hin hlf hb hb' q x h

theorem C13_retained_same_L2 (keys : List Bytes) (vals : Option (List Bytes)) (o o' : Opt)
    (t t' : Trie1) (hd : o.dedup = o'.dedup)
    (hb : build keys vals o = .ok t) (hb' : build keys vals o' = .ok t')
    (i : Nat) (hi : i < keys.length)
    (hk : keptAt (keepMask keys.length vals o.dedup) i = true) :
    get (L2view t) (keys.getD i []) = .ok (some (expectedValue vals t i)) ∧
    get (L2view t') (keys.getD i []) = .ok (some (expectedValue vals t i)) := by
  rw [L2_get_eq keys vals o t hb, L2_get_eq keys vals o' t' hb']
  exact C13_retained_same keys vals o o' t t' hd hb hb' i hi hk

/-! ### non-vacuity: closed theorems instantiated on a concrete build (obtained from `C08_accept`) -/
namespace L2.Ex

def keys : List Bytes := [[0x61], [0x61, 0x62], [0x62, 0xe3]]
def vals : List Bytes := [[1], [1], [2]]

theorem build_ok (o : Opt) : ∃ t, build keys (some vals) o = .ok t :=
  C08_accept _ _ o (by simp [keys]) (by decide) (by intro vs h; cases h; rfl)
    (Or.inr (by intro k hk; simp [keys] at hk; rcases hk with rfl | rfl | rfl <;> decide))

/-- C01 at the bit level on this input: the retained key `b\xe3` (index 2, value 2) is found in
    the encoded trie with its own value; and every lookup of every query is total -/
example (o : Opt) : ∃ t, build keys (some vals) o = .ok t ∧
    (∃ r, get (L2view t) [0x62, 0xe3] = .ok (some r) ∧ r.getD [] = [2]) ∧
    ∀ q, ∃ a, search (L2view t) q = .ok a := by
  obtain ⟨t, ht⟩ := build_ok o
  have hk : keptAt (keepMask keys.length (some vals) o.dedup) 2 = true := by
    cases o.dedup <;> decide
  obtain ⟨r, hr, _, hv⟩ := C01_get_retained_bytes_L2 keys (some vals) o t ht 2 (by decide) hk
  exact ⟨t, ht, ⟨r, hr, hv vals rfl⟩, fun q => (C10_total_L2 keys (some vals) o t ht q).2.2.2.2⟩

end L2.Ex

#print axioms encodeFacts_of_build
#print axioms encodeFacts_built
#print axioms viewSim_built
#print axioms L2_getID_eq
#print axioms L2_get_eq
#print axioms L2_searchID_eq
#print axioms L2_rangeGet_eq
#print axioms L2_search_eq
#print axioms C01_get_retained_L2
#print axioms C01_get_retained_bytes_L2
#print axioms C02_rangeget_indexed_L2
#print axioms C02_search_dropped_L2
#print axioms C03_search_L2
#print axioms C03_getID_L2
#print axioms C03_get_L2
#print axioms C03_rangeget_L2
#print axioms C09_search_retained_L2
#print axioms C09_search_retained_R_L2
#print axioms C10_total_L2
#print axioms C10_searchID_eq_getID_L2
#print axioms C10_search_eq_get_L2
#print axioms C10_rangeGet_extends_get_L2'
#print axioms C10_hit_supplied_L2
#print axioms rangeGet_hit_supplied_L2
#print axioms C13_monotone_L2
#print axioms C13_monotone_get_L2
#print axioms C13_retained_same_L2
