import SlimModel.BitsCore
/-
  SlimModel.BitsFast — faster implementations of four functions of `SlimModel.BitsCore`, each
  proved equal to the specification and registered with `@[csimp]`, so that every definition
  compiled after this module (`Bits.mk`, `Bits.select32R64`, `Slim.encodeCreator`, …) runs the
  fast code while every theorem stays about the original definition.

    nextOne        bit-by-bit scan with an O(i/64) `List.getD` per bit
                   → drop `pos/64` words once, scan the first word, skip zero words
    toArray        the same pattern over the whole bitmap → one pass over the words
    indexSelect32  `List.getD (k*32)` for every `k` → array access
    ofMany         `acc ++ chunk` in a loop (copies `acc` every time) → collect the chunks, flatten

  Core Lean only (the model is linked into `slimdriver`).
-/

namespace Bits

/-! ### helpers -/

theorem find?_congr' {α : Type} {p q : α → Bool} {l : List α} (h : ∀ x ∈ l, p x = q x) :
    l.find? p = l.find? q := by
  induction l with
  | nil => rfl
  | cons a l ih =>
    rw [List.find?_cons, List.find?_cons, h a (by simp),
      ih (fun x hx => h x (List.mem_cons_of_mem _ hx))]

/-- bit `i − base` of the words, counted from bit position `base` -/
def bitFrom (ws : List Nat) (base i : Nat) : Bool :=
  (ws.getD ((i - base) / 64) 0).testBit ((i - base) % 64)

theorem bitFrom_head (w : Nat) (ws : List Nat) (base i : Nat) (h1 : base ≤ i) (h2 : i < base + 64) :
    bitFrom (w :: ws) base i = w.testBit (i - base) := by
  unfold bitFrom
  have e1 : (i - base) / 64 = 0 := by omega
  have e2 : (i - base) % 64 = i - base := by omega
  rw [e1, e2]; rfl

theorem bitFrom_tail (w : Nat) (ws : List Nat) (base i : Nat) (h : base + 64 ≤ i) :
    bitFrom (w :: ws) base i = bitFrom ws (base + 64) i := by
  unfold bitFrom
  have e1 : (i - base) / 64 = (i - (base + 64)) / 64 + 1 := by omega
  have e2 : (i - base) % 64 = (i - (base + 64)) % 64 := by omega
  rw [e1, e2, List.getD_cons_succ]

theorem range'_split (s a b : Nat) : List.range' s (a + b) = List.range' s a ++ List.range' (s + a) b := by
  rw [List.range'_append_1]

theorem range'_shift (base lo n : Nat) :
    List.range' (base + lo) n = (List.range' lo n).map (base + ·) := by
  rw [List.map_add_range']

/-! ### `nextOne` -/

/-- first set bit of `w` among the bits `[lo, 64)` -/
def findBitFrom (w lo : Nat) : Option Nat :=
  (List.range' lo (64 - lo)).find? (fun j => w.testBit j)

theorem findBitFrom_zero (lo : Nat) : findBitFrom 0 lo = none := by
  unfold findBitFrom
  rw [List.find?_eq_none]
  intro x _; simp

/-- first set bit of the words, the head word starting at bit position `base` -/
def nextOneGo : List Nat → Nat → Option Nat
  | [], _ => none
  | w :: ws, base =>
    if w = 0 then nextOneGo ws (base + 64)
    else match findBitFrom w 0 with
      | some j => some (base + j)
      | none => nextOneGo ws (base + 64)

/-- the scan of one word, as a scan over absolute positions -/
theorem find?_word (w : Nat) (ws : List Nat) (base lo : Nat) (hlo : lo ≤ 64) :
    (List.range' (base + lo) (64 - lo)).find? (bitFrom (w :: ws) base)
      = (findBitFrom w lo).map (base + ·) := by
  have h : (List.range' (base + lo) (64 - lo)).find? (bitFrom (w :: ws) base)
      = (List.range' (base + lo) (64 - lo)).find? (fun i => w.testBit (i - base)) := by
    apply find?_congr'
    intro i hi
    rw [List.mem_range'_1] at hi
    exact bitFrom_head w ws base i (by omega) (by omega)
  rw [h, range'_shift, List.find?_map]
  unfold findBitFrom
  congr 2
  funext j
  simp only [Function.comp_apply, Nat.add_sub_cancel_left]

theorem nextOneGo_spec (ws : List Nat) (base : Nat) :
    nextOneGo ws base = (List.range' base (ws.length * 64)).find? (bitFrom ws base) := by
  induction ws generalizing base with
  | nil => simp [nextOneGo]
  | cons w ws ih =>
    have hlen : (w :: ws).length * 64 = 64 + ws.length * 64 := by
      rw [List.length_cons]; omega
    have htail : (List.range' (base + 64) (ws.length * 64)).find? (bitFrom (w :: ws) base)
        = (List.range' (base + 64) (ws.length * 64)).find? (bitFrom ws (base + 64)) := by
      apply find?_congr'
      intro i hi
      rw [List.mem_range'_1] at hi
      exact bitFrom_tail w ws base i hi.1
    have hhead := find?_word w ws base 0 (by omega)
    simp only [Nat.add_zero, Nat.sub_zero] at hhead
    have hstep : nextOneGo (w :: ws) base
        = if w = 0 then nextOneGo ws (base + 64)
          else match findBitFrom w 0 with
            | some j => some (base + j)
            | none => nextOneGo ws (base + 64) := rfl
    rw [hstep, hlen, range'_split, List.find?_append, hhead, htail, ← ih (base + 64)]
    by_cases hw : w = 0
    · rw [if_pos hw, hw, findBitFrom_zero]; rfl
    · rw [if_neg hw]
      cases findBitFrom w 0 <;> rfl

/-- `nextOne`, word-wise -/
def nextOneFast (words : List Nat) (pos : Nat) : Nat :=
  match words.drop (pos / 64) with
  | [] => words.length * 64
  | w :: ws =>
    match findBitFrom w (pos % 64) with
    | some j => pos / 64 * 64 + j
    | none =>
      match nextOneGo ws ((pos / 64 + 1) * 64) with
      | some i => i
      | none => words.length * 64

theorem getD_drop_add (l : List Nat) (a j : Nat) : (l.drop a).getD j 0 = l.getD (a + j) 0 := by
  rw [List.getD_eq_getElem?_getD, List.getD_eq_getElem?_getD, List.getElem?_drop]

theorem nextOne_eq_nextOneFast (words : List Nat) (pos : Nat) :
    nextOne words pos = nextOneFast words pos := by
  unfold nextOne nextOneFast
  simp only
  rcases Nat.lt_or_ge (pos / 64) words.length with hq | hq
  · -- the word that holds `pos` exists
    rw [List.drop_eq_getElem_cons hq]
    simp only
    have hlen : (words.drop (pos / 64 + 1)).length = words.length - (pos / 64 + 1) := List.length_drop
    have hcount : words.length * 64 - pos
        = (64 - pos % 64) + (words.drop (pos / 64 + 1)).length * 64 := by
      rw [hlen]; omega
    have hpos : pos = pos / 64 * 64 + pos % 64 := by omega
    -- the predicate, relative to the word that holds `pos`
    have hpred : ∀ i, pos ≤ i →
        (words.getD (i / 64) 0).testBit (i % 64)
          = bitFrom (words[pos / 64] :: words.drop (pos / 64 + 1)) (pos / 64 * 64) i := by
      intro i hi
      unfold bitFrom
      have e1 : i / 64 = pos / 64 + (i - pos / 64 * 64) / 64 := by omega
      have e2 : i % 64 = (i - pos / 64 * 64) % 64 := by omega
      rw [← List.drop_eq_getElem_cons hq, getD_drop_add, ← e1, ← e2]
    have hfind : (List.range' pos (words.length * 64 - pos)).find?
        (fun i => (words.getD (i / 64) 0).testBit (i % 64))
        = (List.range' pos (words.length * 64 - pos)).find?
          (bitFrom (words[pos / 64] :: words.drop (pos / 64 + 1)) (pos / 64 * 64)) := by
      apply find?_congr'
      intro i hi
      rw [List.mem_range'_1] at hi
      exact hpred i hi.1
    rw [hfind, hcount, range'_split, List.find?_append]
    have hhead := find?_word words[pos / 64] (words.drop (pos / 64 + 1)) (pos / 64 * 64) (pos % 64)
      (by omega)
    rw [← hpos] at hhead
    rw [hhead]
    have hbase : pos + (64 - pos % 64) = (pos / 64 + 1) * 64 := by omega
    have htail : (List.range' (pos + (64 - pos % 64)) ((words.drop (pos / 64 + 1)).length * 64)).find?
        (bitFrom (words[pos / 64] :: words.drop (pos / 64 + 1)) (pos / 64 * 64))
        = nextOneGo (words.drop (pos / 64 + 1)) ((pos / 64 + 1) * 64) := by
      rw [nextOneGo_spec, hbase]
      apply find?_congr'
      intro i hi
      rw [List.mem_range'_1] at hi
      have := bitFrom_tail words[pos / 64] (words.drop (pos / 64 + 1)) (pos / 64 * 64) i (by omega)
      rw [this]
      congr 1; omega
    rw [htail]
    cases findBitFrom words[pos / 64] (pos % 64) with
    | some j => rfl
    | none =>
      simp only [Option.map_none, Option.none_or]
      cases nextOneGo (words.drop (pos / 64 + 1)) ((pos / 64 + 1) * 64) <;> rfl
  · -- `pos` is beyond the last word
    rw [List.drop_of_length_le hq]
    have : words.length * 64 - pos = 0 := by omega
    rw [this]
    rfl

@[csimp] theorem nextOne_eq_fast : @nextOne = @nextOneFast := by
  funext words pos; exact nextOne_eq_nextOneFast words pos

/-! ### `toArray` -/

/-- the set bits of the word that starts at bit position `base` -/
def wordBits (w base : Nat) : List Nat :=
  if w = 0 then [] else ((List.range' 0 64).filter (fun j => w.testBit j)).map (base + ·)

/-- `toArray`, one pass over the words -/
def toArrayFast (words : List Nat) : List Nat :=
  words.zipIdx.flatMap (fun p => wordBits p.1 (p.2 * 64))

theorem filter_word (w : Nat) (ws : List Nat) (base : Nat) :
    (List.range' base 64).filter (bitFrom (w :: ws) base) = wordBits w base := by
  have h : (List.range' base 64).filter (bitFrom (w :: ws) base)
      = (List.range' base 64).filter (fun i => w.testBit (i - base)) := by
    apply List.filter_congr
    intro i hi
    rw [List.mem_range'_1] at hi
    exact bitFrom_head w ws base i hi.1 hi.2
  have hs := range'_shift base 0 64
  rw [Nat.add_zero] at hs
  rw [h, hs, List.filter_map]
  have hcomp : ((fun i => w.testBit (i - base)) ∘ fun x => base + x) = fun j => w.testBit j := by
    funext j
    simp only [Function.comp_apply, Nat.add_sub_cancel_left]
  rw [hcomp]
  unfold wordBits
  by_cases hw : w = 0
  · rw [if_pos hw, hw]
    have : (List.range' 0 64).filter (fun j => (0 : Nat).testBit j) = [] := by
      rw [List.filter_eq_nil_iff]; intro x _; simp
    rw [this]; rfl
  · rw [if_neg hw]

theorem toArrayGo_spec (ws : List Nat) (k : Nat) :
    (ws.zipIdx k).flatMap (fun p => wordBits p.1 (p.2 * 64))
      = (List.range' (k * 64) (ws.length * 64)).filter (bitFrom ws (k * 64)) := by
  induction ws generalizing k with
  | nil => simp
  | cons w ws ih =>
    have hlen : (w :: ws).length * 64 = 64 + ws.length * 64 := by
      rw [List.length_cons]; omega
    have htail : (List.range' (k * 64 + 64) (ws.length * 64)).filter (bitFrom (w :: ws) (k * 64))
        = (List.range' (k * 64 + 64) (ws.length * 64)).filter (bitFrom ws (k * 64 + 64)) := by
      apply List.filter_congr
      intro i hi
      rw [List.mem_range'_1] at hi
      exact bitFrom_tail w ws (k * 64) i hi.1
    have hk : k * 64 + 64 = (k + 1) * 64 := by omega
    rw [List.zipIdx_cons, List.flatMap_cons, hlen, range'_split, List.filter_append, filter_word,
      htail, hk, ← ih (k + 1)]

theorem toArray_eq_toArrayFast (words : List Nat) : toArray words = toArrayFast words := by
  unfold toArray toArrayFast
  have h := toArrayGo_spec words 0
  simp only [Nat.zero_mul] at h
  rw [h, List.range_eq_range']
  apply List.filter_congr
  intro i _
  unfold bitFrom
  rw [Nat.sub_zero]

@[csimp] theorem toArray_eq_fast : @toArray = @toArrayFast := by
  funext words; exact toArray_eq_toArrayFast words

/-! ### `indexSelect32` -/

/-- `indexSelect32` with array access (compiled after the `csimp` of `toArray`) -/
def indexSelect32Fast (words : List Nat) : List Nat :=
  let arr := (toArray words).toArray
  (List.range ((arr.size + 31) / 32)).map (fun k => arr.getD (k * 32) 0)

@[csimp] theorem indexSelect32_eq_fast : @indexSelect32 = @indexSelect32Fast := by
  funext words
  unfold indexSelect32 indexSelect32Fast
  simp [List.getD_eq_getElem?_getD]

/-! ### `ofMany` -/

/-- the shifted sub-bitmaps, last first, and the total width -/
def ofManyChunks : List (List Nat) → List Nat → Nat → List (List Nat) → List (List Nat) × Nat
  | s :: ss, z :: zs, base, acc => ofManyChunks ss zs (base + z) (s.map (base + ·) :: acc)
  | _, _, base, acc => (acc, base)

/-- `ofMany` without re-copying the accumulated positions for every sub-bitmap -/
def ofManyFast (subs : List (List Nat)) (sizes : List Nat) : List Nat :=
  let (chunks, base) := ofManyChunks subs sizes 0 []
  ofIdx chunks.reverse.flatten base

theorem ofMany_go_chunks (subs : List (List Nat)) (sizes : List Nat) (base : Nat) (acc : List Nat)
    (chunks : List (List Nat)) :
    ofMany.go subs sizes base acc
      = (acc ++ ((ofManyChunks subs sizes base chunks).1.take
            ((ofManyChunks subs sizes base chunks).1.length - chunks.length)).reverse.flatten,
         (ofManyChunks subs sizes base chunks).2)
    ∧ chunks.length ≤ (ofManyChunks subs sizes base chunks).1.length
    ∧ (ofManyChunks subs sizes base chunks).1.drop
        ((ofManyChunks subs sizes base chunks).1.length - chunks.length) = chunks := by
  induction subs generalizing sizes base acc chunks with
  | nil => simp [ofMany.go, ofManyChunks]
  | cons s ss ih =>
    cases sizes with
    | nil => simp [ofMany.go, ofManyChunks]
    | cons z zs =>
      simp only [ofMany.go, ofManyChunks]
      obtain ⟨h1, h2, h3⟩ := ih zs (base + z) (acc ++ s.map (base + ·)) (s.map (base + ·) :: chunks)
      generalize ofManyChunks ss zs (base + z) (s.map (base + ·) :: chunks) = r at h1 h2 h3
      simp only [List.length_cons] at h2 h3
      refine ⟨?_, by omega, ?_⟩
      · rw [h1]
        congr 1
        -- the chunk `s.map …` is the element just before the old chunks
        have hsplit : r.1.take (r.1.length - chunks.length)
            = r.1.take (r.1.length - (chunks.length + 1)) ++ [s.map (base + ·)] := by
          have hd : r.1.drop (r.1.length - (chunks.length + 1)) = s.map (base + ·) :: chunks := h3
          have hlt : r.1.length - (chunks.length + 1) < r.1.length := by omega
          have e : r.1.length - chunks.length = (r.1.length - (chunks.length + 1)) + 1 := by omega
          rw [e, List.take_add_one]
          congr 1
          have := List.drop_eq_getElem_cons hlt
          rw [hd] at this
          rw [List.getElem?_eq_getElem hlt]
          simp only [List.cons.injEq] at this
          rw [← this.1]; rfl
        rw [hsplit]
        simp [List.append_assoc]
      · have hd : r.1.drop (r.1.length - (chunks.length + 1)) = s.map (base + ·) :: chunks := h3
        have e : r.1.length - chunks.length = (r.1.length - (chunks.length + 1)) + 1 := by omega
        rw [e, ← List.drop_drop, hd]
        rfl

theorem ofMany_eq_ofManyFast (subs : List (List Nat)) (sizes : List Nat) :
    ofMany subs sizes = ofManyFast subs sizes := by
  unfold ofMany ofManyFast
  obtain ⟨h1, _, _⟩ := ofMany_go_chunks subs sizes 0 [] []
  rw [h1]
  simp

@[csimp] theorem ofMany_eq_fast : @ofMany = @ofManyFast := by
  funext subs sizes; exact ofMany_eq_ofManyFast subs sizes

end Bits
