import SlimProps.C12
import SlimProps.C02
import SlimProofs.LookupTotal
/-
  SlimProps.C12Closed — C12 with its explicit hypotheses discharged:
  `hC02` by `C02_rangeget_indexed` (SlimProps/C02.lean) and `htotal` by `get_total` /
  `rangeGet_total` (SlimProofs/LookupTotal.lean).

  * `C12_get_exact_full`       hypotheses left: `Index.new recs = .ok si`, offsets in the int64
                               range, adjacent offsets distinct
  * `C12_rangeget_exact_full`  hypotheses left: `Index.new recs = .ok si`, offsets in the int64
                               range (any offsets, in particular block offsets)
-/

open IndexExact Index

theorem c02Statement : C02Statement :=
  fun keys vals opt t hb hne i hi => C02_rangeget_indexed keys vals opt t hb hne i hi

/-- **C12 (RangeGet, indexed keys)**, unconditional: for any record set accepted by
    `NewSlimIndex` with offsets in the int64 range — in particular block offsets shared by
    adjacent keys — `RangeGet` returns the stored record of every indexed key. -/
theorem C12_rangeget_indexed_closed (recs : List Record) (si : SlimIndex)
    (hnew : Index.new recs = .ok si) (hrange : ∀ r ∈ recs, InI64 r.offset)
    (i : Nat) (hi : i < recs.length) :
    Index.rangeGet si si.t1.view recs[i].key = .ok (some recs[i].value) :=
  C12_rangeget_indexed c02Statement recs si hnew hrange i hi

/-- **C12 (RangeGet)** with only the totality hypothesis left. -/
theorem C12_rangeget_exact_closed (recs : List Record) (si : SlimIndex)
    (hnew : Index.new recs = .ok si) (hrange : ∀ r ∈ recs, InI64 r.offset)
    (htotal : ∀ q, ∃ r, _root_.rangeGet si.t1.view q = .ok r) :
    (∀ i (hi : i < recs.length),
      Index.rangeGet si si.t1.view recs[i].key = .ok (some recs[i].value)) ∧
    (∀ q, (∀ r ∈ recs, r.key ≠ q) → Index.rangeGet si si.t1.view q = .ok none) :=
  C12_rangeget_exact c02Statement recs si hnew hrange htotal

/-- **C12 (Get), unconditional.**  One offset per key: `Get` + key-verifying reader returns the
    stored record for every indexed key and not found for every other string. -/
theorem C12_get_exact_full (recs : List Record) (si : SlimIndex) (hnew : Index.new recs = .ok si)
    (hrange : ∀ r ∈ recs, InI64 r.offset) (hadj : AdjDistinct recs) :
    (∀ i (hi : i < recs.length), Index.get si si.t1.view recs[i].key = .ok (some recs[i].value)) ∧
    (∀ q, (∀ r ∈ recs, r.key ≠ q) → Index.get si si.t1.view q = .ok none) :=
  C12_get_exact recs si hnew hrange hadj
    (fun q => get_total _ _ _ si.t1 (new_ok_elim hnew).1 q)

/-- **C12 (RangeGet), unconditional.**  Block offsets: `RangeGet` + key-verifying reader returns
    the stored record for every indexed key and not found for every other string. -/
theorem C12_rangeget_exact_full (recs : List Record) (si : SlimIndex)
    (hnew : Index.new recs = .ok si) (hrange : ∀ r ∈ recs, InI64 r.offset) :
    (∀ i (hi : i < recs.length),
      Index.rangeGet si si.t1.view recs[i].key = .ok (some recs[i].value)) ∧
    (∀ q, (∀ r ∈ recs, r.key ≠ q) → Index.rangeGet si si.t1.view q = .ok none) :=
  C12_rangeget_exact c02Statement recs si hnew hrange
    (fun q => rangeGet_total _ _ _ si.t1 (new_ok_elim hnew).1 q)

/-- the theorem on the block-offset example of `C12.Ex`: key 2 (`b\xe3`) shares offset 0 with
    key 1 and is de-duplicated away, yet `RangeGet` + reader return its own record -/
example : ∃ si, Index.new C12.Ex.recsBlock = .ok si ∧
    Index.rangeGet si si.t1.view [0x62, 0xe3] = .ok (some [3]) := by
  obtain ⟨si, hsi⟩ := C12.Ex.new_ok C12.Ex.recsBlock (by decide +kernel)
  exact ⟨si, hsi, C12_rangeget_indexed_closed _ si hsi (by decide) 2 (by decide)⟩

#print axioms C12_rangeget_indexed_closed
#print axioms C12_rangeget_exact_closed
#print axioms C12_get_exact_full
#print axioms C12_rangeget_exact_full
