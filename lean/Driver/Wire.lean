import SlimModel.Marshal
/-
  Driver.Wire — family `wire` of the line protocol: the byte level of serialization
  (properties C05 and C07, wire half).  Every answer is computed by the executable definitions of
  `SlimModel.Wire`, `SlimModel.ArrayMsg`, `SlimModel.Frame`, `SlimModel.Version`, `SlimModel.Marshal`
  — the definitions the theorems of `SlimProps/C05Wire.lean` and `SlimProps/C07Wire.lean` are about.

  ops (byte strings are `x`+hex):
    wire.varint <n>                  → hex of `varint n`, and `decodeVarint` of it
    wire.unvarint <hex>              → `<value> <consumed>` | `none`
    wire.decode <body>               → `ok <dump> re=<same|diff> size=<protoSizeSlim>` | `err:<kind>`
    wire.decode-array <body>         → same for array.Array32
    wire.unmarshal <stream>          → `current <dump>` | `v0510 <ver> <dump>` | `legacy3 <ver> <dump> <dump> <dump>` | `err:<kind>`
    wire.remarshal <stream>          → `<same|diff> len=<n> fnv=<hash of marshalSlim>` | `skip:<layout>` | `err:<kind>`
    wire.sections <stream>           → three framed Array32 sections: `ok <dump> <dump> <dump> rest=<n>` | `err:<kind>`
    wire.header <stream>             → `ok <ver> <headersize> <bodysize>` | `err:<kind>`
    wire.version <version bytes>     → `<compatible|incompatible> <parse> cur=<b> b512=<b> b510=<b>`
    wire.stream <stream>             → `ok <len>` (remembers the stream)
    wire.cut <n>                     → `ok` | `err:<kind>` for the first n bytes of the remembered stream
    wire.cuts <from> <to> <step>     → run-length list of the answers for cuts from, from+step, … < to
  `<dump>` is `d=<field dump>` when short, else `fnv=<FNV-1a-64 of the dump>/<dump length>`.
-/

open _root_.Wire Frame Version

namespace Driver.Wire

structure State where
  stream : Bytes := []

def init : State := {}

/-! ### canonical rendering -/

def natList (l : List Nat) : String := "[" ++ ",".intercalate (l.map toString) ++ "]"

def hexTail (b : Bytes) : String := String.ofList ((nibs b).map hexDigit)

def dumpBitmap : Option BitmapMsg → String
  | none => "nil"
  | some b => "{w:" ++ natList b.words ++ ";r:" ++ natList b.rankIndex ++ ";s:" ++ natList b.selectIndex ++ "}"

def dumpVLen : Option VLenArrayMsg → String
  | none => "nil"
  | some v => "{n:" ++ toString v.n ++ ";c:" ++ toString v.eltCnt ++ ";p:" ++ dumpBitmap v.positionBM ++
      ";f:" ++ toString v.fixedSize ++ ";b:" ++ hexTail v.bytes ++ ";q:" ++ dumpBitmap v.presenceBM ++ "}"

def dumpSlim (s : SlimMsg) : String :=
  "{b:" ++ toString s.bigInnerCnt ++ ";s:" ++ toString s.shortSize ++ ";nt:" ++ dumpBitmap s.nodeTypeBM ++
  ";in:" ++ dumpBitmap s.inners ++ ";sb:" ++ dumpBitmap s.shortBM ++ ";st:" ++ natList s.shortTable ++
  ";ip:" ++ dumpVLen s.innerPrefixes ++ ";lp:" ++ dumpVLen s.leafPrefixes ++ ";lv:" ++ dumpVLen s.leaves ++
  ";u:" ++ hexTail s.unrecognized ++ "}"

def dumpBits : Option BitsMsg → String
  | none => "nil"
  | some b => "{fl:" ++ toString b.flags ++ ";n:" ++ toString b.n ++ ";w:" ++ natList b.words ++
      ";r:" ++ natList b.rankIndex ++ "}"

def dumpArray32 (a : Array32Msg) : String :=
  "{c:" ++ toString a.cnt ++ ";bm:" ++ natList a.bitmaps ++ ";of:" ++ natList a.offsets ++ ";e:" ++ hexTail a.elts ++
  ";fl:" ++ toString a.flags ++ ";w:" ++ toString a.eltWidth ++ ";be:" ++ dumpBits a.bmElts ++
  ";u:" ++ hexTail a.unrecognized ++ "}"

def fnv64 (bs : List UInt8) : UInt64 :=
  bs.foldl (fun h b => (h ^^^ b.toUInt64) * 1099511628211) 14695981039346656037

def fnvStr (s : String) : UInt64 := fnv64 s.toUTF8.toList

def hex16 (h : UInt64) : String :=
  String.ofList ((List.range 16).map fun i => hexDigit ((h.toNat / 16 ^ (15 - i)) % 16))

def render (d : String) : String :=
  if d.length ≤ 300 then "d=" ++ d else "fnv=" ++ hex16 (fnvStr d) ++ "/" ++ toString d.length

def errAns (e : Err) : String :=
  match e with
  | .panic _ => "panic"
  | _ => "err:" ++ e.kind

/-! ### ops -/

def opDecode (body : Bytes) : String :=
  match decodeSlim body with
  | .error e => errAns e
  | .ok m =>
    "ok " ++ render (dumpSlim m) ++ " re=" ++ (if encodeSlim m = body then "same" else "diff") ++
    " size=" ++ toString (protoSizeSlim m)

def opDecodeArray (body : Bytes) : String :=
  match decodeArray32 body with
  | .error e => errAns e
  | .ok m =>
    "ok " ++ render (dumpArray32 m) ++ " re=" ++ (if encodeArray32 m = body then "same" else "diff") ++
    " size=" ++ toString (protoSizeArray32 m)

def verTok (v : String) : String := hexOf (verBytes v)

def opUnmarshal (s : Bytes) : String :=
  match unmarshalDispatch s with
  | .error e => errAns e
  | .ok (.current m) => "current " ++ render (dumpSlim m)
  | .ok (.v0510 v m) => "v0510 " ++ verTok v ++ " " ++ render (dumpSlim m)
  | .ok (.legacy3 v c st l) =>
    "legacy3 " ++ verTok v ++ " " ++ render (dumpArray32 c) ++ " " ++ render (dumpArray32 st) ++ " " ++
    render (dumpArray32 l)

def opRemarshal (s : Bytes) : String :=
  match unmarshalDispatch s with
  | .error e => errAns e
  | .ok (.current m) =>
    let out := marshalSlim m
    (if out = s then "same" else "diff") ++ " len=" ++ toString out.length ++ " fnv=" ++ hex16 (fnv64 out)
  | .ok (.v0510 _ _) => "skip:v0510"
  | .ok (.legacy3 _ _ _ _) => "skip:legacy3"

def opSections (s : Bytes) : String :=
  match readMsg decodeArray32 s with
  | .error e => errAns e
  | .ok (a, r1) =>
    match readMsg decodeArray32 r1 with
    | .error e => errAns e
    | .ok (b, r2) =>
      match readMsg decodeArray32 r2 with
      | .error e => errAns e
      | .ok (c, r3) =>
        "ok " ++ render (dumpArray32 a) ++ " " ++ render (dumpArray32 b) ++ " " ++ render (dumpArray32 c) ++
        " rest=" ++ toString r3.length

def opHeader (s : Bytes) : String :=
  match readHeader s with
  | .error e => errAns e
  | .ok (h, _) => "ok " ++ verTok h.version ++ " " ++ toString h.headerSize ++ " " ++ toString h.bodySize

def dumpPR : PRVer → String
  | .num n => "n" ++ toString n
  | .str s => "s" ++ String.ofList s

def dumpSemver (v : SemVer) : String :=
  toString v.major ++ "." ++ toString v.minor ++ "." ++ toString v.patch ++
  "/" ++ ",".intercalate (v.pre.map dumpPR) ++ "/" ++ ",".intercalate (v.build.map String.ofList)

def b01 (b : Bool) : String := if b then "1" else "0"

/-- A stream that consists of a header with this version field and an empty body. -/
def versionProbe (vb : Bytes) : Bytes := padVersion vb ++ (leBytes 8 32 ++ leBytes 8 0)

def opVersion (vb : Bytes) : String :=
  if 16 < vb.length then "bad-op" else
  let v := verStr (padVersion vb)
  let compat :=
    match unmarshalDispatch (versionProbe vb) with
    | .error .incompatible => "incompatible"
    | _ => "compatible"
  match parseSemver v with
  | none => compat ++ " unparsable"
  | some sv =>
    compat ++ " " ++ hexOf ((dumpSemver sv).toUTF8.toList) ++ " cur=" ++ b01 (isCurrentLayout v) ++
    " b512=" ++ b01 (before000512 v) ++ " b510=" ++ b01 (before000510 v)

def cutAns (s : Bytes) (n : Nat) : String :=
  match unmarshalDispatch (s.take n) with
  | .error e => errAns e
  | .ok _ => "ok"

/-- run-length encoding of a list of answers: `a*3,b*1` -/
def rle : List String → List (String × Nat)
  | [] => []
  | a :: rest =>
    match rle rest with
    | (b, n) :: tl => if a = b then (b, n + 1) :: tl else (a, 1) :: (b, n) :: tl
    | [] => [(a, 1)]

def opCuts (s : Bytes) (frm to step : Nat) : String :=
  if step = 0 then "bad-op" else
  let cnt := if to ≤ frm then 0 else (to - frm + step - 1) / step
  let answers := (List.range cnt).map fun i => cutAns s (frm + i * step)
  ",".intercalate ((rle answers).map fun (a, n) => a ++ "*" ++ toString n)

def isNat (s : String) : Bool := !s.isEmpty && s.all Char.isDigit

def step (st : State) (toks : List String) : State × String :=
  match toks with
  | ["wire.varint", n] =>
    if isNat n then
      let bs := varint n.toNat!
      (st, hexOf bs ++ " " ++ (match decodeVarint bs with
        | none => "none"
        | some (v, k) => toString v ++ " " ++ toString k))
    else (st, "bad-op")
  | ["wire.unvarint", h] =>
    match parseHex h with
    | none => (st, "bad-op")
    | some bs => (st, match decodeVarint bs with
        | none => "none"
        | some (v, k) => toString v ++ " " ++ toString k)
  | ["wire.decode", h] =>
    match parseHex h with
    | none => (st, "bad-op")
    | some bs => (st, opDecode bs)
  | ["wire.decode-array", h] =>
    match parseHex h with
    | none => (st, "bad-op")
    | some bs => (st, opDecodeArray bs)
  | ["wire.unmarshal", h] =>
    match parseHex h with
    | none => (st, "bad-op")
    | some bs => (st, opUnmarshal bs)
  | ["wire.remarshal", h] =>
    match parseHex h with
    | none => (st, "bad-op")
    | some bs => (st, opRemarshal bs)
  | ["wire.sections", h] =>
    match parseHex h with
    | none => (st, "bad-op")
    | some bs => (st, opSections bs)
  | ["wire.header", h] =>
    match parseHex h with
    | none => (st, "bad-op")
    | some bs => (st, opHeader bs)
  | ["wire.version", h] =>
    match parseHex h with
    | none => (st, "bad-op")
    | some bs => (st, opVersion bs)
  | ["wire.stream", h] =>
    match parseHex h with
    | none => (st, "bad-op")
    | some bs => ({ st with stream := bs }, "ok " ++ toString bs.length)
  | ["wire.cut", n] =>
    if isNat n then (st, cutAns st.stream n.toNat!) else (st, "bad-op")
  | ["wire.cuts", a, b, c] =>
    if isNat a && isNat b && isNat c then (st, opCuts st.stream a.toNat! b.toNat! c.toNat!)
    else (st, "bad-op")
  | _ => (st, "bad-op")

end Driver.Wire
