import Generated.Facts
import SlimModel.Slim
import SlimModel.Scan
import SlimModel.Index
import SlimModel.Version
import SlimModel.WireSchema
/-
  SlimProps.Bridge — tie 1: every fact regenerated from /repo's working tree
  (lean/Generated/Facts.lean, written by harness/cmd/extract on every run) is equated with the
  parameter the model uses.  `lake build` re-proves these on every run; a changed constant,
  version list, operator, guard, tag or write set breaks the obligation.

  Facts that are canonical source text of small pure functions are compared with the text the
  model was written against; the model definition that mirrors the text is named beside it.
-/
namespace Bridge

/-! ### constants of trie/slimtrie.go -/
theorem wordSize : Generated.wordSize = 4 * wordSize false := rfl          -- 4-bit word = 1 half-byte
theorem bigWordSize : Generated.bigWordSize = 4 * _root_.wordSize true := rfl
theorem innerSize : Generated.innerSize = Slim.innerSize := rfl
theorem bigInnerSize : Generated.bigInnerSize = Slim.bigInnerSize := rfl
theorem innerSize_def : Generated.innerSize = 2 ^ Generated.wordSize + 1 := rfl
theorem bigInnerSize_def : Generated.bigInnerSize = 2 ^ Generated.bigWordSize + 1 := rfl
theorem maxShortSize : Generated.maxShortSize = Slim.maxShortSize := rfl
theorem minPrefix : Generated.minPrefix = 0 := rfl                         -- the model has no minPrefix branch
theorem maxWordSize_covers_byte : 8 < Generated.maxWordSize := by decide  -- prefCounts[8-(ws&7)] is in range

/-! ### newSlim -/
/-- `keys[i] >= keys[i+1]` rejects: accepted lists are strictly ascending (`strictAsc`, `bytesLt`) -/
theorem orderCheckOp : Generated.orderCheckOp = ">=" := rfl
/-- `prefCnt > 10` (`buildStep`: `decide (prefCnt … > 10)`) -/
theorem bigThreshold : (Generated.bigThresholdOp, Generated.bigThreshold) = (">", 10) := rfl
/-- the 16-bit step guard (`buildStep`: `!c.opt.inner && decide (ws - o.fb > 0xffff)`; positions / 4) -/
theorem stepGuard :
    Generated.stepGuard = "!*opt.InnerPrefix && (wordStart-o.fromKeyBit)>>2 > 0xffff" := rfl
/-- the comparator of `sortedBMCounts` (`Slim.insertSorted`: count desc, bitmap desc) -/
theorem bmCountOrder : Generated.bmCountOrder =
    "{ if ss[i].cnt == ss[j].cnt { return ss[i].bitmap17 > ss[j].bitmap17 } return ss[i].cnt > ss[j].cnt }" := rfl

/-! ### queries (the small pure functions `encStep`, `decStep`, `getLabelIdxOfKey`, `GetI8..64` are tied
    SEMANTICALLY in SlimProps/BridgeSem.lean: translated by harness/cmd/extract/translate.go, proved equal to
    the model's definitions for all arguments) -/
/-- the refusal guard of `getGEPath` (`Slim.view.scanOK`) -/
theorem scanGuard : Generated.scanGuard =
    "st.inner.InnerPrefixes == nil || st.inner.InnerPrefixes.PositionBM == nil || st.inner.LeafPrefixes == nil" := rfl

/-! ### package index (`Index.get` / `Index.rangeGet` / `Index.new`) -/
theorem indexGetCalls : Generated.indexGetCalls = ["si.SlimTrie.Get", "si.DataReader.Read"] := rfl
theorem indexRangeGetCalls : Generated.indexRangeGetCalls = ["si.SlimTrie.RangeGet", "si.DataReader.Read"] := rfl
theorem indexNewSlimTrieArgs : Generated.indexNewSlimTrieArgs = ["encode.I64{}", "keys", "offsets"] := rfl

/-! ### C11: no write to shared state on any read path -/
theorem readPathWrites : Generated.readPathWrites = [] := rfl

/-! ### C20: the caller's buffer is only handed to `bytes.NewReader`; options are copied first -/
theorem unmarshalBufUses : Generated.unmarshalBufUses = ["bytes.NewReader(buf)", "bytes.NewReader(buf)"] := rfl
theorem newSlimTrieOptFlow : Generated.newSlimTrieOptFlow =
    ["opt := Opt{}", "opt = opts[0]", "normalizeOpt(&opt)", "ns, err := newSlim(keys, vals, &opt)",
     "newSlim(keys, vals, &opt)"] := rfl

/-! ### versions (C07): the compatible set and the three dispatch predicates of `Unmarshal` -/
theorem slimtrieVersion : Generated.slimtrieVersion = Version.slimtrieVersion := rfl
theorem compatibleVersions : Generated.compatibleVersions = Version.compatibleSpecs := rfl
theorem unmarshalCurrentSpec : Generated.unmarshalCurrentSpec = Version.currentLayoutSpecs := rfl
theorem unmarshalBefore000512Spec : Generated.unmarshalBefore000512Spec = Version.before000512Specs := rfl
theorem before000510Spec : Generated.before000510Spec = Version.before000510Specs := rfl

/-! ### protobuf struct tags (C05, C06): field numbers, wire types, packedness -/
def tagStr (msg : String) (t : Wire.FieldTag) : String :=
  msg ++ "." ++ t.name ++ "=" ++ toString t.num ++ "," ++ t.wire ++ "," ++ (if t.packedRep then "rep,packed" else "opt")

def modelTags : List String :=
  Wire.array32Schema.map (tagStr "Array32") ++ Wire.bitmapSchema.map (tagStr "Bitmap") ++
  Wire.bitsSchema.map (tagStr "Bits") ++ Wire.slimSchema.map (tagStr "Slim") ++
  Wire.vlenArraySchema.map (tagStr "VLenArray")

/-- every tag in the Go source is a tag of the model's schema tables and vice versa -/
theorem protoTags : (∀ t ∈ Generated.protoTags, t ∈ modelTags) ∧ (∀ t ∈ modelTags, t ∈ Generated.protoTags) := by
  decide

end Bridge
