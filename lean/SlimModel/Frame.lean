import SlimModel.Basic
/-
  SlimModel.Frame — the 32-byte header of `github.com/openacid/low/pbcmpl` (v0.1.21) and the framed
  read `pbcmpl.Unmarshal` performs up to (not including) `proto.Unmarshal` of the body.

    header = Version [16]byte (NUL padded) ‖ HeaderSize uint64 LE (= 32) ‖ BodySize uint64 LE

  `io.ReadFull` on a short input returns io.EOF (nothing read) or io.ErrUnexpectedEOF — both are
  `Err.truncated`.  `make([]byte, hi.GetBodySize())` panics ("makeslice: len out of range") when the
  size, read as int64, is negative or above the allocator limit (`maxAlloc` = 2^48 bytes on
  linux/amd64); below that limit the allocation is attempted and the short read is reported.
-/

namespace Frame

def versionLen : Nat := 16
def headerSize : Nat := 32
/-- runtime `maxAlloc` on 64-bit linux: `make([]byte, n)` panics for `n` above it. -/
def maxAlloc : Nat := 2 ^ 48

/-- The bytes of an (ASCII) version string, one byte per character. -/
def verBytes (s : String) : Bytes := s.toList.map fun c => UInt8.ofNat c.toNat

def dropTrailingNul (bs : Bytes) : Bytes := (bs.reverse.dropWhile (· == 0)).reverse

/-- `verStr`: the version field without its trailing NUL bytes; one character per byte. -/
def verStr (bs : Bytes) : String :=
  String.ofList ((dropTrailingNul bs).map fun b => Char.ofNat b.toNat)

/-- `copy(h.Version[:], ver)` into a zeroed array (Go's `newHeader` panics for longer strings; the
    model truncates, every theorem assumes `≤ 16`). -/
def padVersion (v : Bytes) : Bytes := v.take versionLen ++ List.replicate (versionLen - v.length) 0

/-- `binary.Write(b, LittleEndian, newHeader(ver, bodyLen))` -/
def header (ver : String) (bodyLen : Nat) : Bytes :=
  padVersion (verBytes ver) ++ (leBytes 8 headerSize ++ leBytes 8 bodyLen)

/-- `pbcmpl.Marshal`: header, then body. -/
def frame (ver : String) (body : Bytes) : Bytes := header ver body.length ++ body

structure Header where
  version : String
  headerSize : Nat
  bodySize : Nat
  deriving Repr, DecidableEq, Inhabited

/-- `pbcmpl.ReadHeader`: the header and the bytes after it. -/
def readHeader (bs : Bytes) : Except Err (Header × Bytes) :=
  if bs.length < headerSize then .error .truncated
  else .ok (⟨verStr (bs.take 16), leVal ((bs.drop 16).take 8), leVal ((bs.drop 24).take 8)⟩, bs.drop 32)

/-- `pbcmpl.Unmarshal` up to `proto.Unmarshal`: version, body, bytes left in the reader. -/
def readFrame (bs : Bytes) : Except Err (String × Bytes × Bytes) :=
  match readHeader bs with
  | .error e => .error e
  | .ok (h, r) =>
    if h.headerSize ≠ headerSize then .error (.other "headersize is incorrect")
    else if 2 ^ 63 ≤ h.bodySize ∨ maxAlloc < h.bodySize then .error (.panic "makeslice: len out of range")
    else if r.length < h.bodySize then .error .truncated
    else .ok (h.version, r.take h.bodySize, r.drop h.bodySize)

end Frame
