import SlimProofs.BitsLemmas
/-
  SlimProofs.Refine.ListAux — generic list facts used by the refinement proof:
  the `k`-th element of a `filterMap`, positions selected from `List.range`, slices of `flatten`.
-/

namespace Refine

open Bits

/-- split a list at an index that holds `a` -/
theorem split_at {α : Type} {l : List α} {j : Nat} {a : α} (hj : l[j]? = some a) :
    l = l.take j ++ a :: l.drop (j + 1) := by
  obtain ⟨hlt, rfl⟩ := List.getElem?_eq_some_iff.mp hj
  rw [← List.drop_eq_getElem_cons hlt, List.take_append_drop]

/-- the element that `filterMap` produces from `l[j]` sits at index "number of earlier survivors" -/
theorem getElem?_filterMap_take {α β : Type} (f : α → Option β) (l : List α) (j : Nat) (a : α) (b : β)
    (hj : l[j]? = some a) (hf : f a = some b) :
    (l.filterMap f)[((l.take j).filterMap f).length]? = some b := by
  conv => lhs; arg 1; rw [split_at hj]
  rw [List.filterMap_append, List.getElem?_append_right (Nat.le_refl _), Nat.sub_self,
    List.filterMap_cons, hf]
  rfl

theorem length_filterMap_take_lt {α β : Type} (f : α → Option β) (l : List α) (j : Nat) (a : α) (b : β)
    (hj : l[j]? = some a) (hf : f a = some b) :
    ((l.take j).filterMap f).length < (l.filterMap f).length :=
  (List.getElem?_eq_some_iff.mp (getElem?_filterMap_take f l j a b hj hf)).1

theorem length_filterMap_take_le {α β : Type} (f : α → Option β) (l : List α) (j : Nat) :
    ((l.take j).filterMap f).length ≤ (l.filterMap f).length := by
  conv => rhs; rw [← List.take_append_drop j l, List.filterMap_append, List.length_append]
  omega

/-- counting with a positional predicate that reads the list -/
theorem cnt_eq_countP_take {α : Type} (l : List α) (p : α → Bool) (q : Nat → Bool)
    (hq : ∀ i a, l[i]? = some a → q i = p a) (j : Nat) (hj : j ≤ l.length) :
    cnt q j = (l.take j).countP p := by
  induction j with
  | zero => simp
  | succ j ih =>
    have hlt : j < l.length := by omega
    rw [cnt_succ, ih (by omega), List.take_add_one, List.countP_append,
      List.getElem?_eq_getElem hlt, hq j l[j] (List.getElem?_eq_getElem hlt)]
    simp [List.countP_cons]

/-- positions `< j` among the selected positions of `range l.length` -/
theorem length_filter_lt_filter_range {α : Type} (l : List α) (p : α → Bool) (q : Nat → Bool)
    (hq : ∀ i a, l[i]? = some a → q i = p a) (j : Nat) (hj : j ≤ l.length) :
    (((List.range l.length).filter q).filter (· < j)).length = (l.take j).countP p := by
  rw [← cnt_mem_asc (asc_filter_range q l.length), ← cnt_eq_countP_take l p q hq j hj]
  apply cnt_congr
  intro i hi
  have : i < l.length := by omega
  simp [this]

theorem mem_filter_range_iff {α : Type} (l : List α) (p : α → Bool) (q : Nat → Bool)
    (hq : ∀ i a, l[i]? = some a → q i = p a) (j : Nat) (a : α) (hj : l[j]? = some a) :
    decide (j ∈ (List.range l.length).filter q) = p a := by
  have hlt := (List.getElem?_eq_some_iff.mp hj).1
  rw [← hq j a hj]
  simp [hlt]

theorem countP_isSome_eq_length_filterMap {α β : Type} (f : α → Option β) (l : List α) :
    l.countP (fun a => (f a).isSome) = (l.filterMap f).length :=
  List.length_filterMap_eq_countP.symm

/-! ### slices of a `flatten` -/

theorem take_sum_map_length_succ {α : Type} (ps : List (List α)) (k : Nat) (x : List α)
    (hk : ps[k]? = some x) :
    ((ps.map List.length).take (k + 1)).sum = ((ps.map List.length).take k).sum + x.length := by
  rw [List.take_add_one, List.sum_append, List.getElem?_map, hk]
  simp

theorem drop_take_flatten {α : Type} (ps : List (List α)) (k : Nat) (x : List α)
    (hk : ps[k]? = some x) :
    (ps.flatten.drop ((ps.map List.length).take k).sum).take x.length = x := by
  induction ps generalizing k with
  | nil => simp at hk
  | cons p ps ih =>
    cases k with
    | zero =>
      simp only [List.getElem?_cons_zero, Option.some.injEq] at hk
      subst hk
      simp
    | succ k =>
      simp only [List.getElem?_cons_succ] at hk
      simp only [List.map_cons, List.take_succ_cons, List.sum_cons, List.flatten_cons]
      rw [List.drop_append, List.drop_of_length_le (by omega), List.nil_append,
        show p.length + ((ps.map List.length).take k).sum - p.length
          = ((ps.map List.length).take k).sum by omega]
      exact ih k hk

theorem take_sum_map_length_le {α : Type} (ps : List (List α)) (k : Nat) :
    ((ps.map List.length).take k).sum ≤ ps.flatten.length := by
  rw [List.length_flatten]; exact take_sum_le _ _

/-- sum of a constant-valued map -/
theorem sum_map_const {α : Type} (l : List α) (f : α → Nat) (c : Nat) (h : ∀ a ∈ l, f a = c) :
    (l.map f).sum = l.length * c := by
  induction l with
  | nil => simp
  | cons a l ih =>
    rw [List.map_cons, List.sum_cons, h a (by simp), ih (fun b hb => h b (List.mem_cons_of_mem _ hb)),
      List.length_cons, Nat.succ_mul]
    omega

theorem sum_map_congr {α : Type} (l : List α) (f g : α → Nat) (h : ∀ a ∈ l, f a = g a) :
    (l.map f).sum = (l.map g).sum := by
  induction l with
  | nil => rfl
  | cons a l ih =>
    rw [List.map_cons, List.map_cons, List.sum_cons, List.sum_cons, h a (by simp),
      ih (fun b hb => h b (List.mem_cons_of_mem _ hb))]

/-- elements of `l.take j` are earlier elements of `l` -/
theorem mem_take_iff {α : Type} (l : List α) (j : Nat) (a : α) :
    a ∈ l.take j ↔ ∃ i, i < j ∧ l[i]? = some a := by
  rw [List.mem_iff_getElem?]
  constructor
  · rintro ⟨i, hi⟩
    rw [List.getElem?_take] at hi
    split at hi
    · next h => exact ⟨i, h, hi⟩
    · cases hi
  · rintro ⟨i, h1, h2⟩
    exact ⟨i, by rw [List.getElem?_take, if_pos h1]; exact h2⟩

/-- converse of `getElem?_filterMap_take`: every element of a `filterMap` comes from a position -/
theorem getElem?_filterMap_inv {α β : Type} (f : α → Option β) (l : List α) (m : Nat) (b : β)
    (h : (l.filterMap f)[m]? = some b) :
    ∃ j a, l[j]? = some a ∧ f a = some b ∧ ((l.take j).filterMap f).length = m := by
  induction l generalizing m with
  | nil => simp at h
  | cons a l ih =>
    rw [List.filterMap_cons] at h
    cases hf : f a with
    | none =>
      rw [hf] at h
      obtain ⟨j, a', h1, h2, h3⟩ := ih m h
      refine ⟨j + 1, a', by simpa using h1, h2, ?_⟩
      rw [List.take_succ_cons, List.filterMap_cons, hf]; exact h3
    | some b0 =>
      rw [hf] at h
      cases m with
      | zero =>
        simp only [List.getElem?_cons_zero, Option.some.injEq] at h
        exact ⟨0, a, by simp, by rw [hf, h], by simp⟩
      | succ m =>
        simp only [List.getElem?_cons_succ] at h
        obtain ⟨j, a', h1, h2, h3⟩ := ih m h
        refine ⟨j + 1, a', by simpa using h1, h2, ?_⟩
        rw [List.take_succ_cons, List.filterMap_cons, hf]; simp [h3]

/-- the survivors of the first `j` elements are a prefix of all survivors -/
theorem filterMap_take_eq_take {α β : Type} (f : α → Option β) (l : List α) (j : Nat) :
    (l.take j).filterMap f = (l.filterMap f).take ((l.take j).filterMap f).length := by
  conv => rhs; arg 2; rw [← List.take_append_drop j l, List.filterMap_append]
  rw [List.take_left']
  rfl

end Refine
