import SlimProofs.Agree
import SlimProofs.BuildInv
/-
  SlimProps.C10Agree — the agreement half of property C10:
  "Get, GetID and the exact-match result of Search always agree on whether the query was found
   and on its value, and RangeGet reports found whenever Get does, with the same value."

  (The totality half of C10 — no lookup panics — is a separate file.)

  Proved for the executable model `SlimModel.Query` over a `View`:

  A. for ANY view (L1 record array, bit-level view, even a malformed one) and any key
     * `C10_get_is_getID_hit` / `C10_get_is_getID_miss`   `Get` is `GetID` + `getLeaf` (definitional)
     * `C10_searchID_hit_of_getID_hit`   a `GetID` hit is the exact-match id of `searchID`
     * `C10_search_hit_of_get_hit`       a `Get` hit is the exact-match result of `Search`, same value
     * `C10_rangeGet_extends_get`        a `Get` hit is what `RangeGet` returns, same value
  B. the converse direction (`GetID` misses ⇒ `searchID` has no exact match) is FALSE for arbitrary
     views: `C10_cex1`, `C10_cex2` exhibit two (malformed) views on which `GetID`/`Get` miss while
     `searchID`/`Search`/`RangeGet` report an exact hit.  It holds under two explicit side
     conditions (`Agree.NoEmptyLeafPrefix`, `Agree.NoOverrun`):
     * `C10_searchID_eq_getID_of`, `C10_search_eq_get_of`
  C. both side conditions hold for every well-formed trie (`WF`, i.e. everything `build`
     produces) and every query key, so there the agreement is unconditional:
     * `C10_searchID_eq_getID_WF`, `C10_search_eq_get_WF`, `C10_rangeGet_extends_get_WF`
  D. `WF` discharged by `build_wf` (`SlimProofs.BuildInv`): for every trie `build` returns
     (including the empty one) and every query key
     * `C10_searchID_eq_getID`, `C10_search_eq_get`, `C10_rangeGet_extends_get_built`
-/


/-! ### A. any view -/

/-- `Get` reports a hit with value `x` iff `GetID` returns an id whose leaf holds `x`. -/
theorem C10_get_is_getID_hit (v : View) (key : Bytes) (x : Option Bytes) :
    get v key = .ok (some x) ↔ ∃ id, getID v key = .ok (some id) ∧ getLeaf v id = .ok x :=
  Agree.get_hit_iff v key x

/-- `Get` reports not-found iff `GetID` returns -1. -/
theorem C10_get_is_getID_miss (v : View) (key : Bytes) :
    get v key = .ok none ↔ getID v key = .ok none :=
  Agree.get_miss_iff v key

/-- If `GetID` finds the key then the exact-match id of `searchID` is the same id. -/
theorem C10_searchID_hit_of_getID_hit (v : View) (key : Bytes) (id : Nat)
    (b : Option Nat × Option Nat × Option Nat)
    (hg : getID v key = .ok (some id)) (hs : searchID v key = .ok b) : b.2.1 = some id :=
  Agree.searchID_of_getID_some v key id b hg hs

/-- If `Get` finds the key then the exact-match component of `Search` is the same value. -/
theorem C10_search_hit_of_get_hit (v : View) (key : Bytes) (x : Option Bytes)
    (y : Option (Option Bytes) × Option (Option Bytes) × Option (Option Bytes))
    (hg : get v key = .ok (some x)) (hs : search v key = .ok y) : y.2.1 = some x := by
  obtain ⟨id, hid, hleaf⟩ := (Agree.get_hit_iff v key x).mp hg
  obtain ⟨b, hb, hy⟩ := Agree.search_mid v key y hs
  rw [Agree.searchID_of_getID_some v key id b hid hb] at hy
  obtain ⟨x', hx', hyx⟩ := Agree.leafOf_some v id _ hy
  rw [hleaf] at hx'; cases hx'; exact hyx

/-- `RangeGet` reports found whenever `Get` does, with the same value. -/
theorem C10_rangeGet_extends_get (v : View) (key : Bytes) (x : Option Bytes)
    (y : Option (Option Bytes))
    (hg : get v key = .ok (some x)) (hr : rangeGet v key = .ok y) : y = some x := by
  obtain ⟨id, hid, hleaf⟩ := (Agree.get_hit_iff v key x).mp hg
  obtain ⟨b, hb, hy⟩ := Agree.rangeGet_of_searchID v key y hr
  rw [Agree.searchID_of_getID_some v key id b hid hb] at hy
  obtain ⟨x', hx', hyx⟩ := hy
  rw [hleaf] at hx'; cases hx'; exact hyx

/-! ### B. full agreement needs two side conditions -/

/-- Agreement of the ids: whatever `GetID` answers (an id or -1) is the exact-match id of
    `searchID`, provided no leaf stores an empty leaf prefix and the descent for this key does
    not step past the end of the key. -/
theorem C10_searchID_eq_getID_of (v : View) (key : Bytes) (a : Option Nat)
    (b : Option Nat × Option Nat × Option Nat)
    (hne : Agree.NoEmptyLeafPrefix v) (hov : Agree.NoOverrun v key)
    (hg : getID v key = .ok a) (hs : searchID v key = .ok b) : b.2.1 = a :=
  Agree.searchID_eq_getID_of v key a b hne hov hg hs

/-- Agreement of the values: the exact-match component of `Search` is `Get`'s answer
    (`none` = not found). -/
theorem C10_search_eq_get_of (v : View) (key : Bytes) (a : Option (Option Bytes))
    (y : Option (Option Bytes) × Option (Option Bytes) × Option (Option Bytes))
    (hne : Agree.NoEmptyLeafPrefix v) (hov : Agree.NoOverrun v key)
    (hg : get v key = .ok a) (hs : search v key = .ok y) : y.2.1 = a := by
  cases a with
  | some x => exact C10_search_hit_of_get_hit v key x y hg hs
  | none =>
    have hid := (Agree.get_miss_iff v key).mp hg
    obtain ⟨b, hb, hy⟩ := Agree.search_mid v key y hs
    rw [Agree.searchID_eq_getID_of v key none b hne hov hid hb] at hy
    simp only [Agree.leafOf, pure, Except.pure] at hy
    exact (Except.ok.inj hy).symm

/-- Side condition 1 is necessary: on the one-leaf view `Agree.cex1` (the leaf stores an empty
    leaf prefix) `Get("")` / `GetID("")` miss while `Search("")` and `RangeGet("")` report an
    exact hit. -/
theorem C10_cex1 :
    getID Agree.cex1 [] = .ok none ∧ get Agree.cex1 [] = .ok none ∧
    searchID Agree.cex1 [] = .ok (none, some 0, none) ∧
    search Agree.cex1 [] = .ok (none, some none, none) ∧
    rangeGet Agree.cex1 [] = .ok (some none) := by
  refine ⟨?_, ?_, ?_, ?_, ?_⟩ <;> rfl

/-- Side condition 2 is necessary: on `Agree.cex2` (a 257-bit node at an odd half-byte position)
    the descent for key `0xab` ends at position 3 > 2: `Get` / `GetID` miss, `Search` and
    `RangeGet` report an exact hit. -/
theorem C10_cex2 :
    getID Agree.cex2 [0xab] = .ok none ∧ get Agree.cex2 [0xab] = .ok none ∧
    searchID Agree.cex2 [0xab] = .ok (none, some 1, none) ∧
    search Agree.cex2 [0xab] = .ok (none, some none, none) ∧
    rangeGet Agree.cex2 [0xab] = .ok (some none) := by
  refine ⟨?_, ?_, ?_, ?_, ?_⟩ <;> rfl

/-- Hence the unconditional statement "for every view, `searchID`'s exact-match id equals
    `GetID`'s answer" is false (for the model, and — see `SlimProofs.Agree` — for the Go code on
    such hand-crafted tries). -/
theorem C10_unconditional_agreement_false :
    ¬ ∀ (v : View) (key : Bytes) (a : Option Nat) (b : Option Nat × Option Nat × Option Nat),
      getID v key = .ok a → searchID v key = .ok b → b.2.1 = a := by
  intro h
  have := h Agree.cex1 [] none (none, some 0, none) rfl rfl
  cases this

/-! ### C. well-formed tries: unconditional agreement for every query key -/

theorem C10_searchID_eq_getID_WF (keys : List Bytes) (keep : List Bool) (t : Trie1)
    (hwf : WF keys keep t) (key : Bytes) (a : Option Nat)
    (b : Option Nat × Option Nat × Option Nat)
    (hg : getID t.view key = .ok a) (hs : searchID t.view key = .ok b) : b.2.1 = a :=
  Agree.searchID_eq_getID_of t.view key a b (Agree.noEmptyLeafPrefix_of_WF keys keep t hwf)
    (Agree.noOverrun_of_WF keys keep t hwf key) hg hs

theorem C10_search_eq_get_WF (keys : List Bytes) (keep : List Bool) (t : Trie1)
    (hwf : WF keys keep t) (key : Bytes) (a : Option (Option Bytes))
    (y : Option (Option Bytes) × Option (Option Bytes) × Option (Option Bytes))
    (hg : get t.view key = .ok a) (hs : search t.view key = .ok y) : y.2.1 = a :=
  C10_search_eq_get_of t.view key a y (Agree.noEmptyLeafPrefix_of_WF keys keep t hwf)
    (Agree.noOverrun_of_WF keys keep t hwf key) hg hs

theorem C10_rangeGet_extends_get_WF (keys : List Bytes) (keep : List Bool) (t : Trie1)
    (_hwf : WF keys keep t) (key : Bytes) (x : Option Bytes) (y : Option (Option Bytes))
    (hg : get t.view key = .ok (some x)) (hr : rangeGet t.view key = .ok y) : y = some x :=
  C10_rangeGet_extends_get t.view key x y hg hr


/-! ### D. every trie that `build` returns -/

namespace C10Agree

/-- both side conditions hold for whatever `build` returns, for every query key -/
theorem build_side_conditions (keys : List Bytes) (vals : Option (List Bytes)) (opt : Opt)
    (t : Trie1) (hb : build keys vals opt = .ok t) :
    Agree.NoEmptyLeafPrefix t.view ∧ ∀ key, Agree.NoOverrun t.view key := by
  by_cases hne : keys = []
  · -- the empty trie: no node at all
    subst hne
    have ht : t = Trie1.empty opt := by
      unfold build at hb
      simp only [List.length_nil, if_true] at hb
      cases hb; rfl
    subst ht
    constructor
    · intro id ith h
      simp [Trie1.view, Trie1.empty] at h
    · intro key r h
      simp [getIDLoop, Trie1.view, Trie1.empty, bind, Except.bind] at h
  · have hwf := (build_wf keys vals opt t hb hne).1
    exact ⟨Agree.noEmptyLeafPrefix_of_WF _ _ t hwf, Agree.noOverrun_of_WF _ _ t hwf⟩

end C10Agree

/-- **C10 (ids)**: on every trie returned by `build`, for every query key, the exact-match id
    of `searchID` is `GetID`'s answer (an id or -1). -/
theorem C10_searchID_eq_getID (keys : List Bytes) (vals : Option (List Bytes)) (opt : Opt)
    (t : Trie1) (hb : build keys vals opt = .ok t) (key : Bytes) (a : Option Nat)
    (b : Option Nat × Option Nat × Option Nat)
    (hg : getID t.view key = .ok a) (hs : searchID t.view key = .ok b) : b.2.1 = a :=
  have h := C10Agree.build_side_conditions keys vals opt t hb
  Agree.searchID_eq_getID_of t.view key a b h.1 (h.2 key) hg hs

/-- **C10 (values)**: on every trie returned by `build`, for every query key, the exact-match
    component of `Search` is `Get`'s answer (found or not, and the value). -/
theorem C10_search_eq_get (keys : List Bytes) (vals : Option (List Bytes)) (opt : Opt)
    (t : Trie1) (hb : build keys vals opt = .ok t) (key : Bytes) (a : Option (Option Bytes))
    (y : Option (Option Bytes) × Option (Option Bytes) × Option (Option Bytes))
    (hg : get t.view key = .ok a) (hs : search t.view key = .ok y) : y.2.1 = a :=
  have h := C10Agree.build_side_conditions keys vals opt t hb
  C10_search_eq_get_of t.view key a y h.1 (h.2 key) hg hs

/-- **C10 (RangeGet)** on built tries (an instance of `C10_rangeGet_extends_get`). -/
theorem C10_rangeGet_extends_get_built (keys : List Bytes) (vals : Option (List Bytes))
    (opt : Opt) (t : Trie1) (_hb : build keys vals opt = .ok t) (key : Bytes) (x : Option Bytes)
    (y : Option (Option Bytes))
    (hg : get t.view key = .ok (some x)) (hr : rangeGet t.view key = .ok y) : y = some x :=
  C10_rangeGet_extends_get t.view key x y hg hr

/-! ### non-vacuity

  The hypotheses (`… = .ok _`: the lookups return normally) hold on concrete tries built by the
  executable model — present keys, a dropped key, absent keys shorter / longer than the indexed
  keys, bytes ≥ 0x80 — and the conclusions are what the model computes there.
  Kernel evaluation (`decide +kernel`), no `native_decide`. -/
namespace C10Agree.Ex

def keys : List Bytes := [[0x61], [0x61, 0x62], [0x61, 0x80, 0x01], [0x62, 0xff], [0xf0]]
def vals : List Bytes := [[1], [1], [2], [2, 0], [3]]
def queries : List Bytes :=
  keys ++ [[], [0x60], [0x61, 0x80], [0x61, 0x80, 0x01, 0x00], [0x62], [0xff, 0xff, 0xff], [0x00]]

/-- all five lookups return normally on `key` and agree as C10 demands -/
def agreeOn (opt : Opt) (key : Bytes) : Bool :=
  match build keys (some vals) opt with
  | .error _ => false
  | .ok t =>
    match getID t.view key, searchID t.view key, get t.view key, search t.view key,
        rangeGet t.view key with
    | .ok a, .ok b, .ok g, .ok s, .ok r =>
      (b.2.1 == a) && (s.2.1 == g) && (a.isSome == g.isSome) && (!g.isSome || r == g)
    | _, _, _, _, _ => false

def hits (opt : Opt) : List Bool :=
  match build keys (some vals) opt with
  | .error _ => []
  | .ok t => queries.map fun q =>
    match getID t.view q with
    | .ok (some _) => true
    | _ => false

example : queries.all (agreeOn {}) = true := by decide +kernel
example : queries.all (agreeOn { dedup := false, inner := true, leaf := true }) = true := by
  decide +kernel
example : queries.all (agreeOn { dedup := true, inner := false, leaf := true }) = true := by
  decide +kernel
-- with complete prefixes exactly the retained keys are hits, everything else is a miss
example : hits { dedup := true, inner := true, leaf := true }
    = [true, false, true, true, true, false, false, false, false, false, false, false] := by
  decide +kernel

/-- the side conditions of part B are satisfiable together with the other hypotheses -/
def oneLeaf : View where
  isEmpty := false
  nodeCnt := 1
  node := fun id => if id = 0 then .ok (.leaf 0 none) else .error (.panic "node id out of range")
  leafPrefixesOn := true
  scanOK := true
  leafBytes := fun _ => .ok none

example : Agree.NoEmptyLeafPrefix oneLeaf := by
  intro id ith h
  simp only [oneLeaf] at h
  split at h <;> cases h

example : Agree.NoOverrun oneLeaf [] := by
  intro r h
  have : getIDLoop oneLeaf (nibs []) (oneLeaf.nodeCnt + 1) 0 0 = .ok (some ⟨0, 0, none⟩) := rfl
  rw [this] at h; cases h; exact Nat.le_refl _

example : getID oneLeaf [] = .ok (some 0) ∧ searchID oneLeaf [] = .ok (none, some 0, none) :=
  ⟨rfl, rfl⟩

end C10Agree.Ex

#print axioms C10_get_is_getID_hit
#print axioms C10_get_is_getID_miss
#print axioms C10_searchID_hit_of_getID_hit
#print axioms C10_search_hit_of_get_hit
#print axioms C10_rangeGet_extends_get
#print axioms C10_searchID_eq_getID_of
#print axioms C10_search_eq_get_of
#print axioms C10_cex1
#print axioms C10_cex2
#print axioms C10_unconditional_agreement_false
#print axioms C10_searchID_eq_getID_WF
#print axioms C10_search_eq_get_WF
#print axioms C10_rangeGet_extends_get_WF
#print axioms C10_searchID_eq_getID
#print axioms C10_search_eq_get
#print axioms C10_rangeGet_extends_get_built
