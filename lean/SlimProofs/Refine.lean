import SlimProofs.Refine.Inner
import SlimProofs.BuildShape
/-
  SlimProofs.Refine — the refinement theorem between the bit level (L2, `Slim.encode` read back
  by `Slim.getNode`) and the record level (L1, the node array of `Trie1`):

    `getNode_encode : ShapeOK t → id < t.nodes.size → Slim.getNode (Slim.encode t) id = .ok t.nodes[id]`

  plus the flags of the view (`view_encode_*`) and the node-count bound.
  Helper files: `Refine/ListAux` (lists), `Refine/Enc` (the components of `encodeCreator`),
  `Refine/ShortTable` (statistics, `shortTable`, `findMinShortSize`), `Refine/Extract`
  (`extractShort`, `labelsIn`), `Refine/Sub` (the substitution list, offsets), `Refine/Prefix`
  (`bitstr`, `encStep`, slices), `Refine/Leaf` (node type bitmap, leaf case), `Refine/Inner`
  (`innerFrom`, labels, `firstChild`, prefix presence).
-/

namespace Refine

open Bits Slim

/-! ### `getNode` on an arbitrary message, assembled from its steps -/

theorem getNode_leaf_of (s : SlimMsg) (id ith : Nat) (nt : BitmapMsg) (lp : Option Bytes)
    (h1 : s.nodeTypeBM = some nt) (h2 : rank64 nt id = .ok (ith, false))
    (h3 : getLeafPrefix s (id - ith) = .ok lp) :
    getNode s id = .ok (.leaf (id - ith) lp) := by
  unfold getNode
  simp only [h1, h2, h3, bind, Except.bind, pure, Except.pure, Bool.not_false, if_true]

theorem getNode_inner_nopref (s : SlimMsg) (id ith frm size r0 : Nat) (short : Option Nat) (b0 : Bool)
    (nt inn : BitmapMsg) (ips : VLenArrayMsg)
    (h1 : s.nodeTypeBM = some nt) (h2 : rank64 nt id = .ok (ith, true))
    (h3 : innerFrom s ith = .ok (frm, size, short)) (h4 : s.inners = some inn)
    (h6 : rank128 inn frm = .ok (r0, b0)) (h7 : s.innerPrefixes = some ips)
    (hp : ips.eltCnt = 0) :
    getNode s id = .ok (.inner ⟨decide (ith < s.bigInnerCnt),
      labelsOf short inn.words frm size, r0 + 1, Pref.none⟩) := by
  unfold getNode
  simp only [h1, h2, h3, h4, h6, h7, hp, bind, Except.bind, pure, Except.pure, Bool.not_true,
    Bool.false_eq_true, if_false, if_true]
  cases short <;> rfl

theorem getNode_inner_absent (s : SlimMsg) (id ith frm size r0 w : Nat) (short : Option Nat) (b0 : Bool)
    (nt inn pres : BitmapMsg) (ips : VLenArrayMsg)
    (h1 : s.nodeTypeBM = some nt) (h2 : rank64 nt id = .ok (ith, true))
    (h3 : innerFrom s ith = .ok (frm, size, short)) (h4 : s.inners = some inn)
    (h6 : rank128 inn frm = .ok (r0, b0)) (h7 : s.innerPrefixes = some ips)
    (hp : ¬ ips.eltCnt = 0) (hp1 : ips.presenceBM = some pres)
    (hp2 : pres.words[ith / 64]? = some w) (hp3 : w.testBit (ith % 64) = false) :
    getNode s id = .ok (.inner ⟨decide (ith < s.bigInnerCnt),
      labelsOf short inn.words frm size, r0 + 1, Pref.none⟩) := by
  unfold getNode
  simp only [h1, h2, h3, h4, h6, h7, hp, hp1, hp2, hp3, bind, Except.bind, pure, Except.pure,
    Bool.not_true, Bool.not_false, Bool.false_eq_true, if_false, if_true]
  cases short <;> rfl

theorem getNode_inner_stored (s : SlimMsg) (id ith frm size r0 w k a b : Nat) (short : Option Nat)
    (b0 b1 : Bool) (nt inn pres pos : BitmapMsg) (ips : VLenArrayMsg) (bs : Bytes)
    (h1 : s.nodeTypeBM = some nt) (h2 : rank64 nt id = .ok (ith, true))
    (h3 : innerFrom s ith = .ok (frm, size, short)) (h4 : s.inners = some inn)
    (h6 : rank128 inn frm = .ok (r0, b0)) (h7 : s.innerPrefixes = some ips)
    (hp : ¬ ips.eltCnt = 0) (hp1 : ips.presenceBM = some pres)
    (hp2 : pres.words[ith / 64]? = some w) (hp3 : w.testBit (ith % 64) = true)
    (hp4 : rank128 pres ith = .ok (k, b1)) (hp5 : ips.positionBM = some pos)
    (hp6 : select32R64 pos k = .ok (a, b)) (hp7 : sliceBytes ips.bytes a b = .ok bs)
    (hp8 : bs.isEmpty = false) :
    getNode s id = .ok (.inner ⟨decide (ith < s.bigInnerCnt),
      labelsOf short inn.words frm size, r0 + 1, Pref.stored (bitstrNibs bs)⟩) := by
  unfold getNode
  simp only [h1, h2, h3, h4, h6, h7, hp, hp1, hp2, hp3, hp4, hp5, hp6, hp7, hp8, bind, Except.bind,
    pure, Except.pure, Bool.not_true, Bool.false_eq_true, if_false]
  cases short <;> rfl

theorem getNode_inner_step (s : SlimMsg) (id ith frm size r0 w k : Nat) (short : Option Nat)
    (b0 b1 : Bool) (nt inn pres : BitmapMsg) (ips : VLenArrayMsg) (y0 y1 : UInt8)
    (h1 : s.nodeTypeBM = some nt) (h2 : rank64 nt id = .ok (ith, true))
    (h3 : innerFrom s ith = .ok (frm, size, short)) (h4 : s.inners = some inn)
    (h6 : rank128 inn frm = .ok (r0, b0)) (h7 : s.innerPrefixes = some ips)
    (hp : ¬ ips.eltCnt = 0) (hp1 : ips.presenceBM = some pres)
    (hp2 : pres.words[ith / 64]? = some w) (hp3 : w.testBit (ith % 64) = true)
    (hp4 : rank128 pres ith = .ok (k, b1)) (hp5 : ips.positionBM = none)
    (hp6 : ips.bytes[k * 2]? = some y0) (hp7 : ips.bytes[k * 2 + 1]? = some y1) :
    getNode s id = .ok (.inner ⟨decide (ith < s.bigInnerCnt),
      labelsOf short inn.words frm size, r0 + 1, Pref.step (decStep y0 y1)⟩) := by
  unfold getNode
  simp only [h1, h2, h3, h4, h6, h7, hp, hp1, hp2, hp3, hp4, hp5, hp6, hp7, bind, Except.bind,
    pure, Except.pure, Bool.not_true, Bool.false_eq_true, if_false]
  cases short <;> rfl

/-! ### the two cases on the encoded trie -/

theorem enc_nodeTypeBM' (t : Trie1) (hne : 0 < t.nodes.size) :
    (encodeCreator t).nodeTypeBM = some (newBM (eInnerIdx t) t.nodes.size "r64") := by
  rw [enc_nodeTypeBM, if_neg (by omega)]

theorem getNode_encodeCreator_leaf {t : Trie1} (hs : ShapeOK t) (id ith : Nat) (lp : Option Bytes)
    (hn : t.nodes[id]? = some (.leaf ith lp)) :
    getNode (encodeCreator t) id = .ok (.leaf ith lp) := by
  have hid : id < t.nodes.size := (Array.getElem?_eq_some_iff.mp hn).1
  have hrank := rank_nodeType t id _ hn
  have hsum := leaves_add_inners t.nodes id (by omega)
  have hord := hs.leafOrd id ith lp hn
  have hq : id - (innersBefore t.nodes id).length = leavesBefore t.nodes id := by omega
  have := getNode_leaf_of (encodeCreator t) id _ _ lp (enc_nodeTypeBM' t hs.nonempty) hrank
    (by rw [hq]; exact getLeafPrefix_encode hs id ith lp hn)
  rw [this, hq, hord]

theorem getNode_encodeCreator_inner {t : Trie1} (hs : ShapeOK t) (id : Nat) (r : InnerRec)
    (hn : t.nodes[id]? = some (.inner r)) :
    getNode (encodeCreator t) id = .ok (.inner r) := by
  have hrank := rank_nodeType t id _ hn
  have hr := inner_index t id r hn
  generalize hm : (innersBefore t.nodes id).length = m at hrank hr
  have hfrom := innerFrom_encode hs m r hr
  have hlabels := labels_encode hs m r hr
  obtain ⟨b0, hfc⟩ := rank128_encode hs m r hr
  have hfirst : (((eInners t).take m).map (fun r => r.labels.length)).sum + 1 = r.firstChild := by
    rw [hs.firstChild id r hn, innersBefore_eq_take t id, hm]; omega
  have hbig : decide (m < (encodeCreator t).bigInnerCnt) = r.big := by
    rw [enc_bigInnerCnt]
    have := rec_big hs hr
    cases hb : r.big with
    | true => simp [this.mp hb]
    | false =>
      have : ¬ m < t.bigCnt := fun h => by rw [this.mpr h] at hb; cases hb
      simp [this]
  have hnt := enc_nodeTypeBM' t hs.nonempty
  have hprefOK := rec_pref hs hr
  -- the record, reassembled
  have hfinal : ∀ p, p = r.pref →
      Node.inner ⟨decide (m < (encodeCreator t).bigInnerCnt),
        labelsOf (if (subOf (eMostUsed t) (eShortSize t) r).2.2 then some (bm17 r.labels) else none)
          (eInnersBM t).words (baseOf t m) (subOf (eMostUsed t) (eShortSize t) r).2.1,
        (((eInners t).take m).map (fun r => r.labels.length)).sum + 1,
        p⟩ = Node.inner r := by
    intro p hp
    rw [hlabels, hfirst, hbig, hp]
  by_cases hcnt : (eIps t).eltCnt = 0
  · -- no inner node has a prefix
    have hp : hasPref r = false := by
      cases h : hasPref r with
      | false => rfl
      | true =>
        have := prefIdx_pos_of_hasPref t m r hr h
        rw [eIps_eltCnt] at hcnt; omega
    rw [getNode_inner_nopref _ id m _ _ _ _ b0 _ _ _ hnt hrank hfrom (enc_inners t) hfc
      (enc_innerPrefixes t) hcnt]
    rw [hfinal _ (pref_none_of_not_hasPref r hp).symm]
  · obtain ⟨w, hw, hbit, b1, hrk⟩ := pref_presence t m r hr
    cases hp : hasPref r with
    | false =>
      rw [hp] at hbit
      rw [getNode_inner_absent _ id m _ _ _ w _ b0 _ _ _ _ hnt hrank hfrom (enc_inners t) hfc
        (enc_innerPrefixes t) hcnt (eIps_presenceBM t) hw hbit]
      rw [hfinal _ (pref_none_of_not_hasPref r hp).symm]
    | true =>
      rw [hp] at hbit
      cases hi : t.opt.inner with
      | true =>
        -- stored prefixes
        cases hpr : r.pref with
        | none => unfold hasPref at hp; rw [hpr] at hp; cases hp
        | step n => rw [hpr] at hprefOK; have := hprefOK.1; rw [hi] at this; cases this
        | stored ns =>
          rw [hpr] at hprefOK
          rw [countP_hasPref_stored hs hi m] at hrk
          have hk : (eStoredPs t)[(((eInners t).take m).filterMap storedOf).length]?
              = some (bitstrOf ns) :=
            getElem?_filterMap_take storedOf _ m r _ hr (by unfold storedOf; rw [hpr])
          have hklt := (List.getElem?_eq_some_iff.mp hk).1
          have hpos : (eIps t).positionBM
              = some (newBM (stepToPos ((eStoredPs t).map List.length)) 0 "s32") := by
            unfold eIps; rw [if_pos hi]
          have hbytes : (eIps t).bytes = (eStoredPs t).flatten := by
            unfold eIps; rw [if_pos hi]
          have hsel := select32R64_positions_pos _ (eStoredPs_pos t) _
            (by rw [List.length_map]; exact hklt)
          have hslice := sliceBytes_flatten _ _ _ hk
          rw [← hbytes] at hslice
          have hne : (bitstrOf ns).isEmpty = false := by
            have := bitstrOf_ne_nil ns
            cases h : bitstrOf ns with
            | nil => exact absurd h this
            | cons _ _ => rfl
          rw [getNode_inner_stored _ id m _ _ _ w _ _ _ _ b0 b1 _ _ _ _ _ _ hnt hrank hfrom
            (enc_inners t) hfc (enc_innerPrefixes t) hcnt (eIps_presenceBM t) hw hbit hrk hpos hsel
            hslice hne]
          rw [hfinal _ (by rw [hpr, bitstrNibs_bitstrOf ns hprefOK.2.2])]
      | false =>
        -- step prefixes
        cases hpr : r.pref with
        | none => unfold hasPref at hp; rw [hpr] at hp; cases hp
        | stored ns => rw [hpr] at hprefOK; have := hprefOK.1; rw [hi] at this; cases this
        | step n =>
          rw [hpr] at hprefOK
          rw [countP_hasPref_step hs hi m] at hrk
          have hk : ((eInners t).filterMap stepOf)[(((eInners t).take m).filterMap stepOf).length]?
              = some [UInt8.ofNat (n / 256), UInt8.ofNat (n % 256)] :=
            getElem?_filterMap_take stepOf _ m r _ hr (by unfold stepOf; rw [hpr]; rfl)
          have hpos : (eIps t).positionBM = none := by
            unfold eIps; rw [if_neg (by rw [hi]; simp)]
          have hbytes : (eIps t).bytes = ((eInners t).filterMap stepOf).flatten := by
            unfold eIps; rw [if_neg (by rw [hi]; simp)]
          have hlen2 : ∀ p ∈ (eInners t).filterMap stepOf, p.length = 2 := by
            intro p hp'
            simp only [List.mem_filterMap] at hp'
            obtain ⟨r', _, hr'⟩ := hp'
            unfold stepOf at hr'
            split at hr'
            · simp only [Option.some.injEq] at hr'; subst hr'; rfl
            · cases hr'
          obtain ⟨hy0, hy1⟩ := flatten_pair_getElem? _ hlen2 _ _ _ hk
          rw [← hbytes] at hy0 hy1
          rw [getNode_inner_step _ id m _ _ _ w _ _ b0 b1 _ _ _ _ _ _ hnt hrank hfrom
            (enc_inners t) hfc (enc_innerPrefixes t) hcnt (eIps_presenceBM t) hw hbit hrk hpos hy0 hy1]
          rw [hfinal _ (by rw [hpr, decStep_encStep n hprefOK.2.2])]

end Refine

open Refine in
/-- **Refinement, L2 ⊑ L1**: reading node `id` out of the encoded message gives back the record. -/
theorem getNode_encode (t : Trie1) (h : ShapeOK t) (id : Nat) (hid : id < t.nodes.size) :
    Slim.getNode (Slim.encode t) id = .ok t.nodes[id] := by
  rw [encode_eq t (by have := h.nonempty; omega)]
  have hn : t.nodes[id]? = some t.nodes[id] := Array.getElem?_eq_getElem hid
  generalize t.nodes[id] = n at hn
  cases n with
  | inner r => exact getNode_encodeCreator_inner h id r hn
  | leaf ith lp => exact getNode_encodeCreator_leaf h id ith lp hn

/-- the same through the two views -/
theorem view_encode_node (t : Trie1) (h : ShapeOK t) (id : Nat) (hid : id < t.nodes.size) :
    (Slim.view (Slim.encode t)).node id = t.view.node id := by
  show Slim.getNode (Slim.encode t) id = _
  rw [getNode_encode t h id hid]
  simp [Trie1.view, Array.getElem?_eq_getElem hid]

theorem view_encode_isEmpty (t : Trie1) (h : ShapeOK t) :
    (Slim.view (Slim.encode t)).isEmpty = false := by
  have hne : t.nodes.size ≠ 0 := by have := h.nonempty; omega
  rw [Refine.encode_eq t hne]
  simp [Slim.view, Refine.enc_nodeTypeBM, hne]

theorem view_encode_leafPrefixesOn (t : Trie1) (h : ShapeOK t) :
    (Slim.view (Slim.encode t)).leafPrefixesOn = t.opt.leaf := by
  have hne : t.nodes.size ≠ 0 := by have := h.nonempty; omega
  rw [Refine.encode_eq t hne]
  simp only [Slim.view, Refine.enc_leafPrefixes, Refine.eLps]
  cases t.opt.leaf <;> rfl

theorem view_encode_scanOK (t : Trie1) (h : ShapeOK t) :
    (Slim.view (Slim.encode t)).scanOK = (t.opt.inner && t.opt.leaf) := by
  have hne : t.nodes.size ≠ 0 := by have := h.nonempty; omega
  rw [Refine.encode_eq t hne]
  simp only [Slim.view, Refine.enc_leafPrefixes, Refine.enc_innerPrefixes, Refine.eLps, Refine.eIps]
  cases t.opt.leaf <;> cases t.opt.inner <;> rfl

/-- the fuel of every descent on the bit level covers all nodes -/
theorem view_encode_nodeCnt (t : Trie1) (h : ShapeOK t) :
    t.nodes.size ≤ (Slim.view (Slim.encode t)).nodeCnt := by
  have hne : t.nodes.size ≠ 0 := by have := h.nonempty; omega
  rw [Refine.encode_eq t hne]
  simp only [Slim.view, Slim.nodeCount, Refine.enc_nodeTypeBM' t h.nonempty, Bits.newBM_words_r64]
  have := Refine.ofIdx_capa_le (Refine.eInnerIdx t) t.nodes.size
  omega

/-- everything a query on the bit-level view can observe agrees with the record-level view
    (leaf values excepted: `leafBytes` is the subject of the `VLenArray` lemmas) -/
theorem view_encode_refines (t : Trie1) (h : ShapeOK t) :
    (∀ id, id < t.nodes.size → (Slim.view (Slim.encode t)).node id = t.view.node id)
    ∧ (Slim.view (Slim.encode t)).isEmpty = t.view.isEmpty
    ∧ (Slim.view (Slim.encode t)).leafPrefixesOn = t.view.leafPrefixesOn
    ∧ (Slim.view (Slim.encode t)).scanOK = t.view.scanOK
    ∧ t.view.nodeCnt ≤ (Slim.view (Slim.encode t)).nodeCnt := by
  refine ⟨fun id hid => view_encode_node t h id hid, ?_, view_encode_leafPrefixesOn t h,
    view_encode_scanOK t h, view_encode_nodeCnt t h⟩
  rw [view_encode_isEmpty t h]
  have hne : t.nodes.size ≠ 0 := by have := h.nonempty; omega
  simp [Trie1.view, hne]

/-- for every trie that `build` (= `newSlim`) produces from a non-empty key list -/
theorem getNode_encode_build (keys : List Bytes) (vals : Option (List Bytes)) (opt : Opt) (t : Trie1)
    (hb : build keys vals opt = .ok t) (hne : keys ≠ []) (id : Nat) (hid : id < t.nodes.size) :
    Slim.getNode (Slim.encode t) id = .ok t.nodes[id] :=
  getNode_encode t (build_shape keys vals opt t hb hne) id hid

/-! ### non-vacuity: a concrete trie satisfying `ShapeOK` -/

namespace Refine

/-- a hand-made three-node trie: a root with labels 2, 3 and a stored prefix, two leaves, the
    second with a stored tail -/
def exT : Trie1 :=
  { opt := { dedup := true, inner := true, leaf := true }
    nodes := #[.inner { big := false, labels := [2, 3], firstChild := 1, pref := .stored [6] },
               .leaf 0 none, .leaf 1 (some [0x63])]
    bigCnt := 0, leafKeyIdx := #[0, 1], elts := none }

theorem exT_shape : ShapeOK exT := by
  constructor
  · decide
  · intro j r h
    rcases j with _ | _ | _ | j <;> simp [exT] at h
    subst h; simp [exT, innersBefore]
  · simp [exT, innersBefore]
  · intro j ith lp h
    rcases j with _ | _ | _ | j <;> simp [exT] at h
    · obtain ⟨rfl, rfl⟩ := h; simp [exT, leavesBefore, Node.isInner]
    · obtain ⟨rfl, rfl⟩ := h; simp [exT, leavesBefore, Node.isInner]
  · intro j r h
    rcases j with _ | _ | _ | j <;> simp [exT] at h
    subst h; simp [labelBound]
  · intro j r h
    rcases j with _ | _ | _ | j <;> simp [exT] at h
    subst h; simp [exT, innersBefore]
  · intro j r h
    rcases j with _ | _ | _ | j <;> simp [exT] at h
    subst h; simp [PrefOK, exT]
  · intro j ith b h
    rcases j with _ | _ | _ | j <;> simp [exT] at h
    obtain ⟨rfl, rfl⟩ := h; simp [exT]
  · simp [exT, leavesBefore, Node.isInner]
  · intro es h; simp [exT] at h

example : Slim.getNode (Slim.encode exT) 0
    = .ok (.inner { big := false, labels := [2, 3], firstChild := 1, pref := .stored [6] }) :=
  getNode_encode exT exT_shape 0 (by decide)
example : Slim.getNode (Slim.encode exT) 2 = .ok (.leaf 1 (some [0x63])) :=
  getNode_encode exT exT_shape 2 (by decide)

end Refine

#print axioms getNode_encode
#print axioms view_encode_node
#print axioms view_encode_nodeCnt
#print axioms view_encode_refines
#print axioms getNode_encode_build
