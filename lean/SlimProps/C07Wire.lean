import SlimProofs.WireMarshal
/-
  C07 (wire half) — "a stream whose header version is outside the compatible set (any newer or
  unknown version, or an unparsable version string) is rejected with the incompatibility error, and
  every strict prefix of a valid stream, i.e. a write interrupted at any byte, is rejected with an
  error rather than a panic or a silently half-built index." (paraphrased)

  Objects: `Version.parseSemver / isCompatible` = `semver.Parse` / `vers.IsCompatible(ver,
  st.compatibleVersions())`; `unmarshalDispatch` = `(*SlimTrie).Unmarshal` at byte level
  (`SlimModel/Marshal.lean`).  The state half ("after a rejected load the instance is empty") is with
  the instance machine of the trie model: `Unmarshal` clears `st.inner` before it reads anything.

  Hypotheses: `VersionOK v` (what fits the 16-byte header field: ASCII, ≤ 16 bytes, no trailing NUL —
  `verStr` strips those), `BodyOK body` (≤ 2^48 bytes, the bodies `make([]byte, n)` can allocate).
-/
open Wire Frame Version

/-- The accepted version strings, exactly: strings `semver.Parse` accepts, without a pre-release
    part, whose numbers are one of the six listed triples.  Build meta data is immaterial
    (`0.5.12+b` is accepted); everything else — newer, older, pre-release, unparsable — is not. -/
theorem C07_version (s : String) :
    isCompatible s = true ↔
      ∃ M m p pre bld, parseSemver s = some ⟨M, m, p, pre, bld⟩ ∧ pre = [] ∧
        (M, m, p) ∈ [(1, 0, 0), (0, 5, 8), (0, 5, 9), (0, 5, 10), (0, 5, 11), (0, 5, 12)] := by
  rw [isCompatible_iff]
  constructor
  · rintro ⟨⟨M, m, p, pre, bld⟩, h1, h2, h3⟩
    exact ⟨M, m, p, pre, bld, h1, h2, h3⟩
  · rintro ⟨M, m, p, pre, bld, h1, h2, h3⟩
    exact ⟨⟨M, m, p, pre, bld⟩, h1, h2, h3⟩

/-- Rejection happens on the 16 version bytes alone: whatever the size fields say and whatever
    follows the header, the answer is the incompatibility error. -/
theorem C07_incompatible_first (buf : Bytes) (hlen : 32 ≤ buf.length)
    (hv : isCompatible (verStr (buf.take 16)) = false) :
    unmarshalDispatch buf = .error .incompatible := unmarshal_incompatible buf hlen hv

theorem C07_incompatible_header (v : String) (hv : VersionOK v) (hc : isCompatible v = false)
    (n : Nat) (hn : n < 2 ^ 64) (tail : Bytes) :
    unmarshalDispatch (header v n ++ tail) = .error .incompatible :=
  unmarshal_incompatible_header v hv hc n hn tail

/-- Which branch of `Unmarshal` a compatible version takes. -/
theorem C07_dispatch (s : String) (h : isCompatible s = true) :
    ∃ v, parseSemver s = some v ∧ v.pre = [] ∧
      (((v.major, v.minor, v.patch) = (0, 5, 12) ∧ isCurrentLayout s = true ∧ before000512 s = false) ∨
       ((v.major, v.minor, v.patch) ∈ [(0, 5, 10), (0, 5, 11)] ∧ isCurrentLayout s = true ∧ before000512 s = true) ∨
       ((v.major, v.minor, v.patch) ∈ [(1, 0, 0), (0, 5, 8), (0, 5, 9)] ∧ isCurrentLayout s = false ∧
          before000510 s = true)) := dispatch_of_compatible s h

/-- Every strict prefix of a marshalled trie is rejected, as a short read. -/
theorem C07_truncated (m : SlimMsg) (hb : BodyOK (encodeSlim m)) (cut : Nat) (hcut : cut < (marshalSlim m).length) :
    unmarshalDispatch ((marshalSlim m).take cut) = .error .truncated := unmarshal_take_marshal m hb cut hcut

/-- The same for one frame with any compatible version string and any body (this covers 0.5.10 and
    0.5.11 streams, and the first section of the legacy layout), whatever bytes follow the frame. -/
theorem C07_truncated_frame (v : String) (hv : VersionOK v) (hc : isCompatible v = true) (body : Bytes)
    (hb : BodyOK body) (rest : Bytes) (cut : Nat) (hcut : cut < (frame v body).length) :
    unmarshalDispatch ((frame v body ++ rest).take cut) = .error .truncated :=
  unmarshal_take_frame v hv hc body hb rest cut hcut

/-- The three-section layout (versions 1.0.0, 0.5.8, 0.5.9): every strict prefix of
    `frame v a ++ frame v₂ b ++ frame v₃ c` is rejected — as a short read, unless a section that is
    already complete is itself undecodable, in which case with that section's decoding error. -/
theorem C07_truncated_legacy3 (v v2 v3 : String) (hv : VersionOK v) (hv2 : VersionOK v2) (hv3 : VersionOK v3)
    (hc : isCompatible v = true) (hl : isCurrentLayout v = false)
    (a b c : Bytes) (ha : BodyOK a) (hb : BodyOK b) (hcb : BodyOK c) (cut : Nat)
    (hcut : cut < (frame v a ++ (frame v2 b ++ frame v3 c)).length) :
    let r := unmarshalDispatch ((frame v a ++ (frame v2 b ++ frame v3 c)).take cut)
    r = .error .truncated ∨ (∃ e, decodeArray32 a = .error e ∧ r = .error e) ∨
      (∃ e, decodeArray32 b = .error e ∧ r = .error e) :=
  unmarshal_take_legacy3 v v2 v3 hv hv2 hv3 hc hl a b c ha hb hcb cut hcut

/-- … in every case an error, never a load. -/
theorem C07_truncated_legacy3_rejected (v v2 v3 : String) (hv : VersionOK v) (hv2 : VersionOK v2)
    (hv3 : VersionOK v3) (hc : isCompatible v = true) (hl : isCurrentLayout v = false)
    (a b c : Bytes) (ha : BodyOK a) (hb : BodyOK b) (hcb : BodyOK c) (cut : Nat)
    (hcut : cut < (frame v a ++ (frame v2 b ++ frame v3 c)).length) :
    ∃ e, unmarshalDispatch ((frame v a ++ (frame v2 b ++ frame v3 c)).take cut) = .error e := by
  rcases C07_truncated_legacy3 v v2 v3 hv hv2 hv3 hc hl a b c ha hb hcb cut hcut with h | ⟨e, _, h⟩ | ⟨e, _, h⟩
  · exact ⟨_, h⟩
  · exact ⟨e, h⟩
  · exact ⟨e, h⟩

/-- … and as a short read when the complete sections are decodable (every stream a writer produced). -/
theorem C07_truncated_legacy3_wellformed (v v2 v3 : String) (hv : VersionOK v) (hv2 : VersionOK v2)
    (hv3 : VersionOK v3) (hc : isCompatible v = true) (hl : isCurrentLayout v = false)
    (a b c : Array32Msg) (ha : BodyOK (encodeArray32 a)) (hb : BodyOK (encodeArray32 b))
    (hcb : BodyOK (encodeArray32 c))
    (hwa : a.WF) (hna : a.NF) (hwb : b.WF) (hnb : b.NF) (cut : Nat)
    (hcut : cut < (frame v (encodeArray32 a) ++ (frame v2 (encodeArray32 b) ++ frame v3 (encodeArray32 c))).length) :
    unmarshalDispatch ((frame v (encodeArray32 a) ++ (frame v2 (encodeArray32 b) ++
      frame v3 (encodeArray32 c))).take cut) = .error .truncated := by
  have sa : (encodeArray32 a).length < 2 ^ 64 := by unfold BodyOK maxAlloc at ha; omega
  have sb : (encodeArray32 b).length < 2 ^ 64 := by unfold BodyOK maxAlloc at hb; omega
  rcases C07_truncated_legacy3 v v2 v3 hv hv2 hv3 hc hl _ _ _ ha hb hcb cut hcut with h | ⟨e, he, _⟩ | ⟨e, he, _⟩
  · exact h
  · rw [decodeArray32_encode a hwa hna sa] at he; cases he
  · rw [decodeArray32_encode b hwb hnb sb] at he; cases he

/-! ### non-vacuity -/

example : isCompatible "0.5.12" = true := by decide
example : isCompatible "0.5.12+b" = true := by decide
example : isCompatible "1.0.0" = true := by decide
example : isCompatible "0.5.13" = false := by decide
example : isCompatible "0.5.12-rc1" = false := by decide
example : isCompatible "0.6.0" = false := by decide
example : isCompatible "1.0.1" = false := by decide
example : isCompatible "2.0.0" = false := by decide
example : isCompatible "0.5.012" = false := by decide
example : isCompatible " 0.5.12" = false := by decide
example : isCompatible "" = false := by decide
example : isCompatible "0.5.120000000000" = false := by decide
example : parseSemver "0.5.12-rc1+b.7" = some ⟨0, 5, 12, [.str "rc1".toList], ["b".toList, "7".toList]⟩ := by decide

/-- An incompatible header followed by arbitrary bytes. -/
example : unmarshalDispatch (header "0.5.13" 5 ++ [1, 2, 3]) = .error .incompatible :=
  C07_incompatible_header "0.5.13" (by decide) (by decide) 5 (by omega) _

/-- Hypotheses of the frame theorem for a 0.5.11 stream with a non-empty body. -/
example : VersionOK "0.5.11" ∧ isCompatible "0.5.11" = true ∧ BodyOK [0x58, 0x01] ∧
    (17 : Nat) < (frame "0.5.11" [0x58, 0x01]).length := by
  refine ⟨by decide, by decide, by unfold BodyOK maxAlloc; simp, by rw [frame_length]; simp⟩

/-- Hypotheses of the legacy theorem: version 0.5.8 takes the three-section branch. -/
example : VersionOK "0.5.8" ∧ isCompatible "0.5.8" = true ∧ isCurrentLayout "0.5.8" = false := by
  refine ⟨by decide, by decide, by decide⟩

example : ∃ e, unmarshalDispatch ((frame "0.5.8" [8, 1] ++ (frame "0.5.8" [] ++ frame "0.5.8" [])).take 70) = .error e :=
  C07_truncated_legacy3_rejected "0.5.8" "0.5.8" "0.5.8" (by decide) (by decide) (by decide) (by decide) (by decide)
    [8, 1] [] [] (by unfold BodyOK maxAlloc; simp) (by unfold BodyOK maxAlloc; simp)
    (by unfold BodyOK maxAlloc; simp) 70 (by simp [frame_length])

#print axioms C07_version
#print axioms C07_incompatible_first
#print axioms C07_incompatible_header
#print axioms C07_dispatch
#print axioms C07_truncated
#print axioms C07_truncated_frame
#print axioms C07_truncated_legacy3
#print axioms C07_truncated_legacy3_rejected
#print axioms C07_truncated_legacy3_wellformed
