/-
  Generated.GoSem — hand-written (NOT generated): the meaning of Go's fixed-width integer
  operations, used by the generated file `Generated/Funcs.lean` (harness/cmd/extract/translate.go).

  Representation.  A Go integer value of a type of width `w` (int8 … int64, uint8 … uint64;
  `int`/`uint` are 64 bits on the supported platforms) is represented by its BIT PATTERN, a `Nat`
  below `2 ^ w` — for an unsigned type that is the value, for a signed type the value modulo `2^w`
  (two's complement).  `toS w p` is the signed value of pattern `p`.  `+ - * << & | ^ &^` and
  narrowing conversions act on patterns and commute with truncation, so they are wrapped with
  `% 2^w`; `>>` on signed operands, comparisons of signed operands, widening conversions of signed
  operands and `/ %` depend on the sign and are defined through `toS` / sign extension.

  A `[]byte` / `string` is a `List Nat` of values below 256; indexing is `List.getD _ _ 0`
  (Go panics on an out-of-range or negative index; the default is never used when the caller's
  hypotheses put the index in range).  A negative or over-wide shift count panics / gives 0 (1s) in
  Go; here the count is used as a pattern (`a <<< k % 2^w` is 0 for `k ≥ w`, like Go).
-/

namespace Generated.Go

def wrap (w x : Nat) : Nat := x % 2 ^ w

/-- signed value of a bit pattern -/
def toS (w p : Nat) : Int := if p < 2 ^ (w - 1) then (p : Int) else (p : Int) - (2 : Int) ^ w

/-- bit pattern of a signed value -/
def ofS (w : Nat) (x : Int) : Nat := (x % (2 : Int) ^ w).toNat

def add (w a b : Nat) : Nat := wrap w (a + b)
def sub (w a b : Nat) : Nat := wrap w (a + (2 ^ w - wrap w b))
def mul (w a b : Nat) : Nat := wrap w (a * b)
def neg (w a : Nat) : Nat := wrap w (2 ^ w - wrap w a)
def not (w a : Nat) : Nat := 2 ^ w - 1 - wrap w a
def shl (w a k : Nat) : Nat := wrap w (a <<< k)
/-- `>>` on an unsigned operand -/
def shr (a k : Nat) : Nat := a >>> k
/-- `>>` on a signed operand (arithmetic shift) -/
def sar (w a k : Nat) : Nat :=
  if a < 2 ^ (w - 1) then a >>> k else wrap w ((a >>> k) + (2 ^ w - 2 ^ (w - min k w)))
def and (a b : Nat) : Nat := a &&& b
def or (a b : Nat) : Nat := a ||| b
def xor (a b : Nat) : Nat := a ^^^ b
def andNot (w a b : Nat) : Nat := a &&& (2 ^ w - 1 - wrap w b)

/-- conversion `T(x)` from a type of width `fw` (signed iff `fs`) to a type of width `tw` -/
def conv (fw : Nat) (fs : Bool) (tw : Nat) (x : Nat) : Nat :=
  if tw ≤ fw then wrap tw x
  else if fs && decide (2 ^ (fw - 1) ≤ x) then x + (2 ^ tw - 2 ^ fw) else x

def ltS (w a b : Nat) : Bool := decide (toS w a < toS w b)
def leS (w a b : Nat) : Bool := decide (toS w a ≤ toS w b)
def ltU (a b : Nat) : Bool := decide (a < b)
def leU (a b : Nat) : Bool := decide (a ≤ b)

/-- Go's truncated division / remainder on signed operands (division by zero panics in Go) -/
def divS (w a b : Nat) : Nat := ofS w (Int.tdiv (toS w a) (toS w b))
def modS (w a b : Nat) : Nat := ofS w (Int.tmod (toS w a) (toS w b))
def divU (a b : Nat) : Nat := a / b
def modU (a b : Nat) : Nat := a % b

/-- `bitmap.Mask[k]` (github.com/openacid/low/bitmap): the low `k` bits set, `k ≤ 64` -/
def mask64 (k : Nat) : Nat := 2 ^ k - 1

/-- `bitmap.Bit[k]`: bit `k` set, `k < 64` -/
def bit64 (k : Nat) : Nat := 2 ^ k

/-- `bits.OnesCount64` -/
def popcount64 (x : Nat) : Nat := ((List.range 64).filter (fun i => x.testBit i)).length

/-! ### encoding/binary: fixed-width little / big endian (`PutUintN` panics on a short buffer) -/

/-- `w` little-endian bytes of `n` (truncating) -/
def leBytesNat : Nat → Nat → List Nat
  | 0, _ => []
  | w + 1, n => n % 256 :: leBytesNat w (n / 256)

/-- little-endian value of a byte list -/
def leValNat : List Nat → Nat
  | [] => 0
  | b :: bs => b + 256 * leValNat bs

def putUintLittleEndian (w : Nat) (b : List Nat) (v : Nat) : List Nat := leBytesNat w v ++ b.drop w
def uintLittleEndian (w : Nat) (s : List Nat) : Nat := leValNat (s.take w)
def putUintBigEndian (w : Nat) (b : List Nat) (v : Nat) : List Nat := (leBytesNat w v).reverse ++ b.drop w
def uintBigEndian (w : Nat) (s : List Nat) : Nat := leValNat (s.take w).reverse

end Generated.Go
