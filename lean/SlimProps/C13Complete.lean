import SlimProps.C03
/-
  SlimProps.C13Complete — the last clause of property C13: "Complete reports found only for
  retained keys".  A corollary of C03_getID (Complete mode is an exact map).
-/

/-- In Complete mode `GetID` reports found exactly for the retained keys, for every query string. -/
theorem C13_complete_only_retained (keys : List Bytes) (vals : Option (List Bytes)) (opt : Opt) (t : Trie1)
    (hb : build keys vals opt = .ok t) (hc : opt.complete = true) (q : Bytes) :
    (∃ id, getID t.view q = .ok (some id)) ↔
      (Spec.get (retained keys vals opt.dedup) q).isSome = true := by
  obtain ⟨e, he, hs⟩ := C03_getID keys vals opt t hb hc q
  constructor
  · rintro ⟨id, hid⟩
    rw [he] at hid
    injection hid with hid
    subst hid
    simpa using hs.symm
  · intro h
    rw [← hs] at h
    cases e with
    | none => simp at h
    | some id => exact ⟨id, he⟩

#print axioms C13_complete_only_retained
