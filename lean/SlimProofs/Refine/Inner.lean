import SlimProofs.Refine.Leaf
/-
  SlimProofs.Refine.Inner — the inner-node case of `getNode (encode t)`: `innerFrom`, the label
  bitmap (plain or through the short table), `firstChild` and the inner prefix.
-/

namespace Refine

open Bits Slim

/-! ### `innerFrom` on an arbitrary message -/

theorem innerFrom_big (s : SlimMsg) (m : Nat) (h : m < s.bigInnerCnt) :
    innerFrom s m = .ok (m * bigInnerSize, bigInnerSize, none) := by
  unfold innerFrom
  simp only [h, if_true, pure, Except.pure, bind, Except.bind]

theorem innerFrom_normal (s : SlimMsg) (m : Nat) (sbm : BitmapMsg) (ithShort frm : Nat)
    (h : ¬ m < s.bigInnerCnt) (h1 : s.shortBM = some sbm) (h2 : rank64 sbm m = .ok (ithShort, false))
    (h3 : ((bigInnerSize : Int) - innerSize) * s.bigInnerCnt + (innerSize : Int) * m
      + ((s.shortSize : Int) - innerSize) * ithShort = (frm : Int)) :
    innerFrom s m = .ok (frm, innerSize, none) := by
  have hnn : ¬ ((frm : Int) < 0) := by omega
  unfold innerFrom
  simp only [h, if_false, h1, h2, h3, hnn, pure, Except.pure, bind, Except.bind, Int.toNat_natCast,
    Bool.false_eq_true]

theorem innerFrom_short (s : SlimMsg) (m : Nat) (sbm inn : BitmapMsg) (ithShort frm code bm : Nat)
    (h : ¬ m < s.bigInnerCnt) (h1 : s.shortBM = some sbm) (h2 : rank64 sbm m = .ok (ithShort, true))
    (h3 : ((bigInnerSize : Int) - innerSize) * s.bigInnerCnt + (innerSize : Int) * m
      + ((s.shortSize : Int) - innerSize) * ithShort = (frm : Int))
    (h4 : s.inners = some inn) (h5 : extractShort inn.words frm s.shortSize = .ok code)
    (h6 : s.shortTable[code]? = some bm) :
    innerFrom s m = .ok (frm, s.shortSize, some bm) := by
  have hnn : ¬ ((frm : Int) < 0) := by omega
  unfold innerFrom
  simp only [h, if_false, h1, h2, h3, hnn, h4, h5, h6, pure, Except.pure, bind, Except.bind,
    Int.toNat_natCast, if_true]

/-! ### facts about position `m` of `sub` -/

theorem sizes_getD (t : Trie1) (m : Nat) (r : InnerRec) (hr : (eInners t)[m]? = some r) :
    (eSizes t).getD m 0 = (subOf (eMostUsed t) (eShortSize t) r).2.1 := by
  rw [List.getD_eq_getElem?_getD, List.getElem?_map, eSub_getElem?, hr]; rfl

theorem subs_getD (t : Trie1) (m : Nat) (r : InnerRec) (hr : (eInners t)[m]? = some r) :
    (eSubs t).getD m [] = (subOf (eMostUsed t) (eShortSize t) r).1 := by
  rw [List.getD_eq_getElem?_getD, List.getElem?_map, eSub_getElem?, hr]; rfl

theorem eSizes_length (t : Trie1) : (eSizes t).length = (eInners t).length := by
  rw [List.length_map, eSub_length]

theorem eInnersBM_words (t : Trie1) : (eInnersBM t).words = ofMany (eSubs t) (eSizes t) := rfl

/-- element `m` ends inside the bitmap -/
theorem baseOf_add_le {t : Trie1} (hs : ShapeOK t) (m : Nat) :
    baseOf t m + (eSizes t).getD m 0 ≤ 64 * (ofMany (eSubs t) (eSizes t)).length := by
  have h1 := take_sum_add_getD_le (eSizes t) m
  have h2 := ofMany_length (eSub_ok hs)
  unfold baseOf
  omega

theorem shortBM_rank {t : Trie1} (m : Nat) (r : InnerRec) (hr : (eInners t)[m]? = some r) :
    rank64 (newBM (eShortIndex t) (eInners t).length "r64") m
      = .ok (shortsBefore t m, (subOf (eMostUsed t) (eShortSize t) r).2.2) := by
  have hm : m < (eInners t).length := (List.getElem?_eq_some_iff.mp hr).1
  have hcap := ofIdx_capa_le (eShortIndex t) (eInners t).length
  have hq : ∀ (i : Nat) (a : List Nat × Nat × Bool), (eSub t)[i]? = some a →
      ((eSub t).getD i ([], 0, false)).2.2 = a.2.2 := by
    intro i a h; rw [List.getD_eq_getElem?_getD, h]; rfl
  have hidx : eShortIndex t = (List.range (eSub t).length).filter
      (fun i => ((eSub t).getD i ([], 0, false)).2.2) := by
    unfold eShortIndex; rw [eSub_length]
  have hx : (eSub t)[m]? = some (subOf (eMostUsed t) (eShortSize t) r) := by
    rw [eSub_getElem?, hr]; rfl
  rw [rank64_newBM_asc (by rw [hidx]; exact asc_filter_range _ _) _ _ (by omega)]
  congr 2
  · rw [hidx, length_filter_lt_filter_range _ (·.2.2) _ hq m (by rw [eSub_length]; omega)]
    rfl
  · rw [hidx]
    exact mem_filter_range_iff _ (·.2.2) _ hq m _ hx

/-- `innerFrom` on the encoded trie -/
theorem innerFrom_encode {t : Trie1} (hs : ShapeOK t) (m : Nat) (r : InnerRec)
    (hr : (eInners t)[m]? = some r) :
    innerFrom (encodeCreator t) m
      = .ok (baseOf t m, (subOf (eMostUsed t) (eShortSize t) r).2.1,
          if (subOf (eMostUsed t) (eShortSize t) r).2.2 then some (bm17 r.labels) else none) := by
  have hm : m < (eInners t).length := (List.getElem?_eq_some_iff.mp hr).1
  obtain ⟨f1, f2, f3, f4, f5, f6, f7⟩ := sub_facts hs hr
  have hbig := rec_big hs hr
  by_cases hb : m < t.bigCnt
  · have hrb := hbig.mpr hb
    rw [innerFrom_big _ _ (by rw [enc_bigInnerCnt]; exact hb), f5 hrb,
      baseOf_big hs m (by omega) (by omega)]
    rfl
  · have hrb : r.big = false := by
      cases h : r.big with
      | false => rfl
      | true => exact absurd (hbig.mp h) hb
    have hrank := shortBM_rank m r hr
    have hint := baseOf_int hs m (by omega) (by omega)
    cases hsh : (subOf (eMostUsed t) (eShortSize t) r).2.2 with
    | false =>
      rw [hsh] at hrank
      rw [f6 hrb hsh]
      exact innerFrom_normal _ m _ _ _ (by rw [enc_bigInnerCnt]; exact hb) (enc_shortBM t) hrank
        (by rw [enc_bigInnerCnt, enc_shortSize]; exact hint)
    | true =>
      rw [hsh] at hrank
      obtain ⟨_, c, hc, hc1, hc2, hc3⟩ := f7 hsh
      have hsz := sizes_getD t m r hr
      have hsb := subs_getD t m r hr
      rw [hc] at hsz hsb ⊢
      simp only at hsz hsb
      have hend := baseOf_add_le hs m
      rw [hsz] at hend
      have hext : extractShort (eInnersBM t).words (baseOf t m) (encodeCreator t).shortSize = .ok c := by
        rw [enc_shortSize, eInnersBM_words]
        apply extractShort_eq _ _ _ _ (ofMany_lt _ _) hc3 (by have := eShortSize_le t; omega) hend hc1
        intro k hk
        have := getBit_ofMany (eSub_ok hs) m k (by rw [eSizes_length]; exact hm) (by rw [hsz]; exact hk)
        rw [hsb] at this
        unfold baseOf
        rw [this, Bool.eq_iff_iff]
        simp only [decide_eq_true_eq, mem_toArray_singleton]
        have := eShortSize_le t
        constructor
        · exact fun h => h.2
        · exact fun h => ⟨by omega, h⟩
      have := innerFrom_short _ m _ _ _ _ c (bm17 r.labels) (by rw [enc_bigInnerCnt]; exact hb)
        (enc_shortBM t) hrank (by rw [enc_bigInnerCnt, enc_shortSize]; exact hint) (enc_inners t) hext
        (by rw [enc_shortTable]; exact hc2)
      rw [this, enc_shortSize]
      rfl

/-- the label list `getNode` decodes: through the short table, or straight from the bitmap -/
def labelsOf (short : Option Nat) (ws : List Nat) (frm size : Nat) : List Nat :=
  match short with
  | some bm => (List.range innerSize).filter (fun k => bm.testBit k)
  | none => labelsIn ws frm size

/-- the labels `getNode` reads -/
theorem labels_encode {t : Trie1} (hs : ShapeOK t) (m : Nat) (r : InnerRec)
    (hr : (eInners t)[m]? = some r) :
    labelsOf (if (subOf (eMostUsed t) (eShortSize t) r).2.2 then some (bm17 r.labels) else none)
      (eInnersBM t).words (baseOf t m) (subOf (eMostUsed t) (eShortSize t) r).2.1
      = r.labels := by
  have hm : m < (eInners t).length := (List.getElem?_eq_some_iff.mp hr).1
  obtain ⟨hne, hasc, hlt⟩ := rec_labels hs hr
  obtain ⟨f1, f2, f3, f4, f5, f6, f7⟩ := sub_facts hs hr
  cases hsh : (subOf (eMostUsed t) (eShortSize t) r).2.2 with
  | true =>
    obtain ⟨hrb, _⟩ := f7 hsh
    simp only [if_true, labelsOf]
    apply filter_bm17 hasc
    intro l hl
    have := hlt l hl
    simpa [hrb, labelBound, innerSize] using this
  | false =>
    simp only [Bool.false_eq_true, if_false, labelsOf]
    have hx : subOf (eMostUsed t) (eShortSize t) r = (r.labels, labelBound r.big, false) := by
      cases hb : r.big with
      | true => rw [f5 hb]; rfl
      | false => rw [f6 hb hsh]; rfl
    have hsz := sizes_getD t m r hr
    have hsb := subs_getD t m r hr
    rw [hx] at hsz hsb ⊢
    simp only at hsz hsb ⊢
    apply labelsIn_eq _ _ _ _ hasc hlt
    intro x hxlt
    have := getBit_ofMany (eSub_ok hs) m x (by rw [eSizes_length]; exact hm) (by rw [hsz]; exact hxlt)
    rw [hsb] at this
    exact this

/-- `rank128` at the node's offset counts the labels of the earlier inner nodes -/
theorem rank128_encode {t : Trie1} (hs : ShapeOK t) (m : Nat) (r : InnerRec)
    (hr : (eInners t)[m]? = some r) :
    ∃ b, rank128 (eInnersBM t) (baseOf t m)
      = .ok ((((eInners t).take m).map (fun r => r.labels.length)).sum, b) := by
  obtain ⟨_, _, _, f4, _⟩ := sub_facts hs hr
  have hend := baseOf_add_le hs m
  rw [sizes_getD t m r hr] at hend
  refine ⟨specBit (bitsOf (ofMany (eSubs t) (eSizes t))) (baseOf t m), ?_⟩
  have hlt : baseOf t m < 64 * (ofMany (eSubs t) (eSizes t)).length := by omega
  rw [show eInnersBM t = mk (ofMany (eSubs t) (eSizes t)) "r128" from rfl, rank128_mk _ _ hlt]
  congr 2
  unfold baseOf
  rw [specRank_ofMany (eSub_ok hs) m, sum_subs_length hs m]

/-! ### the inner prefix -/

def hasPref (r : InnerRec) : Bool := match r.pref with | .none => false | _ => true

theorem eIps_eltCnt (t : Trie1) : (eIps t).eltCnt = (ePrefIdx t).length := by
  unfold eIps; split <;> rfl

theorem eIps_presenceBM (t : Trie1) :
    (eIps t).presenceBM = some (newBM (ePrefIdx t) (eInners t).length "r128") := by
  unfold eIps; split <;> rfl

theorem prefIdx_hq (t : Trie1) : ∀ (i : Nat) (a : InnerRec), (eInners t)[i]? = some a →
    (match ((eInners t).getD i default).pref with | .none => false | _ => true) = hasPref a := by
  intro i a h
  rw [List.getD_eq_getElem?_getD, h]
  rfl

theorem ePrefIdx_eq (t : Trie1) : ePrefIdx t = (List.range (eInners t).length).filter
    (fun i => match ((eInners t).getD i default).pref with | .none => false | _ => true) := rfl

theorem ePrefIdx_asc (t : Trie1) : Asc (ePrefIdx t) := by
  rw [ePrefIdx_eq]; exact asc_filter_range _ _

/-- presence bit and rank of the `m`-th inner node in the prefix presence bitmap -/
theorem pref_presence (t : Trie1) (m : Nat) (r : InnerRec) (hr : (eInners t)[m]? = some r) :
    ∃ w, (newBM (ePrefIdx t) (eInners t).length "r128").words[m / 64]? = some w
      ∧ w.testBit (m % 64) = hasPref r
      ∧ ∃ b, rank128 (newBM (ePrefIdx t) (eInners t).length "r128") m
          = .ok (((eInners t).take m).countP hasPref, b) := by
  have hm : m < (eInners t).length := (List.getElem?_eq_some_iff.mp hr).1
  have hcap := ofIdx_capa_le (ePrefIdx t) (eInners t).length
  have hk : m / 64 < (ofIdx (ePrefIdx t) (eInners t).length).length := by omega
  refine ⟨(ofIdx (ePrefIdx t) (eInners t).length)[m / 64], ?_, ?_, ?_⟩
  · rw [newBM_words_r128]; exact List.getElem?_eq_getElem hk
  · have : (ofIdx (ePrefIdx t) (eInners t).length)[m / 64]
        = (ofIdx (ePrefIdx t) (eInners t).length).getD (m / 64) 0 := by
      rw [List.getD_eq_getElem?_getD, List.getElem?_eq_getElem hk]; rfl
    rw [this]
    have hb := getBit_ofIdx (ePrefIdx t) (eInners t).length m (by omega)
    unfold getBit at hb
    rw [hb, ePrefIdx_eq]
    exact mem_filter_range_iff _ hasPref _ (prefIdx_hq t) m r hr
  · refine ⟨decide (m ∈ ePrefIdx t), ?_⟩
    rw [rank128_newBM_asc (ePrefIdx_asc t) _ _ (by omega)]
    congr 2
    rw [ePrefIdx_eq, length_filter_lt_filter_range _ hasPref _ (prefIdx_hq t) m (by omega)]

theorem prefIdx_pos_of_hasPref (t : Trie1) (m : Nat) (r : InnerRec) (hr : (eInners t)[m]? = some r)
    (hp : hasPref r = true) : 0 < (ePrefIdx t).length := by
  have hm : m < (eInners t).length := (List.getElem?_eq_some_iff.mp hr).1
  have : m ∈ ePrefIdx t := by
    have := mem_filter_range_iff _ hasPref _ (prefIdx_hq t) m r hr
    rw [hp] at this
    rw [ePrefIdx_eq]
    simpa using this
  exact List.length_pos_of_mem this

theorem pref_none_of_not_hasPref (r : InnerRec) (h : hasPref r = false) : r.pref = Pref.none := by
  unfold hasPref at h
  cases hp : r.pref with
  | none => rfl
  | step n => rw [hp] at h; cases h
  | stored ns => rw [hp] at h; cases h

/-- stored mode: counting prefixes = counting stored prefixes -/
theorem countP_hasPref_stored {t : Trie1} (hs : ShapeOK t) (hi : t.opt.inner = true) (m : Nat) :
    ((eInners t).take m).countP hasPref = (((eInners t).take m).filterMap storedOf).length := by
  rw [List.length_filterMap_eq_countP]
  apply List.countP_congr
  intro r hr
  obtain ⟨i, hi'⟩ := List.mem_iff_getElem?.mp (List.mem_of_mem_take hr)
  have hp := rec_pref hs hi'
  unfold hasPref storedOf
  cases hpr : r.pref with
  | none => simp
  | step n => rw [hpr] at hp; have := hp.1; rw [hi] at this; cases this
  | stored ns => simp

theorem countP_hasPref_step {t : Trie1} (hs : ShapeOK t) (hi : t.opt.inner = false) (m : Nat) :
    ((eInners t).take m).countP hasPref = (((eInners t).take m).filterMap stepOf).length := by
  rw [List.length_filterMap_eq_countP]
  apply List.countP_congr
  intro r hr
  obtain ⟨i, hi'⟩ := List.mem_iff_getElem?.mp (List.mem_of_mem_take hr)
  have hp := rec_pref hs hi'
  unfold hasPref stepOf
  cases hpr : r.pref with
  | none => simp
  | step n => simp
  | stored ns => rw [hpr] at hp; have := hp.1; rw [hi] at this; cases this

theorem eStoredPs_pos (t : Trie1) : ∀ z ∈ (eStoredPs t).map List.length, 0 < z := by
  intro z hz
  simp only [eStoredPs, List.mem_map, List.mem_filterMap] at hz
  obtain ⟨b, ⟨r, _, hb⟩, rfl⟩ := hz
  unfold storedOf at hb
  split at hb
  · simp only [Option.some.injEq] at hb; subst hb; exact bitstrOf_length_pos _
  · cases hb

end Refine
