import SlimModel.Encode
import SlimProofs.Encode
/-
  Property C15 — value encoders round-trip every value with consistent sizes and LE layout.

  For every encoder `E` of package `encode` (model: `SlimModel/Encode.lean`) with domain `D_E`:

    `E.RoundTrips D_E`   ≡   ∀ v, D_E v → ∀ tail, ∃ e,
          E.encode v = ok e ∧ E.decode (e ++ tail) = ok (|e|, v)
        ∧ E.getSize v = ok |e| ∧ E.getEncodedSize (e ++ tail) = ok |e|

  (all values of the domain, all tails — no size bound), plus the layout theorems:
  integer encoders = fixed-width little-endian two's complement, String16 = big-endian 16-bit
  length ++ bytes, Bytes{n} = identity, Dummy = nothing, TypeEncoder = field by field in the
  configured byte order.
-/
namespace C15
open Encode

/-! ## round trip and size agreement -/

theorem C15_U16 : U16.RoundTrips (InU 2) := uintCodec_roundTrips 2
theorem C15_U32 : U32.RoundTrips (InU 4) := uintCodec_roundTrips 4
theorem C15_U64 : U64.RoundTrips (InU 8) := uintCodec_roundTrips 8
theorem C15_I8 : I8.RoundTrips (InS 1) := sintCodec_roundTrips (by decide)
theorem C15_I16 : I16.RoundTrips (InS 2) := sintCodec_roundTrips (by decide)
theorem C15_I32 : I32.RoundTrips (InS 4) := sintCodec_roundTrips (by decide)
theorem C15_I64 : I64.RoundTrips (InS 8) := sintCodec_roundTrips (by decide)
/-- `encode.Int` (native int, 8 bytes on this platform). -/
theorem C15_Int : NativeInt.RoundTrips (InS 8) := sintCodec_roundTrips (by decide)
theorem C15_String16 : String16.RoundTrips (fun s => s.length < 2 ^ 16) := string16_roundTrips
theorem C15_Bytes (n : Nat) : (BytesEnc n).RoundTrips (fun b => b.length = n) := bytesEnc_roundTrips n
theorem C15_Dummy : Dummy.RoundTrips (fun v => v = Val.nil) := dummy_roundTrips
/-- TypeEncoder, any byte order, any type of the universe, any value of that type
    (structural induction over the type universe). -/
theorem C15_TypeEncoder (bo : BO) (t : Ty) : (TE bo t).RoundTrips (InDom t) := te_roundTrips bo t

/-- The domains are the full ranges of the Go types. -/
theorem InU_iff (w v : Nat) : InU w v ↔ v < 2 ^ (8 * w) := Iff.rfl
theorem InS_iff (w : Nat) (v : Int) :
    InS w v ↔ -(2 : Int) ^ (8 * w - 1) ≤ v ∧ v < (2 : Int) ^ (8 * w - 1) := Iff.rfl

/-! ## layout -/

/-- Unsigned encoders: `w` little-endian bytes of the value (`w` = 2, 4, 8 for U16, U32, U64). -/
theorem C15_layout_unsigned (w v : Nat) : (uintCodec w).encode v = .ok (leBytes w v) := rfl

/-- Signed encoders: `w` little-endian bytes of the two's complement `v mod 2^(8w)`
    (`w` = 1, 2, 4, 8 for I8, I16, I32, I64 and the native Int). -/
theorem C15_layout_signed (w : Nat) (v : Int) :
    (sintCodec w).encode v = .ok (leBytes w (v % (2 : Int) ^ (8 * w)).toNat) := rfl

/-- `leBytes` is the positional little-endian layout: byte `i` is `⌊n / 256^i⌋ mod 256`,
    and there are exactly `w` bytes. -/
theorem C15_leBytes_byte (w n i : Nat) (h : i < (leBytes w n).length) :
    (leBytes w n)[i] = UInt8.ofNat (n / 256 ^ i % 256) := leBytes_getElem w n i h
theorem C15_leBytes_length (w n : Nat) : (leBytes w n).length = w := leBytes_length w n

theorem C15_layout_named :
    (∀ v, U16.encode v = .ok (leBytes 2 v)) ∧ (∀ v, U32.encode v = .ok (leBytes 4 v)) ∧
    (∀ v, U64.encode v = .ok (leBytes 8 v)) ∧
    (∀ v, I8.encode v = .ok (leBytes 1 (v % 2 ^ 8).toNat)) ∧
    (∀ v, I16.encode v = .ok (leBytes 2 (v % 2 ^ 16).toNat)) ∧
    (∀ v, I32.encode v = .ok (leBytes 4 (v % 2 ^ 32).toNat)) ∧
    (∀ v, I64.encode v = .ok (leBytes 8 (v % 2 ^ 64).toNat)) ∧
    (∀ v, NativeInt.encode v = .ok (leBytes 8 (v % 2 ^ 64).toNat)) :=
  ⟨fun _ => rfl, fun _ => rfl, fun _ => rfl, fun _ => rfl, fun _ => rfl, fun _ => rfl,
   fun _ => rfl, fun _ => rfl⟩

/-- String16: big-endian 16-bit length, then the bytes. -/
theorem C15_layout_String16 (s : Bytes) : String16.encode s = .ok (beBytes 2 s.length ++ s) := by
  simp [String16, string16Encode_eq]

/-- Bytes{n}: the identity. -/
theorem C15_layout_Bytes (n : Nat) (b : Bytes) : (BytesEnc n).encode b = .ok b := rfl

/-- Dummy: nothing. -/
theorem C15_layout_Dummy (v : Val) : Dummy.encode v = .ok [] := rfl

/-- TypeEncoder, integers: `w` bytes of the two's complement in the configured byte order. -/
theorem C15_layout_TE_int (bo : BO) (s : Bool) (w : Nat) (v : Int) :
    (TE bo (.prim s w)).encode (.int v) =
      .ok (match bo with
           | .le => leBytes w (v % (2 : Int) ^ (8 * w)).toNat
           | .be => beBytes w (v % (2 : Int) ^ (8 * w)).toNat) := by
  cases bo <;> rfl

/-- TypeEncoder, structs: field-by-field concatenation. -/
theorem C15_layout_TE_struct (bo : BO) (t : Ty) (ts : List Ty) (v : Val) (vs : List Val)
    (e1 e2 : Bytes) (h1 : (TE bo t).encode v = .ok e1)
    (h2 : (TE bo (.struct ts)).encode (.seq vs) = .ok e2) :
    (TE bo (.struct (t :: ts))).encode (.seq (v :: vs)) = .ok (e1 ++ e2) := by
  simp only [TE, tyEncode] at *
  simp [tyEncodeFields, h1, h2, bind, Except.bind, pure, Except.pure]

theorem C15_layout_TE_struct_nil (bo : BO) : (TE bo (.struct [])).encode (.seq []) = .ok [] := by
  simp [TE, tyEncode, tyEncodeFields]

/-- TypeEncoder, arrays: element-by-element concatenation. -/
theorem C15_layout_TE_array (bo : BO) (t : Ty) (n : Nat) (v : Val) (vs : List Val)
    (e1 e2 : Bytes) (h1 : (TE bo t).encode v = .ok e1)
    (h2 : (TE bo (.array n t)).encode (.seq vs) = .ok e2) :
    (TE bo (.array (n + 1) t)).encode (.seq (v :: vs)) = .ok (e1 ++ e2) := by
  simp only [TE, tyEncode] at *
  simp [encRep, h1, h2, bind, Except.bind, pure, Except.pure]

theorem C15_layout_TE_array_nil (bo : BO) (t : Ty) : (TE bo (.array 0 t)).encode (.seq []) = .ok [] := by
  simp [TE, tyEncode, encRep]

/-- The encoded size of a TypeEncoder value is `binary.Size` of the type (no padding). -/
theorem C15_TE_size (bo : BO) (t : Ty) (v : Val) (hv : InDom t v) :
    ∃ e, (TE bo t).encode v = .ok e ∧ e.length = t.size := by
  obtain ⟨e, h1, h2, _⟩ := tyRT bo t v hv []
  exact ⟨e, h1, h2⟩

/-! ## non-vacuity: concrete values in the domains, concrete encodings -/

example : InS 2 (-2) := by decide
example : InS 8 (-9223372036854775808) := by decide
example : InU 8 18446744073709551615 := by decide
example : I16.encode (-2) = .ok [0xfe, 0xff] := rfl
example : I16.decode [0xfe, 0xff, 0x07] = .ok (2, -2) := rfl
example : U32.encode 0x01020304 = .ok [4, 3, 2, 1] := rfl
example : encodeS 8 (-9223372036854775808) = [0, 0, 0, 0, 0, 0, 0, 0x80] := by decide
example : String16.encode [0x61, 0x62, 0x63] = .ok [0, 3, 0x61, 0x62, 0x63] := rfl
example : String16.decode [0, 3, 0x61, 0x62, 0x63, 0xff] = .ok (5, [0x61, 0x62, 0x63]) := by
  simp [String16, string16Len, bind, Except.bind]
example : U16.decode [1] = .error (.panic "slice bounds out of range") := rfl
/-- struct { A uint8; B [2]int16; C uint32 }, big endian. -/
example : (TE .be (.struct [.u8, .array 2 .i16, .u32])).encode
    (.seq [.int 255, .seq [.int (-2), .int 3], .int 4]) =
    .ok [0xff, 0xff, 0xfe, 0x00, 0x03, 0, 0, 0, 4] := rfl
example : InDom (.struct [.u8, .array 2 .i16, .u32])
    (.seq [.int 255, .seq [.int (-2), .int 3], .int 4]) := by
  refine .structCons (.unsigned (by decide) (by decide)) (.structCons (.array rfl ?_)
    (.structCons (.unsigned (by decide) (by decide)) .structNil))
  intro v hv
  simp at hv
  rcases hv with rfl | rfl <;> exact .signed (by decide) (by decide)

end C15

#print axioms C15.C15_U16
#print axioms C15.C15_U32
#print axioms C15.C15_U64
#print axioms C15.C15_I8
#print axioms C15.C15_I16
#print axioms C15.C15_I32
#print axioms C15.C15_I64
#print axioms C15.C15_Int
#print axioms C15.C15_String16
#print axioms C15.C15_Bytes
#print axioms C15.C15_Dummy
#print axioms C15.C15_TypeEncoder
#print axioms C15.C15_layout_unsigned
#print axioms C15.C15_layout_signed
#print axioms C15.C15_leBytes_byte
#print axioms C15.C15_leBytes_length
#print axioms C15.C15_layout_named
#print axioms C15.C15_layout_String16
#print axioms C15.C15_layout_Bytes
#print axioms C15.C15_layout_Dummy
#print axioms C15.C15_layout_TE_int
#print axioms C15.C15_layout_TE_struct
#print axioms C15.C15_layout_TE_struct_nil
#print axioms C15.C15_layout_TE_array
#print axioms C15.C15_layout_TE_array_nil
#print axioms C15.C15_TE_size
