import SlimProofs.Agree
import SlimProofs.Subtree
/-
  SlimProofs.Monotone — C13, query half: two record arrays built from the same keys with the
  same queue of subsets and the same shape, one storing at least the prefix information of the
  other (`Joint`), answer `GetID` in lock-step: whenever the richer one reports an id, the poorer
  one reports the same id.

  * `Monotone.Joint`            the hypotheses (discharged for two `build`s in `SlimProps.C13`)
  * `Monotone.getIDLoop_mono`   lock-step of the two loops (same node, same position; in a
                                well-formed trie the position at node j is `queue[j].fb` whatever
                                the query)
  * `Monotone.getID_mono`, `Monotone.get_mono`
-/

namespace Monotone
open Descent Agree Subtree

/-- `t` (richer) and `t'` (poorer) are well-formed for the same keys with the same queue, have
    the same shape, and `t'` stores no more prefix information than `t` -/
structure Joint (keys : List Bytes) (keep : List Bool) (t t' : Trie1) (queue : Array Subset) :
    Prop where
  q : QOK keys keep t queue
  q' : QOK keys keep t' queue
  inner : ∀ (j : Nat) (r : InnerRec), t.nodes[j]? = some (.inner r) →
    ∃ r', t'.nodes[j]? = some (.inner r') ∧ r'.big = r.big ∧ r'.labels = r.labels ∧
      r'.firstChild = r.firstChild
  leaf : ∀ (j ith : Nat) (lp : Option Bytes), t.nodes[j]? = some (.leaf ith lp) →
    ∃ lp', t'.nodes[j]? = some (.leaf ith lp')
  optInner : t'.opt.inner = true → t.opt.inner = true
  optLeaf : t'.opt.leaf = true → t.opt.leaf = true
  elts : t'.elts = t.elts

/-- a run that the richer options accept is accepted by the poorer options, ending at the
    same position -/
theorem idStep_prefOf_poorer (o o' : Opt) (ks kn : List Nat) (fb ws i : Nat) (hfb : fb ≤ ws)
    (hks : ws ≤ ks.length) (hin : o'.inner = true → o.inner = true)
    (h : idStep (prefOf o ks fb ws) kn fb = .ok (some i)) :
    idStep (prefOf o' ks fb ws) kn fb = .ok (some i) := by
  have hi := idStep_prefOf_val o ks kn fb ws i hfb hks h
  subst hi
  unfold prefOf at h ⊢
  by_cases h0 : i - fb = 0
  · simp only [h0, if_true, idStep]; congr; omega
  · simp only [h0, if_false] at h ⊢
    cases ho' : o'.inner with
    | true => rw [hin ho'] at h; exact h
    | false => simp only [Bool.false_eq_true, if_false, idStep]; congr; omega

theorem nodes_some (t : Trie1) (j : Nat) (hj : j < t.nodes.size) : t.nodes[j]? = some t.nodes[j] :=
  Array.getElem?_eq_getElem hj

theorem view_node_of (t : Trie1) (j : Nat) (nd : Node) (h : t.nodes[j]? = some nd) :
    t.view.node j = .ok nd := by
  simp [Trie1.view, h]

variable {keys : List Bytes} {keep : List Bool} {t t' : Trie1} {queue : Array Subset}

theorem getIDLoop_mono (J : Joint keys keep t t' queue) (kn : List Nat) :
    ∀ f j oj r, queue[j]? = some oj → getIDLoop t.view kn f j oj.fb = .ok (some r) →
      ∃ r', getIDLoop t'.view kn f j oj.fb = .ok (some r') ∧ r'.id = r.id ∧ r'.i = r.i ∧
        (t'.opt.leaf = true → r'.lp = r.lp) := by
  intro f
  induction f with
  | zero => intro j oj r _ h; simp [getIDLoop] at h
  | succ f ih =>
    intro j oj r hqj h
    obtain ⟨hsub, hj, hnode⟩ := J.q.at hqj
    obtain ⟨_, hj', hnode'⟩ := J.q'.at hqj
    have hview := view_node_of t j _ (nodes_some t j hj)
    cases hn : t.nodes[j] with
    | leaf ith lp =>
      rw [hn] at hview hnode
      obtain ⟨lp', hn'⟩ := J.leaf j ith lp (by rw [nodes_some t j hj, hn])
      have hn'' : t'.nodes[j] = .leaf ith lp' := by
        have := nodes_some t' j hj'; rw [hn'] at this; exact (Option.some.inj this).symm
      rw [hn''] at hnode'
      rw [getIDLoop_leaf _ _ _ _ _ ith lp hview] at h
      cases h
      refine ⟨⟨j, oj.fb, lp'⟩, getIDLoop_leaf _ _ _ _ _ ith lp' (view_node_of t' j _ hn'),
        rfl, rfl, ?_⟩
      intro hl'
      have hl := J.optLeaf hl'
      show lp' = lp
      rw [hnode.2.2, hnode'.2.2]
      simp only [leafPrefOf, hl, hl']
    | inner rr =>
      rw [hn] at hview hnode
      obtain ⟨rr', hn', hbig, hlabels, hfc⟩ := J.inner j rr (by rw [nodes_some t j hj, hn])
      have hn'' : t'.nodes[j] = .inner rr' := by
        have := nodes_some t' j hj'; rw [hn'] at this; exact (Option.some.inj this).symm
      rw [hn''] at hnode'
      obtain ⟨h2e, ws, hfbws, hall, hbigws, hpref, hlab, hpw, hmono, hjfc, hkids⟩ := hnode
      obtain ⟨_, ws', hfbws', hall', _, hpref', hlab', _, _, _, hkids'⟩ := hnode'
      -- the labels are not empty (the subset holds a kept key)
      obtain ⟨tk, htk1, htk2, htk3⟩ := hsub.kept
      have hmem0 : labelOf keys ws rr.big tk ∈ rr.labels := (hlab _).mpr ⟨tk, htk1, htk2, htk3, rfl⟩
      have hlen0 : 0 < rr.labels.length := List.length_pos_of_mem hmem0
      -- hence both records branch at the same position
      have hws : ws' = ws := by
        obtain ⟨c, hc, hcfb, _⟩ := hkids 0 hlen0
        obtain ⟨c', hc', hcfb', _⟩ := hkids' 0 (by rw [hlabels]; exact hlen0)
        rw [hfc, hc] at hc'; cases hc'
        rw [hcfb] at hcfb'
        simp only [hlabels, hbig] at hcfb'
        omega
      subst hws
      have hks := (hall oj.s (Nat.le_refl _) hsub.lt).1
      rw [getIDLoop_inner _ _ _ _ _ rr hview] at h
      rw [getIDLoop_inner _ _ _ _ _ rr' (view_node_of t' j _ hn')]
      cases hs : idStep rr.pref kn oj.fb with
      | error e => rw [hs] at h; cases h
      | ok oo =>
        rw [hs] at h
        cases oo with
        | none => cases h
        | some i =>
          have hs' : idStep rr'.pref kn oj.fb = .ok (some i) := by
            rw [hpref] at hs; rw [hpref']
            exact idStep_prefOf_poorer _ _ _ _ _ _ _ hfbws hks J.optInner hs
          have hiws : i = ws' := by
            rw [hpref] at hs
            exact idStep_prefOf_val _ _ _ _ _ _ hfbws hks hs
          rw [hs']
          simp only [idBranch, hbig] at h ⊢
          have hlc : ∀ x, leftChildID rr' x = leftChildID rr x := by
            intro x; simp only [leftChildID, hlabels, hfc]
          simp only [hlc]
          split at h
          · cases h
          · rename_i hle
            rw [if_neg hle]
            split at h
            · cases h
            · rename_i hhas
              rw [if_neg hhas]
              split at h
              · rename_i heq
                rw [if_pos heq]
                cases h
                exact ⟨_, rfl, rfl, rfl, fun _ => rfl⟩
              · rename_i hne
                rw [if_neg hne]
                -- the child is queue entry firstChild + k, examined from i + wordSize
                have hcont : rr.labels.contains (labelIdxOfKey kn i rr.big) = true := by
                  simpa [leftChildID] using hhas
                have hmem : labelIdxOfKey kn i rr.big ∈ rr.labels := by simpa using hcont
                obtain ⟨k, hk', hkl⟩ := List.mem_iff_getElem.mp hmem
                obtain ⟨c, hc, hcfb, _⟩ := hkids k hk'
                have hch := leftChildID_of_label rr hpw k hk'
                rw [hkl] at hch
                rw [hch] at h ⊢
                have hid : ((rr.firstChild : Int) - 1 + (k : Int) + 1).toNat = rr.firstChild + k := by
                  omega
                simp only [hid] at h ⊢
                have hlne : rr.labels[k] ≠ 0 := by
                  rw [hkl, labelIdxOfKey_eq_labelAt _ _ _ (fun hb => hiws ▸ (hbigws hb).1), Ne,
                    labelAt_eq_zero_iff]; omega
                have hfb : i + wordSize rr.big = c.fb := by
                  rw [hcfb, hiws]; unfold labelLen wordSize; rw [if_neg hlne]
                rw [hfb] at h ⊢
                exact ih _ c r hc h

theorem idEpi_id (v : View) (key : Bytes) (r : Reached) (id : Nat)
    (h : idEpi v key r = .ok (some id)) : id = r.id := by
  unfold idEpi at h
  repeat' split at h
  all_goals first
    | (cases h; rfl)
    | cases h

theorem size_eq (J : Joint keys keep t t' queue) : t'.nodes.size = t.nodes.size := by
  rw [← J.q.size, ← J.q'.size]

/-- **Monotonicity of `GetID`**: an id reported by the richer trie is reported by the poorer. -/
theorem getID_mono (J : Joint keys keep t t' queue)
    (hroot : queue[0]? = some { s := 0, e := keys.length, fb := 0 }) (key : Bytes) (id : Nat)
    (h : getID t.view key = .ok (some id)) : getID t'.view key = .ok (some id) := by
  have hsz := size_eq J
  rw [getID_eq] at h ⊢
  have he : t'.view.isEmpty = t.view.isEmpty := by simp only [Trie1.view, hsz]
  have hc : t'.view.nodeCnt = t.view.nodeCnt := hsz
  rw [he, hc]
  cases hemp : t.view.isEmpty with
  | true => rw [hemp] at h; simp at h
  | false =>
    rw [hemp] at h
    simp only [Bool.false_eq_true, if_false] at h ⊢
    cases hl : getIDLoop t.view (nibs key) (t.view.nodeCnt + 1) 0 0 with
    | error e => rw [hl] at h; cases h
    | ok o =>
      rw [hl] at h
      cases o with
      | none => cases h
      | some r =>
        obtain ⟨r', hl', hid, hi, hlp⟩ := getIDLoop_mono J (nibs key) _ 0 _ r hroot hl
        rw [hl']
        simp only at h ⊢
        have hrid := idEpi_id _ _ _ _ h
        cases hleaf' : t'.opt.leaf with
        | false =>
          have : t'.view.leafPrefixesOn = false := hleaf'
          simp only [idEpi, this, Bool.false_eq_true, if_false]
          rw [hid, hrid]
        | true =>
          have hleaf := J.optLeaf hleaf'
          have hrr : r' = r := by
            cases r; cases r'; simp only at hid hi hlp ⊢
            rw [hid, hi, hlp hleaf']
          rw [hrr]
          have h1 : t'.view.leafPrefixesOn = true := hleaf'
          have h2 : t.view.leafPrefixesOn = true := hleaf
          simp only [idEpi, h1, h2] at h ⊢
          exact h

/-- **Monotonicity of `Get`**: a hit of the richer trie is a hit of the poorer, same value. -/
theorem get_mono (J : Joint keys keep t t' queue)
    (hroot : queue[0]? = some { s := 0, e := keys.length, fb := 0 }) (key : Bytes)
    (x : Option Bytes) (h : get t.view key = .ok (some x)) : get t'.view key = .ok (some x) := by
  obtain ⟨id, hid, hleaf⟩ := (get_hit_iff t.view key x).mp h
  refine (get_hit_iff t'.view key x).mpr ⟨id, getID_mono J hroot key id hid, ?_⟩
  unfold getLeaf at hleaf ⊢
  cases hn : t.nodes[id]? with
  | none => simp [Trie1.view, hn, bind, Except.bind] at hleaf
  | some nd =>
    cases nd with
    | inner r => simp [Trie1.view, hn, bind, Except.bind] at hleaf
    | leaf ith lp =>
      obtain ⟨lp', hn'⟩ := J.leaf id ith lp hn
      rw [view_node_of t id _ hn] at hleaf
      rw [view_node_of t' id _ hn']
      simp only [bind, Except.bind] at hleaf ⊢
      simpa [Trie1.view, J.elts] using hleaf

end Monotone
