import Generated.Funcs
import SlimProps.BridgeSem.PrintAxioms
import SlimModel.Legacy
import SlimProofs.WireMarshal

/-
  SlimProps.BridgeSem.LegacyDispatch — tie 1, semantic part, the LEGACY LOADER: the VERSION DISPATCH of
  `(*SlimTrie).Unmarshal` and of `before000510` (trie/slimtrie_marshal.go) as a decision table.

  `Unmarshal` mostly calls into libraries (readers, pbcmpl, error wrapping), so only its DECISION SKELETON is
  translated (`namespace Generated.WP`, P-mode of translate.go): `Unmarshal_plan compat chk` is the list of
  loader steps on the error-free path as a function of the two version predicates the code branches on —
  `chk specs = vers.Check(ver, specs…)`, `compat = vers.IsCompatible(ver, st.compatibleVersions())` — with
  the `if`s, the negations, the `return`s and the ORDER of the calls taken from the source.

    `Unmarshal_plan_sem`           whenever the model's byte-level `unmarshalDispatch buf` succeeds with `l`
                                   (on a header of version `h.version`), the Go code — instantiated with the
                                   model's `Version.isCompatible` / `Version.check` — runs exactly the steps
                                   `planOf l`: `.current` ↦ Unmarshal st.inner, init; `.v0510` ↦ Unmarshal
                                   st.inner, before000512InnerPrefixTobitstr, before000512FixLeafSize, init;
                                   `.legacy3` ↦ Unmarshal children, steps, leaves, before000510
    `Unmarshal_plan_incompatible`  an incompatible version: the model answers `Err.incompatible`, the Go code
                                   returns after `compatibleVersions` (no loader step)
    `before000510_plan_sem`        `before000510` converts iff `Version.before000510 ver`
    `unmarshalMsg_v0510`, `unmarshalMsg_legacy3`, `unmarshalMsg_current`
                                   what the model's `Legacy.unmarshalMsg` does with each `Loaded` value: the same
                                   steps in the same order (`innerPrefixTobitstr` THEN `fixLeafSize`; `convert`)

  This is not a textual fingerprint (that is `SlimProps.Bridge.Versions`): the theorems quantify over every
  buffer, and a changed specification string, a dropped `!`, a reordered or removed loader call changes the
  generated function and breaks a proof.  ASSUMED: `vers.Check` / `vers.IsCompatible` are the model's
  `Version.check` / `Version.isCompatible` (SlimModel/Version.lean; they are parameters of the skeleton).
  See SlimProps/BridgeSem.lean for the overview.
-/

set_option linter.unusedSimpArgs false
set_option linter.unusedVariables false

open Generated Version Frame Wire

namespace BridgeSem

/-- the loader steps that belong to what the byte level has in hand -/
def planOf : Loaded → List String
  | .current _ => ["pbcmpl.Unmarshal st.inner", "init"]
  | .v0510 _ _ => ["pbcmpl.Unmarshal st.inner", "before000512InnerPrefixTobitstr", "before000512FixLeafSize", "init"]
  | .legacy3 _ _ _ _ => ["pbcmpl.Unmarshal children", "pbcmpl.Unmarshal steps", "pbcmpl.Unmarshal leaves", "before000510"]

theorem currentLayout_eq (ver : String) : check ver ["0.5.12", "==0.5.10", "==0.5.11"] = isCurrentLayout ver := rfl
theorem before000512_eq (ver : String) : check ver ["<0.5.12"] = before000512 ver := rfl
theorem before000510_eq (ver : String) : check ver ["==1.0.0", "<0.5.10"] = before000510 ver := rfl

theorem Unmarshal_plan_sem (buf : Bytes) (h : Header) (r : Bytes) (l : Loaded)
    (hh : readHeader buf = .ok (h, r)) (hd : unmarshalDispatch buf = .ok l) :
    Generated.WP.Unmarshal_plan (isCompatible h.version) (check h.version)
      = "pbcmpl.ReadHeader" :: "compatibleVersions" :: planOf l := by
  unfold unmarshalDispatch at hd
  rw [hh] at hd
  simp only at hd
  unfold Generated.WP.Unmarshal_plan
  rw [currentLayout_eq, before000512_eq]
  by_cases hc : isCompatible h.version = false
  · rw [if_pos hc] at hd; cases hd
  · rw [if_neg hc] at hd
    have hc' : isCompatible h.version = true := by simpa using hc
    simp only [hc', Bool.not_true, Bool.false_eq_true, if_false]
    by_cases hcur : isCurrentLayout h.version = true
    · rw [if_pos hcur] at hd
      simp only [hcur, if_true]
      cases hm : readMsg decodeSlim buf with
      | error e => rw [hm] at hd; cases hd
      | ok p =>
        rw [hm] at hd
        simp only at hd
        by_cases hb : before000512 h.version = true
        · rw [if_pos hb] at hd; cases hd; simp [hb, planOf]
        · rw [if_neg hb] at hd; cases hd; simp [hb, planOf]
    · rw [if_neg hcur] at hd
      simp only [hcur, if_false]
      cases h1 : readMsg decodeArray32 buf with
      | error e => rw [h1] at hd; cases hd
      | ok p1 =>
        rw [h1] at hd; simp only at hd
        cases h2 : readMsg decodeArray32 p1.2 with
        | error e => rw [h2] at hd; cases hd
        | ok p2 =>
          rw [h2] at hd; simp only at hd
          cases h3 : readMsg decodeArray32 p2.2 with
          | error e => rw [h3] at hd; cases hd
          | ok p3 => rw [h3] at hd; cases hd; simp [planOf]

theorem Unmarshal_plan_incompatible (buf : Bytes) (h : Header) (r : Bytes)
    (hh : readHeader buf = .ok (h, r)) (hc : isCompatible h.version = false) :
    unmarshalDispatch buf = .error .incompatible
      ∧ Generated.WP.Unmarshal_plan (isCompatible h.version) (check h.version)
          = ["pbcmpl.ReadHeader", "compatibleVersions"] := by
  constructor
  · unfold unmarshalDispatch; rw [hh]; simp only; rw [if_pos hc]
  · unfold Generated.WP.Unmarshal_plan; simp [hc]

theorem before000510_plan_sem (compat : Bool) (ver : String) :
    Generated.WP.before000510_plan compat (check ver)
      = if before000510 ver then ["before000510ToNewChildrenArray"] else [] := by
  unfold Generated.WP.before000510_plan
  have h := before000510_eq ver
  cases hb : before000510 ver <;> rw [hb] at h <;> simp [h]

/-- what the model does with each kind of loaded data: the same steps in the same order -/
theorem unmarshalMsg_current (enc : Option Nat) (buf : Bytes) (m : SlimMsg)
    (hd : unmarshalDispatch buf = .ok (.current m)) : Legacy.unmarshalMsg enc buf = .ok m := by
  unfold Legacy.unmarshalMsg; rw [hd]; rfl

theorem unmarshalMsg_v0510 (enc : Option Nat) (buf : Bytes) (ver : String) (m : SlimMsg)
    (hd : unmarshalDispatch buf = .ok (.v0510 ver m)) :
    Legacy.unmarshalMsg enc buf = (Legacy.innerPrefixTobitstr m >>= fun m' => Legacy.fixLeafSize m' enc) := by
  unfold Legacy.unmarshalMsg; rw [hd]; rfl

theorem unmarshalMsg_legacy3 (enc : Option Nat) (buf : Bytes) (ver : String) (ch steps lvs : Array32Msg)
    (hd : unmarshalDispatch buf = .ok (.legacy3 ver ch steps lvs)) :
    Legacy.unmarshalMsg enc buf = (Legacy.convert ch steps lvs enc >>= fun t => pure (Slim.encodeCreator t)) := by
  unfold Legacy.unmarshalMsg; rw [hd]; rfl

/-! ### non-vacuity: the decision table on the six compatible versions and two others -/

example : (["1.0.0", "0.5.8", "0.5.9", "0.5.10", "0.5.11", "0.5.12", "0.5.7", "0.6.0"].map fun ver =>
    (Generated.WP.Unmarshal_plan (isCompatible ver) (check ver)).drop 2)
    = [planOf (.legacy3 "" {} {} {}), planOf (.legacy3 "" {} {} {}), planOf (.legacy3 "" {} {} {}),
       planOf (.v0510 "" {}), planOf (.v0510 "" {}), planOf (.current {}), [], []] := by decide

example : (["1.0.0", "0.5.8", "0.5.9"].map fun ver => Generated.WP.before000510_plan true (check ver))
    = [["before000510ToNewChildrenArray"], ["before000510ToNewChildrenArray"], ["before000510ToNewChildrenArray"]] := by
  decide

/-- the hypotheses of `Unmarshal_plan_sem` are satisfiable: what `Marshal` writes for a well-formed message
    (`SlimProofs.WireMarshal.unmarshal_marshal`) -/
example (m : SlimMsg) (hwf : m.WF) (hnf : m.NF) (hb : BodyOK (encodeSlim m)) :
    ∃ h r l, readHeader (marshalSlim m) = .ok (h, r) ∧ unmarshalDispatch (marshalSlim m) = .ok l := by
  have hu := unmarshal_marshal m hwf hnf hb
  cases hr : readHeader (marshalSlim m) with
  | error e => unfold unmarshalDispatch at hu; rw [hr] at hu; cases hu
  | ok p => exact ⟨p.1, p.2, _, rfl, hu⟩

end BridgeSem

#print_axioms? BridgeSem.Unmarshal_plan_sem
#print_axioms? BridgeSem.Unmarshal_plan_incompatible
#print_axioms? BridgeSem.before000510_plan_sem
#print_axioms? BridgeSem.unmarshalMsg_v0510
#print_axioms? BridgeSem.unmarshalMsg_legacy3
