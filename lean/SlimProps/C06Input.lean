import SlimProps.C06Legacy3Wire
import SlimProofs.InputSmall
/-
  C06, 0.5.10 / 0.5.11 family, stated on the WRITER'S INPUT.

  `C06_load_legacy_0510` (SlimProps/C06Legacy3Wire.lean) still carries two allocation hypotheses
  about the intermediate trie `t` — `Refine.Small t` and `BodyOK (to0510 (Slim.encodeCreator t))` —
  and names `opt`, `t` through `hmode`, `hver`, `hb`.  Here every hypothesis is about
  `mode`, `ver`, `keys`, `vals`, `w` (and the stream the writer returned):

    hwr  : write0510 mode ver keys vals = .ok stream     the (reconstructed) old writer produced it
    hk   : keys ≠ []                                     (the empty set is `C06_load_legacy_0510_empty`)
    hi   : InputSmall keys (some vals)                   514·|keys| + key bytes + value bytes + 64 < 2^31
    hw, hvw : fixed-width values of width `w > 0`        (all that 0.5.10 supported)

  That the mode and version were valid and that `build` succeeded follows from `hwr`
  (`InputLegacy.write0510_inv`); `Small t` and the 0.5.10 `BodyOK` follow from `hi`
  (`small_of_input`, `bodyOK_0510_of_input`).  The option set `opt` of the mode and the trie `t`
  the old writer built appear existentially (the statement needs `t` to name the expected values).
-/
open Wire Frame Version Legacy LegacyWrite LegacyConvert Refine

/-- **C06, 0.5.10 / 0.5.11 (nopref / innpref / allpref), from the bytes, hypotheses on the input
    only.**  Loading the writer's stream into any instance succeeds; every retained key is found
    with its value, `RangeGet` answers every indexed key with the value of its run, `Search`
    returns the exact retained neighbours, every lookup of every query is total, and `Stat`
    reports exactly the retained keys. -/
theorem C06_load_legacy_0510_input (mode ver : String) (keys vals : List Bytes) (w : Nat)
    (stream : Bytes)
    (hwr : write0510 mode ver keys vals = .ok stream) (hk : keys ≠ [])
    (hi : InputSmall keys (some vals))
    (hw : 0 < w) (hvw : ∀ v ∈ vals, v.length = w) (σ : Instance) :
    ∃ opt t, optOfMode mode = some opt ∧ build keys (some vals) opt = .ok t ∧
    (let r := Instance.unmarshal σ (some w) stream
     let v := Slim.view r.1.inner
     let mask := keepMask keys.length (some vals) opt.dedup
     r.2 = none ∧ r.1.varsNil = false ∧
     (∀ i, i < keys.length → keptAt mask i = true →
       get v (keys.getD i []) = .ok (some (expectedValue (some vals) t i)) ∧
       search v (keys.getD i []) =
         .ok (valOf mask (some vals) (prevKept mask i), valOf mask (some vals) (some i),
              valOf mask (some vals) (nextKept mask i))) ∧
     (∀ i, i < keys.length → rangeGet v (keys.getD i []) = .ok (some (recVal mask (some vals) i))) ∧
     (∀ q, (∃ a, getID v q = .ok a) ∧ (∃ a, get v q = .ok a) ∧ (∃ a, rangeGet v q = .ok a) ∧
       (∃ a, search v q = .ok a)) ∧
     (∃ nodeCnt, Slim.stat r.1.inner r.1.levels
       = .ok { levels := r.1.levels, keyCnt := (retained keys (some vals) opt.dedup).length,
               nodeCnt := nodeCnt })) := by
  obtain ⟨opt, t, hmode, hver, hb⟩ := InputLegacy.write0510_inv mode ver keys vals stream hwr hk
  exact ⟨opt, t, hmode, hb,
    C06_load_legacy_0510 mode ver keys vals opt t w stream hmode hver hwr hb hk
      (small_of_input keys (some vals) opt t hb hi)
      (bodyOK_0510_of_input keys (some vals) opt t hb hk hi) hw hvw σ⟩

/-- the values are reported as supplied: with non-empty values the expected value of a retained key
    is its own value (`expectedValue` only hides the all-values-empty corner) -/
theorem C06_load_legacy_0510_input_get (mode ver : String) (keys vals : List Bytes) (w : Nat)
    (stream : Bytes)
    (hwr : write0510 mode ver keys vals = .ok stream) (hk : keys ≠ [])
    (hi : InputSmall keys (some vals))
    (hw : 0 < w) (hvw : ∀ v ∈ vals, v.length = w) (σ : Instance) :
    ∃ opt, optOfMode mode = some opt ∧
      (Instance.unmarshal σ (some w) stream).2 = none ∧
      ∀ i, i < keys.length → keptAt (keepMask keys.length (some vals) opt.dedup) i = true →
        ∃ x, get (Slim.view (Instance.unmarshal σ (some w) stream).1.inner) (keys.getD i [])
          = .ok (some x) ∧ x.getD [] = vals.getD i [] := by
  obtain ⟨opt, t, hmode, hb, h⟩ :=
    C06_load_legacy_0510_input mode ver keys vals w stream hwr hk hi hw hvw σ
  obtain ⟨h1, _, h3, _⟩ := h
  refine ⟨opt, hmode, h1, ?_⟩
  intro i hi' hkept
  refine ⟨_, (h3 i hi' hkept).1, ?_⟩
  unfold expectedValue
  simp only
  split
  · next h0 =>
    -- all stored values empty: then the supplied value is empty too — impossible for w > 0
    exfalso
    have hlen := build_vals_length keys vals opt t hb hk
    obtain ⟨es, helts, hne, hes⟩ := build_elts_fixed keys vals opt t w hb hk hvw
    have := build_elts keys (some vals) opt t hb hk
    rw [helts] at this
    simp only [Option.map_some, Option.some.injEq] at this
    rw [← this] at h0
    cases es with
    | nil => exact hne rfl
    | cons e es' =>
      have he := hes e (by simp)
      have h00 := (eltsTotal_eq_zero_iff (e :: es')).mp h0
      simp only [List.all_cons, Bool.and_eq_true, List.isEmpty_iff] at h00
      rw [h00.1] at he
      simp at he
      omega
  · rfl

/-! ### non-vacuity -/

namespace C06Input

open C06L3.Ex

example : InputSmall keys (some vals) := by decide

/-- the allpref-0.5.10 stream of five keys ("a" is a prefix of "ab") satisfies every hypothesis of
    `C06_load_legacy_0510_input` — all of them by evaluation on the input; hence any instance that
    loads it finds "ab" with value `[2]`, reports 5 keys and answers every lookup -/
example (σ : Instance) : ∃ stream, write0510 "allpref" "0.5.10" keys vals = .ok stream ∧
    (Instance.unmarshal σ (some 1) stream).2 = none ∧
    (∃ x, get (Slim.view (Instance.unmarshal σ (some 1) stream).1.inner) [0x61, 0x62]
        = .ok (some x) ∧ x.getD [] = [2]) ∧
    ∀ q, ∃ a, search (Slim.view (Instance.unmarshal σ (some 1) stream).1.inner) q = .ok a := by
  have hok : (write0510 "allpref" "0.5.10" keys vals).toBool = true := by decide +kernel
  match hs : write0510 "allpref" "0.5.10" keys vals with
  | .error e => rw [hs] at hok; cases hok
  | .ok stream =>
    have hk : keys ≠ [] := by decide
    obtain ⟨opt, t, hmode, hb, h⟩ := C06_load_legacy_0510_input "allpref" "0.5.10" keys vals 1 stream
      hs hk (by decide) (by omega) (by decide) σ
    obtain ⟨r1, _, _, _, r5, _⟩ := h
    obtain ⟨opt', hmode', _, hget⟩ := C06_load_legacy_0510_input_get "allpref" "0.5.10" keys vals 1
      stream hs hk (by decide) (by omega) (by decide) σ
    have hopt : opt' = { inner := true, leaf := true } := by
      have : optOfMode "allpref" = some { inner := true, leaf := true } := by decide
      rw [this] at hmode'
      exact (Option.some.inj hmode').symm
    subst hopt
    obtain ⟨x, hx, hxv⟩ := hget 1 (by decide) (by decide)
    exact ⟨stream, rfl, r1, ⟨x, hx, hxv⟩, fun q => (r5 q).2.2.2⟩

end C06Input

#print axioms C06_load_legacy_0510_input
#print axioms C06_load_legacy_0510_input_get
